(* Generic driver for an extracted model: Model.run, Model.check, Model.agree over
   the s-expression form of Model.val. One case per line on stdin:
     <input>                      -> prints <model output>
     <input> TAB <impl output>    -> prints <model output> TAB <check 0/1> TAB <agree 0/1>
   Integers are converted between OCaml int and the extracted binary Z; nothing
   else is interpreted here. *)
(* no [open Model]: extracted names (incr, fst, length, ...) must not shadow Stdlib *)
type positive = Model.positive = XI of positive | XO of positive | XH
type z = Model.z = Z0 | Zpos of positive | Zneg of positive
type val0 = Model.val0 = I of z | L of val0 list
let run = Model.run
let check = Model.check
let agree = Model.agree

let rec pos_of_int n =
  if n = 1 then XH
  else if n land 1 = 0 then XO (pos_of_int (n lsr 1))
  else XI (pos_of_int (n lsr 1))
let z_of_int n = if n = 0 then Z0 else if n > 0 then Zpos (pos_of_int n) else Zneg (pos_of_int (-n))
let rec int_of_pos = function XH -> 1 | XO p -> 2 * int_of_pos p | XI p -> 2 * int_of_pos p + 1
let int_of_z = function Z0 -> 0 | Zpos p -> int_of_pos p | Zneg p -> - (int_of_pos p)

exception Parse_error

let parse (s : string) : val0 =
  let n = String.length s in
  let i = ref 0 in
  let skip () = while !i < n && s.[!i] = ' ' do incr i done in
  let rec value () =
    skip ();
    if !i >= n then raise Parse_error;
    if s.[!i] = '(' then begin
      incr i;
      let items = ref [] in
      let rec loop () =
        skip ();
        if !i >= n then raise Parse_error;
        if s.[!i] = ')' then incr i
        else begin items := value () :: !items; loop () end in
      loop ();
      L (List.rev !items)
    end else begin
      let j = !i in
      while !i < n && s.[!i] <> ' ' && s.[!i] <> ')' && s.[!i] <> '(' do incr i done;
      if !i = j then raise Parse_error;
      match int_of_string_opt (String.sub s j (!i - j)) with
      | Some k -> I (z_of_int k)
      | None -> raise Parse_error
    end in
  let v = value () in
  skip ();
  if !i <> n then raise Parse_error;
  v

let rec print b = function
  | I z -> Buffer.add_string b (string_of_int (int_of_z z))
  | L l ->
    Buffer.add_char b '(';
    List.iteri (fun k v -> if k > 0 then Buffer.add_char b ' '; print b v) l;
    Buffer.add_char b ')'

let to_string v = let b = Buffer.create 256 in print b v; Buffer.contents b

(* A case on which the model does not finish is a case on which it cannot vouch for the implementation:
   the implementation side can hand over absurd values (an index of 2^30 from a broken loader makes a model
   that counts in unary run for hours). Each case gets a time budget; when it is used up the case is
   answered ERR (the runner counts that as "property not shown, model and implementation differ"). *)
exception Case_timeout
let case_limit = ref (try int_of_string (Sys.getenv "VERIF_MODEL_CASE_S") with _ -> 20)
(* the budget is CPU time of this process (ITIMER_VIRTUAL), not wall-clock time: on a loaded machine a case that needs
   4 s of computation can take a minute of wall time, and a wall-clock alarm then fails correct cases *)
let () = Sys.set_signal Sys.sigvtalrm (Sys.Signal_handle (fun _ -> raise Case_timeout))
let set_budget (s : int) =
  ignore (Unix.setitimer Unix.ITIMER_VIRTUAL { Unix.it_interval = 0.0; Unix.it_value = float_of_int s })

let () =
  let out = Buffer.create 65536 in
  (try
     while true do
       let line = input_line stdin in
       (match String.split_on_char '\t' line with
        | [] | [""] -> Buffer.add_string out "ERR empty\n"
        | inp :: rest ->
          (try
             set_budget !case_limit;
             let vi = parse inp in
             let m = run vi in
             (match rest with
              | [] -> Buffer.add_string out (to_string m); Buffer.add_char out '\n'
              | o :: _ ->
                let vo = parse o in
                let c = check vi vo in
                let a = agree vi m vo in
                Buffer.add_string out (to_string m);
                Buffer.add_string out (if c then "\t1" else "\t0");
                Buffer.add_string out (if a then "\t1\n" else "\t0\n"))
           with
           | Parse_error -> Buffer.add_string out "ERR parse\n"
           | Stack_overflow -> Buffer.add_string out "ERR stack\n"
           | Out_of_memory -> Buffer.add_string out "ERR memory\n"
           | Case_timeout ->
             (* an implementation that is broken in this way is usually broken on many cases: do not spend the
                full budget on each of them *)
             case_limit := max 4 (!case_limit / 2);
             Buffer.add_string out "ERR timeout\n");
          set_budget 0);
       if Buffer.length out > 60000 then begin print_string (Buffer.contents out); Buffer.clear out end
     done
   with End_of_file -> ());
  print_string (Buffer.contents out)

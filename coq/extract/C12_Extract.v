From Coq Require Import extraction.Extraction extraction.ExtrOcamlBasic.
From TU Require Import Base C12_Model C12_UAX29 C12_Float.
Definition run := run_C12F.
Definition check := check_C12F.
Definition agree (inp m i : val) : bool := agree_C12F inp m i && uax29_agree inp.
Extraction "model.ml" run check agree.

From Coq Require Import extraction.Extraction extraction.ExtrOcamlBasic.
From TU Require Import Base C12_Model C12_UAX29 C12_Float C12_Fast C12_FastRun.
(** [run_R] = [run_C12F], [check_R] = [check_C12F] for every input (C12_FastFlProps.v); above the size
    threshold [big] they are computed by the binary-number dynamic programme of C12_Fast.v alone, below it
    by the old model with the fast one next to it inside [agree_R]. *)
Definition run := run_R.
Definition check := check_R.
Definition agree := agree_R.
Extraction "model.ml" run check agree.

From Coq Require Import extraction.Extraction extraction.ExtrOcamlBasic.
From TU Require Import Base C12_Model C12_UAX29.
Definition run := run_C12.
Definition check := check_C12.
Definition agree (inp m i : val) : bool := agree_C12 inp m i && uax29_agree inp.
Extraction "model.ml" run check agree.

From Coq Require Import extraction.Extraction extraction.ExtrOcamlBasic.
From TU Require Import Base C12_Model.
Definition run := run_C12.
Definition check := check_C12.
Definition agree := agree_C12.
Extraction "model.ml" run check agree.

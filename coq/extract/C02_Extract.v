From Coq Require Import extraction.Extraction extraction.ExtrOcamlBasic.
From TU Require Import Base BPE_Model C02_Model MsgPack_Model C02_File.
(* the merge file is inside the model (C02_File.v): explicit file bytes in the input are decoded by
   MsgPack_Model.mp_parse; the bytes the real tokenizer was built from and the real loader's reading of
   them (last two fields of the implementation output) must be what the model reads / would write *)
Definition run := run_C02f.
Definition check := check_C02f.
Definition agree (inp m i : val) : bool := agree_C02f inp m i.
Extraction "model.ml" run check agree.

From Coq Require Import extraction.Extraction extraction.ExtrOcamlBasic.
From TU Require Import Base BPE_Model C02_Model.
Definition run := run_C02.
Definition check := check_C02.
Definition agree (inp m i : val) : bool := val_eqb m i.
Extraction "model.ml" run check agree.

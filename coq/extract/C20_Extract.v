From Coq Require Import extraction.Extraction extraction.ExtrOcamlBasic.
From TU Require Import Base C20_Model C20_Words.
(* the words of every line (regex matches of split_words, clusters, is_alphabetic / is_punctuation) are
   computed by the model from the RAW line (clean + NFKC + UCD_Model + UAX29_Model); the oracle words of
   the harness must equal them (ucd_agree), their clusters must be the model's segmentation (uax29_agree);
   check additionally demands that all builds of a case return the same dictionary (builds_same) *)
Definition run := run_C20u.
Definition check := check_C20u.
Definition agree (inp m i : val) : bool := agree_C20u inp m i.
Extraction "model.ml" run check agree.

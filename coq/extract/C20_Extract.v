From Coq Require Import extraction.Extraction extraction.ExtrOcamlBasic.
From TU Require Import Base C20_Model C20_Words C20_Bytes C20_Float C20_Fast.
(* Third session, topic M.  The corpus files enter as BYTES: the model reads the lines itself (Lines_Model.lossy_lines,
   the crate's lossy reader that Dictionary::create uses since D16) and computes the words of every line from them
   (clean + NFKC + UCD_Model + UAX29_Model); the dictionary file is arbitrary bytes (a line that is not UTF-8 is a
   load error); the keys are segmented and the queries NFKC-normalised and segmented by the model; the relative
   frequencies and the distances of get / get_closest are binary64 values (Flocq, C12_Float) compared bit for bit, and
   get_closest is compared exactly on the implementation's own iteration order.  The oracles the harness still sends
   (lines, words, clusters, normalised queries) are cross-checks inside agree (reader_agree, ucd_agree, uax29_agree,
   query_agree); check additionally demands identical builds (builds_same) and relative frequencies in [0,1]. *)
(* Topic R: what runs is C20_Fast.v — the same functions with the edit distances computed by the binary-number dynamic
   programme of C12_Fast.v (run_C20f_f = run_C20f, check_C20f_f = check_C20f, agree_C20f_f = agree_C20f for every input:
   C20_FastProps.v); on inputs with a small dictionary file the old unary model runs next to it and must give the same
   output. *)
Definition small (v : val) : bool := Nat.ltb (length (in_dfile v)) 400.
Definition run := run_C20f_f.
Definition check := check_C20f_f.
Definition agree (inp m i : val) : bool :=
  agree_C20f_f inp m i && (if small inp then val_eqb (run_C20f inp) m else true).
Extraction "model.ml" run check agree.

From Coq Require Import extraction.Extraction extraction.ExtrOcamlBasic.
From TU Require Import Base C20_Model.
Definition run := run_C20.
Definition check := check_C20.
Definition agree (inp m i : val) : bool := agree_C20 inp m i && uax29_agree inp.
Extraction "model.ml" run check agree.

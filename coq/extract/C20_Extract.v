From Coq Require Import extraction.Extraction extraction.ExtrOcamlBasic.
From TU Require Import Base C20_Model C20_Words C20_Bytes C20_Float.
(* Third session, topic M.  The corpus files enter as BYTES: the model reads the lines itself (Lines_Model.lossy_lines,
   the crate's lossy reader that Dictionary::create uses since D16) and computes the words of every line from them
   (clean + NFKC + UCD_Model + UAX29_Model); the dictionary file is arbitrary bytes (a line that is not UTF-8 is a
   load error); the keys are segmented and the queries NFKC-normalised and segmented by the model; the relative
   frequencies and the distances of get / get_closest are binary64 values (Flocq, C12_Float) compared bit for bit, and
   get_closest is compared exactly on the implementation's own iteration order.  The oracles the harness still sends
   (lines, words, clusters, normalised queries) are cross-checks inside agree (reader_agree, ucd_agree, uax29_agree,
   query_agree); check additionally demands identical builds (builds_same) and relative frequencies in [0,1]. *)
Definition run := run_C20f.
Definition check := check_C20f.
Definition agree (inp m i : val) : bool := agree_C20f inp m i.
Extraction "model.ml" run check agree.

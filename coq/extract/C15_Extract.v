From Coq Require Import extraction.Extraction extraction.ExtrOcamlBasic.
From TU Require Import Base C15_Model C15_Seam.
Definition run := run_C15.
Definition check := check_C15.
(** relational correspondence: the provider probe must be equal, and every
    (word, exclusion set) the implementation returned along the chain must be an
    element of the model's outcome set for that call (texts compared as code-point
    strings, exclusion sets as sets). In grapheme mode additionally ([agree_C15u]):
    every cluster list the harness supplies (words of the chain, table strings, returned
    words) is [segment] of its concatenation; the harness' per-call seam flags are the
    model's ([step_ss]: some explaining candidate is a chain) and the KF1-seam class flag is
    exactly "explained, but by no chain"; the harness' [edit_safe] flag is the model's *)
Definition agree (inp m i : val) : bool := agree_C15u inp m i.
Extraction "model.ml" run check agree.

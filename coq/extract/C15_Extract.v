From Coq Require Import extraction.Extraction extraction.ExtrOcamlBasic.
From TU Require Import Base C15_Model.
Definition run := run_C15.
Definition check := check_C15.
(** relational correspondence: the provider probe must be equal, and every
    (word, exclusion set) the implementation returned along the chain must be an
    element of the model's outcome set for that call (texts compared as code-point
    strings, exclusion sets as sets) *)
Definition agree (inp m i : val) : bool := agree_C15 false inp i.
Extraction "model.ml" run check agree.

From Coq Require Import extraction.Extraction extraction.ExtrOcamlBasic.
From TU Require Import RNG_Model.
From TU Require Import Base C15_Model C15_Seam C15_Seeded C15_Classes C15_Tables C15_Spell.
(** model output = (relational-model-output seeded): [seeded] = the results of the calls of the chain
    (resp. the words corrupt_spelling returns) computed FROM THE SEED by the generator model
    (RNG_Model: ChaCha8, random_range, WeightedIndex<f64>) and the generator's final position *)
(** fourth stream: the corrupted text as [C15_Spell.spell_text] computes it from the text, the dictionary content,
    the misspellings, the probabilities and the seed (words, clusters, classes, tables, draws all inside) *)
Definition run := run_C15t.
(** the executable statement on the relational part of the implementation output; corrupt_spelling
    stream: additionally two independent runs on the same text and seed returned the same words *)
(** fourth stream: the two runs agree; inside the domain [dom4] neither panicked *)
Definition check := check_C15t.
(** two lines.
    Relational (unchanged, on the first component of the outputs): the provider probe must be equal, and
    every (word, exclusion set) the implementation returned along the chain must be an element of the
    model's outcome set for that call (texts compared as code-point strings, exclusion sets as sets). In
    grapheme mode additionally ([agree_C15u]): every cluster list the harness supplies (words of the
    chain, table strings, returned words) is [segment] of its concatenation; the harness' per-call seam
    flags are the model's ([step_ss]: some explaining candidate is a chain) and the KF1-seam class flag is
    exactly "explained, but by no chain"; the harness' [edit_safe] flag is the model's.
    EXACT ([exact_edit] / [exact_e2e] of C15_Seeded): given the seed, every (word, exclusion set) along
    the chain equals the seeded model's, call for call, the generator ends at the same word position,
    and the flags "weight > 0" of the tables are the signs of the f64 weights; corrupt_spelling stream:
    the words of the corrupted text equal the seeded model's.
    CLASSES (all streams): every class boolean the harness sends (can_delete / can_swap per call, the class
    oracle of the corrupt_spelling streams) equals the model's ([C15_Classes.classes_ok], UCD_Model).
    FOURTH STREAM: both runs print exactly the model's text (or both panic where the model faults), and the
    harness' view of the text (split_words, clusters, classes from the real crate) is the model's ([aux_ok]). *)
Definition agree (inp m i : val) : bool := agree_C15t agree_C15u inp m i.
Extraction "model.ml" run check agree.

From Coq Require Import extraction.Extraction extraction.ExtrOcamlBasic.
From TU Require Import Base C08_Model Pipeline_Model C08_Pipeline Pipeline_Tasks C08_Bytes Pipeline_Spell Pipeline_Stages.
(** lines -5 / -6 / -7 (topic N: stage tables, TokenMasking, the Geometric sampler): Pipeline_Stages; every other line as before *)
Definition run := run_C08n run_C08z.
Definition check := check_C08n.
Definition agree := agree_C08n.
Extraction "model.ml" run check agree.

From Coq Require Import extraction.Extraction extraction.ExtrOcamlBasic.
From TU Require Import Base C08_Model.
Definition run := run_C08.
Definition check := check_C08.
Definition agree := agree_C08.
Extraction "model.ml" run check agree.

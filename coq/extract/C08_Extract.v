From Coq Require Import extraction.Extraction extraction.ExtrOcamlBasic.
From TU Require Import Base C08_Model Pipeline_Model C08_Pipeline Pipeline_Tasks C08_Bytes Pipeline_Spell Pipeline_Stages Pipeline_Toks.
(** lines -5 / -6 / -7 (topic N: stage tables, TokenMasking, the Geometric sampler): Pipeline_Stages; lines -8 / -9 (topic Q: every
    tokenizer kind in the task): Pipeline_Toks; every other line as before *)
Definition run := run_C08q (run_C08n run_C08z).
Definition check := check_C08q.
Definition agree := agree_C08q.
Extraction "model.ml" run check agree.

From Coq Require Import extraction.Extraction extraction.ExtrOcamlBasic.
From TU Require Import Base C08_Model Pipeline_Model C08_Pipeline Pipeline_Tasks C08_Bytes Pipeline_Spell.
Definition run := run_C08z.
Definition check := check_C08y.
Definition agree := agree_C08y.
Extraction "model.ml" run check agree.

From Coq Require Import extraction.Extraction extraction.ExtrOcamlBasic.
From TU Require Import Base C08_Model Pipeline_Model C08_Pipeline.
Definition run := run_C08x.
Definition check := check_C08x.
Definition agree := agree_C08x.
Extraction "model.ml" run check agree.

From Coq Require Import extraction.Extraction extraction.ExtrOcamlBasic.
From TU Require Import Base C19_Model C19_Lit NFKC_Tie MsgPack_Model C19_File C19_Lines.
(* the training model works on the input as [norm_input] presents it: per file the first max_lines_per_file
   entries of the oracle field proc without the markers of lines that are not UTF-8 (C19_Lines.v) *)
Definition run := run_C19n.
Definition check := check_C19n.
(* relational check of the table (agree_C19) and the literal replay of the observed statistics (trace_ok), on the
   normalised input;
   lines_agree_b: the model's own reading of the raw file BYTES (split at 0x0A, strip 0x0D, last piece without newline,
   strict UTF-8 decoding per line: a line that is not UTF-8 must carry the marker, every other line must equal the
   model's own clean + normalize of its text) equals the oracle field proc; side_agree: normalize_model equals the
   crate's normalize on every side-channel string (4 forms x 2 modes; field 6 of the implementation output);
   file_agree_C19: the bytes train_bpe wrote (field 7) are mp_encode of the table in the file's entry order and
   decode, by the model's own MessagePack reader, to the table the real loader returned (field 0) *)
Definition agree (inp m i : val) : bool :=
  agree_lit (norm_input inp) m i && lines_agree_b inp && side_agree inp i && file_agree_C19 i.
Extraction "model.ml" run check agree.

From Coq Require Import extraction.Extraction extraction.ExtrOcamlBasic.
From TU Require Import Base C19_Model C19_Lit NFKC_Tie MsgPack_Model C19_File.
Definition run := run_C19.
Definition check := check_C19.
(* relational check of the table (agree_C19) and the literal replay of the observed statistics (trace_ok);
   nf_agree: the model's own BufRead::lines + clean + normalize of every raw corpus line equals the proc
   oracle, and its normalize_model equals the crate's normalize on every side-channel string (4 forms x 2 modes; results in field 6 of the implementation output);
   file_agree_C19: the bytes train_bpe wrote (field 7) are mp_encode of the table in the file's entry order and
   decode, by the model's own MessagePack reader, to the table the real loader returned (field 0) *)
Definition agree (inp m i : val) : bool := agree_lit inp m i && nf_agree inp i && file_agree_C19 i.
Extraction "model.ml" run check agree.

From Coq Require Import extraction.Extraction extraction.ExtrOcamlBasic.
From TU Require Import Base C19_Model C19_Lit.
Definition run := run_C19.
Definition check := check_C19.
(* relational check of the table (agree_C19) and the literal replay of the observed statistics (trace_ok) *)
Definition agree (inp m i : val) : bool := agree_lit inp m i.
Extraction "model.ml" run check agree.

From Coq Require Import extraction.Extraction extraction.ExtrOcamlBasic.
From TU Require Import Base C19_Model.
Definition run := run_C19.
Definition check := check_C19.
Definition agree (inp m i : val) : bool := agree_C19 inp m i.
Extraction "model.ml" run check agree.

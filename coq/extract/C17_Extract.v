From Coq Require Import extraction.Extraction extraction.ExtrOcamlBasic.
From TU Require Import Base C17_Model.
Definition run := run_C17.
Definition check := check_C17.
Definition agree (inp m i : val) : bool := agree_C17 inp m i.
Extraction "model.ml" run check agree.

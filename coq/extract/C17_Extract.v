From Coq Require Import extraction.Extraction extraction.ExtrOcamlBasic.
From TU Require Import Base C17_Model C17_UAX29 C17_Float.
Definition run := run_C17F.
Definition check := check_C17F.
Definition agree (inp m i : val) : bool := agree_C17F inp m i && uax29_agree inp.
Extraction "model.ml" run check agree.

From Coq Require Import extraction.Extraction extraction.ExtrOcamlBasic.
From TU Require Import Base C17_Model C17_UAX29.
Definition run := run_C17.
Definition check := check_C17.
Definition agree (inp m i : val) : bool := agree_C17 inp m i && uax29_agree inp.
Extraction "model.ml" run check agree.

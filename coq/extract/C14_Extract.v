From Coq Require Import extraction.Extraction extraction.ExtrOcamlBasic.
From TU Require Import Base C14_Model C14_Seam C14_Seeded.
(** [run] is the SEEDED model: it reads only (mode, text, seed, prefix/suffix counts, the two
    probabilities as binary64 values) and computes the r-stream (ChaCha8, seed_from_u64,
    random::<f64>: RNG_Model.v) and the thresholds of the f64 comparison itself. *)
Definition run := run_C14s.
Definition check := check_C14.
(** three lines, all must hold: (1) the seeded run equals the implementation's output exactly;
    (2) the oracle model [run_C14] on the r-stream the harness replicated agrees too, and in
    grapheme mode the cluster lists of the text and of the corrupted text are [segment] of their
    concatenation, the harness' safety flag is the model's [corrupt_safe], and inside the domain
    of [corrupt_labels_u] the KF1 class flag is off ([agree_C14]); (3) the oracle fields are the
    model's own: replicated stream = [stream seed], integer thresholds = ceil(p * 2^53) clamped
    ([seeded_xcheck]) *)
Definition agree (inp m i : val) : bool := agree_C14s inp m i.
Extraction "model.ml" run check agree.

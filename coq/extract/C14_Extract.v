From Coq Require Import extraction.Extraction extraction.ExtrOcamlBasic.
From TU Require Import Base C14_Model C14_Seam.
Definition run := run_C14.
Definition check := check_C14.
(** exact on the outputs; in grapheme mode additionally: the cluster lists of the text and of the
    corrupted text are [segment] of their concatenation ([uax29_agree]), the harness' safety flag
    is the model's [corrupt_safe], and inside the domain of [corrupt_labels_u] the KF1 class flag
    is off ([xcheck]) *)
Definition agree (inp m i : val) : bool := agree_C14 inp m i.
Extraction "model.ml" run check agree.

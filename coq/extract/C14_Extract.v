From Coq Require Import extraction.Extraction extraction.ExtrOcamlBasic.
From TU Require Import Base C14_Model.
Definition run := run_C14.
Definition check := check_C14.
Definition agree (inp m i : val) : bool := val_eqb m i.
Extraction "model.ml" run check agree.

From Coq Require Import extraction.Extraction extraction.ExtrOcamlBasic.
From TU Require Import Base C06_Model C06_Seeded.
(** [run] is the SEEDED model: it computes shuffle permutations and random_range indices from the
    seed (ChaCha8, seed_from_u64, shuffle with IncreasingUniform, Canon's method: RNG_Model.v) in the
    order the code draws them; it reads (items, configuration, seed) and nothing else. *)
Definition run := run_C06s.
Definition check := check_C06.
(** (1) the implementation's batch sequence equals the seeded run's, batch for batch, order inside
    batches included; (2) the relational replay accepts it; (3) shuffling modes: the lock-step replay
    with the draws the harness made on the real rand crates accepts it too (cross-check),
    deterministic modes: the whole output equals the model's (seeded = oracle run there) *)
Definition agree (inp m i : val) : bool := agree_C06s inp m i.
Extraction "model.ml" run check agree.

From Coq Require Import extraction.Extraction extraction.ExtrOcamlBasic.
From TU Require Import Base C06_Model C06_Seeded C06_Machine.
(** [run] is the SEEDED model: it computes shuffle permutations and random_range indices from the
    seed (ChaCha8, seed_from_u64, shuffle with IncreasingUniform, Canon's method: RNG_Model.v) in the
    order the code draws them; it reads (items, configuration, seed) and nothing else.  On inputs
    with a number of 2^21 or more (the EXTREME stream: every usize for limit, prefetch factor and
    item sizes) the unbounded model, which counts in unary, cannot be evaluated: there [run] is the
    machine-integer model of the repaired code (C06_Machine.v), which the theorems of
    C06_MachineTop.v relate to the unbounded model for every input. *)
Definition run (v : val) : val := if smallb v then run_C06s v else run_M06s Checked true v.
(** the executable statement with all products computed in N (every usize), and on the small domain
    the unary one next to it *)
Definition check (v o : val) : bool := check_M06 v o && (if smallb v then check_C06 v o else true).
(** MACHINE line (every case, the harness built with and without overflow checks): both profiles
    of the machine model emit the implementation's batch sequence.  Small domain, as before:
    (1) the implementation's batch sequence equals the seeded run's, batch for batch, order inside
    batches included; (2) the relational replay accepts it; (3) shuffling modes: the lock-step replay
    with the draws the harness made on the real rand crates accepts it too (cross-check),
    deterministic modes: the whole output equals the model's (seeded = oracle run there) *)
Definition agree (inp m i : val) : bool :=
  machine_agree inp i && (if smallb inp then agree_C06s inp m i else true).
Extraction "model.ml" run check agree.

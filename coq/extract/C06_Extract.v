From Coq Require Import extraction.Extraction extraction.ExtrOcamlBasic.
From TU Require Import Base C06_Model.
Definition run := run_C06.
Definition check := check_C06.
Definition agree (inp m i : val) : bool := agree_C06 inp m i.
Extraction "model.ml" run check agree.

From Coq Require Import extraction.Extraction extraction.ExtrOcamlBasic.
From TU Require Import Base C04_Model MsgPack_Model C04_File.
(* exact on the eleven fields; BPE: the bytes of the merge file and the real loader's reading of them (fields
   11, 12 of the implementation output) must be what the model reads / would write (C04_File.v) *)
Definition run := run_C04.
Definition check := check_C04f.
Definition agree (inp m i : val) : bool := agree_C04f inp m i.
Extraction "model.ml" run check agree.

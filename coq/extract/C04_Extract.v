From Coq Require Import extraction.Extraction extraction.ExtrOcamlBasic.
From TU Require Import Base C04_Model.
Definition run := run_C04.
Definition check := check_C04.
Definition agree (inp m i : val) : bool := val_eqb m i.
Extraction "model.ml" run check agree.

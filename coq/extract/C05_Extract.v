From Coq Require Import extraction.Extraction extraction.ExtrOcamlBasic.
From TU Require Import Base Pipe_Model C05_Model.
Definition run := run_C05.
Definition check := check_C05.
Definition agree (inp m i : val) : bool := val_eqb m i.
Extraction "model.ml" run check agree.

From Coq Require Import extraction.Extraction extraction.ExtrOcamlBasic.
From TU Require Import Base C10_Model C10_Seam.
Definition run := run_C10.
Definition check := check_C10.
(** exact on the outputs; in grapheme mode additionally: the cluster lists the harness supplies
    are [segment] of their concatenation ([uax29_agree]), the harness' seam flag is the model's
    [seam_safe], and inside the domain of [operations_repair_roundtrip_u] the KF1 class flag is
    off ([xcheck]) *)
Definition agree (inp m i : val) : bool := agree_C10 inp m i.
Extraction "model.ml" run check agree.

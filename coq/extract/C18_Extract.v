From Coq Require Import extraction.Extraction extraction.ExtrOcamlBasic.
From TU Require Import Base C18_Model C18_Lower.
(* ignore_case: the model lower-cases the raw words itself (UCD_Model.to_lowercase); the lower-cased
   words sent by the harness (str::to_lowercase of the running std) must equal the model's — part of
   [agree], not of [check] *)
Definition run := run_C18u.
Definition check := check_C18u.
Definition agree (inp m i : val) : bool := agree_C18u inp m i.
Extraction "model.ml" run check agree.

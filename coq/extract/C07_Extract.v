From Coq Require Import extraction.Extraction extraction.ExtrOcamlBasic.
From TU Require Import Base C07_Model.
Definition run := run_C07.
Definition check := check_C07.
Definition agree (inp m i : val) : bool := agree_C07 inp m i.
Extraction "model.ml" run check agree.

From Coq Require Import extraction.Extraction extraction.ExtrOcamlBasic.
From TU Require Import Base C07_Model C07_Files.
Definition run := run_C07f.
Definition check := check_C07f.
Definition agree (inp m i : val) : bool := agree_C07f inp m i.
Extraction "model.ml" run check agree.

From Coq Require Import extraction.Extraction extraction.ExtrOcamlBasic.
From TU Require Import Base C07_Model.
Definition run := run_C07s.
Definition check := check_C07s.
Definition agree (inp m i : val) : bool := agree_C07s inp m i.
Extraction "model.ml" run check agree.

From Coq Require Import extraction.Extraction extraction.ExtrOcamlBasic.
From TU Require Import Base BPE_Model C03_Model MsgPack_Model C03_File C03_Limit.
(* exact on the ids; the bytes of the merge file the tokenizer was built from and the real loader's reading of
   them (fields 1, 2 of the implementation output) must be what the model reads / would write (C03_File.v) *)
(* the optional third field of the input is the number of merges a vocabulary limit keeps (C03_Limit.v) *)
Definition run := run_C03l.
Definition check := check_C03l.
Definition agree (inp m i : val) : bool := agree_C03l inp m i.
Extraction "model.ml" run check agree.

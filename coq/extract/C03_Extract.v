From Coq Require Import extraction.Extraction extraction.ExtrOcamlBasic.
From TU Require Import Base BPE_Model C03_Model MsgPack_Model C03_File.
(* exact on the ids; the bytes of the merge file the tokenizer was built from and the real loader's reading of
   them (fields 1, 2 of the implementation output) must be what the model reads / would write (C03_File.v) *)
Definition run := run_C03.
Definition check := check_C03f.
Definition agree (inp m i : val) : bool := agree_C03f inp m i.
Extraction "model.ml" run check agree.

From Coq Require Import extraction.Extraction extraction.ExtrOcamlBasic.
From TU Require Import Base BPE_Model C03_Model.
Definition run := run_C03.
Definition check := check_C03.
Definition agree (inp m i : val) : bool := val_eqb m i.
Extraction "model.ml" run check agree.

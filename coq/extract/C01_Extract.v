From Coq Require Import extraction.Extraction extraction.ExtrOcamlBasic.
From TU Require Import Base C01_Model C01_UAX29.
Definition run := run_C01.
Definition check := check_C01.
Definition agree (inp m i : val) : bool := agree_C01 inp m i && uax29_agree inp.
Extraction "model.ml" run check agree.

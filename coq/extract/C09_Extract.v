From Coq Require Import extraction.Extraction extraction.ExtrOcamlBasic.
From TU Require Import Base Pipe_Model C05_Model C09_Model C09_Hook.
Definition run := run_C09h.
Definition check := check_C09h.
Definition agree := agree_C09h.
Extraction "model.ml" run check agree.

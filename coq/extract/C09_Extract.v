From Coq Require Import extraction.Extraction extraction.ExtrOcamlBasic.
From TU Require Import Base Pipe_Model C05_Model C09_Model.
Definition run := run_C09.
Definition check := check_C09.
Definition agree := agree_C09.
Extraction "model.ml" run check agree.

From Coq Require Import extraction.Extraction extraction.ExtrOcamlBasic.
From TU Require Import Base C13_Model C13_Float.
Definition run := run_C13F.
Definition check := check_C13F.
Definition agree := agree_C13F.
Extraction "model.ml" run check agree.

From Coq Require Import extraction.Extraction extraction.ExtrOcamlBasic.
From TU Require Import Base C13_Model C13_Float.
(* run: the binary64 model on the RAW texts (clean + NFKC + segmentation computed by the model: rawify);
   check: the executable statement on the implementation output, against the oracle fields;
   agree: prep raw = oracle for every text, the harness' kf3_free / class flags = the model's, every f64 bit
   for bit (except rayon's sum over more than 32 sequences) and within 2^-40 of the rational model *)
Definition run := run_C13FN.
Definition check := check_C13FN.
Definition agree := agree_C13FN.
Extraction "model.ml" run check agree.

From Coq Require Import extraction.Extraction extraction.ExtrOcamlBasic.
From TU Require Import Base C13_Model.
Definition run := run_C13.
Definition check := check_C13.
Definition agree := agree_C13.
Extraction "model.ml" run check agree.

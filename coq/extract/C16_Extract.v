From Coq Require Import extraction.Extraction extraction.ExtrOcamlBasic.
From TU Require Import Base C16_Model C16_Machine C16_MachinePbs.
Definition run := run_C16.
Definition check := check_C16.
(* the implementation's output (its first four components) equals the unbounded model's, the cluster oracle is
   the model's segmentation, the machine-integer model (every usize operation explicit) yields the same output
   in both profiles, and the fifth component (possible_byte_substrings, when the harness ran it) equals the
   reference model and both profiles of its machine model *)
Definition agree (inp m i : val) : bool :=
  val_eqb m (first4 i) && uax29_agree inp && machine_agree inp m && pbs_agree inp i.
Extraction "model.ml" run check agree.

From Coq Require Import extraction.Extraction extraction.ExtrOcamlBasic.
From TU Require Import Base C16_Model C16_Machine.
Definition run := run_C16.
Definition check := check_C16.
(* the implementation's output equals the unbounded model's, the cluster oracle is the model's segmentation,
   and the machine-integer model (every usize operation explicit) yields the same output in both profiles *)
Definition agree (inp m i : val) : bool := val_eqb m i && uax29_agree inp && machine_agree inp m.
Extraction "model.ml" run check agree.

From Coq Require Import extraction.Extraction extraction.ExtrOcamlBasic.
From TU Require Import Base C16_Model.
Definition run := run_C16.
Definition check := check_C16.
Definition agree (inp m i : val) : bool := val_eqb m i && uax29_agree inp.
Extraction "model.ml" run check agree.

From Coq Require Import extraction.Extraction extraction.ExtrOcamlBasic.
From TU Require Import Base C16_Model C16_Machine C16_MachinePbs Inference_Model.
(* two kinds of input: the windows cases (first field 0..4) and the inference-loader cases (first field 10,
   Inference_Model.v) *)
Definition run (v : val) : val := if is_inference v then run_inference v else run_C16 v.
Definition check (v out : val) : bool := if is_inference v then check_inference v out else check_C16 v out.
(* windows cases: the implementation's output (its first four components) equals the unbounded model's, the cluster
   oracle is the model's segmentation, the machine-integer model (every usize operation explicit) yields the same output
   in both profiles, and the fifth component (possible_byte_substrings, when the harness ran it) equals the
   reference model and both profiles of its machine model.
   inference cases: the batches are exactly the model's (items with ids, tags, boundaries, accessors, order inside the
   batches); the end state is the model's up to the documented race between two recorded errors *)
Definition agree (inp m i : val) : bool :=
  if is_inference inp then agree_inference inp m i
  else val_eqb m (first4 i) && uax29_agree inp && machine_agree inp m && pbs_agree inp i.
Extraction "model.ml" run check agree.

(** Normalisation per grapheme cluster keeps whitespace-clean texts clean (all forms, both
    modes of [normalize]); Hangul round trip; the KF3 set in terms of [nfkc]; the line iterator
    of the tie. Pinned statements are in NFKC_Props.v. *)
From Coq Require Import Lia Permutation.
From TU Require Import Base UAX29_Model UAX29_Proofs C11_Model C11_Proofs NFKC_Model NFKC_Proofs NFKC_Clean NFKC_Tie.
Open Scope N_scope.

(** * A. Hangul: composition inverts the arithmetic decomposition *)

Lemma jamo_ccc c : 4352 <= c -> c <= 4607 -> ccc c = 0.
Proof.
  intros H1 H2. rewrite ccc_spec_l. destruct (alookup ccc_table c) as [k|] eqn:E; [|reflexivity].
  pose proof (alookup_forall (fun e : N * N => (fst e <? 4352) || (4607 <? fst e)) ccc_table c k
                ltac:(vm_compute; reflexivity) E) as P.
  cbn beta iota delta [fst] in P. apply orb_true_iff in P as [P|P]; apply N.ltb_lt in P; lia.
Qed.

Lemma leb_true a b : a <= b -> (a <=? b) = true.
Proof. apply N.leb_le. Qed.

Lemma compose_LV li vi :
  li < 19 -> vi < 21 -> compose (4352 + li) (4449 + vi) = Some (44032 + (li * 588 + vi * 28)).
Proof.
  intros Hl Hv. unfold compose, compose_hangul, L_BASE, L_LAST, V_BASE, V_LAST, S_BASE, N_COUNT, T_COUNT.
  rewrite !leb_true by lia. cbn [andb].
  replace (4352 + li - 4352) with li by lia. replace (4449 + vi - 4449) with vi by lia. reflexivity.
Qed.

Lemma compose_LVT lv ti :
  44032 <= lv -> lv <= 55203 -> (lv - 44032) mod 28 = 0 -> 0 < ti -> ti < 28 ->
  compose lv (4519 + ti) = Some (lv + ti).
Proof.
  intros H1 H2 Hm H3 H4.
  unfold compose, compose_hangul, L_BASE, L_LAST, V_BASE, V_LAST, S_BASE, S_LAST, T_FIRST, T_LAST, T_BASE, N_COUNT, T_COUNT.
  replace (lv <=? 4370) with false by (symmetry; apply N.leb_gt; lia).
  rewrite andb_false_r. cbn [andb]. rewrite !leb_true by lia. rewrite Hm. cbn [andb N.eqb].
  replace (4519 + ti - 4519) with ti by lia. reflexivity.
Qed.

Lemma hangul_recompose c :
  is_hangul_syllable c = true -> recompose (reorder [] (decompose_hangul c)) = [c].
Proof.
  intros H. destruct (hangul_parts c H) as (Hl & Hv & Ht). cbv zeta in *.
  assert (Hc : c = 44032 + ((c - S_BASE) / N_COUNT * 588 + (c - S_BASE) mod N_COUNT / T_COUNT * 28) + (c - S_BASE) mod T_COUNT).
  { unfold is_hangul_syllable, S_BASE, S_COUNT in H. apply andb_true_iff in H as [H1 _]. apply N.leb_le in H1.
    unfold S_BASE, N_COUNT, T_COUNT. set (si := c - 44032).
    assert (Hsi : c = 44032 + si) by (unfold si; lia). rewrite Hsi at 1. clearbody si.
    pose proof (N.div_mod si 588 ltac:(lia)) as D1.
    pose proof (N.div_mod (si mod 588) 28 ltac:(lia)) as D2.
    assert (M : (si mod 588) mod 28 = si mod 28).
    { change 588 with (28 * 21). rewrite N.mod_mul_r by lia.
      rewrite (N.mul_comm 28). rewrite N.mod_add by lia. apply N.mod_mod. lia. }
    rewrite M in D2. lia. }
  unfold decompose_hangul.
  set (li := (c - S_BASE) / N_COUNT) in *. set (vi := (c - S_BASE) mod N_COUNT / T_COUNT) in *.
  set (ti := (c - S_BASE) mod T_COUNT) in *. clearbody li vi ti.
  unfold L_BASE, V_BASE, T_BASE, L_COUNT, V_COUNT, T_COUNT in *.
  rewrite reorder_starters.
  2:{ constructor; [apply jamo_ccc; lia|]. constructor; [apply jamo_ccc; lia|].
      destruct (0 <? ti); [|constructor]. constructor; [apply jamo_ccc; lia|constructor]. }
  unfold recompose. cbn [comp_loop]. rewrite (jamo_ccc (4352 + li)) by lia. cbn [N.eqb negb].
  rewrite (compose_LV li vi Hl Hv).
  destruct (0 <? ti) eqn:Et.
  - apply N.ltb_lt in Et. cbn [comp_loop]. rewrite (compose_LVT _ ti); try lia.
    + cbn [comp_loop rev]. f_equal. lia.
    + replace (44032 + (li * 588 + vi * 28) - 44032) with ((li * 21 + vi) * 28) by lia.
      apply N.mod_mul. lia.
  - apply N.ltb_ge in Et. cbn [comp_loop rev]. f_equal. lia.
Qed.

Lemma hangul_roundtrip_l c : is_hangul_syllable c = true -> nfc [c] = [c] /\ nfkc [c] = [c].
Proof.
  intros H.
  assert (D : forall k, decompose k [c] = decompose_hangul c).
  { intros k. unfold decompose. cbn [flat_map]. rewrite app_nil_r. unfold decompose_char.
    replace (c <=? 127) with false; [rewrite H; reflexivity|].
    symmetry. apply N.leb_gt. unfold is_hangul_syllable, S_BASE in H. apply andb_true_iff in H as [H1 _].
    apply N.leb_le in H1. lia. }
  unfold nfc, nfkc, nfd, nfkd. rewrite !D. split; apply hangul_recompose, H.
Qed.

(** * B. The KF3 set in terms of [nfkc] *)

Lemma nows_not_in s w : nows s -> In w s -> is_ws w = true -> False.
Proof. intros H Hw E. unfold nows in H. rewrite Forall_forall in H. rewrite (H w Hw) in E. discriminate. Qed.

Lemma makes_space_spec_l c :
  In c nfkc_makes_space <-> is_ws c = false /\ exists w, In w (nfkc [c]) /\ is_ws w = true.
Proof.
  split.
  - intros H.
    assert (F : forallb (fun c => negb (is_ws c) && existsb is_ws (nfkc [c])) nfkc_makes_space = true)
      by (vm_compute; reflexivity).
    rewrite forallb_forall in F. specialize (F c H). apply andb_true_iff in F as [F1 F2].
    apply negb_true_iff in F1. apply existsb_exists in F2. auto.
  - intros (Hc & w & Hw & Ew). apply makes_space_complete. unfold makes_space. rewrite Hc. cbn [negb andb].
    destruct (existsb is_ws (decompose_char true c)) eqn:E; [reflexivity|]. exfalso.
    assert (N1 : nows (decompose true [c])).
    { unfold decompose. cbn [flat_map]. rewrite app_nil_r. unfold nows. rewrite Forall_forall. intros x Hx.
      destruct (is_ws x) eqn:Ex; [|reflexivity].
      assert (existsb is_ws (decompose_char true c) = true) by (apply existsb_exists; exists x; auto). congruence. }
    assert (N2 : nows (nfkc [c])).
    { unfold nfkc. apply recompose_nows. change (nfkd [c]) with (nfxd true [c]).
      unfold nows. apply (Permutation_Forall (Permutation_sym (nfxd_perm true [c]))). exact N1. }
    apply (nows_not_in _ _ N2 Hw Ew).
Qed.

(** every member of the set, put after "x ", either breaks cleanness or changes the number of
    words (U+FDFA and U+FDFB expand to several words separated by single spaces) *)
Lemma makes_space_all_break_l c :
  In c nfkc_makes_space ->
  cleansb [120; 32; c] = true
  /\ (cleansb (nfkc [120; 32; c]) = false \/ length (words (nfkc [120; 32; c])) <> 2%nat).
Proof.
  assert (F : forallb (fun c => cleansb [120; 32; c]
                                && (negb (cleansb (nfkc [120; 32; c]))
                                    || negb (Nat.eqb (length (words (nfkc [120; 32; c]))) 2)))
                      nfkc_makes_space = true)
    by (vm_compute; reflexivity).
  rewrite forallb_forall in F. intros H. specialize (F c H). apply andb_true_iff in F as [F1 F2].
  split; [exact F1|]. apply orb_true_iff in F2 as [F2|F2]; apply negb_true_iff in F2; [left; exact F2|right].
  apply Nat.eqb_neq. exact F2.
Qed.

(** * C. Whitespace-clean as an automaton *)

Inductive wst : Set := W0 | Ww | Ws | Wrej.
Definition wstep (st : wst) (c : N) : wst :=
  if is_ws c then (if c =? 32 then match st with Ww => Ws | _ => Wrej end else Wrej)
  else match st with Wrej => Wrej | _ => Ww end.
Definition wrun (st : wst) (s : list N) : wst := fold_left wstep s st.
Definition wacc (st : wst) : bool := match st with W0 | Ww => true | _ => false end.
Definition wword (st : wst) : wst := match st with Wrej => Wrej | _ => Ww end.

Lemma wrun_cons st c r : wrun st (c :: r) = wrun (wstep st c) r.
Proof. reflexivity. Qed.

Lemma wrun_app st a b : wrun st (a ++ b) = wrun (wrun st a) b.
Proof. apply fold_left_app. Qed.

Lemma wrun_rej s : wrun Wrej s = Wrej.
Proof.
  induction s as [|c r IH]; [reflexivity|]. rewrite wrun_cons. unfold wstep.
  destruct (is_ws c); [destruct (c =? 32)|]; exact IH.
Qed.

Lemma cleansb_wrun_all s :
  wacc (wrun Ww s) = scs s
  /\ wacc (wrun Ws s) = head_is nonws_cp s && scs s
  /\ wacc (wrun W0 s) = cleansb s.
Proof.
  induction s as [|c r (IHw & IHs & IH0)]; [repeat split; reflexivity|].
  unfold cleansb. rewrite !wrun_cons. cbn [scs head_is]. unfold wstep, nonws_cp.
  destruct (is_ws c) eqn:Ec; cbn [negb andb].
  - destruct (c =? 32); cbn [andb]; rewrite ?wrun_rej; cbn [wacc].
    + rewrite IHs. unfold nonws_cp. repeat split; reflexivity.
    + repeat split; reflexivity.
  - rewrite IHw. repeat split; reflexivity.
Qed.

Lemma cleansb_wrun s : cleansb s = wacc (wrun W0 s).
Proof. symmetry. apply cleansb_wrun_all. Qed.

Lemma wrun_nows w : nows w -> forall st, wrun st w = if is_nil w then st else wword st.
Proof.
  induction 1 as [|c r Hc _ IH]; intros st; [reflexivity|]. rewrite wrun_cons. cbn [is_nil].
  rewrite IH. unfold wstep. rewrite Hc.
  destruct r; cbn [is_nil]; destruct st; reflexivity.
Qed.

(** two lists of White_Space-free pieces, empty at the same positions, joined by single spaces,
    drive the automaton alike *)
Lemma wrun_join P : forall Q st,
  Forall2 (fun p q => nows p /\ nows q /\ is_nil p = is_nil q) P Q ->
  wrun st (join [32] P) = wrun st (join [32] Q).
Proof.
  induction P as [|p P IH]; intros Q st H; inversion H as [|? q ? Q' (Hp & Hq & Hn) HF]; subst; [reflexivity|].
  destruct P as [|p' P'].
  - inversion HF; subst. cbn [join]. rewrite (wrun_nows p Hp), (wrun_nows q Hq), Hn. reflexivity.
  - inversion HF as [|? q' ? Q'' ? ?]; subst. unfold str, cp in *.
    rewrite (@join_cons N [32] p (p' :: P')) by discriminate.
    rewrite (@join_cons N [32] q (q' :: Q'')) by discriminate.
    rewrite !wrun_app. rewrite (wrun_nows p Hp), (wrun_nows q Hq), Hn.
    apply IH. exact HF.
Qed.

(** * D. Pieces between spaces *)
Fixpoint split32 (s : list N) : list (list N) :=
  match s with
  | [] => [[]]
  | c :: r => if c =? 32 then [] :: split32 r
              else match split32 r with
                   | p :: ps => (c :: p) :: ps
                   | [] => [[c]]
                   end
  end.

Lemma split32_nonempty s : split32 s <> [].
Proof. destruct s as [|c r]; cbn [split32]; [discriminate|]. destruct (c =? 32); [discriminate|]. destruct (split32 r); discriminate. Qed.

Lemma join_split32 s : join [32] (split32 s) = s.
Proof.
  induction s as [|c r IH]; [reflexivity|]. cbn [split32]. destruct (N.eqb_spec c 32) as [->|_].
  - unfold str, cp in *. rewrite (@join_cons N [32] [] (split32 r)) by apply split32_nonempty. cbn [app]. rewrite IH. reflexivity.
  - pose proof (split32_nonempty r) as Hne. destruct (split32 r) as [|p ps]; [congruence|].
    destruct ps as [|p' ps'].
    + cbn [join] in *. rewrite IH. reflexivity.
    + unfold str, cp in *. rewrite (@join_cons N [32] (c :: p) (p' :: ps')) by discriminate.
      rewrite (@join_cons N [32] p (p' :: ps')) in IH by discriminate. cbn [app] in *. rewrite IH. reflexivity.
Qed.

Lemma split32_in s p c : In p (split32 s) -> In c p -> In c s /\ c <> 32.
Proof.
  revert p. induction s as [|x r IH]; intros p Hp Hc.
  - cbn [split32] in Hp. destruct Hp as [<-|[]]. contradiction.
  - cbn [split32] in Hp. destruct (N.eqb_spec x 32) as [->|Hx].
    + destruct Hp as [<-|Hp]; [contradiction|]. destruct (IH p Hp Hc) as [H1 H2]. split; [right; exact H1|exact H2].
    + pose proof (split32_nonempty r) as Hne. destruct (split32 r) as [|q qs]; [congruence|].
      destruct Hp as [<-|Hp].
      * destruct Hc as [<-|Hc]; [split; [left; reflexivity|exact Hx]|].
        destruct (IH q (or_introl eq_refl) Hc) as [H1 H2]. split; [right; exact H1|exact H2].
      * destruct (IH p (or_intror Hp) Hc) as [H1 H2]. split; [right; exact H1|exact H2].
Qed.

(** only U+0020 as White_Space *)
Definition only32 (s : list N) : Prop := forall c, In c s -> is_ws c = true -> c = 32.

Lemma split32_nows s : only32 s -> Forall nows (split32 s).
Proof.
  intros H. rewrite Forall_forall. intros p Hp. unfold nows. rewrite Forall_forall. intros c Hc.
  destruct (split32_in s p c Hp Hc) as [H1 H2]. destruct (is_ws c) eqn:E; [|reflexivity].
  exfalso. apply H2. apply H; assumption.
Qed.

Lemma nf_split32 f s : nf f s = join [32] (map (nf f) (split32 s)).
Proof. rewrite <- nf_join, join_split32. reflexivity. Qed.

(** * E. A White_Space-free piece stays one, and stays (non-)empty, under every form *)
Definition good (f : form) (s : list N) : Prop :=
  match f with
  | NFKC | NFKD => forall c, In c s -> ~ In c nfkc_makes_space
  | _ => True
  end.

Lemma decompose_nows_canon s : nows s -> nows (decompose false s).
Proof.
  induction 1 as [|c r Hc _ IH]; [constructor|]. unfold decompose. cbn [flat_map].
  apply Forall_app. split; [apply canon_nows, Hc|exact IH].
Qed.

Lemma is_nil_iff {A} (a b : list A) : (a = [] <-> b = []) -> is_nil a = is_nil b.
Proof. destruct a, b; cbn [is_nil]; intros [H1 H2]; try reflexivity; [discriminate (H1 eq_refl)|discriminate (H2 eq_refl)]. Qed.

Lemma nfxd_piece k p :
  nows p -> (k = true -> forall c, In c p -> ~ In c nfkc_makes_space) ->
  nows (nfxd k p) /\ (nfxd k p = [] <-> p = []).
Proof.
  intros Hn Hg. pose proof (nfxd_perm k p) as P. split.
  - unfold nows. apply (Permutation_Forall (Permutation_sym P)).
    destruct k; [apply decompose_nows; [exact Hn|apply Hg; reflexivity]|apply decompose_nows_canon, Hn].
  - split.
    + intros E. rewrite E in P. apply Permutation_nil in P. destruct p as [|c r]; [reflexivity|].
      exfalso. apply (decompose_nonempty k (c :: r)); [discriminate|exact P].
    + intros ->. reflexivity.
Qed.

Lemma recompose_nil_iff s : recompose s = [] <-> s = [].
Proof.
  split; [|intros ->; reflexivity]. intros E. destruct s as [|c r]; [reflexivity|].
  exfalso. apply (recompose_nonempty (c :: r)); [discriminate|exact E].
Qed.

Lemma nf_piece f p : nows p -> good f p -> nows (nf f p) /\ is_nil (nf f p) = is_nil p.
Proof.
  intros Hn Hg.
  assert (X : forall k, (k = true -> forall c, In c p -> ~ In c nfkc_makes_space) ->
                        (nows (nfxd k p) /\ is_nil (nfxd k p) = is_nil p)
                        /\ (nows (recompose (nfxd k p)) /\ is_nil (recompose (nfxd k p)) = is_nil p)).
  { intros k Hk. destruct (nfxd_piece k p Hn Hk) as [H1 H2]. split.
    - split; [exact H1|apply is_nil_iff, H2].
    - split; [apply recompose_nows, H1|]. apply is_nil_iff. rewrite recompose_nil_iff. exact H2. }
  destruct f; cbn [nf good] in *; unfold nfc, nfkc.
  - apply (X false). discriminate.
  - apply (X false). discriminate.
  - apply (X true). intros _. exact Hg.
  - apply (X true). intros _. exact Hg.
Qed.

Lemma good_sub f s p : good f s -> (forall c, In c p -> In c s) -> good f p.
Proof. destruct f; cbn [good]; auto. Qed.

(** normalising a cluster (any piece of text whose only White_Space is U+0020) does not change
    what the automaton sees *)
Lemma wrun_nf f cl st : only32 cl -> good f cl -> wrun st (nf f cl) = wrun st cl.
Proof.
  intros Ho Hg. rewrite nf_split32. rewrite <- (join_split32 cl) at 2.
  apply wrun_join. pose proof (split32_nows cl Ho) as Hn.
  assert (Hsub : forall p, In p (split32 cl) -> good f p).
  { intros p Hp. apply (good_sub f cl p Hg). intros c Hc. apply (split32_in cl p c Hp Hc). }
  induction (split32 cl) as [|p ps IH]; [constructor|]. inversion Hn as [|? ? Hp Hps]; subst.
  cbn [map]. constructor.
  - destruct (nf_piece f p Hp (Hsub p (or_introl eq_refl))) as [H1 H2]. auto.
  - apply IH; [exact Hps|]. intros q Hq. apply Hsub. right. exact Hq.
Qed.

Lemma wrun_flat_map f cls : forall st,
  Forall (fun cl => only32 cl /\ good f cl) cls -> wrun st (flat_map (nf f) cls) = wrun st (concat cls).
Proof.
  induction cls as [|cl cls IH]; intros st H; [reflexivity|]. inversion H as [|? ? [Ho Hg] Hr]; subst.
  cbn [flat_map concat]. rewrite !wrun_app. rewrite (wrun_nf f cl st Ho Hg). apply IH. exact Hr.
Qed.

Lemma cleansb_only32 s : cleansb s = true -> only32 s.
Proof.
  intros H c Hc Ew. apply cleansb_iff in H. rewrite H in Hc. apply in_join_words in Hc as [E|(w & Hw & Hcw)]; [exact E|].
  exfalso. pose proof (words_ok s) as Hok. rewrite Forall_forall in Hok. destruct (Hok w Hw) as [_ Hn].
  apply nows_forallb in Hn. apply (nows_not_in w c Hn Hcw Ew).
Qed.

(** the crate's [normalize], every form, both modes *)
Lemma normalize_keeps_clean_l f g s :
  cleansb s = true ->
  (match f with NFKC | NFKD => forall c, In c s -> ~ In c nfkc_makes_space | _ => True end) ->
  cleansb (normalize_model f g s) = true.
Proof.
  intros Hc Hg. pose proof (cleansb_only32 s Hc) as Ho. change (good f s) in Hg.
  rewrite cleansb_wrun. unfold normalize_model. destruct g.
  - rewrite wrun_flat_map.
    + rewrite segment_concat_l, <- cleansb_wrun. exact Hc.
    + rewrite Forall_forall. intros cl Hcl.
      assert (Hsub : forall c, In c cl -> In c s).
      { intros c Hx. rewrite <- (segment_concat_l s). apply in_concat. exists cl. split; assumption. }
      split; [intros c Hx; apply Ho, Hsub, Hx|apply (good_sub f s cl Hg Hsub)].
  - rewrite (wrun_nf f s W0 Ho Hg), <- cleansb_wrun. exact Hc.
Qed.

(** * F. The line iterator of the tie *)
Lemma split_lines_line l : forall cur rest,
  ~ In 10 l -> split_lines cur (l ++ 10 :: rest) = strip_cr (rev cur ++ l) :: split_lines [] rest.
Proof.
  induction l as [|c l IH]; intros cur rest Hn.
  - cbn [app split_lines N.eqb Pos.eqb]. rewrite app_nil_r. unfold strip_cr. rewrite rev_involutive.
    reflexivity.
  - cbn [app split_lines]. destruct (N.eqb_spec c 10) as [->|Hc]; [exfalso; apply Hn; left; reflexivity|].
    rewrite IH by (intros H; apply Hn; right; exact H). cbn [rev]. rewrite <- app_assoc. reflexivity.
Qed.

Lemma lines_of_file_spec raw : Forall (fun l => ~ In 10 l) raw -> lines_of_file raw = map strip_cr raw.
Proof.
  unfold lines_of_file, file_content. induction 1 as [|l raw Hl _ IH]; [reflexivity|].
  cbn [flat_map map]. rewrite <- app_assoc. cbn [app]. rewrite (split_lines_line l [] _ Hl). cbn [rev app].
  rewrite IH. reflexivity.
Qed.

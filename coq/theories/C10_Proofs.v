From TU Require Import Base C10_Model.
From Coq Require Import Lia.
Open Scope N_scope.

Lemma nlist_eqb_eq a b : nlist_eqb a b = true <-> a = b.
Proof.
  revert b; induction a as [|x a IH]; intros [|y b]; cbn; split; intros H; try congruence; try reflexivity.
  - apply andb_true_iff in H as [H1 H2]. apply N.eqb_eq in H1. apply IH in H2. congruence.
  - inversion H; subst. rewrite N.eqb_refl. cbn. apply IH. reflexivity.
Qed.
Lemma cl_eqb_eq a b : cl_eqb a b = true <-> a = b.
Proof. apply nlist_eqb_eq. Qed.
Lemma cll_eqb_eq a b : cll_eqb a b = true <-> a = b.
Proof.
  revert b; induction a as [|x a IH]; intros [|y b]; cbn; split; intros H; try congruence; try reflexivity.
  - apply andb_true_iff in H as [H1 H2]. apply cl_eqb_eq in H1. apply IH in H2. congruence.
  - inversion H; subst. apply andb_true_iff. split; [apply cl_eqb_eq; reflexivity | apply IH; reflexivity].
Qed.

Definition head_nonws (l : list cluster) : Prop := match l with [] => True | c :: _ => cl_ws c = false end.

(** suffix-clean: whitespace clusters are exactly [32], no two adjacent, none trailing *)
Fixpoint SC (l : list cluster) : Prop :=
  match l with
  | [] => True
  | c :: r => (cl_ws c = true -> c = [32] /\ r <> [] /\ head_nonws r) /\ SC r
  end.
Definition Clean (l : list cluster) : Prop := head_nonws l /\ SC l.

Lemma head_nonwsb_spec l : head_nonwsb l = true <-> head_nonws l.
Proof. destruct l as [|c r]; cbn; [tauto|]. destruct (cl_ws c); cbn; split; congruence. Qed.

Lemma scb_spec l : scb l = true <-> SC l.
Proof.
  induction l as [|c r IH]; cbn [scb SC]; [tauto|].
  rewrite andb_true_iff, IH. destruct (cl_ws c) eqn:E.
  - rewrite !andb_true_iff, cl_eqb_eq, negb_true_iff, head_nonwsb_spec.
    split.
    + intros [[[H1 H2] H3] H4]. split; [|exact H4]. intros _. repeat split; try assumption.
      destruct r; congruence.
    + intros [H H4]. destruct (H eq_refl) as (H1 & H2 & H3). repeat split; try assumption.
      destruct r; congruence.
  - split; [intros [_ H]; split; [congruence|exact H] | intros [_ H]; split; [reflexivity|exact H]].
Qed.

Lemma cleanb_spec l : cleanb l = true <-> Clean l.
Proof. unfold cleanb, Clean. rewrite andb_true_iff, head_nonwsb_spec, scb_spec. tauto. Qed.

Lemma premiseb_spec f t : premiseb f t = true <-> Clean f /\ Clean t /\ strip f = strip t.
Proof. unfold premiseb. rewrite !andb_true_iff, !cleanb_spec, cll_eqb_eq. tauto. Qed.

Lemma strip_cons c l : strip (c :: l) = if cl_ws c then strip l else c :: strip l.
Proof. unfold strip, nonws. cbn. destruct (cl_ws c); reflexivity. Qed.

Lemma strip_nil_SC t : SC t -> strip t = [] -> t = [].
Proof.
  destruct t as [|c r]; [reflexivity|]. cbn. intros [Hc Hr] Hs. unfold nonws in Hs.
  destruct (cl_ws c) eqn:E; cbn in Hs; [|discriminate].
  destruct (Hc eq_refl) as (_ & Hne & Hh). destruct r as [|d r']; [congruence|].
  cbn in Hh. cbn in Hs. unfold nonws in Hs. rewrite Hh in Hs. cbn in Hs. discriminate.
Qed.

Lemma roundtrip_gen : forall f t prev_ws first,
  SC f -> SC t -> strip f = strip t ->
  (prev_ws = true -> head_nonws t /\ head_nonws f) ->
  exists ops, operations f t = Some ops /\ length ops = length f /\
              repair_aux prev_ws first f ops = concat t.
Proof.
  induction f as [|c f IH]; intros t prev_ws first Hf Ht Hs Hp.
  - cbn in Hs. symmetry in Hs. apply strip_nil_SC in Hs; [|exact Ht]. subst t.
    exists []. cbn. auto.
  - destruct Hf as [Hc Hf]. destruct t as [|d t].
    + exfalso. cbn in Hs. unfold nonws in Hs. destruct (cl_ws c) eqn:E; cbn in Hs; [|discriminate].
      destruct (Hc eq_refl) as (_ & Hne & Hh). destruct f as [|e f']; [congruence|].
      cbn in Hh, Hs. unfold nonws in Hs. rewrite Hh in Hs. discriminate.
    + pose proof Ht as Hdt. destruct Ht as [Hd Ht]. cbn [operations].
      destruct (cl_eqb c d) eqn:Ecd.
      * apply cl_eqb_eq in Ecd. subst d.
        assert (Hs' : strip f = strip t).
        { rewrite !strip_cons in Hs. destruct (cl_ws c); [exact Hs|congruence]. }
        destruct (IH t (cl_ws c) false Hf Ht Hs') as (ops & Ho & Hl & Hr).
        { intros E. destruct (Hc E) as (_ & _ & H1). destruct (Hd E) as (_ & _ & H2). auto. }
        exists (Keep :: ops). rewrite Ho. cbn. rewrite Hl, Hr. auto.
      * destruct (cl_ws d) eqn:Ed.
        -- destruct (Hd eq_refl) as (Hd32 & Hne & Hh). subst d.
           assert (Ec : cl_ws c = false).
           { destruct (cl_ws c) eqn:E; [|reflexivity]. destruct (Hc eq_refl) as (Hc32 & _). subst c.
             cbn in Ecd. discriminate. }
           destruct t as [|e t']; [congruence|]. cbn in Hh. destruct Ht as [He Ht'].
           assert (Hce : c = e /\ strip f = strip t').
           { rewrite !strip_cons, Ec, Ed, Hh in Hs. inversion Hs. auto. }
           destruct Hce as [<- Hs'].
           destruct (IH t' (cl_ws c) false Hf Ht' Hs') as (ops & Ho & Hl & Hr).
           { rewrite Ec. discriminate. }
           exists (Ins :: ops). cbn [tl]. rewrite Ho. cbn [option_map]. split; [reflexivity|]. split; [cbn; lia|].
           rewrite Ec in Hr. cbn [repair_aux]. rewrite Ec. cbn [negb andb].
           assert (Hfp : (first || negb prev_ws)%bool = true).
           { destruct prev_ws; [|apply orb_true_r]. destruct (Hp eq_refl) as [H1 _]. cbn in H1. congruence. }
           rewrite Hfp, Hr. cbn. reflexivity.
        -- destruct (cl_ws c) eqn:Ec.
           ++ destruct (Hc eq_refl) as (_ & Hne & Hh).
              assert (Hs' : strip f = strip (d :: t)).
              { rewrite strip_cons, Ec in Hs. exact Hs. }
              destruct (IH (d :: t) true false Hf Hdt Hs') as (ops & Ho & Hl & Hr).
              { intros _. split; [exact Ed| exact Hh]. }
              exists (Del :: ops). rewrite Ho. cbn [option_map]. split; [reflexivity|]. split; [cbn; lia|].
              cbn [repair_aux]. rewrite Ec. exact Hr.
           ++ exfalso. rewrite !strip_cons, Ec, Ed in Hs. inversion Hs. subst d.
              assert (cl_eqb c c = true) by (apply cl_eqb_eq; reflexivity). congruence.
Qed.

Lemma ops_roundtrip_l f t :
  Clean f -> Clean t -> strip f = strip t ->
  exists ops, operations f t = Some ops /\ length ops = length f /\ repair f ops = Some (concat t).
Proof.
  intros [_ Hf] [_ Ht] Hs.
  destruct (roundtrip_gen f t false true Hf Ht Hs) as (ops & Ho & Hl & Hr); [discriminate|].
  exists ops. split; [exact Ho|]. split; [exact Hl|]. unfold repair. rewrite Hl, Nat.eqb_refl, Hr. reflexivity.
Qed.

(** operations always yields one op per [from] character when it succeeds *)
Lemma operations_length : forall f t ops, operations f t = Some ops -> length ops = length f.
Proof.
  induction f as [|c f IH]; intros t ops H; cbn in H.
  - injection H as <-. reflexivity.
  - destruct t as [|d t].
    + destruct (cl_ws c); [|discriminate]. destruct (operations f []) eqn:E; [|discriminate].
      injection H as <-. cbn. f_equal. eapply IH; eauto.
    + destruct (cl_eqb c d).
      { destruct (operations f t) eqn:E; [|discriminate]. injection H as <-. cbn. f_equal. eapply IH; eauto. }
      destruct (cl_ws d).
      { destruct (operations f (tl t)) eqn:E; [|discriminate]. injection H as <-. cbn. f_equal. eapply IH; eauto. }
      destruct (cl_ws c); [|discriminate].
      destruct (operations f (d :: t)) eqn:E; [|discriminate]. injection H as <-. cbn. f_equal. eapply IH; eauto.
Qed.

(** ** repair touches only whitespace *)
Lemma strip_cp_app a b : strip_cp (a ++ b) = strip_cp a ++ strip_cp b.
Proof. unfold strip_cp. apply filter_app. Qed.

Lemma strip_cp_ws c : cl_ws c = true -> strip_cp c = [].
Proof.
  unfold cl_ws, strip_cp. induction c as [|x c IH]; cbn; [reflexivity|].
  intros H. apply andb_true_iff in H as [H1 H2]. rewrite H1. cbn. auto.
Qed.

Lemma repair_aux_only_ws : forall cs os p f,
  length cs = length os -> strip_cp (repair_aux p f cs os) = strip_cp (concat cs).
Proof.
  induction cs as [|c cs IH]; intros [|o os] p f Hl; cbn in Hl; try discriminate; [reflexivity|].
  injection Hl as Hl. cbn [repair_aux concat]. rewrite strip_cp_app.
  specialize (IH os (cl_ws c) false Hl).
  destruct o.
  - rewrite strip_cp_app, IH. reflexivity.
  - destruct (negb (cl_ws c) && (f || negb p))%bool.
    + change (32 :: c ++ repair_aux (cl_ws c) false cs os) with ([32] ++ c ++ repair_aux (cl_ws c) false cs os).
      rewrite !strip_cp_app, IH. reflexivity.
    + rewrite strip_cp_app, IH. reflexivity.
  - destruct (cl_ws c) eqn:E.
    + rewrite IH, (strip_cp_ws c E). reflexivity.
    + rewrite strip_cp_app, IH. reflexivity.
Qed.

Lemma repair_only_ws_l cs os :
  length os = length cs -> exists r, repair cs os = Some r /\ strip_cp r = strip_cp (concat cs).
Proof.
  intros Hl. unfold repair. rewrite Hl, Nat.eqb_refl. eexists. split; [reflexivity|].
  apply repair_aux_only_ws. symmetry; exact Hl.
Qed.

Lemma repair_aux_keep : forall cs os p f,
  length cs = length os -> all_keep os = true -> repair_aux p f cs os = concat cs.
Proof.
  induction cs as [|c cs IH]; intros [|o os] p f Hl Hk; cbn in Hl; try discriminate; [reflexivity|].
  injection Hl as Hl. cbn in Hk. apply andb_true_iff in Hk as [Ho Hk].
  destruct o; cbn in Ho; try discriminate. cbn [repair_aux concat]. f_equal. apply IH; assumption.
Qed.

Lemma repair_keep_l cs os :
  length os = length cs -> all_keep os = true -> repair cs os = Some (concat cs).
Proof.
  intros Hl Hk. unfold repair. rewrite Hl, Nat.eqb_refl. f_equal. apply repair_aux_keep; auto.
Qed.

Lemma repair_len_err_l cs os : length os <> length cs -> repair cs os = None.
Proof.
  intros Hl. unfold repair. destruct (Nat.eqb_spec (length cs) (length os)); [congruence|reflexivity].
Qed.

(** The executable statement holds of the model's own output, for every input
    whose string-level premise flag is not stronger than the cluster-level one. *)
Lemma check_run_l v :
  (v_bool (v_nth 0 v) = true -> premiseb (v_clusters (v_nth 1 v)) (v_clusters (v_nth 2 v)) = true) ->
  check_C10 v (run_C10 v) = true.
Proof.
  intros Hsp. unfold check_C10, run_C10.
  set (f := v_clusters (v_nth 1 v)) in *. set (t := v_clusters (v_nth 2 v)) in *.
  set (rops := v_list v_op (v_nth 3 v)).
  assert (Hop : forall o, v_op (op_v o) = o) by (intros []; reflexivity).
  assert (Hops : forall l, map v_op (map op_v l) = l).
  { induction l as [|x l IH]; cbn [map]; [reflexivity|]. rewrite Hop, IH. reflexivity. }
  assert (Hn : forall l : list N, map v_n (map n_v l) = l).
  { induction l as [|x l IH]; cbn [map]; [reflexivity|]. rewrite IH. unfold v_n, n_v. cbn. rewrite N2Z.id. reflexivity. }
  assert (Hsh : forall A B C (fa : A -> val) (fb : B -> val) (fc : C -> val) a b c,
             shape3 (L [opt_v fa a; opt_v fb b; opt_v fc c]) = true).
  { intros A B C fa fb fc [a|] [b|] [c|]; reflexivity. }
  rewrite Hsh. cbn [andb].
  apply andb_true_iff. split.
  - destruct (v_bool (v_nth 0 v) || premiseb f t)%bool eqn:E.
    + assert (Hp : premiseb f t = true).
      { apply orb_true_iff in E as [E|E]; [exact (Hsp E)|exact E]. }
      apply premiseb_spec in Hp as (Hf & Ht & Hs).
      destruct (ops_roundtrip_l f t Hf Ht Hs) as (ops & Ho & Hl & Hr).
      rewrite Ho. cbn [opt_v v_nth nth v_opt list_v v_list]. rewrite Hr. cbn [opt_v v_opt list_v v_list].
      rewrite Hops, Hn, Hl, Nat.eqb_refl. cbn [andb]. apply nlist_eqb_eq. reflexivity.
    + reflexivity.
  - cbn [v_nth nth].
    destruct (Nat.eqb_spec (length f) (length rops)) as [Hl|Hl].
    + destruct (repair_only_ws_l f rops (eq_sym Hl)) as (r & Hr & Hs). rewrite Hr.
      cbn [opt_v v_opt list_v v_list]. rewrite Hn. apply andb_true_iff. split.
      * apply nlist_eqb_eq. exact Hs.
      * destruct (all_keep rops) eqn:Ek; [|reflexivity].
        rewrite (repair_keep_l f rops (eq_sym Hl) Ek) in Hr. injection Hr as <-.
        apply nlist_eqb_eq. reflexivity.
    + rewrite (repair_len_err_l f rops (fun H => Hl (eq_sym H))). reflexivity.
Qed.

(** C08 model: the index algebra of the train loader (src/data/mod.rs, TrainLoader::init_iter):
      data_iter.enumerate().take(limit).skip(skip + fast_forward + rank).step_by(world_size)
        .filter_map(ok data) .pipe(pipeline, threads) .filter_map(ok item) .batched(..) .tensorized() .buffered(..)
    Items are identified by their global index (position in the multi-source generator's output).
    Whether the json line of index i parsed ([oks]) and whether the pipeline returned Ok for it
    ([res]) are oracles supplied by the harness (the pipeline itself is a function of
    (data, file index, seed + i) — the purity assumption the correspondence check tests).
    Definitions only. *)
From TU Require Import Base.

(** [Iterator::step_by W] on a list: positions k, k+W, k+2W, ... (k = 0 at top level) *)
Fixpoint sb {A} (W k : nat) (l : list A) : list A :=
  match l with
  | [] => []
  | x :: r => match k with
              | 0 => x :: sb W (W - 1) r
              | S k' => sb W k' r
              end
  end.
Definition step_by {A} (W : nat) (l : list A) : list A := sb W 0 l.

(** the enumerate/take/skip/step_by chain, on any list *)
Definition select {A} (lim skip ff rank W : nat) (l : list A) : list A :=
  step_by W (skipn (skip + ff + rank) (firstn lim l)).

(** the selected global indices of a stream of N items *)
Definition sel (lim skip ff rank W N : nat) : list nat := select lim skip ff rank W (seq 0 N).

(** delivered items: selected indices whose line parsed and whose pipeline result is Ok *)
Definition delivered (oks res : list bool) (idxs : list nat) : list nat :=
  filter (fun i => nth i oks false && nth i res false) idxs.

Definition stream (oks res : list bool) (lim skip ff rank W N : nat) : list nat :=
  delivered oks res (sel lim skip ff rank W N).

Definition min_items (lim skip N : nat) : nat := Nat.min N lim - skip.

(** ** val glue
    input  = (N oks res lim skip ff rank W k ordered)     lim < 0: no limit
    output = (A C D E F G H min_items flags) — see notes/C08.md *)
Definition v_lim (N : nat) (v : val) : nat := if (v_z v <? 0)%Z then N else v_nat v.

Definition ids_v (l : list nat) : val := list_v nat_v l.

Definition run_C08 (v : val) : val :=
  let N := v_nat (v_nth 0 v) in
  let oks := v_list v_bool (v_nth 1 v) in
  let res := v_list v_bool (v_nth 2 v) in
  let lim := v_lim N (v_nth 3 v) in
  let skip := v_nat (v_nth 4 v) in
  let ff := v_nat (v_nth 5 v) in
  let rank := v_nat (v_nth 6 v) in
  let W := v_nat (v_nth 7 v) in
  let k := v_nat (v_nth 8 v) in
  L [ ids_v (stream oks res lim skip ff rank W N);
      list_v (fun r => ids_v (stream oks res lim skip 0 r W N)) (seq 0 W);
      ids_v (stream oks res lim skip 0 0 1 N);
      ids_v (stream oks res lim skip k 0 1 N);
      ids_v (stream oks res k 0 0 0 1 N);
      ids_v (stream oks res N k 0 0 1 N);
      ids_v (stream oks res N 0 0 0 1 N);
      nat_v (min_items lim skip N);
      L [I 1; I 1] ].

(** insertion sort on nat (for comparing shuffled streams as multisets) *)
Fixpoint ins (x : nat) (l : list nat) : list nat :=
  match l with [] => [x] | y :: r => if x <=? y then x :: l else y :: ins x r end.
Definition isort (l : list nat) : list nat := fold_right ins [] l.

Fixpoint natlist_eqb (a b : list nat) : bool :=
  match a, b with
  | [], [] => true
  | x :: a', y :: b' => Nat.eqb x y && natlist_eqb a' b'
  | _, _ => false
  end.

Fixpoint incr (l : list nat) : bool :=
  match l with
  | x :: ((y :: _) as r) => (x <? y) && incr r
  | _ => true
  end.

Definition same (ordered : bool) (a b : list nat) : bool :=
  if ordered then natlist_eqb a b else natlist_eqb (isort a) (isort b).

Definition v_ids (v : val) : list nat := v_list v_nat v.

(** agreement between model output and implementation output: exact when neither
    sort nor shuffle is on, as multisets otherwise *)
Definition agree_C08 (v m o : val) : bool :=
  let ordered := v_bool (v_nth 9 v) in
  let cmp k := same ordered (v_ids (v_nth k m)) (v_ids (v_nth k o)) in
  match o with
  | L [L _; L cs; L _; L _; L _; L _; L _; I _; L [I _; I _]] =>
      cmp 0%nat && cmp 2%nat && cmp 3%nat && cmp 4%nat && cmp 5%nat && cmp 6%nat
      && Nat.eqb (length cs) (length (v_list v_ids (v_nth 1 m)))
      && forallb (fun p => same ordered (fst p) (snd p)) (combine (v_list v_ids (v_nth 1 m)) (map v_ids cs))
      && val_eqb (v_nth 7 m) (v_nth 7 o) && val_eqb (v_nth 8 m) (v_nth 8 o)
  | _ => false
  end.

(** the property on an implementation output alone *)
Definition disjointb (a b : list nat) : bool := forallb (fun x => negb (existsb (Nat.eqb x) b)) a.
Fixpoint pairwise_disjoint (ls : list (list nat)) : bool :=
  match ls with [] => true | a :: r => forallb (disjointb a) r && pairwise_disjoint r end.

Definition check_C08 (v o : val) : bool :=
  let N := v_nat (v_nth 0 v) in
  let lim := v_lim N (v_nth 3 v) in
  let skip := v_nat (v_nth 4 v) in
  let ff := v_nat (v_nth 5 v) in
  let rank := v_nat (v_nth 6 v) in
  let W := v_nat (v_nth 7 v) in
  let k := v_nat (v_nth 8 v) in
  let ordered := v_bool (v_nth 9 v) in
  match o with
  | L [L _; L cs; L _; L _; L _; L _; L _; I _; L [I f1; I f2]] =>
      let A := v_ids (v_nth 0 o) in
      let C := map v_ids cs in
      let D := v_ids (v_nth 2 o) in
      let E := v_ids (v_nth 3 o) in
      let F := v_ids (v_nth 4 o) in
      let G := v_ids (v_nth 5 o) in
      let H := v_ids (v_nth 6 o) in
      let s := skip + ff + rank in
      (* identical for every worker count / buffer size; every item processed as its global index dictates *)
      Z.eqb f1 1 && Z.eqb f2 1
      (* per-rank streams: disjoint, union = single-process stream *)
      && Nat.eqb (length C) W && pairwise_disjoint C && natlist_eqb (isort (concat C)) (isort D)
      && (if ordered then forallb incr C && incr D else true)
      (* this rank with this fast-forward offset: exactly the single-process items it owns *)
      && same ordered A (filter (fun i => (s <=? i) && Nat.eqb ((i - s) mod W) 0) (if ordered then D else isort D))
      (* resuming: the uninterrupted stream after its first k input positions *)
      && same ordered E (filter (fun i => skip + k <=? i) (if ordered then D else isort D))
      (* limit = k / skip = k split the data without overlap and without loss *)
      && disjointb F G && natlist_eqb (isort (F ++ G)) (isort H)
      && forallb (fun i => i <? k) F && forallb (fun i => k <=? i) G
  | _ => false
  end.

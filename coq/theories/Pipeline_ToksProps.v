(** Pipeline, part 5 — pinned statements about the item path and the loader with EVERY tokenizer kind (Pipeline_Toks.v, topic Q):
    byte, character (alphabet as data, own segmenter) and BPE (merge table, vocabulary limit) tokenizers behind one interface,
    the four tasks, the closure of [train_pipeline] and the loader over it.  Nothing but statements, [exact], audits. *)
From Coq Require Import Sorting.Permutation.
From TU Require Import RNG_Model.
From TU Require BPE_Model C01_UAX29 C03_Model.
From TU Require Import Base C01_Model C01_Proofs C06_Model C06_Seeded C07_Model C08_Model C08_EndToEnd.
From TU Require Import C10_Model C14_Model C14_Seeded Pipeline_Model C08_Pipeline Pipeline_Tasks Pipeline_TasksProofs C08_Bytes C08_BytesProofs.
From TU Require Import Pipeline_Stages Pipeline_Toks Pipeline_ToksProofs.
Local Open Scope nat_scope.

(** * nothing is lost: over byte tokenizers the new tasks / pipeline ARE the old ones, so every pinned theorem about
    [task] / [pipeline_t] (Pipeline_TasksProps, Pipeline_StagesProps, C08_Props) is a theorem about the byte instance *)
Theorem tasks_byte_instance : forall t x, task_k (embed_task t) x = task t x.
Proof. exact task_k_byte. Qed.
Print Assumptions tasks_byte_instance.

Theorem pipeline_byte_instance : forall opq qopq p t q maxlen x i,
  pipeline_k opq qopq p (embed_task t) q maxlen x i = pipeline_t opq qopq p t q maxlen x i.
Proof. exact pipeline_k_byte. Qed.
Print Assumptions pipeline_byte_instance.

(** * [pipeline_pure_all_stages] for every tokenizer kind: the closure of [train_pipeline] is a function of (trees, tables,
    task with its tokenizers, max_length, item, seed, incoming marks); the file index is irrelevant *)
Theorem pipeline_pure_every_tokenizer : forall st qs c t q maxlen x i i',
  i_seed i = i_seed i' -> i_marks i = i_marks i' ->
  pipeline_k (opq_tab st) (qopq_tab qs) (PGlobal c) t (QGlobal q) maxlen x i =
  pipeline_k (opq_tab st) (qopq_tab qs) (PGlobal c) t (QGlobal q) maxlen x i'.
Proof. exact pipeline_k_tab_function_of_seed. Qed.
Print Assumptions pipeline_pure_every_tokenizer.

(** * the loader theorems for every tokenizer kind *)
(** all batches of all ranks are a permutation of the single-process items; no batch is empty *)
Theorem world_partition_every_tokenizer :
  forall opq qopq p t q maxlen seed epoch s files sort shuffle prefetch blim ty lim skip ff W ms bss,
  1 <= W -> files <> [] -> (N.of_nat (total_len files) < 9223372036854775807)%N -> length bss = W ->
  (forall r, r < W -> loader_run_k opq qopq p t q maxlen seed epoch s files lim skip ff r W sort shuffle prefetch blim ty
                      = GOk (nth r ms 0) (nth r bss [])) ->
  exists out, gen_lines s (seed + epoch)%N files = Some (C07_Model.Ok out) /\
    Permutation (concat (concat bss))
                (loader_items (data_of_out out) (g_fn (pipe_res_k opq qopq p t q maxlen seed epoch)) lim skip ff 0 1) /\
    Forall (fun bs => Forall (fun bt => bt <> []) bs) bss.
Proof.
  intros opq qopq p t q maxlen seed epoch s files sort shuffle prefetch blim ty lim skip ff W ms bss.
  exact (world_partition_g (pipe_res_k opq qopq p t q maxlen seed epoch) xsize (pcfg_ok p && qpcfg_ok q) s (seed + epoch)%N files
           sort shuffle prefetch blim ty lim skip ff W ms bss).
Qed.
Print Assumptions world_partition_every_tokenizer.

(** a delivered item with index i IS the pipeline's value for the line at generator position i with item seed
    seed + epoch + i — whatever rank / world / skip / limit / offset delivers it *)
Theorem item_by_index_every_tokenizer : forall opq qopq p t q maxlen seed epoch data lim skip ff rank W i y,
  In (i, y) (loader_items data (g_fn (pipe_res_k opq qopq p t q maxlen seed epoch)) lim skip ff rank W) ->
  exists fl line, nth i data None = Some (fl, line) /\
    pipeline_k opq qopq p t q maxlen line (item_info seed epoch i fl) = ROk y.
Proof. exact k_item_by_index. Qed.
Print Assumptions item_by_index_every_tokenizer.

(** the run is defined (sequential / interleaved): constructors accept, no selected pipeline call panics => batches *)
Theorem loader_total_every_tokenizer :
  forall opq qopq p t q maxlen seed epoch s files sort shuffle prefetch blim ty lim skip ff rank W,
  s <> Weighted -> pcfg_ok p && qpcfg_ok q = true -> files <> [] -> (N.of_nat (total_len files) < 9223372036854775807)%N ->
  exists out, gen_lines s (seed + epoch)%N files = Some (C07_Model.Ok out) /\
    (g_panics (pipe_res_k opq qopq p t q maxlen seed epoch) (data_of_out out) lim skip ff rank W = false ->
     exists bs, loader_run_k opq qopq p t q maxlen seed epoch s files lim skip ff rank W sort shuffle prefetch blim ty
                = GOk (min_items lim skip (length out)) bs).
Proof.
  intros opq qopq p t q maxlen seed epoch s files sort shuffle prefetch blim ty lim skip ff rank W.
  exact (loader_g_total_nw (pipe_res_k opq qopq p t q maxlen seed epoch) xsize (pcfg_ok p && qpcfg_ok q) s (seed + epoch)%N files
           sort shuffle prefetch blim ty lim skip ff rank W).
Qed.
Print Assumptions loader_total_every_tokenizer.

(** * the tokenizers *)
(** [tokenize] of EVERY kind built by [tokenizer(cfg)] is total on texts of scalar values — no Err, no panic, the BPE heap
    loop never out of fuel, whether special tokens are parsed or ignored — and every id it returns (prefix, body, suffix) is
    below [vocab_size]: byte 256 + specials, character |alphabet| + specials, BPE 256 + |EFFECTIVE table| + specials *)
Theorem tokenize_total_valid_every_kind : forall d k s ign, build d = Some k -> scalars s = true ->
  exists ids, k_tokenize k s ign = ROk ids /\ Forall (fun i => (i < k_vocab k)%N) ids.
Proof. exact k_tokenize_total_valid. Qed.
Print Assumptions tokenize_total_valid_every_kind.

(** byte tokenizer, special tokens ignored: the ids between prefix and suffix ARE the UTF-8 bytes of the text *)
Theorem byte_ids_are_the_bytes : forall tokens padto pad prefix suffix b s ids,
  byte_base tokens padto pad prefix suffix = Some b -> byte_tokenize b s true = Some ids -> middle b ids = utf8s s.
Proof. exact byte_ids_are_bytes. Qed.
Print Assumptions byte_ids_are_the_bytes.

(** BPE as the loader path builds it — table cut by [max_vocab_size] exactly as [BPETokenizer::new] cuts it — special tokens
    ignored: the ids between prefix and suffix are the canonical BPE (lowest merge id, leftmost; C03) of every word of the
    text under the EFFECTIVE table, and decode (C02) to the text without its trailing whitespace *)
Theorem bpe_loader_path_canonical_lossless : forall sp tbl maxv k s ids,
  build (DBpe sp tbl maxv) = Some k -> scalars s = true -> k_tokenize k s true = ROk ids ->
  exists b, k = KBpe b (bpe_eff sp tbl maxv) /\
    middle b ids = C03_Model.canon_text (bpe_eff sp tbl maxv) s /\
    BPE_Model.bpe_decode (bpe_eff sp tbl maxv) (middle b ids) = utf8s (BPE_Model.strip_trailing_ws s).
Proof. exact bpe_ids_canonical_lossless. Qed.
Print Assumptions bpe_loader_path_canonical_lossless.

(** * the tasks *)
(** every token id of a task's output is an id of the vocabulary of the tokenizer that produced it (input ids: the input
    tokenizer; decoder ids of conditional generation: the target tokenizer) *)
Theorem task_ids_valid : forall t x inp, task_built t -> task_scalars t x -> task_k t x = ROk inp -> tin_valid t inp.
Proof. exact task_k_valid. Qed.
Print Assumptions task_ids_valid.

(** no tokenizer kind makes a task panic; the only Err a task returns on such texts is its own (3: [operations] refuses the
    pair, 4: the target is no class) *)
Theorem task_outcomes_every_kind : forall t x, task_built t -> task_scalars t x ->
  match task_k t x with
  | ROk _ => True
  | RErr e => e = 3%N \/ e = 4%N
  | RPanic _ => False
  end.
Proof. exact task_k_outcomes. Qed.
Print Assumptions task_outcomes_every_kind.

(** whitespace correction with the CHARACTER tokenizer in the task's own mode: one label per token id — prefix tokens,
    one id and one operation per character (grapheme cluster / code point), suffix tokens *)
Theorem wsc_char_one_label_per_id : forall sp unk g A k x ids pad ls,
  build (DChar sp unk g A) = Some k -> task_k (KWsc g k) x = ROk (TISeq ids pad ls) -> length ids = length ls.
Proof. exact wsc_char_one_label. Qed.
Print Assumptions wsc_char_one_label_per_id.

(** ... and with a BPE tokenizer the task makes no sense, yet the code raises nothing: the item is built with fewer token
    ids than labels ([tensorize] pads the two matrices separately).  Table {"ab"}, text "ab": one id, two labels. *)
Definition ex_sp : spc :=
  mk_spc [[60;112;97;100;62]]%N [60;112;97;100;62]%N [] [].
Theorem wsc_one_label_per_id_refuted_bpe : exists k,
  build (DBpe ex_sp [[97;98]]%N None) = Some k /\
  task_k (KWsc false k) (mk_item [97;98]%N [97;98]%N) = ROk (TISeq [256]%N 257%N [0; 0]%Z).
Proof.
  destruct (build (DBpe ex_sp [[97;98]]%N None)) as [k|] eqn:E; [|vm_compute in E; discriminate].
  exists k. split; [reflexivity|]. vm_compute in E. injection E as <-. vm_compute. reflexivity.
Qed.
Print Assumptions wsc_one_label_per_id_refuted_bpe.

(** * at the level of the items a loader run delivers *)
(** every token id of every delivered item is a vocabulary id of its tokenizer — any preprocessing (opaque stages
    included), any task over built tokenizers of any kind, any postprocessing without TokenMasking, any strategy-produced
    data, any rank / world / skip / limit / offset *)
Theorem delivered_ids_valid_every_kind : forall opq p t c maxlen seed epoch data lim skip ff rank W i y,
  task_built t -> q_has_opaque c = false ->
  In (i, y) (loader_items data (g_fn (pipe_res_k opq qopq_none p t (QGlobal c) maxlen seed epoch)) lim skip ff rank W) ->
  task_scalars t (x_data y) -> tin_valid t (x_in y).
Proof. exact delivered_ids_valid. Qed.
Print Assumptions delivered_ids_valid_every_kind.

(** lossless THROUGH THE LOADER (postprocessing None, special tokens ignored; whitespace correction, classification and the
    input side of conditional generation): the token ids of a delivered item, between prefix and suffix tokens, are — byte —
    the UTF-8 bytes of the item's own processed input text; — BPE — its canonical BPE under the effective table, decoding to
    it without trailing whitespace *)
Theorem delivered_ids_lossless_byte_bpe : forall opq qopq p t maxlen seed epoch data lim skip ff rank W i y k,
  In (i, y) (loader_items data (g_fn (pipe_res_k opq qopq p t (QGlobal QNone) maxlen seed epoch)) lim skip ff rank W) ->
  input_side t = Some (k, true) -> scalars (it_in (x_data y)) = true ->
  (forall tokens padto pad prefix suffix b, k = KByte b -> byte_base tokens padto pad prefix suffix = Some b ->
     middle b (tin_ids (x_in y)) = utf8s (it_in (x_data y))) /\
  (forall sp tbl maxv, build (DBpe sp tbl maxv) = Some k ->
     exists b, k = KBpe b (bpe_eff sp tbl maxv) /\
       middle b (tin_ids (x_in y)) = C03_Model.canon_text (bpe_eff sp tbl maxv) (it_in (x_data y)) /\
       BPE_Model.bpe_decode (bpe_eff sp tbl maxv) (middle b (tin_ids (x_in y)))
       = utf8s (BPE_Model.strip_trailing_ws (it_in (x_data y)))).
Proof. exact delivered_ids_lossless. Qed.
Print Assumptions delivered_ids_lossless_byte_bpe.

(** labels aligned with ids through the loader: whitespace correction over the character tokenizer in the task's mode *)
Theorem delivered_wsc_char_labels_aligned : forall opq qopq p sp unk g A k maxlen seed epoch data lim skip ff rank W i y,
  build (DChar sp unk g A) = Some k ->
  In (i, y) (loader_items data (g_fn (pipe_res_k opq qopq p (KWsc g k) (QGlobal QNone) maxlen seed epoch)) lim skip ff rank W) ->
  exists ids pad ls, x_in y = TISeq ids pad ls /\ length ids = length ls.
Proof. exact delivered_wsc_char_aligned. Qed.
Print Assumptions delivered_wsc_char_labels_aligned.

(** the premises are met.  Two positions; conditional generation with a CHARACTER input tokenizer (grapheme mode, the real
    alphabet, prefix <bos>) and a BPE target tokenizer (table {"ab", "abc"}, max_vocab_size 258 = 256 + 1 token + 1: only
    the first merge survives); "ab é" -> input ids <bos> a b ' ' <u> (é is not in the alphabet); target "abc" -> decoder ids [256 (= ab)],
    label 99 (= c) *)
Definition ex_sp2 : spc :=
  mk_spc [[60;98;111;115;62]; [60;112;97;100;62]]%N [60;112;97;100;62]%N [[60;98;111;115;62]]%N [].
Definition ex_kc : option tokz := build (DChar ex_sp2 [60;117;62]%N true C01_UAX29.chars_alphabet).
Definition ex_kb : option tokz := build (DBpe ex_sp [[97;98]; [97;98;99]]%N (Some 258%N)).
Example mixed_tokenizers_example :
  match ex_kc, ex_kb with
  | Some kc, Some kb =>
      loader_items [Some (0, mk_item [97;98;32;233]%N [97;98;99]%N); None]
        (g_fn (pipe_res_k opq_std qopq_none (PGlobal CNone) (KCond kc true kb true) (QGlobal QNone) 512 7%N 0%N)) 10 0 0 0 1
      = [(0, mk_xitem (mk_item [97;98;32;233]%N [97;98;99]%N) (TICond [95;0;1;94;97]%N 96%N [256]%N 257%N [99]%Z))]
  | _, _ => False
  end.
Proof. vm_compute. reflexivity. Qed.

(** whitespace correction over the same character tokenizer: "a  b" (target "a b"): ids <bos> a ' ' ' ' b, labels -1 0 0 2 0 *)
Example wsc_char_loader_example :
  match ex_kc with
  | Some kc =>
      loader_items [Some (0, mk_item [97;32;32;98]%N [97;32;98]%N); None]
        (g_fn (pipe_res_k opq_std qopq_none (PGlobal CNone) (KWsc true kc) (QGlobal QNone) 512 7%N 0%N)) 10 0 0 0 1
      = [(0, mk_xitem (mk_item [97;32;32;98]%N [97;32;98]%N) (TISeq [95;0;94;94;1]%N 96%N [-1; 0; 0; 2; 0]%Z))]
  | None => False
  end.
Proof. vm_compute. reflexivity. Qed.

(** * the executable statements of the two new lines hold of the model's own output *)
Theorem check_run_item_k : forall v,
  check_item v (run_item_k v) = true \/ run_item_k v = v_fuel_out \/ run_item_k v = v_outside.
Proof. exact check_run_item_k_l. Qed.
Print Assumptions check_run_item_k.

Theorem check_run_bloader_k : forall v,
  check_loader v (run_bloader_k v) = true \/ run_bloader_k v = v_panic \/ run_bloader_k v = v_fuel_out
  \/ run_bloader_k v = v_outside.
Proof. exact check_run_bloader_k_l. Qed.
Print Assumptions check_run_bloader_k.

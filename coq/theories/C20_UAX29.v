(** C20 with the segmenter inside the model.  The definitions ([seg_bytes], [seg_checked],
    [uax29_agree]) are at the end of C20_Model.v.  Here:
    - [seg_bytes s] is a segmentation of the key [utf8s s] and passes the correspondence test;
    - an oracle that passes the test can only answer with the model's own segmentation of the
      decoded key ([seg_oracle_sound] as a theorem about [segment]);
    - [get_closest] with the oracle built by the model: the minimal-distance / maximal-frequency
      statement with distances between [segment q] and [segment k], no covering premise;
    - the character n-gram tokens of a word are windows over the clusters of [segment word]. *)
From TU Require Import Base C12_Model C20_Model C20_Topk C20_Closest.
From TU Require C01_Model C01_Proofs UAX29_Model UAX29_Proofs.
From Coq Require Import Lia QArith.
Open Scope N_scope.

Notation segment := UAX29_Model.segment.
Notation utf8_decode := C01_Model.utf8_decode.
Notation scalars := C01_Model.scalars.

(** * [seg_bytes] is a valid segmentation of the UTF-8 text *)
Lemma utf8s_concat (ws : list str) : utf8s (concat ws) = concat (map utf8s ws).
Proof.
  induction ws as [|w ws IH]; [reflexivity|]. cbn [concat map]. rewrite C01_Proofs.utf8s_app, IH. reflexivity.
Qed.

Lemma seg_bytes_concat s : concat (seg_bytes s) = utf8s s.
Proof. unfold seg_bytes. rewrite <- utf8s_concat, UAX29_Proofs.segment_concat_l. reflexivity. Qed.

Lemma utf8_nonnil c : utf8 c <> [].
Proof.
  unfold utf8. destruct (c <? 128); [discriminate|]. destruct (c <? 2048); [discriminate|].
  destruct (c <? 65536); discriminate.
Qed.

Lemma utf8s_nonnil (c : str) : c <> [] -> utf8s c <> [].
Proof.
  destruct c as [|x c]; [congruence|]. intros _. unfold utf8s. cbn [flat_map].
  pose proof (utf8_nonnil x) as H. destruct (utf8 x); [congruence|discriminate].
Qed.

Lemma seg_bytes_nonempty s : Forall (fun c => c <> []) (seg_bytes s).
Proof.
  unfold seg_bytes. rewrite Forall_map. pose proof (UAX29_Proofs.segment_nonempty_l s) as H.
  rewrite Forall_forall in *. intros c Hc. apply utf8s_nonnil, H, Hc.
Qed.

Lemma bl_eqb_refl l : bl_eqb l l = true.
Proof. induction l as [|x l IH]; [reflexivity|]. cbn [bl_eqb]. rewrite bytes_eqb_refl. exact IH. Qed.

Lemma bl_eqb_true a : forall b, bl_eqb a b = true -> a = b.
Proof.
  induction a as [|x a IH]; intros [|y b] H; cbn [bl_eqb] in H; try discriminate; [reflexivity|].
  apply andb_true_iff in H as [H1 H2]. apply bytes_eqb_eq in H1. subst y. rewrite (IH b H2). reflexivity.
Qed.

Lemma seg_checked_model s : scalars s = true -> seg_checked (seg_bytes s) = true.
Proof.
  intros Hs. unfold seg_checked. rewrite seg_bytes_concat, (C01_Proofs.utf8_decode_utf8s s Hs).
  apply bl_eqb_refl.
Qed.

(** what an accepted cluster list is *)
Lemma seg_checked_sound_l cls : seg_checked cls = true ->
  exists s, utf8_decode (concat cls) = Some s /\ cls = seg_bytes s.
Proof.
  unfold seg_checked. destruct (utf8_decode (concat cls)) as [s|]; [|discriminate].
  intros H. exists s. split; [reflexivity|]. symmetry. apply bl_eqb_true. exact H.
Qed.

(** * the key oracle: an oracle all of whose entries pass the test answers, for a key [k], with
    the model's own segmentation of the decoded key *)
Lemma seg_of_In segs : forall k s, seg_of segs k = Some s -> In s segs.
Proof.
  induction segs as [|s' segs IH]; intros k s H; cbn [seg_of] in H; [discriminate|].
  destruct (bytes_eqb (concat s') k); [injection H as <-; left; reflexivity|right; eapply IH; exact H].
Qed.

Lemma seg_oracle_sound_u_l segs k s :
  forallb seg_checked segs = true -> seg_of segs k = Some s ->
  concat s = k /\ exists t, utf8_decode k = Some t /\ s = seg_bytes t.
Proof.
  intros Hc H. pose proof (seg_of_concat segs k s H) as Hk. split; [exact Hk|].
  rewrite forallb_forall in Hc. specialize (Hc s (seg_of_In segs k s H)).
  destruct (seg_checked_sound_l s Hc) as (t & Ht & Es). exists t. rewrite <- Hk. split; assumption.
Qed.

(** the oracle computed by the model from the keys (as scalar strings) *)
Definition segs_u (keys : list str) : list (list bytes) := map seg_bytes keys.

Lemma utf8s_inj a b : scalars a = true -> scalars b = true -> utf8s a = utf8s b -> a = b.
Proof.
  intros Ha Hb E. pose proof (C01_Proofs.utf8_decode_utf8s a Ha) as Da.
  rewrite E, (C01_Proofs.utf8_decode_utf8s b Hb) in Da. injection Da as <-. reflexivity.
Qed.

Lemma seg_of_model_l keys k :
  Forall (fun x => scalars x = true) keys -> In k keys ->
  seg_of (segs_u keys) (utf8s k) = Some (seg_bytes k).
Proof.
  induction keys as [|k' keys IH]; intros Hs Hin; [destruct Hin|].
  inversion Hs as [|? ? Hk' Hs']; subst. cbn [segs_u map seg_of]. rewrite seg_bytes_concat.
  destruct (bytes_eqb (utf8s k') (utf8s k)) eqn:E.
  - apply bytes_eqb_eq in E. assert (Hk : scalars k = true).
    { destruct Hin as [<-|Hin]; [exact Hk'|]. rewrite Forall_forall in Hs'. apply Hs', Hin. }
    rewrite (utf8s_inj k' k Hk' Hk E). reflexivity.
  - destruct Hin as [->|Hin]; [rewrite bytes_eqb_refl in E; discriminate|]. apply IH; assumption.
Qed.

Lemma segs_u_checked keys : Forall (fun x => scalars x = true) keys -> forallb seg_checked (segs_u keys) = true.
Proof.
  intros H. unfold segs_u. rewrite forallb_forall. intros s Hs. apply in_map_iff in Hs as (k & <- & Hk).
  rewrite Forall_forall in H. apply seg_checked_model, H, Hk.
Qed.

(** * get_closest with the model's own segmentation: entries and query as scalar strings *)
Definition dict_u (ents : list (str * N)) : dict := map (fun e => (utf8s (fst e), snd e)) ents.
Definition dist_u (norm : bool) (q k : str) : Q := distance nofl norm (seg_bytes q) (seg_bytes k).

Lemma closest_spec_u_l norm (ents : list (str * N)) q :
  ents <> [] -> Forall (fun e => scalars (fst e) = true) ents ->
  exists k f, In (k, f) ents
    /\ closest norm (segs_u (map fst ents)) (seg_bytes q) (dict_u ents) = CSome (utf8s k, f)
    /\ forall k' f', In (k', f') ents ->
         (dist_u norm q k <= dist_u norm q k')%Q
         /\ ((dist_u norm q k' == dist_u norm q k)%Q -> f' <= f).
Proof.
  intros Hne Hs.
  assert (Hkeys : Forall (fun x => scalars x = true) (map fst ents)).
  { rewrite Forall_map. exact Hs. }
  assert (Hk : forall k f, In (k, f) ents ->
             kdist norm (segs_u (map fst ents)) (seg_bytes q) (utf8s k, f) = dist_u norm q k).
  { intros k f Hin. unfold kdist, kseg, dist_u. cbn [fst].
    rewrite (seg_of_model_l (map fst ents) k Hkeys); [reflexivity|].
    apply in_map_iff. exists (k, f). split; [reflexivity|exact Hin]. }
  destruct (closest_spec_l norm (segs_u (map fst ents)) (seg_bytes q) (dict_u ents)) as [_ H].
  destruct H as (e & He & Hin & Hmin).
  - unfold dict_u. destruct ents; [congruence|discriminate].
  - intros e He. unfold dict_u in He. apply in_map_iff in He as ((k & f) & <- & Hin). cbn [fst snd].
    rewrite (seg_of_model_l (map fst ents) k Hkeys); [discriminate|].
    apply in_map_iff. exists (k, f). split; [reflexivity|exact Hin].
  - unfold dict_u in Hin. apply in_map_iff in Hin as ((k & f) & <- & Hin). cbn [fst snd] in *.
    exists k, f. split; [exact Hin|]. split; [exact He|]. intros k' f' Hin'.
    assert (Hd : In (utf8s k', f') (dict_u ents)).
    { unfold dict_u. apply in_map_iff. exists (k', f'). split; [reflexivity|exact Hin']. }
    destruct (Hmin _ Hd) as [H1 H2]. rewrite (Hk k f Hin), (Hk k' f' Hin') in *. cbn [snd] in H2.
    split; [exact H1|exact H2].
Qed.

(** * character n-grams are windows over the clusters of [segment word] *)
(** the cluster oracle of a word, computed by the model; [cl] = the class oracle
    (is_alphabetic, is_punctuation) of a cluster *)
Definition cls_u (cl : cluster -> bool * bool) (w : str) : list clinfo :=
  map (fun c => (utf8s c, cl c)) (segment w).
Definition okc (cl : cluster -> bool * bool) (c : cluster) : bool := fst (cl c) || snd (cl c).

Lemma cls_u_checked cl w : scalars w = true -> seg_checked (map fst (cls_u cl w)) = true.
Proof.
  intros H. unfold cls_u. rewrite map_map. cbn [fst]. apply (seg_checked_model w H).
Qed.

Lemma windows_seq {A} (n : nat) (l : list A) : (1 <= n)%nat ->
  windows n l = map (fun i => firstn n (skipn i l)) (seq 0 (length l + 1 - n)).
Proof.
  intros Hn. induction l as [|x t IH].
  - cbn [windows length]. replace (0 + 1 - n)%nat with 0%nat by lia. reflexivity.
  - cbn [windows]. destruct (Nat.leb n (length (x :: t))) eqn:E.
    + apply Nat.leb_le in E. cbn [length] in *.
      replace (S (length t) + 1 - n)%nat with (S (length t + 1 - n)) by lia.
      cbn [seq map skipn]. f_equal. rewrite IH, <- seq_shift, map_map. reflexivity.
    + apply Nat.leb_gt in E. cbn [length] in *. replace (S (length t) + 1 - n)%nat with 0%nat by lia. reflexivity.
Qed.

Lemma map_filter_map {A B C} (g : B -> C) (p : B -> bool) (h : A -> B) (l : list A) :
  map g (filter p (map h l)) = flat_map (fun i => if p (h i) then [g (h i)] else []) l.
Proof.
  induction l as [|x l IH]; [reflexivity|]. cbn [map filter flat_map].
  destruct (p (h x)); cbn [map app]; rewrite IH; reflexivity.
Qed.

Lemma flat_map_ext_in' {A B} (f g : A -> list B) l :
  (forall x, In x l -> f x = g x) -> flat_map f l = flat_map g l.
Proof.
  induction l as [|x l IH]; intros H; [reflexivity|]. cbn [flat_map].
  rewrite (H x (or_introl eq_refl)), IH; [reflexivity|]. intros y Hy. apply H. right. exact Hy.
Qed.

(** n = 1: the tokens are the alphabetic-or-punctuation clusters of [segment w], in order *)
Lemma char_tokens_1_u_l cl w :
  char_tokens 1 (cls_u cl w) = map utf8s (filter (okc cl) (segment w)).
Proof.
  unfold char_tokens, cls_u. cbn [Nat.ltb Nat.leb]. rewrite map_map. cbn [fst snd].
  induction (segment w) as [|c S IH]; [reflexivity|].
  cbn [map windows length]. cbn [Nat.leb firstn filter]. unfold centre_ok at 1. cbn [Nat.div nth snd fst Nat.divmod].
  fold (okc cl c). destruct (okc cl c); cbn [map join_sp fst]; rewrite IH; reflexivity.
Qed.

Lemma firstn3_skipn {A} (d : A) : forall i (l : list A), (i + 3 <= length l)%nat ->
  firstn 3 (skipn i l) = [nth i l d; nth (S i) l d; nth (S (S i)) l d].
Proof.
  induction i as [|i IH]; intros l H.
  - destruct l as [|a [|b [|c r]]]; cbn [length] in H; try lia. reflexivity.
  - destruct l as [|a l]; cbn [length] in H; [lia|]. cbn [skipn nth]. apply IH. lia.
Qed.

(** n = 3: one window per cluster of [segment w] — the cluster between its neighbours in
    <bow> clusters <eow> — kept iff the centre cluster is alphabetic or punctuation *)
Lemma char_tokens_3_u_l cl w :
  let S := segment w in
  let B := bow :: map utf8s S ++ [eow] in
  char_tokens 3 (cls_u cl w) =
  flat_map (fun i => if okc cl (nth i S [])
                     then [join_sp [nth i B []; nth (Datatypes.S i) B []; nth (Datatypes.S (Datatypes.S i)) B []]]
                     else [])
           (seq 0 (length S)).
Proof.
  cbv zeta. set (B := bow :: map utf8s (segment w) ++ [eow]). unfold char_tokens, cls_u. rewrite map_map. cbn [fst snd]. change (Nat.ltb 1 3) with true. cbv iota.
  set (S := segment w).
  set (el := map (fun c : cluster => (utf8s c, okc cl c)) S).
  change (map (fun x : cluster => (utf8s x, fst (cl x) || snd (cl x))) S) with el.
  set (chars := (bow, false) :: el ++ [(eow, false)]).
  assert (Lel : length el = length S) by (unfold el; apply map_length).
  assert (Lc : length chars = (length S + 2)%nat).
  { unfold chars. cbn [length]. rewrite app_length, Lel. cbn [length]. lia. }
  change (windows 3 _) with (windows 3 chars).
  rewrite (windows_seq 3 chars) by lia. rewrite Lc. replace (length S + 2 + 1 - 3)%nat with (length S) by lia.
  rewrite map_filter_map. apply flat_map_ext_in'. intros i Hi. apply in_seq in Hi. cbv beta.
  rewrite (@firstn3_skipn (bytes * bool)%type ([], false) i chars) by lia.
  assert (Hmid : nth (Datatypes.S i) chars ([], false) = (utf8s (nth i S []), okc cl (nth i S []))).
  { unfold chars. cbn [nth]. rewrite app_nth1 by lia. unfold el.
    rewrite nth_indep with (d' := (utf8s [], okc cl [])) by (rewrite map_length; unfold cluster, str, cp in *; lia).
    exact (map_nth (fun c : cluster => (utf8s c, okc cl c)) S [] i). }
  unfold centre_ok. change (Nat.div 3 2) with 1%nat. cbn [nth]. rewrite Hmid. cbn [snd].
  destruct (okc cl (nth i S [])); [|reflexivity]. f_equal. cbn [map]. f_equal.
  assert (HB : map fst chars = B).
  { unfold chars, el, B. cbn [map fst]. rewrite map_app, map_map. reflexivity. }
  rewrite <- HB. pose proof (map_nth fst chars ([], false)) as M. cbn [fst] in M. rewrite !M, ?Hmid. reflexivity.
Qed.

(** in both modes there is at most one token per cluster of [segment w] *)
Lemma flat_map_len_le {A B} (f : A -> list B) l : (forall x, length (f x) <= 1)%nat ->
  (length (flat_map f l) <= length l)%nat.
Proof.
  intros H. induction l as [|x l IH]; [cbn; lia|]. cbn [flat_map length]. rewrite app_length.
  specialize (H x). lia.
Qed.

Lemma filter_len_le {A} (p : A -> bool) l : (length (filter p l) <= length l)%nat.
Proof. induction l as [|x l IH]; [cbn; lia|]. cbn [filter]. destruct (p x); cbn [length]; lia. Qed.

Lemma char_tokens_count_u_l cl w :
  (length (char_tokens 1 (cls_u cl w)) <= length (segment w))%nat
  /\ (length (char_tokens 3 (cls_u cl w)) <= length (segment w))%nat.
Proof.
  split.
  - rewrite char_tokens_1_u_l, map_length. apply filter_len_le.
  - rewrite char_tokens_3_u_l. etransitivity; [apply flat_map_len_le|rewrite seq_length; reflexivity].
    intros i. destruct (okc cl (nth i (segment w) [])); cbn [length]; lia.
Qed.

(** C13 proofs, part 7: the binary64 F-beta of the repaired [_f1] is within relative 2^-49 of the
    rational model's value (C13_Model.f1), for every beta with a finite square — underflow of
    beta^2 and of beta^2 * precision included (their absolute error 2^-1075 is absorbed by the
    neighbouring normal term). *)
From Coq Require Import ZArith List Bool QArith Qreals Reals Lia Lra.
From Flocq Require Import Core IEEE754.BinarySingleNaN Relative.
From TU Require Import Base C13_Model C13_Float C13_F1 C13_FloatProofs.
Import ListNotations.
Close Scope Q_scope.
Open Scope R_scope.

(** * k-fold relative closeness: y (1-u)^k <= x <= y (1+u)^k *)
Definition lo : R := 1 - u53.
Definition hi : R := 1 + u53.
Definition ap (k : nat) (x y : R) : Prop := y * lo ^ k <= x <= y * hi ^ k.

Lemma lo_pos : 0 < lo. Proof. unfold lo. pose proof u53_lt_1. lra. Qed.
Lemma lo_le1 : lo <= 1. Proof. unfold lo. pose proof u53_pos. lra. Qed.
Lemma hi_ge1 : 1 <= hi. Proof. unfold hi. pose proof u53_pos. lra. Qed.
Lemma lok_pos : forall k, 0 < lo ^ k. Proof. intros. apply pow_lt, lo_pos. Qed.
Lemma hik_pos : forall k, 0 < hi ^ k. Proof. intros. apply pow_lt. pose proof hi_ge1. lra. Qed.
Lemma lok_le1 : forall k, lo ^ k <= 1.
Proof. intros k. rewrite <- (pow1 k). apply pow_incr. pose proof lo_pos. pose proof lo_le1. lra. Qed.
Lemma hik_ge1 : forall k, 1 <= hi ^ k.
Proof. intros k. apply pow_R1_Rle, hi_ge1. Qed.

Lemma ap_nonneg : forall k x y, 0 <= y -> ap k x y -> 0 <= x.
Proof. intros k x y Y [L _]. pose proof (lok_pos k). eapply Rle_trans; [|exact L]. apply Rmult_le_pos; lra. Qed.

Lemma ap_refl : forall x, ap 0 x x.
Proof. intros x. unfold ap. cbn [pow]. lra. Qed.

Lemma ap_weaken : forall j k x y, (j <= k)%nat -> 0 <= y -> ap j x y -> ap k x y.
Proof.
  intros j k x y H Y [L U]. replace k with (j + (k - j))%nat by lia. unfold ap. rewrite !pow_add.
  pose proof (lok_pos j). pose proof (hik_pos j). pose proof (lok_pos (k - j)). pose proof (lok_le1 (k - j)).
  pose proof (hik_ge1 (k - j)). split.
  - eapply Rle_trans; [|exact L]. rewrite <- Rmult_assoc. rewrite <- (Rmult_1_r (y * lo ^ j)) at 2.
    apply Rmult_le_compat_l; [apply Rmult_le_pos; lra|lra].
  - eapply Rle_trans; [exact U|]. rewrite <- Rmult_assoc. rewrite <- (Rmult_1_r (y * hi ^ j)) at 1.
    apply Rmult_le_compat_l; [apply Rmult_le_pos; lra|lra].
Qed.

Lemma ap_trans : forall j k x y z, ap j x y -> ap k y z -> ap (j + k) x z.
Proof.
  intros j k x y z [L1 U1] [L2 U2]. unfold ap. rewrite !pow_add.
  pose proof (lok_pos j). pose proof (hik_pos j). split.
  - eapply Rle_trans; [|exact L1]. replace (z * (lo ^ j * lo ^ k)) with (z * lo ^ k * lo ^ j) by ring.
    apply Rmult_le_compat_r; lra.
  - eapply Rle_trans; [exact U1|]. replace (z * (hi ^ j * hi ^ k)) with (z * hi ^ k * hi ^ j) by ring.
    apply Rmult_le_compat_r; lra.
Qed.

Lemma ap_mul : forall j k x x' y y', 0 <= x' -> 0 <= y' -> ap j x x' -> ap k y y' -> ap (j + k) (x * y) (x' * y').
Proof.
  intros j k x x' y y' X Y Hx Hy.
  pose proof (ap_nonneg _ _ _ X Hx) as X0. pose proof (ap_nonneg _ _ _ Y Hy) as Y0.
  destruct Hx as [L1 U1]. destruct Hy as [L2 U2]. unfold ap. rewrite !pow_add.
  pose proof (lok_pos j). pose proof (hik_pos j). pose proof (lok_pos k). pose proof (hik_pos k). split.
  - replace (x' * y' * (lo ^ j * lo ^ k)) with ((x' * lo ^ j) * (y' * lo ^ k)) by ring.
    apply Rmult_le_compat; try assumption; apply Rmult_le_pos; lra.
  - replace (x' * y' * (hi ^ j * hi ^ k)) with ((x' * hi ^ j) * (y' * hi ^ k)) by ring.
    apply Rmult_le_compat; assumption.
Qed.

Lemma ap_scale : forall k x x' c, 0 <= x' -> 0 <= c -> ap k x x' -> ap k (x * c) (x' * c).
Proof.
  intros k x x' c X C H. replace k with (k + 0)%nat by lia. apply ap_mul; try assumption. apply ap_refl.
Qed.

Lemma ap_add : forall k x x' y y', ap k x x' -> ap k y y' -> ap k (x + y) (x' + y').
Proof. intros k x x' y y' [L1 U1] [L2 U2]. unfold ap. rewrite !Rmult_plus_distr_r. lra. Qed.

Lemma ap_rnd : forall x, bpow radix2 (-1022) <= x -> ap 1 (rnd x) x.
Proof.
  intros x H. unfold ap, lo, hi. rewrite !pow_1. split; [apply rnd_dn|apply rnd_up]; exact H.
Qed.

(** a possibly underflowing rounding next to a term that dominates the absolute error *)
Lemma rnd_up_abs : forall x, 0 <= x -> rnd x <= x * (1 + u53) + eta64.
Proof.
  intros x X0.
  destruct (error_N_FLT radix2 (SpecFloat.emin prec emax) prec ltac:(reflexivity) (fun z => negb (Z.even z)) x)
    as (eps & eta & He & Ht & _ & E).
  change (round radix2 (FLT_exp (SpecFloat.emin prec emax) prec) (Znearest (fun z => negb (Z.even z))) x) with (rnd x) in E.
  replace (/ 2 * bpow radix2 (- prec + 1)) with u53 in He.
  2:{ unfold u53. change (- prec + 1)%Z with (1 + -53)%Z. rewrite bpow_plus. change (bpow radix2 1) with 2. field. }
  replace (/ 2 * bpow radix2 (SpecFloat.emin prec emax)) with eta64 in Ht.
  2:{ unfold eta64. change (SpecFloat.emin prec emax) with (1 + -1075)%Z. rewrite bpow_plus. change (bpow radix2 1) with 2. field. }
  apply Rabs_le_inv in He. apply Rabs_le_inv in Ht. rewrite E.
  assert (x * eps <= u53 * x) by nra. lra.
Qed.

Lemma ap_rnd_scale_add : forall x c z, 0 <= x -> 0 <= c <= 1 -> eta64 <= u53 * z ->
  ap 1 (rnd x * c + z) (x * c + z).
Proof.
  intros x c z X [C0 C1] H. unfold ap, lo, hi. rewrite !pow_1.
  pose proof (rnd_dn_abs x X) as L. pose proof (rnd_up_abs x X) as U.
  assert (E0 : 0 <= eta64) by (apply bpow_ge_0).
  assert (L' : (x * (1 - u53) - eta64) * c <= rnd x * c) by (apply Rmult_le_compat_r; assumption).
  assert (U' : rnd x * c <= (x * (1 + u53) + eta64) * c) by (apply Rmult_le_compat_r; assumption).
  assert (EC : eta64 * c <= eta64) by nra.
  split; nra.
Qed.

Lemma eta_le_u_u53sq : eta64 <= u53 * (u53 * u53).
Proof. unfold eta64, u53. rewrite <- !bpow_plus. apply bpow_le. lia. Qed.

(** * the repaired quotient against the exact formula *)
Lemma close_facts : forall (B PS RS : R) (b2 p r : f64),
  0 <= B -> u53 <= PS <= 1 -> u53 <= RS <= 1 ->
  B2R b2 = rnd B -> B2R p = rnd PS -> B2R r = rnd RS ->
  u53 <= B2R p <= 1 /\ u53 <= B2R r <= 1 /\ ap 1 (B2R p) PS /\ ap 1 (B2R r) RS /\ 0 <= B2R b2.
Proof.
  intros B PS RS b2 p r B0 HPS HRS Eb Ep Er.
  pose proof u53_pos as U. pose proof u53_normal as UN.
  assert (N1 : bpow radix2 (-1022) <= u53).
  { unfold u53. apply bpow_le. lia. }
  repeat split.
  - rewrite Ep. apply rnd_ge_fmt; [apply fmt_u53|tauto].
  - rewrite Ep. apply rnd_le_fmt; [apply fmt_1|tauto].
  - rewrite Er. apply rnd_ge_fmt; [apply fmt_u53|tauto].
  - rewrite Er. apply rnd_le_fmt; [apply fmt_1|tauto].
  - rewrite Ep. apply ap_rnd. lra.
  - rewrite Ep. apply ap_rnd. lra.
  - rewrite Er. apply ap_rnd. lra.
  - rewrite Er. apply ap_rnd. lra.
  - rewrite Eb. apply rnd_nonneg. exact B0.
Qed.

Lemma close_ND : forall (B PS RS : R) (b2 p r : f64),
  0 <= B -> u53 <= PS <= 1 -> u53 <= RS <= 1 ->
  Fin b2 -> B2R b2 = rnd B -> Fin p -> B2R p = rnd PS -> Fin r -> B2R r = rnd RS ->
  let N := fadd (fmul (fmul b2 p) r) (fmul p r) in
  let D := fadd (fmul b2 p) r in
  Fin N /\ Fin D /\ ap 7 (B2R N) ((B + 1) * PS * RS) /\ ap 4 (B2R D) (B * PS + RS).
Proof.
  intros B PS RS b2 p r B0 HPS HRS Fb Eb Fp Ep Fr Er. cbv zeta.
  destruct (close_facts B PS RS b2 p r B0 HPS HRS Eb Ep Er) as (HP & HR & AP & AR & Bb0).
  set (NQ := (B + 1) * PS * RS). set (DQ := B * PS + RS).
  pose proof u53_pos as U. pose proof u53_lt_1 as U1. pose proof u53_normal as UN. pose proof eta_le as ET.
  pose proof eta_le_u_u53sq as ET3.
  set (P := B2R p) in *. set (R := B2R r) in *. set (b := B2R b2) in *.
  assert (Hb : NNF b2) by (split; assumption).
  assert (Hp : NNF p) by (split; [exact Fp|fold P; lra]). assert (Hr : NNF r) by (split; [exact Fr|fold R; lra]).
  destruct (fmul_le1 b2 p Hb Hp ltac:(fold P; lra)) as (Hbp & Ebp & _). fold b P in Ebp.
  destruct (fmul_le1 (fmul b2 p) r Hbp Hr ltac:(fold R; lra)) as (Hbpr & Ebpr & _). fold R in Ebpr.
  destruct (fmul_le1 p r Hp Hr ltac:(fold R; lra)) as (Hpr & Epr & Lpr0). fold P R in Epr.
  assert (Lpr1 : B2R (fmul p r) <= 1).
  { rewrite Epr. apply rnd_le_fmt; [apply fmt_1|]. assert (0 <= (1 - P) * R) by (apply Rmult_le_pos; lra). nra. }
  destruct (fadd_le1 (fmul b2 p) r Hbp Hr ltac:(fold R; lra)) as ([FD D0] & ED). fold R in ED.
  destruct (fadd_le1 (fmul (fmul b2 p) r) (fmul p r) Hbpr Hpr Lpr1) as ([FN N0] & EN).
  destruct Hbp as [Fbp bp0]. destruct Hbpr as [Fbpr bpr0]. destruct Hpr as [Fpr pr0].
  set (bp := B2R (fmul b2 p)) in *. set (bpr := B2R (fmul (fmul b2 p) r)) in *. set (pr := B2R (fmul p r)) in *.
  assert (PR : u53 * u53 <= P * R) by (apply Rmult_le_compat; lra).
  assert (PR1 : P * R <= 1) by nra.
  assert (PR0 : 0 <= P * R) by (apply Rmult_le_pos; lra).
  assert (prL : u53 * u53 <= pr).
  { rewrite Epr. apply rnd_ge_fmt; [|exact PR]. unfold u53. rewrite <- bpow_plus. apply fmt_bpow. lia. }
  assert (PS0 : 0 <= PS) by lra. assert (RS0 : 0 <= RS) by lra.
  assert (bP0 : 0 <= b * P) by (apply Rmult_le_pos; lra).
  assert (E3 : eta64 <= u53 * (P * R)) by nra.
  split; [exact FN|]. split; [exact FD|]. split.
  - (* numerator: seven steps *)
    assert (A1 : ap 1 (rnd (bpr + pr)) (bpr + pr)) by (apply ap_rnd; lra).
    assert (A2 : ap 1 (bpr + pr) (bp * R + pr)).
    { rewrite Ebpr. replace (rnd (bp * R) + pr) with (rnd (bp * R) * 1 + pr) by ring.
      replace (bp * R + pr) with (bp * R * 1 + pr) by ring.
      apply ap_rnd_scale_add; [apply Rmult_le_pos; lra|lra|nra]. }
    assert (A3 : ap 1 (bp * R + pr) (bp * R + P * R)).
    { apply ap_add; [apply (ap_weaken 0 1); [lia|apply Rmult_le_pos; lra|apply ap_refl]|].
      rewrite Epr. apply ap_rnd. lra. }
    assert (A4 : ap 1 (bp * R + P * R) (b * P * R + P * R)).
    { rewrite Ebp. apply ap_rnd_scale_add; [exact bP0|lra|exact E3]. }
    assert (A5 : ap 1 (b * P * R + P * R) (B * (P * R) + P * R)).
    { replace (b * P * R) with (b * (P * R)) by ring. rewrite Eb.
      apply ap_rnd_scale_add; [exact B0|lra|exact E3]. }
    assert (A6 : ap 2 (B * (P * R) + P * R) NQ).
    { unfold NQ. replace (B * (P * R) + P * R) with (P * R * (B + 1)) by ring.
      replace ((B + 1) * PS * RS) with (PS * RS * (B + 1)) by ring.
      apply ap_scale; [apply Rmult_le_pos; lra|lra|].
      change 2%nat with (1 + 1)%nat. apply ap_mul; assumption. }
    rewrite EN. fold bpr pr.
    change 7%nat with (1 + (1 + (1 + (1 + (1 + 2)))))%nat.
    eapply ap_trans; [exact A1|]. eapply ap_trans; [exact A2|]. eapply ap_trans; [exact A3|].
    eapply ap_trans; [exact A4|]. eapply ap_trans; [exact A5|exact A6].
  - (* denominator: four steps *)
    assert (N1 : bpow radix2 (-1022) <= u53) by (unfold u53; apply bpow_le; lia).
    assert (A1 : ap 1 (rnd (bp + R)) (bp + R)) by (apply ap_rnd; lra).
    assert (A2 : ap 1 (bp + R) (b * P + R)).
    { rewrite Ebp. replace (rnd (b * P) + R) with (rnd (b * P) * 1 + R) by ring.
      replace (b * P + R) with (b * P * 1 + R) by ring.
      apply ap_rnd_scale_add; [exact bP0|lra|nra]. }
    assert (A3 : ap 1 (b * P + R) (B * P + R)).
    { rewrite Eb. apply ap_rnd_scale_add; [exact B0|lra|nra]. }
    assert (A4 : ap 1 (B * P + R) DQ).
    { unfold DQ. apply ap_add; [|exact AR].
      replace (B * P) with (P * B) by ring. replace (B * PS) with (PS * B) by ring.
      apply ap_scale; assumption. }
    rewrite ED. fold bp.
    change 4%nat with (1 + (1 + (1 + 1)))%nat.
    eapply ap_trans; [exact A1|]. eapply ap_trans; [exact A2|]. eapply ap_trans; [exact A3|exact A4].
Qed.

Definition e49 : R := bpow radix2 (-49).
Lemma e49_val : e49 = / 562949953421312.
Proof. change e49 with (bpow radix2 (Z.opp 49)). rewrite bpow_opp. reflexivity. Qed.

Lemma consts_close :
  hi ^ 8 <= (1 + e49) * lo ^ 4 /\ (1 - e49) * hi ^ 4 <= lo ^ 8 /\ / 2 * hi ^ 4 <= lo ^ 7.
Proof.
  unfold hi, lo. rewrite u53_val, e49_val. cbn [pow]. repeat split; lra.
Qed.

(** the repaired quotient against the exact formula FQ = (B+1) PS RS / (B PS + RS) *)
Lemma close_F : forall (B PS RS : R) (b2 p r : f64) (FQ : R),
  0 <= B -> u53 <= PS <= 1 -> u53 <= RS <= 1 ->
  Fin b2 -> B2R b2 = rnd B -> Fin p -> B2R p = rnd PS -> Fin r -> B2R r = rnd RS ->
  FQ * (B * PS + RS) = (B + 1) * PS * RS ->
  Fin (fbeta_fixed b2 p r) /\ FQ * (1 - e49) <= B2R (fbeta_fixed b2 p r) <= FQ * (1 + e49).
Proof.
  intros B PS RS b2 p r FQ B0 HPS HRS Fb Eb Fp Ep Fr Er HFQ.
  destruct (close_ND B PS RS b2 p r B0 HPS HRS Fb Eb Fp Ep Fr Er) as (FN & FD & [NL NU] & [DL DU]).
  unfold fbeta_fixed.
  set (N := fadd (fmul (fmul b2 p) r) (fmul p r)) in *. set (D := fadd (fmul b2 p) r) in *.
  set (n := B2R N) in *. set (d := B2R D) in *.
  set (NQ := (B + 1) * PS * RS) in *. set (DQ := B * PS + RS) in *.
  destruct consts_close as (C1 & C2 & C3).
  pose proof u53_pos as U. pose proof (lok_pos 4) as L4. pose proof (lok_pos 7) as L7. pose proof (lok_pos 8) as L8.
  pose proof (hik_pos 4) as H4. pose proof (hik_pos 7) as H7. pose proof (hik_pos 8) as H8.
  pose proof hi_ge1 as Hh1. pose proof lo_pos as Ll0. pose proof lo_le1 as Ll1.
  assert (E0 : 0 < e49) by apply bpow_gt_0.
  assert (E1 : e49 < 1) by (rewrite e49_val; lra).
  assert (BPS : 0 <= B * PS) by (apply Rmult_le_pos; lra).
  assert (DQ0 : u53 <= DQ) by (unfold DQ; lra).
  assert (PSRS : u53 * u53 <= PS * RS) by (apply Rmult_le_compat; lra).
  assert (NQL : PS * RS * DQ <= NQ).
  { unfold NQ, DQ. replace ((B + 1) * PS * RS) with (PS * RS * (B + 1)) by ring.
    apply Rmult_le_compat_l; [apply Rmult_le_pos; lra|].
    assert (0 <= B * (1 - PS)) by (apply Rmult_le_pos; lra). lra. }
  assert (FQL : u53 * u53 <= FQ).
  { apply Rmult_le_reg_r with DQ; [lra|]. rewrite HFQ. eapply Rle_trans; [|exact NQL].
    apply Rmult_le_compat_r; lra. }
  assert (FQ0 : 0 <= FQ) by nra.
  assert (d0 : 0 < d) by (apply Rlt_le_trans with (DQ * lo ^ 4); [apply Rmult_lt_0_compat; lra|exact DL]).
  assert (NQ0 : 0 <= NQ) by (rewrite <- HFQ; apply Rmult_le_pos; lra).
  assert (n0 : 0 <= n) by (eapply Rle_trans; [|exact NL]; apply Rmult_le_pos; lra).
  set (i := / d). assert (i0 : 0 < i) by (apply Rinv_0_lt_compat; exact d0).
  assert (di : d * i = 1) by (unfold i; field; lra).
  set (q := n * i).
  assert (qd : q * d = n) by (unfold q; rewrite Rmult_assoc, (Rmult_comm i d), di; ring).
  assert (q0 : 0 <= q) by (apply Rmult_le_pos; lra).
  (* q against FQ, in product form *)
  assert (QU : q * hi <= FQ * (1 + e49)).
  { apply Rmult_le_reg_r with d; [exact d0|].
    replace (q * hi * d) with (q * d * hi) by ring. rewrite qd.
    apply Rle_trans with (NQ * hi ^ 7 * hi); [apply Rmult_le_compat_r; [lra|exact NU]|].
    replace (NQ * hi ^ 7 * hi) with (NQ * hi ^ 8) by (cbn [pow]; ring).
    apply Rle_trans with (FQ * (1 + e49) * (DQ * lo ^ 4)); [|apply Rmult_le_compat_l; [apply Rmult_le_pos; lra|exact DL]].
    rewrite <- HFQ. replace (FQ * (1 + e49) * (DQ * lo ^ 4)) with (FQ * DQ * ((1 + e49) * lo ^ 4)) by ring.
    apply Rmult_le_compat_l; [rewrite HFQ; exact NQ0|exact C1]. }
  assert (QL : FQ * (1 - e49) <= q * lo).
  { apply Rmult_le_reg_r with d; [exact d0|].
    replace (q * lo * d) with (q * d * lo) by ring. rewrite qd.
    apply Rle_trans with (NQ * lo ^ 7 * lo); [|apply Rmult_le_compat_r; [pose proof lo_pos; lra|exact NL]].
    replace (NQ * lo ^ 7 * lo) with (NQ * lo ^ 8) by (cbn [pow]; ring).
    apply Rle_trans with (FQ * (1 - e49) * (DQ * hi ^ 4)); [apply Rmult_le_compat_l; [apply Rmult_le_pos; lra|exact DU]|].
    rewrite <- HFQ. replace (FQ * (1 - e49) * (DQ * hi ^ 4)) with (FQ * DQ * ((1 - e49) * hi ^ 4)) by ring.
    apply Rmult_le_compat_l; [rewrite HFQ; exact NQ0|exact C2]. }
  assert (QN : bpow radix2 (-1022) <= q).
  { apply Rle_trans with (u53 * u53 * / 2).
    - unfold u53. change (/ 2) with (bpow radix2 (Z.opp 1)). rewrite <- !bpow_plus. apply bpow_le. lia.
    - apply Rmult_le_reg_r with d; [exact d0|]. rewrite qd.
      apply Rle_trans with (NQ * lo ^ 7); [|exact NL].
      apply Rle_trans with (u53 * u53 * / 2 * (DQ * hi ^ 4)); [apply Rmult_le_compat_l; [nra|exact DU]|].
      apply Rle_trans with (PS * RS * DQ * lo ^ 7); [|apply Rmult_le_compat_r; [lra|exact NQL]].
      replace (u53 * u53 * / 2 * (DQ * hi ^ 4)) with (u53 * u53 * DQ * (/ 2 * hi ^ 4)) by ring.
      apply Rmult_le_compat; try lra; [apply Rmult_le_pos; nra|apply Rmult_le_compat_r; lra]. }
  destruct (fdiv_spec N D FN ltac:(fold d; lra)) as [E F].
  { fold n d. change (n / d) with q.
    apply rnd_lt_TOP with 2; [apply fmt_2|apply two_lt_TOP|]. rewrite Rabs_pos_eq by exact q0.
    (* q <= FQ (1+e) / hi <= FQ * 2 <= 2 needs FQ <= 1 *)
    assert (FQ1 : FQ <= 1).
    { apply Rmult_le_reg_r with DQ; [lra|]. rewrite HFQ, Rmult_1_l. unfold NQ, DQ.
      replace (B + 1) with (1 + B) by ring. apply fbeta_exact_le; lra. }
    pose proof hi_ge1. assert (q <= q * hi) by nra. nra. }
  fold n d in E. change (n / d) with q in E.
  split; [exact F|]. rewrite E.
  pose proof (rnd_dn q QN) as RL. pose proof (rnd_up q QN) as RU. fold lo in RL. fold hi in RU. lra.
Qed.

(** * [_f1] (repaired) against C13_Model.f1 *)
Lemma b2_val : forall beta : f64, Fin (fmul beta beta) -> B2R (fmul beta beta) = rnd (B2R beta * B2R beta).
Proof.
  intros beta F.
  pose proof (Bmult_correct prec emax Hprec Hmax mode_NE beta beta) as C.
  cbn [round_mode] in C. fold (rnd (B2R beta * B2R beta)) in C. fold TOP in C.
  destruct (Rlt_bool_spec (Rabs (rnd (B2R beta * B2R beta))) TOP) as [L|L].
  - destruct C as (C1 & _). exact C1.
  - exfalso. unfold Fin, fmul in F. rewrite <- is_finite_SF_B2SF, C in F. discriminate.
Qed.

Lemma Q2R_ratio_bounds : forall a b, (0 < a <= b)%nat -> (Z.of_nat b < 2 ^ 53)%Z -> u53 <= Q2R (ratio a b) <= 1.
Proof.
  intros a b Hab Hb. rewrite Q2R_ratio.
  assert (D1 : 1 <= IZR (Z.max (Z.of_nat b) 1)) by (apply (IZR_le 1); lia).
  assert (A1 : 1 <= IZR (Z.of_nat a)) by (apply (IZR_le 1); lia).
  assert (AD : IZR (Z.of_nat a) <= IZR (Z.max (Z.of_nat b) 1)) by (apply IZR_le; lia).
  set (i := / IZR (Z.max (Z.of_nat b) 1)).
  assert (i0 : 0 < i) by (apply Rinv_0_lt_compat; lra).
  assert (iu : u53 <= i) by (apply inv_IZR_ge_u53; lia).
  assert (Di : IZR (Z.max (Z.of_nat b) 1) * i = 1) by (unfold i; field; lra).
  change (IZR (Z.of_nat a) / IZR (Z.max (Z.of_nat b) 1)) with (IZR (Z.of_nat a) * i).
  split.
  - assert (0 <= (IZR (Z.of_nat a) - 1) * i) by (apply Rmult_le_pos; lra). lra.
  - assert (0 <= (IZR (Z.max (Z.of_nat b) 1) - IZR (Z.of_nat a)) * i) by (apply Rmult_le_pos; lra). lra.
Qed.

Lemma f1_q_close_F_l : forall (betaq : Q) beta tp fp fn,
  Q2R betaq = B2R beta -> Fin (fmul beta beta) ->
  (Z.of_nat (tp + fp) < 2 ^ 53)%Z -> (Z.of_nat (tp + fn) < 2 ^ 53)%Z ->
  Rabs (B2R (c1f (f1_fl beta tp fp fn)) - Q2R (c1 (f1 betaq tp fp fn))) <= e49 * Q2R (c1 (f1 betaq tp fp fn)).
Proof.
  intros betaq beta tp fp fn Hq Fb H1 H2.
  destruct tp as [|tp'].
  - destruct (f1_fl_calibrated_l beta) as [Z _]. destruct (Z fp fn ltac:(lia) ltac:(lia)) as (E & _).
    destruct (f1_no_tp betaq fp fn) as (Eq & _). rewrite E. rewrite (Qeq_eqR _ _ Eq).
    change (Q2R 0) with (0 * / 1). rewrite Rmult_0_l, Rminus_0_r, Rabs_R0, Rmult_0_r. lra.
  - set (tp := S tp') in *.
    assert (T : (0 < tp)%nat) by (unfold tp; lia).
    (* the rational side *)
    pose proof (ratio_pos tp (tp + fp) T) as QP. pose proof (ratio_pos tp (tp + fn) T) as QR.
    assert (G : qpos (ratio tp (tp + fp) + ratio tp (tp + fn)) = true).
    { apply qpos_spec. apply Qlt_trans with (ratio tp (tp + fp)); [exact QP|].
      rewrite <- (Qplus_0_r (ratio tp (tp + fp))) at 1. apply Qplus_lt_r. exact QR. }
    pose proof (f1_den_pos_l betaq tp fp fn G) as DP.
    assert (EQ : Q2R (c1 (f1 betaq tp fp fn)) =
                 (1 + Q2R betaq * Q2R betaq) * Q2R (ratio tp (tp + fp)) * Q2R (ratio tp (tp + fn))
                 / (Q2R betaq * Q2R betaq * Q2R (ratio tp (tp + fp)) + Q2R (ratio tp (tp + fn)))).
    { unfold f1, c1. cbn [fst]. rewrite G. rewrite Q2R_div by (intros Z; rewrite Z in DP; apply (Qlt_irrefl 0); exact DP).
      rewrite !Q2R_mult, !Q2R_plus, !Q2R_mult. f_equal. f_equal. f_equal. f_equal. unfold Q2R. cbn. field. }
    set (PS := Q2R (ratio tp (tp + fp))) in *. set (RS := Q2R (ratio tp (tp + fn))) in *.
    set (B := Q2R betaq * Q2R betaq) in *.
    assert (HPS : u53 <= PS <= 1) by (apply Q2R_ratio_bounds; lia).
    assert (HRS : u53 <= RS <= 1) by (apply Q2R_ratio_bounds; lia).
    assert (B0 : 0 <= B) by (unfold B; apply Rle_0_sqr).
    pose proof u53_pos as U.
    assert (BPS : 0 <= B * PS) by (apply Rmult_le_pos; lra).
    set (FQ := Q2R (c1 (f1 betaq tp fp fn))) in *.
    assert (HFQ : FQ * (B * PS + RS) = (B + 1) * PS * RS).
    { rewrite EQ. field. lra. }
    (* the float side *)
    unfold f1_fl, f1_fl_z.
    destruct (f1_gen_shape fbeta_fixed beta (Z.of_nat tp) (Z.of_nat fp) (Z.of_nat fn)) as (_ & _ & E1). rewrite E1. clear E1.
    rewrite <- !Nat2Z.inj_add.
    destruct (ratio_fl_spec (Z.of_nat tp) (Z.of_nat (tp + fp)) ltac:(lia) H1) as (Fp & Ep & P01 & _ & _ & Pp & _).
    destruct (ratio_fl_spec (Z.of_nat tp) (Z.of_nat (tp + fn)) ltac:(lia) H2) as (Fr & Er & R01 & _ & _ & Rp & _).
    rewrite <- Q2R_ratio in Ep, Er. fold PS in Ep. fold RS in Er.
    set (p := ratio_fl (Z.of_nat tp) (Z.of_nat (tp + fp))) in *. set (r := ratio_fl (Z.of_nat tp) (Z.of_nat (tp + fn))) in *.
    rewrite (guard_true p r) by (try split; try assumption; specialize (Rp ltac:(lia)); lra).
    assert (Eb : B2R (fmul beta beta) = rnd B) by (unfold B; rewrite Hq; apply b2_val; exact Fb).
    destruct (close_F B PS RS (fmul beta beta) p r FQ B0 HPS HRS Fb Eb Fp Ep Fr Er HFQ) as (_ & L & Uu).
    apply Rabs_le. split; lra.
Qed.

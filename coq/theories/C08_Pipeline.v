(** C08 over modelled pipelines: the direct line for [preprocessing(cfg)] and the loader computed from
    (file lines, pipeline configuration, tokenizer, seed, epoch, skip, limit, rank, world, fast-forward,
    batching configuration) alone.  Definitions only.

    [loader_run] is [TrainLoader::init_iter] + drain (src/data/mod.rs:970-1018) with every stage modelled:
      generator (C07_Model: [run_gen] / [run_gen_seeded], seeded with seed + epoch)
      -> enumerate / take(limit) / skip(skip + ff + rank) / step_by(world)   (C08_Model.sel)
      -> drop unparsable lines -> pipeline (Pipeline_Model, item seed = seed + epoch + position) -> drop Err
         (= C08_EndToEnd.loader_items for the pipeline [pipe_fn])
      -> Batched seeded with seed + epoch ([C06_Seeded.batches_seeded]: C06_Model's [build_batch] with the two draws
         taken from RNG_Model: [shuffle] of the buffer, [random_range] over the sub-sequences)
    The threaded stages (pipe, buffered) and tensorize are transparent (C05/C09).  *)
From TU Require Import RNG_Model.
From TU Require Import Base C01_Model C06_Model C06_Seeded C07_Model C08_Model C08_EndToEnd Pipeline_Model.
Local Open Scope nat_scope.

(** * the loader *)
(** a line of a jsonl file: [None] = the line is no json object with a string "input" (and string or no "target") *)
Definition line := option item.

(** the generator's output: (file index, line) in the order of [MultiTrainDataGenerator], seeded for the
    weighted strategy; [None] = the rejection sampler ran out of fuel (see notes/RNG.md) *)
Definition gen_lines (s : strategy) (seed : N) (files : list (list line)) : option (C07_Model.res line) :=
  match s with
  | Weighted => run_gen_seeded seed files
  | _ => Some (run_gen s (fun _ _ => 0) files)
  end.

(** what [filter_map(data.ok() ..)] sees at a position: the parsed item with its file index *)
Definition data_of_out (out : list (nat * line)) : list (option (nat * item)) :=
  map (fun p => option_map (pair (fst p)) (snd p)) out.

Section Loader.
Variable opq : nat -> item -> info -> res (item * info).
Variables (p : pcfg) (g : bool) (b : base) (seed epoch : N).

(** the pipeline applied to the item of global position [i]: [None] = Err (dropped with a warning).
    A panic of the pipeline is kept apart: it ends the run ([loader_panics]). *)
Definition pipe_res (i : nat) (d : nat * item) : res titem :=
  pipeline opq p g b (snd d) (item_info seed epoch i (fst d)).
Definition pipe_fn (i : nat) (d : nat * item) : option titem :=
  match pipe_res i d with ROk t => Some t | _ => None end.

Definition is_panic {X} (r : res X) : bool := match r with RPanic _ => true | _ => false end.

(** some selected position's pipeline call panics *)
Definition loader_panics (data : list (option (nat * item))) (lim skip ff rank W : nat) : bool :=
  existsb (fun i => match nth i data None with Some d => is_panic (pipe_res i d) | None => false end)
          (sel lim skip ff rank W (length data)).

Definition tsize (x : nat * titem) : nat := length (t_ids (snd x)).

Inductive lres :=
| LOk (min_items : nat) (batches : list (list (nat * titem)))
| LCtor                (* the constructor of the generator / pipeline refuses: [init_iter] returns Err or panics *)
| LPanic               (* a pipeline call panics *)
| LFuel.               (* some explicit fuel ran out (never; see the theorems) *)

Definition loader_run (s : strategy) (files : list (list line)) (lim skip ff rank W : nat)
           (sort shuffle : bool) (prefetch blim : nat) (ty : limit_type) : lres :=
  if negb (pcfg_ok p) then LCtor else
  match gen_lines s (seed + epoch)%N files with
  | None => LFuel
  | Some (C07_Model.Err C07_Model.CtorErr) => LCtor
  | Some (C07_Model.Err _) => LFuel
  | Some (C07_Model.Ok out) =>
      let data := data_of_out out in
      if loader_panics data lim skip ff rank W then LPanic else
      match batches_seeded tsize sort shuffle prefetch blim ty (seed + epoch)%N
                      (loader_items data pipe_fn lim skip ff rank W) with
      | C06_Model.Ok bs => LOk (min_items lim skip (length data)) bs
      | C06_Model.Err _ => LFuel
      end
  end.
End Loader.

(** * val glue *)
Definition kind (v : val) : Z := v_z (v_nth 0 v).

(** a line: () | (input target) *)
Definition v_line (v : val) : line :=
  match v with
  | L [i; t] => Some (mk_item (v_str i) (v_str t))
  | _ => None
  end.
Definition v_files (v : val) : list (list line) := v_list (v_list v_line) v.

(** tokenizer = (tokens pad prefix suffix padto?) : a byte tokenizer's special configuration *)
Definition v_base (v : val) : option base :=
  byte_base (v_list v_str (v_nth 0 v)) (v_opt v_n (v_nth 4 v)) (v_str (v_nth 1 v))
            (v_list v_str (v_nth 2 v)) (v_list v_str (v_nth 3 v)).

Definition titem_v (x : nat * titem) : val :=
  let t := snd x in
  L [str_v (it_in (t_data t)); str_v (it_tg (t_data t)); list_v n_v (t_ids t); list_v z_v (t_labels t)].

(** exact loader line.
    input  = (-2 files strategy (seed-hi seed-lo) epoch pcfg (g tokenizer) lim skip ff rank W sort shuffle prefetch blim ty threads buffer threads2 buffer2)
             lim < 0: no limit; strategy 0 sequential 1 interleaved 2 weighted
    output = (1 min_items batches same table_ok) | (0) init fails | (-777) a pipeline call panics | (-4) fuel | (-5) outside the model
             batches: lists of items (input target token_ids labels); same = 1: a second run with
             (threads2, buffer2) gave the same batches and tensors; table_ok = 1: every delivered item is an entry of
             the table the harness computes with the public [train_pipeline], single-threaded, position by position
             (the oracle of the scenario line, here a cross-check only) *)
Definition run_loader (v : val) : val :=
  let files := v_files (v_nth 1 v) in
  let s := v_strategy (v_nth 2 v) in
  let seed := v_hl (v_nth 3 v) in
  let epoch := v_n (v_nth 4 v) in
  let p := v_pcfg (v_nth 5 v) in
  let g := v_bool (v_nth 0 (v_nth 6 v)) in
  let total := length (concat files) in
  let has_op := match p with PGlobal c => has_opaque c | PPerSource l => existsb has_opaque l end in
  match v_base (v_nth 1 (v_nth 6 v)) with
  | None => L [I 0%Z]       (* the tokenizer's constructor fails: [train_pipeline] panics in [from_files] *)
  | Some b =>
    if negb (pcfg_dom p) || has_op then v_outside else
    match loader_run opq_none p g b seed epoch s files
                     (v_lim total (v_nth 7 v)) (v_nat (v_nth 8 v)) (v_nat (v_nth 9 v)) (v_nat (v_nth 10 v))
                     (v_nat (v_nth 11 v)) (v_bool (v_nth 12 v)) (v_bool (v_nth 13 v)) (v_nat (v_nth 14 v))
                     (v_nat (v_nth 15 v)) (v_ty (v_nth 16 v)) with
    | LOk m bs => L [I 1%Z; nat_v m; list_v (list_v titem_v) bs; I 1%Z; I 1%Z]
    | LCtor => L [I 0%Z]
    | LPanic => v_panic
    | LFuel => L [I (-4)%Z]
    end
  end.

Definition run_C08x (v : val) : val :=
  if Z.eqb (kind v) (-1) then run_preproc v
  else if Z.eqb (kind v) (-2) then run_loader v
  else run_C08 v.

(** direct line: shape, and the repeated calls gave the same result (the item is a function of (cfg, item, info)) *)
Definition check_preproc (v o : val) : bool :=
  match o with
  | L [I 0%Z] => true
  | L [I 1%Z; L _; L _; L _; I 1%Z] => true
  | L [I 2%Z; I 1%Z] => true
  | L [I (-777)%Z] => true          (* a panic of the call is not excluded by C08; the model must predict it *)
  | _ => false
  end.

(** exact loader line: shape, the second run (other thread count / buffer size) was identical, table cross-check *)
Definition check_loader (v o : val) : bool :=
  match o with
  | L [I 0%Z] => true
  | L [I 1%Z; I _; L _; I 1%Z; I 1%Z] => true
  | _ => false
  end.

Definition check_C08x (v o : val) : bool :=
  if Z.eqb (kind v) (-1) then check_preproc v o
  else if Z.eqb (kind v) (-2) then check_loader v o
  else check_C08 v o.

Definition agree_C08x (v m o : val) : bool :=
  if (Z.eqb (kind v) (-1) || Z.eqb (kind v) (-2))%bool then val_eqb m o else agree_C08 v m o.

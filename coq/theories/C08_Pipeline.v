(** C08 over modelled pipelines: the direct line for [preprocessing(cfg)] and the loader computed from
    (file lines, pipeline configuration, tokenizer, seed, epoch, skip, limit, rank, world, fast-forward,
    batching configuration) alone.  Definitions only: the dispatch of the three kinds of case of the C08
    check (scenario with an oracle table / direct preprocessing / exact loader). *)
From TU Require Import RNG_Model.
From TU Require Import Base C08_Model Pipeline_Model.

Definition kind (v : val) : Z := v_z (v_nth 0 v).

Definition run_C08x (v : val) : val :=
  if Z.eqb (kind v) (-1) then run_preproc v else run_C08 v.

(** direct line: shape, and the repeated calls gave the same result (the item is a function of (cfg, item, info)) *)
Definition check_preproc (v o : val) : bool :=
  match o with
  | L [I 0%Z] => true
  | L [I 1%Z; L _; L _; L _; I 1%Z] => true
  | L [I 2%Z; I 1%Z] => true
  | L [I (-777)%Z] => true          (* a panic of the call is not excluded by C08; the model must predict it *)
  | _ => false
  end.

Definition check_C08x (v o : val) : bool :=
  if Z.eqb (kind v) (-1) then check_preproc v o else check_C08 v o.

Definition agree_C08x (v m o : val) : bool :=
  if Z.eqb (kind v) (-1) then val_eqb m o else agree_C08 v m o.

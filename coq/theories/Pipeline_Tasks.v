(** Pipeline model, part 2: the rest of the item path of [train_pipeline] (src/data/mod.rs:641-690) —
    every task of [train_task] (src/data/task.rs: whitespace correction, generation, conditional generation,
    classification) over byte tokenizers, and [postprocessing(cfg, max_length)] (src/data/postprocessing.rs:
    None, Chain, Switch, OnMark, SwitchOnMark, ClipLength; [chain]/[switch]/[on_mark]/[switch_on_mark] of
    src/data/utils.rs) — as interpreters in the style of [Pipeline_Model.preproc].  Definitions only.

    NOT modelled: [TokenMasking] ([mask_tokens] draws from [rand_distr::Geometric], whose sampler uses
    [f64::ln]/[powi] tables that RNG_Model does not have): constructor [QOpaque], an arbitrary function supplied
    from outside, as [COpaque] in Pipeline_Model.  Tokenizers other than the byte tokenizer.

    [JsonDecode] IS modelled here, as an instance of the opaque-stage function of Pipeline_Model ([opq_std]):
    [serde_json::from_str::<String>] is [JSON_Model.json_parse] restricted to a value that is a string.

    As in the preprocessing, every randomised stage ([switch], utils.rs:39) builds its own generator from
    [info.seed]; the marks set by the preprocessing travel in the info to the postprocessing
    ([on_mark]/[switch_on_mark] read them). *)
From TU Require Import RNG_Model.
From TU Require Import Base C01_Model C10_Model C14_Model C14_Seeded JSON_Model Pipeline_Model.
Open Scope N_scope.

(** * [TrainTaskInput] (mod.rs:59-83) and [TrainItem] *)
Inductive tinput :=
| TIClass (ids : list N) (pad : N) (label : Z)
| TISeq (ids : list N) (pad : N) (labels : list Z)
| TIGen (ids : list N) (pad : N) (labels : list Z)
| TICond (ids : list N) (pad : N) (tids : list N) (tpad : N) (labels : list Z).

Record xitem := mk_xitem { x_data : item; x_in : tinput }.

(** [TrainTaskInput::len] = [ItemSize::size] of a [TrainItem]: what the batcher counts *)
Definition tin_len (t : tinput) : nat :=
  match t with
  | TIClass ids _ _ => length ids
  | TISeq ids _ _ => length ids
  | TIGen ids _ _ => length ids
  | TICond ids _ tids _ _ => (length ids + length tids)%nat
  end.

Definition tin_ids (t : tinput) : list N :=
  match t with TIClass ids _ _ | TISeq ids _ _ | TIGen ids _ _ | TICond ids _ _ _ _ => ids end.

(** * [TrainTaskConfig] over byte tokenizers ([base] = the built tokenizer, C01_Model) *)
Inductive tcfg :=
| TWsc (g : bool) (b : base)
| TGen (mask : bool) (b : base) (ign : bool) (sep : option str)
| TCond (bi : base) (ii : bool) (bt : base) (it : bool)
| TClass (b : base) (ign : bool) (classes : list str).

(** [*l as i32] for token ids (vocabulary sizes are far below 2^31) *)
Definition zids (l : list N) : list Z := map Z.of_N l.

Definition osep (sep : option str) : str := match sep with Some s => s | None => [] end.

(** [generation_input] (task.rs:163-206), suffix = None:
      mask_len = |tokenize(input ++ sep)| - #suffix tokens   (mask_prefix), else 0
      ids      = tokenize(input ++ sep ++ target)
      labels   = ([-1; mask_len] ++ ids[mask_len..]).skip(1);   ids.pop() *)
Definition gen_mask_len (mask : bool) (b : base) (ign : bool) (sep : option str) (x : item) : option nat :=
  if mask then option_map (fun ids => (length ids - length (b_suf b))%nat) (byte_tokenize b (it_in x ++ osep sep) ign)
  else Some 0%nat.

Definition gen_labels (mask_len : nat) (ids : list N) : list Z :=
  tl (repeat (-1)%Z mask_len ++ zids (skipn mask_len ids)).

Definition task_gen (mask : bool) (b : base) (ign : bool) (sep : option str) (x : item) : res tinput :=
  match gen_mask_len mask b ign sep x with
  | None => RErr 2
  | Some ml =>
      match byte_tokenize b (it_in x ++ osep sep ++ it_tg x) ign with
      | None => RErr 2
      | Some ids => ROk (TIGen (removelast ids) (b_pad b) (gen_labels ml ids))
      end
  end.

(** [conditional_generation_input] (task.rs:208-235) *)
Definition task_cond (bi : base) (ii : bool) (bt : base) (it : bool) (x : item) : res tinput :=
  match byte_tokenize bi (it_in x) ii with
  | None => RErr 2
  | Some ids =>
      match byte_tokenize bt (it_tg x) it with
      | None => RErr 2
      | Some tids => ROk (TICond ids (b_pad bi) (removelast tids) (b_pad bt) (tl (zids tids)))
      end
  end.

(** [class_to_index]: a HashMap collected from [(class, index)] in order — for a class listed twice the LAST
    index wins (the Python side refuses duplicates, the Rust constructor does not) *)
Fixpoint class_idx (cl : list str) (t : str) (k : nat) : option nat :=
  match cl with
  | [] => None
  | c :: r => match class_idx r t (S k) with
              | Some j => Some j
              | None => if nlist_eqb c t then Some k else None
              end
  end.

(** [classification_input] (task.rs:237-264): the label is the index of the TARGET text among the classes *)
Definition task_class (b : base) (ign : bool) (classes : list str) (x : item) : res tinput :=
  match byte_tokenize b (it_in x) ign with
  | None => RErr 2
  | Some ids =>
      match class_idx classes (it_tg x) 0 with
      | None => RErr 4
      | Some k => ROk (TIClass ids (b_pad b) (Z.of_nat k))
      end
  end.

(** [train_task(cfg)] applied to an item *)
Definition task (t : tcfg) (x : item) : res tinput :=
  match t with
  | TWsc g b => match task_wsc g b x with
                | ROk ti => ROk (TISeq (t_ids ti) (b_pad b) (t_labels ti))
                | RErr e => RErr e
                | RPanic s => RPanic s
                end
  | TGen mask b ign sep => task_gen mask b ign sep x
  | TCond bi ii bt it => task_cond bi ii bt it x
  | TClass b ign cl => task_class b ign cl x
  end.

(** * postprocessing *)
Inductive qcfg :=
| QNone
| QChain (l : list qcfg)
| QSwitch (l : list qcfg) (probs : list f64w)
| QOnMark (k v : str) (l : list qcfg)
| QSwitchOnMark (k : str) (vs : list str) (l : list qcfg)
| QClip
| QOpaque (id : nat).      (* TokenMasking *)

(** [info.marks.get(key)] *)
Fixpoint mark_get (k : str) (m : list (str * str)) : option str :=
  match m with
  | [] => None
  | (k', v) :: r => if nlist_eqb k k' then Some v else mark_get k r
  end.

(** [clip_input(input, length)]: [Vec::truncate] of every sequence of the input *)
Definition clip (n : nat) (t : tinput) : tinput :=
  match t with
  | TIClass ids pad l => TIClass (firstn n ids) pad l
  | TISeq ids pad ls => TISeq (firstn n ids) pad (firstn n ls)
  | TIGen ids pad ls => TIGen (firstn n ids) pad (firstn n ls)
  | TICond ids pad tids tpad ls => TICond (firstn n ids) pad (firstn n tids) tpad (firstn n ls)
  end.

Section PostInterp.
(** the functions that are not modelled (TokenMasking) *)
Variable qopq : nat -> xitem -> info -> res (xitem * info).
(** [max_length.load()]: the value of the loader's atomic when the item is processed *)
Variable maxlen : nat.

(** [postprocessing(cfg, max_length)] applied to (item, info).  Panic sites: 1 switch index; 8 [switch_on_mark]: mark
    not set; 9 [switch_on_mark]: the mark's value is not among the supported values *)
Fixpoint postproc (c : qcfg) (x : xitem) (i : info) {struct c} : res (xitem * info) :=
  match c with
  | QNone => ROk (x, i)
  | QChain l =>
      (fix go (l : list qcfg) (x : xitem) (i : info) {struct l} : res (xitem * info) :=
         match l with
         | [] => ROk (x, i)
         | c :: r => match postproc c x i with
                     | ROk (x', i') => go r x' i'
                     | RErr e => RErr e
                     | RPanic s => RPanic s
                     end
         end) l x i
  | QSwitch l ps =>
      (fix pick (l : list qcfg) (k : nat) {struct l} : res (xitem * info) :=
         match l with
         | [] => RPanic 1
         | c :: r => match k with O => postproc c x i | S k' => pick r k' end
         end) l (switch_choice ps (i_seed i))
  | QOnMark k v l =>
      match mark_get k (i_marks i) with
      | Some m =>
          if nlist_eqb m v then
            (fix go (l : list qcfg) (x : xitem) (i : info) {struct l} : res (xitem * info) :=
               match l with
               | [] => ROk (x, i)
               | c :: r => match postproc c x i with
                           | ROk (x', i') => go r x' i'
                           | RErr e => RErr e
                           | RPanic s => RPanic s
                           end
               end) l x i
          else ROk (x, i)
      | None => ROk (x, i)
      end
  | QSwitchOnMark k vs l =>
      match mark_get k (i_marks i) with
      | None => RPanic 8
      | Some m =>
          match C01_Model.index_of m vs with
          | None => RPanic 9
          | Some idx =>
              (fix pick (l : list qcfg) (k : nat) {struct l} : res (xitem * info) :=
                 match l with
                 | [] => RPanic 1
                 | c :: r => match k with O => postproc c x i | S k' => pick r k' end
                 end) l idx
          end
      end
  | QClip => ROk (mk_xitem (x_data x) (clip maxlen (x_in x)), i)
  | QOpaque id => qopq id x i
  end.

(** the nested fixes by name *)
Fixpoint qchain_run (l : list qcfg) (x : xitem) (i : info) : res (xitem * info) :=
  match l with
  | [] => ROk (x, i)
  | c :: r => match postproc c x i with
              | ROk (x', i') => qchain_run r x' i'
              | RErr e => RErr e
              | RPanic s => RPanic s
              end
  end.
Fixpoint qpick_run (l : list qcfg) (k : nat) (x : xitem) (i : info) : res (xitem * info) :=
  match l with
  | [] => RPanic 1
  | c :: r => match k with O => postproc c x i | S k' => qpick_run r k' x i end
  end.
End PostInterp.

(** the constructor's assertions ([switch]: utils.rs:22-33; [switch_on_mark]: utils.rs:56-65), evaluated eagerly
    for all sub-configurations when [postprocessing(cfg)] is called: [false] = the call panics *)
Fixpoint nodup_strs (l : list str) : bool :=
  match l with
  | [] => true
  | a :: r => negb (existsb (nlist_eqb a) r) && nodup_strs r
  end.

Fixpoint qcfg_ok (c : qcfg) : bool :=
  match c with
  | QChain l => forallb qcfg_ok l
  | QSwitch l ps =>
      forallb qcfg_ok l
      && negb (Nat.eqb (length l) 0) && Nat.eqb (length l) (length ps)
      && near_one (lastn (Fin 0 emin) (accum ps))
  | QOnMark _ _ l => forallb qcfg_ok l
  | QSwitchOnMark _ vs l =>
      forallb qcfg_ok l
      && negb (Nat.eqb (length l) 0) && Nat.eqb (length l) (length vs)
      && nodup_strs vs
  | _ => true
  end.

(** the domain of the model: as [cfg_dom], no negative switch probability *)
Fixpoint qcfg_dom (c : qcfg) : bool :=
  match c with
  | QChain l | QOnMark _ _ l | QSwitchOnMark _ _ l => forallb qcfg_dom l
  | QSwitch l ps => forallb qcfg_dom l && forallb (fun p => match p with FNeg => false | _ => true end) ps
  | _ => true
  end.

Fixpoint q_has_opaque (c : qcfg) : bool :=
  match c with
  | QOpaque _ => true
  | QChain l | QSwitch l _ | QOnMark _ _ l | QSwitchOnMark _ _ l => existsb q_has_opaque l
  | _ => false
  end.

(** [PostprocessingConfig] *)
Inductive qpcfg := QGlobal (c : qcfg) | QPerSource (l : list qcfg).

Definition qpcfg_ok (q : qpcfg) : bool :=
  match q with QGlobal c => qcfg_ok c | QPerSource l => forallb qcfg_ok l end.
Definition qpcfg_dom (q : qpcfg) : bool :=
  match q with QGlobal c => qcfg_dom c | QPerSource l => forallb qcfg_dom l end.
Definition qp_has_opaque (q : qpcfg) : bool :=
  match q with QGlobal c => q_has_opaque c | QPerSource l => existsb q_has_opaque l end.

Definition postprocess (qopq : nat -> xitem -> info -> res (xitem * info)) (maxlen : nat) (q : qpcfg)
           (x : xitem) (i : info) : res (xitem * info) :=
  match q with
  | QGlobal c => postproc qopq maxlen c x i
  | QPerSource l => match nth_error l (i_file i) with
                    | Some c => postproc qopq maxlen c x i
                    | None => RPanic 5
                    end
  end.

(** * the closure [train_pipeline] returns (mod.rs:679-687): preprocessing, task, postprocessing; the info the
    preprocessing returns (its marks) is the one the postprocessing sees *)
Definition pipeline_t (opq : nat -> item -> info -> res (item * info))
           (qopq : nat -> xitem -> info -> res (xitem * info))
           (p : pcfg) (t : tcfg) (q : qpcfg) (maxlen : nat) (x : item) (i : info) : res xitem :=
  rbind (preprocess opq p x i) (fun xi =>
  rbind (task t (fst xi)) (fun inp =>
  rbind (postprocess qopq maxlen q (mk_xitem (fst xi) inp) (snd xi)) (fun yi => ROk (fst yi)))).

(** * JsonDecode (preprocessing.rs:727-729): [serde_json::from_str::<String>(s)] — optional whitespace, ONE json
    string, optional whitespace; every other text (another kind of value, two values, broken json) is an Err.
    The [Value] grammar of JSON_Model accepts exactly the same texts as strings and yields the same content. *)
Definition json_decode (s : str) : res str :=
  match json_parse s with
  | Some (JStr t) => ROk t
  | _ => RErr 8
  end.

(** the opaque-stage function with the modelled stages plugged in: id 0 = JsonDecode(Input), 1 = JsonDecode(Target);
    every other id stays unmodelled (SpellingCorruption, ChatDecode) *)
Definition opq_std (id : nat) (x : item) (i : info) : res (item * info) :=
  match id with
  | 0%nat => apply_part PInput (fun s _ => json_decode s) x i
  | 1%nat => apply_part PTarget (fun s _ => json_decode s) x i
  | _ => RErr 9
  end.

Fixpoint has_unmodelled (c : cfg) : bool :=
  match c with
  | COpaque id => Nat.leb 2 id
  | CChain l => existsb has_unmodelled l
  | CSwitch l _ => existsb has_unmodelled l
  | _ => false
  end.
Definition p_has_unmodelled (p : pcfg) : bool :=
  match p with PGlobal c => has_unmodelled c | PPerSource l => existsb has_unmodelled l end.

Definition qopq_none : nat -> xitem -> info -> res (xitem * info) := fun _ _ _ => RErr 9.

(** * val glue *)
(** tokenizer = (tokens pad prefix suffix padto?) as in C08_Pipeline.v_base *)
Definition v_tok (v : val) : option base :=
  byte_base (v_list v_str (v_nth 0 v)) (v_opt v_n (v_nth 4 v)) (v_str (v_nth 1 v))
            (v_list v_str (v_nth 2 v)) (v_list v_str (v_nth 3 v)).

(** task = (0 g tok) | (1 mask tok ign sep?) | (2 tok_in ign_in tok_tg ign_tg) | (3 tok ign (class ..));
    [None] = a tokenizer's constructor fails ([train_task] panics) *)
Definition v_task (v : val) : option tcfg :=
  match v_z (v_nth 0 v) with
  | 0%Z => option_map (TWsc (v_bool (v_nth 1 v))) (v_tok (v_nth 2 v))
  | 1%Z => option_map (fun b => TGen (v_bool (v_nth 1 v)) b (v_bool (v_nth 3 v)) (v_opt v_str (v_nth 4 v)))
                      (v_tok (v_nth 2 v))
  | 2%Z => match v_tok (v_nth 1 v), v_tok (v_nth 3 v) with
           | Some bi, Some bt => Some (TCond bi (v_bool (v_nth 2 v)) bt (v_bool (v_nth 4 v)))
           | _, _ => None
           end
  | _ => option_map (fun b => TClass b (v_bool (v_nth 2 v)) (v_list v_str (v_nth 3 v))) (v_tok (v_nth 1 v))
  end.

(** qcfg = (0) | (1 (q ..)) | (2 (q ..) (prob ..)) | (3 key value (q ..)) | (4 key (value ..) (q ..)) | (5) | (6 id) *)
Fixpoint v_qcfg (v : val) : qcfg :=
  match v with
  | L (I tag :: args) =>
      let a k := nth k args (L []) in
      let sub (x : val) := match x with L cs => map v_qcfg cs | _ => [] end in
      match tag with
      | 1%Z => match args with L cs :: _ => QChain (map v_qcfg cs) | _ => QNone end
      | 2%Z => match args with L cs :: ps :: _ => QSwitch (map v_qcfg cs) (v_list v_f64w ps) | _ => QNone end
      | 3%Z => match args with k :: x :: L cs :: _ => QOnMark (v_str k) (v_str x) (map v_qcfg cs) | _ => QNone end
      | 4%Z => match args with k :: vs :: L cs :: _ => QSwitchOnMark (v_str k) (v_list v_str vs) (map v_qcfg cs) | _ => QNone end
      | 5%Z => QClip
      | 6%Z => QOpaque (v_nat (a 0%nat))
      | _ => QNone
      end
  | _ => QNone
  end.

(** qpcfg = (0 q) | (1 (q ..)) *)
Definition v_qpcfg (v : val) : qpcfg :=
  if Z.eqb (v_z (v_nth 0 v)) 0 then QGlobal (v_qcfg (v_nth 1 v))
  else QPerSource (match v_nth 1 v with L cs => map v_qcfg cs | _ => [] end).

(** tinput = (0 ids pad label) | (1 ids pad labels) | (2 ids pad labels) | (3 ids pad tids tpad labels) *)
Definition tinput_v (t : tinput) : val :=
  match t with
  | TIClass ids pad l => L [I 0%Z; list_v n_v ids; n_v pad; z_v l]
  | TISeq ids pad ls => L [I 1%Z; list_v n_v ids; n_v pad; list_v z_v ls]
  | TIGen ids pad ls => L [I 2%Z; list_v n_v ids; n_v pad; list_v z_v ls]
  | TICond ids pad tids tpad ls => L [I 3%Z; list_v n_v ids; n_v pad; list_v n_v tids; n_v tpad; list_v z_v ls]
  end.

Definition xitem_v (x : xitem) : val :=
  L [str_v (it_in (x_data x)); str_v (it_tg (x_data x)); tinput_v (x_in x)].

(** item line.  input = (-4 pcfg task qpcfg maxlen input target (seed-hi seed-lo) file marks): the closure of
    [train_pipeline(cfg, maxlen)] applied to one (TrainData, TextDataInfo)
    output = (0) a constructor panics | (1 input target tinput rep) | (2 rep) Err | (-777) the call panics | (-5) outside *)
(** [opq] / [unm]: the opaque-stage function used and the test "the preprocessing has a stage [opq] does not model" *)
Definition run_item_with (opq : nat -> item -> info -> res (item * info)) (unm : pcfg -> bool) (v : val) : val :=
  let p := v_pcfg (v_nth 1 v) in
  let q := v_qpcfg (v_nth 3 v) in
  if negb (pcfg_dom p) || negb (qpcfg_dom q) || unm p || qp_has_opaque q then v_outside
  else match v_task (v_nth 2 v) with
       | None => L [I 0%Z]
       | Some t =>
           if negb (pcfg_ok p) || negb (qpcfg_ok q) then L [I 0%Z]
           else match pipeline_t opq qopq_none p t q (v_nat (v_nth 4 v))
                                 (mk_item (v_str (v_nth 5 v)) (v_str (v_nth 6 v)))
                                 (mk_info (v_hl (v_nth 7 v)) (v_nat (v_nth 8 v)) (v_marks (v_nth 9 v))) with
                | ROk x => L [I 1%Z; str_v (it_in (x_data x)); str_v (it_tg (x_data x)); tinput_v (x_in x); I 1%Z]
                | RErr _ => L [I 2%Z; I 1%Z]
                | RPanic _ => v_panic
                end
       end.

Definition run_item (v : val) : val := run_item_with opq_std p_has_unmodelled v.

Definition check_item (v o : val) : bool :=
  match o with
  | L [I 0%Z] => true
  | L [I 1%Z; L _; L _; L _; I 1%Z] => true
  | L [I 2%Z; I 1%Z] => true
  | L [I (-777)%Z] => true
  | _ => false
  end.

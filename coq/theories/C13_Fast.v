(** The reduced-fraction evaluation of C13_Model.v computes the same [val]s as the plain one. *)
From Coq Require Import QArith Lia.
From TU Require Import Base C13_Model C13_F1 C13_Proofs.
Open Scope nat_scope.

Lemma qsum_red_eq l : (qsum_red l == qsum l)%Q.
Proof. induction l as [|x r IH]; cbn [qsum_red qsum]; [reflexivity|]. rewrite Qred_correct, IH. reflexivity. Qed.

Lemma mean_ed_fast_eq nm s t : opt_out num_v (mean_ed_fast nm s t) = opt_out num_v (mean_ed nm s t).
Proof.
  unfold mean_ed_fast, mean_ed. destruct (Nat.eqb (length s) (length t)); [|reflexivity].
  cbn [opt_out]. f_equal. apply num_v_ext. rewrite qsum_red_eq. reflexivity.
Qed.

Definition fpr_eq (x y : fpr) : Prop := (c1 x == c1 y /\ c2 x == c2 y /\ c3 x == c3 y)%Q.

Lemma fpr_v_ext x y : fpr_eq x y -> fpr_v x = fpr_v y.
Proof.
  destruct x as [[a b] c], y as [[a' b'] c']. unfold fpr_eq, c1, c2, c3. cbn [fst snd]. intros (H1 & H2 & H3).
  unfold fpr_v. rewrite (num_v_ext a a' H1), (num_v_ext b b' H2), (num_v_ext c c' H3). reflexivity.
Qed.

Lemma fold_red_eq beta vals : forall acc acc', fpr_eq acc acc' ->
  fpr_eq (fold_left (fun a v => fpr_red (fpr_add a (seq_one beta v))) vals acc)
         (fold_left (fun a v => fpr_add a (seq_one beta v)) vals acc').
Proof.
  induction vals as [|v vals IH]; intros acc acc' H; [exact H|]. cbn [fold_left]. apply IH.
  destruct acc as [[a b] c], acc' as [[a' b'] c'], (seq_one beta v) as [[x y] z].
  unfold fpr_eq, c1, c2, c3 in *. cbn [fst snd fpr_add fpr_red] in *. destruct H as (H1 & H2 & H3).
  rewrite !Qred_correct, H1, H2, H3. repeat split; reflexivity.
Qed.

Lemma seq_avg_fast_eq beta vals : fpr_eq (seq_avg_f1_fast beta vals) (seq_avg_f1 beta vals).
Proof.
  unfold seq_avg_f1_fast, seq_avg_f1.
  pose proof (fold_red_eq beta vals (0%Q, 0%Q, 0%Q) (0%Q, 0%Q, 0%Q) ltac:(repeat split; reflexivity)) as H.
  destruct (fold_left (fun a v => fpr_red (fpr_add a (seq_one beta v))) vals (0%Q, 0%Q, 0%Q)) as [[f p] r].
  destruct (fold_left (fun a v => fpr_add a (seq_one beta v)) vals (0%Q, 0%Q, 0%Q)) as [[f' p'] r'].
  unfold fpr_eq, c1, c2, c3 in *. cbn [fst snd] in *. destruct H as (H1 & H2 & H3).
  rewrite H1, H2, H3. repeat split; reflexivity.
Qed.

Lemma aggregate_fast_eq sa beta vals : fpr_v (aggregate_fast sa beta vals) = fpr_v (aggregate sa beta vals).
Proof.
  unfold aggregate_fast, aggregate. destruct sa; [|reflexivity]. apply fpr_v_ext, seq_avg_fast_eq.
Qed.

Lemma run_fast_eq_l v : run_C13_fast v = run_C13 v.
Proof.
  unfold run_C13_fast, run_C13. destruct (v_z (v_nth 0 v)) as [|p|p]; try reflexivity.
  destruct p as [p|p|]; try reflexivity.
  - destruct p as [p|p|]; try reflexivity.
    unfold ws_f1_fast, ws_f1. destruct (same3 _ _ _); [|reflexivity].
    destruct (collect _) as [vals| |]; try reflexivity. cbn [outcome_out fst snd]. rewrite aggregate_fast_eq. reflexivity.
  - destruct p as [p|p|]; try reflexivity.
    + destruct p as [p|p|]; try reflexivity.
      unfold sp_f1_fast, sp_f1. destruct (same3 _ _ _); [|reflexivity].
      destruct (collect _) as [vals| |]; try reflexivity. cbn [outcome_out]. rewrite aggregate_fast_eq. reflexivity.
    + apply mean_ed_fast_eq.
Qed.

Lemma check_fast_eq_l v out : check_C13_fast v out = check_C13 v out.
Proof. unfold check_C13_fast, check_C13. rewrite run_fast_eq_l. reflexivity. Qed.

(** C06 proofs with the generator inside the model: the run from the seed is a run of the oracle
    model ([C06_Model.batches]) under ONE oracle that satisfies [oracle_guard] — every shuffle
    answer is a selection sequence in range (because [RNG_Model.shuffle] permutes, for every
    generator state) and every index is below its bound (because [random_range] is) — so every
    theorem about [batches] holds of [batches_seeded], with no premise about the rng left. *)
From TU Require Import RNG_Model RNG_Proofs.
From TU Require Import Base C06_Model C06_Subseq C06_Proofs C06_Loop C06_Top C06_Agree C06_Seeded.
Require Import Lia ZifyN Permutation.

(** * 1. a permutation of the buffer is reached by a selection sequence in range *)
Section Perm.
Context {A : Type}.

Lemma remove_nth_app : forall (l1 l2 : list A) x, remove_nth (length l1) (l1 ++ x :: l2) = Some (x, l1 ++ l2).
Proof.
  induction l1 as [|y l1 IH]; intros l2 x; cbn [length app remove_nth]; [reflexivity|].
  rewrite IH. reflexivity.
Qed.

Lemma perm_lehmer : forall (sb buf : list A), Permutation sb buf ->
  exists p, lehmer_okb p (length buf) = true /\ apply_shuf p buf = Some sb.
Proof.
  induction sb as [|x sb IH]; intros buf H.
  - apply Permutation_nil in H. subst buf. exists []. split; reflexivity.
  - assert (Hin : In x buf) by (eapply Permutation_in; [exact H|left; reflexivity]).
    apply in_split in Hin. destruct Hin as (l1 & l2 & ->).
    apply Permutation_cons_app_inv in H. destruct (IH _ H) as (p & Hp & Hs).
    exists (length l1 :: p). split.
    + rewrite app_length. cbn [length]. rewrite Nat.add_succ_r. cbn [lehmer_okb].
      rewrite <- app_length, Hp, andb_true_r. apply Nat.ltb_lt. rewrite app_length. lia.
    + cbn [apply_shuf]. rewrite remove_nth_app, Hs. reflexivity.
Qed.
End Perm.

(** * 2. the number of sub-sequences is bounded by the loop's fuel *)
Lemma fs_loop_length : forall sz k n fuel s e prev l,
  fs_loop sz k n fuel s e prev = Some l -> length l <= fuel.
Proof.
  intros sz k n. induction fuel as [|f IH]; intros s e prev l H; [discriminate|]. cbn [fs_loop] in H.
  destruct ((s <? n) && (e <=? n)); [|injection H as <-; cbn; lia].
  destruct (sz s e <=? k).
  - destruct (fs_loop sz k n f s (S e) (sz s e)) as [l'|] eqn:E.
    + specialize (IH _ _ _ _ E). destruct (n <=? e); cbn [option_map] in H; injection H as <-; cbn [length]; lia.
    + destruct (n <=? e); discriminate.
  - destruct (prev <=? k).
    + destruct (fs_loop sz k n f (S s) e (sz s e)) as [l'|] eqn:E; [|discriminate].
      specialize (IH _ _ _ _ E). cbn [option_map] in H. injection H as <-. cbn [length]. lia.
    + specialize (IH _ _ _ _ H). lia.
Qed.

Lemma find_subseq_length : forall sz k n l, find_subseq sz k n = Some l -> length l <= 2 * n + 2.
Proof.
  intros sz k n l H. unfold find_subseq in H. destruct (n <=? ff_start sz k n 0).
  - injection H as <-. cbn. lia.
  - eapply fs_loop_length. exact H.
Qed.

(** * 3. the oracle of a seeded run: one decision per call *)
Inductive decision := DShuf (p : list nat) | DPick (i : nat).

Definition orc (ds : list decision) : oracle :=
  {| shuf := fun t n => match nth_error ds t with
                        | Some (DShuf p) => if lehmer_okb p n then p else repeat 0 n
                        | _ => repeat 0 n
                        end;
     pick := fun t m => match nth_error ds t with
                        | Some (DPick i) => if i <? m then i else 0
                        | _ => 0
                        end |}.

Lemma orc_guard : forall ds, oracle_guard (orc ds).
Proof.
  intros ds. split; cbn [shuf pick orc].
  - intros t n. destruct (nth_error ds t) as [[p|i]|]; try apply repeat0_ok.
    destruct (lehmer_okb p n) eqn:E; [exact E|apply repeat0_ok].
  - intros t m Hm. destruct (nth_error ds t) as [[p|i]|]; try lia.
    destruct (i <? m) eqn:E; [apply Nat.ltb_lt in E; exact E|lia].
Qed.

Lemma nth_error_mid : forall (pre : list decision) d cs, nth_error (pre ++ d :: cs) (length pre) = Some d.
Proof. intros. rewrite nth_error_app2 by lia. rewrite Nat.sub_diag. reflexivity. Qed.

Section Sim.
Context {A : Type} (size : A -> nat).
Implicit Types (buf rest : list A).

Definition usize_ok (n : nat) : Prop := (N.of_nat (2 * n + 2) < p64)%N.

(** one call: the generator stays well formed, and there is a decision in range such that every
    oracle answering it at this call number makes the oracle model take the same step *)
Lemma seeded_step : forall sort shuffle L P ty st rest buf R st',
  RNG_Proofs.wf st -> usize_ok (length (buf ++ rest)) ->
  build_batch_s size sort shuffle L P ty st rest buf = (R, st') ->
  RNG_Proofs.wf st' /\
  exists d, forall pre cs,
    build_batch size sort shuffle L P ty (orc (pre ++ d :: cs)) (length pre) rest buf = R.
Proof.
  intros sort shuffle L P ty st rest buf R st' Hw Hfit H. unfold usize_ok in Hfit.
  unfold build_batch_s in H. unfold build_batch.
  destruct (negb sort && negb shuffle).
  { injection H as <- <-. split; [exact Hw|]. exists (DPick 0). reflexivity. }
  destruct (fill size ty (L * P) (lim_from size buf) buf rest) as [buf1 rest1] eqn:Ef.
  pose proof (fill_spec size _ _ _ _ _ _ Ef) as [Heq _].
  assert (Hlen : length buf1 <= length (buf ++ rest)) by (rewrite <- Heq, app_length; lia).
  destruct (is_nil buf1).
  { injection H as <- <-. split; [exact Hw|]. exists (DPick 0). reflexivity. }
  destruct sort.
  - set (sb := sort_by size buf1) in *.
    assert (Hsb : length sb = length buf1) by (apply Permutation_length, sort_by_perm).
    destruct shuffle.
    + destruct (find_subseq (fun s e => limit size ty (slice sb s e)) L (length sb)) as [[|p0 subs]|] eqn:Efs.
      * injection H as <- <-. split; [exact Hw|]. exists (DPick 0). reflexivity.
      * pose proof (find_subseq_length _ _ _ _ Efs) as Hsl.
        set (m := length (p0 :: subs)) in *.
        destruct (random_range (N.of_nat m) st) as [[i st1]|] eqn:Er.
        -- destruct (RNG_Proofs.random_range_spec _ _ _ _ Hw Er) as [Hi Hw1].
           injection H as <- <-. split; [exact Hw1|]. exists (DPick (N.to_nat i)). intros pre cs.
           cbn [pick orc]. rewrite nth_error_mid.
           replace (N.to_nat i <? m) with true by (symmetry; apply Nat.ltb_lt; lia). reflexivity.
        -- exfalso. apply (proj2 (RNG_Proofs.random_range_some (N.of_nat m) st)); [|exact Er].
           unfold m. cbn [length]. unfold m in Hsl. cbn [length] in Hsl. lia.
      * injection H as <- <-. split; [exact Hw|]. exists (DPick 0). reflexivity.
    + injection H as <- <-. split; [exact Hw|]. exists (DPick 0). reflexivity.
  - destruct (RNG_Model.shuffle buf1 st) as [sb st1] eqn:Es. injection H as <- <-.
    split.
    + replace st1 with (snd (RNG_Model.shuffle buf1 st)) by (rewrite Es; reflexivity).
      apply RNG_Proofs.shuffle_wf; [exact Hw|lia].
    + pose proof (RNG_Proofs.shuffle_perm_l buf1 st) as Hp. rewrite Es in Hp. cbn [fst] in Hp.
      destruct (perm_lehmer _ _ Hp) as (p & Hok & Hap). exists (DShuf p). intros pre cs.
      cbn [shuf orc]. rewrite nth_error_mid, Hok, Hap. reflexivity.
Qed.

(** the loop: one decision per call, collected into one oracle *)
Lemma seeded_sim : forall sort shuffle L P ty B fuel st rest buf,
  RNG_Proofs.wf st -> length (buf ++ rest) <= B -> usize_ok B ->
  exists ds, forall pre,
    batches_loop size sort shuffle L P ty (orc (pre ++ ds)) fuel (length pre) rest buf
    = batches_loop_s size sort shuffle L P ty fuel st rest buf.
Proof.
  intros sort shuffle L P ty B. induction fuel as [|f IH]; intros st rest buf Hw HB Hfit.
  - exists []. reflexivity.
  - cbn [batches_loop_s]. destruct (build_batch_s size sort shuffle L P ty st rest buf) as [R st'] eqn:E.
    assert (Hfit' : usize_ok (length (buf ++ rest))) by (unfold usize_ok in *; lia).
    destruct (seeded_step _ _ _ _ _ _ _ _ _ _ Hw Hfit' E) as (Hw' & d & Hd).
    destruct R as [[b|] rest' buf'|e].
    + assert (HB' : length (buf' ++ rest') <= B).
      { pose proof (Hd [] []) as H0. apply build_batch_step in H0. destruct H0 as (Hperm & _).
        apply Permutation_length in Hperm. cbn [olist] in Hperm. rewrite !app_length in *. lia. }
      destruct (IH st' rest' buf' Hw' HB' Hfit) as [ds Hds]. exists (d :: ds). intros pre.
      cbn [batches_loop]. rewrite Hd. f_equal.
      specialize (Hds (pre ++ [d])). rewrite <- app_assoc, app_length in Hds. cbn [app length] in Hds.
      rewrite Nat.add_1_r in Hds. exact Hds.
    + exists [d]. intros pre. cbn [batches_loop]. rewrite Hd. reflexivity.
    + exists [d]. intros pre. cbn [batches_loop]. rewrite Hd. reflexivity.
Qed.

Lemma fits_usize_ok : forall n, fits n -> usize_ok n.
Proof. intros n H. unfold fits, usize_ok, p64 in *. lia. Qed.

(** seeded run = oracle run under an oracle that satisfies [oracle_guard] *)
Lemma seeded_oracle_l : forall sort shuffle prefetch lim ty seed (input : list A), fits (length input) ->
  exists o, oracle_guard o /\
    batches size sort shuffle prefetch lim ty o input = batches_seeded size sort shuffle prefetch lim ty seed input.
Proof.
  intros sort shuffle prefetch lim ty seed input Hf. unfold batches, batches_seeded.
  destruct (seeded_sim sort shuffle (Nat.max lim 1) (Nat.max prefetch 1) ty (length input) (length input + 1)
              (seed_from_u64 seed) input [] (RNG_Proofs.wf_seed seed)
              ltac:(rewrite app_nil_l; lia) (fits_usize_ok _ Hf)) as [ds Hds].
  exists (orc ds). split; [apply orc_guard|]. exact (Hds []).
Qed.

(** * 4. the theorems about [batches], of the seeded function *)
Lemma seeded_total_l : forall sort shuffle prefetch lim ty seed (input : list A), fits (length input) ->
  exists bs, batches_seeded size sort shuffle prefetch lim ty seed input = Ok bs.
Proof.
  intros sort shuffle prefetch lim ty seed input Hf.
  destruct (seeded_oracle_l sort shuffle prefetch lim ty seed input Hf) as (o & Hg & <-).
  apply batches_total_l. exact Hg.
Qed.

Lemma seeded_props_l : forall sort shuffle prefetch lim ty seed (input : list A) bs, fits (length input) ->
  batches_seeded size sort shuffle prefetch lim ty seed input = Ok bs ->
  Permutation (concat bs) input /\ Forall (fun b => b <> []) bs /\
  Forall (fun b => 1 < length b -> limit size ty b <= Nat.max lim 1) bs.
Proof.
  intros sort shuffle prefetch lim ty seed input bs Hf H.
  destruct (seeded_oracle_l sort shuffle prefetch lim ty seed input Hf) as (o & Hg & Ho).
  rewrite H in Ho. exact (batches_props_l size _ _ _ _ _ _ _ _ Ho).
Qed.

Lemma seeded_plain_l : forall prefetch lim ty seed (input : list A) bs, fits (length input) ->
  batches_seeded size false false prefetch lim ty seed input = Ok bs ->
  concat bs = input /\
  forall i b b' x, nth_error bs i = Some b -> nth_error bs (S i) = Some (x :: b') ->
    Nat.max lim 1 < limit size ty (b ++ [x]).
Proof.
  intros prefetch lim ty seed input bs Hf H.
  destruct (seeded_oracle_l false false prefetch lim ty seed input Hf) as (o & Hg & Ho).
  rewrite H in Ho. split; [exact (plain_order_l _ size _ _ _ _ _ _ Ho)|exact (plain_greedy_l _ size _ _ _ _ _ _ Ho)].
Qed.

(** without shuffle the generator is never consulted: every seed gives the oracle model's run *)
Lemma seeded_noshuffle_l : forall sort prefetch lim ty seed o (input : list A), fits (length input) ->
  batches_seeded size sort false prefetch lim ty seed input = batches size sort false prefetch lim ty o input.
Proof.
  intros sort prefetch lim ty seed o input Hf.
  destruct (seeded_oracle_l sort false prefetch lim ty seed input Hf) as (o' & _ & <-).
  unfold batches. apply loop_noshuffle.
Qed.

End Sim.

(** * 5. val level *)
Lemma v_items_length v : length (v_items v) = length (v_list v_nat (v_nth 6 v)).
Proof. unfold v_items. apply mk_items_length. Qed.

(** what [check_C06] needs of a batch sequence the oracle model produced, for any oracle *)
Lemma check_of_run : forall v o bs, run_with o v = Ok bs ->
  check_C06 v (L [batches_v bs; I 1%Z; L []]) = true.
Proof.
  intros v o bs Hbs. unfold run_with in Hbs.
  set (sort := v_bool (v_nth 0 v)) in *. set (shuffle := v_bool (v_nth 1 v)) in *.
  set (pf := v_nat (v_nth 2 v)) in *. set (lm := v_nat (v_nth 3 v)) in *. set (ty := v_ty (v_nth 4 v)) in *.
  unfold check_C06. fold sort shuffle lm ty.
  cbn [v_nth nth shape2]. rewrite v_batches_batches_v.
  unfold v_items in *. set (sizes := v_list v_nat (v_nth 6 v)) in *.
  destruct (batches_props_l isize _ _ _ _ _ _ _ _ Hbs) as (Hperm & Hne & Hlim).
  rewrite relookup by (intros x Hx; eapply Permutation_in; eauto).
  assert (Hids : concat (map (map fst) bs) = map fst (concat bs)) by (symmetry; apply concat_map).
  assert (Hpf : Permutation (map fst (concat bs)) (seq 0 (length sizes))).
  { rewrite <- mk_items_fst. apply Permutation_map. exact Hperm. }
  rewrite Hids, mk_items_length.
  assert (H1 : is_perm_ids (map fst (concat bs)) (length sizes) = true).
  { unfold is_perm_ids. apply andb_true_iff. split.
    - apply Nat.eqb_eq. rewrite (Permutation_length Hpf). apply seq_length.
    - apply forallb_forall. intros i Hi. apply existsb_exists. exists i. split; [|apply Nat.eqb_refl].
      eapply Permutation_in; [symmetry; exact Hpf|exact Hi]. }
  assert (H2 : forallb (fun b : list nat => negb (is_nil b)) (map (map fst) bs) = true).
  { apply forallb_forall. intros b Hb. apply in_map_iff in Hb. destruct Hb as (b0 & <- & Hb0).
    rewrite Forall_forall in Hne. specialize (Hne _ Hb0). destruct b0; [exfalso; apply Hne; reflexivity|reflexivity]. }
  assert (H3 : forallb (limit_okb isize ty (Nat.max lm 1)) bs = true).
  { apply forallb_forall. intros b Hb. rewrite Forall_forall in Hlim. specialize (Hlim _ Hb).
    unfold limit_okb. destruct (length b <=? 1) eqn:E; [reflexivity|].
    apply Nat.leb_gt in E. cbn [orb]. apply Nat.leb_le. auto. }
  rewrite H1, H2, H3. unfold v_bool. cbn [v_z Z.eqb negb andb].
  destruct (negb sort && negb shuffle) eqn:Em; [|reflexivity].
  apply andb_true_iff in Em. destruct Em as [E1 E2].
  apply negb_true_iff in E1. apply negb_true_iff in E2. rewrite E1, E2 in Hbs.
  destruct (plain_l isize _ _ _ _ _ _ Hbs) as [Hc Hg].
  rewrite Hc, mk_items_fst, nat_list_eqb_refl, Hg. reflexivity.
Qed.

Lemma run_seeded_oracle_l : forall v, fits (length (v_items v)) ->
  exists o, oracle_guard o /\ run_with o v = run_seeded v.
Proof. intros v Hf. unfold run_with, run_seeded. apply seeded_oracle_l. exact Hf. Qed.

(** without shuffle the seeded output is the oracle model's output, whatever the seed *)
Lemma run_seeded_noshuffle_l : forall v, fits (length (v_items v)) -> v_bool (v_nth 1 v) = false ->
  run_C06s v = run_C06 v.
Proof.
  intros v Hf Hs. unfold run_C06s, run_C06, run_seeded, run_with. rewrite Hs.
  rewrite (seeded_noshuffle_l isize _ _ _ _ (in_seed v) o_default (v_items v) Hf). reflexivity.
Qed.

Lemma check_run_seeded_l : forall v, fits (length (v_items v)) -> check_C06 v (run_C06s v) = true.
Proof.
  intros v Hf. destruct (run_seeded_oracle_l v Hf) as (o & Hg & Ho).
  destruct (batches_total_l isize (v_bool (v_nth 0 v)) (v_bool (v_nth 1 v)) (v_nat (v_nth 2 v))
              (v_nat (v_nth 3 v)) (v_ty (v_nth 4 v)) o (v_items v) Hg) as [bs Hbs].
  fold (run_with o v) in Hbs. unfold run_C06s. rewrite <- Ho, Hbs. eapply check_of_run. exact Hbs.
Qed.

(** acceptance by the first line of [agree_C06s]: the implementation's batch sequence (positions
    resolved to items) is the seeded run, which is a run of the oracle model under an oracle in range *)
Lemma seeded_sound_l : forall v i, fits (length (v_items v)) -> seeded_ok (run_C06s v) i = true ->
  run_seeded v = Ok (map (map (lookup (v_items v))) (v_batches (v_nth 0 i))) /\
  exists o, oracle_guard o /\
    run_with o v = Ok (map (map (lookup (v_items v))) (v_batches (v_nth 0 i))).
Proof.
  intros v i Hf H. destruct (run_seeded_oracle_l v Hf) as (o & Hg & Ho).
  unfold seeded_ok, run_C06s in H. destruct (run_seeded v) as [bs|[]] eqn:E; try discriminate.
  apply andb_true_iff in H as [_ H]. cbn [v_nth nth] in H. rewrite v_batches_batches_v in H.
  apply nat_ll_eqb_eq in H.
  assert (Hbs : bs = map (map (lookup (v_items v))) (v_batches (v_nth 0 i))).
  { unfold run_with, v_items in *. eapply resolve_ids; eauto. }
  subst bs. split; [reflexivity|]. exists o. split; [exact Hg|exact Ho].
Qed.

(** ... hence every statement about [batches] holds of an implementation output the seeded line accepted *)
Lemma seeded_transfers_l : forall v i, fits (length (v_items v)) -> seeded_ok (run_C06s v) i = true ->
  let items := v_items v in
  let ty := v_ty (v_nth 4 v) in
  let lm := v_nat (v_nth 3 v) in
  let bs := map (map (lookup items)) (v_batches (v_nth 0 i)) in
  Permutation (concat bs) items /\
  Forall (fun b => b <> []) bs /\
  Forall (fun b => 1 < length b -> limit isize ty b <= Nat.max lm 1) bs /\
  (v_bool (v_nth 0 v) = false -> v_bool (v_nth 1 v) = false ->
   concat bs = items /\
   forall k b b' x, nth_error bs k = Some b -> nth_error bs (S k) = Some (x :: b') ->
     Nat.max lm 1 < limit isize ty (b ++ [x])).
Proof.
  intros v i Hf H. cbn zeta. destruct (seeded_sound_l v i Hf H) as (_ & o & Hg & Ho). unfold run_with in Ho.
  destruct (batches_props_l isize _ _ _ _ _ _ _ _ Ho) as (H1 & H2 & H3).
  split; [exact H1|]. split; [exact H2|]. split; [exact H3|].
  intros E1 E2. rewrite E1, E2 in Ho.
  split; [exact (plain_order_l _ isize _ _ _ _ _ _ Ho)|exact (plain_greedy_l _ isize _ _ _ _ _ _ Ho)].
Qed.

(** C15: what [corrupt_spelling] (C15_Spell.spell_text) does to a text — proofs.
    [chain_g]: the relational chain ON TEXTS: every call sees [segment] of the text the previous call
    returned, the predicates are [cd_u] / [cs_u] of those clusters, the edit is an element of the
    relational choice set of C15_Model.  [chain_text_g]: the seeded chain is one.
    [spell_word_t_spec] / [spell_text_spec]: every word of the output is the word itself, a listed
    misspelling of the word, the word with one regex part replaced by a listed misspelling of that part,
    or the end of such a chain (dropped when empty); nothing else, in the order of the text.
    [real_word_draws]: which sampler calls the misspelling branch makes. *)
From TU Require Import RNG_Model RNG_Proofs.
From TU Require Import Base UCD_Model UAX29_Model C15_Model C15_Proofs C15_Seeded C15_SeededProofs
                       C15_Classes C15_Tables C15_TablesProofs C15_TablesFloat C15_Spell.
From TU Require Import UAX29_Proofs C15_Apply C15_Chain C15_Seam C15_UAX29.
From Coq Require Import Lia.
Close Scope N_scope.
Open Scope nat_scope.

(** * chains on texts *)
Inductive chain_g (c : cfg) : nat -> str * list nat -> str * list nat -> Prop :=
| chain_g_0 : forall s, chain_g c 0 s s
| chain_g_S : forall n x ex l k s',
    choices c (cd_u (segment x)) (cs_u (segment x)) (segment x) ex = Some l -> In k l ->
    chain_g c n (concat (apply_word k (segment x)), apply_excl k ex) s' ->
    chain_g c (S n) (x, ex) s'.

Lemma chain_text_g wc n : forall x ex st x' ex' st', wf st -> wtabs_ok wc = true ->
  chain_text wc n x ex st = Some (x', ex', st') -> wf st' /\ chain_g (erase wc) n (x, ex) (x', ex').
Proof.
  induction n as [|n IH]; intros x ex st x' ex' st' Hw Hok H; cbn [chain_text] in H.
  - injection H as <- <- <-. split; [exact Hw|constructor].
  - destruct (edit_word_seeded wc (cd_u (segment x)) (cs_u (segment x)) (segment x) ex st) as [k st1|e| |] eqn:E;
      try discriminate.
    destruct (seeded_in_choices_l _ _ _ _ _ _ _ _ Hw Hok E) as (Hw1 & l & Hl & Hin).
    destruct (IH _ _ _ _ _ _ Hw1 Hok H) as [Hw' Hc]. split; [exact Hw'|].
    eapply chain_g_S; eassumption.
Qed.

(** every step of a chain on texts is one valid edit of the clusters of the text, and what it deletes /
    swaps is alphabetic or punctuation / alphabetic *)
Lemma chain_g_step c n x ex s' : chain_g c (S n) (x, ex) s' ->
  exists k, valid_ed c (segment x) ex k /\ class_of_edit (segment x) k /\
            chain_g c n (concat (apply_word k (segment x)), apply_excl k ex) s'.
Proof.
  intros H. inversion H as [|? ? ? l k ? Hl Hin Hc]; subst. exists k. split; [|split].
  - eapply choices_valid; eassumption.
  - eapply choices_class; eassumption.
  - exact Hc.
Qed.

(** * one word *)
Definition word_result_t (c : wcfg) (m : miss) (word : str) (o : option str) : Prop :=
  o = Some word
  \/ (exists repls r, miss_lookup m word = Some repls /\ In r repls /\ o = Some r)
  \/ (miss_lookup m word = None /\
      exists pos part repls r, In (pos, part) (word_parts word) /\ miss_lookup m part = Some repls /\ In r repls /\
                               o = Some (firstn pos word ++ r ++ skipn (pos + length part) word))
  \/ (exists n x' ex', 1 <= n <= Nat.max 1 (length (segment word)) /\
                       chain_g (erase c) n (word, []) (x', ex') /\
                       o = match x' with [] => None | _ => Some x' end).

Lemma enum_from_In {A} (l : list A) : forall i j x, In (j, x) (enum_from i l) -> nth_error l (j - i) = Some x /\ i <= j.
Proof.
  induction l as [|a l IH]; intros i j x H; [destruct H|]. cbn [enum_from] in H. destruct H as [E|H].
  - injection E as <- <-. rewrite Nat.sub_diag. split; [reflexivity|lia].
  - apply IH in H as [H1 H2]. split; [|lia]. replace (j - i) with (S (j - S i)) by lia. exact H1.
Qed.

Lemma replacable_In m parts idx repls : In (idx, repls) (replacable m parts) ->
  exists pos part, nth_error parts idx = Some (pos, part) /\ miss_lookup m part = Some repls.
Proof.
  unfold replacable. rewrite in_flat_map. intros ([j [pos part]] & Hin & Hx). cbn [fst snd] in Hx.
  destruct (miss_lookup m part) as [r|] eqn:E; [|destruct Hx]. destruct Hx as [Hx|[]]. injection Hx as <- <-.
  apply enum_from_In in Hin as [Hn _]. rewrite Nat.sub_0_r in Hn. exists pos, part. split; assumption.
Qed.

Lemma real_word_spec m word parts st o st' : wf st -> real_word m word parts st = Some (o, st') ->
  wf st' /\
  match o with
  | None => st' = st /\ miss_lookup m word = None /\ replacable m parts = []
  | Some x =>
      (exists repls, miss_lookup m word = Some repls /\ In x repls)
      \/ (miss_lookup m word = None /\
          exists pos part repls r, In (pos, part) parts /\ miss_lookup m part = Some repls /\ In r repls /\
                                   x = firstn pos word ++ r ++ skipn (pos + length part) word)
  end.
Proof.
  intros Hw H. unfold real_word in H. destruct (miss_lookup m word) as [repls|] eqn:El.
  - destruct (pick_idx (length repls) st) as [[j st1]|] eqn:Ep; [|discriminate]. injection H as <- <-.
    destruct (pick_idx_spec _ _ _ _ Hw Ep) as [Hj Hw1]. split; [exact Hw1|]. left. exists repls. split; [reflexivity|].
    apply nth_In. exact Hj.
  - destruct (replacable m parts) as [|c0 rp'] eqn:Er.
    + injection H as <- <-. split; [exact Hw|]. repeat split.
    + rewrite <- Er in *. destruct (pick_idx (length (replacable m parts)) st) as [[j st1]|] eqn:Ep; [|discriminate].
      destruct (pick_idx_spec _ _ _ _ Hw Ep) as [Hj Hw1].
      set (c := nth j (replacable m parts) (0, [])) in *.
      destruct (pick_idx (length (snd c)) st1) as [[i st2]|] eqn:Ep2; [|discriminate]. injection H as <- <-.
      destruct (pick_idx_spec _ _ _ _ Hw1 Ep2) as [Hi Hw2]. split; [exact Hw2|]. right. split; [reflexivity|].
      assert (Hc : In c (replacable m parts)) by (apply nth_In; exact Hj).
      destruct c as [idx repls]. cbn [fst snd] in *.
      destruct (replacable_In _ _ _ _ Hc) as (pos & part & Hn & Hl).
      exists pos, part, repls, (nth i repls []). split; [eapply nth_error_In; exact Hn|]. split; [exact Hl|].
      split; [apply nth_In; exact Hi|].
      rewrite (nth_error_nth parts idx (0, []) Hn). reflexivity.
Qed.

Lemma art_word_spec wc pc word st o st' : wf st -> wtabs_ok wc = true ->
  art_word wc pc word st = Some (o, st') ->
  wf st' /\ exists n x' ex', 1 <= n <= Nat.max 1 (length (segment word)) /\
                             chain_g (erase wc) n (word, []) (x', ex') /\
                             o = match x' with [] => None | _ => Some x' end.
Proof.
  intros Hw Hok H. unfold art_word in H.
  destruct (count_draws (length (segment word)) pc st) as [n st2] eqn:E2.
  destruct (count_draws_spec _ _ _ _ _ Hw E2) as [Hn Hw2].
  destruct (chain_text wc (Nat.max n 1) word [] st2) as [[[x' ex'] st3]|] eqn:E3; [|discriminate].
  injection H as <- <-. destruct (chain_text_g _ _ _ _ _ _ _ _ Hw2 Hok E3) as [Hw3 Hc].
  split; [exact Hw3|]. exists (Nat.max n 1), x', ex'. split; [lia|]. split; [exact Hc|reflexivity].
Qed.

Lemma spell_word_t_spec wc m real_p sum_p pc word st o st' : wf st -> wtabs_ok wc = true ->
  spell_word_t wc m real_p sum_p pc word st = Some (o, st') -> wf st' /\ word_result_t wc m word o.
Proof.
  intros Hw Hok H. unfold spell_word_t in H. destruct (random_f64 st) as [k st1] eqn:E1.
  destruct (random_f64_spec _ _ _ Hw E1) as [_ Hw1].
  destruct (fgt (Fin k (-53)) sum_p).
  - injection H as <- <-. split; [exact Hw1|left; reflexivity].
  - destruct (flt (Fin k (-53)) real_p).
    + destruct (real_word m word (word_parts word) st1) as [[[x|] st2]|] eqn:Er; [| |discriminate].
      * injection H as <- <-. destruct (real_word_spec _ _ _ _ _ _ Hw1 Er) as [Hw2 Hx]. split; [exact Hw2|].
        destruct Hx as [(repls & Hl & Hin)|(Hl & pos & part & repls & r & Hp & Hlp & Hin & ->)].
        -- right. left. exists repls, x. repeat split; assumption.
        -- right. right. left. split; [exact Hl|]. exists pos, part, repls, r. repeat split; assumption.
      * destruct (real_word_spec _ _ _ _ _ _ Hw1 Er) as [Hw2 _].
        destruct (art_word_spec _ _ _ _ _ _ Hw2 Hok H) as [Hw3 Ha]. split; [exact Hw3|]. right. right. right. exact Ha.
    + destruct (art_word_spec _ _ _ _ _ _ Hw1 Hok H) as [Hw3 Ha]. split; [exact Hw3|]. right. right. right. exact Ha.
Qed.

Lemma spell_words_t_spec wc m real_p sum_p pc : forall ws st l st', wf st -> wtabs_ok wc = true ->
  spell_words_t wc m real_p sum_p pc ws st = Some (l, st') ->
  wf st' /\ exists os, Forall2 (word_result_t wc m) ws os /\ l = keep_some os.
Proof.
  induction ws as [|w r IH]; intros st l st' Hw Hok H; cbn [spell_words_t] in H.
  - injection H as <- <-. split; [exact Hw|]. exists []. split; [constructor|reflexivity].
  - destruct (spell_word_t wc m real_p sum_p pc w st) as [[o st1]|] eqn:E1; [|discriminate].
    destruct (spell_word_t_spec _ _ _ _ _ _ _ _ _ Hw Hok E1) as [Hw1 Ho].
    destruct (spell_words_t wc m real_p sum_p pc r st1) as [[l2 st2]|] eqn:E2; [|discriminate]. injection H as <- <-.
    destruct (IH _ _ _ Hw1 Hok E2) as (Hw2 & os & Hf & ->). split; [exact Hw2|].
    exists (o :: os). split; [constructor; [exact Ho|exact Hf]|]. destruct o; reflexivity.
Qed.

Lemma mode_cfg_ok mode fd items wc : (has_tables mode = true -> items_sane items = true) ->
  mode_cfg mode fd items = Some wc -> wtabs_ok wc = true.
Proof.
  unfold mode_cfg. intros Hs H. destruct (has_tables mode).
  - destruct (build_tables items) as [it rt|] eqn:Eb; [|discriminate]. injection H as <-.
    cbn [spell_cfg]. eapply tables_wtabs_ok_l; [apply Hs; reflexivity|exact Eb].
  - injection H as <-. reflexivity.
Qed.

(** * the whole text *)
Lemma spell_text_spec_l mode fd prob pc art items m seed text t :
  (has_tables mode = true -> items_sane items = true) ->
  spell_text mode fd prob pc art items m seed text = SpText t ->
  exists wc os, mode_cfg mode fd items = Some wc /\
                Forall2 (word_result_t wc (mode_miss mode m)) (split_ws text) os /\ t = join_sp (keep_some os).
Proof.
  intros Hs H. unfold spell_text in H.
  destruct (negb (positive (fclamp01 prob))); [discriminate|].
  destruct (mode_probs mode (fclamp01 prob) pc art) as [[art_p real_p] pc'].
  pose proof (mode_cfg_ok mode fd items) as Hok. unfold mode_cfg in *. fold (mode_miss mode m) in H.
  destruct (has_tables mode).
  - destruct (build_tables items) as [it rt|]; [|discriminate].
    specialize (Hok _ Hs eq_refl).
    destruct (spell_words_t _ _ _ _ _ _ _) as [[l st']|] eqn:E; [|discriminate]. injection H as <-.
    destruct (spell_words_t_spec _ _ _ _ _ _ _ _ _ (wf_seed seed) Hok E) as (_ & os & Hf & ->).
    eexists _, os. split; [reflexivity|]. split; [exact Hf|reflexivity].
  - specialize (Hok _ Hs eq_refl).
    destruct (spell_words_t _ _ _ _ _ _ _) as [[l st']|] eqn:E; [|discriminate]. injection H as <-.
    destruct (spell_words_t_spec _ _ _ _ _ _ _ _ _ (wf_seed seed) Hok E) as (_ & os & Hf & ->).
    eexists _, os. split; [reflexivity|]. split; [exact Hf|reflexivity].
Qed.

(** * the draws of the misspelling branch, as a script of RNG_Model sampler calls *)
Definition real_word_draws (m : miss) (word : str) (parts : list (nat * str)) (st : rng) : list call :=
  match miss_lookup m word with
  | Some repls => [CRange (N.of_nat (length repls))]
  | None =>
    match replacable m parts with
    | [] => []
    | rp =>
      CRange (N.of_nat (length rp)) ::
      match pick_idx (length rp) st with
      | Some (j, _) => [CRange (N.of_nat (length (snd (nth j rp (0, [])))))]
      | None => []
      end
    end
  end.

Lemma real_word_draws_l m word parts st o st' : real_word m word parts st = Some (o, st') ->
  snd (run_calls (real_word_draws m word parts st) st) = st' /\ length (real_word_draws m word parts st) <= 2.
Proof.
  intros H. unfold real_word, real_word_draws in *. destruct (miss_lookup m word) as [repls|].
  - destruct (pick_idx (length repls) st) as [[j st1]|] eqn:Ep; [|discriminate]. injection H as _ <-.
    split; [|cbn; lia]. rewrite run_calls_cons. cbn [run_calls snd]. eapply run_range. exact Ep.
  - destruct (replacable m parts) as [|c0 rp'] eqn:Er.
    + injection H as _ <-. split; [reflexivity|cbn; lia].
    + rewrite <- Er in *. destruct (pick_idx (length (replacable m parts)) st) as [[j st1]|] eqn:Ep; [|discriminate].
      destruct (pick_idx (length (snd (nth j (replacable m parts) (0, [])))) st1) as [[i st2]|] eqn:Ep2; [|discriminate].
      injection H as _ <-. split; [|cbn; lia].
      rewrite run_calls_cons, (run_range _ _ _ _ Ep), run_calls_cons. cbn [run_calls snd]. eapply run_range. exact Ep2.
Qed.

(** * one call on the tables corrupt_spelling builds never panics: the premise [wtabs_ok] of
    [C15_SeededProofs.seeded_total_l] is discharged *)
Lemma spell_call_total_l items it rt fd w ex st : items_sane items = true -> build_tables items = TOk it rt ->
  wf st -> (N.of_nat (S (length w)) < p64)%N ->
  exists k st', edit_word_seeded (spell_cfg_of fd it rt) (cd_u w) (cs_u w) w ex st = SOk k st'.
Proof.
  intros Hs Hb Hw Hl. apply seeded_total_l; [exact Hw| |exact Hl]. eapply tables_wtabs_ok_l; eassumption.
Qed.

(** * without a character dictionary (realistic mode; artificial / mixed without a file) the artificial
    corruption only deletes alphabetic or punctuation characters and swaps alphabetic ones: the other
    characters of the word survive every call, in order *)
Lemma notables_call_fixed fd w ex st k st' : wf st ->
  edit_word_seeded (spell_cfg fd None) (cd_u w) (cs_u w) w ex st = SOk k st' ->
  fixed_u (apply_word k w) = fixed_u w /\ class_of_edit w k.
Proof.
  intros Hw H. assert (Hok : wtabs_ok (spell_cfg fd None) = true) by reflexivity.
  destruct (seeded_in_choices_l _ _ _ _ _ _ _ _ Hw Hok H) as (_ & l & Hl & Hin).
  split; [eapply fixed_step; [| |exact Hl|exact Hin]; reflexivity|eapply choices_class; eassumption].
Qed.

(** * seam-safe words: re-segmenting between the calls changes nothing, so the chain on texts IS the
    chain on cluster lists of C15_Seeded, and the exclusion-set theorems of C15 ([chain_inv], [chain_fresh])
    hold of what corrupt_spelling does in grapheme mode *)
Definition out3 (r : word * list nat * rng) : str * list nat * rng :=
  match r with (w, ex, st) => (concat w, ex, st) end.

Lemma chain_text_stable wc w0 n : pool_safe (pool (erase wc) w0) = true -> wtabs_ok wc = true ->
  forall w ex st, wf st -> incl w (pool (erase wc) w0) ->
  chain_text wc n (concat w) ex st = option_map out3 (chain_seeded wc pf_u n w ex st).
Proof.
  intros Hp Hok. induction n as [|n IH]; intros w ex st Hw Hin; cbn [chain_text chain_seeded]; [reflexivity|].
  rewrite (pool_stable _ _ Hp Hin). cbn [pf_u fst snd].
  destruct (edit_word_seeded wc (cd_u w) (cs_u w) w ex st) as [k st1|e| |] eqn:E; try reflexivity.
  destruct (seeded_in_choices_l _ _ _ _ _ _ _ _ Hw Hok E) as (Hw1 & l & Hl & Hk).
  apply IH; [exact Hw1|]. eapply apply_word_pool; [eapply choices_valid; eassumption|exact Hin].
Qed.

Lemma chain_text_safe_l wc n x st x' ex' st' : wf st -> wtabs_ok wc = true ->
  edit_safe (erase wc) (segment x) = true ->
  chain_text wc n x [] st = Some (x', ex', st') ->
  chain (erase wc) n (segment x, []) (segment x', ex') /\
  in_range (segment x') ex' /\ subseq (unprot (segment x') ex') (segment x).
Proof.
  intros Hw Hok Hs H. unfold edit_safe in Hs.
  rewrite <- (UAX29_Proofs.segment_concat_l x) in H at 1.
  pose proof (chain_text_stable wc (segment x) n Hs Hok (segment x) [] st Hw (pool_self _ _)) as Q.
  pose proof (eq_trans (eq_sym Q) H) as H2. clear H Q. rename H2 into H.
  destruct (chain_seeded wc pf_u n (segment x) [] st) as [[[w' ex1] st1]|] eqn:E; [|discriminate].
  cbn [option_map out3] in H. injection H as <- <- <-.
  destruct (chain_seeded_props_l _ _ _ _ _ _ _ _ _ Hw Hok E) as (_ & Hc & Hr & Hsub).
  assert (Hseg : segment (concat w') = w') by (apply (chain_stable_l _ _ _ _ _ Hs Hc)).
  rewrite Hseg. split; [exact Hc|]. split; [apply Hr; constructor|].
  assert (U : forall (l : word) i, unprot_from i l [] = l).
  { induction l as [|c r IHr]; intros i; [reflexivity|]. cbn [unprot_from mem existsb]. f_equal. apply IHr. }
  unfold unprot in Hsub at 2. rewrite U in Hsub. exact Hsub.
Qed.

(** C16 — possible_byte_substrings: the machine model equals the reference model, and the
    reference model returns only cluster ranges of at most [max_bytes] bytes. *)
From TU Require Import Base C16_Model C16_Proofs C16_Top C16_Machine C16_MachineProofs C16_MachineTop C16_MachinePbs.
From Coq Require Import Lia ZifyBool ZifyNat ZifyN.
Open Scope N_scope.
Arguments N.add : simpl never.
Arguments N.sub : simpl never.
Arguments N.mul : simpl never.
Arguments N.eqb : simpl never.
Arguments N.ltb : simpl never.
Arguments N.leb : simpl never.
Arguments N.min : simpl never.
Arguments N.max : simpl never.
Arguments N.of_nat : simpl never.
Arguments N.to_nat : simpl never.

Lemma ISIZE_big : 2 < ISIZE_MAX.
Proof. vm_compute. reflexivity. Qed.

(** * sums of slices *)
Lemma sumN_firstn_le d : forall l, sumN (firstn d l) <= sumN l.
Proof.
  induction d as [|d IH]; intros [|x l]; cbn [firstn]; try (change (sumN []) with 0; lia).
  rewrite !sumN_cons. specialize (IH l). lia.
Qed.

Lemma sumN_skipn_le s : forall l, sumN (skipn s l) <= sumN l.
Proof.
  induction s as [|s IH]; intros [|x l]; cbn [skipn]; try lia.
  rewrite sumN_cons. specialize (IH l). lia.
Qed.

Lemma msum_ok p : forall l acc, acc + sumN l < W -> msum p acc l = Ok (acc + sumN l).
Proof.
  induction l as [|x l IH]; intros acc H; cbn [msum].
  - change (sumN []) with 0. f_equal. lia.
  - rewrite sumN_cons in H. rewrite madd_ok by lia. cbn [bind]. rewrite IH by lia.
    rewrite sumN_cons. f_equal. lia.
Qed.

Lemma mslice_sum_ok p vals s e : sumN vals < W -> mslice_sum p vals s e = slice_sum vals s e.
Proof.
  intros H. unfold mslice_sum, slice_sum, vslice.
  destruct ((s <=? e) && (e <=? lenN vals)); [|reflexivity]. cbn [bind].
  pose proof (sumN_firstn_le (N.to_nat (e - s)) (skipn (N.to_nat s) vals)).
  pose proof (sumN_skipn_le (N.to_nat s) vals).
  rewrite msum_ok by lia. reflexivity.
Qed.

(** * the machine model of find_subsequences_of_max_size_k is the reference *)
Section Sim.
Variables (p : profile) (vals : list N) (k : N).
Hypothesis HS : sumN vals < W.
Hypothesis HL : lenN vals + 2 < W.

Lemma mff_ok : forall fuel start, mff p vals k fuel start = ff vals k fuel start.
Proof.
  induction fuel as [|f IH]; intros start; cbn [mff ff]; [reflexivity|].
  destruct (start <? lenN vals) eqn:E; [|reflexivity].
  unfold mslice_sum_incl. destruct (start =? W - 1) eqn:E1; [lia|].
  rewrite mslice_sum_ok by exact HS.
  destruct (slice_sum vals start (start + 1)) as [z| | |]; cbn [bind]; try reflexivity.
  destruct (k <? z); [|reflexivity]. rewrite madd_ok by lia. cbn [bind]. apply IH.
Qed.

Lemma slice_sum_pos s e cur : slice_sum vals s e = Ok cur -> 0 < cur -> s < e.
Proof.
  unfold slice_sum, vslice. destruct ((s <=? e) && (e <=? lenN vals)) eqn:E; [|discriminate].
  cbn [bind]. intros H Hc. injection H as <-.
  destruct (N.eq_dec s e) as [->|Hne]; [|lia].
  replace (e - e) with 0 in Hc by lia. change (N.to_nat 0) with 0%nat in Hc. cbn [firstn] in Hc.
  change (sumN []) with 0 in Hc. lia.
Qed.

Lemma mfs_ok : forall fuel s e prev, mfs p vals k fuel s e prev = fs vals k fuel s e prev.
Proof.
  induction fuel as [|f IH]; intros s e prev; cbn [mfs fs]; [reflexivity|].
  destruct ((s <? lenN vals) && (e <=? lenN vals)) eqn:E; [|reflexivity].
  apply andb_true_iff in E as [E1 E2]. rewrite mslice_sum_ok by exact HS.
  destruct (slice_sum vals s e) as [cur| | |] eqn:EC; cbn [bind]; try reflexivity.
  destruct (cur <=? k) eqn:Ek.
  - rewrite madd_ok by lia. cbn [bind]. rewrite IH. reflexivity.
  - pose proof (slice_sum_pos s e cur EC ltac:(lia)) as Hse.
    destruct (prev <=? k).
    + rewrite msub_ok by lia. cbn [bind]. rewrite madd_ok by lia. cbn [bind]. rewrite IH. reflexivity.
    + rewrite madd_ok by lia. cbn [bind]. rewrite madd_ok by lia. cbn [bind]. apply IH.
Qed.

Lemma mfind_sub_ok : mfind_sub p vals k = find_sub vals k.
Proof.
  unfold mfind_sub, find_sub. rewrite mff_ok.
  destruct (ff vals k (length vals) 0) as [s| | |]; cbn [bind]; try reflexivity.
  destruct (lenN vals <=? s) eqn:E; [reflexivity|].
  rewrite madd_ok by lia. cbn [bind]. rewrite mslice_sum_ok by exact HS.
  destruct (slice_sum vals s (s + 1)); cbn [bind]; try reflexivity. apply mfs_ok.
Qed.
End Sim.

(** * on the characters of a text *)
Lemma mapM_map {A B} (f : A -> res B) (g : A -> B) l :
  (forall x, In x l -> f x = Ok (g x)) -> mapM f l = Ok (map g l).
Proof.
  induction l as [|x l IH]; intros H; [reflexivity|]. cbn [mapM map].
  rewrite (H x (or_introl eq_refl)). cbn [bind]. rewrite IH; [reflexivity|].
  intros y Hy. apply H. right. exact Hy.
Qed.

Lemma skipn_nth_cons {A} (d : A) : forall l a, (a < length l)%nat -> skipn a l = nth a l d :: skipn (S a) l.
Proof.
  induction l as [|x l IH]; intros a H; cbn [length] in H; [lia|].
  destruct a as [|a]; [reflexivity|]. cbn [skipn nth]. apply IH. lia.
Qed.

Lemma map_cblen_range lens k : forall a, a + N.of_nat k <= lenN lens ->
  map (cblen lens) (nrange_k a k) = firstn k (skipn (N.to_nat a) lens).
Proof.
  induction k as [|k IH]; intros a H; [reflexivity|].
  cbn [nrange_k map]. rewrite IH by lia.
  rewrite (skipn_nth_cons 0 lens (N.to_nat a)) by (unfold lenN in H; lia).
  cbn [firstn]. unfold cblen. replace (N.to_nat (a + 1)) with (S (N.to_nat a)) by lia. reflexivity.
Qed.

Lemma cr2br_Ok_lt cs s e pr : cr2br cs s e = Ok pr -> s < e.
Proof.
  unfold cr2br. destruct ((s <? e) && (e <=? c_len cs)) eqn:E; [|discriminate]. intros _. lia.
Qed.

Section Ref.
Variable lens : list N.
Hypothesis HP : Pos lens.

Definition sz (s e : N) : N := pre lens e - pre lens s.

Lemma chars_of_new : chars_of (cs_new lens) = Ok lens.
Proof.
  unfold chars_of. rewrite c_len_new.
  rewrite (mapM_map _ (cblen lens)).
  - f_equal. unfold nrange. rewrite map_cblen_range by lia.
    replace (N.to_nat (lenN lens - 0)) with (length lens) by (unfold lenN; lia).
    change (N.to_nat 0) with 0%nat. cbn [skipn]. apply firstn_all.
  - intros i Hi. unfold nrange in Hi. apply In_nrange_k in Hi. rewrite get_new.
    destruct (lenN lens <=? i) eqn:E; [lia|]. reflexivity.
Qed.



(** * what the reference returns *)
Lemma slice_sum_sz s e : s <= e -> e <= lenN lens -> slice_sum lens s e = Ok (sz s e).
Proof.
  intros H1 H2. unfold slice_sum, vslice. destruct ((s <=? e) && (e <=? lenN lens)) eqn:E; [|lia].
  cbn [bind]. f_equal. rewrite <- map_cblen_range by lia. rewrite sum_cblen_range.
  unfold sz. f_equal. f_equal. lia.
Qed.

Definition range_ok (k : N) (q : N * N) : Prop :=
  fst q < snd q /\ snd q <= lenN lens /\ sz (fst q) (snd q) <= k.

Lemma ff_spec k : forall fuel start, start <= lenN lens -> lenN lens <= start + N.of_nat fuel ->
  exists s, ff lens k fuel start = Ok s /\ start <= s /\ s <= lenN lens
    /\ (s < lenN lens -> sz s (s + 1) <= k).
Proof.
  induction fuel as [|f IH]; intros start H1 H2; cbn [ff].
  - destruct (start <? lenN lens) eqn:E; [lia|]. exists start. repeat split; lia.
  - destruct (start <? lenN lens) eqn:E.
    2:{ exists start. repeat split; lia. }
    rewrite slice_sum_sz by lia. cbn [bind]. destruct (k <? sz start (start + 1)) eqn:Ek.
    + destruct (IH (start + 1)) as (s & Hs & A & B & C); [lia|lia|].
      exists s. repeat split; try assumption; lia.
    + exists start. repeat split; lia.
Qed.

Definition LoopInv (k s e prev : N) : Prop :=
  s < e /\ s <= lenN lens /\ e <= lenN lens + 1 /\
  (prev <= k -> (prev = sz s (e - 1) /\ s < e - 1) \/ prev = sz s e).

Lemma fs_spec k : forall fuel s e prev, LoopInv k s e prev ->
  2 * lenN lens + 2 <= N.of_nat fuel + s + e ->
  exists subs, fs lens k fuel s e prev = Ok subs /\ Forall (range_ok k) subs.
Proof.
  induction fuel as [|f IH]; intros s e prev (Hse & Hs & He & Hprev) Hfuel.
  - cbn [fs]. destruct ((s <? lenN lens) && (e <=? lenN lens)) eqn:E; [lia|].
    exists []. split; [reflexivity|constructor].
  - cbn [fs]. destruct ((s <? lenN lens) && (e <=? lenN lens)) eqn:E.
    2:{ exists []. split; [reflexivity|constructor]. }
    apply andb_true_iff in E as [E1 E2]. rewrite slice_sum_sz by lia. cbn [bind].
    destruct (sz s e <=? k) eqn:Ecur.
    + destruct (IH s (e + 1) (sz s e)) as (rest & Hr & HF).
      { unfold LoopInv. repeat split; try lia. intros _. left.
        replace (e + 1 - 1) with e by lia. split; [reflexivity|lia]. }
      { lia. }
      rewrite Hr. cbn [bind]. destruct (lenN lens <=? e) eqn:En.
      * eexists. split; [reflexivity|]. constructor; [|exact HF]. unfold range_ok. cbn [fst snd]. lia.
      * exists rest. split; [reflexivity|exact HF].
    + destruct (prev <=? k) eqn:Ep.
      * destruct (Hprev ltac:(lia)) as [[Hpv Hlt]|Hpv]; [|lia].
        destruct (IH (s + 1) e (sz s e)) as (rest & Hr & HF).
        { unfold LoopInv. repeat split; try lia. }
        { lia. }
        rewrite Hr. cbn [bind]. eexists. split; [reflexivity|]. constructor; [|exact HF].
        unfold range_ok. cbn [fst snd]. lia.
      * apply IH; [|lia]. unfold LoopInv. repeat split; try lia.
Qed.

Lemma find_sub_spec k : exists subs, find_sub lens k = Ok subs /\ Forall (range_ok k) subs.
Proof.
  unfold find_sub. destruct (ff_spec k (length lens) 0) as (s & Hs & A & B & C); [lia|unfold lenN; lia|].
  rewrite Hs. cbn [bind]. destruct (lenN lens <=? s) eqn:E.
  - exists []. split; [reflexivity|constructor].
  - rewrite slice_sum_sz by lia. cbn [bind]. apply fs_spec.
    + unfold LoopInv. repeat split; try lia.
    + unfold lenN. lia.
Qed.

(** every returned triple is (byte start, byte end, number of characters) of a non-empty range of
    whole characters that has at most [maxb] bytes *)
Definition triple_ok (maxb : N) (t : N * N * N) : Prop :=
  exists a b, a < b /\ b <= lenN lens /\ t = (pre lens a, pre lens b, b - a)
    /\ pre lens b - pre lens a <= maxb.

Lemma pbs_spec maxb : lens <> [] ->
  exists ts, pbs lens maxb = Ok ts /\ Forall (triple_ok maxb) ts.
Proof.
  intros HN. unfold pbs. pose proof (Pos_sum lens HP HN). destruct (sumN lens =? 0) eqn:E0; [lia|].
  cbv zeta. rewrite chars_of_new. cbn [bind].
  destruct (find_sub_spec maxb) as (subs & Hs & HF). rewrite Hs. cbn [bind].
  rewrite (mapM_map _ (fun se => (pre lens (fst se), pre lens (snd se), snd se - fst se))).
  - eexists. split; [reflexivity|]. rewrite Forall_forall in *. intros t Ht.
    apply in_map_iff in Ht as ([s e] & <- & Hin). destruct (HF _ Hin) as (R1 & R2 & R3).
    cbn [fst snd] in *. exists s, e. repeat split; assumption.
  - intros [s e] Hin. rewrite Forall_forall in HF. destruct (HF _ Hin) as (R1 & R2 & R3).
    cbn [fst snd] in *. rewrite cr2br_new by lia. reflexivity.
Qed.

End Ref.

(** * the machine model on a text of at most isize::MAX bytes *)
Section Text.
Variables (p : profile) (lens : list N) (isb : N -> bool).
Hypothesis HP : Pos lens.
Hypothesis HB : sumN lens <= ISIZE_MAX.
Hypothesis Hisb : forall k, isb (pre lens k) = true.

Lemma mchars_of_new : mchars_of p isb (cs_new lens) = Ok lens.
Proof.
  rewrite <- (chars_of_new lens). unfold mchars_of, chars_of. apply mapM_ext. intros i _.
  rewrite (mget_ok p lens HP HB isb Hisb). reflexivity.
Qed.

Lemma mpbs_ok maxb : mpbs p isb lens maxb = pbs lens maxb.
Proof.
  unfold mpbs, pbs. destruct (sumN lens =? 0); [reflexivity|]. cbv zeta.
  rewrite (mcs_new_ok' p lens HP HB). cbn [bind]. rewrite mchars_of_new, (chars_of_new lens). cbn [bind].
  pose proof W_ISIZE as HW. pose proof ISIZE_big as HI. pose proof (len_le_sum lens HP) as HL.
  rewrite mfind_sub_ok by lia.
  destruct (find_sub lens maxb) as [subs| | |]; cbn [bind]; try reflexivity.
  apply mapM_ext. intros [s e] _. cbn [fst snd]. rewrite (mcr2br_ok p lens HP HB).
  destruct (cr2br (cs_new lens) s e) as [pr| | |] eqn:E; cbn [bind]; try reflexivity.
  apply cr2br_Ok_lt in E. rewrite msub_ok by lia. reflexivity.
Qed.

Lemma mpbs_spec maxb : lens <> [] ->
  exists ts, mpbs p isb lens maxb = Ok ts /\ Forall (triple_ok lens maxb) ts.
Proof. intros HN. rewrite mpbs_ok. apply pbs_spec; assumption. Qed.
End Text.

(** * the val-level runs compared by [pbs_agree] *)
Lemma run_pbs_ok p v : wf_C16 v = true -> bytes_of v <= ISIZE_MAX -> run_pbs p v = run_pbs_ref v.
Proof.
  unfold bytes_of, run_pbs, run_pbs_ref. intros Hwf HB. apply wf_Pos in Hwf. cbv zeta.
  rewrite mpbs_ok; [reflexivity|assumption|assumption|]. intros k. apply isb_of_pre.
Qed.

Lemma pbs_agree_run_l v out : wf_C16 v = true -> bytes_of v <= ISIZE_MAX ->
  pbs_agree v out = match v_nth 4 out with L [] => true | x => val_eqb (run_pbs_ref v) x end.
Proof.
  intros H1 H2. unfold pbs_agree. rewrite !run_pbs_ok by assumption.
  destruct (v_nth 4 out) as [z|[|a l]]; [|reflexivity|];
    destruct (val_eqb (run_pbs_ref v) _); reflexivity.
Qed.

(** C03: the (repaired) heap loop simulates the naive canonical reference.
    [Complete]: every currently adjacent mergeable pair of live slots has its
    (fresh) entry in the heap. With [Inv] (every fresh entry is such a pair) and
    the heap order, a fresh pop is exactly the reference step [best]. *)
From TU Require Import Base BPE_Model C02_Inv C02_Loop.
From Coq Require Import Lia Permutation.
Open Scope N_scope.
Arguments N.add : simpl never.
Arguments N.ltb : simpl never.

(** * the reference *)
Lemma best_sound tbl : forall ts pos m p, best tbl pos ts = Some (m, p) ->
  exists l x y r, ts = l ++ x :: y :: r /\ p = (pos + length l)%nat /\ lookup tbl (x ++ y) = Some m.
Proof.
  induction ts as [|x0 r0 IH]; intros pos m p H; cbn [best] in H; [discriminate|].
  destruct r0 as [|y0 r1]; [discriminate|].
  assert (Rec : best tbl (S pos) (y0 :: r1) = Some (m, p) ->
    exists l x y r, x0 :: y0 :: r1 = l ++ x :: y :: r /\ p = (pos + length l)%nat /\ lookup tbl (x ++ y) = Some m).
  { intro Hr. destruct (IH _ _ _ Hr) as [l [x [y [r [E [Hp Hl]]]]]].
    exists (x0 :: l), x, y, r. cbn [app length]. rewrite E. repeat split; [lia|exact Hl]. }
  destruct (lookup tbl (x0 ++ y0)) as [m0|] eqn:Lk.
  - destruct (best tbl (S pos) (y0 :: r1)) as [[m' p']|] eqn:B.
    + destruct (m' <? m0) eqn:C.
      * injection H as <- <-. apply Rec. reflexivity.
      * injection H as <- <-. exists [], x0, y0, r1. cbn [app length]. repeat split; [lia|exact Lk].
    + injection H as <- <-. exists [], x0, y0, r1. cbn [app length]. repeat split; [lia|exact Lk].
  - apply Rec. exact H.
Qed.

Lemma best_none tbl : forall ts pos, best tbl pos ts = None ->
  forall l x y r, ts = l ++ x :: y :: r -> lookup tbl (x ++ y) = None.
Proof.
  induction ts as [|x0 r0 IH]; intros pos H l x y r E; [destruct l; discriminate|].
  cbn [best] in H. destruct r0 as [|y0 r1]; [destruct l as [|? [|? ?]]; discriminate|].
  destruct (lookup tbl (x0 ++ y0)) as [m0|] eqn:Lk.
  - destruct (best tbl (S pos) (y0 :: r1)) as [[m' p']|]; [destruct (m' <? m0)|]; discriminate.
  - destruct l as [|z l].
    + cbn [app] in E. injection E as <- <- <-. exact Lk.
    + cbn [app] in E. injection E as <- E. eapply IH; [exact H|exact E].
Qed.

Lemma best_min tbl : forall ts pos m p, best tbl pos ts = Some (m, p) ->
  forall l x y r m', ts = l ++ x :: y :: r -> lookup tbl (x ++ y) = Some m' ->
  m < m' \/ (m = m' /\ (p <= pos + length l)%nat).
Proof.
  induction ts as [|x0 r0 IH]; intros pos m p H l x y r m' E Lk'; [destruct l; discriminate|].
  cbn [best] in H. destruct r0 as [|y0 r1]; [discriminate|].
  destruct l as [|z l].
  - (* the pair at the head *)
    cbn [app] in E. injection E as <- <- <-. rewrite Lk' in H. cbn [length].
    destruct (best tbl (S pos) (y0 :: r1)) as [[m1 p1]|] eqn:B.
    + destruct (m1 <? m') eqn:C; injection H as <- <-.
      * apply N.ltb_lt in C. left. exact C.
      * right. split; [reflexivity|lia].
    + injection H as <- <-. right. split; [reflexivity|lia].
  - cbn [app] in E. injection E as <- E. cbn [length].
    destruct (lookup tbl (x0 ++ y0)) as [m0|] eqn:Lk.
    + destruct (best tbl (S pos) (y0 :: r1)) as [[m1 p1]|] eqn:B.
      * pose proof (IH _ _ _ B _ _ _ _ _ E Lk') as Hm.
        destruct (m1 <? m0) eqn:C; injection H as <- <-.
        -- destruct Hm as [Hm|[Hm Hp]]; [left; exact Hm|right; split; [exact Hm|lia]].
        -- apply N.ltb_ge in C. destruct Hm as [Hm|[Hm Hp]]; [left; lia|].
           subst m'. apply N.le_lteq in C. destruct C as [C|C]; [left; exact C|right; split; [exact C|lia]].
      * exfalso. pose proof (best_none tbl _ _ B _ _ _ _ E) as Hn. congruence.
    + pose proof (IH _ _ _ H _ _ _ _ _ E Lk') as Hm.
      destruct Hm as [Hm|[Hm Hp]]; [left; exact Hm|right; split; [exact Hm|lia]].
Qed.

Lemma merge_at_app (x y : list N) r : forall l, merge_at (length l) (l ++ x :: y :: r) = l ++ (x ++ y) :: r.
Proof. induction l as [|z l IH]; [reflexivity|]. cbn [length app merge_at]. f_equal. exact IH. Qed.

Lemma canon_none tbl ts : best tbl 0 ts = None -> canon tbl ts = ts.
Proof. intro H. unfold canon. destruct (length ts); cbn [canon_fuel]; [reflexivity|]. rewrite H. reflexivity. Qed.

Lemma canon_step tbl ts m p : best tbl 0 ts = Some (m, p) -> canon tbl ts = canon tbl (merge_at p ts).
Proof.
  intro H. destruct (best_sound _ _ _ _ _ H) as [l [x [y [r [E [Hp _]]]]]]. cbn [Nat.add] in Hp. subst p.
  assert (HL : length ts = S (length (merge_at (length l) ts))).
  { rewrite E, merge_at_app, !app_length. cbn [length]. lia. }
  unfold canon. rewrite HL. cbn [canon_fuel]. rewrite H. reflexivity.
Qed.

(** [canon_maximal]: nothing is mergeable in the result, i.e. the fuel was enough *)
Lemma canon_fuel_maximal tbl : forall n ts, length ts = n -> best tbl 0 (canon_fuel tbl n ts) = None.
Proof.
  induction n as [|n IH]; intros ts Hn.
  - destruct ts; [reflexivity|discriminate].
  - cbn [canon_fuel]. destruct (best tbl 0 ts) as [[m p]|] eqn:B; [|exact B].
    apply IH. destruct (best_sound _ _ _ _ _ B) as [l [x [y [r [E [Hp _]]]]]]. cbn [Nat.add] in Hp. subst p.
    rewrite E in Hn. rewrite E, merge_at_app. rewrite app_length in *. cbn [length] in *. lia.
Qed.

Lemma canon_maximal_l tbl ts : best tbl 0 (canon tbl ts) = None.
Proof. apply canon_fuel_maximal. reflexivity. Qed.

(** * live tokens vs slots *)
Lemma toks_split : forall bs l x r, toks bs = l ++ x :: r ->
  exists b1 b2, bs = b1 ++ x :: b2 /\ toks b1 = l /\ toks b2 = r /\ x <> [].
Proof.
  induction bs as [|b bs IH]; intros l x r H; [destruct l; discriminate|].
  destruct b as [|c b].
  - change (toks ([] :: bs)) with (toks bs) in H. destruct (IH _ _ _ H) as [b1 [b2 [E [H1 [H2 H3]]]]].
    exists ([] :: b1), b2. cbn [app]. rewrite E. repeat split; assumption.
  - rewrite toks_cons_nonnil in H by discriminate. destruct l as [|y l].
    + cbn [app] in H. injection H as <- <-. exists [], bs. repeat split. discriminate.
    + cbn [app] in H. injection H as <- H. destruct (IH _ _ _ H) as [b1 [b2 [E [H1 [H2 H3]]]]].
      exists ((c :: b) :: b1), b2. cbn [app]. rewrite E. rewrite toks_cons_nonnil by discriminate.
      repeat split; try assumption. f_equal. exact H1.
Qed.

Lemma toks_nil_allnil : forall Z, toks Z = [] -> AllNil Z.
Proof.
  induction Z as [|b Z IH]; intro H; [constructor|]. destruct b as [|c b].
  - constructor; [reflexivity|apply IH; exact H].
  - rewrite toks_cons_nonnil in H by discriminate. discriminate.
Qed.

Lemma AllNil_nth Z : AllNil Z -> forall k, nth k Z [] = [].
Proof. induction 1 as [|b Z Hb _ IH]; intros [|k]; cbn [nth]; auto. Qed.

Lemma nth_decomp (L Z R : list (list N)) x y : AllNil Z ->
  nth (length L) (L ++ x :: Z ++ y :: R) [] = x /\
  nth (length L + S (length Z)) (L ++ x :: Z ++ y :: R) [] = y /\
  forall k, (length L < k < length L + S (length Z))%nat -> nth k (L ++ x :: Z ++ y :: R) [] = [].
Proof.
  intro HZ. split; [apply nth_middle|]. split.
  - rewrite app_nth2 by lia. replace (length L + S (length Z) - length L)%nat with (S (length Z)) by lia.
    cbn [nth]. apply nth_middle.
  - intros k Hk. rewrite app_nth2 by lia. destruct (k - length L)%nat as [|k'] eqn:Ek; [lia|].
    cbn [nth]. rewrite app_nth1 by lia. apply AllNil_nth. exact HZ.
Qed.

Definition adj (bs : list (list N)) (i j : nat) : Prop :=
  (i < j)%nat /\ (j < length bs)%nat /\ nth i bs [] <> [] /\ nth j bs [] <> [] /\
  forall k, (i < k < j)%nat -> nth k bs [] = [].

(** position of slot [i] among the live tokens *)
Definition posof (bs : list (list N)) (i : nat) : nat := length (toks (firstn i bs)).

Lemma pairs_of_toks bs l x y r : toks bs = l ++ x :: y :: r ->
  exists i j, adj bs i j /\ nth i bs [] = x /\ nth j bs [] = y /\ length l = posof bs i.
Proof.
  intro H. destruct (toks_split _ _ _ _ H) as [b1 [b2 [E1 [H1 [H2 Hx]]]]].
  change (y :: r) with ([] ++ y :: r) in H2.
  destruct (toks_split _ _ _ _ H2) as [c1 [c2 [E2 [H3 [H4 Hy]]]]].
  apply toks_nil_allnil in H3. subst b2. subst bs.
  destruct (nth_decomp b1 c1 c2 x y H3) as [N1 [N2 N3]].
  exists (length b1), (length b1 + S (length c1))%nat. repeat split; try assumption.
  - lia.
  - rewrite app_length. cbn [length]. rewrite app_length. cbn [length]. lia.
  - rewrite N1. exact Hx.
  - rewrite N2. exact Hy.
  - unfold posof. rewrite firstn_exact. rewrite H1. reflexivity.
Qed.

Lemma adj_toks bs i j : adj bs i j ->
  exists r, toks bs = toks (firstn i bs) ++ nth i bs [] :: nth j bs [] :: r.
Proof.
  intros [H1 [H2 [H3 [H4 H5]]]].
  destruct (decomp2 bs i j H1 H2 H5) as [L [Z [R [E [HL [HS HZ]]]]]].
  remember (nth i bs []) as X1 eqn:EX1. remember (nth j bs []) as X2 eqn:EX2. clear EX1 EX2.
  exists (toks R). rewrite E at 2. rewrite <- HL, firstn_exact. rewrite E.
  rewrite toks_app, (toks_cons_nonnil X1), toks_app, (toks_allnil _ HZ), (toks_cons_nonnil X2) by assumption.
  reflexivity.
Qed.

Lemma posof_mono bs : forall i i', (i <= i')%nat -> (posof bs i <= posof bs i')%nat.
Proof.
  unfold posof. induction bs as [|b bs IH]; intros i i' H; [rewrite !firstn_nil; lia|].
  destruct i as [|i]; [cbn [firstn toks filter length]; lia|].
  destruct i' as [|i']; [lia|]. cbn [firstn].
  specialize (IH i i' ltac:(lia)). unfold toks in *. cbn [filter]. destruct (nonnil b); cbn [length]; lia.
Qed.

(** * completeness of the heap *)
Definition centry (tbl : list (list N)) (bs : list (list N)) (i j : nat) (m : N) : entry :=
  E m i j (Some (id_of tbl (nth i bs []))) (Some (id_of tbl (nth j bs []))) (nth i bs [] ++ nth j bs []).

Definition Complete (tbl : list (list N)) (bs : list (list N)) (h : list entry) : Prop :=
  forall i j m, adj bs i j -> lookup tbl (nth i bs [] ++ nth j bs []) = Some m -> In (centry tbl bs i j m) h.

Lemma centry_fresh tbl bs i j m : adj bs i j -> fresh (map (idopt tbl) bs) (centry tbl bs i j m) = true.
Proof.
  intros [_ [_ [H3 [H4 _]]]]. unfold fresh, centry. cbn [e_fi e_si e_fid e_sid].
  rewrite !nth_ids, (idopt_some _ _ H3), (idopt_some _ _ H4).
  apply andb_true_iff. split; apply opt_eqb_eq; reflexivity.
Qed.

Lemma complete_stale tbl w bs ids e h' :
  Inv tbl w bs ids (e :: h') -> fresh ids e = false -> Complete tbl bs (e :: h') -> Complete tbl bs h'.
Proof.
  intros I F C i j m A Lk. destruct (C i j m A Lk) as [He|H]; [|exact H].
  exfalso. rewrite He, (inv_ids _ _ _ _ _ I), (centry_fresh tbl bs i j m A) in F. discriminate.
Qed.

Lemma complete_perm tbl bs h h2 : Permutation h h2 -> Complete tbl bs h -> Complete tbl bs h2.
Proof. intros P C i j m A Lk. eapply Permutation_in; [exact P|]. apply C; assumption. Qed.

Section Merge.
  Variables (tbl : list (list N)) (w : list N) (bs : list (list N)) (ids : list (option N)) (e : entry) (h' : list entry).
  Hypothesis HI : Inv tbl w bs ids (e :: h').
  Hypothesis Hfresh : fresh ids e = true.
  Hypothesis HC : Complete tbl bs (e :: h').

  Local Notation fi := (e_fi e).
  Local Notation si := (e_si e).
  Local Notation M := (e_mg e).
  Local Notation bs' := (bs_after bs e).
  Local Notation ids' := (ids_after ids e).

  Lemma complete_after :
    Complete tbl bs' (push_next tbl bs' ids' fi si M ++ push_prev tbl bs' ids' fi M ++ h').
  Proof.
    pose proof (Hok tbl w bs ids e h' HI) as OK.
    destruct (M_facts tbl w bs ids e h' HI Hfresh) as [TM [F [S [R1 R2]]]].
    pose proof (Tok_nonnil _ _ TM) as NM.
    pose proof (inv_after0 tbl w bs ids e h' HI Hfresh) as I0.
    pose proof (inv_ids _ _ _ _ _ I0) as EI.
    assert (Hz : forall k, (fi < k < si)%nat -> nth k bs [] = []).
    { destruct OK as [B1 [B2 [_ [_ [_ [_ [_ [_ [_ [_ Hz]]]]]]]]]]. exact Hz. }
    destruct (fresh_slots _ _ _ _ _ _ HI OK Hfresh) as [T1 [T2 _]].
    intros i j m [A1 [A2 [A3 [A4 A5]]]] Lk.
    assert (Nis : i <> si) by (intros ->; apply A3; exact S).
    assert (Njs : j <> si) by (intros ->; apply A4; exact S).
    destruct (Nat.eq_dec i fi) as [Ei|Ni].
    - (* the new right neighbour *)
      subst i. apply in_or_app. left.
      assert (Hj : (Datatypes.S si <= j)%nat).
      { destruct (Nat.lt_ge_cases j si) as [Lt|Ge]; [|lia].
        exfalso. apply A4. rewrite (bs_after_other bs e j) by lia. apply Hz. lia. }
      unfold push_next. destruct (find_next bs' (Datatypes.S si)) as [[q qb]|] eqn:P.
      + apply find_next_some in P. destruct P as [P0 [P1 [P2 [P3 P4]]]].
        assert (q = j).
        { destruct (Nat.lt_trichotomy q j) as [Lt|[Eq|Gt]]; [|exact Eq|].
          - exfalso. apply P3. rewrite <- P2. apply A5. lia.
          - exfalso. apply A4. apply P4. lia. }
        subst q. rewrite <- P2. rewrite F in Lk. rewrite Lk. left.
        unfold centry. rewrite EI, !nth_ids, F, (idopt_some _ _ NM), (idopt_some _ _ A4). reflexivity.
      + exfalso. apply A4. eapply find_next_none; [exact P|lia].
    - destruct (Nat.eq_dec j fi) as [Ej|Nj].
      + (* the new left neighbour *)
        subst j. apply in_or_app. right. apply in_or_app. left.
        unfold push_prev. destruct (find_prev bs' fi) as [[p pb]|] eqn:P.
        * apply find_prev_some in P. destruct P as [P1 [P2 [P3 P4]]].
          assert (p = i).
          { destruct (Nat.lt_trichotomy p i) as [Lt|[Eq|Gt]]; [|exact Eq|].
            - exfalso. apply A3. apply P4. lia.
            - exfalso. apply P3. rewrite <- P2. apply A5. lia. }
          subst p. rewrite <- P2. rewrite F in Lk. rewrite Lk. left.
          unfold centry. rewrite EI, !nth_ids, F, (idopt_some _ _ NM), (idopt_some _ _ A3). reflexivity.
        * exfalso. apply A3. eapply find_prev_none; [exact P|lia].
      + (* a pair that was there before *)
        apply in_or_app. right. apply in_or_app. right.
        rewrite (bs_after_other bs e i) in * by assumption.
        rewrite (bs_after_other bs e j) in * by assumption.
        rewrite bs_after_length in A2.
        assert (A : adj bs i j).
        { repeat split; try assumption. intros k Hk. pose proof (A5 k Hk) as Ek.
          destruct (Nat.eq_dec k fi) as [->|Nk1]; [exfalso; apply NM; rewrite <- F; exact Ek|].
          destruct (Nat.eq_dec k si) as [->|Nk2].
          - exfalso. destruct (Nat.lt_trichotomy fi i) as [Lt|[Eq|Gt]]; [|congruence|].
            + apply A3. apply Hz. lia.
            + apply NM. rewrite <- F. apply A5. lia.
          - rewrite (bs_after_other bs e k) in Ek by assumption. exact Ek. }
        destruct (HC i j m A Lk) as [He|Hin].
        * exfalso. apply Ni. rewrite He. reflexivity.
        * unfold centry in *. rewrite !(bs_after_other bs e) by assumption. exact Hin.
  Qed.

  (** a fresh pop is the reference step *)
  Hypothesis Hmin : forall x, In x h' -> keyle e x.

  Lemma fresh_is_best :
    best tbl 0 (toks bs) = Some (e_mid e, posof bs fi) /\ toks bs' = merge_at (posof bs fi) (toks bs).
  Proof.
    pose proof (Hok tbl w bs ids e h' HI) as OK.
    destruct (step_toks tbl w bs ids e h' HI Hfresh) as [L [R [EL [T1 [T2 Hm]]]]].
    assert (Lk : lookup tbl (nth fi bs [] ++ nth si bs []) = Some (e_mid e)).
    { rewrite <- Hm. destruct OK as [B1 [B2 [_ [_ [_ [_ [_ [Hl _]]]]]]]]. exact Hl. }
    assert (PL : posof bs fi = length (toks L)) by (unfold posof; rewrite EL; reflexivity).
    split.
    - destruct (best tbl 0 (toks bs)) as [[m2 p2]|] eqn:B.
      + destruct (best_sound _ _ _ _ _ B) as [l2 [x2 [y2 [r2 [E2 [Hp2 Lk2]]]]]]. cbn [Nat.add] in Hp2.
        pose proof (best_min _ _ _ _ _ B _ _ _ _ _ T1 Lk) as Min1. cbn [Nat.add] in Min1.
        destruct (pairs_of_toks _ _ _ _ _ E2) as [i [j [A [Ni [Nj Pi]]]]].
        rewrite <- Ni, <- Nj in Lk2.
        assert (K : keyle e (centry tbl bs i j m2)).
        { destruct (HC i j m2 A Lk2) as [<-|Hin]; [apply keyle_refl|apply Hmin; exact Hin]. }
        unfold keyle, centry in K. cbn [e_mid e_fi] in K.
        assert (Min2 : e_mid e < m2 \/ (e_mid e = m2 /\ (posof bs fi <= p2)%nat)).
        { destruct K as [K|[K1 K2]]; [left; exact K|right; split; [exact K1|]].
          rewrite Hp2, Pi. apply posof_mono. exact K2. }
        rewrite <- PL in Min1.
        assert (m2 = e_mid e) by lia. subst m2.
        assert (Hp : p2 = posof bs fi) by lia. rewrite Hp. reflexivity.
      + exfalso. pose proof (best_none _ _ _ B _ _ _ _ T1) as Hn. congruence.
    - rewrite T2, T1, PL, merge_at_app, Hm. reflexivity.
  Qed.
End Merge.

Lemma complete_empty tbl bs : Complete tbl bs [] -> best tbl 0 (toks bs) = None.
Proof.
  intro C. destruct (best tbl 0 (toks bs)) as [[m p]|] eqn:B; [|reflexivity].
  exfalso. destruct (best_sound _ _ _ _ _ B) as [l [x [y [r [E [_ Lk]]]]]].
  destruct (pairs_of_toks _ _ _ _ _ E) as [i [j [A [Ni [Nj _]]]]].
  rewrite <- Ni, <- Nj in Lk. exact (C i j m A Lk).
Qed.

(** * the simulation *)
Lemma loop_canonical tbl w : forall fuel bs ids h r,
  Inv tbl w bs ids h -> Complete tbl bs h -> merge_loop tbl fuel bs ids h = Some r ->
  toks (fst r) = canon tbl (toks bs).
Proof.
  induction fuel as [|f IH]; intros bs ids h r I C H; cbn [merge_loop] in H; [discriminate|].
  destruct (pop_max h) as [[e h']|] eqn:P.
  - apply pop_max_spec in P. destruct P as [Pm Pk].
    pose proof (Inv_perm _ _ _ _ _ _ Pm I) as I'.
    pose proof (complete_perm _ _ _ _ Pm C) as C'.
    destruct (fresh ids e) eqn:F.
    + destruct (fresh_is_best tbl w bs ids e h' I' F C' Pk) as [B T].
      rewrite (canon_step _ _ _ _ B), <- T.
      eapply IH; [| |exact H].
      * apply (inv_after tbl w bs ids e h' I' F).
      * apply (complete_after tbl w bs ids e h' I' F C').
    + eapply IH; [| |exact H].
      * destruct I' as [I1 I2 I3 I4]. constructor; try assumption. inversion I4; assumption.
      * eapply complete_stale; eassumption.
  - injection H as <-. apply pop_max_none in P. subst h. cbn [fst].
    symmetry. apply canon_none. apply complete_empty. exact C.
Qed.

(** the initial heap is complete *)
Lemma init_heap_in tbl : forall (w : list N) k i x y m,
  nth_error w i = Some x -> nth_error w (S i) = Some y -> lookup tbl [x; y] = Some m ->
  In (E m (k + i) (S (k + i)) (Some x) (Some y) [x; y]) (init_heap tbl k w).
Proof.
  induction w as [|x0 r IH]; intros k i x y m Hx Hy Lk; [destruct i; discriminate|].
  cbn [init_heap]. destruct r as [|y0 r']; [destruct i as [|[|i]]; discriminate|].
  destruct i as [|i].
  - cbn [nth_error] in Hx, Hy. injection Hx as ->. injection Hy as ->. rewrite Lk.
    left. rewrite Nat.add_0_r. reflexivity.
  - cbn [nth_error] in Hx. change (nth_error (x0 :: y0 :: r') (S (S i))) with (nth_error (y0 :: r') (S i)) in Hy.
    pose proof (IH (S k) i x y m Hx Hy Lk) as Hin.
    replace (S k + i)%nat with (k + S i)%nat in Hin by lia.
    destruct (lookup tbl [x0; y0]); [right; exact Hin|exact Hin].
Qed.

Lemma init_complete tbl (w : list N) : Complete tbl (map (fun b => [b]) w) (init_heap tbl 0 w).
Proof.
  intros i j m [A1 [A2 [A3 [A4 A5]]]] Lk. rewrite map_length in A2.
  assert (j = S i).
  { destruct (Nat.eq_dec j (S i)) as [|Nj]; [assumption|]. exfalso.
    assert (Hk : (i < S i < j)%nat) by lia. apply A5 in Hk.
    rewrite nth_singletons in Hk by lia. discriminate. }
  subst j. unfold centry. rewrite !nth_singletons in * by lia.
  cbn [id_of app] in *.
  apply (init_heap_in tbl w 0 i); try exact Lk; apply nth_error_nth'; lia.
Qed.

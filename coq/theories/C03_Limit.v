(** C03 with a vocabulary limit: the third, optional field of the input says how many merges of the table the
    tokenizer keeps ([BPETokenizer::new] with [max_vocab_size]: [retain (id < limit)] = [firstn], C02_Props.retain_firstn);
    the canonical reference is then the one of the EFFECTIVE table.  input = (tbl text) | (tbl text (keep)).
    The merge file on disk is still the full table, so the file clause of [agree] is unchanged. *)
From TU Require Import Base BPE_Model C03_Model MsgPack_Model C02_File C03_File.
From Coq Require Import ZArith List.
Import ListNotations.

Definition keep_of (v : val) : option nat :=
  match v_nth 2 v with L [I k] => Some (Z.to_nat k) | _ => None end.

Definition eff_input (v : val) : val :=
  match keep_of v with
  | Some k => L [table_val (firstn k (v_table (v_nth 0 v))); v_nth 1 v]
  | None => v
  end.

Definition run_C03l (v : val) : val := run_C03 (eff_input v).
Definition check_C03l (v out : val) : bool := check_C03f (eff_input v) out.
Definition agree_C03l (v m i : val) : bool := agree_C03f v m i.

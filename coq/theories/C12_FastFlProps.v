(** C12 fast model — pinned statements about what C12_Extract.v extracts ([run_R], [check_R], [agree_R]):
    for every input they are the float-level [run_C12F] / [check_C12F] of C12_Float.v, and the correspondence
    relation is the old one (small inputs) resp. bit-for-bit equality with the float model (big inputs).
    The statements mention Flocq's [Bdiv] / [binary_normalize], whose definitions carry proofs over the real
    numbers: hence the four standard-library axioms of C12_FloatProps.v (allow-listed for this file). *)
From TU Require Import Base C12_Model C12_UAX29 C12_Float C12_Fast C12_FastRun.

Theorem run_R_is_run_C12F : forall v, run_R v = run_C12F v.
Proof. exact run_R_eq. Qed.
Print Assumptions run_R_is_run_C12F.

Theorem check_R_is_check_C12F : forall v out, check_R v out = check_C12F v out.
Proof. exact check_R_eq. Qed.
Print Assumptions check_R_is_check_C12F.

Theorem agree_R_small_inputs : forall v out, big v = false ->
  agree_R v (run_R v) out = agree_C12F v (run_C12F v) out && uax29_agree v.
Proof. exact agree_R_small. Qed.
Print Assumptions agree_R_small_inputs.

Theorem agree_R_big_inputs : forall v out, big v = true ->
  agree_R v (run_R v) out = val_eqb (run_C12F v) out && uax29_agree v.
Proof. exact agree_R_big. Qed.
Print Assumptions agree_R_big_inputs.

(** premises met: a small input (3 + 4 characters) and a big one (2 x 25 characters) *)
Definition rep25 (c : Z) : val := L (repeat (L [I c]) 25).
Example small_input_example :
  big (L [I 0; I 1; I 1; I 1; L [L [I 97]; L [I 32]; L [I 98]]; L [L [I 98]; L [I 97]; L [I 32]; L [I 32]]; I 2; I 2])%Z = false.
Proof. vm_compute. reflexivity. Qed.
Example big_input_example :
  let v := (L [I 0; I 1; I 0; I 1; rep25 97; rep25 98; I 1; I 1])%Z in
  big v = true /\ val_eqb (run_R v) (run_C12F v) = true /\ check_R v (run_R v) = true.
Proof. vm_compute. repeat split. Qed.

(** C17 proofs: the binary32 model of [get_weights] (C17_Float.v). *)
From Coq Require Import ZArith List Bool QArith Qreals Reals Lia Lra.
From Flocq Require Import Core IEEE754.BinarySingleNaN Relative.
From TU Require Import Base C01_Model C17_Model C17_Proofs C17_Float C12_FloatBase.
Import ListNotations.
Close Scope Q_scope.
Open Scope R_scope.

Notation rnd32 := (rnd prec32 emax32).
Notation fmt32 := (fmt prec32 emax32).
Notation Fin32 := (Fin prec32 emax32).
Notation ap32 := (ap prec32).
Notation lo32 := (lo prec32).
Notation hi32 := (hi prec32).
Definition u24 : R := bpow radix2 (-24).
Definition P24 : Z := (2 ^ 24)%Z.

(** * what the theorems speak about: nesting depth, largest product of group sizes along a path, size bound *)
Fixpoint depth (g : tg) : nat :=
  match g with Nested l => S (fold_right Nat.max 0%nat (map depth l)) | _ => 1%nat end.
Fixpoint pmax (g : tg) : Z :=
  match g with
  | Empty _ => 1%Z
  | Full n => Z.max 1 (Z.of_nat n)
  | Nested l => (Z.max 1 (Z.of_nat (length l)) * fold_right Z.max 1%Z (map pmax l))%Z
  end.
(** every group size is at most 2^24, so that [usize as f32] is exact *)
Fixpoint sizes_okb (g : tg) : bool :=
  match g with
  | Empty _ => true
  | Full n => (Z.of_nat n <=? P24)%Z
  | Nested l => (Z.of_nat (length l) <=? P24)%Z && forallb sizes_okb l
  end.
(** no [Empty] part that contributes a token *)
Fixpoint no_emptyb (g : tg) : bool :=
  match g with
  | Empty n => Nat.eqb n 0
  | Full _ => true
  | Nested l => forallb no_emptyb l
  end.
(** every group size on every path is a power of two *)
Definition pow2b (n : nat) : bool := Nat.eqb n (2 ^ Nat.log2 n).
Fixpoint all_pow2b (g : tg) : bool :=
  match g with
  | Empty _ => true
  | Full n => pow2b n
  | Nested l => pow2b (length l) && forallb all_pow2b l
  end.
Definition sumR (l : list R) : R := fold_right Rplus 0 l.

(** * constants *)
Lemma u24_uu : uu prec32 = u24. Proof. reflexivity. Qed.
Lemma u24_pos : 0 < u24. Proof. apply bpow_gt_0. Qed.
Lemma fmt_u24 : fmt32 u24.
Proof. apply (fmt_bpow prec32 emax32 Hprec32). unfold SpecFloat.emin, prec32, emax32. lia. Qed.
Lemma IZR_P24 : IZR P24 = bpow radix2 24. Proof. unfold P24. apply IZR_2p. lia. Qed.
Lemma P24_u24 : IZR P24 * u24 = 1.
Proof. rewrite IZR_P24. unfold u24. rewrite <- bpow_plus. reflexivity. Qed.
Lemma fmt32_1 : fmt32 1. Proof. apply (fmt_1 prec32 emax32 Hprec32 Hmax32). Qed.
Lemma NRM32_val : NRM prec32 emax32 = bpow radix2 (-126). Proof. reflexivity. Qed.
Lemma one_lt_TOP32 : 1 < TOP emax32. Proof. apply (one_lt_TOP prec32 emax32 Hprec32 Hmax32). Qed.

Lemma B2R_one32 : B2R f32_one = 1.
Proof. unfold f32_one, of_Z32. cbn -[bpow]. unfold B2R. cbn -[bpow]. unfold F2R. cbn. lra. Qed.
Lemma Fin_one32 : Fin32 f32_one. Proof. reflexivity. Qed.
Lemma Fin_zero32 : Fin32 f32_zero. Proof. reflexivity. Qed.
Lemma B2R_zero32 : B2R f32_zero = 0. Proof. reflexivity. Qed.

(** * [1.0 / n as f32] for 1 <= n <= 2^24 *)
Lemma inv32_spec : forall n, (1 <= Z.of_nat n <= P24)%Z ->
  Fin32 (inv32 n) /\ B2R (inv32 n) = rnd32 (/ IZR (Z.of_nat n)) /\
  u24 <= B2R (inv32 n) <= 1 /\ ap32 1 (B2R (inv32 n)) (/ IZR (Z.of_nat n)).
Proof.
  intros n Hn. unfold P24 in Hn.
  destruct (gofZ_spec prec32 emax32 Hprec32 Hmax32 (Z.of_nat n) ltac:(unfold prec32; lia)) as [Rn Fn].
  change (gofZ prec32 emax32 Hprec32 Hmax32 (Z.of_nat n)) with (of_nat32 n) in *.
  set (N := IZR (Z.of_nat n)) in *.
  assert (N1 : 1 <= N) by (apply (IZR_le 1); lia).
  assert (N24 : N <= IZR P24) by (apply IZR_le; unfold P24; lia).
  pose proof P24_u24 as PU. pose proof u24_pos as U.
  assert (I0 : 0 < / N) by (apply Rinv_0_lt_compat; lra).
  assert (I1 : / N <= 1) by (rewrite <- Rinv_1; apply Rinv_le_contravar; lra).
  assert (Iu : u24 <= / N).
  { apply Rmult_le_reg_r with N; [lra|]. rewrite Rinv_l by lra.
    apply Rle_trans with (u24 * IZR P24); [apply Rmult_le_compat_l; lra|lra]. }
  assert (E1 : B2R f32_one / B2R (of_nat32 n) = / N) by (rewrite B2R_one32, Rn; unfold Rdiv; ring).
  assert (OV : Rabs (rnd32 (B2R f32_one / B2R (of_nat32 n))) < TOP emax32).
  { rewrite E1. apply (rnd_lt_TOP prec32 emax32 Hprec32) with 1; [apply fmt32_1|apply one_lt_TOP32|].
    rewrite Rabs_pos_eq; lra. }
  destruct (gdiv_spec prec32 emax32 Hprec32 Hmax32 f32_one (of_nat32 n) Fin_one32 ltac:(rewrite Rn; lra) OV) as [E F].
  rewrite E1 in E. change (gdiv prec32 emax32 Hprec32 Hmax32 f32_one (of_nat32 n)) with (inv32 n) in *.
  split; [exact F|]. split; [exact E|]. rewrite E. split; [split|].
  - apply (rnd_ge_fmt prec32 emax32 Hprec32); [apply fmt_u24|exact Iu].
  - apply (rnd_le_fmt prec32 emax32 Hprec32); [apply fmt32_1|exact I1].
  - apply (ap_rnd prec32 emax32 Hprec32). rewrite NRM32_val.
    apply Rle_trans with u24; [unfold u24; apply bpow_le; lia|exact Iu].
Qed.

(** * one multiplication [w * weight] *)
Lemma fmul32_step : forall (x W : f32) (k : nat) (qx qw : R),
  Fin32 x -> Fin32 W -> 0 <= B2R x <= 1 -> 0 <= B2R W <= 1 -> 0 <= qx -> 0 <= qw ->
  ap32 k (B2R x) qx -> ap32 1 (B2R W) qw ->
  (qx = 0 \/ NRM prec32 emax32 <= qx * qw * lo32 ^ (k + 1)) ->
  Fin32 (fmul32 x W) /\ 0 <= B2R (fmul32 x W) <= 1 /\
  B2R (fmul32 x W) = rnd32 (B2R x * B2R W) /\ ap32 (k + 2) (B2R (fmul32 x W)) (qx * qw).
Proof.
  intros x W k qx qw Fx FW [X0 X1] [W0 W1] Qx Qw Ax Aw H.
  set (p := B2R x * B2R W).
  assert (P0 : 0 <= p) by (apply Rmult_le_pos; assumption).
  assert (P1 : p <= 1) by (unfold p; nra).
  assert (OV : Rabs (rnd32 p) < TOP emax32).
  { apply (rnd_lt_TOP prec32 emax32 Hprec32) with 1; [apply fmt32_1|apply one_lt_TOP32|].
    rewrite Rabs_pos_eq; assumption. }
  destruct (gmul_spec prec32 emax32 Hprec32 Hmax32 x W Fx FW OV) as [E F].
  change (gmul prec32 emax32 Hprec32 Hmax32 x W) with (fmul32 x W) in *. fold p in E.
  split; [exact F|]. rewrite E. split; [split|split; [reflexivity|]].
  - apply (rnd_nonneg prec32 emax32 Hprec32). exact P0.
  - apply (rnd_le_fmt prec32 emax32 Hprec32); [apply fmt32_1|exact P1].
  - destruct H as [Z|N].
    + subst qx. destruct Ax as [L U]. rewrite !Rmult_0_l in L, U.
      assert (B2R x = 0) by lra. unfold p. replace (B2R x) with 0. rewrite !Rmult_0_l.
      rewrite (rnd_0 prec32 emax32). unfold ap. rewrite !Rmult_0_l. lra.
    + pose proof (ap_mul prec32 Hprec32 k 1 _ _ _ _ Qx Qw Ax Aw) as Ap. fold p in Ap.
      assert (NP : NRM prec32 emax32 <= p) by (destruct Ap as [L _]; lra).
      pose proof (ap_rnd prec32 emax32 Hprec32 p NP) as Ar.
      pose proof (ap_trans prec32 Hprec32 1 (k + 1) _ _ _ Ar Ap) as T.
      replace (k + 2)%nat with (1 + (k + 1))%nat by lia. exact T.
Qed.

(** no underflow: a value at least 2^-100 stays normal after up to 2^23 roundings *)
Lemma INR_IZR : forall k, INR k = IZR (Z.of_nat k). Proof. intros. apply INR_IZR_INZ. Qed.
Lemma lo_half : forall k, (Z.of_nat k <= 2 ^ 23)%Z -> / 2 <= lo32 ^ k.
Proof.
  intros k H. eapply Rle_trans; [|apply (lok_bernoulli prec32 Hprec32)]. rewrite u24_uu.
  assert (INR k <= IZR (2 ^ 23)).
  { rewrite INR_IZR. apply IZR_le. exact H. }
  assert (E : IZR (2 ^ 23) * u24 = / 2).
  { rewrite (IZR_2p 23) by lia. unfold u24. rewrite <- bpow_plus. reflexivity. }
  pose proof u24_pos. assert (INR k * u24 <= IZR (2 ^ 23) * u24) by (apply Rmult_le_compat_r; lra). lra.
Qed.
Lemma no_underflow : forall q P k, (1 <= P <= 2 ^ 100)%Z -> / IZR P <= q -> (Z.of_nat k <= 2 ^ 23)%Z ->
  NRM prec32 emax32 <= q * lo32 ^ k.
Proof.
  intros q P k HP Hq Hk. pose proof (lo_half k Hk) as L. rewrite NRM32_val.
  assert (P1 : 1 <= IZR P) by (apply (IZR_le 1); lia).
  assert (P100 : IZR P <= bpow radix2 100) by (rewrite <- (IZR_2p 100) by lia; apply IZR_le; lia).
  assert (B : bpow radix2 (-100) <= / IZR P).
  { change (-100)%Z with (- (100))%Z. rewrite bpow_opp. apply Rinv_le_contravar; lra. }
  assert (Q0 : bpow radix2 (-100) <= q) by lra.
  replace (bpow radix2 (-126)) with (bpow radix2 (-100) * bpow radix2 (-26)) by (rewrite <- bpow_plus; reflexivity).
  assert (B26 : bpow radix2 (-26) <= / 2) by (change (/ 2) with (bpow radix2 (-1)); apply bpow_le; lia).
  pose proof (bpow_gt_0 radix2 (-100)). pose proof (bpow_gt_0 radix2 (-26)).
  apply Rmult_le_compat; lra.
Qed.

(** * lists *)
Lemma Forall2_repeat {A B} (R : A -> B -> Prop) a b n : R a b -> Forall2 R (repeat a n) (repeat b n).
Proof. intros H. induction n; cbn; constructor; assumption. Qed.
Lemma Forall2_map2 {A B A' B'} (R : A -> B -> Prop) (R' : A' -> B' -> Prop) (f : A -> A') (h : B -> B') l1 l2 :
  (forall a b, R a b -> R' (f a) (h b)) -> Forall2 R l1 l2 -> Forall2 R' (map f l1) (map h l2).
Proof. intros H F. induction F; cbn; constructor; auto. Qed.
Lemma Forall2_impl {A B} (R R' : A -> B -> Prop) l1 l2 :
  (forall a b, R a b -> R' a b) -> Forall2 R l1 l2 -> Forall2 R' l1 l2.
Proof. intros H F. induction F; constructor; auto. Qed.

(** * lifting a per-weight invariant through the recursion of [get_weights] (Mean) *)
Section Lift.
Variable C : tg -> Prop.
Variable I : tg -> f32 -> Q -> Prop.
Hypothesis C_sub : forall l x, C (Nested l) -> In x l -> C x.
Hypothesis I_empty : forall n, I (Empty n) f32_zero 0%Q.
Hypothesis I_full : forall n, (0 < n)%nat -> C (Full n) -> I (Full n) (inv32 n) (1 / qnat n)%Q.
Hypothesis I_nested : forall l x w q, C (Nested l) -> In x l -> I x w q ->
  I (Nested l) (fmul32 w (inv32 (length l))) (q * (1 / qnat (length l)))%Q.

Lemma weights_lift : forall g, C g -> Forall2 (I g) (weights_fl true g) (weights true g).
Proof.
  fix IH 1. intros [n|n|l] HC; cbn [weights_fl weights].
  - apply Forall2_repeat. apply I_empty.
  - destruct n as [|n]; [constructor|]. apply Forall2_repeat. apply I_full; [lia|exact HC].
  - assert (S : forall P : tg -> Prop, (forall x, In x l -> P x /\ C x) ->
                Forall2 (fun w q => exists x, P x /\ I x w q) (flat_map (weights_fl true) l) (flat_map (weights true) l)).
    { clear HC. induction l as [|a l IHl]; intros P HP; cbn [flat_map]; [constructor|].
      apply Forall2_app.
      - destruct (HP a (or_introl eq_refl)) as [Pa Ca].
        eapply Forall2_impl; [|apply (IH a Ca)]. intros w q Hi. exists a. split; assumption.
      - apply IHl. intros x Hx. apply HP. right. exact Hx. }
    specialize (S (fun x => In x l) (fun x Hx => conj Hx (C_sub l x HC Hx))).
    eapply Forall2_map2; [|exact S]. intros w q (x & Hx & Hi). cbv beta. apply (I_nested l x); assumption.
Qed.
End Lift.

(** * facts about depth / pmax / sizes of the parts *)
Lemma fold_max_ge : forall (l : list nat) x, In x l -> (x <= fold_right Nat.max 0%nat l)%nat.
Proof. induction l as [|a l IH]; intros x H; [destruct H|]. destruct H as [->|H]; cbn; [lia|]. specialize (IH x H). lia. Qed.
Lemma fold_zmax_ge : forall (l : list Z) x, In x l -> (x <= fold_right Z.max 1%Z l)%Z.
Proof. induction l as [|a l IH]; intros x H; [destruct H|]. destruct H as [->|H]; cbn [fold_right]; [lia|]. specialize (IH x H). lia. Qed.
Lemma fold_zmax_ge1 : forall l : list Z, (1 <= fold_right Z.max 1%Z l)%Z.
Proof. induction l; cbn [fold_right]; lia. Qed.
Lemma depth_sub : forall l x, In x l -> (depth x <= fold_right Nat.max 0%nat (map depth l))%nat.
Proof. intros l x H. apply fold_max_ge. apply in_map. exact H. Qed.
Lemma pmax_sub : forall l x, In x l -> (pmax x <= fold_right Z.max 1%Z (map pmax l))%Z.
Proof. intros l x H. apply fold_zmax_ge. apply in_map. exact H. Qed.
Lemma pmax_ge1 : forall g, (1 <= pmax g)%Z.
Proof.
  intros [n|n|l]; cbn [pmax]; try lia. pose proof (fold_zmax_ge1 (map pmax l)). nia.
Qed.
Lemma depth_ge1 : forall g, (1 <= depth g)%nat.
Proof. intros [n|n|l]; cbn [depth]; lia. Qed.

(** the side condition of the closeness theorems *)
Definition Cok (g : tg) : Prop :=
  sizes_okb g = true /\ (pmax g <= 2 ^ 100)%Z /\ (Z.of_nat (depth g) <= 2 ^ 22)%Z.

Lemma Cok_sub : forall l x, Cok (Nested l) -> In x l -> Cok x.
Proof.
  intros l x (S & P & D) Hx. cbn [sizes_okb pmax depth] in *.
  apply andb_true_iff in S as [_ S]. rewrite forallb_forall in S.
  pose proof (pmax_sub l x Hx). pose proof (depth_sub l x Hx). pose proof (pmax_ge1 x).
  pose proof (fold_zmax_ge1 (map pmax l)).
  repeat split; [apply S; exact Hx| |lia].
  assert (fold_right Z.max 1%Z (map pmax l) <= Z.max 1 (Z.of_nat (length l)) * fold_right Z.max 1%Z (map pmax l))%Z by nia.
  lia.
Qed.

(** the invariant: finite, in [0,1], within (1 +- u)^k of the rational weight, which is 0 or at least 1/P *)
Definition Inv (k : nat) (P : Z) (w : f32) (q : Q) : Prop :=
  Fin32 w /\ 0 <= B2R w <= 1 /\ 0 <= Q2R q /\ ap32 k (B2R w) (Q2R q) /\ (Q2R q = 0 \/ / IZR P <= Q2R q).
Definition InvG (g : tg) : f32 -> Q -> Prop := Inv (2 * depth g - 1) (pmax g).

Lemma Inv_intro : forall k P w q, Fin32 w -> 0 <= B2R w <= 1 -> 0 <= Q2R q -> ap32 k (B2R w) (Q2R q) ->
  (Q2R q = 0 \/ / IZR P <= Q2R q) -> Inv k P w q.
Proof. intros. unfold Inv. auto. Qed.

Lemma Q2R_0 : Q2R 0 = 0. Proof. unfold Q2R. cbn. lra. Qed.
Lemma Q2R_inv_nat : forall n, (0 < n)%nat -> Q2R (1 / qnat n) = / IZR (Z.of_nat n).
Proof.
  intros n H. unfold Qdiv. rewrite Q2R_mult, Q2R_inv.
  - unfold qnat, inject_Z, Q2R at 1 2. cbn [Qnum Qden]. field. apply not_0_IZR. lia.
  - apply qnat_nz. exact H.
Qed.

Lemma Inv_weaken : forall k k' P P' w q, (k <= k')%nat -> (1 <= P <= P')%Z -> Inv k P w q -> Inv k' P' w q.
Proof.
  intros k k' P P' w q Hk HP (F & B & Q0 & A & L). apply Inv_intro; try assumption.
  - apply (ap_weaken prec32 Hprec32 k k'); assumption.
  - destruct L as [Z|L]; [left; exact Z|right].
    eapply Rle_trans; [|exact L]. apply Rinv_le_contravar; [apply (IZR_lt 0); lia|apply IZR_le; lia].
Qed.

Lemma weights_inv : forall g, Cok g -> Forall2 (InvG g) (weights_fl true g) (weights true g).
Proof.
  apply (weights_lift Cok InvG Cok_sub).
  - (* Empty *)
    intros n. unfold InvG. apply Inv_intro; rewrite ?Q2R_0, ?B2R_zero32; try lra; try apply Fin_zero32;
      try (unfold ap; lra); try (left; reflexivity).
  - (* Full *)
    intros n Hn (S & _ & _). cbn [sizes_okb] in S. apply Z.leb_le in S.
    destruct (inv32_spec n ltac:(lia)) as (F & _ & [B0 B1] & A).
    unfold InvG. cbn [depth pmax]. 
    assert (N1 : 1 <= IZR (Z.of_nat n)) by (apply (IZR_le 1); lia).
    assert (I0 : 0 < / IZR (Z.of_nat n)) by (apply Rinv_0_lt_compat; lra).
    pose proof u24_pos. apply Inv_intro; rewrite ?(Q2R_inv_nat n Hn); try assumption; try lra.
    right. replace (Z.max 1 (Z.of_nat n)) with (Z.of_nat n) by lia. lra.
  - (* Nested *)
    intros l x w q HC Hx (F & [B0 B1] & Q0 & A & L). pose proof HC as (S & P & D).
    cbn [sizes_okb pmax depth] in S, P, D. apply andb_true_iff in S as [S _]. apply Z.leb_le in S.
    assert (Ll : (0 < length l)%nat) by (destruct l; [destruct Hx|cbn; lia]).
    destruct (inv32_spec (length l) ltac:(lia)) as (FW & _ & [W0 W1] & AW).
    pose proof u24_pos as U.
    set (dm := fold_right Nat.max 0%nat (map depth l)) in *.
    set (pm := fold_right Z.max 1%Z (map pmax l)) in *.
    pose proof (depth_sub l x Hx) as Dx. fold dm in Dx. pose proof (depth_ge1 x) as D1.
    pose proof (pmax_sub l x Hx) as Px. fold pm in Px. pose proof (pmax_ge1 x) as P1.
    assert (NL : 1 <= IZR (Z.of_nat (length l))) by (apply (IZR_le 1); lia).
    assert (IL : 0 < / IZR (Z.of_nat (length l))) by (apply Rinv_0_lt_compat; lra).
    set (k := (2 * depth x - 1)%nat) in *.
    assert (Hk : (Z.of_nat (k + 1) <= 2 ^ 23)%Z) by (unfold k; lia).
    assert (PL : (1 <= pmax x * Z.of_nat (length l) <= 2 ^ 100)%Z).
    { split; [nia|]. eapply Z.le_trans; [|exact P].
      replace (Z.max 1 (Z.of_nat (length l))) with (Z.of_nat (length l)) by lia.
      rewrite Z.mul_comm. apply Z.mul_le_mono_nonneg_l; lia. }
    assert (NU : Q2R q = 0 \/ NRM prec32 emax32 <= Q2R q * / IZR (Z.of_nat (length l)) * lo32 ^ (k + 1)).
    { destruct L as [Z|L]; [left; exact Z|right].
      apply (no_underflow _ (pmax x * Z.of_nat (length l))); [exact PL| |exact Hk].
      rewrite mult_IZR. rewrite Rinv_mult.
      apply Rmult_le_compat_r; [lra|exact L]. }
    destruct (fmul32_step w (inv32 (length l)) k (Q2R q) (/ IZR (Z.of_nat (length l)))
                F FW (conj B0 B1) ltac:(lra) Q0 ltac:(lra) A AW NU) as (F' & B' & _ & A').
    unfold InvG. apply (Inv_weaken (k + 2) _ (pmax x * Z.of_nat (length l)) _).
    + cbn [depth]. fold dm. unfold k. lia.
    + split; [lia|]. cbn [pmax]. fold pm.
      replace (Z.max 1 (Z.of_nat (length l))) with (Z.of_nat (length l)) by lia.
      rewrite Z.mul_comm. apply Z.mul_le_mono_nonneg_l; lia.
    + apply Inv_intro; rewrite ?Q2R_mult, ?(Q2R_inv_nat _ Ll); try assumption.
      * apply Rmult_le_pos; lra.
      * destruct L as [Z|L]; [left; rewrite Z; ring|right].
        rewrite mult_IZR, Rinv_mult. apply Rmult_le_compat_r; [lra|exact L].
Qed.

(** * one weight per token *)
Lemma weights_fl_length : forall mean g, length (weights_fl mean g) = tg_len g.
Proof.
  intros mean. fix IH 1. intros [n|n|l]; cbn [weights_fl tg_len].
  - apply repeat_length.
  - apply repeat_length.
  - rewrite map_length. induction l as [|x l IHl]; cbn [flat_map map]; rewrite ?list_sum_cons, ?list_sum_nil; [reflexivity|].
    rewrite app_length, IH, IHl. reflexivity.
Qed.

(** * Sum aggregation: every factor is the literal 1.0 and x * 1.0 = x *)
Lemma fmul_one_one : fmul32 f32_one f32_one = f32_one.
Proof. apply B2SF_inj. vm_compute. reflexivity. Qed.
Lemma fmul_zero_one : fmul32 f32_zero f32_one = f32_zero.
Proof. apply B2SF_inj. vm_compute. reflexivity. Qed.

Lemma weights_fl_sum_01 : forall g, Forall (fun w => w = f32_one \/ w = f32_zero) (weights_fl false g).
Proof.
  fix IH 1. intros [n|n|l]; cbn [weights_fl].
  - apply Forall_forall. intros w H. apply repeat_spec in H. right. exact H.
  - apply Forall_forall. intros w H. apply repeat_spec in H. left. exact H.
  - assert (S : Forall (fun w => w = f32_one \/ w = f32_zero) (flat_map (weights_fl false) l)).
    { induction l as [|x l IHl]; cbn [flat_map]; [constructor|]. apply Forall_app. split; [apply IH|exact IHl]. }
    apply Forall_forall. intros w H. apply in_map_iff in H as (x & <- & Hx).
    rewrite Forall_forall in S. destruct (S x Hx) as [-> | ->];
      [left; apply fmul_one_one|right; apply fmul_zero_one].
Qed.

Lemma weights_fl_sum_ones_l : forall g, no_emptyb g = true -> weights_fl false g = repeat f32_one (tg_len g).
Proof.
  fix IH 1. intros [n|n|l]; cbn [weights_fl no_emptyb tg_len]; intros H.
  - apply Nat.eqb_eq in H. subst n. reflexivity.
  - reflexivity.
  - assert (S : flat_map (weights_fl false) l = repeat f32_one (list_sum (map tg_len l))).
    { induction l as [|x l IHl]; cbn [flat_map map]; rewrite ?list_sum_cons, ?list_sum_nil; [reflexivity|].
      cbn [forallb] in H. apply andb_true_iff in H as [Hx Hl].
      rewrite (IH x Hx), (IHl Hl), repeat_app. reflexivity. }
    rewrite S. generalize (list_sum (map tg_len l)). intros m.
    induction m as [|m IHm]; cbn [repeat map]; [reflexivity|]. rewrite fmul_one_one, IHm. reflexivity.
Qed.

(** the matrix: a Sum item keeps 1.0 on every token (its groups' weights are never computed) *)
Lemma item_vals_fl_sum : forall groups, item_vals_fl false groups = repeat f32_one (list_sum (map tg_len groups)).
Proof.
  unfold item_vals_fl. induction groups as [|g r IH]; cbn [flat_map map]; rewrite ?list_sum_cons, ?list_sum_nil; [reflexivity|].
  rewrite IH, repeat_app. reflexivity.
Qed.
Lemma item_vals_fl_mean : forall groups, item_vals_fl true groups = flat_map (weights_fl true) groups.
Proof. reflexivity. Qed.

(** * Mean aggregation: range *)
Lemma Forall2_Forall_l {A B} (R : A -> B -> Prop) (P : A -> Prop) l1 l2 :
  (forall a b, R a b -> P a) -> Forall2 R l1 l2 -> Forall P l1.
Proof. intros H F. induction F; constructor; eauto. Qed.
Lemma Forall2_Forall_lr {A B} (R : A -> B -> Prop) (Pb : B -> Prop) (P : A -> Prop) l1 l2 :
  (forall a b, R a b -> Pb b -> P a) -> Forall2 R l1 l2 -> Forall Pb l2 -> Forall P l1.
Proof.
  intros H F. induction F; intros G; constructor; inversion G; subst; eauto.
Qed.

Lemma qnat_pos : forall n, (0 < n)%nat -> (0 < qnat n)%Q.
Proof. intros n H. unfold qnat, Qlt, inject_Z. cbn. lia. Qed.
Lemma inv_qnat_pos : forall n, (0 < n)%nat -> (0 < 1 / qnat n)%Q.
Proof.
  intros n H. unfold Qdiv. apply Qmult_lt_0_compat; [reflexivity|]. apply Qinv_lt_0_compat. apply qnat_pos. exact H.
Qed.

Lemma weights_pos : forall g, positiveb g = true -> Forall (fun q => (0 < q)%Q) (weights true g).
Proof.
  fix IH 1. intros [n|n|l]; cbn [positiveb weights]; [discriminate| |]; intros H.
  - apply Nat.ltb_lt in H. apply Forall_forall. intros q Hq. apply repeat_spec in Hq. subst q. apply inv_qnat_pos. exact H.
  - apply andb_true_iff in H as [Hn Hl]. apply negb_true_iff in Hn. apply Nat.eqb_neq in Hn.
    assert (S : Forall (fun q => (0 < q)%Q) (flat_map (weights true) l)).
    { clear Hn. induction l as [|x l IHl]; cbn [flat_map]; [constructor|].
      cbn [forallb] in Hl. apply andb_true_iff in Hl as [Hx Hl].
      apply Forall_app. split; [apply IH; exact Hx|apply IHl; exact Hl]. }
    apply Forall_forall. intros q Hq. apply in_map_iff in Hq as (x & <- & Hx).
    rewrite Forall_forall in S. apply Qmult_lt_0_compat; [apply S; exact Hx|apply inv_qnat_pos; lia].
Qed.

Lemma weights_fl_range_l : forall g, Cok g ->
  Forall (fun w => is_finite w = true /\ 0 <= B2R w <= 1) (weights_fl true g) /\
  (positiveb g = true -> Forall (fun w => 0 < B2R w) (weights_fl true g)).
Proof.
  intros g HC. pose proof (weights_inv g HC) as W. split.
  - eapply Forall2_Forall_l; [|exact W]. intros w q (F & B & _). split; assumption.
  - intros Hp. eapply Forall2_Forall_lr; [|exact W|apply weights_pos; exact Hp].
    intros w q (_ & _ & _ & [L _] & _) Hq. cbv beta in Hq.
    apply Qlt_Rlt in Hq. rewrite Q2R_0 in Hq.
    pose proof (lok_pos prec32 Hprec32 (2 * depth g - 1)) as LP.
    eapply Rlt_le_trans; [|exact L]. apply Rmult_lt_0_compat; assumption.
Qed.

(** * Mean aggregation: closeness to the rational weight *)
Lemma ap_linear : forall k x q, (Z.of_nat k <= 4095)%Z -> 0 <= q -> ap32 k x q ->
  Rabs (x - q) <= (INR k + 1) * u24 * q.
Proof.
  intros k x q Hk Q0 [L U]. pose proof u24_pos as U0. pose proof P24_u24 as PU.
  set (K := INR k). assert (K0 : 0 <= K) by apply pos_INR.
  assert (K4 : K <= 4096) by (unfold K; rewrite INR_IZR; apply (IZR_le _ 4096); lia).
  assert (P24v : IZR P24 = 16777216) by (unfold P24; change (2 ^ 24)%Z with 16777216%Z; reflexivity).
  assert (KK : K * K <= IZR P24) by (rewrite P24v; nra).
  assert (KU : K * u24 <= 1).
  { assert (K * u24 <= IZR P24 * u24) by (apply Rmult_le_compat_r; [lra|rewrite P24v; lra]). lra. }
  assert (KKU : K * u24 * (K * u24) <= u24).
  { replace (K * u24 * (K * u24)) with (K * K * u24 * u24) by ring.
    assert (K * K * u24 <= IZR P24 * u24) by (apply Rmult_le_compat_r; lra).
    assert (K * K * u24 * u24 <= 1 * u24) by (apply Rmult_le_compat_r; lra). lra. }
  pose proof (lok_bernoulli prec32 Hprec32 k) as Lb. rewrite u24_uu in Lb. fold K in Lb.
  pose proof (hik_quadratic prec32 k) as Hq. rewrite u24_uu in Hq. fold K in Hq. specialize (Hq KU).
  assert (L' : q * (1 - K * u24) <= x).
  { eapply Rle_trans; [|exact L]. apply Rmult_le_compat_l; assumption. }
  assert (U' : x <= q * (1 + K * u24 + u24)).
  { eapply Rle_trans; [exact U|]. apply Rmult_le_compat_l; [assumption|lra]. }
  apply Rabs_le. split; nra.
Qed.

Lemma INR_2d : forall d, (1 <= d)%nat -> INR (2 * d - 1) + 1 = INR (2 * d).
Proof. intros d H. rewrite <- S_INR. f_equal. lia. Qed.

Lemma weights_fl_close_l : forall g, Cok g -> (Z.of_nat (depth g) <= 2048)%Z ->
  Forall2 (fun w q => Rabs (B2R w - Q2R q) <= INR (2 * depth g) * u24 * Q2R q) (weights_fl true g) (weights true g).
Proof.
  intros g HC HD. eapply Forall2_impl; [|apply (weights_inv g HC)].
  intros w q (_ & _ & Q0 & A & _). rewrite <- (INR_2d (depth g) (depth_ge1 g)).
  apply ap_linear; [lia|exact Q0|exact A].
Qed.

Lemma sumQ_cons : forall q l, sumQ (q :: l) = (q + sumQ l)%Q. Proof. reflexivity. Qed.
Lemma sum_close : forall c (ws : list f32) qs,
  Forall2 (fun w q => Rabs (B2R w - Q2R q) <= c * Q2R q) ws qs ->
  Rabs (sumR (map B2R ws) - Q2R (sumQ qs)) <= c * Q2R (sumQ qs).
Proof.
  intros c ws qs F. induction F as [|w q ws qs H F IH]; cbn [map sumR fold_right].
  - change (sumQ []) with 0%Q. rewrite Q2R_0, Rminus_0_r, Rabs_R0. lra.
  - rewrite sumQ_cons, Q2R_plus. fold (sumR (map B2R ws)).
    replace (B2R w + sumR (map B2R ws) - (Q2R q + Q2R (sumQ qs)))
      with ((B2R w - Q2R q) + (sumR (map B2R ws) - Q2R (sumQ qs))) by ring.
    eapply Rle_trans; [apply Rabs_triang|]. lra.
Qed.

Lemma weights_fl_sum_close_l : forall g, Cok g -> (Z.of_nat (depth g) <= 2048)%Z -> positiveb g = true ->
  Rabs (sumR (map B2R (weights_fl true g)) - 1) <= INR (2 * depth g) * u24.
Proof.
  intros g HC HD HP. pose proof (sum_close _ _ _ (weights_fl_close_l g HC HD)) as S.
  assert (E : Q2R (sumQ (weights true g)) = 1).
  { rewrite (Qeq_eqR _ _ (weights_sum_l g HP)). unfold Q2R. cbn. lra. }
  rewrite E in S. lra.
Qed.

(** * powers of two: every weight is exact *)
Definition Cp2 (g : tg) : Prop := sizes_okb g = true /\ all_pow2b g = true /\ (pmax g <= 2 ^ 149)%Z.
Definition Ip2 (g : tg) (w : f32) (q : Q) : Prop :=
  Fin32 w /\ B2R w = Q2R q /\
  (Q2R q = 0 \/ exists e : Z, (0 <= e)%Z /\ Q2R q = bpow radix2 (- e) /\ (2 ^ e <= pmax g)%Z).

Lemma Cp2_sub : forall l x, Cp2 (Nested l) -> In x l -> Cp2 x.
Proof.
  intros l x (S & A & P) Hx. cbn [sizes_okb all_pow2b pmax] in *.
  apply andb_true_iff in S as [_ S]. rewrite forallb_forall in S.
  apply andb_true_iff in A as [_ A]. rewrite forallb_forall in A.
  pose proof (pmax_sub l x Hx). pose proof (pmax_ge1 x). pose proof (fold_zmax_ge1 (map pmax l)).
  repeat split; [apply S; exact Hx|apply A; exact Hx|].
  assert (fold_right Z.max 1%Z (map pmax l) <= Z.max 1 (Z.of_nat (length l)) * fold_right Z.max 1%Z (map pmax l))%Z by nia.
  lia.
Qed.

Lemma pow2b_Z : forall n, pow2b n = true -> exists e : Z, (0 <= e)%Z /\ Z.of_nat n = (2 ^ e)%Z.
Proof.
  intros n H. apply Nat.eqb_eq in H. exists (Z.of_nat (Nat.log2 n)). split; [lia|].
  rewrite H at 1. rewrite Nat2Z.inj_pow. reflexivity.
Qed.

Lemma fmt_bpow_neg : forall e, (0 <= e <= 149)%Z -> fmt32 (bpow radix2 (- e)).
Proof. intros e H. apply (fmt_bpow prec32 emax32 Hprec32). unfold SpecFloat.emin, prec32, emax32. lia. Qed.

Lemma inv32_pow2 : forall n e, (0 <= e)%Z -> Z.of_nat n = (2 ^ e)%Z -> (Z.of_nat n <= P24)%Z ->
  Fin32 (inv32 n) /\ B2R (inv32 n) = bpow radix2 (- e) /\ / IZR (Z.of_nat n) = bpow radix2 (- e).
Proof.
  intros n e He Hn Hs.
  assert (E24 : (e <= 24)%Z).
  { unfold P24 in Hs. rewrite Hn in Hs. apply (Z.pow_le_mono_r_iff 2); lia. }
  assert (N1 : (1 <= Z.of_nat n)%Z) by (rewrite Hn; apply (Z.pow_le_mono_r 2 0 e); lia).
  destruct (inv32_spec n ltac:(lia)) as (F & E & _ & _).
  assert (I : / IZR (Z.of_nat n) = bpow radix2 (- e)) by (rewrite Hn, (IZR_2p e He), bpow_opp; reflexivity).
  split; [exact F|]. split; [|exact I]. rewrite E, I.
  apply (rnd_fmt prec32 emax32). apply fmt_bpow_neg. lia.
Qed.

Lemma weights_pow2_inv : forall g, Cp2 g -> Forall2 (Ip2 g) (weights_fl true g) (weights true g).
Proof.
  apply (weights_lift Cp2 Ip2 Cp2_sub).
  - intros n. unfold Ip2. rewrite Q2R_0. split; [apply Fin_zero32|split; [reflexivity|left; reflexivity]].
  - intros n Hn (S & A & P). cbn [sizes_okb all_pow2b pmax] in *. apply Z.leb_le in S.
    destruct (pow2b_Z n A) as (e & He & En).
    destruct (inv32_pow2 n e He En S) as (F & B & I).
    unfold Ip2. rewrite (Q2R_inv_nat n Hn), I. split; [exact F|split; [exact B|]].
    right. exists e. split; [exact He|split; [reflexivity|]]. cbn [pmax]. lia.
  - intros l x w q HC Hx (F & B & L). pose proof HC as (S & A & P).
    cbn [sizes_okb all_pow2b pmax] in S, A, P.
    apply andb_true_iff in S as [S _]. apply Z.leb_le in S. apply andb_true_iff in A as [A _].
    assert (Ll : (0 < length l)%nat) by (destruct l; [destruct Hx|cbn; lia]).
    destruct (pow2b_Z _ A) as (e2 & He2 & En2).
    destruct (inv32_pow2 _ e2 He2 En2 S) as (FW & BW & IW).
    set (pm := fold_right Z.max 1%Z (map pmax l)) in *.
    pose proof (pmax_sub l x Hx) as Px. fold pm in Px. pose proof (pmax_ge1 x) as P1.
    replace (Z.max 1 (Z.of_nat (length l))) with (Z.of_nat (length l)) in P by lia.
    unfold Ip2. rewrite Q2R_mult, (Q2R_inv_nat _ Ll), IW.
    assert (Bnd : forall t, 0 <= t <= 1 -> Rabs (rnd32 (t * bpow radix2 (- e2))) < TOP emax32).
    { intros t [T0 T1]. apply (rnd_lt_TOP prec32 emax32 Hprec32) with 1; [apply fmt32_1|apply one_lt_TOP32|].
      assert (0 < bpow radix2 (- e2)) by apply bpow_gt_0.
      assert (bpow radix2 (- e2) <= 1) by (change 1 with (bpow radix2 0); apply bpow_le; lia).
      rewrite Rabs_pos_eq; nra. }
    destruct L as [Z|(e1 & He1 & Eq & Pe)].
    + assert (OV : Rabs (rnd32 (B2R w * B2R (inv32 (length l)))) < TOP emax32).
      { rewrite B, Z, BW. apply Bnd. lra. }
      destruct (gmul_spec prec32 emax32 Hprec32 Hmax32 w _ F FW OV) as [E F'].
      change (gmul prec32 emax32 Hprec32 Hmax32 w (inv32 (length l))) with (fmul32 w (inv32 (length l))) in *.
      split; [exact F'|split; [|left; rewrite Z; ring]].
      rewrite E, B, Z, !Rmult_0_l. apply (rnd_0 prec32 emax32).
    + assert (Q1 : 0 <= bpow radix2 (- e1) <= 1).
      { split; [apply bpow_ge_0|change 1 with (bpow radix2 0); apply bpow_le; lia]. }
      assert (OV : Rabs (rnd32 (B2R w * B2R (inv32 (length l)))) < TOP emax32).
      { rewrite B, Eq, BW. apply Bnd. exact Q1. }
      destruct (gmul_spec prec32 emax32 Hprec32 Hmax32 w _ F FW OV) as [E F'].
      change (gmul prec32 emax32 Hprec32 Hmax32 w (inv32 (length l))) with (fmul32 w (inv32 (length l))) in *.
      assert (PE : (2 ^ (e1 + e2) <= pmax (Nested l))%Z).
      { cbn [pmax]. fold pm. replace (Z.max 1 (Z.of_nat (length l))) with (Z.of_nat (length l)) by lia.
        rewrite Z.pow_add_r by lia. rewrite En2, Z.mul_comm.
        apply Z.mul_le_mono_nonneg; try lia; apply Z.pow_nonneg; lia. }
      assert (E149 : (e1 + e2 <= 149)%Z).
      { apply (proj2 (Z.pow_le_mono_r_iff 2 (e1 + e2) 149 ltac:(lia) ltac:(lia))). cbn [pmax] in PE. fold pm in PE.
        replace (Z.max 1 (Z.of_nat (length l))) with (Z.of_nat (length l)) in PE by lia. lia. }
      assert (PR : bpow radix2 (- e1) * bpow radix2 (- e2) = bpow radix2 (- (e1 + e2))).
      { rewrite <- bpow_plus. f_equal. lia. }
      split; [exact F'|split; [|right; exists (e1 + e2)%Z; split; [lia|split; [rewrite Eq; exact PR|exact PE]]]].
      rewrite E, B, Eq, BW, PR. apply (rnd_fmt prec32 emax32). apply fmt_bpow_neg. lia.
Qed.

Lemma sum_exact : forall (ws : list f32) qs, Forall2 (fun w q => B2R w = Q2R q) ws qs -> sumR (map B2R ws) = Q2R (sumQ qs).
Proof.
  intros ws qs F. induction F as [|w q ws qs H F IH]; cbn [map sumR fold_right].
  - change (sumQ []) with 0%Q. rewrite Q2R_0. reflexivity.
  - rewrite sumQ_cons, Q2R_plus. fold (sumR (map B2R ws)). rewrite H, IH. reflexivity.
Qed.

Lemma weights_fl_pow2_exact_l : forall g, Cp2 g ->
  Forall2 (fun w q => is_finite w = true /\ B2R w = Q2R q) (weights_fl true g) (weights true g) /\
  (positiveb g = true -> sumR (map B2R (weights_fl true g)) = 1).
Proof.
  intros g HC. pose proof (weights_pow2_inv g HC) as W. split.
  - eapply Forall2_impl; [|exact W]. intros w q (F & B & _). split; assumption.
  - intros HP. rewrite (sum_exact _ (weights true g)).
    + rewrite (Qeq_eqR _ _ (weights_sum_l g HP)). unfold Q2R. cbn. lra.
    + eapply Forall2_impl; [|exact W]. intros w q (_ & B & _). exact B.
Qed.

(** * the groups the byte tokenizer emits: depth <= 2, so the float weights of a character sum to 1 within 2^-22 *)
Lemma utf8_len_le4 : forall c, (length (utf8 c) <= 4)%nat.
Proof. intros c. unfold utf8. destruct (c <? 128)%N; [cbn; lia|]. destruct (c <? 2048)%N; [cbn; lia|]. destruct (c <? 65536)%N; cbn; lia. Qed.
Lemma utf8s_len_le : forall l, (length (utf8s l) <= 4 * length l)%nat.
Proof.
  induction l as [|c l IH]; [cbn; lia|]. unfold utf8s in *. cbn [flat_map length]. rewrite app_length.
  pose proof (utf8_len_le4 c). lia.
Qed.
Lemma fold_zmax_le : forall (l : list Z) m, (1 <= m)%Z -> Forall (fun x => x <= m)%Z l -> (fold_right Z.max 1%Z l <= m)%Z.
Proof. intros l m Hm H. induction H; cbn [fold_right]; lia. Qed.
Lemma fold_max_le : forall (l : list nat) m, Forall (fun x => x <= m)%nat l -> (fold_right Nat.max 0%nat l <= m)%nat.
Proof. intros l m H. induction H; cbn [fold_right]; lia. Qed.

Lemma cluster_group_Cok : forall cpg c, (Z.of_nat (length c) <= 2 ^ 22)%Z ->
  Cok (cluster_group cpg c) /\ (depth (cluster_group cpg c) <= 2)%nat.
Proof.
  intros cpg c Hc. unfold cluster_group, Cok. destruct cpg.
  - cbn [sizes_okb pmax depth]. rewrite !map_length, !map_map. cbn [pmax depth sizes_okb].
    assert (D : (fold_right Nat.max 0%nat (map (fun _ : cp => 1%nat) c) <= 1)%nat).
    { apply fold_max_le. apply Forall_forall. intros x Hx. apply in_map_iff in Hx as (y & <- & _). lia. }
    assert (P : (fold_right Z.max 1%Z (map (fun x : cp => Z.max 1 (Z.of_nat (length (utf8 x)))) c) <= 4)%Z).
    { apply fold_zmax_le; [lia|]. apply Forall_forall. intros x Hx. apply in_map_iff in Hx as (y & <- & _).
      pose proof (utf8_len_le4 y). lia. }
    pose proof (fold_zmax_ge1 (map (fun x : cp => Z.max 1 (Z.of_nat (length (utf8 x)))) c)) as P1.
    repeat split.
    + apply andb_true_iff. split; [apply Z.leb_le; unfold P24; lia|].
      apply forallb_forall. intros g Hg. apply in_map_iff in Hg as (y & <- & _). cbn [sizes_okb].
      apply Z.leb_le. pose proof (utf8_len_le4 y). unfold P24. lia.
    + apply Z.le_trans with (2 ^ 22 * 4)%Z; [|lia]. apply Z.mul_le_mono_nonneg; lia.
    + lia.
    + lia.
  - cbn [sizes_okb pmax depth]. pose proof (utf8s_len_le c). repeat split; try lia.
    apply Z.leb_le. unfold P24. lia.
Qed.

Lemma cluster_group_fl_l : forall cpg c, c <> [] -> (Z.of_nat (length c) <= 2 ^ 22)%Z ->
  let ws := weights_fl true (cluster_group cpg c) in
  length ws = length (utf8s c) /\
  Forall (fun w => is_finite w = true /\ 0 < B2R w <= 1) ws /\
  Rabs (sumR (map B2R ws) - 1) <= 4 * u24.
Proof.
  intros cpg c Hne Hc ws. destruct (cluster_group_Cok cpg c Hc) as [HC HD].
  pose proof (cluster_group_positive cpg c Hne) as HP.
  destruct (weights_fl_range_l _ HC) as [R1 R2]. specialize (R2 HP).
  split; [unfold ws; rewrite weights_fl_length; apply cluster_group_len|]. split.
  - apply Forall_forall. intros w Hw. rewrite Forall_forall in R1, R2.
    destruct (R1 w Hw) as (F & B0 & B1). specialize (R2 w Hw). repeat split; assumption.
  - eapply Rle_trans; [apply (weights_fl_sum_close_l _ HC ltac:(lia) HP)|].
    apply Rmult_le_compat_r; [apply Rlt_le, u24_pos|].
    apply Rle_trans with (INR 4); [apply le_INR; lia|]. cbn. lra.
Qed.

(** special, prefix and suffix tokens are [Full 1] groups: their weight is exactly 1.0 *)
Lemma full1_fl : weights_fl true (Full 1) = [f32_one].
Proof. cbn [weights_fl repeat]. f_equal. apply B2SF_inj. vm_compute. reflexivity. Qed.

(** C14 model: whitespace corruption ([corrupt_whitespace], [apply Part::Input] in
    src/data/preprocessing.rs) and the labels of the whitespace-correction task
    (src/data/task.rs, [whitespace_correction_input]), on top of the C10 model of
    [whitespace::operations] / [repair].
    The random stream is an input: one draw [r = k / 2^53] per character of the
    text (what [ChaCha8Rng::seed_from_u64(seed)] + [random::<f64>()] produce; the
    harness replicates it from the seed). Probabilities are [p / 2^53], clamped
    as the code clamps them. Definitions only. *)
From TU Require Import Base C10_Model.
From TU Require C11_Model.
Open Scope Z_scope.

Definition D53 : Z := 9007199254740992.   (* 2^53 *)
Definition clamp (p : Z) : Z := Z.max 0 (Z.min p D53).

(** one step per character; [prev_ws] = the previous character OF THE TEXT is
    whitespace, [first] = idx == 0. [None] = the random stream ran dry (never
    happens when there is one draw per character). Output: the pieces, as clusters. *)
Fixpoint corrupt_aux (ti td : Z) (prev_ws first : bool) (chars : list cluster) (ks : list Z)
  : option (list cluster) :=
  match chars with
  | [] => Some []
  | c :: r =>
    match ks with
    | [] => None
    | k :: ks' =>
      let w := cl_ws c in
      let piece :=
        if w then (if k <? td then [] else [c])
        else if (k <? ti) && negb first && negb prev_ws then [[32%N]; c] else [c] in
      option_map (app piece) (corrupt_aux ti td w false r ks')
    end
  end.

(** [corrupt_whitespace(iw_p, dw_p, g)]: [None] at top level = the assertion
    "at least one probability must be greater 0" rejects the configuration *)
Definition accepted (iw dw : Z) : bool := (0 <? clamp iw) || (0 <? clamp dw).
Definition corrupt_cl (iw dw : Z) (chars : list cluster) (ks : list Z) : option (list cluster) :=
  corrupt_aux (clamp iw) (clamp dw) false true chars ks.

(** [apply(Part::Input, f)] on a [TrainData] = (input, target) *)
Definition apply_input {A} (f : A -> A) (item : A * A) : A * A := (f (fst item), snd item).

(** labels of the task: -1 for prefix/suffix tokens, the operation codes between *)
Definition op_code (o : op) : Z := match o with Keep => 0 | Ins => 1 | Del => 2 end.
Definition labels (np ns : nat) (ops : list op) : list Z :=
  repeat (-1) np ++ map op_code ops ++ repeat (-1) ns.

(** * executable statement *)
(** [b] is obtained from [a] by deleting elements that satisfy [p] (greedy decision) *)
Fixpoint delb (p : N -> bool) (a b : list N) : bool :=
  match a with
  | [] => match b with [] => true | _ => false end
  | x :: a' =>
    match b with
    | [] => p x && delb p a' []
    | y :: b' => if N.eqb x y then delb p a' b' else p x && delb p a' b
    end
  end.
Definition is32 (c : N) : bool := N.eqb c 32.

Fixpoint zlist_eqb (a b : list Z) : bool :=
  match a, b with
  | [], [] => true
  | x :: a', y :: b' => Z.eqb x y && zlist_eqb a' b'
  | _, _ => false
  end.

Definition code_op (z : Z) : op := match z with 1 => Ins | 2 => Del | _ => Keep end.

(** * val glue
    input  = (g text cseg seed ks iw dw np ns)
             text: clusters of the text; cseg: clusters of the corrupted text as
             the real segmenter sees it (grapheme mode; code-point mode uses
             singletons); ks: the replicated draws; iw dw: numerators over 2^53
    output = (0)                                    configuration rejected
           | (1 corrupted target labels? same-again) *)
Definition v_clusters (v : val) : list cluster := v_list (v_list v_n) v.

Definition in_text (v : val) : list cluster :=
  if v_bool (v_nth 0 v) then v_clusters (v_nth 1 v)
  else singletons (concat (v_clusters (v_nth 1 v))).
Definition in_cseg (v : val) (c : str) : list cluster :=
  if v_bool (v_nth 0 v) then v_clusters (v_nth 2 v) else singletons c.
Definition in_ks (v : val) : list Z := v_list v_z (v_nth 4 v).
Definition in_iw (v : val) : Z := v_z (v_nth 5 v).
Definition in_dw (v : val) : Z := v_z (v_nth 6 v).
Definition in_np (v : val) : nat := v_nat (v_nth 7 v).
Definition in_ns (v : val) : nat := v_nat (v_nth 8 v).

(** model error values (never equal to an implementation output) *)
Definition v_dry : val := L [I 2].

Definition run_C14 (v : val) : val :=
  let t := in_text v in
  if negb (accepted (in_iw v) (in_dw v)) then L [I 0] else
  match corrupt_cl (in_iw v) (in_dw v) t (in_ks v) with
  | None => v_dry
  | Some ccl =>
    let item := apply_input (fun _ => concat ccl) (concat t, concat t) in
    let c := fst item in
    let cseg := in_cseg v c in
    let lab :=
      if nlist_eqb (concat cseg) c
      then option_map (labels (in_np v) (in_ns v)) (operations cseg t)
      else None in
    L [I 1; list_v n_v c; list_v n_v (snd item); opt_v (list_v z_v) lab; I 1]
  end.

Definition shape_ok (out : val) : bool :=
  match out with L [I _; L _; L _; L _; I _] => true | _ => false end.

(** the premise of the property: the text is whitespace-clean (cluster level,
    C10's notion) and no cluster is empty or mixes whitespace with non-whitespace *)
Definition premise (t : list cluster) : bool := cleanb t && C11_Model.wf_seg t.

Definition check_C14 (v out : val) : bool :=
  let t := in_text v in
  let s := concat t in
  let iw := clamp (in_iw v) in
  let dw := clamp (in_dw v) in
  if negb (accepted (in_iw v) (in_dw v)) then
    (* both probabilities 0: the constructor refuses; nothing else is claimed *)
    match out with L [I 0] => true | _ => false end
  else
    let c := v_list v_n (v_nth 1 out) in
    let tgt := v_list v_n (v_nth 2 out) in
    let lab := v_opt (v_list v_z) (v_nth 3 out) in
    let cseg := in_cseg v c in
    shape_ok out && Z.eqb (v_z (v_nth 0 out)) 1
    (* target untouched; same output for the same (text, seed) *)
    && nlist_eqb tgt s
    && Z.eqb (v_z (v_nth 4 out)) 1
    (* only whitespace changes (every text) *)
    && nlist_eqb (strip_cp c) (strip_cp s)
    && (if premise t then
          (* again whitespace-clean *)
          C11_Model.cleansb c
          (* one label per input character, padded, and repair gives the text back *)
          && nlist_eqb (concat cseg) c
          && match lab with
             | Some l =>
               let np := in_np v in let ns := in_ns v in
               Nat.eqb (length l) (np + length cseg + ns)
               && zlist_eqb (firstn np l) (repeat (-1) np)
               && zlist_eqb (skipn (np + length cseg) l) (repeat (-1) ns)
               && forallb (fun z => (0 <=? z) && (z <=? 2)) (firstn (length cseg) (skipn np l))
               && match repair cseg (map code_op (firstn (length cseg) (skipn np l))) with
                  | Some r => nlist_eqb r s
                  | None => false
                  end
             | None => false
             end
          (* delete probability 0: the text is the input minus some spaces;
             insert probability 0: the input is the text minus some spaces *)
          && (if dw =? 0 then delb is32 c s else true)
          && (if iw =? 0 then delb is32 s c else true)
        else true).

(** C13 proofs, part 2: F-beta, aggregation, binary_f1, accuracy, mean edit distance. *)
From Coq Require Import QArith Lqa Lia.
From TU Require Import Base C13_Model.
From TU Require C12_Model C12_Props.
Open Scope Q_scope.

(** * ratios *)
Lemma Zpos_of_nat' : forall m, (1 <= m)%nat -> Zpos (Pos.of_nat m) = Z.of_nat m.
Proof.
  intros [|m] H; [lia|]. rewrite <- Pos.of_nat_succ. now rewrite Zpos_P_of_succ_nat, Nat2Z.inj_succ.
Qed.

Lemma nz_Z : forall n, Zpos (nz n) = Z.of_nat (Nat.max n 1).
Proof. intros n. unfold nz. apply Zpos_of_nat'. lia. Qed.

Lemma ratio_range : forall a b, (a <= b)%nat -> 0 <= ratio a b /\ ratio a b <= 1.
Proof.
  intros a b H. unfold ratio, Qle. cbn [Qnum Qden]. rewrite nz_Z. split; lia.
Qed.

Lemma ratio_pos : forall a b, (0 < a)%nat -> 0 < ratio a b.
Proof. intros a b H. unfold ratio, Qlt. cbn [Qnum Qden]. lia. Qed.

Lemma ratio_zero : forall b, ratio 0 b == 0.
Proof. intros b. unfold ratio, Qeq. cbn [Qnum Qden]. lia. Qed.

Lemma qpos_spec : forall q, qpos q = true <-> 0 < q.
Proof. intros q. unfold qpos, Qlt. cbn [Qnum Qden]. rewrite Z.ltb_lt. lia. Qed.

(** * F-beta *)
Definition c1 (x : fpr) : Q := fst (fst x).
Definition c2 (x : fpr) : Q := snd (fst x).
Definition c3 (x : fpr) : Q := snd x.
Definition in01q (q : Q) : Prop := 0 <= q /\ q <= 1.
Definition fpr01 (x : fpr) : Prop := in01q (c1 x) /\ in01q (c2 x) /\ in01q (c3 x).

Lemma fbeta_le : forall p r b, 0 <= p <= 1 -> 0 <= r <= 1 -> 0 <= b -> (1 + b) * p * r <= b * p + r.
Proof.
  intros p r b [P0 P1] [R0 R1] B.
  assert (H1 : 0 <= (b * p) * (1 - r)) by (apply Qmult_le_0_compat; [apply Qmult_le_0_compat; assumption|lra]).
  assert (H2 : 0 <= r * (1 - p)) by (apply Qmult_le_0_compat; lra).
  nra.
Qed.

Lemma sq_nonneg : forall b : Q, 0 <= b * b.
Proof. intros. nra. Qed.

(** the denominator of the F-beta quotient is positive whenever the quotient is taken *)
Lemma f1_den_pos_l : forall beta tp fp fn,
  qpos (ratio tp (tp + fp) + ratio tp (tp + fn)) = true ->
  0 < beta * beta * ratio tp (tp + fp) + ratio tp (tp + fn).
Proof.
  intros beta tp fp fn H. apply qpos_spec in H.
  destruct tp as [|tp].
  - exfalso. rewrite !ratio_zero in H. lra.
  - pose proof (ratio_pos (S tp) (S tp + fn) ltac:(lia)) as R.
    destruct (ratio_range (S tp) (S tp + fp) ltac:(lia)) as [P0 _].
    pose proof (sq_nonneg beta) as B.
    assert (0 <= beta * beta * ratio (S tp) (S tp + fp)) by (apply Qmult_le_0_compat; assumption).
    lra.
Qed.

Lemma f1_range_l : forall beta tp fp fn, fpr01 (f1 beta tp fp fn).
Proof.
  intros beta tp fp fn. unfold f1, fpr01, c1, c2, c3, in01q. cbn [fst snd].
  pose proof (ratio_range tp (tp + fp) ltac:(lia)) as [P0 P1].
  pose proof (ratio_range tp (tp + fn) ltac:(lia)) as [R0 R1].
  split; [|split; split; assumption].
  destruct (qpos (ratio tp (tp + fp) + ratio tp (tp + fn))) eqn:E; [|split; lra].
  pose proof (f1_den_pos_l beta tp fp fn E) as D.
  pose proof (sq_nonneg beta) as B.
  split.
  - apply Qle_shift_div_l; [exact D|]. rewrite Qmult_0_l.
    apply Qmult_le_0_compat; [apply Qmult_le_0_compat|]; try assumption. lra.
  - apply Qle_shift_div_r; [exact D|]. rewrite Qmult_1_l. apply fbeta_le; auto.
Qed.

(** calibration of [_f1]: no false positives/negatives and at least one true positive: all 1;
    no true positive: F and both ratios are 0 *)
Lemma f1_perfect : forall beta tp, (0 < tp)%nat ->
  c1 (f1 beta tp 0 0) == 1 /\ c2 (f1 beta tp 0 0) == 1 /\ c3 (f1 beta tp 0 0) == 1.
Proof.
  intros beta tp H. unfold f1, c1, c2, c3. cbn [fst snd]. rewrite Nat.add_0_r.
  assert (R : ratio tp tp == 1).
  { unfold ratio, Qeq. cbn [Qnum Qden]. rewrite nz_Z. lia. }
  assert (E : qpos (ratio tp tp + ratio tp tp) = true) by (apply qpos_spec; rewrite R; lra).
  rewrite E. split; [|split; exact R].
  rewrite R. pose proof (sq_nonneg beta). field. lra.
Qed.

Lemma f1_no_tp : forall beta fp fn,
  c1 (f1 beta 0 fp fn) == 0 /\ c2 (f1 beta 0 fp fn) == 0 /\ c3 (f1 beta 0 fp fn) == 0.
Proof.
  intros beta fp fn. unfold f1, c1, c2, c3. cbn [fst snd Nat.add].
  assert (E : qpos (ratio 0 fp + ratio 0 fn) = false).
  { destruct (qpos (ratio 0 fp + ratio 0 fn)) eqn:E; [|reflexivity].
    apply qpos_spec in E. rewrite !ratio_zero in E. lra. }
  rewrite E. split; [reflexivity|split; apply ratio_zero].
Qed.

(** * aggregation *)
Definition tp_of (v : counts) : nat := match v with (_, tp, _, _) => tp end.
Definition fp_of (v : counts) : nat := match v with (_, _, fp, _) => fp end.
Definition fn_of (v : counts) : nat := match v with (_, _, _, fn) => fn end.
Definition total (f : counts -> nat) (vals : list counts) : nat := sum_nat (map f vals).

Lemma micro_fold : forall vals a b c,
  fold_left (fun acc v => match acc, v with (a, b, c), (_, tp, fp, fn) => (a + tp, b + fp, c + fn)%nat end)
            vals (a, b, c)
  = ((a + total tp_of vals)%nat, (b + total fp_of vals)%nat, (c + total fn_of vals)%nat).
Proof.
  induction vals as [|[[[e tp] fp] fn] vals IH]; intros a b c; cbn [fold_left].
  - unfold total, sum_nat. cbn [map fold_right]. now rewrite !Nat.add_0_r.
  - rewrite IH. unfold total, sum_nat. cbn [map fold_right tp_of fp_of fn_of].
    f_equal; [f_equal|]; lia.
Qed.

(** micro averaging = F-beta of the summed counts *)
Lemma micro_spec_l : forall beta vals,
  micro_f1 beta vals = f1 beta (total tp_of vals) (total fp_of vals) (total fn_of vals).
Proof. intros beta vals. unfold micro_f1. rewrite micro_fold. reflexivity. Qed.

Lemma seq_fold : forall beta vals acc,
  let r := fold_left (fun acc v => fpr_add acc (seq_one beta v)) vals acc in
  c1 r == c1 acc + qsum (map (fun v => c1 (seq_one beta v)) vals) /\
  c2 r == c2 acc + qsum (map (fun v => c2 (seq_one beta v)) vals) /\
  c3 r == c3 acc + qsum (map (fun v => c3 (seq_one beta v)) vals).
Proof.
  intros beta. induction vals as [|v vals IH]; intros acc; cbn [fold_left map qsum].
  - cbv zeta. repeat split; ring.
  - specialize (IH (fpr_add acc (seq_one beta v))). cbv zeta in *.
    destruct IH as (I1 & I2 & I3). rewrite I1, I2, I3.
    destruct acc as [[a b] c]. destruct (seq_one beta v) as [[x y] z].
    unfold fpr_add, c1, c2, c3. cbn [fst snd]. repeat split; ring.
Qed.

Definition qlen (n : nat) : Q := inject_Z (Z.of_nat (Nat.max n 1)).

(** sequence averaging = mean of the per-sequence values ((1,1,1) for an empty sequence) *)
Lemma seq_avg_spec_l : forall beta vals,
  c1 (seq_avg_f1 beta vals) == qsum (map (fun v => c1 (seq_one beta v)) vals) / qlen (length vals) /\
  c2 (seq_avg_f1 beta vals) == qsum (map (fun v => c2 (seq_one beta v)) vals) / qlen (length vals) /\
  c3 (seq_avg_f1 beta vals) == qsum (map (fun v => c3 (seq_one beta v)) vals) / qlen (length vals).
Proof.
  intros beta vals. unfold seq_avg_f1.
  pose proof (seq_fold beta vals (0, 0, 0)) as H. cbv zeta in H.
  destruct (fold_left (fun acc v => fpr_add acc (seq_one beta v)) vals (0, 0, 0)) as [[f p] r].
  unfold c1, c2, c3 in *. cbn [fst snd] in *. destruct H as (H1 & H2 & H3).
  fold (qlen (length vals)). rewrite H1, H2, H3. repeat split; apply Qdiv_comp; try reflexivity; ring.
Qed.

Lemma qlen_pos : forall n, 0 < qlen n.
Proof. intros n. unfold qlen, Qlt. cbn. lia. Qed.

Lemma qsum_range : forall l, Forall in01q l -> 0 <= qsum l /\ qsum l <= inject_Z (Z.of_nat (length l)).
Proof.
  induction l as [|x l IH]; intros H; cbn [qsum length].
  - split; [lra|]. unfold Qle. cbn. lia.
  - inversion H as [|? ? [X0 X1] Hl]; subst. destruct (IH Hl) as [S0 S1].
    rewrite Nat2Z.inj_succ. unfold Z.succ. rewrite inject_Z_plus. split; [lra|].
    change (inject_Z 1) with 1. lra.
Qed.

Lemma mean_range : forall l, Forall in01q l -> in01q (qsum l / qlen (length l)).
Proof.
  intros l H. destruct (qsum_range l H) as [S0 S1]. pose proof (qlen_pos (length l)) as P.
  split.
  - apply Qle_shift_div_l; [exact P|]. lra.
  - apply Qle_shift_div_r; [exact P|]. rewrite Qmult_1_l.
    eapply Qle_trans; [exact S1|]. unfold qlen. rewrite <- Zle_Qle. lia.
Qed.

Lemma seq_one_range : forall beta v, fpr01 (seq_one beta v).
Proof.
  intros beta [[[e tp] fp] fn]. unfold seq_one. destruct e; [|apply f1_range_l].
  unfold fpr01, c1, c2, c3, in01q. cbn [fst snd]. repeat split; lra.
Qed.

Lemma in01q_comp : forall a b, a == b -> in01q b -> in01q a.
Proof. intros a b E [H0 H1]. split; rewrite E; assumption. Qed.

Lemma aggregate_range_l : forall seq_avg beta vals, fpr01 (aggregate seq_avg beta vals).
Proof.
  intros seq_avg beta vals. unfold aggregate. destruct seq_avg.
  - destruct (seq_avg_spec_l beta vals) as (H1 & H2 & H3).
    split; [|split].
    + eapply in01q_comp; [exact H1|]. rewrite <- (map_length (fun v => c1 (seq_one beta v)) vals).
      apply mean_range. apply Forall_map. apply Forall_forall. intros v _. apply seq_one_range.
    + eapply in01q_comp; [exact H2|]. rewrite <- (map_length (fun v => c2 (seq_one beta v)) vals).
      apply mean_range. apply Forall_map. apply Forall_forall. intros v _. apply seq_one_range.
    + eapply in01q_comp; [exact H3|]. rewrite <- (map_length (fun v => c3 (seq_one beta v)) vals).
      apply mean_range. apply Forall_map. apply Forall_forall. intros v _. apply seq_one_range.
  - rewrite micro_spec_l. apply f1_range_l.
Qed.

(** * binary_f1 *)
Definition cnt (f : bool -> bool -> bool) (p t : list bool) : nat :=
  length (filter (fun x => f (fst x) (snd x)) (combine p t)).

Lemma count_fold : forall p t a b c,
  count_tp_fp_fn p t (a, b, c)
  = ((a + cnt andb p t)%nat, (b + cnt (fun x y => x && negb y) p t)%nat,
     (c + cnt (fun x y => negb x && y) p t)%nat).
Proof.
  unfold cnt. induction p as [|x p IH]; intros t a b c.
  - cbn [count_tp_fp_fn combine filter length]. now rewrite !Nat.add_0_r.
  - destruct t as [|y t].
    + cbn [count_tp_fp_fn combine filter length]. now rewrite !Nat.add_0_r.
    + cbn [count_tp_fp_fn combine filter fst snd].
      destruct x, y; rewrite IH; cbn [andb negb length]; rewrite ?Nat.add_succ_r; reflexivity.
Qed.

Lemma binary_f1_spec_l : forall beta p t,
  binary_f1 beta p t =
  if Nat.eqb (length p) (length t)
  then Some (f1 beta (cnt andb p t) (cnt (fun x y => x && negb y) p t) (cnt (fun x y => negb x && y) p t))
  else None.
Proof.
  intros beta p t. unfold binary_f1. destruct (Nat.eqb (length p) (length t)); [|reflexivity].
  rewrite count_fold. reflexivity.
Qed.

(** * accuracy *)
Lemma count_eq_spec : forall p t,
  count_eq p t = length (filter (fun x => Z.eqb (fst x) (snd x)) (combine p t)).
Proof.
  induction p as [|x p IH]; intros [|y t]; cbn [count_eq combine filter length fst snd]; try reflexivity.
  rewrite IH. destruct (Z.eqb x y); cbn [length]; lia.
Qed.

Lemma count_eq_le : forall p t, (count_eq p t <= length p)%nat.
Proof.
  induction p as [|x p IH]; intros [|y t]; cbn [count_eq length]; try lia.
  specialize (IH t). destruct (Z.eqb x y); lia.
Qed.

Lemma accuracy_spec_l : forall p t,
  accuracy p t =
  if Nat.eqb (length p) (length t)
  then Some (ratio (length (filter (fun x => Z.eqb (fst x) (snd x)) (combine p t))) (length p))
  else None.
Proof. intros p t. unfold accuracy. now rewrite count_eq_spec. Qed.

Lemma accuracy_range_l : forall p t a, accuracy p t = Some a -> in01q a.
Proof.
  intros p t a H. unfold accuracy in H. destruct (Nat.eqb (length p) (length t)); [|discriminate].
  injection H as <-. apply ratio_range. apply count_eq_le.
Qed.

(** * mean edit distance *)
Lemma distance_nonneg : forall fl nm a b, 0 <= C12_Model.distance fl nm a b.
Proof. intros. unfold C12_Model.distance, Qle. cbn [Qnum Qden]. lia. Qed.

Lemma qsum_nonneg : forall l, Forall (fun x => 0 <= x) l -> 0 <= qsum l.
Proof.
  induction l as [|x l IH]; intros H; cbn [qsum]; [lra|].
  inversion H; subst. specialize (IH H3). lra.
Qed.

Definition dists (nm : bool) (s t : list (list cluster)) : list Q :=
  map (fun p => C12_Model.distance ed_flags nm (fst p) (snd p)) (C12_Model.zip s t).

Lemma mean_ed_spec_l : forall nm s t,
  mean_ed nm s t =
  if Nat.eqb (length s) (length t) then Some (qsum (dists nm s t) / qlen (length s)) else None.
Proof. reflexivity. Qed.

Lemma zip_length : forall {A B} (s : list A) (t : list B), length s = length t -> length (C12_Model.zip s t) = length s.
Proof.
  induction s as [|x s IH]; intros [|y t] H; cbn [C12_Model.zip length] in *; try lia.
  f_equal. apply IH. lia.
Qed.

Lemma mean_ed_range_l : forall nm s t m, mean_ed nm s t = Some m ->
  0 <= m /\ (nm = true -> m <= 1).
Proof.
  intros nm s t m H. rewrite mean_ed_spec_l in H.
  destruct (Nat.eqb (length s) (length t)) eqn:E; [|discriminate]. apply Nat.eqb_eq in E.
  injection H as <-. pose proof (qlen_pos (length s)) as P. split.
  - apply Qle_shift_div_l; [exact P|]. rewrite Qmult_0_l. apply qsum_nonneg.
    unfold dists. apply Forall_map. apply Forall_forall. intros p _. apply distance_nonneg.
  - intros ->.
    assert (L : length (dists true s t) = length s).
    { unfold dists. rewrite map_length. now apply zip_length. }
    rewrite <- L. apply mean_range. unfold dists. apply Forall_map. apply Forall_forall. intros p _.
    destruct (C12_Props.norm_le_1 ed_flags (fst p) (snd p) eq_refl) as [H0 H1]. split; assumption.
Qed.

(** C06 proofs, part 2: batch_from, fill, sort, shuffle, one build_batch step. *)
From TU Require Import Base C06_Model C06_Subseq.
Require Import Lia Permutation.

Section Batch.
Context {A : Type} (size : A -> nat).
Implicit Types (acc src buf rest b : list A).

Notation lim_from := (lim_from size).
Notation lim_update := (lim_update size).
Notation limit := (limit size).

Lemma lim_update_from : forall acc x, lim_update (lim_from acc) x = lim_from (acc ++ [x]).
Proof.
  intros. unfold C06_Model.lim_update, C06_Model.lim_from. cbn [fst snd].
  rewrite app_length, map_app, list_max_app. cbn [length map list_max fold_right].
  f_equal; lia.
Qed.

Lemma lim_from_nil : lim_from [] = (0, 0).
Proof. reflexivity. Qed.

Lemma limit_nil : forall ty, limit ty [] = 0.
Proof. intros []; reflexivity. Qed.

(** * batch_from *)
Lemma batch_from_spec : forall ty L src acc b rem src',
  batch_from size ty L acc (lim_from acc) src = (b, rem, src') ->
  acc ++ src = b ++ opt_list rem ++ src' /\
  (exists tail, b = acc ++ tail) /\
  ((acc = [] \/ length acc = 1 \/ limit ty acc <= L) -> (length b <= 1 \/ limit ty b <= L)) /\
  (forall r, rem = Some r -> b <> [] /\ L < limit ty (b ++ [r])) /\
  (rem = None -> src' = []) /\
  (src <> [] -> b <> []).
Proof.
  intros ty L. induction src as [|x src IH]; intros acc b rem src' H; cbn [batch_from] in H.
  - injection H as <- <- <-. cbn [opt_list app].
    refine (conj _ (conj _ (conj _ (conj _ (conj _ _))))).
    + reflexivity.
    + exists []. rewrite app_nil_r. reflexivity.
    + intros [->|[Hl|Hl]]; [left; cbn; lia|left; lia|right; exact Hl].
    + discriminate.
    + reflexivity.
    + congruence.
  - rewrite lim_update_from in H.
    destruct ((L <? lim_val ty (lim_from (acc ++ [x]))) && negb (is_nil acc)) eqn:E.
    + injection H as <- <- <-. apply andb_true_iff in E. destruct E as [E1 E2].
      apply Nat.ltb_lt in E1. assert (Hne : acc <> []) by (destruct acc; [discriminate|congruence]).
      cbn [opt_list app].
      refine (conj _ (conj _ (conj _ (conj _ (conj _ _))))).
      * reflexivity.
      * exists []. rewrite app_nil_r. reflexivity.
      * intros [->|[Hl|Hl]]; [congruence|left; lia|right; exact Hl].
      * intros r Hr. injection Hr as <-. split; [exact Hne|exact E1].
      * discriminate.
      * intros _. exact Hne.
    + apply IH in H. destruct H as (Heq & [tail Htail] & Hlim & Hrem & Hnone & Hne).
      refine (conj _ (conj _ (conj _ (conj _ (conj _ _))))).
      * rewrite <- Heq, <- app_assoc. reflexivity.
      * exists (x :: tail). rewrite Htail, <- app_assoc. reflexivity.
      * intros _. apply Hlim. apply andb_false_iff in E. destruct E as [E|E].
        -- apply Nat.ltb_ge in E. right. right. exact E.
        -- destruct acc; [right; left; reflexivity|discriminate].
      * exact Hrem.
      * exact Hnone.
      * intros _. rewrite Htail. destruct acc; discriminate.
Qed.

Lemma batch_from_head : forall ty L x src b rem src',
  batch_from size ty L [] (0, 0) (x :: src) = (b, rem, src') -> exists tail, b = x :: tail.
Proof.
  intros ty L x src b rem src' H. cbn [batch_from] in H.
  rewrite andb_false_r in H.
  change (C06_Model.lim_update size (0, 0) x) with (lim_update (lim_from []) x) in H.
  rewrite lim_update_from in H. apply batch_from_spec in H.
  destruct H as (_ & [tail ->] & _). exists tail. reflexivity.
Qed.

(** * fill *)
Lemma fill_spec : forall ty bound rest buf buf' rest',
  fill size ty bound (lim_from buf) buf rest = (buf', rest') ->
  buf' ++ rest' = buf ++ rest /\ (buf' = [] -> rest' = []).
Proof.
  intros ty bound. induction rest as [|x rest IH]; intros buf buf' rest' H; cbn [fill] in H.
  - injection H as <- <-. auto.
  - destruct (lim_val ty (lim_from buf) <=? bound) eqn:E.
    + rewrite lim_update_from in H. destruct (IH _ _ _ H) as [Heq Hnil]. split.
      * rewrite Heq, <- app_assoc. reflexivity.
      * exact Hnil.
    + injection H as <- <-. split; [reflexivity|]. intros ->.
      destruct ty; cbn in E; discriminate.
Qed.

(** * sort and shuffle are permutations *)
Lemma insert_by_perm : forall x l, Permutation (insert_by size x l) (x :: l).
Proof.
  induction l as [|y l IH]; cbn [insert_by]; [reflexivity|].
  destruct (size x <=? size y); [reflexivity|].
  rewrite IH. apply perm_swap.
Qed.

Lemma sort_by_perm : forall l, Permutation (sort_by size l) l.
Proof.
  induction l as [|x l IH]; cbn [sort_by]; [reflexivity|].
  rewrite insert_by_perm. constructor. exact IH.
Qed.

Lemma remove_nth_perm : forall i (l : list A) x r, remove_nth i l = Some (x, r) -> Permutation l (x :: r).
Proof.
  induction i as [|i IH]; destruct l as [|y l]; cbn [remove_nth]; intros x r H; try discriminate.
  - injection H as <- <-. reflexivity.
  - destruct (remove_nth i l) as [[z r']|] eqn:E; [|discriminate].
    injection H as <- <-. rewrite (IH _ _ _ E). apply perm_swap.
Qed.

Lemma remove_nth_some : forall i (l : list A), i < length l ->
  exists x r, remove_nth i l = Some (x, r) /\ S (length r) = length l.
Proof.
  induction i as [|i IH]; destruct l as [|y l]; cbn [remove_nth length]; intros H; try lia.
  - eauto.
  - destruct (IH l ltac:(lia)) as (x & r & -> & Hl). do 2 eexists. split; [reflexivity|]. cbn. lia.
Qed.

Lemma apply_shuf_perm : forall p buf sb, apply_shuf p buf = Some sb -> Permutation sb buf.
Proof.
  induction p as [|i p IH]; intros buf sb H; cbn [apply_shuf] in H.
  - destruct buf; [injection H as <-; reflexivity|discriminate].
  - destruct (remove_nth i buf) as [[x r]|] eqn:E; [|discriminate].
    destruct (apply_shuf p r) as [sb'|] eqn:E'; [|discriminate]. injection H as <-.
    rewrite (remove_nth_perm _ _ _ _ E). constructor. apply IH. exact E'.
Qed.

Lemma apply_shuf_some : forall p buf, lehmer_okb p (length buf) = true -> exists sb, apply_shuf p buf = Some sb.
Proof.
  induction p as [|i p IH]; intros buf H; cbn [apply_shuf].
  - destruct buf; [eauto|discriminate].
  - destruct buf as [|y buf]; [discriminate|]. cbn [lehmer_okb length] in H.
    apply andb_true_iff in H. destruct H as [Hi Hp]. apply Nat.ltb_lt in Hi.
    destruct (remove_nth_some i (y :: buf) Hi) as (x & r & -> & Hl).
    cbn [length] in Hl. injection Hl as Hl. rewrite <- Hl in Hp.
    destruct (IH r Hp) as [sb ->]. eexists. reflexivity.
Qed.

(** * slices *)
Lemma skipn_add : forall (a m : nat) (l : list A), skipn a (skipn m l) = skipn (m + a) l.
Proof.
  intros a. induction m as [|m IH]; intros l; [reflexivity|].
  destruct l; cbn [skipn Nat.add]; [apply skipn_nil|apply IH].
Qed.

Lemma slice_split : forall (l : list A) s e, s <= e ->
  l = firstn s l ++ slice l s e ++ skipn e l.
Proof.
  intros l s e H. unfold slice.
  rewrite <- (firstn_skipn s l) at 1. f_equal.
  rewrite <- (firstn_skipn (e - s) (skipn s l)) at 1. f_equal.
  rewrite skipn_add. f_equal. lia.
Qed.

Lemma slice_perm : forall (l : list A) s e, s <= e ->
  Permutation (slice l s e ++ firstn s l ++ skipn e l) l.
Proof.
  intros l s e H. pose proof (slice_split l s e H) as E.
  set (a := firstn s l) in *. set (m := slice l s e) in *. set (c := skipn e l) in *.
  clearbody a m c. subst l. rewrite !app_assoc. apply Permutation_app_tail. apply Permutation_app_comm.
Qed.

Lemma slice_length : forall (l : list A) s e, e <= length l -> length (slice l s e) = e - s.
Proof. intros. unfold slice. rewrite firstn_length, skipn_length. lia. Qed.

(** * one build_batch step *)
Definition olist (ob : option (list A)) : list A := match ob with Some b => b | None => [] end.

Lemma pop_batch_step : forall ty L sb rest1 ob rest' buf', sb <> [] ->
  pop_batch size ty L sb rest1 = BOk ob rest' buf' ->
  rest' = rest1 /\ exists b, ob = Some b /\ b <> [] /\ (length b <= 1 \/ limit ty b <= L) /\
    Permutation (b ++ buf') sb.
Proof.
  intros ty L sb rest1 ob rest' buf' Hne H. unfold pop_batch in H.
  destruct (batch_from size ty L [] (0, 0) (rev sb)) as [[b rem] src'] eqn:E.
  injection H as <- <- <-. split; [reflexivity|]. exists b.
  change (0, 0) with (lim_from []) in E. apply batch_from_spec in E.
  destruct E as (Heq & _ & Hlim & _ & _ & Hb). cbn [app] in Heq.
  split; [reflexivity|]. split.
  - apply Hb. intros Hr. apply Hne. rewrite <- (rev_involutive sb), Hr. reflexivity.
  - split; [apply Hlim; left; reflexivity|].
    rewrite (Permutation_rev sb), Heq. apply Permutation_app_head.
    rewrite <- (Permutation_rev src'). apply Permutation_app_comm.
Qed.

Lemma perm_nonnil : forall (l l' : list A), Permutation l l' -> l' <> [] -> l <> [].
Proof. intros l l' H Hne ->. apply Permutation_nil in H. congruence. Qed.

Lemma is_nil_false : forall B (l : list B), is_nil l = false -> l <> [].
Proof. intros B [|x l]; [discriminate|congruence]. Qed.

Lemma build_batch_step : forall sort shuffle L P ty o t rest buf ob rest' buf',
  build_batch size sort shuffle L P ty o t rest buf = BOk ob rest' buf' ->
  Permutation (olist ob ++ buf' ++ rest') (buf ++ rest) /\
  (forall b, ob = Some b -> b <> [] /\ (length b <= 1 \/ limit ty b <= L)) /\
  (ob = None -> buf ++ rest = []).
Proof.
  intros sort shuffle L P ty o t rest buf ob rest' buf' H. unfold build_batch in H.
  destruct (negb sort && negb shuffle) eqn:Em.
  - (* plain *)
    assert (Hplain : forall src, length buf <= 1 ->
      (let '(b, rem, src') := batch_from size ty L [] (0, 0) src in
       BOk (if is_nil b then None else Some b) src' (opt_list rem)) = BOk ob rest' buf' ->
      Permutation (olist ob ++ buf' ++ rest') src /\
      (forall b, ob = Some b -> b <> [] /\ (length b <= 1 \/ limit ty b <= L)) /\
      (ob = None -> src = [])).
    { intros src _ H'. destruct (batch_from size ty L [] (0, 0) src) as [[b rem] src'] eqn:E.
      injection H' as <- <- <-. change (0, 0) with (lim_from []) in E. apply batch_from_spec in E.
      destruct E as (Heq & _ & Hlim & _ & _ & Hb). cbn [app] in Heq.
      destruct b as [|x b]; cbn [is_nil olist].
      - split; [rewrite Heq; reflexivity|]. split; [discriminate|].
        intros _. destruct src; [reflexivity|]. exfalso. apply Hb; [discriminate|reflexivity].
      - split; [rewrite Heq; reflexivity|]. split; [|discriminate].
        intros b' Hb'. injection Hb' as <-. split; [discriminate|]. apply Hlim. left. reflexivity. }
    destruct buf as [|x [|y buf]]; [| |discriminate]; apply Hplain in H; cbn [length]; auto.
  - destruct (fill size ty (L * P) (lim_from buf) buf rest) as [buf1 rest1] eqn:Ef.
    apply fill_spec in Ef. destruct Ef as [Heq Hnil]. rewrite <- Heq.
    destruct (is_nil buf1) eqn:En.
    + injection H as <- <- <-. destruct buf1; [|discriminate]. rewrite (Hnil eq_refl).
      cbn. split; [reflexivity|]. split; [discriminate|reflexivity].
    + apply is_nil_false in En.
      assert (Hpop : forall sb, Permutation sb buf1 -> pop_batch size ty L sb rest1 = BOk ob rest' buf' ->
        Permutation (olist ob ++ buf' ++ rest') (buf1 ++ rest1) /\
        (forall b, ob = Some b -> b <> [] /\ (length b <= 1 \/ limit ty b <= L)) /\
        (ob = None -> buf1 ++ rest1 = [])).
      { intros sb Hperm Hp. apply pop_batch_step in Hp; [|eapply perm_nonnil; eauto].
        destruct Hp as (-> & b & -> & Hbne & Hlim & Hp). cbn [olist]. split.
        - rewrite app_assoc, Hp, Hperm. reflexivity.
        - split; [|discriminate]. intros b' Hb'. injection Hb' as <-. auto. }
      destruct sort.
      * pose proof (sort_by_perm buf1) as Hs. set (sb := sort_by size buf1) in *.
        destruct shuffle; [|apply (Hpop sb Hs H)].
        destruct (find_subseq_ok_l (fun s e => limit ty (slice sb s e)) L (length sb)) as (subs & Hfs & Hok).
        rewrite Hfs in H. destruct subs as [|p0 subs].
        -- destruct (rev sb) as [|x r] eqn:Er; [discriminate|]. injection H as <- <- <-.
           cbn [olist]. split.
           ++ rewrite <- Hs, <- (rev_involutive sb), Er. cbn [rev].
              rewrite <- app_assoc. cbn [app]. apply Permutation_cons_app. reflexivity.
           ++ split; [|discriminate]. intros b Hb. injection Hb as <-. split; [discriminate|left; cbn; lia].
        -- destruct (nth_error (p0 :: subs) (pick o t (length (p0 :: subs)))) as [[s e]|] eqn:Enth; [|discriminate].
           destruct ((s <=? e) && (e <=? length sb)) eqn:Eg; [|discriminate].
           injection H as <- <- <-. apply andb_true_iff in Eg. destruct Eg as [Ese Ee].
           apply Nat.leb_le in Ese. apply Nat.leb_le in Ee.
           apply nth_error_In in Enth. rewrite Forall_forall in Hok. specialize (Hok _ Enth).
           unfold range_ok in Hok. cbn [fst snd] in Hok. destruct Hok as (Hlt & _ & Hsz).
           cbn [olist]. split.
           ++ rewrite app_assoc. apply Permutation_app_tail.
              rewrite (slice_perm sb s e Ese). exact Hs.
           ++ split; [|discriminate]. intros b Hb. injection Hb as <-. split; [|right; exact Hsz].
              intros Hn. apply (f_equal (@length A)) in Hn. rewrite slice_length in Hn by exact Ee.
              cbn in Hn. lia.
      * destruct shuffle; [|discriminate].
        destruct (apply_shuf (shuf o t (length buf1)) buf1) as [sb|] eqn:Es; [|discriminate].
        apply (Hpop sb (apply_shuf_perm _ _ _ Es) H).
Qed.

End Batch.

(** Unicode normalisation model — pinned statements. Nothing but statements, [exact], and
    assumption audits. [nfd nfc nfkd nfkc] model the iterators of unicode-normalization (version and
    Unicode version in NFKC_Table.v), [normalize_model] models [text_utils::unicode::normalize]; they are
    tied to the crate by the C19 correspondence (NFKC_Tie.v). *)
From Coq Require Import Permutation.
From TU Require Import Base UAX29_Model C11_Model NFKC_Model NFKC_Proofs NFKC_Clean NFKC_Graph.
Open Scope N_scope.

(** ** the tables: binary trie = first entry of the translated list with that key *)
Theorem ccc_spec : forall c,
  ccc c = match alookup ccc_table c with Some k => k | None => 0 end.
Proof. exact ccc_spec_l. Qed.
Print Assumptions ccc_spec.

Theorem table_decomposition_spec : forall compat c,
  table_decomposition compat c =
  if compat then match alookup compat_decomp_table c with
                 | Some d => Some d
                 | None => alookup canon_decomp_table c
                 end
  else alookup canon_decomp_table c.
Proof. exact table_decomposition_spec_l. Qed.
Print Assumptions table_decomposition_spec.

Theorem composition_table_spec : forall a b,
  composition_table a b =
  if (a <? 65536) && (b <? 65536) then alookup2 comp_bmp_table a b else alookup2 comp_astral_table a b.
Proof. exact composition_table_spec_l. Qed.
Print Assumptions composition_table_spec.

(** ** decomposition is total and needs no recursion: every code point yields at least one code
    point, and what it yields does not decompose any further (the crate's tables hold FULL
    decompositions; Hangul jamo have no entries) — so there is no fuel that could run out *)
Theorem decompose_total : forall compat c,
  decompose_char compat c <> []
  /\ Forall (fun d => decompose_char compat d = [d]) (decompose_char compat c).
Proof. exact (fun k c => conj (decompose_char_nonempty k c) (decompose_char_closed k c)). Qed.
Print Assumptions decompose_total.

Theorem decompose_idempotent : forall compat s, decompose compat (decompose compat s) = decompose compat s.
Proof. exact decompose_idem. Qed.
Print Assumptions decompose_idempotent.

(** ** empty and ASCII text *)
Theorem nf_nil : forall f, nf f [] = [].
Proof. exact nf_nil_l. Qed.
Print Assumptions nf_nil.

Theorem nf_ascii : forall f s, Forall (fun c => c <= 127) s -> nf f s = s.
Proof. exact nf_ascii_l. Qed.
Print Assumptions nf_ascii.

Theorem normalize_ascii : forall f g s, Forall (fun c => c <= 127) s -> normalize_model f g s = s.
Proof. exact normalize_ascii_l. Qed.
Print Assumptions normalize_ascii.

(** ** the crate's [normalize] in grapheme mode: every cluster on its own *)
Theorem normalize_g_spec : forall f s, normalize_model f true s = concat (map (nf f) (segment s)).
Proof. exact (fun f s => flat_map_concat_map (nf f) (segment s)). Qed.
Print Assumptions normalize_g_spec.

Theorem normalize_cp_spec : forall f s, normalize_model f false s = nf f s.
Proof. reflexivity. Qed.
Print Assumptions normalize_cp_spec.

(** ** canonical order: in the output of NFD / NFKD no non-starter follows a code point of a
    higher class; hence every run of non-starters is sorted by class; the output is a permutation
    of the decomposed text and a fixpoint of the form *)
Theorem nfd_ccc_sorted : forall s, cordered (nfd s) = true /\ cordered (nfkd s) = true.
Proof. exact (fun s => conj (nfd_cordered s) (nfkd_cordered s)). Qed.
Print Assumptions nfd_ccc_sorted.

Theorem nfd_runs_sorted : forall k s u run v,
  nfxd k s = u ++ run ++ v -> Forall (fun c => ccc c <> 0) run -> sorted_cc run = true.
Proof. exact (fun k s u run v E H => cordered_run u run v (eq_ind _ (fun x => cordered x = true) (reorder_cordered _ []) _ E) H). Qed.
Print Assumptions nfd_runs_sorted.

Theorem nfd_perm : forall s, Permutation (nfd s) (decompose false s) /\ Permutation (nfkd s) (decompose true s).
Proof. exact (fun s => conj (nfxd_perm false s) (nfxd_perm true s)). Qed.
Print Assumptions nfd_perm.

Theorem nfd_idempotent : forall s, nfd (nfd s) = nfd s /\ nfkd (nfkd s) = nfkd s.
Proof. exact (fun s => conj (nfxd_idem false s) (nfxd_idem true s)). Qed.
Print Assumptions nfd_idempotent.

(** a text that is decomposed and in canonical order is left alone *)
Theorem reorder_fixes_ordered : forall s, cordered s = true -> reorder [] s = s.
Proof. exact (fun s H => reorder_id s [] (Forall_nil _) H). Qed.
Print Assumptions reorder_fixes_ordered.

(** ** composition: what composes is never White_Space and the second is never below U+0300 *)
Theorem compose_facts : forall a b r,
  compose a b = Some r -> is_ws a = false /\ is_ws b = false /\ is_ws r = false /\ 768 <= b.
Proof. exact compose_some. Qed.
Print Assumptions compose_facts.

(** Hangul: a syllable is what its decomposition composes to *)
Theorem hangul_roundtrip : forall c, is_hangul_syllable c = true -> nfc [c] = [c] /\ nfkc [c] = [c].
Proof. exact hangul_roundtrip_l. Qed.
Print Assumptions hangul_roundtrip.

(** ** every form splits at U+0020: the two sides are normalised independently *)
Theorem nf_split_at_space : forall f u v, nf f (u ++ 32 :: v) = nf f u ++ 32 :: nf f v.
Proof. exact nf_split_space. Qed.
Print Assumptions nf_split_at_space.

Theorem nf_words : forall f W, nf f (join [32] W) = join [32] (map (nf f) W).
Proof. exact nf_join. Qed.
Print Assumptions nf_words.

(** ** KF3 from the inside. [nfkc_makes_space] (52 code points, computed inside Coq) is EXACTLY the
    set of code points that are not White_Space but whose NFKC contains White_Space *)
Theorem nfkc_makes_space_spec : forall c,
  In c nfkc_makes_space <-> is_ws c = false /\ exists w, In w (nfkc [c]) /\ is_ws w = true.
Proof. exact makes_space_spec_l. Qed.
Print Assumptions nfkc_makes_space_spec.

(** whitespace-clean (C11_Model.cleansb: only U+0020, never leading, trailing or doubled) is
    preserved by NFKC for every text that avoids the set — whatever precedes or follows a code
    point: composition neither creates nor removes White_Space *)
Theorem nfkc_keeps_clean : forall s,
  cleansb s = true -> (forall c, In c s -> ~ In c nfkc_makes_space) -> cleansb (nfkc s) = true.
Proof. exact nfkc_keeps_clean_l. Qed.
Print Assumptions nfkc_keeps_clean.

(** the canonical forms need no side condition *)
Theorem nfc_keeps_clean : forall s, cleansb s = true -> cleansb (nfc s) = true /\ cleansb (nfd s) = true.
Proof. exact nfc_keeps_clean_l. Qed.
Print Assumptions nfc_keeps_clean.

(** the crate's [normalize] (any form, code-point or grapheme mode — per-cluster normalisation
    included) keeps a whitespace-clean text whitespace-clean; the compatibility forms under the
    same side condition. This is [normalize(clean(s), NFKC, true)] of metrics.rs / dictionary.rs /
    train_bpe: outside the set, KF3 cannot happen *)
Theorem normalize_keeps_clean : forall f g s,
  cleansb s = true ->
  (match f with NFKC | NFKD => forall c, In c s -> ~ In c nfkc_makes_space | _ => True end) ->
  cleansb (normalize_model f g s) = true.
Proof. exact normalize_keeps_clean_l. Qed.
Print Assumptions normalize_keeps_clean.

(** ... and inside the set it does: "x ¨" is clean and has no mixed cluster, its NFKC has two
    spaces in a row and a cluster mixing U+0020 with U+0308 (the witness of KF3) *)
Theorem nfkc_breaks_clean_refuted :
  exists s, cleansb s = true /\ cleansb (nfkc s) = false
            /\ cleansb (normalize_model NFKC true s) = false
            /\ no_mixedb s = true /\ no_mixedb (normalize_model NFKC true s) = false.
Proof. exact nfkc_breaks_clean_l. Qed.
Print Assumptions nfkc_breaks_clean_refuted.

(** the side condition cannot be dropped for any member: after "x " each of them either breaks
    cleanness or (U+FDFA, U+FDFB: several words separated by single spaces) changes the number of words *)
Theorem nfkc_makes_space_all_break :
  forall c, In c nfkc_makes_space ->
  cleansb [120; 32; c] = true
  /\ (cleansb (nfkc [120; 32; c]) = false \/ length (words (nfkc [120; 32; c])) <> 2%nat).
Proof. exact makes_space_all_break_l. Qed.
Print Assumptions nfkc_makes_space_all_break.

(** ** the line iterator of the tie: the lines the harness writes are read back, a CR before
    the LF dropped *)
Theorem lines_roundtrip : forall raw,
  Forall (fun l => ~ In 10 l) raw -> NFKC_Tie.lines_of_file raw = map NFKC_Tie.strip_cr raw.
Proof. exact lines_of_file_spec. Qed.
Print Assumptions lines_roundtrip.

(** ** examples *)
(** decomposition + reordering: s + dot above (230) + dot below (220) | composition picks the
    dot below first | U+0344 decomposes to two marks | exclusions stay decomposed | singleton *)
Example nf_examples :
  nfd [7785] = [115; 803; 775] /\ nfc [115; 775; 803] = [7785]
  /\ nfd [836] = [776; 769] /\ nfc [2392] = [2325; 2364] /\ nfc [8491] = [197]
  /\ nfkc [64257] = [102; 105] /\ nfkd [9312] = [49].
Proof. vm_compute. repeat split; reflexivity. Qed.
(** Hangul L V T, LV T; U+11A7 (T_BASE) does not compose *)
Example nf_hangul :
  nfc [4352; 4449; 4520] = [44033] /\ nfd [54491] = [4369; 4465; 4534] /\ nfc [44032; 4519] = [44032; 4519]
  /\ nfc [44032; 4520] = [44033].
Proof. vm_compute. repeat split; reflexivity. Qed.
(** blocked: a + grave-below... C + cedilla + acute = U+1E08; with a second cedilla-class mark in
    front the cedilla is blocked; a starter in between blocks everything *)
Example nf_blocked :
  nfc [67; 807; 769] = [7688] /\ nfc [67; 769; 807] = [7688]
  /\ nfc [67; 801; 807; 769] = [262; 801; 807] /\ nfc [67; 97; 807] = [67; 97; 807].
Proof. vm_compute. repeat split; reflexivity. Qed.
(** per-cluster normalisation differs from whole-string normalisation: two compatibility jamo are
    two clusters, so they do not compose *)
Example normalize_cluster_example :
  normalize_model NFKC false [12593; 12623] = [44032] /\ normalize_model NFKC true [12593; 12623] = [4352; 4449].
Proof. vm_compute. split; reflexivity. Qed.
Example makes_space_example : nfkc [168] = [32; 776] /\ In 168 nfkc_makes_space
  /\ length nfkc_makes_space = 52%nat.
Proof. vm_compute. repeat split; try reflexivity. left. reflexivity. Qed.
(** the premises of [nfkc_keeps_clean] on a non-trivial text: "ﬁ é" + combining marks *)
Example keeps_clean_example :
  cleansb [64257; 32; 101; 769; 32; 12593] = true
  /\ forallb (fun c => negb (existsb (N.eqb c) nfkc_makes_space)) [64257; 32; 101; 769; 32; 12593] = true
  /\ nfkc [64257; 32; 101; 769; 32; 12593] = [102; 105; 32; 233; 32; 4352].
Proof. vm_compute. repeat split; reflexivity. Qed.

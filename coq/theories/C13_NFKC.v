(** KF3 from the outside: a DECIDABLE condition on the raw text alone ([C13_Model.kf3_free]) under which
    [prep raw = normalize(clean(raw, true), NFKC, true)] is whitespace-clean and (grapheme mode) free of
    mixed and empty clusters — the premise [clean_text] of the spelling theorems. Also the structure of
    the prepared text: its words are the per-cluster NFKC of the words of the raw text, in order
    (used by C20 as well). Low-level facts about the two ends of [nfkc cl] are in C13_NSeam.v. *)
From Coq Require Import Lia Permutation.
From TU Require Import Base UAX29_Model UAX29_Proofs C11_Model C11_Proofs NFKC_Model NFKC_Proofs NFKC_Clean NFKC_Graph.
From TU Require C11_UAX29 C11_Link C10_Model C10_Proofs.
From TU Require Import C13_NSeam.
From TU Require C13_Model.
Open Scope N_scope.

Module M := C13_Model.

(** * A. vocabulary *)
Lemma in_space_set_spec c : M.in_space_set c = true <-> In c nfkc_makes_space.
Proof.
  unfold M.in_space_set. rewrite existsb_exists. split.
  - intros (x & Hx & E). apply N.eqb_eq in E. subst. exact Hx.
  - intros H. exists c. split; [exact H|apply N.eqb_refl].
Qed.

Lemma avoids_spec s : M.avoids s = true <-> (forall c, In c s -> ~ In c nfkc_makes_space).
Proof.
  unfold M.avoids. rewrite forallb_forall. split; intros H c Hc.
  - intros Hin. specialize (H c Hc). apply negb_true_iff in H.
    apply in_space_set_spec in Hin. congruence.
  - apply negb_true_iff. destruct (M.in_space_set c) eqn:E; [|reflexivity].
    exfalso. apply (H c Hc), in_space_set_spec, E.
Qed.

Lemma seams_ok_same W : M.seams_ok W = C11_UAX29.seams_ok W.
Proof. reflexivity. Qed.

(** per-cluster NFKC of a piece of text: what [normalize(_, NFKC, true)] does to it *)
Definition nmz (w : list N) : list N := normalize_model NFKC true w.

Lemma nmz_eq w : nmz w = flat_map nfkc (segment w).
Proof. reflexivity. Qed.

(** * B. the normalised word *)
Lemma segment_cons a r : exists c cs, segment (a :: r) = (a :: c) :: cs.
Proof. cbn [segment]. apply seg_from_head. Qed.

Lemma in_segment_in s cl c : In cl (segment s) -> In c cl -> In c s.
Proof. intros H1 H2. rewrite <- (segment_concat_l s). apply in_concat. exists cl. split; assumption. Qed.

Lemma nows_sub s p : nows s -> (forall c, In c p -> In c s) -> nows p.
Proof. unfold nows. rewrite !Forall_forall. intros H Hs c Hc. apply H, Hs, Hc. Qed.

Lemma nows_flat_map {A} (f : A -> list N) l : (forall x, In x l -> nows (f x)) -> nows (flat_map f l).
Proof.
  induction l as [|x l IH]; intros H; [constructor|]. cbn [flat_map]. apply Forall_app. split.
  - apply H. left. reflexivity.
  - apply IH. intros y Hy. apply H. right. exact Hy.
Qed.

(** a White_Space-free word that avoids the set stays one non-empty White_Space-free word *)
Lemma nmz_word (w : list N) :
  cwordok w -> (forall c, In c w -> ~ In c nfkc_makes_space) -> cwordok (nmz w).
Proof.
  intros [Hne Hn] Ha. unfold str, cp in *. apply nows_forallb in Hn. split.
  - rewrite nmz_eq. destruct w as [|a r]; [congruence|]. destruct (segment_cons a r) as (c & cs & E). rewrite E.
    cbn [flat_map]. intros E2. apply app_eq_nil in E2 as [E2 _]. apply (nfkc_nonempty (a :: c)); [discriminate|exact E2].
  - apply nows_forallb. rewrite nmz_eq. apply nows_flat_map. intros cl Hcl.
    destruct (nf_piece NFKC cl) as [H1 _].
    + apply (nows_sub w); [exact Hn|]. intros c Hc. apply (in_segment_in w cl c Hcl Hc).
    + cbn [good]. intros c Hc. apply Ha. apply (in_segment_in w cl c Hcl Hc).
    + exact H1.
Qed.

Lemma hd_flat_map_ne {A B} (d : B) (f : A -> list B) x l : f x <> [] -> hd d (flat_map f (x :: l)) = hd d (f x).
Proof. intros H. cbn [flat_map]. apply hd_app_ne, H. Qed.

(** first code point of the normalised word *)
Lemma nmz_hd d a r : ws_joinable (hd d (nmz (a :: r))) = ws_joinable (hd d (decompose_char true a)).
Proof.
  rewrite nmz_eq. destruct (segment_cons a r) as (c & cs & E). rewrite E.
  rewrite hd_flat_map_ne by (apply nfkc_nonempty; discriminate). apply nfkc_hd_joinable.
Qed.

Lemma flat_map_app' {A B} (f : A -> list B) l1 l2 : flat_map f (l1 ++ l2) = flat_map f l1 ++ flat_map f l2.
Proof. apply flat_map_app. Qed.

Lemma last_concat_snoc (d : N) (L : list (list N)) (c : list N) : c <> [] -> last (concat (L ++ [c])) d = last c d.
Proof. intros H. rewrite concat_app. cbn [concat]. rewrite app_nil_r. apply last_app_ne, H. Qed.

(** last code point of the normalised word *)
Lemma nmz_last d w :
  is_prepend d = false -> w <> [] ->
  is_prepend (last (nmz w) d) = is_prepend (last (decompose_char true (last w d)) d).
Proof.
  intros Hd Hne. rewrite nmz_eq.
  assert (Hs : segment w <> []) by (intros E; apply segment_eq_nil in E; congruence).
  destruct (exists_last Hs) as (L & cl & E).
  assert (Hcl : cl <> []).
  { pose proof (segment_nonempty_l w) as F. rewrite E in F. apply Forall_app in F as [_ F]. inversion F; assumption. }
  destruct (exists_last Hcl) as (u & y & ->).
  assert (Hw : last w d = y).
  { rewrite <- (segment_concat_l w), E. rewrite last_concat_snoc by exact Hcl. apply last_snoc. }
  rewrite Hw, E, flat_map_app'. cbn [flat_map]. rewrite app_nil_r.
  rewrite last_app_ne by (apply nfkc_nonempty; exact Hcl). apply nfkc_last_prepend, Hd.
Qed.

(** the seam condition on the normalised words, read off the compatibility decomposition of ONE code
    point per side *)
Definition dhead (c : N) : N := hd 32 (decompose_char true c).
Definition dlast (c : N) : N := last (decompose_char true c) 32.
Fixpoint nseams_ok (W : list (list N)) : bool :=
  match W with
  | w1 :: (w2 :: _) as R =>
      negb (is_prepend (dlast (last w1 32))) && negb (ws_joinable (dhead (hd 32 w2))) && nseams_ok R
  | _ => true
  end.

Lemma seams_cons2 (w1 w2 : list N) R :
  C11_UAX29.seams_ok (w1 :: w2 :: R)
  = negb (is_prepend (last w1 32)) && negb (ws_joinable (hd 32 w2)) && C11_UAX29.seams_ok (w2 :: R).
Proof. reflexivity. Qed.
Lemma nseams_cons2 (w1 w2 : list N) R :
  nseams_ok (w1 :: w2 :: R)
  = negb (is_prepend (dlast (last w1 32))) && negb (ws_joinable (dhead (hd 32 w2))) && nseams_ok (w2 :: R).
Proof. reflexivity. Qed.

Lemma seams_nmz (W : list (list N)) : Forall cwordok W -> C11_UAX29.seams_ok (map nmz W) = nseams_ok W.
Proof.
  induction W as [|w1 R IH]; intros H; [reflexivity|]. inversion H as [|? ? [Hne1 _] HR]; subst.
  destruct R as [|w2 R']; [reflexivity|]. inversion HR as [|? ? [Hne2 _] _]; subst.
  change (map nmz (w1 :: w2 :: R')) with (nmz w1 :: nmz w2 :: map nmz R').
  rewrite seams_cons2, nseams_cons2. change (nmz w2 :: map nmz R') with (map nmz (w2 :: R')). rewrite (IH HR).
  f_equal. f_equal.
  - unfold dlast. rewrite (nmz_last 32 w1 eq_refl Hne1). reflexivity.
  - unfold dhead. destruct w2 as [|a r]; [exfalso; apply Hne2; reflexivity|]. cbn [hd]. rewrite nmz_hd. reflexivity.
Qed.

(** * C. the prepared text *)
Lemma flat_map_join (f : list N -> list N) (Ls : list (list (list N))) :
  f [32] = [32] ->
  flat_map f (join [[32]] Ls) = join [32] (map (flat_map f) Ls).
Proof.
  intros H32. induction Ls as [|l r IH]; [reflexivity|]. destruct r as [|l' r'].
  - cbn [join map]. reflexivity.
  - rewrite (@join_cons (list N) [[32]] l (l' :: r')) by discriminate.
    change (map (flat_map f) (l :: l' :: r')) with (flat_map f l :: map (flat_map f) (l' :: r')).
    rewrite (@join_cons N [32] (flat_map f l) (map (flat_map f) (l' :: r'))) by discriminate.
    rewrite !flat_map_app'. cbn [flat_map]. rewrite H32, IH. reflexivity.
Qed.

Lemma nfkc_space : nfkc [32] = [32].
Proof. apply (nf_ascii_l NFKC). constructor; [lia|constructor]. Qed.

(** the prepared text: the words of the raw text, each normalised cluster by cluster, joined by U+0020 *)
Lemma prep_words s :
  no_mixedb s = true -> C11_UAX29.seam_free s = true ->
  M.prep s = join [32] (map nmz (words s)).
Proof.
  intros Hm Hs. unfold M.prep, normalize_model. rewrite (C11_UAX29.segment_clean_l s Hm Hs).
  rewrite (flat_map_join nfkc) by apply nfkc_space. rewrite map_map. reflexivity.
Qed.

Lemma avoids_words s w : M.avoids s = true -> In w (words s) -> forall c, In c w -> ~ In c nfkc_makes_space.
Proof. intros Ha Hw c Hc. apply (proj1 (avoids_spec s) Ha). apply (in_words_in s w c Hw Hc). Qed.

Lemma nmz_words_ok s : M.avoids s = true -> Forall cwordok (map nmz (words s)).
Proof.
  intros Ha. rewrite Forall_forall. intros w' Hw'. apply in_map_iff in Hw' as (w & <- & Hw).
  pose proof (words_ok s) as Hok. rewrite Forall_forall in Hok.
  apply nmz_word; [apply Hok, Hw|apply (avoids_words s w Ha Hw)].
Qed.

(** ... hence the words of the prepared text are the normalised words of the raw text, in order *)
Lemma words_prep s :
  no_mixedb s = true -> M.avoids s = true -> C11_UAX29.seam_free s = true ->
  words (M.prep s) = map nmz (words s).
Proof. intros Hm Ha Hs. rewrite (prep_words s Hm Hs). apply words_join, nmz_words_ok, Ha. Qed.

(** whitespace-clean: needs no seam condition *)
Lemma prep_cleansb s : no_mixedb s = true -> M.avoids s = true -> cleansb (M.prep s) = true.
Proof.
  intros Hm Ha. unfold M.prep. apply (normalize_keeps_clean_l NFKC true).
  - apply C11_UAX29.clean_clean_u_l, Hm.
  - intros c Hc Hin. pose proof (proj1 (makes_space_spec_l c) Hin) as [Hw _].
    (* a non-White_Space code point of the cleaned text is a code point of the text *)
    assert (Hs : In c (strip_cps (clean (segment s)))) by (apply filter_In; split; [exact Hc|unfold nonws_cp; rewrite Hw; reflexivity]).
    rewrite C11_UAX29.clean_nonws_u_l in Hs. apply filter_In in Hs as [Hs _].
    exact (proj1 (avoids_spec s) Ha c Hs Hin).
Qed.

(** ** NFKC does not change the seam classes. Table fact (all 5930 entries of the two decomposition
    tables): the first code point of a full decomposition attaches to a preceding space iff the key
    does, and its last code point is a Prepend iff the key is. Hangul syllables and jamo are neither. *)
Definition seam_key_ok (e : N * list N) : bool :=
  Bool.eqb (ws_joinable (hd 32 (snd e))) (ws_joinable (fst e))
  && Bool.eqb (is_prepend (last (snd e) 32)) (is_prepend (fst e)).

Lemma table_decomposition_seam c dd :
  table_decomposition true c = Some dd ->
  ws_joinable (hd 32 dd) = ws_joinable c /\ is_prepend (last dd 32) = is_prepend c.
Proof.
  rewrite table_decomposition_spec_l. intros H.
  assert (P : seam_key_ok (c, dd) = true).
  { destruct (alookup compat_decomp_table c) as [v|] eqn:E.
    - injection H as <-. apply (alookup_forall seam_key_ok compat_decomp_table c v); [vm_compute; reflexivity|exact E].
    - apply (alookup_forall seam_key_ok canon_decomp_table c dd); [vm_compute; reflexivity|exact H]. }
  unfold seam_key_ok in P. cbn [fst snd] in P. apply andb_true_iff in P as [P1 P2].
  apply Bool.eqb_prop in P1, P2. auto.
Qed.

Lemma decompose_char_seam c : ws_joinable (dhead c) = ws_joinable c /\ is_prepend (dlast c) = is_prepend c.
Proof.
  unfold dhead, dlast, decompose_char. destruct (c <=? 127); [split; reflexivity|].
  destruct (is_hangul_syllable c) eqn:E2.
  - destruct (hangul_parts c E2) as (Hl & Hv & Ht). cbv zeta in *. unfold decompose_hangul.
    assert (Hc : 44032 <= c /\ c <= 55203).
    { unfold is_hangul_syllable, S_BASE, S_COUNT in E2. apply andb_true_iff in E2 as [H1 H2].
      apply N.leb_le in H1. apply N.ltb_lt in H2. lia. }
    set (li := (c - S_BASE) / N_COUNT) in *. set (vi := (c - S_BASE) mod N_COUNT / T_COUNT) in *.
    set (ti := (c - S_BASE) mod T_COUNT) in *. clearbody li vi ti.
    unfold L_BASE, V_BASE, T_BASE, L_COUNT, V_COUNT, T_COUNT in *.
    destruct (hangul_plain c (or_intror Hc)) as [C1 C2]. rewrite C1, C2. cbn [hd]. split.
    + apply (hangul_plain (4352 + li)). left. lia.
    + destruct (0 <? ti); cbn [last].
      * apply (hangul_plain (4519 + ti)). left. lia.
      * apply (hangul_plain (4449 + vi)). left. lia.
  - destruct (table_decomposition true c) as [dd|] eqn:E3; [|split; reflexivity].
    apply table_decomposition_seam, E3.
Qed.

Lemma nseams_same (W : list (list N)) : nseams_ok W = C11_UAX29.seams_ok W.
Proof.
  induction W as [|w1 R IH]; [reflexivity|]. destruct R as [|w2 R']; [reflexivity|].
  rewrite seams_cons2, nseams_cons2, IH.
  destruct (decompose_char_seam (last w1 32)) as [_ ->]. destruct (decompose_char_seam (hd 32 w2)) as [-> _].
  reflexivity.
Qed.

(** "no mixed cluster after normalisation" (the half of KF3 that NFKC_Props leaves open): a text that
    has no mixed cluster, avoids the set and is seam-free is prepared into a text without mixed cluster *)
Lemma prep_no_mixed s :
  no_mixedb s = true -> M.avoids s = true -> C11_UAX29.seam_free s = true ->
  no_mixedb (M.prep s) = true.
Proof.
  intros Hm Ha Hs. rewrite (prep_words s Hm Hs).
  rewrite (C11_UAX29.no_mixedb_join_eq _ (nmz_words_ok s Ha)).
  rewrite (seams_nmz _ (words_ok s)), nseams_same. exact Hs.
Qed.

(** * D. [kf3_free] gives the premise of the spelling theorems *)
Lemma kf3_free_parts g s : M.kf3_free g s = true ->
  no_mixedb s = true /\ M.avoids s = true /\ (g = true -> C11_UAX29.seam_free s = true).
Proof.
  unfold M.kf3_free. intros H. apply andb_true_iff in H as [H H3]. apply andb_true_iff in H as [H1 H2].
  split; [exact H1|]. split; [exact H2|]. intros ->. exact H3.
Qed.

Lemma wf_clusters_of g t : (g = true -> no_mixedb t = true) -> wf_seg (M.clusters_of g t) = true.
Proof.
  intros H. unfold M.clusters_of. destruct g.
  - rewrite C11_UAX29.wf_seg_segment. apply H. reflexivity.
  - apply wf_singletons.
Qed.

Lemma concat_clusters_of g t : concat (M.clusters_of g t) = t.
Proof. unfold M.clusters_of. destruct g; [apply segment_concat_l|apply concat_singletons]. Qed.

Lemma solid_of_wf seg : wf_seg seg = true -> forallb M.solid seg = true.
Proof.
  unfold wf_seg. rewrite !forallb_forall. intros H c Hc. specialize (H c Hc).
  apply andb_true_iff in H as [Hn Hm]. unfold M.solid, nomixed_cl in *.
  destruct (cl_ws c); [reflexivity|]. cbn [orb] in *. unfold M.is_nil. unfold is_nil in Hn.
  destruct c; [discriminate|]. cbn [negb andb]. unfold nonws_cp in Hm. exact Hm.
Qed.

(** whitespace-clean text + a segmentation without mixed or empty clusters = [clean_text] *)
Lemma clean_text_of t seg :
  cleansb t = true -> concat seg = t -> wf_seg seg = true -> M.clean_text seg = true.
Proof.
  intros Hc He Hw. unfold M.clean_text. apply andb_true_iff. split.
  - apply C10_Proofs.cleanb_spec. apply (C11_Link.Clean_of_cleansb t seg Hc He Hw).
  - apply solid_of_wf, Hw.
Qed.

Lemma kf3_free_clean_text g s : M.kf3_free g s = true -> M.clean_text (M.text_of g s) = true.
Proof.
  intros H. destruct (kf3_free_parts g s H) as (Hm & Ha & Hg). unfold M.text_of.
  apply (clean_text_of (M.prep s)); [apply prep_cleansb; assumption|apply concat_clusters_of|].
  apply wf_clusters_of. intros ->. apply prep_no_mixed; auto.
Qed.

(** the condition and the class are disjoint *)
Lemma kf3_free_not_class g s : M.kf3_free g s = true -> M.kf3_class g s = false.
Proof.
  intros H. destruct (kf3_free_parts g s H) as (Hm & Ha & Hg). unfold M.kf3_class. cbv zeta.
  rewrite (prep_cleansb s Hm Ha). destruct g; [|reflexivity].
  rewrite (prep_no_mixed s Hm Ha (Hg eq_refl)). reflexivity.
Qed.

(** code-point mode, text in the property's domain that avoids the set: never in the class *)
Lemma kf3_class_cp s : no_mixedb s = true -> M.avoids s = true -> M.kf3_class false s = false.
Proof. intros Hm Ha. unfold M.kf3_class. cbv zeta. rewrite (prep_cleansb s Hm Ha). reflexivity. Qed.

(** the class is inhabited inside the set ("x ¨"); and [kf3_free] is sufficient, not necessary:
    U+FDFA is in the set, yet its NFKC (four Arabic words separated by single spaces) is clean *)
Lemma kf3_class_witness :
  M.kf3_class true [120; 32; 168] = true /\ M.kf3_class false [120; 32; 168] = true
  /\ M.kf3_free true [120; 32; 168] = false /\ M.kf3_free false [120; 32; 168] = false
  /\ no_mixedb [120; 32; 168] = true.
Proof. vm_compute. repeat split; reflexivity. Qed.

Lemma kf3_free_not_necessary :
  M.kf3_free true [65018] = false /\ M.kf3_free false [65018] = false
  /\ M.kf3_class true [65018] = false /\ M.kf3_class false [65018] = false.
Proof. vm_compute. repeat split; reflexivity. Qed.

(** C20 — the property-level lemmas about [create], [freq_sum], [save]/[load], [get_closest]. *)
From TU Require Import Base C12_Model C20_Model C20_Topk C20_Counts C20_SaveLoad C20_Closest.
From Coq Require Import Lia ZifyBool ZifyNat ZifyN Permutation Sorted QArith.
Open Scope N_scope.
Arguments N.add : simpl never. Arguments N.sub : simpl never. Arguments N.mul : simpl never.
Arguments N.eqb : simpl never. Arguments N.ltb : simpl never. Arguments N.leb : simpl never.

Lemma nodup_app_r : forall A (a b : list A), NoDup (a ++ b) -> NoDup b.
Proof. induction a as [|x a IH]; intros b H; [exact H|]. inversion H; subst. apply IH. assumption. Qed.

(** * take *)
Lemma take_opt_firstn : forall A k (l : list A), take_opt (Some k) l = firstn (N.to_nat k) l.
Proof.
  intros A k l. unfold take_opt. destruct (N.of_nat (length l) <=? k) eqn:E; [|reflexivity].
  symmetry. apply firstn_all2. lia.
Qed.

(** * counting *)
Lemma counts_exact_l : forall (ls : list (list word)) (arr : list cmap),
  Permutation arr (map count_line ls) ->
  NoDup (keys (reduce arr)) /\
  forall w, lookup w (reduce arr) = if memb w (concat ls) then Some (count_tok w (concat ls)) else None.
Proof. intros ls arr P. split; [eapply reduce_nodup | apply reduce_lookup; exact P]. Qed.

Lemma counts_perm_l : forall ls1 ls2 arr1 arr2,
  Permutation arr1 (map count_line ls1) -> Permutation arr2 (map count_line ls2) ->
  Permutation (concat ls1) (concat ls2) ->
  Permutation (reduce arr1) (reduce arr2) /\ forall w, lookup w (reduce arr1) = lookup w (reduce arr2).
Proof.
  intros ls1 ls2 arr1 arr2 P1 P2 Pc. pose proof (reduce_perm _ _ _ _ P1 P2 Pc) as P. split; [exact P|].
  intro w. destruct (lookup w (reduce arr1)) as [v|] eqn:E.
  - symmetry. apply in_lookup; [eapply reduce_nodup|]. eapply Permutation_in; [exact P|]. apply lookup_in, E.
  - destruct (lookup w (reduce arr2)) as [v|] eqn:E2; [|reflexivity].
    apply lookup_in in E2. eapply Permutation_in in E2; [|apply Permutation_sym, P].
    apply in_lookup in E2; [congruence|eapply reduce_nodup].
Qed.

(** * top-k *)
Definition cap_len (cap : option N) (n : nat) : N :=
  match cap with None => N.of_nat n | Some k => N.min k (N.of_nat n) end.
Lemma kmin_cap_len : forall cap n, N.of_nat (kmin cap n) = cap_len cap n.
Proof. intros [k|] n; unfold kmin, cap_len; [|reflexivity]. destruct (N.of_nat n <=? k) eqn:E; lia. Qed.

Lemma topk_spec_l : forall cap order,
  (forall order', Permutation order order' -> topk cap order' = topk cap order)
  /\ StronglySorted ele (topk cap order)
  /\ (exists omitted, Permutation (omitted ++ topk cap order) order
        /\ forall x y, In x omitted -> In y (topk cap order) -> entry_leb x y = true /\ fst x <= fst y)
  /\ N.of_nat (length (topk cap order)) = cap_len cap (length order)
  /\ (cap = None -> Permutation (topk cap order) order)
  /\ (cap = Some 0 -> topk cap order = []).
Proof.
  intros cap order. split; [|split; [|split; [|split; [|split]]]].
  - intros order' P. symmetry. apply topk_perm_eq, P.
  - apply topk_sorted.
  - exists (omitted cap order). split; [apply topk_split|]. intros x y Hx Hy.
    pose proof (topk_omitted_le cap order x y Hx Hy) as H. split; [exact H|apply entry_leb_freq, H].
  - rewrite topk_length. apply kmin_cap_len.
  - intros ->. rewrite topk_none. apply isort_perm.
  - intros ->. apply topk_zero_l.
Qed.

(** * create *)
Section Create.
  Variables (chars : bool) (cg : N) (max_size max_seq : option N) (lines : list linfo).
  Let toks := all_tokens chars cg max_seq lines.
  Let ls := map (line_tokens chars (N.to_nat cg)) (take_opt max_seq lines).

  Lemma toks_concat : toks = concat ls.
  Proof. unfold toks, ls, all_tokens. apply flat_map_concat_map. Qed.

  (** the reducer's table in [create] *)
  Definition table (arr : list nat) : cmap :=
    reduce (permute arr (map (fun l => count_line (line_tokens chars (N.to_nat cg) l)) (take_opt max_seq lines))).

  Lemma table_arr : forall arr,
    Permutation (permute arr (map (fun l => count_line (line_tokens chars (N.to_nat cg) l)) (take_opt max_seq lines)))
                (map count_line ls).
  Proof. intro arr. unfold ls. rewrite map_map. apply permute_perm. Qed.

  Lemma create_ok : forall arr hp, cfg_bad chars cg = false ->
    create chars cg max_size max_seq lines arr hp = Ok (map swap_e (topk max_size (map swap_d (table arr)))).
  Proof.
    intros arr hp Hb. unfold create. rewrite Hb. fold (table arr). f_equal. f_equal.
    apply topk_perm_eq, permute_perm.
  Qed.

  Lemma create_bad : forall arr hp, cfg_bad chars cg = true ->
    create chars cg max_size max_seq lines arr hp = ErrCfg.
  Proof. intros. unfold create. rewrite H. reflexivity. Qed.

  Lemma create_no_overflow_l : forall arr hp, create chars cg max_size max_seq lines arr hp <> Overflow.
  Proof. intros arr hp. unfold create. destruct (cfg_bad chars cg); discriminate. Qed.

  (** any two schedules (arrival order at the reducer, iteration order of the map) give the same dictionary *)
  Lemma create_schedule_free_l : forall arr hp arr' hp',
    create chars cg max_size max_seq lines arr hp = create chars cg max_size max_seq lines arr' hp'.
  Proof.
    intros arr hp arr' hp'. destruct (cfg_bad chars cg) eqn:Hb.
    - rewrite !create_bad by exact Hb. reflexivity.
    - rewrite !create_ok by exact Hb. f_equal. f_equal. apply topk_perm_eq. apply Permutation_map.
      unfold table. eapply reduce_perm; try apply table_arr. apply Permutation_refl.
  Qed.

  Lemma swap_e_d : forall e, swap_e (swap_d e) = e.
  Proof. intros [a b]. reflexivity. Qed.
  Lemma swap_d_e : forall e, swap_d (swap_e e) = e.
  Proof. intros [a b]. reflexivity. Qed.
  Lemma map_swap_e_d : forall l, map swap_e (map swap_d l) = l.
  Proof. intro l. rewrite map_map. rewrite <- (map_id l) at 2. apply map_ext, swap_e_d. Qed.
  Lemma map_swap_d_e : forall l, map swap_d (map swap_e l) = l.
  Proof. intro l. rewrite map_map. rewrite <- (map_id l) at 2. apply map_ext, swap_d_e. Qed.

  Variables (arr hp : list nat) (d : dict).
  Hypothesis Hc : create chars cg max_size max_seq lines arr hp = Ok d.

  Lemma Hgood : cfg_bad chars cg = false.
  Proof. destruct (cfg_bad chars cg) eqn:E; [|reflexivity]. rewrite create_bad in Hc by exact E. discriminate. Qed.
  Lemma d_eq : d = map swap_e (topk max_size (map swap_d (table arr))).
  Proof. rewrite (create_ok arr hp Hgood) in Hc. injection Hc as <-. reflexivity. Qed.

  Let T := table arr.
  Let om := map swap_e (omitted max_size (map swap_d T)).

  Lemma d_split : Permutation (om ++ d) T.
  Proof.
    unfold om. rewrite d_eq, <- map_app. fold T.
    eapply perm_trans; [apply Permutation_map, topk_split|]. rewrite map_swap_e_d. apply Permutation_refl.
  Qed.
  Lemma d_incl : forall e, In e d -> In e T.
  Proof. intros e H. eapply Permutation_in; [apply d_split|]. apply in_or_app. right. exact H. Qed.
  Lemma T_nodup : NoDup (keys T).
  Proof. unfold T, table. eapply reduce_nodup. Qed.

  Lemma create_nodup : NoDup (keys d).
  Proof.
    pose proof T_nodup as N. unfold keys in *.
    eapply Permutation_NoDup in N; [|apply Permutation_map, Permutation_sym, d_split].
    rewrite map_app in N. apply nodup_app_r in N. exact N.
  Qed.

  (** every entry is the exact, positive number of occurrences among the counted lines *)
  Lemma create_counts : forall w f, In (w, f) d -> f = count_tok w toks /\ 0 < f.
  Proof.
    intros w f H. apply d_incl in H. unfold T, table in H. rewrite toks_concat.
    eapply reduce_entry; [apply table_arr|exact H].
  Qed.

  (** a token is in the table iff it occurs *)
  Lemma T_keys : forall w, In w (keys T) <-> In w toks.
  Proof. intro w. unfold T, table. rewrite toks_concat. eapply reduce_keys. apply table_arr. Qed.

  (** an omitted token is not more frequent than any kept entry (and is smaller in the heap order) *)
  Lemma create_omitted : forall w, In w toks -> ~ In w (keys d) ->
    forall w' f', In (w', f') d ->
      entry_leb (count_tok w toks, w) (f', w') = true /\ count_tok w toks <= f'.
  Proof.
    intros w Hw Hn w' f' Hd.
    apply T_keys in Hw. unfold keys in Hw. apply in_map_iff in Hw as [[k v] [Ek Hin]]. cbn [fst] in Ek. subst k.
    assert (Hv : v = count_tok w toks).
    { unfold T, table in Hin. rewrite toks_concat. eapply reduce_entry; [apply table_arr|exact Hin]. }
    eapply Permutation_in in Hin; [|apply Permutation_sym, d_split].
    apply in_app_or in Hin as [Hin|Hin].
    - unfold om in Hin. apply in_map_iff in Hin as [[f0 w0] [E0 Hin]]. unfold swap_e in E0. cbn [fst snd] in E0.
      injection E0 as -> ->.
      assert (Hk : In (f', w') (topk max_size (map swap_d T))).
      { rewrite d_eq in Hd. fold T in Hd. apply in_map_iff in Hd as [[f1 w1] [E1 Hd]]. unfold swap_e in E1.
        cbn [fst snd] in E1. injection E1 as -> ->. exact Hd. }
      pose proof (topk_omitted_le _ _ _ _ Hin Hk) as L. unfold ele in L. rewrite <- Hv.
      split; [exact L|]. apply entry_leb_freq in L. exact L.
    - exfalso. apply Hn. unfold keys. apply in_map_iff. exists (w, v). split; [reflexivity|exact Hin].
  Qed.

  Lemma dedup_in : forall w l, In w (dedup l) <-> In w l.
  Proof.
    intros w l. induction l as [|x t IH]; cbn [dedup]; [tauto|].
    destruct (memb x t) eqn:E; cbn [In]; rewrite IH.
    - split; [auto|]. intros [<-|H]; [|exact H].
      clear -E. induction t as [|y t IH]; cbn [memb] in E; [discriminate|].
      apply orb_true_iff in E as [E|E]; [left; symmetry; apply bytes_eqb_eq, E|right; apply IH, E].
    - tauto.
  Qed.
  Lemma memb_in : forall w l, memb w l = true <-> In w l.
  Proof.
    intros w l. induction l as [|x t IH]; cbn [memb In]; [split; [discriminate|tauto]|].
    rewrite orb_true_iff, IH, bytes_eqb_eq. intuition.
  Qed.
  Lemma dedup_nodup : forall l, NoDup (dedup l).
  Proof.
    induction l as [|x t IH]; cbn [dedup]; [constructor|]. destruct (memb x t) eqn:E; [exact IH|].
    constructor; [|exact IH]. rewrite dedup_in. intro H. apply memb_in in H. congruence.
  Qed.

  (** the table has one entry per distinct token *)
  Lemma T_length : length T = length (dedup toks).
  Proof.
    rewrite <- (map_length fst T). apply Permutation_length. apply NoDup_Permutation.
    - apply T_nodup.
    - apply dedup_nodup.
    - intro w. rewrite dedup_in. apply T_keys.
  Qed.

  (** restricted to [max_size] entries; all of them when [max_size] is absent *)
  Lemma create_length : N.of_nat (length d) = cap_len max_size (length (dedup toks)).
  Proof.
    rewrite d_eq, map_length, topk_length, map_length. fold T. rewrite T_length. apply kmin_cap_len.
  Qed.
  Lemma create_none_all : max_size = None -> forall w, In w toks -> In w (keys d).
  Proof.
    intros Hm w Hw. apply T_keys in Hw. unfold keys in *. eapply Permutation_in; [|exact Hw].
    apply Permutation_map. rewrite d_eq. fold T. rewrite Hm, topk_none. apply Permutation_sym.
    eapply perm_trans; [apply Permutation_map, isort_perm|]. rewrite map_swap_e_d. apply Permutation_refl.
  Qed.

  (** freq_sum *)
  Lemma freq_sum_counts : freq_sum d = sumN (map (fun w => count_tok w toks) (keys d)).
  Proof.
    unfold freq_sum, keys. rewrite map_map. f_equal. apply map_ext_in. intros [w f] H. cbn [fst snd].
    apply create_counts in H. tauto.
  Qed.
  Lemma freq_sum_all : max_size = None -> freq_sum d = N.of_nat (length toks).
  Proof.
    intro Hm. unfold freq_sum. rewrite d_eq, Hm, topk_none. fold T.
    rewrite (sumN_perm _ (map snd T)).
    - unfold T, table. rewrite toks_concat. eapply reduce_sum. apply table_arr.
    - apply Permutation_map. eapply perm_trans; [apply Permutation_map, isort_perm|].
      rewrite map_swap_e_d. apply Permutation_refl.
  Qed.

  (** the items are listed in ascending (freq, word) order *)
  Lemma create_sorted : StronglySorted ele (map swap_d d).
  Proof. rewrite d_eq, map_swap_d_e. apply topk_sorted. Qed.
End Create.

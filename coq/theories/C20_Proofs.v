(** C20 — lemmas and proofs. *)
From TU Require Import Base C12_Model C20_Model.
From Coq Require Import Lia ZifyBool ZifyNat ZifyN Permutation.
Open Scope N_scope.

Lemma hpush_length : forall e h, length (hpush e h) = S (length h).
Proof. induction h as [|x t IH]; cbn [hpush length]; [reflexivity|]. destruct (entry_leb e x); cbn [length]; lia. Qed.

Lemma topk_zero_l : forall order, topk (Some 0) order = [].
Proof.
  intro order. unfold topk.
  assert (H : forall l, fold_left (push_bounded (Some 0)) l [] = []).
  { induction l as [|e l IH]; [reflexivity|]. cbn [fold_left]. unfold push_bounded at 2. cbn [hpush over length tl].
    replace (0 <? N.of_nat 1) with true by reflexivity. exact IH. }
  apply H.
Qed.

Lemma create_pinned_overflow_l : forall chars cg ms lines arr hp,
  cfg_bad chars cg = false -> create_pinned chars cg None ms lines arr hp = Overflow.
Proof. intros. unfold create_pinned. rewrite H. reflexivity. Qed.

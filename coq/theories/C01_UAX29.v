(** C01 with the segmenter inside the model.

    Part 1 (definitions, used by C01_Extract.v and C17): [uax29_agree] — every cluster list of
    the oracle (one per regular segment of the special-token split, produced by the real
    CharString) must be the model's own segmentation of the segment it spells
    ([UAX29_Model.segment] in grapheme mode, one cluster per code point otherwise).  Part of the
    correspondence relation [agree], not of [check_C01].  (It lives here and not in C01_Model.v
    because that file is shared with C04.)  [oracle_u g segs] is the oracle computed by the model.

    Part 2: the character-tokenizer theorems with [oracle_u]: the premises [clusters_ok] /
    [oracle_okb] disappear, and [over_alphabet] ("every cluster is a single code point of the
    alphabet", which hid "code points of the alphabet never join") is replaced by a decidable
    condition on the alphabet alone ([alphabet_any]: all of category Any, true of printable ASCII
    and of the alphabet of the real tokenizer) plus "the regular segments are over the alphabet". *)
From TU Require Import Base UAX29_Model UAX29_Proofs C01_Model C01_Proofs.
From Coq Require Import Lia.
Open Scope N_scope.

(** * Part 1: definitions *)
Fixpoint cls_eqb (a b : list cluster) : bool :=
  match a, b with
  | [], [] => true
  | x :: a', y :: b' => nlist_eqb x y && cls_eqb a' b'
  | _, _ => false
  end.
Definition seg_of (g : bool) (s : str) : list cluster := if g then segment s else singletons s.
Definition seg_checked (g : bool) (seg : list cluster) : bool := cls_eqb (seg_of g (concat seg)) seg.
(** all cluster lists of an oracle *)
Definition oracle_checked (g : bool) (os : list (list cluster)) : bool := forallb (seg_checked g) os.
Definition uax29_agree (v : val) : bool :=
  oracle_checked (v_bool (v_nth 1 v)) (v_list (v_list v_str) (v_nth 12 v)).

(** the oracle computed by the model: one cluster list per regular segment *)
Fixpoint oracle_u (g : bool) (segs : list seg) : list (list cluster) :=
  match segs with
  | [] => []
  | Reg r :: rest => seg_of g r :: oracle_u g rest
  | Spec _ :: rest => oracle_u g rest
  end.

(** number of characters of a split text: clusters of [segment] per regular segment, one per
    special token *)
Fixpoint n_chars_u (segs : list seg) : nat :=
  match segs with
  | [] => 0
  | Reg r :: rest => length (segment r) + n_chars_u rest
  | Spec _ :: rest => 1 + n_chars_u rest
  end.

(** the character tokenizer in grapheme mode, segmenting by itself *)
Definition char_tokenize_u (b : base) (A : list cp) (unk : str) (s : str) (ign : bool) : option (list N) :=
  char_tokenize b A unk true s ign (oracle_u true (split_input (b_sv b) s ign)).

(** every code point of every regular segment is in the alphabet *)
Definition in_A (A : list cp) (x : cp) : bool :=
  match index_ofN x A with Some _ => true | None => false end.
Fixpoint regs_over (A : list cp) (segs : list seg) : bool :=
  match segs with
  | [] => true
  | Reg r :: rest => forallb (in_A A) r && regs_over A rest
  | Spec _ :: rest => regs_over A rest
  end.

(** a decidable condition on the alphabet under which its code points never join: all have
    grapheme category Any (GB999 on both sides) *)
Definition is_any (c : cp) : bool := match gcb c with GC_Any => true | _ => false end.
Definition alphabet_any (A : list cp) : bool := forallb is_any A.

(** the alphabet of the real character tokenizer (src/tokenization.rs CHARS after [unique],
    as reported by [get_vocab]): a-z A-Z 0-9, the ASCII punctuation, space *)
Definition chars_alphabet : list cp :=
  [97;98;99;100;101;102;103;104;105;106;107;108;109;110;111;112;113;114;115;116;117;118;119;120;121;122;
   65;66;67;68;69;70;71;72;73;74;75;76;77;78;79;80;81;82;83;84;85;86;87;88;89;90;
   48;49;50;51;52;53;54;55;56;57;
   34;33;35;36;37;38;39;40;41;42;43;44;45;46;47;58;59;60;61;62;63;64;91;92;93;94;95;96;123;124;125;126;32].

(** * Part 2: proofs *)
Lemma nlist_eqb_refl l : nlist_eqb l l = true.
Proof. induction l as [|x l IH]; [reflexivity|]. cbn [nlist_eqb]. rewrite N.eqb_refl. exact IH. Qed.
Lemma cls_eqb_refl l : cls_eqb l l = true.
Proof. induction l as [|x l IH]; [reflexivity|]. cbn [cls_eqb]. rewrite nlist_eqb_refl. exact IH. Qed.
Lemma cls_eqb_true a : forall b, cls_eqb a b = true -> a = b.
Proof.
  induction a as [|x a IH]; intros [|y b] H; cbn [cls_eqb] in H; try discriminate; [reflexivity|].
  apply andb_true_iff in H as [H1 H2]. apply nlist_eqb_eq in H1. subst y. rewrite (IH b H2). reflexivity.
Qed.

Lemma seg_of_concat g s : concat (seg_of g s) = s.
Proof. destruct g; [apply segment_concat_l|apply concat_singletons]. Qed.

Lemma singletons_nonempty s : Forall (fun c : cluster => c <> []) (singletons s).
Proof. unfold singletons. induction s as [|x s IH]; cbn [map]; constructor; [discriminate|exact IH]. Qed.
Lemma seg_of_nonempty g s : Forall (fun c => c <> []) (seg_of g s).
Proof. destruct g; [apply segment_nonempty_l|apply singletons_nonempty]. Qed.

Lemma seg_checked_seg_of g s : seg_checked g (seg_of g s) = true.
Proof. unfold seg_checked. rewrite seg_of_concat. apply cls_eqb_refl. Qed.

Lemma seg_checked_sound g seg : seg_checked g seg = true -> seg = seg_of g (concat seg).
Proof. unfold seg_checked. intros H. symmetry. apply cls_eqb_true. exact H. Qed.

(** the model's oracle passes the correspondence test and the consistency test of the model *)
Lemma oracle_u_checked g segs : oracle_checked g (oracle_u g segs) = true.
Proof.
  unfold oracle_checked. induction segs as [|[r|t] rest IH]; cbn [oracle_u forallb]; [reflexivity| |exact IH].
  rewrite seg_checked_seg_of. exact IH.
Qed.

Lemma oracle_u_okb g segs : oracle_okb segs (oracle_u g segs) = true.
Proof.
  induction segs as [|[r|t] rest IH]; cbn [oracle_u oracle_okb]; [reflexivity| |exact IH].
  rewrite seg_of_concat, nlist_eqb_refl, IH, andb_true_r. cbn [andb].
  pose proof (seg_of_nonempty g r) as H. rewrite forallb_forall. rewrite Forall_forall in H.
  intros c Hc. specialize (H c Hc). destruct c; [congruence|reflexivity].
Qed.

Lemma uax29_agree_sound_l v : uax29_agree v = true ->
  Forall (fun o => o = seg_of (v_bool (v_nth 1 v)) (concat o)) (v_list (v_list v_str) (v_nth 12 v)).
Proof.
  unfold uax29_agree, oracle_checked. intros H. rewrite forallb_forall in H. rewrite Forall_forall.
  intros o Ho. apply seg_checked_sound, H, Ho.
Qed.

Lemma clusters_ok_u segs : clusters_ok true segs (oracle_u true segs).
Proof. apply clusters_ok_oracle, oracle_u_okb. Qed.

Lemma n_chars_oracle_u segs : n_chars true segs (oracle_u true segs) = n_chars_u segs.
Proof.
  induction segs as [|[r|t] rest IH]; cbn [n_chars n_chars_u oracle_u hd tl clusters_of seg_of];
    [reflexivity|rewrite IH; reflexivity|rewrite IH; reflexivity].
Qed.

(** ** one id per cluster of [segment] *)
Lemma char_len_u_l A tokens unk pad prefix suffix b s ign :
  char_base A tokens unk pad prefix suffix = Some b ->
  exists ids, char_tokenize_u b A unk s ign = Some ids /\
    length ids = (length prefix + n_chars_u (split_input (b_sv b) s ign) + length suffix)%nat
    /\ (ign = true -> length ids = (length prefix + length (segment s) + length suffix)%nat).
Proof.
  intros Hb. unfold char_tokenize_u.
  destruct (char_len_l A tokens unk pad prefix suffix b true s ign
              (oracle_u true (split_input (b_sv b) s ign)) Hb) as (ids & E & L).
  exists ids. split; [exact E|]. rewrite n_chars_oracle_u in L. split; [exact L|].
  intros ->. rewrite L. unfold split_input. cbn [n_chars_u]. lia.
Qed.

(** parsing off: the ids between prefix and suffix are [char_id] of the clusters of [segment s]:
    index in the alphabet for a single code point of the alphabet, the unknown id otherwise
    (in particular for every cluster of more than one code point) *)
Lemma char_body_u_l A tokens unk pad prefix suffix b s :
  char_base A tokens unk pad prefix suffix = Some b ->
  exists u, sp_id (b_off b) (b_sv b) unk = Some u /\ N.of_nat (length A) <= u
    /\ char_body b A unk true s true (oracle_u true (split_input (b_sv b) s true))
       = Some (map (char_id A u) (segment s))
    /\ (forall c, (length c <> 1)%nat -> char_id A u c = u).
Proof.
  intros Hb. apply char_base_spec in Hb as (_ & _ & _ & u & Hu & Hge).
  exists u. split; [exact Hu|]. split; [exact Hge|]. split.
  - rewrite (char_body_ign b A unk true s _ u Hu). reflexivity.
  - intros c Hc. apply char_id_out. intros x ->. exfalso. apply Hc. reflexivity.
Qed.

(** ** code points of category Any never join *)
Lemma is_any_gcb c : is_any c = true -> gcb c = GC_Any.
Proof. unfold is_any. destruct (gcb c); try discriminate. reflexivity. Qed.

Lemma segment_any (s : list N) : forallb is_any s = true -> segment s = singletons s.
Proof.
  unfold singletons, cp. induction s as [|a s IH]; [reflexivity|]. cbn [forallb]. intros H.
  apply andb_true_iff in H as [Ha Hs]. destruct s as [|c s']; [reflexivity|].
  rewrite (any_then_other_l a c s' (is_any_gcb a Ha)).
  cbn [forallb] in Hs. apply andb_true_iff in Hs as [Hc Hs'].
  unfold ws_joinable. rewrite (is_any_gcb c Hc). rewrite IH; [reflexivity|].
  cbn [forallb]. rewrite Hc, Hs'. reflexivity.
Qed.

Lemma printable_is_any c : printable_ascii c = true -> is_any c = true.
Proof. intros H. unfold is_any. rewrite (gcb_printable c H). reflexivity. Qed.

Lemma printable_alphabet_any A : forallb printable_ascii A = true -> alphabet_any A = true.
Proof.
  unfold alphabet_any. rewrite !forallb_forall. intros H x Hx. apply printable_is_any, H, Hx.
Qed.

Lemma in_A_In A x : in_A A x = true -> In x A.
Proof.
  unfold in_A. destruct (index_ofN x A) as [k|] eqn:E; [|discriminate]. intros _.
  apply index_ofN_nth in E. eapply nth_error_In. exact E.
Qed.

Lemma over_alphabet_u A segs :
  alphabet_any A = true -> regs_over A segs = true ->
  over_alphabet A true segs (oracle_u true segs) = true.
Proof.
  intros HA. induction segs as [|[r|t] rest IH]; cbn [regs_over over_alphabet oracle_u hd tl clusters_of seg_of];
    [reflexivity| |exact IH].
  intros H. apply andb_true_iff in H as [Hr Hrest]. rewrite (IH Hrest), andb_true_r.
  assert (Hany : forallb is_any r = true).
  { rewrite forallb_forall in *. intros x Hx. unfold alphabet_any in HA. rewrite forallb_forall in HA.
    apply HA, in_A_In, Hr, Hx. }
  rewrite (segment_any r Hany). unfold singletons. rewrite forallb_forall. intros c Hc.
  apply in_map_iff in Hc as (x & <- & Hx). rewrite forallb_forall in Hr. specialize (Hr x Hx).
  unfold in_A in Hr. destruct (index_ofN x A); [reflexivity|discriminate].
Qed.

(** ** round trip in grapheme mode, no premise on the segmentation *)
Lemma char_roundtrip_u_l A tokens unk pad prefix suffix b s ign :
  char_base A tokens unk pad prefix suffix = Some b ->
  (ign = false -> Forall (fun t => t <> []) (b_sv b)) ->
  alphabet_any A = true ->
  regs_over A (split_input (b_sv b) s ign) = true ->
  exists ids, char_tokenize_u b A unk s ign = Some ids
    /\ char_decode b A ids false = Some (concat prefix ++ s ++ concat suffix)
    /\ char_decode b A (middle b ids) false = Some s.
Proof.
  intros Hb Hne HA Hr. unfold char_tokenize_u.
  apply (char_roundtrip_l A tokens unk pad prefix suffix b true s ign _ Hb Hne).
  - apply clusters_ok_u.
  - apply over_alphabet_u; assumption.
Qed.

(** the simple reading: a text all of whose code points are in the alphabet *)
Lemma forallb_app_inv {X} (f : X -> bool) a b : forallb f (a ++ b) = true -> forallb f a = true /\ forallb f b = true.
Proof. rewrite forallb_app. intros H. apply andb_true_iff in H. exact H. Qed.

Lemma regs_over_of_concat A segs :
  forallb (in_A A) (concat (map seg_str segs)) = true -> regs_over A segs = true.
Proof.
  induction segs as [|[r|t] rest IH]; cbn [map concat seg_str regs_over]; [reflexivity| |];
    intros H; apply forallb_app_inv in H as [H1 H2].
  - rewrite H1, (IH H2). reflexivity.
  - exact (IH H2).
Qed.

Lemma regs_over_text A sv s ign :
  (ign = false -> Forall (fun t => t <> []) sv) ->
  forallb (in_A A) s = true -> regs_over A (split_input sv s ign) = true.
Proof.
  intros Hne Hs. apply regs_over_of_concat. rewrite (split_input_cat sv s ign Hne). exact Hs.
Qed.

Lemma char_roundtrip_text_l A tokens unk pad prefix suffix b s ign :
  char_base A tokens unk pad prefix suffix = Some b ->
  (ign = false -> Forall (fun t => t <> []) (b_sv b)) ->
  forallb printable_ascii A = true ->
  forallb (in_A A) s = true ->
  exists ids, char_tokenize_u b A unk s ign = Some ids
    /\ char_decode b A ids false = Some (concat prefix ++ s ++ concat suffix)
    /\ char_decode b A (middle b ids) false = Some s.
Proof.
  intros Hb Hne HA Hs. apply (char_roundtrip_u_l A tokens unk pad prefix suffix b s ign Hb Hne).
  - apply printable_alphabet_any, HA.
  - apply regs_over_text; assumption.
Qed.

(** ** the real alphabet *)
Fixpoint nodupb (l : list N) : bool :=
  match l with [] => true | x :: r => negb (existsb (N.eqb x) r) && nodupb r end.
Lemma nodupb_sound l : nodupb l = true -> NoDup l.
Proof.
  induction l as [|x r IH]; cbn [nodupb]; intros H; constructor; apply andb_true_iff in H as [H1 H2].
  - intros Hin. apply negb_true_iff in H1. assert (E : existsb (N.eqb x) r = true).
    { apply existsb_exists. exists x. split; [exact Hin|apply N.eqb_refl]. }
    congruence.
  - apply IH, H2.
Qed.

Lemma chars_alphabet_ok :
  forallb printable_ascii chars_alphabet = true /\ alphabet_any chars_alphabet = true
  /\ NoDup chars_alphabet /\ length chars_alphabet = 95%nat.
Proof.
  split; [vm_compute; reflexivity|]. split; [vm_compute; reflexivity|]. split; [|reflexivity].
  apply nodupb_sound. vm_compute. reflexivity.
Qed.

(** C07 — pinned statements. Nothing but statements, [exact], and assumption audits.
    [run_gen s o srcs]: the model of MultiTrainDataGenerator::new + draining the
    iterator; a source is the list of items its generator yields; [o] is the oracle
    for the weighted draw ([oracle_guard]: the sampled position is below the number
    of unfinished sources, which is what rand guarantees). [srcs <> []]: the callers
    refuse an empty file list. *)
From TU Require Import RNG_Model RNG_Proofs RNG_Check RNG_Props.
From TU Require Import Base C07_Model C07_Proofs C07_Specs C07_Top C07_Weighted C07_Seeded.
From TU Require Import C01_Model Lines_Model JSON_Model C07_Files C07_FilesProofs.
Require Import Permutation.
Close Scope N_scope.

(** Termination, every strategy, every oracle in range: the fuel
    (sum of lengths + number of sources + 1 pulls) is never exhausted, no assertion or
    index panic is reached; the only refusal is the constructor's (weighted with an
    empty source). *)
Theorem gen_total : forall (A : Type) (s : strategy) (o : oracle) (srcs : list (list A)),
  srcs <> [] -> oracle_guard o ->
  is_weighted s && existsb is_nil srcs = false ->
  exists out, run_gen s o srcs = Ok out.
Proof. intros A. exact gen_total_l. Qed.
Print Assumptions gen_total.

(** Sequential and interleaved do not consult the oracle: total without hypothesis on it,
    empty sources allowed. *)
Theorem gen_total_unweighted : forall (A : Type) (s : strategy) (o : oracle) (srcs : list (list A)),
  srcs <> [] -> s <> Weighted -> exists out, run_gen s o srcs = Ok out.
Proof. intros A. exact gen_total_nw_l. Qed.
Print Assumptions gen_total_unweighted.

(** For an arbitrary (even out-of-range) oracle the run never runs out of fuel and never
    trips the assertion. *)
Theorem gen_never_stuck : forall (A : Type) (s : strategy) (o : oracle) (srcs : list (list A)),
  srcs <> [] -> run_gen s o srcs <> Err OutOfFuel /\ run_gen s o srcs <> Err AssertFail.
Proof. intros A. exact gen_safe_l. Qed.
Print Assumptions gen_never_stuck.

Theorem gen_ctor_err : forall (A : Type) (s : strategy) (o : oracle) (srcs : list (list A)),
  is_weighted s && existsb is_nil srcs = true -> run_gen s o srcs = Err CtorErr.
Proof. intros A. exact gen_ctor_l. Qed.
Print Assumptions gen_ctor_err.

(** Each item exactly once, in per-source order, with the right tag: for every strategy
    and every oracle, the outputs tagged [j] are exactly source [j] in order, there are
    as many outputs as items, and every tag names a source. *)
Theorem gen_items : forall (A : Type) (s : strategy) (o : oracle) (srcs : list (list A)) out,
  srcs <> [] -> run_gen s o srcs = Ok out ->
  (forall j, proj j out = nth j srcs []) /\ length out = total_len srcs /\
  Forall (fun p => fst p < length srcs) out.
Proof. intros A. exact gen_items_l. Qed.
Print Assumptions gen_items.

(** Sequential = the tagged sources one after another (empty sources allowed). *)
Theorem sequential_spec : forall (A : Type) (o : oracle) (srcs : list (list A)),
  srcs <> [] -> run_gen Sequential o srcs = Ok (seq_spec srcs).
Proof. intros A. exact sequential_spec_l. Qed.
Print Assumptions sequential_spec.

(** Interleaved (repaired selection) = round-robin transpose: round r lists, in source
    order, the r-th item of every source that has one (empty sources allowed). *)
Theorem interleaved_spec : forall (A : Type) (o : oracle) (srcs : list (list A)),
  srcs <> [] -> run_gen Interleaved o srcs = Ok (rr srcs).
Proof. intros A. exact interleaved_spec_l. Qed.
Print Assumptions interleaved_spec.

(** Weighted: the relational model is exact. With all sources non-empty, the outputs
    reachable under SOME oracle in range are exactly the tagged interleavings of the
    sources whose first item comes from source 0 (no draw happens before the first pull).
    This is the set the correspondence check requires the implementation's stream to lie in. *)
Theorem weighted_outcomes : forall (A : Type) (srcs : list (list A)) (out : list (nat * A)),
  srcs <> [] -> existsb is_nil srcs = false ->
  ((exists o, oracle_guard o /\ run_gen Weighted o srcs = Ok out) <->
   ((forall j, proj j out = nth j srcs []) /\ Forall (fun p => fst p < length srcs) out /\
    first_tag0 out = true)).
Proof. exact weighted_outcomes_spec_l. Qed.
Print Assumptions weighted_outcomes.

(** The hang of the pinned tree as a theorem about the model of the unrepaired
    interleaved selection: on source lengths [1;3] no amount of fuel (outer: pulls;
    inner: iterations of the while loop) produces a result. *)
Theorem interleaved_pinned_diverges : forall (A : Type) (a b c d : A) f g,
  run_pinned f g [[a]; [b; c; d]] = Err OutOfFuel.
Proof. exact pinned_diverges_l. Qed.
Print Assumptions interleaved_pinned_diverges.

(** The executable "tagged interleaving" test used by the checker is exactly the
    items clause. *)
Theorem is_ti_iff : forall (srcs : list (list item)) (out : list (nat * item)),
  is_ti item_eqb srcs out = true <->
  (forall j, proj j out = nth j srcs []) /\ Forall (fun p => fst p < length srcs) out.
Proof. exact is_ti_iff_l. Qed.
Print Assumptions is_ti_iff.

(** The executable statement evaluated on implementation outputs holds of the model's own output. *)
Theorem check_run : forall v, v_srcs v <> [] -> check_C07 v (run_C07 v) = true.
Proof. exact check_run_l. Qed.
Print Assumptions check_run.

(** ... and a passing check of an output that is not the constructor error means the
    decoded items satisfy the property's clauses. *)
Theorem check_sound : forall v out, check_C07 v out = true -> shape_ctor_err out = false ->
  let srcs := v_srcs v in
  let items := v_list v_out (v_nth 1 out) in
  (forall j, proj j items = nth j srcs []) /\ length items = total_len srcs /\
  Forall (fun p => fst p < length srcs) items /\
  (v_strategy (v_nth 0 v) = Sequential -> items = seq_spec srcs) /\
  (v_strategy (v_nth 0 v) = Interleaved -> items = rr srcs).
Proof. exact check_sound_l. Qed.
Print Assumptions check_sound.

(** ** The weighted strategy computed from the seed (RNG_Model: ChaCha8 + seed_from_u64 + WeightedIndex
    inside the model).  [run_gen_seeded seed srcs] threads the generator state through the drain and
    samples the next source exactly as [next_idx] does (weights = initial lengths of the unfinished
    sources).  [None] = the rejection loop of the uniform sampler ran out of its 64 units of fuel
    (depends on the stream; never observed).  [total_len srcs < 2^64]: the sum of the line counts is a usize. *)

(** the run from the seed IS a run of the oracle model, under an oracle that is in range:
    [oracle_guard] is no longer a premise, it is proved of the induced oracle *)
Theorem gen_seeded_oracle : forall (A : Type) (seed : N) (srcs : list (list A)) r,
  (N.of_nat (total_len srcs) < 2 ^ 64)%N -> run_gen_seeded seed srcs = Some r ->
  exists o, oracle_guard o /\ run_gen Weighted o srcs = r.
Proof. intros A. exact seeded_oracle_l. Qed.
Print Assumptions gen_seeded_oracle.

(** [gen_total] without the oracle premise *)
Theorem gen_total_seeded : forall (A : Type) (seed : N) (srcs : list (list A)) r,
  srcs <> [] -> existsb is_nil srcs = false -> (N.of_nat (total_len srcs) < 2 ^ 64)%N ->
  run_gen_seeded seed srcs = Some r -> exists out, r = Ok out.
Proof. intros A. exact gen_total_seeded_l. Qed.
Print Assumptions gen_total_seeded.

(** [gen_items] for the seeded run (plus: the first item comes from source 0) *)
Theorem gen_items_seeded : forall (A : Type) (seed : N) (srcs : list (list A)) out,
  srcs <> [] -> (N.of_nat (total_len srcs) < 2 ^ 64)%N ->
  run_gen_seeded seed srcs = Some (Ok out) ->
  (forall j, proj j out = nth j srcs []) /\ length out = total_len srcs /\
  Forall (fun p => fst p < length srcs) out /\ first_tag0 out = true.
Proof. intros A. exact gen_items_seeded_l. Qed.
Print Assumptions gen_items_seeded.

(** the constructor's refusal is the same *)
Theorem gen_ctor_seeded : forall (A : Type) (seed : N) (srcs : list (list A)),
  existsb is_nil srcs = true -> run_gen_seeded seed srcs = Some (Err CtorErr).
Proof. intros A. exact gen_ctor_seeded_l. Qed.
Print Assumptions gen_ctor_seeded.

(** the executable statement holds of the second model line (the one the correspondence compares exactly) *)
Theorem check_run_seeded : forall v, v_srcs v <> [] -> is_rng_case v = false ->
  (v_strategy (v_nth 0 v) = Weighted ->
   (N.of_nat (total_len (v_srcs v)) < 2 ^ 64)%N /\ run_gen_seeded (v_n (v_nth 1 v)) (v_srcs v) <> None) ->
  check_C07s v (run_C07s v) = true.
Proof. exact check_run_seeded_l. Qed.
Print Assumptions check_run_seeded.

(** ... and for the rng scripts: the range / permutation / positive-weight statements that [check] evaluates on the
    implementation's results hold of the model's results ([call_ok]: weights and lengths are usizes, f64 weights
    positive, no Uniform<f64> call; no rejection loop out of fuel) *)
Theorem check_run_rng : forall v, is_rng_case v = true -> Forall RNG_Check.call_ok (v_script v) ->
  ~ In RNG_Model.v_fuel (fst (RNG_Model.run_calls (v_script v) (RNG_Model.seed_from_u64 (RNG_Model.v_hl (v_nth 1 v))))) ->
  check_C07s v (run_C07s v) = true.
Proof. exact check_run_rng_l. Qed.
Print Assumptions check_run_rng.

(** ** The facts about the modelled generator these corollaries rest on (RNG_Props.v has the full list;
    re-pinned here so that every run of this check audits them) *)
Theorem rng_seed_wf : forall seed, RNG_Proofs.wf (RNG_Model.seed_from_u64 seed).
Proof. exact RNG_Props.seed_wf. Qed.
Print Assumptions rng_seed_wf.

Theorem rng_next_u32_range : forall st x st', RNG_Proofs.wf st -> RNG_Model.next_u32 st = (x, st') ->
  (x < 2 ^ 32)%N /\ RNG_Proofs.wf st'.
Proof. exact RNG_Props.next_u32_range. Qed.
Print Assumptions rng_next_u32_range.

Theorem rng_next_u64_range : forall st x st', RNG_Proofs.wf st -> RNG_Model.next_u64 st = (x, st') ->
  (x < 2 ^ 64)%N /\ RNG_Proofs.wf st'.
Proof. exact RNG_Props.next_u64_range. Qed.
Print Assumptions rng_next_u64_range.

Theorem rng_random_f64_range : forall st k st', RNG_Proofs.wf st -> RNG_Model.random_f64 st = (k, st') ->
  (k < 2 ^ 53)%N /\ RNG_Proofs.wf st'.
Proof. exact RNG_Props.random_f64_range. Qed.
Print Assumptions rng_random_f64_range.

Theorem rng_random_range_lt : forall n st i st', RNG_Proofs.wf st ->
  RNG_Model.random_range n st = Some (i, st') -> (i < n)%N /\ RNG_Proofs.wf st'.
Proof. exact RNG_Props.random_range_lt. Qed.
Print Assumptions rng_random_range_lt.

Theorem rng_uniform_usize_lt : forall fuel total st x st', RNG_Proofs.wf st -> (0 < total)%N -> (total < 2 ^ 64)%N ->
  RNG_Model.uniform_usize fuel total st = Some (x, st') -> (x < total)%N /\ RNG_Proofs.wf st'.
Proof. exact RNG_Props.uniform_usize_lt. Qed.
Print Assumptions rng_uniform_usize_lt.

Theorem rng_shuffle_perm : forall (A : Type) (l : list A) st, Permutation (fst (RNG_Model.shuffle l st)) l.
Proof. exact RNG_Props.shuffle_perm. Qed.
Print Assumptions rng_shuffle_perm.

Theorem rng_shuffle_in_bounds : forall len st, RNG_Proofs.wf st -> (N.of_nat len < 2 ^ 64)%N ->
  RNG_Proofs.swaps_in_bounds len 0 (fst (RNG_Model.shuffle_indices len st)).
Proof. exact RNG_Props.shuffle_in_bounds. Qed.
Print Assumptions rng_shuffle_in_bounds.

Theorem rng_weighted_sample_in_range : forall fuel ws st i st', RNG_Proofs.wf st -> Forall (fun w => (w < 2 ^ 64)%N) ws ->
  RNG_Model.weighted_sample_n fuel ws st = inr (Some (i, st')) ->
  (i < length ws) /\ (0 < nth i ws 0)%N /\ RNG_Proofs.wf st'.
Proof. exact RNG_Props.weighted_sample_in_range. Qed.
Print Assumptions rng_weighted_sample_in_range.

Theorem rng_weighted_sample_f_in_range : forall ws st i total st', RNG_Proofs.wf st ->
  RNG_Model.weighted_sample_f ws st = inr (i, total, st') -> (i < length ws) /\ RNG_Proofs.wf st'.
Proof. exact RNG_Props.weighted_sample_f_in_range. Qed.
Print Assumptions rng_weighted_sample_f_in_range.

(** Non-vacuity: an oracle in range; concrete runs. *)
Example oracle_guard_witness : oracle_guard (fun t m => t mod m).
Proof. intros t m Hm. apply Nat.mod_upper_bound. intro E. rewrite E in Hm. inversion Hm. Qed.
Example interleaved_1_3 : run_gen Interleaved (fun _ _ => 0) [[10]; [20; 21; 22]]
  = Ok [(0, 10); (1, 20); (1, 21); (1, 22)].
Proof. vm_compute. reflexivity. Qed.
Example weighted_run : run_gen Weighted (fun t m => t mod m) [[1; 5; 6]; [2; 3; 4; 7; 8]; [9]]
  = Ok [(0, 1); (0, 5); (1, 2); (2, 9); (0, 6); (1, 3); (1, 4); (1, 7); (1, 8)].
Proof. vm_compute. reflexivity. Qed.

(** the seeded model on lengths [3;5;1]: these two streams are what the REAL MultiTrainDataGenerator
    (weighted, seeds 0 and 22) yields for three jsonl files of 3, 5 and 1 lines *)
Example seeded_run_0 : run_gen_seeded 0 [[0; 1; 2]; [1000; 1001; 1002; 1003; 1004]; [2000]]
  = Some (Ok [(0, 0); (1, 1000); (1, 1001); (1, 1002); (1, 1003); (1, 1004); (0, 1); (0, 2); (2, 2000)]).
Proof. vm_compute. reflexivity. Qed.
Example seeded_run_22 : run_gen_seeded 22 [[0; 1; 2]; [1000; 1001; 1002; 1003; 1004]; [2000]]
  = Some (Ok [(0, 0); (1, 1000); (1, 1001); (1, 1002); (0, 1); (1, 1003); (1, 1004); (0, 2); (2, 2000)]).
Proof. vm_compute. reflexivity. Qed.


(** non-vacuity of [check_run_rng]: a script with every kind of call the theorem covers meets its premises
    ([call_okb] reflects [call_ok], RNG_Check.call_okb_ok; no fuel value among the results) and passes *)
Definition rng_witness : val :=
  L [I 3; L [I 0; I 22];
     L [L [I 0]; L [I 1]; L [I 2]; L [I 3; L [I 0; I 10]]; L [I 3; L [I 1; I 0]]; L [I 4; I 10];
        L [I 5; L [L [I 0; I 3]; L [I 0; I 0]; L [I 0; I 5]]];
        L [I 6; L [L [I 0; I 4503599627370496; I (-52)]; L [I 0; I 6755399441055744; I (-51)]]];
        L [I 7; L [I 0; I 5]; I 3]; L [I 8; L [I 0; I 1000]; I 3; I 1]; L [I 3; L [I 0; I 0]]];
     L []]%Z.
Example rng_witness_ok :
  is_rng_case rng_witness && forallb RNG_Check.call_okb (v_script rng_witness)
  && negb (existsb (val_eqb RNG_Model.v_fuel)
             (fst (RNG_Model.run_calls (v_script rng_witness) (RNG_Model.seed_from_u64 (RNG_Model.v_hl (v_nth 1 rng_witness))))))
  && check_C07s rng_witness (run_C07s rng_witness) = true.
Proof. vm_compute. reflexivity. Qed.


(** * The loader's input files inside the model (C07_Files.v; Lines_Props.v and JSON_Props.v hold the statements
    about the line reader and the JSON parser on their own).
    [items_of_file b]: what train_data_generator_from_jsonl yields for a file with bytes [b] — per line the
    TrainData (input, target; the target defaults to the input) or the class of the Err item; [file_len b]:
    its [len()]; [run_files s o fs]: MultiTrainDataGenerator over the files [fs], drained. *)

(** [len()] is honest for every file: the generator yields exactly [file_len b] items (Ok or Err), and that is the
    number of '\n' bytes plus one for a non-empty unterminated last line. *)
Theorem file_len_honest : forall b, length (items_of_file b) = file_len b.
Proof. exact file_items_len. Qed.
Print Assumptions file_len_honest.

Theorem file_len_closed_form : forall b, length (items_of_file b) = count_lines_spec b.
Proof. exact file_items_len_closed. Qed.
Print Assumptions file_len_closed_form.

(** Writing items as serde_json lines, '\n' or '\r\n' after each, and reading the file back gives exactly the
    items, for all strings of scalar values (quotes, backslashes, control characters, line breaks, NUL, ... inside). *)
Theorem jsonl_roundtrip : forall items, Forall item_ok items ->
  items_of_file (jsonl_file items) = map item_written items /\ file_len (jsonl_file items) = length items.
Proof. exact jsonl_roundtrip_l. Qed.
Print Assumptions jsonl_roundtrip.

(** ... also when the last line has no terminator (repaired reader, /repo 833c360). *)
Theorem jsonl_roundtrip_open : forall items i t, Forall item_ok items -> item_ok ((i, t), false) ->
  items_of_file (jsonl_file items ++ utf8s (line_of i t)) = map item_written items ++ [item_written ((i, t), false)].
Proof. exact jsonl_roundtrip_open_l. Qed.
Print Assumptions jsonl_roundtrip_open.

(** The reader of the pinned tree: the same items on every file that ends with '\n'; the last item of an
    unterminated file is lost (its line loses the closing brace). *)
Theorem pinned_reader_same_when_terminated : forall b, (b = [] \/ last b 0%N = 10%N) ->
  items_of_file_pinned b = items_of_file b.
Proof. exact items_pinned_terminated. Qed.
Print Assumptions pinned_reader_same_when_terminated.

Theorem pinned_reader_refuted : exists items i t, Forall item_ok items /\ item_ok ((i, t), false) /\
  items_of_file_pinned (jsonl_file items ++ utf8s (line_of i t)) <> map item_written items ++ [item_written ((i, t), false)].
Proof.
  exists [], [97%N], None. split; [constructor|]. split; [split; [reflexivity|exact Logic.I]|]. vm_compute. discriminate.
Qed.
Print Assumptions pinned_reader_refuted.

(** The property of C07 over files: whatever the bytes, the combined generator yields, per file, exactly the items
    of that file in order with the file's index as tag, [len()] items in total. *)
Theorem files_items : forall s o fs out, fs <> [] -> run_files s o fs = Ok out ->
  (forall j, proj j out = items_of_file (nth j fs [])) /\ length out = sum_nat (map file_len fs) /\
  Forall (fun p => fst p < length fs) out.
Proof. exact files_items_l. Qed.
Print Assumptions files_items.

Theorem files_total : forall s o fs, fs <> [] -> oracle_guard o ->
  is_weighted s && existsb (fun b => Nat.eqb (file_len b) 0) fs = false ->
  exists out, run_files s o fs = Ok out.
Proof. exact files_total_l. Qed.
Print Assumptions files_total.

Theorem files_sequential : forall o fs, fs <> [] -> run_files Sequential o fs = Ok (seq_spec (map items_of_file fs)).
Proof. exact files_sequential_l. Qed.
Print Assumptions files_sequential.

Theorem files_interleaved : forall o fs, fs <> [] -> run_files Interleaved o fs = Ok (rr (map items_of_file fs)).
Proof. exact files_interleaved_l. Qed.
Print Assumptions files_interleaved.

(** weighted from the seed, the weights being the line counts: a run of the oracle model under an oracle in range *)
Theorem files_seeded_oracle : forall seed fs r, (N.of_nat (sum_nat (map file_len fs)) < RNG_Model.p64)%N ->
  run_files_seeded seed fs = Some r -> exists o, oracle_guard o /\ run_files Weighted o fs = r.
Proof. exact files_seeded_oracle_l. Qed.
Print Assumptions files_seeded_oracle.

(** the executable statement on file cases: true of the model's own output, and sound *)
Theorem check_file_run : forall v, v_files v <> [] ->
  (f_strategy v = Weighted ->
   (N.of_nat (sum_nat (map file_len (v_files v))) < RNG_Model.p64)%N
   /\ run_files_seeded (v_n (v_nth 1 v)) (v_files v) <> None) ->
  check_file_case v (run_file_case v) = true.
Proof. exact check_file_run_l. Qed.
Print Assumptions check_file_run.

Theorem check_file_sound : forall v out, check_file_case v out = true -> shape_ctor_err out = false ->
  let files := v_files v in
  let items := v_list v_fout (v_nth 1 out) in
  (forall j, proj j items = items_of_file (nth j files [])) /\ length items = sum_nat (map file_len files) /\
  v_nat (v_nth 3 out) = sum_nat (map file_len files) /\
  Forall (fun p => fst p < length files) items /\
  (f_strategy v = Sequential -> items = seq_spec (map items_of_file files)) /\
  (f_strategy v = Interleaved -> items = rr (map items_of_file files)).
Proof. exact check_file_sound_l. Qed.
Print Assumptions check_file_sound.

(** Non-vacuity: items with every kind of awkward character; a file with a malformed, a blank and a CR LF line and no
    final newline, read from its bytes. *)
Example item_ok_witness : Forall item_ok [(([34; 92; 10; 13; 0; 233; 128512]%N, Some [125]%N), true); (([]%N, None), false)].
Proof. repeat constructor. Qed.
Example file_read :
  items_of_file [123; 34; 105; 110; 112; 117; 116; 34; 58; 34; 97; 34; 125; 13; 10;     (* {"input":"a"} CR LF *)
                 10;                                                                       (* blank *)
                 91; 93; 10;                                                               (* [] *)
                 123; 34; 105; 110; 112; 117; 116; 34; 58; 34; 255; 34; 44; 34; 116; 97; 114; 103; 101; 116; 34; 58;
                 34; 98; 34; 125]%N                                                        (* {"input":"\xFF","target":"b"} *)
  = [FData [97]%N [97]%N; FErr EParse; FErr ENotObject; FData [65533]%N [98]%N].
Proof. vm_compute. reflexivity. Qed.
Example file_case_witness :
  let v := L [I 5; I 0; L [L [I 123; I 125; I 10; I 49]; L []; L [I 10]]; L []]%Z in
  v_files v <> [] /\ check_file_case v (run_file_case v) = true.
Proof. split; [discriminate|vm_compute; reflexivity]. Qed.

(** C07 — pinned statements. Nothing but statements, [exact], and assumption audits. *)
From TU Require Import Base C07_Model C07_Proofs.

(** The hang of the pinned tree as a theorem about the model of the unrepaired
    interleaved selection: on source lengths [1;3] no amount of fuel (outer: calls
    of next(); inner: iterations of the while loop) produces a result. *)
Theorem interleaved_pinned_diverges : forall (A : Type) (a b c d : A) f g,
  run_pinned f g [[a]; [b; c; d]] = Err OutOfFuel.
Proof. exact pinned_diverges_l. Qed.
Print Assumptions interleaved_pinned_diverges.

(** C07 — pinned statements. Nothing but statements, [exact], and assumption audits.
    [run_gen s o srcs]: the model of MultiTrainDataGenerator::new + draining the
    iterator; a source is the list of items its generator yields; [o] is the oracle
    for the weighted draw ([oracle_guard]: the sampled position is below the number
    of unfinished sources, which is what rand guarantees). [srcs <> []]: the callers
    refuse an empty file list. *)
From TU Require Import Base C07_Model C07_Proofs C07_Specs C07_Top C07_Weighted.

(** Termination, every strategy, every oracle in range: the fuel
    (sum of lengths + number of sources + 1 pulls) is never exhausted, no assertion or
    index panic is reached; the only refusal is the constructor's (weighted with an
    empty source). *)
Theorem gen_total : forall (A : Type) (s : strategy) (o : oracle) (srcs : list (list A)),
  srcs <> [] -> oracle_guard o ->
  is_weighted s && existsb is_nil srcs = false ->
  exists out, run_gen s o srcs = Ok out.
Proof. intros A. exact gen_total_l. Qed.
Print Assumptions gen_total.

(** Sequential and interleaved do not consult the oracle: total without hypothesis on it,
    empty sources allowed. *)
Theorem gen_total_unweighted : forall (A : Type) (s : strategy) (o : oracle) (srcs : list (list A)),
  srcs <> [] -> s <> Weighted -> exists out, run_gen s o srcs = Ok out.
Proof. intros A. exact gen_total_nw_l. Qed.
Print Assumptions gen_total_unweighted.

(** For an arbitrary (even out-of-range) oracle the run never runs out of fuel and never
    trips the assertion. *)
Theorem gen_never_stuck : forall (A : Type) (s : strategy) (o : oracle) (srcs : list (list A)),
  srcs <> [] -> run_gen s o srcs <> Err OutOfFuel /\ run_gen s o srcs <> Err AssertFail.
Proof. intros A. exact gen_safe_l. Qed.
Print Assumptions gen_never_stuck.

Theorem gen_ctor_err : forall (A : Type) (s : strategy) (o : oracle) (srcs : list (list A)),
  is_weighted s && existsb is_nil srcs = true -> run_gen s o srcs = Err CtorErr.
Proof. intros A. exact gen_ctor_l. Qed.
Print Assumptions gen_ctor_err.

(** Each item exactly once, in per-source order, with the right tag: for every strategy
    and every oracle, the outputs tagged [j] are exactly source [j] in order, there are
    as many outputs as items, and every tag names a source. *)
Theorem gen_items : forall (A : Type) (s : strategy) (o : oracle) (srcs : list (list A)) out,
  srcs <> [] -> run_gen s o srcs = Ok out ->
  (forall j, proj j out = nth j srcs []) /\ length out = total_len srcs /\
  Forall (fun p => fst p < length srcs) out.
Proof. intros A. exact gen_items_l. Qed.
Print Assumptions gen_items.

(** Sequential = the tagged sources one after another (empty sources allowed). *)
Theorem sequential_spec : forall (A : Type) (o : oracle) (srcs : list (list A)),
  srcs <> [] -> run_gen Sequential o srcs = Ok (seq_spec srcs).
Proof. intros A. exact sequential_spec_l. Qed.
Print Assumptions sequential_spec.

(** Interleaved (repaired selection) = round-robin transpose: round r lists, in source
    order, the r-th item of every source that has one (empty sources allowed). *)
Theorem interleaved_spec : forall (A : Type) (o : oracle) (srcs : list (list A)),
  srcs <> [] -> run_gen Interleaved o srcs = Ok (rr srcs).
Proof. intros A. exact interleaved_spec_l. Qed.
Print Assumptions interleaved_spec.

(** Weighted: the relational model is exact. With all sources non-empty, the outputs
    reachable under SOME oracle in range are exactly the tagged interleavings of the
    sources whose first item comes from source 0 (no draw happens before the first pull).
    This is the set the correspondence check requires the implementation's stream to lie in. *)
Theorem weighted_outcomes : forall (A : Type) (srcs : list (list A)) (out : list (nat * A)),
  srcs <> [] -> existsb is_nil srcs = false ->
  ((exists o, oracle_guard o /\ run_gen Weighted o srcs = Ok out) <->
   ((forall j, proj j out = nth j srcs []) /\ Forall (fun p => fst p < length srcs) out /\
    first_tag0 out = true)).
Proof. exact weighted_outcomes_spec_l. Qed.
Print Assumptions weighted_outcomes.

(** The hang of the pinned tree as a theorem about the model of the unrepaired
    interleaved selection: on source lengths [1;3] no amount of fuel (outer: pulls;
    inner: iterations of the while loop) produces a result. *)
Theorem interleaved_pinned_diverges : forall (A : Type) (a b c d : A) f g,
  run_pinned f g [[a]; [b; c; d]] = Err OutOfFuel.
Proof. exact pinned_diverges_l. Qed.
Print Assumptions interleaved_pinned_diverges.

(** The executable "tagged interleaving" test used by the checker is exactly the
    items clause. *)
Theorem is_ti_iff : forall (srcs : list (list item)) (out : list (nat * item)),
  is_ti item_eqb srcs out = true <->
  (forall j, proj j out = nth j srcs []) /\ Forall (fun p => fst p < length srcs) out.
Proof. exact is_ti_iff_l. Qed.
Print Assumptions is_ti_iff.

(** The executable statement evaluated on implementation outputs holds of the model's own output. *)
Theorem check_run : forall v, v_srcs v <> [] -> check_C07 v (run_C07 v) = true.
Proof. exact check_run_l. Qed.
Print Assumptions check_run.

(** ... and a passing check of an output that is not the constructor error means the
    decoded items satisfy the property's clauses. *)
Theorem check_sound : forall v out, check_C07 v out = true -> shape_ctor_err out = false ->
  let srcs := v_srcs v in
  let items := v_list v_out (v_nth 1 out) in
  (forall j, proj j items = nth j srcs []) /\ length items = total_len srcs /\
  Forall (fun p => fst p < length srcs) items /\
  (v_strategy (v_nth 0 v) = Sequential -> items = seq_spec srcs) /\
  (v_strategy (v_nth 0 v) = Interleaved -> items = rr srcs).
Proof. exact check_sound_l. Qed.
Print Assumptions check_sound.

(** Non-vacuity: an oracle in range; concrete runs. *)
Example oracle_guard_witness : oracle_guard (fun t m => t mod m).
Proof. intros t m Hm. apply Nat.mod_upper_bound. intro E. rewrite E in Hm. inversion Hm. Qed.
Example interleaved_1_3 : run_gen Interleaved (fun _ _ => 0) [[10]; [20; 21; 22]]
  = Ok [(0, 10); (1, 20); (1, 21); (1, 22)].
Proof. vm_compute. reflexivity. Qed.
Example weighted_run : run_gen Weighted (fun t m => t mod m) [[1; 5; 6]; [2; 3; 4; 7; 8]; [9]]
  = Ok [(0, 1); (0, 5); (1, 2); (2, 9); (0, 6); (1, 3); (1, 4); (1, 7); (1, 8)].
Proof. vm_compute. reflexivity. Qed.

From Coq Require Import Lia Sorting.Sorted.
From TU Require Import Base C08_Model.

(** list facts missing from the 8.16 standard library *)
Lemma skipn_skipn {A} : forall x y (l : list A), skipn x (skipn y l) = skipn (x + y) l.
Proof.
  intros x y; revert x; induction y as [|y IH]; intros x l.
  - rewrite Nat.add_0_r. reflexivity.
  - destruct l as [|a l]; [rewrite !skipn_nil; reflexivity|].
    replace (x + S y) with (S (x + y)) by lia. cbn [skipn]. apply IH.
Qed.
Lemma firstn_seq : forall k a n, firstn k (seq a n) = seq a (Nat.min k n).
Proof.
  induction k as [|k IH]; intros a n; [reflexivity|].
  destruct n as [|n]; [reflexivity|]. cbn [seq firstn Nat.min]. f_equal. apply IH.
Qed.
Lemma skipn_seq : forall k a n, skipn k (seq a n) = seq (a + k) (n - k).
Proof.
  induction k as [|k IH]; intros a n.
  - rewrite Nat.add_0_r, Nat.sub_0_r. reflexivity.
  - destruct n as [|n]; [reflexivity|]. cbn [seq skipn]. rewrite IH. f_equal; lia.
Qed.

(** ** step_by *)
Lemma sb_in {A} W : forall k (l : list A) x, In x (sb W k l) -> In x l.
Proof.
  intros k l; revert k; induction l as [|y r IH]; intros k x H; cbn in H; [contradiction|].
  destruct k; cbn in H.
  - destruct H as [->|H]; [left; reflexivity|right; eapply IH; eauto].
  - right. eapply IH; eauto.
Qed.

Lemma sb_skip {A} W : forall j (l : list A), sb W j l = sb W 0 (skipn j l).
Proof.
  induction j as [|j IH]; intros l; [reflexivity|].
  destruct l as [|x r]; [reflexivity|]. cbn [sb skipn]. apply IH.
Qed.

Lemma sb_skipn {A} W : 1 <= W -> forall k (l : list A), skipn k (sb W 0 l) = sb W 0 (skipn (k * W) l).
Proof.
  intros HW. induction k as [|k IH]; intros l; [reflexivity|].
  destruct l as [|x r].
  - cbn [sb]. rewrite !skipn_nil. reflexivity.
  - cbn [sb skipn]. rewrite (sb_skip W (W - 1) r), IH.
    replace (S k * W) with (S (W - 1 + k * W)) by lia. cbn [skipn].
    rewrite skipn_skipn. f_equal. f_equal. lia.
Qed.

Lemma step_by_one_l {A} (l : list A) : step_by 1 l = l.
Proof. unfold step_by. induction l as [|x l IH]; cbn; [reflexivity|]. f_equal. exact IH. Qed.

(** membership in [sb] over an interval of indices *)
Lemma sb_seq_mem W : 1 <= W -> forall n a k i,
  In i (sb W k (seq a n)) <-> exists j, i = a + k + j * W /\ i < a + n.
Proof.
  intros HW. induction n as [|n IH]; intros a k i.
  - cbn. split; [contradiction|]. intros (j & -> & H). lia.
  - cbn [seq sb]. destruct k as [|k].
    + cbn [In]. rewrite IH. split.
      * intros [<-|(j & -> & H)].
        -- exists 0. lia.
        -- exists (S j). cbn [Nat.mul]. lia.
      * intros (j & -> & H). destruct j as [|j].
        -- left. lia.
        -- right. exists j. cbn [Nat.mul] in *. lia.
    + rewrite IH. split; intros (j & -> & H); exists j; lia.
Qed.

Lemma sb_seq_sorted W : forall n a k, StronglySorted lt (sb W k (seq a n)).
Proof.
  induction n as [|n IH]; intros a k; cbn [seq sb]; [constructor|].
  destruct k as [|k]; [|apply IH].
  constructor; [apply IH|]. apply Forall_forall. intros x Hx.
  apply sb_in in Hx. apply in_seq in Hx. lia.
Qed.

(** ** the selected indices *)
Lemma sel_eq lim skip ff rank W N :
  sel lim skip ff rank W N = sb W 0 (seq (skip + ff + rank) (Nat.min lim N - (skip + ff + rank))).
Proof.
  unfold sel, select, step_by. rewrite firstn_seq, skipn_seq. reflexivity.
Qed.

Lemma sel_mem_l lim skip ff rank W N i : 1 <= W ->
  In i (sel lim skip ff rank W N) <-> exists j, i = skip + ff + rank + j * W /\ i < Nat.min lim N.
Proof.
  intros HW. rewrite sel_eq, (sb_seq_mem W HW). split; intros (j & -> & H); exists j; lia.
Qed.

Lemma sel_sorted_l lim skip ff rank W N : StronglySorted lt (sel lim skip ff rank W N).
Proof. rewrite sel_eq. apply sb_seq_sorted. Qed.

(** two strictly increasing lists with the same elements are equal *)
Lemma sorted_ext (l1 l2 : list nat) :
  StronglySorted lt l1 -> StronglySorted lt l2 -> (forall x, In x l1 <-> In x l2) -> l1 = l2.
Proof.
  revert l2; induction l1 as [|a l1 IH]; intros l2 S1 S2 H.
  - destruct l2 as [|b l2]; [reflexivity|]. exfalso. apply (H b). left. reflexivity.
  - destruct l2 as [|b l2]; [exfalso; apply (H a); left; reflexivity|].
    inversion S1 as [|? ? S1' F1]; subst. inversion S2 as [|? ? S2' F2]; subst.
    rewrite Forall_forall in F1, F2.
    assert (a = b).
    { destruct (proj1 (H a) (or_introl eq_refl)) as [E|Hin]; [congruence|].
      destruct (proj2 (H b) (or_introl eq_refl)) as [E|Hin']; [congruence|].
      pose proof (F2 _ Hin). pose proof (F1 _ Hin'). lia. }
    subst b. f_equal. apply IH; auto. intros x. split; intros Hx.
    + destruct (proj1 (H x) (or_intror Hx)) as [E|Hin]; [|exact Hin]. subst x. pose proof (F1 _ Hx). lia.
    + destruct (proj2 (H x) (or_intror Hx)) as [E|Hin]; [|exact Hin]. subst x. pose proof (F2 _ Hx). lia.
Qed.

(** ranks of one world are pairwise disjoint *)
Lemma ranks_disjoint_l lim skip ff W N r1 r2 i : r1 < W -> r2 < W -> r1 <> r2 ->
  In i (sel lim skip ff r1 W N) -> In i (sel lim skip ff r2 W N) -> False.
Proof.
  intros H1 H2 Hne I1 I2. assert (HW : 1 <= W) by lia.
  apply (sel_mem_l _ _ _ _ _ _ _ HW) in I1 as (j1 & E1 & _).
  apply (sel_mem_l _ _ _ _ _ _ _ HW) in I2 as (j2 & E2 & _).
  subst i. destruct (Nat.lt_trichotomy j1 j2) as [L|[->|L]].
  - assert (j2 * W >= j1 * W + W) by nia. lia.
  - lia.
  - assert (j1 * W >= j2 * W + W) by nia. lia.
Qed.

(** their union is the single-process stream (with the same skip, limit and fast-forward) *)
Lemma ranks_union_l lim skip ff W N i : 1 <= W ->
  In i (sel lim skip ff 0 1 N) <-> exists r, r < W /\ In i (sel lim skip ff r W N).
Proof.
  intros HW. rewrite (sel_mem_l _ _ _ _ 1) by lia. split.
  - intros (j & -> & H). exists (j mod W). split; [apply Nat.mod_upper_bound; lia|].
    apply sel_mem_l; [exact HW|]. exists (j / W). split; [|lia].
    pose proof (Nat.div_mod j W ltac:(lia)). nia.
  - intros (r & Hr & Hin). apply (sel_mem_l _ _ _ _ _ _ _ HW) in Hin as (j & -> & H).
    exists (r + j * W). lia.
Qed.

(** limit = k and skip = k split the items without overlap and without loss *)
Lemma limit_part_l k N i : In i (sel k 0 0 0 1 N) <-> i < Nat.min k N.
Proof.
  rewrite sel_mem_l by lia. split; [intros (j & -> & H); lia|]. intros H. exists i. lia.
Qed.
Lemma skip_part_l k N i : In i (sel N k 0 0 1 N) <-> k <= i < N.
Proof.
  rewrite sel_mem_l by lia. split; [intros (j & -> & H); lia|]. intros H. exists (i - k). lia.
Qed.

(** resuming a single process: exactly the uninterrupted stream after its first k positions *)
Lemma fast_forward_single_l lim skip k N : sel lim skip k 0 1 N = skipn k (sel lim skip 0 0 1 N).
Proof.
  unfold sel, select. rewrite !step_by_one_l, skipn_skipn. f_equal. lia.
Qed.

(** resuming a world: after k*W positions every rank continues exactly where it stopped *)
Lemma fast_forward_world_l lim skip k r W N : 1 <= W ->
  sel lim skip (k * W) r W N = skipn k (sel lim skip 0 r W N).
Proof.
  intros HW. unfold sel, select, step_by. rewrite (sb_skipn W HW), skipn_skipn. f_equal. f_equal. lia.
Qed.

(** ** delivered items *)
Lemma stream_mem_l oks res lim skip ff rank W N i :
  In i (stream oks res lim skip ff rank W N) <->
  In i (sel lim skip ff rank W N) /\ nth i oks false = true /\ nth i res false = true.
Proof.
  unfold stream, delivered. rewrite filter_In, andb_true_iff. tauto.
Qed.

Lemma filter_sorted (p : nat -> bool) l : StronglySorted lt l -> StronglySorted lt (filter p l).
Proof.
  induction l as [|x l IH]; intros S; cbn; [constructor|]. inversion S as [|? ? S' F]; subst.
  destruct (p x); [|apply IH, S']. constructor; [apply IH, S'|].
  rewrite Forall_forall in *. intros y Hy. apply filter_In in Hy as [Hy _]. apply F, Hy.
Qed.

Lemma stream_sorted_l oks res lim skip ff rank W N : StronglySorted lt (stream oks res lim skip ff rank W N).
Proof. apply filter_sorted, sel_sorted_l. Qed.

Lemma filter_skipn_sorted (p : nat -> bool) (b : nat) l : StronglySorted lt l ->
  filter p (filter (fun i => b <=? i) l) = filter (fun i => b <=? i) (filter p l).
Proof.
  intros _. induction l as [|x l IH]; cbn; [reflexivity|].
  destruct (b <=? x) eqn:E1; destruct (p x) eqn:E2; cbn; rewrite ?E1, ?E2, IH; reflexivity.
Qed.

(** the resumed stream = the uninterrupted delivered stream restricted to positions >= skip + k *)
Lemma stream_resume_l oks res lim skip k N :
  stream oks res lim skip k 0 1 N = filter (fun i => skip + k <=? i) (stream oks res lim skip 0 0 1 N).
Proof.
  apply sorted_ext; [apply stream_sorted_l|apply filter_sorted, stream_sorted_l|].
  intros i. rewrite filter_In, !stream_mem_l, !sel_mem_l by lia. rewrite Nat.leb_le. split.
  - intros ((j & -> & H) & H1 & H2). split; [split; [exists (k + j); lia|auto]|lia].
  - intros (((j & -> & H) & H1 & H2) & Hle). split; [exists (j - k); lia|auto].
Qed.

(** the stream of one rank with any fast-forward offset = the single-process delivered
    stream restricted to the positions that rank owns *)
Lemma stream_rank_l oks res lim skip ff rank W N : 1 <= W ->
  stream oks res lim skip ff rank W N =
  filter (fun i => (skip + ff + rank <=? i) && Nat.eqb ((i - (skip + ff + rank)) mod W) 0)
         (stream oks res lim skip 0 0 1 N).
Proof.
  intros HW. apply sorted_ext; [apply stream_sorted_l|apply filter_sorted, stream_sorted_l|].
  intros i. rewrite filter_In, !stream_mem_l, (sel_mem_l _ _ _ _ W) by lia.
  rewrite (sel_mem_l _ _ _ _ 1) by lia. rewrite andb_true_iff, Nat.leb_le, Nat.eqb_eq. split.
  - intros ((j & -> & H) & H1 & H2). split; [split; [exists (ff + rank + j * W); lia|auto]|].
    split; [lia|]. replace (skip + ff + rank + j * W - (skip + ff + rank)) with (j * W) by lia.
    apply Nat.mod_mul. lia.
  - intros (((j & -> & H) & H1 & H2) & Hle & Hm). split; [|auto].
    set (s := skip + ff + rank) in *. exists ((skip + 0 + 0 + j * 1 - s) / W). split; [|lia].
    pose proof (Nat.div_mod (skip + 0 + 0 + j * 1 - s) W ltac:(lia)) as E. rewrite Hm in E. nia.
Qed.

Lemma min_items_l lim skip N : min_items lim skip N = Nat.min N lim - skip.
Proof. reflexivity. Qed.

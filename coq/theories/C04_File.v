(** C04 with the merge file inside the model: for a BPE tokenizer the implementation output carries, after its
    eleven fields, the bytes of the merge file the crate's [save] wrote ([fb]) and the real [MergeOps::load] of
    it ([lv]); [agree_C04f] = exact agreement on the eleven fields AND [MsgPack_Model.saved_agree] for the
    merges of the input (field 8, id = position).  Definitions only. *)
From TU Require Import Base C04_Model MsgPack_Model.
Open Scope N_scope.

Definition strip_file11 (out : val) : val :=
  match out with
  | L [a0; a1; a2; a3; a4; a5; a6; a7; a8; a9; a10; _; _] => L [a0; a1; a2; a3; a4; a5; a6; a7; a8; a9; a10]
  | _ => out
  end.
Definition in_merges (v : val) : list (list N) := v_list (v_list v_n) (v_nth 8 v).
Definition check_C04f (v out : val) : bool := check_C04 v (strip_file11 out).
Definition agree_C04f (v m i : val) : bool :=
  match i with
  | L [_; _; _; _; _; _; _; _; _; _; _; fb; lv] =>
      val_eqb m (strip_file11 i) && saved_agree (in_merges v) fb lv
  | _ => val_eqb m i
  end.

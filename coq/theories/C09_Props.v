(** C09 — pinned statements: bounded look-ahead, prompt stop after the consumer
    dropped the iterator, no wedge. All inputs, all W >= 1 / capacities, all schedules. *)
From TU Require Import Base Pipe_Model Pipe_Proofs Pipe_Proofs2 Pipe_Proofs3 C05_Model C09_Model C09_Proofs.

(** While the consumer is attached the workers are never more than 2W tickets ahead of it. *)
Theorem pipe_lookahead : forall (A B : Type) (f : A -> B) (d : A) (l : list A) (W : nat) tr (s : state A B),
  run A B f d (init A B l W) tr = Some s -> dropped s = false -> next s <= length (out s) + 2 * W.
Proof. exact pipe_lookahead_l. Qed.
Print Assumptions pipe_lookahead.

(** After the drop every worker pulls at most one more item, so at most W more in total. *)
Theorem pipe_after_drop : forall (A B : Type) (f : A -> B) (d : A) (l : list A) (W : nat) tr (s : state A B),
  run A B f d (init A B l W) tr = Some s -> dropped s = true ->
  (forall t, nth t (pad s) 0 <= 1) /\ next s <= ndrop s + W.
Proof. exact after_drop_l. Qed.
Print Assumptions pipe_after_drop.

(** After the drop executions stay finite (pipe_finite, C05) and cannot stop before every worker returned. *)
Theorem pipe_drop_exit : forall (A B : Type) (f : A -> B) (d : A) (l : list A) (W : nat) tr (s : state A B),
  run A B f d (init A B l W) tr = Some s -> dropped s = true ->
  (forall lab, lab <> Drop -> step A B f d s lab = None) -> all_exited A B s = true.
Proof. exact pipe_drop_exit_l. Qed.
Print Assumptions pipe_drop_exit.

(** Buffered: at most capacity + 1 items ahead of the consumer. *)
Theorem buf_lookahead : forall sof n cap tr s,
  brun sof (binit n cap) tr = Some s -> bdropped s = false -> bpulled s <= length (bout s) + cap + 1.
Proof. exact buf_lookahead_l. Qed.
Print Assumptions buf_lookahead.

(** Buffered (repaired producer): at most one more pull after the drop. *)
Theorem buf_after_drop : forall n cap tr s,
  brun true (binit n cap) tr = Some s -> bdropped s = true -> bpad s <= 1.
Proof. exact buf_after_drop_l. Qed.
Print Assumptions buf_after_drop.

Theorem buf_finite : forall sof n cap tr s, brun sof (binit n cap) tr = Some s -> length tr <= 3 * n + 2.
Proof. exact buf_finite_l. Qed.
Print Assumptions buf_finite.

Theorem buf_no_deadlock : forall sof n cap tr s,
  brun sof (binit n cap) tr = Some s -> bfinal s = false ->
  exists l s', l <> BDrop /\ bstep sof s l = Some s'.
Proof. exact buf_no_deadlock_l. Qed.
Print Assumptions buf_no_deadlock.

(** Buffered without drop: every maximal execution delivers 0..n-1 in order and the producer returns. *)
Theorem buf_terminal : forall sof n cap tr s,
  brun sof (binit n cap) tr = Some s -> bdropped s = false ->
  (forall l, l <> BDrop -> bstep sof s l = None) -> bout s = seq 0 n /\ bthr s = BExited.
Proof. exact buf_terminal_top. Qed.
Print Assumptions buf_terminal.

(** Buffered (repaired) after the drop: a maximal execution ends with the producer returned. *)
Theorem buf_drop_exit : forall n cap tr s,
  brun true (binit n cap) tr = Some s -> bdropped s = true ->
  (forall l, l <> BDrop -> bstep true s l = None) -> bthr s = BExited.
Proof. exact buf_drop_exit_l. Qed.
Print Assumptions buf_drop_exit.

(** D4 as a theorem: the producer of the pinned commit (ignores the send error) can
    pull its whole upstream after an immediate drop, for every upstream length. *)
Theorem buffered_pinned_drains : forall n cap,
  exists tr s, brun false (binit n cap) (BDrop :: tr) = Some s /\ bpulled s = n /\ bpad s = n.
Proof. exact buffered_pinned_drains_l. Qed.
Print Assumptions buffered_pinned_drains.

(** Why the panic hook must end the process: a worker that dies holding the turn leaves a
    reachable state from which no schedule ever delivers an item or reaches end of stream. *)
Theorem pipe_panic_wedges : forall (A B : Type) (f : A -> B) (d a b : A),
  (exists s, run A B f d (init A B [a; b] 2) [Pull 0; Pull 1] = Some s /\ set_thr A B s 0 Exited = wedge0 A B a b)
  /\ forall tr s', ~ In Drop tr -> run A B f d (wedge0 A B a b) tr = Some s' -> out s' = [] /\ final A B s' = false.
Proof. exact pipe_panic_wedges_l. Qed.
Print Assumptions pipe_panic_wedges.

(** What an accepting verdict of the event walk inside [check_C09] means for an observed trace
    (events = (actor, code, idx, pulled); code 10/14 = the consumer received, 11 = it dropped, 1 = an
    actor pulled an item, 5 = Buffered producer went on after a failed send, 13 = anomaly):
    before the drop every observed pulled count is within [B] of the number of items consumed so far;
    after the drop at most [E] more items are pulled in total, nothing is received, no actor pulls
    twice, and a Buffered producer never ignores the failed send. check_C09 uses B = 2W, E = W for
    Pipe and B = cap + 1, E = 1 for Buffered. *)
Theorem walk_sound : forall bf B E evs, walk bf B E evs 0 None [] = true ->
  (forall pre e post, evs = pre ++ e :: post -> (forall x, In x pre -> e_code x <> 11) ->
     e_pulled e <= count_recv (pre ++ [e]) + B /\ e_code e <> 13)
  /\ (forall pre d post, evs = pre ++ d :: post -> (forall x, In x pre -> e_code x <> 11) -> e_code d = 11 ->
        (forall e, In e post -> e_pulled e <= e_pulled d + E /\ e_code e <> 13 /\ is_recv e = false
                                /\ (bf = true -> e_code e <> 5))
        /\ NoDup (map e_actor (filter is_got post))).
Proof. exact walk_sound_l. Qed.
Print Assumptions walk_sound.

(** Non-vacuity: the 2W bound is attained (W = 1: two tickets ahead with nothing consumed). *)
Example lookahead_tight :
  exists s, run Z Z fZ 0%Z (init Z Z [1; 2; 3]%Z 1) [Pull 0; Compute 0; TurnOk 0; SendOk 0; Advance 0; Pull 0] = Some s
            /\ next s = 2 /\ out s = [] /\ dropped s = false.
Proof. eexists. split; [vm_compute; reflexivity|]. repeat split. Qed.

(** C09 — pinned statements: bounded look-ahead, prompt stop after the consumer
    dropped the iterator, no wedge. All inputs, all W >= 1 / capacities, all schedules. *)
From TU Require Import Base Pipe_Model Pipe_Proofs Pipe_Proofs2 Pipe_Proofs3 C05_Model C09_Model C09_Proofs.

(** While the consumer is attached the workers are never more than 2W tickets ahead of it. *)
Theorem pipe_lookahead : forall (A B : Type) (f : A -> B) (d : A) (l : list A) (W : nat) tr (s : state A B),
  run A B f d (init A B l W) tr = Some s -> dropped s = false -> next s <= length (out s) + 2 * W.
Proof. exact pipe_lookahead_l. Qed.
Print Assumptions pipe_lookahead.

(** After the drop every worker pulls at most one more item, so at most W more in total. *)
Theorem pipe_after_drop : forall (A B : Type) (f : A -> B) (d : A) (l : list A) (W : nat) tr (s : state A B),
  run A B f d (init A B l W) tr = Some s -> dropped s = true ->
  (forall t, nth t (pad s) 0 <= 1) /\ next s <= ndrop s + W.
Proof. exact after_drop_l. Qed.
Print Assumptions pipe_after_drop.

(** After the drop executions stay finite (pipe_finite, C05) and cannot stop before every worker returned. *)
Theorem pipe_drop_exit : forall (A B : Type) (f : A -> B) (d : A) (l : list A) (W : nat) tr (s : state A B),
  run A B f d (init A B l W) tr = Some s -> dropped s = true ->
  (forall lab, lab <> Drop -> step A B f d s lab = None) -> all_exited A B s = true.
Proof. exact pipe_drop_exit_l. Qed.
Print Assumptions pipe_drop_exit.

(** Buffered: at most capacity + 1 items ahead of the consumer. *)
Theorem buf_lookahead : forall sof n cap tr s,
  brun sof (binit n cap) tr = Some s -> bdropped s = false -> bpulled s <= length (bout s) + cap + 1.
Proof. exact buf_lookahead_l. Qed.
Print Assumptions buf_lookahead.

(** Buffered (repaired producer): at most one more pull after the drop. *)
Theorem buf_after_drop : forall n cap tr s,
  brun true (binit n cap) tr = Some s -> bdropped s = true -> bpad s <= 1.
Proof. exact buf_after_drop_l. Qed.
Print Assumptions buf_after_drop.

Theorem buf_finite : forall sof n cap tr s, brun sof (binit n cap) tr = Some s -> length tr <= 3 * n + 2.
Proof. exact buf_finite_l. Qed.
Print Assumptions buf_finite.

Theorem buf_no_deadlock : forall sof n cap tr s,
  brun sof (binit n cap) tr = Some s -> bfinal s = false ->
  exists l s', l <> BDrop /\ bstep sof s l = Some s'.
Proof. exact buf_no_deadlock_l. Qed.
Print Assumptions buf_no_deadlock.

(** Buffered without drop: every maximal execution delivers 0..n-1 in order and the producer returns. *)
Theorem buf_terminal : forall sof n cap tr s,
  brun sof (binit n cap) tr = Some s -> bdropped s = false ->
  (forall l, l <> BDrop -> bstep sof s l = None) -> bout s = seq 0 n /\ bthr s = BExited.
Proof. exact buf_terminal_top. Qed.
Print Assumptions buf_terminal.

(** Buffered (repaired) after the drop: a maximal execution ends with the producer returned. *)
Theorem buf_drop_exit : forall n cap tr s,
  brun true (binit n cap) tr = Some s -> bdropped s = true ->
  (forall l, l <> BDrop -> bstep true s l = None) -> bthr s = BExited.
Proof. exact buf_drop_exit_l. Qed.
Print Assumptions buf_drop_exit.

(** D4 as a theorem: the producer of the pinned commit (ignores the send error) can
    pull its whole upstream after an immediate drop, for every upstream length. *)
Theorem buffered_pinned_drains : forall n cap,
  exists tr s, brun false (binit n cap) (BDrop :: tr) = Some s /\ bpulled s = n /\ bpad s = n.
Proof. exact buffered_pinned_drains_l. Qed.
Print Assumptions buffered_pinned_drains.

(** Why the panic hook must end the process: a worker that dies holding the turn leaves a
    reachable state from which no schedule ever delivers an item or reaches end of stream. *)
Theorem pipe_panic_wedges : forall (A B : Type) (f : A -> B) (d a b : A),
  (exists s, run A B f d (init A B [a; b] 2) [Pull 0; Pull 1] = Some s /\ set_thr A B s 0 Exited = wedge0 A B a b)
  /\ forall tr s', ~ In Drop tr -> run A B f d (wedge0 A B a b) tr = Some s' -> out s' = [] /\ final A B s' = false.
Proof. exact pipe_panic_wedges_l. Qed.
Print Assumptions pipe_panic_wedges.

(** What an accepting verdict of the event walk inside [check_C09] means for an observed trace
    (events = (actor, code, idx, pulled); code 10/14 = the consumer received, 11 = it dropped, 1 = an
    actor pulled an item, 5 = Buffered producer went on after a failed send, 13 = anomaly):
    before the drop every observed pulled count is within [B] of the number of items consumed so far;
    after the drop at most [E] more items are pulled in total, nothing is received, no actor pulls
    twice, and a Buffered producer never ignores the failed send. check_C09 uses B = 2W, E = W for
    Pipe and B = cap + 1, E = 1 for Buffered. *)
Theorem walk_sound : forall bf B E evs, walk bf B E evs 0 None [] = true ->
  (forall pre e post, evs = pre ++ e :: post -> (forall x, In x pre -> e_code x <> 11) ->
     e_pulled e <= count_recv (pre ++ [e]) + B /\ e_code e <> 13)
  /\ (forall pre d post, evs = pre ++ d :: post -> (forall x, In x pre -> e_code x <> 11) -> e_code d = 11 ->
        (forall e, In e post -> e_pulled e <= e_pulled d + E /\ e_code e <> 13 /\ is_recv e = false
                                /\ (bf = true -> e_code e <> 5))
        /\ NoDup (map e_actor (filter is_got post))).
Proof. exact walk_sound_l. Qed.
Print Assumptions walk_sound.

(** Non-vacuity: the 2W bound is attained (W = 1: two tickets ahead with nothing consumed). *)
Example lookahead_tight :
  exists s, run Z Z fZ 0%Z (init Z Z [1; 2; 3]%Z 1) [Pull 0; Compute 0; TurnOk 0; SendOk 0; Advance 0; Pull 0] = Some s
            /\ next s = 2 /\ out s = [] /\ dropped s = false.
Proof. eexists. split; [vm_compute; reflexivity|]. repeat split. Qed.

(** * Third clause: the process-wide panic hook as a state machine (C09_Hook.v)

    History of API calls -> which hook is installed -> what a panic does. [repaired] = /repo as it is now
    (Pipe::new installs the exit hook for every threaded pipe; train_bpe chains to the hook it finds),
    [pinned] = train_bpe as it was (replaces the hook by a print-only one: defect D12). [p_clob p = false]:
    no code outside the crate installed a hook of its own since pipe p was created. *)
From TU Require Import C09_Hook C09_HookProofs C09_HookAlt.

(** Whatever the history of NewPipe / DropPipe / TrainBpe / ForeignHook / LockStdout / UnlockStdout / panics
    that did not end the process: a panic in a worker of a live threaded pipe ends the process, without
    printing first (so also while the consumer holds the stdout lock). *)
Theorem hook_protects_live_pipes : forall ops s i p,
  s = hexec repaired hinit ops ->
  nth_error (h_pipes s) i = Some p -> p_live p = true -> p_threads p <> 0 -> p_clob p = false ->
  panic_result s (PanicIn i) = Some (0, Some Exited).
Proof. exact hook_protects_live_pipes_l. Qed.
Print Assumptions hook_protects_live_pipes.

Example hook_protects_live_pipes_ex :
  let s := hexec repaired hinit [NewPipe 2; NewPipe 0; TrainBpe; DropPipe 1; NewPipe 3; PanicElsewhere; DropPipe 2;
                                 TrainBpe; LockStdout] in
  exists p, nth_error (h_pipes s) 0 = Some p /\ p_live p = true /\ p_threads p <> 0 /\ p_clob p = false
            /\ h_hook s = HThenPrint HExit /\ h_locked s = true.
Proof. eexists. cbn. repeat split. discriminate. Qed.

(** The exit hook is sticky: once a threaded pipe has been created (and no foreign hook since), EVERY panic in
    the process — in an unthreaded pipe's consumer, on an unrelated thread — ends the process, also after the
    pipe has been dropped. *)
Theorem hook_exit_sticky : forall ops s o t,
  s = hexec repaired hinit ops ->
  (exists p, In p (h_pipes s) /\ p_threads p <> 0 /\ p_clob p = false) ->
  hpanic s o = Some t -> verdict s t = (0, Some Exited).
Proof. exact hook_exit_sticky_l. Qed.
Print Assumptions hook_exit_sticky.

Example hook_exit_sticky_ex :
  let s := hexec repaired hinit [NewPipe 1; DropPipe 0; TrainBpe] in
  (exists p, In p (h_pipes s) /\ p_threads p <> 0 /\ p_clob p = false) /\ hpanic s PanicElsewhere = Some TOther.
Proof. split; [eexists; split; [left; reflexivity|split; [discriminate|reflexivity]]|reflexivity]. Qed.

(** The run of a whole process (what the harness child does, [hrun]) always meets the executable statement
    [hook_ok] that check_C09 applies to the observed run. *)
Theorem hook_run_meets_check : forall ops,
  hook_ok ops (status_code (fst (hrun repaired hinit ops))) (snd (hrun repaired hinit ops)) = true.
Proof. exact hrun_meets_check_l. Qed.
Print Assumptions hook_run_meets_check.

(** What an accepting [hook_ok] means: if operation k is the first panic in a worker of a live threaded
    unclobbered pipe and the observed run got that far, it ended there with the exit status of the hook. *)
Theorem hook_ok_sound : forall ops code counts k,
  hook_ok ops code counts = true -> first_protected hinit ops = Some k -> k < length counts ->
  length counts = S k /\ code = 1%Z.
Proof. exact hook_ok_sound_l. Qed.
Print Assumptions hook_ok_sound.

Example hook_ok_sound_ex :
  hook_ok [NewPipe 2; TrainBpe; PanicIn 0] 1 [0; 0; 0] = true
  /\ first_protected hinit [NewPipe 2; TrainBpe; PanicIn 0] = Some 2.
Proof. split; reflexivity. Qed.

Theorem hook_first_protected_spec : forall ops s k,
  first_protected s ops = Some k ->
  exists i p, nth_error ops k = Some (PanicIn i)
    /\ nth_error (h_pipes (hexec repaired s (firstn k ops))) i = Some p
    /\ p_live p = true /\ p_threads p <> 0 /\ p_clob p = false
    /\ forall j, j < k -> protected_panic (hexec repaired s (firstn j ops)) (nth j ops Nop) = false.
Proof. exact first_protected_spec. Qed.
Print Assumptions hook_first_protected_spec.

(** ... and the pipe fields that statement reads evolve in the same way under every hook bookkeeping. *)
Theorem hook_ghost_policy_independent : forall pol ops o,
  protected_panic (hexec pol hinit ops) o = protected_panic (hexec repaired hinit ops) o.
Proof. exact ghost_policy_independent_l. Qed.
Print Assumptions hook_ghost_policy_independent.

(** D12 as theorems about the pinned bookkeeping. The witness history of the real check, and: after EVERY history
    that ends with train_bpe, no live threaded pipe is protected (blocked consumer, or a silently ended stream). *)
Theorem hook_pinned_refuted :
  hrun pinned hinit [NewPipe 2; TrainBpe; PanicIn 0] = (Blocked, [0; 0; 1])
  /\ hrun pinned hinit [NewPipe 1; TrainBpe; PanicIn 0] = (Truncated, [0; 0; 1])
  /\ first_protected hinit [NewPipe 2; TrainBpe; PanicIn 0] = Some 2
  /\ hook_ok [NewPipe 2; TrainBpe; PanicIn 0] 42 [0; 0; 1] = false
  /\ hrun repaired hinit [NewPipe 2; TrainBpe; PanicIn 0] = (Exited, [0; 0; 0]).
Proof. exact hook_pinned_refuted_l. Qed.
Print Assumptions hook_pinned_refuted.

Theorem hook_pinned_train_unprotects : forall ops s i p,
  s = hexec pinned hinit (ops ++ [TrainBpe]) ->
  nth_error (h_pipes s) i = Some p -> p_live p = true -> p_threads p <> 0 ->
  exists n st, panic_result s (PanicIn i) = Some (n, Some st) /\ st <> Exited.
Proof. exact pinned_train_unprotects_l. Qed.
Print Assumptions hook_pinned_train_unprotects.

Example hook_pinned_train_unprotects_ex :
  let s := hexec pinned hinit ([NewPipe 3; NewPipe 1; DropPipe 0] ++ [TrainBpe]) in
  exists p, nth_error (h_pipes s) 1 = Some p /\ p_live p = true /\ p_threads p <> 0.
Proof. eexists. cbn. repeat split. discriminate. Qed.

(** Seeded change C09-2 (Pipe::new saves the previous hook, Drop puts it back): refuted by two overlapping pipes
    dropped in creation order (`iter = new_iter()` of TrainLoader) ... *)
Theorem hook_restore_on_drop_refuted :
  exists ops i p, let s := hexec restore_on_drop hinit ops in
    nth_error (h_pipes s) i = Some p /\ p_live p = true /\ p_threads p <> 0 /\ p_clob p = false
    /\ panic_result s (PanicIn i) = Some (0, Some Blocked)
    /\ hrun restore_on_drop hinit (ops ++ [PanicIn i]) = (Blocked, [0; 0; 0; 0]).
Proof. exact restore_refuted_l. Qed.
Print Assumptions hook_restore_on_drop_refuted.

(** ... and safe exactly in the discipline its author had in mind: pipes dropped in reverse order of creation. *)
Theorem hook_restore_on_drop_nested : forall ops s i p,
  s = hexec restore_on_drop hinit ops -> well_nested restore_on_drop hinit ops = true ->
  nth_error (h_pipes s) i = Some p -> p_live p = true -> p_threads p <> 0 -> p_clob p = false ->
  panic_result s (PanicIn i) = Some (0, Some Exited).
Proof. exact restore_nested_l. Qed.
Print Assumptions hook_restore_on_drop_nested.

Example hook_restore_on_drop_nested_ex :
  let ops := [NewPipe 2; TrainBpe; NewPipe 3; NewPipe 0; NewPipe 1; DropPipe 3; DropPipe 2; TrainBpe; DropPipe 1] in
  let s := hexec restore_on_drop hinit ops in
  well_nested restore_on_drop hinit ops = true
  /\ exists p, nth_error (h_pipes s) 0 = Some p /\ p_live p = true /\ p_threads p <> 0 /\ p_clob p = false.
Proof. split; [reflexivity|]. eexists. cbn. repeat split. discriminate. Qed.

(** Seeded change C09-4 (hook installed through a process-wide Once): refuted with the pinned train_bpe
    (pipe; train_bpe; pipe) and, on the repaired tree, by a foreign hook between two pipes ... *)
Theorem hook_once_refuted :
  (exists ops i p, let s := hexec once_pinned hinit ops in
     nth_error (h_pipes s) i = Some p /\ p_live p = true /\ p_threads p <> 0 /\ p_clob p = false
     /\ panic_result s (PanicIn i) = Some (1, Some Blocked))
  /\ (exists ops i p, let s := hexec once_chain hinit ops in
     nth_error (h_pipes s) i = Some p /\ p_live p = true /\ p_threads p <> 0 /\ p_clob p = false
     /\ panic_result s (PanicIn i) = Some (0, Some Blocked)).
Proof. exact once_refuted_l. Qed.
Print Assumptions hook_once_refuted.

(** ... while in a process in which only this crate touches the hook the repaired train_bpe makes it harmless. *)
Theorem hook_once_closed_world : forall ops s i p,
  s = hexec once_chain hinit ops -> ~ In ForeignHook ops ->
  nth_error (h_pipes s) i = Some p -> p_live p = true -> p_threads p <> 0 ->
  panic_result s (PanicIn i) = Some (0, Some Exited).
Proof. exact once_closed_world_l. Qed.
Print Assumptions hook_once_closed_world.

Example hook_once_closed_world_ex :
  let ops := [NewPipe 1; DropPipe 0; TrainBpe; TrainBpe; NewPipe 2] in
  ~ In ForeignHook ops
  /\ exists p, nth_error (h_pipes (hexec once_chain hinit ops)) 1 = Some p /\ p_live p = true /\ p_threads p <> 0.
Proof.
  split; [intros H; repeat (destruct H as [H|H]; [discriminate|]); exact H|].
  eexists. cbn. repeat split. discriminate.
Qed.

(** Why the repair runs the previous hook BEFORE it prints: a repair that prints first is refuted by a consumer
    that holds the stdout lock (println! in the hook never returns), and is safe only while nobody does. *)
Theorem hook_print_first_refuted :
  exists ops i p, let s := hexec print_first hinit ops in
    nth_error (h_pipes s) i = Some p /\ p_live p = true /\ p_threads p <> 0 /\ p_clob p = false
    /\ panic_result s (PanicIn i) = Some (0, Some Blocked)
    /\ hrun print_first hinit (ops ++ [PanicIn i]) = (Blocked, [0; 0; 0; 0]).
Proof. exact print_first_refuted_l. Qed.
Print Assumptions hook_print_first_refuted.

Theorem hook_print_first_unlocked : forall ops s i p,
  s = hexec print_first hinit ops -> h_locked s = false ->
  nth_error (h_pipes s) i = Some p -> p_live p = true -> p_threads p <> 0 -> p_clob p = false ->
  exists n, panic_result s (PanicIn i) = Some (n, Some Exited).
Proof. exact print_first_unlocked_l. Qed.
Print Assumptions hook_print_first_unlocked.

Example hook_print_first_unlocked_ex :
  let s := hexec print_first hinit [NewPipe 2; LockStdout; TrainBpe; TrainBpe; UnlockStdout] in
  h_locked s = false
  /\ (exists p, nth_error (h_pipes s) 0 = Some p /\ p_live p = true /\ p_threads p <> 0 /\ p_clob p = false)
  /\ panic_result s (PanicIn 0) = Some (2, Some Exited).
Proof. split; [reflexivity|split; [|reflexivity]]. eexists. cbn. repeat split. discriminate. Qed.

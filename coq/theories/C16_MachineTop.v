(** C16 — machine-integer model: character boundaries, the val-level run, the pinned
    (pre-repair) configuration check, and the instantiation with the segmenter. *)
From TU Require Import Base UAX29_Model C16_Model C16_Proofs C16_Top C16_UAX29 C16_Machine C16_MachineProofs.
From Coq Require Import Lia ZifyBool ZifyNat ZifyN.
Open Scope N_scope.
Arguments N.add : simpl never.
Arguments N.sub : simpl never.
Arguments N.mul : simpl never.
Arguments N.eqb : simpl never.
Arguments N.ltb : simpl never.
Arguments N.leb : simpl never.
Arguments N.min : simpl never.
Arguments N.modulo : simpl never.
Arguments N.of_nat : simpl never.
Arguments N.to_nat : simpl never.

(** * the meaning of the three operations *)
Lemma mod_small a : a < W -> a mod W = a.
Proof. intros H. apply N.mod_small. exact H. Qed.

Lemma machine_ops_spec_l s a b : a < W -> b < W ->
  madd Checked s a b = (if a + b <? W then Ok (a + b) else Fault s)
  /\ madd Wrapping s a b = Ok ((a + b) mod W)
  /\ msub Checked s a b = (if b <=? a then Ok (a - b) else Fault s)
  /\ msub Wrapping s a b = Ok ((a + W - b) mod W)
  /\ mmul Checked s a b = (if a * b <? W then Ok (a * b) else Fault s)
  /\ mmul Wrapping s a b = Ok ((a * b) mod W).
Proof.
  intros Ha Hb. unfold madd, msub, mmul, add_o, sub_o, mul_o, ovf. cbv zeta.
  rewrite (mod_small b Hb).
  destruct (a + b <? W) eqn:E1; destruct (b <=? a) eqn:E2; destruct (a * b <? W) eqn:E3;
    repeat split; try reflexivity;
    try (rewrite mod_small by lia; reflexivity);
    try (f_equal; f_equal; lia);
    try (replace (a + W - b) with (a - b + 1 * W) by lia; rewrite N.mod_add by (pose proof W_pos; lia);
         rewrite mod_small by lia; reflexivity).
Qed.

(** * is_char_boundary *)
Lemma bnd_prefix a : forall r, bnd (a ++ r) (sumN a) = true.
Proof.
  induction a as [|x a IH]; intros r.
  - change (sumN []) with 0. destruct r; reflexivity.
  - cbn [app bnd]. rewrite sumN_cons. replace (x + sumN a - x) with (sumN a) by lia. rewrite IH.
    destruct (x + sumN a =? 0); [reflexivity|]. cbn [orb]. rewrite andb_true_r. apply N.leb_le. lia.
Qed.

Lemma bnd_spec cpl : forall b, bnd cpl b = true <-> exists k, b = sumN (firstn k cpl).
Proof.
  induction cpl as [|x r IH]; intros b; cbn [bnd].
  - rewrite orb_false_r, N.eqb_eq. split.
    + intros ->. exists 0%nat. reflexivity.
    + intros (k & ->). rewrite firstn_nil. reflexivity.
  - split.
    + intros H. apply orb_true_iff in H as [H|H].
      * apply N.eqb_eq in H. subst b. exists 0%nat. reflexivity.
      * apply andb_true_iff in H as [H1 H2]. apply IH in H2 as (k & Hk). exists (S k).
        cbn [firstn]. rewrite sumN_cons. lia.
    + intros (k & ->). change (bnd (x :: r) (sumN (firstn k (x :: r))) = true).
      pose proof (bnd_prefix (firstn k (x :: r)) (skipn k (x :: r))) as E.
      rewrite firstn_skipn in E. exact E.
Qed.

Lemma sum_cl_blen l : sumN (map cl_blen l) = sumN (map utf8_len (concat l)).
Proof.
  induction l as [|c l IH]; [reflexivity|]. cbn [map concat]. rewrite sumN_cons, map_app, sumN_app', IH.
  reflexivity.
Qed.

Lemma isb_of_pre cl k : isb_of cl (pre (lens_of cl) k) = true.
Proof.
  unfold isb_of, lens_of. rewrite pre_firstn, firstn_map, sum_cl_blen.
  rewrite <- (firstn_skipn (N.to_nat k) cl) at 1. rewrite concat_app, map_app. apply bnd_prefix.
Qed.

(** * the machine model on the clusters of a text *)
Lemma machine_eq_model_l p lens isb kind max ctx :
  Pos lens -> sumN lens <= ISIZE_MAX -> (forall k, isb (pre lens k) = true) -> max < W ->
  mwindows p true isb kind max ctx lens = windows kind max ctx lens.
Proof. intros HP HB Hi Hm. apply mwindows_ok; assumption. Qed.

Lemma machine_no_fault_l p lens isb kind max ctx :
  Pos lens -> sumN lens <= ISIZE_MAX -> (forall k, isb (pre lens k) = true) -> max < W ->
  (exists wins, mwindows p true isb kind max ctx lens = Ok wins)
  \/ (exists c info, mwindows p true isb kind max ctx lens = Err c info).
Proof.
  intros HP HB Hi Hm. rewrite machine_eq_model_l by assumption. apply windows_total_l. exact HP.
Qed.

Lemma machine_profiles_agree_l lens isb kind max ctx :
  Pos lens -> sumN lens <= ISIZE_MAX -> (forall k, isb (pre lens k) = true) -> max < W ->
  mwindows Checked true isb kind max ctx lens = mwindows Wrapping true isb kind max ctx lens.
Proof. intros HP HB Hi Hm. rewrite !machine_eq_model_l by assumption. reflexivity. Qed.

Lemma machine_offsets_eq_l p lens isb :
  Pos lens -> sumN lens <= ISIZE_MAX -> (forall k, isb (pre lens k) = true) ->
  mcs_new p lens = Ok (cs_new lens)
  /\ (forall n, mbse p (cs_new lens) n = bse (cs_new lens) n)
  /\ (forall n, mcbl p (cs_new lens) n = cbl (cs_new lens) n)
  /\ (forall a b, mcr2br p (cs_new lens) a b = cr2br (cs_new lens) a b)
  /\ (forall n, mget p isb (cs_new lens) n = cs_get (cs_new lens) n)
  /\ (forall a b, msubstr p isb (cs_new lens) a b = sub (cs_new lens) a b)
  /\ (forall maxc, mpcs p lens maxc = pcs lens maxc).
Proof.
  intros HP HB Hi. split; [apply mcs_new_ok'; assumption|].
  split; [intros n; apply mbse_ok; assumption|].
  split; [intros n; apply mcbl_ok; assumption|].
  split; [intros a b; apply mcr2br_ok; assumption|].
  split; [intros n; apply mget_ok; assumption|].
  split; [intros a b; apply msubstr_ok; assumption|].
  intros maxc; apply mpcs_ok; assumption.
Qed.

(** * the val-level run *)
Definition bytes_of (v : val) : N := sumN (lens_of (v_clusters (v_nth 3 v))).

Lemma run_M16_ok p v : wf_C16 v = true -> bytes_of v <= ISIZE_MAX -> v_big (v_nth 1 v) < W ->
  run_M16 p v = run_C16 v.
Proof.
  unfold bytes_of. intros Hwf HB Hm. apply wf_Pos in Hwf. unfold run_M16, run_C16. cbv zeta.
  set (cl := v_clusters (v_nth 3 v)) in *.
  assert (Hi : forall k, isb_of cl (pre (lens_of cl) k) = true) by (intros k; apply isb_of_pre).
  rewrite mwindows_ok, mcs_new_ok', mpcs_ok by assumption.
  do 3 f_equal. f_equal. f_equal. apply map_ext. intros pv. unfold mprobe_v, probe_v. cbv zeta.
  rewrite mget_ok, msubstr_ok by assumption. reflexivity.
Qed.

Lemma val_eqb_refl : forall v, val_eqb v v = true.
Proof.
  fix IH 1. intros [z|l]; cbn [val_eqb].
  - apply Z.eqb_refl.
  - induction l as [|x l IHl]; [reflexivity|]. rewrite IH. exact IHl.
Qed.

Lemma machine_agree_run_l v : wf_C16 v = true -> bytes_of v <= ISIZE_MAX -> v_big (v_nth 1 v) < W ->
  machine_agree v (run_C16 v) = true.
Proof.
  intros H1 H2 H3. unfold machine_agree. rewrite !run_M16_ok by assumption.
  rewrite val_eqb_refl. reflexivity.
Qed.

(** * with the segmenter inside the model *)
Section U.
Variables (p : profile) (g : bool) (kind max ctx : N) (s : str).
Hypothesis HB : lenN (utf8s s) <= ISIZE_MAX.
Hypothesis Hm : max < W.

Definition mwindows_u : res (list window) :=
  mwindows p true (isb_of (seg_of g s)) kind max ctx (lens_g g s).

Lemma machine_eq_model_g : mwindows_u = windows kind max ctx (lens_g g s).
Proof.
  unfold mwindows_u. apply machine_eq_model_l.
  - apply lens_g_Pos.
  - rewrite lens_g_sum. exact HB.
  - intros k. apply isb_of_pre.
  - exact Hm.
Qed.

Lemma machine_total_g :
  (exists wins, mwindows_u = Ok wins) \/ (exists c info, mwindows_u = Err c info).
Proof. rewrite machine_eq_model_g. apply windows_total_g. Qed.

Lemma machine_tile_g wins : s <> [] -> mwindows_u = Ok wins ->
  Tile w_ws w_we 0 (lenN (seg_of g s)) wins
  /\ Tile w_bws w_bwe 0 (lenN (utf8s s)) wins
  /\ concat (map (fun w => bslice (utf8s s) (w_bws w) (w_bwe w)) wins) = utf8s s
  /\ concat (map (fun w => concat (bslice (seg_of g s) (w_ws w) (w_we w))) wins) = s.
Proof. intros Hs. rewrite machine_eq_model_g. apply windows_tile_g. exact Hs. Qed.

Lemma machine_ctx_g wins : s <> [] -> mwindows_u = Ok wins ->
  Forall (fun w => w_cs w <= w_ws w /\ w_we w <= w_ce w /\ w_ce w <= lenN (seg_of g s)
                /\ w_bcs w <= w_bws w /\ w_bwe w <= w_bce w /\ w_bce w <= lenN (utf8s s)) wins
  /\ (kclass kind = 0 -> Forall (fun w => w_ce w - w_cs w <= max) wins)
  /\ (kclass kind = 1 -> Forall (fun w => w_bce w - w_bcs w <= max) wins).
Proof.
  intros Hs. rewrite machine_eq_model_g. intros Hw. split.
  - apply (ctx_contains_g g kind max ctx s wins Hs Hw).
  - apply (ctx_bound_g g kind max ctx s wins Hs Hw).
Qed.

Lemma machine_bad_config_g : s <> [] -> kclass kind <> 2 -> max <= 2 * ctx -> mwindows_u = Err 1 [].
Proof. intros Hs Hk Hc. rewrite machine_eq_model_g. apply bad_config_err_g; assumption. Qed.
End U.

(** * the code before the D10 repair: [max <= 2 * context] *)
Lemma pinned_config_faults_l isb lens max ctx : W <= 2 * ctx ->
  mchar_windows Checked false isb lens max ctx = Fault 18
  /\ mbyte_windows Checked false isb lens max ctx = Fault 26.
Proof.
  intros H. unfold mchar_windows, mbyte_windows, mconfig_bad. rewrite !mmul_ovf by exact H.
  split; reflexivity.
Qed.

Lemma pinned_agrees_elsewhere_l p isb kind lens max ctx : 2 * ctx < W ->
  mwindows p false isb kind max ctx lens = mwindows p true isb kind max ctx lens.
Proof.
  intros H. unfold mwindows, mchar_windows, mbyte_windows, mconfig_bad, sat_mul.
  rewrite !mmul_ok by exact H. cbn [bind].
  replace (N.min (ctx * 2) (W - 1)) with (2 * ctx) by lia. reflexivity.
Qed.

(** * the executable statement on the machine model's output; the input built by the model *)
Lemma machine_check_run_l p v : wf_C16 v = true -> bytes_of v <= ISIZE_MAX -> v_big (v_nth 1 v) < W ->
  check_C16 v (run_M16 p v) = true.
Proof. intros H1 H2 H3. rewrite run_M16_ok by assumption. apply check_run_l. exact H1. Qed.

Lemma input_of_wf kind max ctx g s probes : wf_C16 (input_of kind max ctx g s probes) = true.
Proof.
  unfold wf_C16, input_of. cbn [v_nth nth]. rewrite v_clusters_v.
  rewrite forallb_forall. intros c Hc. pose proof (seg_of_nonempty g s) as H.
  rewrite Forall_forall in H. specialize (H c Hc). destruct c; [congruence|reflexivity].
Qed.

Lemma v_big_n_v x : v_big (n_v x) = x.
Proof. unfold v_big, n_v. apply N2Z.id. Qed.

Lemma machine_run_u_l p kind max ctx g s probes : lenN (utf8s s) <= ISIZE_MAX -> max < W ->
  run_M16 p (input_of kind max ctx g s probes) = run_C16 (input_of kind max ctx g s probes)
  /\ machine_agree (input_of kind max ctx g s probes) (run_C16 (input_of kind max ctx g s probes)) = true.
Proof.
  intros HB Hm.
  assert (H2 : bytes_of (input_of kind max ctx g s probes) <= ISIZE_MAX).
  { unfold bytes_of, input_of. cbn [v_nth nth]. rewrite v_clusters_v.
    change (lens_of (seg_of g s)) with (lens_g g s). rewrite lens_g_sum. exact HB. }
  assert (H3 : v_big (v_nth 1 (input_of kind max ctx g s probes)) < W).
  { unfold input_of. cbn [v_nth nth]. rewrite v_big_n_v. exact Hm. }
  split; [apply run_M16_ok | apply machine_agree_run_l]; try assumption; apply input_of_wf.
Qed.

(** * witnesses for the pinned code: "abcdefgh", max 5, context 2^63 *)
Definition abc8 : list cluster := [[97];[98];[99];[100];[101];[102];[103];[104]].
Definition two63 : N := 9223372036854775808.

Lemma pinned_no_fault_refuted_l :
  exists kind max ctx cl,
    max < W /\ ctx < W /\ sumN (lens_of cl) <= ISIZE_MAX /\ Pos (lens_of cl)
    /\ is_fault (mwindows Checked false (isb_of cl) kind max ctx (lens_of cl)) = true
    /\ windows kind max ctx (lens_of cl) = Err 1 [].
Proof.
  exists 0, 5, two63, abc8. split; [reflexivity|]. split; [reflexivity|]. split; [vm_compute; discriminate|].
  split; [repeat constructor|]. split; vm_compute; reflexivity.
Qed.

Lemma pinned_wrapping_refuted_l :
  exists kind max ctx cl wins w,
    max < W /\ ctx < W /\ sumN (lens_of cl) <= ISIZE_MAX /\ Pos (lens_of cl)
    /\ windows kind max ctx (lens_of cl) = Err 1 []
    /\ mwindows Wrapping false (isb_of cl) kind max ctx (lens_of cl) = Ok wins /\ In w wins
    /\ w_ce w < w_we w.
Proof.
  exists 0, 5, two63, abc8. eexists. eexists. split; [reflexivity|]. split; [reflexivity|].
  split; [vm_compute; discriminate|]. split; [repeat constructor|]. split; [vm_compute; reflexivity|].
  split; [vm_compute; reflexivity|]. split; [left; reflexivity|]. vm_compute. reflexivity.
Qed.

Lemma pinned_wrapping_bound_refuted_l :
  exists kind max ctx cl wins w,
    max < W /\ ctx < W /\ sumN (lens_of cl) <= ISIZE_MAX /\ Pos (lens_of cl)
    /\ kclass kind = 1
    /\ windows kind max ctx (lens_of cl) = Err 1 []
    /\ mwindows Wrapping false (isb_of cl) kind max ctx (lens_of cl) = Ok wins /\ In w wins
    /\ max < w_bce w - w_bcs w.
Proof.
  exists 1, 5, two63, abc8. eexists. eexists. split; [reflexivity|]. split; [reflexivity|].
  split; [vm_compute; discriminate|]. split; [repeat constructor|]. split; [reflexivity|].
  split; [vm_compute; reflexivity|].
  split; [vm_compute; reflexivity|]. split; [left; reflexivity|]. vm_compute. reflexivity.
Qed.

(** * the bound on the text is needed: a CharString of 2^63 + 10 one-byte characters (one run; no such
    str exists in Rust), max = 2^63 + 5, ctx = 0: the unbounded model gives two windows, the second
    window of the machine model computes 2^63+5 + 2^63+5 *)
Definition big_cs : cstr := mkcs [(1, 9223372036854775818)] 9223372036854775818 9223372036854775818.
Lemma isize_bound_needed_l :
  exists cs max ctx,
    c_rle cs = [(1, c_len cs)] /\ c_blen cs = c_len cs /\ c_len cs < W /\ ISIZE_MAX < c_blen cs
    /\ 2 * ctx < max /\ max < W
    /\ (exists wins, char_loop 3 cs max ctx 0 = Ok wins /\ length wins = 2%nat)
    /\ mchar_loop Checked (fun _ => true) 3 cs max ctx 0 = Fault 15
    /\ mchar_loop Wrapping (fun _ => true) 3 cs max ctx 0 = Panic 4.
Proof.
  exists big_cs, 9223372036854775813, 0.
  split; [reflexivity|]. split; [reflexivity|]. split; [reflexivity|]. split; [reflexivity|].
  split; [reflexivity|]. split; [reflexivity|].
  split; [eexists; split; [vm_compute; reflexivity|reflexivity]|].
  split; vm_compute; reflexivity.
Qed.

(** The two models of [BufRead::lines] — NFKC_Tie.split_lines (C19: corpus files of [train_bpe]) and
    C20_Model.lines_aux / lines_of (C20: the dictionary file read by [Dictionary::load]) — are the same function. *)
From TU Require Import Base.
From TU Require NFKC_Tie C20_Model.
Open Scope N_scope.

Lemma split_lines_C20_gen : forall bs cur, NFKC_Tie.split_lines cur bs = C20_Model.lines_aux cur bs.
Proof.
  induction bs as [|b bs IH]; intros cur; cbn [NFKC_Tie.split_lines C20_Model.lines_aux]; [reflexivity|].
  rewrite !IH. destruct (b =? 10); [|reflexivity]. f_equal.
  unfold C20_Model.strip_cr. destruct cur as [|x r]; [reflexivity|].
  destruct (x =? 13) eqn:E; [apply N.eqb_eq in E; subst x; reflexivity|].
  destruct x as [|p]; [reflexivity|]. apply N.eqb_neq in E.
  repeat (destruct p as [p|p|]; try reflexivity; try congruence).
Qed.

Theorem lines_models_agree_l bs : NFKC_Tie.split_lines [] bs = C20_Model.lines_of bs.
Proof. exact (split_lines_C20_gen bs []). Qed.

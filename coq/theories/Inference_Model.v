(** Inference loader (src/data/mod.rs: [inference_pipeline], [InferenceLoader::new], [__next__],
    [InferenceItem] / [InferenceBatch] accessors) as the composition of the modelled stages.
    Definitions only.

      texts (anyhow::Result<String>)
        --scan: stop at the first Err and record it in iter_err-->   [scan1]
        --enumerate-->                                                [enumerate]
        --pipe(pipeline, num_threads)  (C05: a sequential map)-->     [map pipeline]
             pipeline (idx, text) = windows(text, cfg)?  (C16: [windows])
                                    .enumerate().map(|w| tokenize(w.str)? (C01 / C02) -> InferenceItem)
        --scan: stop at the first Err result and record it-->         [scan2]
        --flatten-->                                                  [concat]
        --batched(sort, false, prefetch.max(1), limit, type, None)--> C06 [batches] (never shuffles)
        --buffered (C09: transparent)-->
      __next__: the next batch; at the end Err(iter_err) if an error was recorded, else None.

    [stream] is the same thing written as one recursion over the texts; [stream_is_composition]
    (Inference_Proofs.v) proves the two equal.  The thread count and the buffer size are no
    arguments of the model: that the real stream does not depend on them is the content of the
    Pipe / Buffered theorems (C05, C09) transported in Inference_Props.v, and of the differential
    test, which runs every case with its own thread count and buffer size.

    What the model does NOT describe of the code before the repair D17 (Pipe::new polled the
    upstream again after it had returned None; the scan adaptor is not fused): see
    Inference_Unfused.v. *)
From TU Require Import Base C16_Model C01_Model.
From TU Require C01_UAX29 C06_Model BPE_Model C02_Model.
Local Open Scope nat_scope.

(** * items *)
Record iitem := mki {
  i_ids : list N;        (* tokenization.token_ids *)
  i_idx : nat;           (* item_idx: position of the text in the input *)
  i_widx : nat;          (* window_idx *)
  i_win : window }.      (* window = boundaries(), byte_window = byte_boundaries() *)

(** [ItemSize for InferenceItem]: the number of token ids *)
Definition isize (x : iitem) : nat := length (i_ids x).
(** accessors of [InferenceItem] *)
Definition window_bytes (x : iitem) : N := (w_bwe (i_win x) - w_bws (i_win x))%N.
Definition context_bytes (x : iitem) : N := (w_bce (i_win x) - w_bcs (i_win x))%N.
Definition tag (x : iitem) : nat * nat := (i_idx x, i_widx x).

(** how the iteration ended *)
Inductive ierr :=
| EText (pos : nat)                          (* the text iterator returned Err at this position *)
| EWin (idx : nat) (code : N) (info : list N)  (* windows() returned Err for text idx (C16 codes 1, 2) *)
| ETok (idx widx : nat)                      (* the tokenizer returned Err for this window *)
| EBug (idx : nat).                          (* a panic site / fuel of the C16 model: never (theorem) *)

Inductive ires (A : Type) := IOk (a : A) | IErr (e : ierr).
Arguments IOk {A} a.
Arguments IErr {A} e.

(** elements [a, b) of a list (the clusters of a window's context) *)
Definition cslice {A} (l : list A) (a b : N) : list A :=
  firstn (N.to_nat (b - a)) (skipn (N.to_nat a) l).

Section Inference.
(** window configuration: kind 0 = Character(max, ctx, g), 1 = Bytes(max, ctx, g), 2 = Full(g);
    [tok] = the tokenizer applied to a window's string with the loader's ignore_special_tokens
    ([None] = Err) *)
Variables (kind max ctx : N) (g : bool) (tok : str -> option (list N)).

(** [w.str]: the context of the window, as text *)
Definition win_text (cl : list cluster) (w : window) : str := concat (cslice cl (w_cs w) (w_ce w)).

(** [.iter().enumerate().map(..).collect::<Result<Vec<_>>>()]: the first tokenizer error wins *)
Fixpoint tok_windows (cl : list cluster) (idx widx : nat) (ws : list window) : ires (list iitem) :=
  match ws with
  | [] => IOk []
  | w :: r =>
      match tok (win_text cl w) with
      | None => IErr (ETok idx widx)
      | Some ids =>
          match tok_windows cl idx (S widx) r with
          | IOk l => IOk (mki ids idx widx w :: l)
          | IErr e => IErr e
          end
      end
  end.

(** the pipeline closure of [inference_pipeline] applied to (idx, text) *)
Definition inference_items (idx : nat) (s : str) : ires (list iitem) :=
  let cl := C16_Model.seg_of g s in
  match windows kind max ctx (lens_of cl) with
  | Ok ws => tok_windows cl idx 0 ws
  | Err c i => IErr (EWin idx c i)
  | Panic _ | Fuel => IErr (EBug idx)
  end.

(** ** the stages, literally *)
(** first scan: the texts before the first Err; the recorded error *)
Fixpoint scan1 (pos : nat) (texts : list (option str)) : list str * option ierr :=
  match texts with
  | [] => ([], None)
  | None :: _ => ([], Some (EText pos))
  | Some s :: r => let '(l, e) := scan1 (S pos) r in (s :: l, e)
  end.
Definition enumerate {A} (l : list A) : list (nat * A) := combine (seq 0 (length l)) l.
Definition pipeline (p : nat * str) : ires (list iitem) := inference_items (fst p) (snd p).
(** second scan: the results before the first Err; the recorded error *)
Fixpoint scan2 (rs : list (ires (list iitem))) : list (list iitem) * option ierr :=
  match rs with
  | [] => ([], None)
  | IErr e :: _ => ([], Some e)
  | IOk its :: r => let '(l, e) := scan2 r in (its :: l, e)
  end.

(** the items that reach the batcher and the content of iter_err when the stream is over, for a
    consumer that pulls lazily (num_threads = 0): the second scan's error is recorded and the
    upstream is never polled again (Flatten fuses), so a later Err text is never seen *)
Definition composition (texts : list (option str)) : list iitem * option ierr :=
  let '(ok, e1) := scan1 0 texts in
  let '(its, e2) := scan2 (map pipeline (enumerate ok)) in
  (concat its, match e2 with Some e => Some e | None => e1 end).

(** the same as one recursion *)
Fixpoint stream (idx : nat) (texts : list (option str)) : list iitem * option ierr :=
  match texts with
  | [] => ([], None)
  | None :: _ => ([], Some (EText idx))
  | Some s :: r =>
      match inference_items idx s with
      | IOk its => let '(rest, e) := stream (S idx) r in (its ++ rest, e)
      | IErr e => ([], Some e)
      end
  end.

(** [InferenceLoader::new] + drain: prefetch_factor.max(1) (again in [Batched::new], with the
    limit), sort as given, shuffle never, no seed (the oracle is never consulted) *)
Definition inference_run (sort : bool) (prefetch limit : nat) (ty : C06_Model.limit_type)
           (texts : list (option str)) : C06_Model.res (list (list iitem)) * option ierr :=
  let '(items, e) := stream 0 texts in
  (C06_Model.batches isize sort false (Nat.max prefetch 1) limit ty C06_Model.o_default items, e).

(** ** what the Python side does with the tags (python/text_utils/api/processor.py, sort = True):
    results[item_idx][window_idx] = item; then for every item_idx the windows in window order *)
Definition lookup (l : list iitem) (i k : nat) : option iitem :=
  find (fun x => Nat.eqb (i_idx x) i && Nat.eqb (i_widx x) k) l.
Definition nwin (l : list iitem) (i : nat) : nat :=
  length (filter (fun x => Nat.eqb (i_idx x) i) l).
Fixpoint keep_some {X} (l : list (option X)) : list X :=
  match l with [] => [] | Some x :: r => x :: keep_some r | None :: r => keep_some r end.
Definition reassemble (l : list iitem) (i : nat) : list iitem :=
  keep_some (map (lookup l i) (seq 0 (nwin l i))).
(** the byte ranges of the windows of a text, cut out of its UTF-8 encoding and concatenated *)
Definition glue_bytes (text : list byte) (its : list iitem) : list byte :=
  concat (map (fun x => cslice text (w_bws (i_win x)) (w_bwe (i_win x))) its).

End Inference.

(** * tokenizers *)
Inductive tokenizer :=
| TokC01 (c : cfg) (b : base)          (* byte / character tokenizer, constructed *)
| TokBPE (c : BPE_Model.config).       (* BPE tokenizer (tokenize(_, true) is what the model covers) *)

(** the character tokenizer in grapheme mode segments by itself ([C01_UAX29.oracle_u]) *)
Definition tok_fn (t : tokenizer) (ign : bool) (s : str) : option (list N) :=
  match t with
  | TokC01 c b => tokenize c b s ign (C01_UAX29.oracle_u (c_g c) (split_input (b_sv b) s ign))
  | TokBPE c => BPE_Model.bpe_tokenize c s
  end.

(** * val glue
    input  = (10 tok (ign kind max ctx g) (threads buffer limit ty prefetch sort) texts)
               tok   = (0 f0 .. f9)  the ten configuration fields of C01 (kind g groups padto tokens pad prefix
                                     suffix unk alphabet)
                     | (1 tbl maxv toks prefix suffix)  BPE, as in C02
               texts = ((1 code-points) | (0)) ...      (0) = the iterator returns Err
    output = (0)                                        the constructor returned Err
           | (1 batches end extra)
               batch = (len sizes token_ids indices items)
               item  = (ids idx widx (cs ws we ce) (bcs bws bwe bce) len window_bytes context_bytes)
               end   = () regular end | (0 pos) Err text | (1 code info) windows() Err | (2 idx widx) tokenizer Err
                     | (9) something else
               extra = the results of two further calls of __next__: end as above, or (7 n) = a batch of n items
           | (-3) the C06 model reports an error (never: theorem) *)
Definition v_tokenizer (v : val) : option tokenizer :=
  match v with
  | L (I 0%Z :: f) =>
      let c := v_cfg (L f) in
      match cfg_base c with Some b => Some (TokC01 c b) | None => None end
  | L (I 1%Z :: f) =>
      let c := C02_Model.v_config (L f) in
      if C02_Model.config_ok c then Some (TokBPE c) else None
  | _ => None
  end.

Definition v_text (v : val) : option str :=
  match v with L [I 1%Z; s] => Some (v_list v_n s) | _ => None end.
Definition v_texts (v : val) : list (option str) := v_list v_text v.

Definition quad_v (a b c d : N) : val := L [n_v a; n_v b; n_v c; n_v d].
Definition item_v (x : iitem) : val :=
  let w := i_win x in
  L [ list_v n_v (i_ids x); nat_v (i_idx x); nat_v (i_widx x);
      quad_v (w_cs w) (w_ws w) (w_we w) (w_ce w); quad_v (w_bcs w) (w_bws w) (w_bwe w) (w_bce w);
      nat_v (isize x); n_v (window_bytes x); n_v (context_bytes x) ].
Definition batch_v (b : list iitem) : val :=
  L [ nat_v (length b); list_v (fun x => nat_v (isize x)) b; list_v (fun x => list_v n_v (i_ids x)) b;
      list_v (fun x => L [nat_v (i_idx x); nat_v (i_widx x)]) b; list_v item_v b ].
Definition end_v (e : option ierr) : val :=
  match e with
  | None => L []
  | Some (EText p) => L [I 0%Z; nat_v p]
  | Some (EWin _ c i) => L [I 1%Z; n_v c; list_v n_v i]
  | Some (ETok i k) => L [I 2%Z; nat_v i; nat_v k]
  | Some (EBug _) => L [I 9%Z]
  end.

Definition v_ty (v : val) : C06_Model.limit_type :=
  match v_z v with 0%Z => C06_Model.BatchSize | _ => C06_Model.Padded end.

Record icase := mkcase {
  ic_tok : option tokenizer; ic_ign : bool; ic_kind : N; ic_max : N; ic_ctx : N; ic_g : bool;
  ic_threads : nat; ic_buffer : nat; ic_limit : nat; ic_ty : C06_Model.limit_type; ic_prefetch : nat;
  ic_sort : bool; ic_texts : list (option str) }.
Definition v_case (v : val) : icase :=
  let w := v_nth 2 v in
  let l := v_nth 3 v in
  mkcase (v_tokenizer (v_nth 1 v)) (v_bool (v_nth 0 w)) (v_n (v_nth 1 w)) (v_n (v_nth 2 w)) (v_n (v_nth 3 w))
         (v_bool (v_nth 4 w))
         (v_nat (v_nth 0 l)) (v_nat (v_nth 1 l)) (v_nat (v_nth 2 l)) (v_ty (v_nth 3 l)) (v_nat (v_nth 4 l))
         (v_bool (v_nth 5 l)) (v_texts (v_nth 4 v)).

Definition case_stream (c : icase) (t : tokenizer) : list iitem * option ierr :=
  stream (ic_kind c) (ic_max c) (ic_ctx c) (ic_g c) (tok_fn t (ic_ign c)) 0 (ic_texts c).
Definition case_run (c : icase) (t : tokenizer) : C06_Model.res (list (list iitem)) * option ierr :=
  inference_run (ic_kind c) (ic_max c) (ic_ctx c) (ic_g c) (tok_fn t (ic_ign c))
                (ic_sort c) (ic_prefetch c) (ic_limit c) (ic_ty c) (ic_texts c).

Definition run_inference (v : val) : val :=
  let c := v_case v in
  match ic_tok c with
  | None => L [I 0%Z]
  | Some t =>
      match case_run c t with
      | (C06_Model.Ok bs, e) => L [I 1%Z; list_v batch_v bs; end_v e; L [end_v e; end_v e]]
      | (C06_Model.Err _, _) => L [I (-3)%Z]
      end
  end.

(** * the executable statement, evaluated on an implementation output *)
Definition v_quad (v : val) : option (N * N * N * N) :=
  match v with L [I a; I b; I c; I d] => Some (Z.to_N a, Z.to_N b, Z.to_N c, Z.to_N d) | _ => None end.
Definition v_item (v : val) : option iitem :=
  match v with
  | L [ids; I idx; I widx; q1; q2; _; _; _] =>
      match v_quad q1, v_quad q2 with
      | Some (a, b, c, d), Some (e, f, g', h) =>
          (* the string range is not part of an InferenceItem: offset / length are re-derived *)
          Some (mki (v_list v_n ids) (Z.to_nat idx) (Z.to_nat widx) (mkw a b c d e f g' h e (h - e)))
      | _, _ => None
      end
  | _ => None
  end.
Fixpoint all_some {A} (l : list (option A)) : option (list A) :=
  match l with
  | [] => Some []
  | None :: _ => None
  | Some x :: r => match all_some r with Some r' => Some (x :: r') | None => None end
  end.
Definition v_batch (v : val) : option (list iitem) :=
  match v with L [_; _; _; _; L items] => all_some (map v_item items) | _ => None end.
Definition v_batches (v : val) : option (list (list iitem)) :=
  match v with L l => all_some (map v_batch l) | _ => None end.

Definition win_eqb (a b : window) : bool :=
  (w_cs a =? w_cs b)%N && (w_ws a =? w_ws b)%N && (w_we a =? w_we b)%N && (w_ce a =? w_ce b)%N
  && (w_bcs a =? w_bcs b)%N && (w_bws a =? w_bws b)%N && (w_bwe a =? w_bwe b)%N && (w_bce a =? w_bce b)%N.
Definition item_eqb (a b : iitem) : bool :=
  nlist_eqb (i_ids a) (i_ids b) && Nat.eqb (i_idx a) (i_idx b) && Nat.eqb (i_widx a) (i_widx b)
  && win_eqb (i_win a) (i_win b).
Fixpoint items_eqb (a b : list iitem) : bool :=
  match a, b with
  | [], [] => true
  | x :: a', y :: b' => item_eqb x y && items_eqb a' b'
  | _, _ => false
  end.
Definition tag_eqb (a b : iitem) : bool := Nat.eqb (i_idx a) (i_idx b) && Nat.eqb (i_widx a) (i_widx b).
Fixpoint nodup_tagsb (l : list iitem) : bool :=
  match l with [] => true | x :: r => negb (existsb (tag_eqb x) r) && nodup_tagsb r end.
(** [l] holds exactly the items [m], each once (the tags of [m] are distinct: theorem) *)
Definition same_itemsb (l m : list iitem) : bool :=
  Nat.eqb (length l) (length m) && nodup_tagsb l && forallb (fun x => existsb (item_eqb x) m) l.

(** which recorded error may be reported.  Lazily (threads = 0) exactly the model's.  With worker
    threads the workers run ahead of the consumer (at most 2 * threads + 1 texts: C09's look-ahead
    bound), so when the stream ends with an Err RESULT for text j and an Err TEXT sits at a position
    k in (j, j + 2 * threads + 1], the first scan may overwrite iter_err with the later error before
    (or after) __next__ reads it: either is accepted. *)
Fixpoint first_err_text (pos : nat) (texts : list (option str)) : option nat :=
  match texts with
  | [] => None
  | None :: _ => Some pos
  | Some _ :: r => first_err_text (S pos) r
  end.
Definition err_idx (e : ierr) : option nat :=
  match e with EText _ => None | EWin i _ _ => Some i | ETok i _ => Some i | EBug i => Some i end.
Definition end_allowed (c : icase) (e : option ierr) (got : val) : bool :=
  val_eqb got (end_v e)
  || match e with
     | Some e' =>
         match err_idx e', first_err_text 0 (ic_texts c) with
         | Some j, Some k =>
             negb (Nat.eqb (ic_threads c) 0) && (j <? k) && (k <=? j + 2 * ic_threads c + 1)
             && val_eqb got (end_v (Some (EText k)))
         | _, _ => false
         end
     | None => false
     end.

(** the accessors of a batch and of its items agree with the items *)
Definition accessors_okb (v : val) (b : list iitem) : bool :=
  match v with
  | L [len; sizes; ids; idxs; L items] =>
      val_eqb len (nat_v (length b))
      && val_eqb sizes (list_v (fun x => nat_v (isize x)) b)
      && val_eqb ids (list_v (fun x => list_v n_v (i_ids x)) b)
      && val_eqb idxs (list_v (fun x => L [nat_v (i_idx x); nat_v (i_widx x)]) b)
      && val_eqb (L items) (list_v item_v b)
  | _ => false
  end.
Fixpoint accessors_allb (vs : list val) (bs : list (list iitem)) : bool :=
  match vs, bs with
  | [], [] => true
  | v :: vs', b :: bs' => accessors_okb v b && accessors_allb vs' bs'
  | _, _ => false
  end.

Definition is_nil {A} (l : list A) : bool := match l with [] => true | _ => false end.

Definition check_inference (v out : val) : bool :=
  let c := v_case v in
  match ic_tok c with
  | None => val_eqb out (L [I 0%Z])
  | Some t =>
      let '(items, e) := case_stream c t in
      match out with
      | L [I 1%Z; L bvs; ev; L [x1; x2]] =>
          match v_batches (L bvs) with
          | Some bs =>
              (* every window of every text before the first error, exactly once, with its tags,
                 boundaries and token ids; nothing else *)
              same_itemsb (concat bs) items
              (* no empty batch, the limit *)
              && forallb (fun b => negb (is_nil b)) bs
              && forallb (C06_Model.limit_okb isize (ic_ty c) (Nat.max (ic_limit c) 1)) bs
              (* without sort: texts in order, windows in order, greedy batches *)
              && (if ic_sort c then true
                  else items_eqb (concat bs) items
                       && C06_Model.greedyb isize (ic_ty c) (Nat.max (ic_limit c) 1) bs)
              (* the accessors say what the items say *)
              && accessors_allb bvs bs
              (* the end: the recorded error (or the regular end), now and on every later call *)
              && end_allowed c e ev && end_allowed c e x1 && end_allowed c e x2
          | None => false
          end
      | _ => false
      end
  end.

(** correspondence: the batches exactly (order inside the batches included); the end state up to the
    documented race between two recorded errors *)
Definition agree_inference (v m i : val) : bool :=
  let c := v_case v in
  match m, i with
  | L [I 1%Z; mb; _; _], L [I 1%Z; ib; ev; L [x1; x2]] =>
      val_eqb mb ib
      && match ic_tok c with
         | Some t => let e := snd (case_stream c t) in end_allowed c e ev && end_allowed c e x1 && end_allowed c e x2
         | None => false
         end
  | _, _ => val_eqb m i
  end.

(** the segmentation oracle is not used by this stream: the model segments the texts itself
    ([C16_Model.seg_of], [C01_UAX29.oracle_u]) *)
Definition is_inference (v : val) : bool := (v_z (v_nth 0 v) =? 10)%Z.

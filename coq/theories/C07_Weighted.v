(** C07 proofs, part 4: the outcome set of the weighted strategy is exactly the set
    of tagged interleavings that start with source 0. *)
From TU Require Import Base C07_Model C07_Proofs C07_Specs C07_Top.
Require Import Lia.

(** oracle read from a list of positions, clamped so that it is in range for every m *)
Definition orc (l : list nat) : oracle := fun t m => let c := nth t l 0 in if c <? m then c else 0.

Lemma orc_guard : forall l, oracle_guard (orc l).
Proof.
  intros l t m Hm. unfold orc. cbn zeta. destruct (nth t l 0 <? m) eqn:E; [apply Nat.ltb_lt; exact E|exact Hm].
Qed.

Lemma orc_at : forall pre c cs m, c < m -> orc (pre ++ c :: cs) (length pre) m = c.
Proof.
  intros pre c cs m H. unfold orc. cbn zeta. rewrite app_nth2 by lia. rewrite Nat.sub_diag. cbn [nth].
  apply Nat.ltb_lt in H. rewrite H. reflexivity.
Qed.

Lemma next_weighted_at : forall pre c cs fin idx j,
  idx < length fin -> nth_error (unfinished fin) c = Some j ->
  next_idx Weighted (orc (pre ++ c :: cs)) (length pre) fin idx = inr (j, S (length pre)).
Proof.
  intros pre c cs fin idx j Hidx Hc. unfold next_idx.
  assert (Hj : nth j fin true = false) by (apply in_unfinished; eapply nth_error_In; exact Hc).
  rewrite (not_all_fin _ _ Hj). apply Nat.ltb_lt in Hidx. rewrite Hidx. cbn [negb].
  rewrite orc_at by (apply nth_error_Some; congruence). rewrite Hc. reflexivity.
Qed.

Section W.
Context {A : Type}.
Implicit Types (srcs : list (list A)) (fin : list bool) (out : list (nat * A)).

Definition next_tag_is (idx : nat) out : Prop := match out with (j, _) :: _ => j = idx | [] => True end.

Lemma weighted_build : forall fuel out srcs idx fin,
  Inv Weighted srcs idx fin -> TI srcs out -> next_tag_is idx out ->
  total_len srcs + cf fin < fuel ->
  exists cs, forall pre,
    run_loop (next_idx Weighted (orc (pre ++ cs))) fuel srcs idx fin (length pre) = Ok out.
Proof.
  induction fuel as [|f IH]; intros out srcs idx fin HI HT Htag Hm; [lia|].
  pose proof (unf_lt _ _ (inv_idx _ _ _ _ HI)) as Hidx.
  assert (Hidx' : idx < length srcs) by (rewrite <- (inv_len _ _ _ _ HI); exact Hidx).
  inversion HT as [srcs0 Hnil|srcs0 j x xs out' Hn HT']; subst.
  - (* nothing left to emit: the current source is exhausted; mark it, move to any unfinished one *)
    assert (Hn : nth_error srcs idx = Some []) by (rewrite (nth_error_of_nth _ srcs idx [] Hidx'), Hnil; reflexivity).
    destruct (all_fin (set_nth idx true fin)) eqn:Eall.
    + exists []. intros pre. cbn [run_loop]. rewrite Hn, Eall. reflexivity.
    + destruct (all_fin_false _ Eall) as [j Hj]. apply in_unfinished in Hj.
      destruct (In_nth_error _ _ Hj) as [c Hc].
      assert (Hj' : nth j (set_nth idx true fin) true = false) by (apply in_unfinished; exact Hj).
      destruct (IH [] srcs j (set_nth idx true fin)) as [cs Hcs].
      * apply inv_none; auto. discriminate.
      * constructor. exact Hnil.
      * exact Logic.I.
      * pose proof (cf_set idx fin (inv_idx _ _ _ _ HI)). lia.
      * exists (c :: cs). intros pre. cbn [run_loop]. rewrite Hn, Eall.
        rewrite (next_weighted_at pre c cs _ idx j) by (rewrite ?set_nth_length; auto).
        specialize (Hcs (pre ++ [c])). rewrite <- app_assoc, app_length in Hcs. cbn [app length] in Hcs.
        rewrite Nat.add_1_r in Hcs. exact Hcs.
  - cbn in Htag. subst j.
    (* next target: the tag of the next output, or stay if there is none *)
    set (j' := match out' with (j', _) :: _ => j' | [] => idx end).
    assert (Hj' : nth j' fin true = false).
    { unfold j'. destruct out' as [|[j2 y] out2]; [apply HI|].
      inversion HT' as [|? ? ? ys ? Hn2 _]; subst.
      destruct (nth j2 fin true) eqn:E; [|reflexivity]. exfalso.
      pose proof (inv_fin _ _ _ _ HI j2 E) as Hempty.
      destruct (Nat.eq_dec j2 idx) as [->|Hne].
      - rewrite (inv_idx _ _ _ _ HI) in E. discriminate.
      - rewrite nth_error_set_nth_neq in Hn2 by exact Hne.
        rewrite (nth_error_nth _ _ _ _ [] Hn2) in Hempty. discriminate. }
    pose proof Hj' as Hin. apply in_unfinished in Hin. destruct (In_nth_error _ _ Hin) as [c Hc].
    destruct (IH out' (set_nth idx xs srcs) j' fin) as [cs Hcs].
    + eapply inv_item; eauto. discriminate.
    + exact HT'.
    + unfold j'. destruct out' as [|[j2 y] out2]; cbn; auto.
    + pose proof (total_len_set _ _ _ _ Hn). lia.
    + exists (c :: cs). intros pre. cbn [run_loop]. rewrite Hn.
      rewrite (next_weighted_at pre c cs _ idx j') by auto.
      specialize (Hcs (pre ++ [c])). rewrite <- app_assoc, app_length in Hcs. cbn [app length] in Hcs.
      rewrite Nat.add_1_r in Hcs. rewrite Hcs. reflexivity.
Qed.

Lemma first_tag_l : forall s o srcs out, existsb is_nil srcs = false ->
  run_gen s o srcs = Ok out -> first_tag0 out = true.
Proof.
  intros s o srcs out Hne H. unfold run_gen in H.
  destruct (is_weighted s && existsb is_nil srcs); [discriminate|].
  unfold gen_fuel in H. rewrite Nat.add_1_r in H. cbn [run_loop] in H.
  destruct srcs as [|[|x xs] srcs]; cbn [nth_error] in H; [discriminate| |].
  - cbn in Hne. discriminate.
  - destruct (next_idx s o 0 _ 0) as [e|[i c]]; [discriminate|].
    apply cons_res_ok in H. destruct H as (out' & _ & ->). reflexivity.
Qed.

Lemma weighted_outcomes_l : forall srcs out, srcs <> [] -> existsb is_nil srcs = false ->
  ((exists o, oracle_guard o /\ run_gen Weighted o srcs = Ok out) <->
   (TI srcs out /\ first_tag0 out = true)).
Proof.
  intros srcs out Hne Hnil. split.
  - intros (o & _ & H). split; [eapply gen_ti_l; eauto|eapply first_tag_l; eauto].
  - intros [HT Hf].
    destruct (weighted_build (gen_fuel srcs) out srcs 0 (repeat false (length srcs))) as [cs Hcs].
    + apply inv_init. exact Hne.
    + exact HT.
    + destruct out as [|[j x] out]; cbn in *; [exact Logic.I|]. apply Nat.eqb_eq in Hf. exact Hf.
    + apply init_measure.
    + exists (orc cs). split; [apply orc_guard|].
      rewrite run_gen_unfold by (cbn [is_weighted andb]; exact Hnil). apply (Hcs []).
Qed.
End W.

Lemma weighted_outcomes_spec_l : forall (A : Type) (srcs : list (list A)) (out : list (nat * A)),
  srcs <> [] -> existsb is_nil srcs = false ->
  ((exists o, oracle_guard o /\ run_gen Weighted o srcs = Ok out) <->
   ((forall j, proj j out = nth j srcs []) /\ Forall (fun p => fst p < length srcs) out /\
    first_tag0 out = true)).
Proof.
  intros A srcs out Hne Hnil. rewrite (weighted_outcomes_l srcs out Hne Hnil). split.
  - intros [HT Hf]. apply TI_spec in HT. tauto.
  - intros (Hp & Hfa & Hf). split; [apply spec_TI; assumption|exact Hf].
Qed.

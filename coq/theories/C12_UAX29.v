(** C12 with the segmenter inside the model.

    Part 1 (definitions, used by C12_Extract.v): [uax29_agree] — the two cluster lists the
    harness hands over must be the model's own segmentation of the texts they spell
    ([UAX29_Model.segment] in grapheme mode, one cluster per code point otherwise).  It is part
    of the correspondence relation [agree], not of [check_C12].  (It lives here and not in
    C12_Model.v because that file is shared with C13 and C20.)

    Part 2: the C12 theorems stated on the texts themselves (lists of code points [sa], [sb]),
    with the characters being the clusters of [segment sa], [segment sb]. *)
From TU Require Import Base UAX29_Model UAX29_Proofs C12_Model C12_Spec C12_Matrix C12_Trace C12_Norm C12_Proofs.
From Coq Require Import Lia QArith.
Open Scope nat_scope.

(** * Part 1: definitions *)
Fixpoint cls_eqb (a b : list cluster) : bool :=
  match a, b with
  | [], [] => true
  | x :: a', y :: b' => nlist_eqb x y && cls_eqb a' b'
  | _, _ => false
  end.
Definition seg_of (g : bool) (s : str) : list cluster := if g then segment s else singletons s.
Definition seg_checked (g : bool) (seg : list cluster) : bool := cls_eqb (seg_of g (concat seg)) seg.
Definition uax29_agree (v : val) : bool :=
  let g := v_bool (v_nth 0 v) in
  seg_checked g (in_a v) && seg_checked g (in_b v).

(** the functions of src/edit.rs on texts, grapheme mode *)
Definition dist_u (fl : flags) (sa sb : str) : nat := dist fl (segment sa) (segment sb).
Definition distance_u (fl : flags) (nm : bool) (sa sb : str) : Q := distance fl nm (segment sa) (segment sb).
Definition prefix_distance_u (fl : flags) (nm : bool) (sa sb : str) : Q :=
  prefix_distance fl nm (segment sa) (segment sb).
Definition operations_u (fl : flags) (sa sb : str) : option (list edit) :=
  operations fl (segment sa) (segment sb).

(** the harness input for two texts *)
Definition clusters_v (seg : list cluster) : val := list_v (list_v n_v) seg.
Definition input_of (g : bool) (fl : flags) (nm : bool) (sa sb : str) (na nb : nat) : val :=
  L [bool_v g; bool_v (with_swap fl); bool_v (sid fl); bool_v nm;
     clusters_v (seg_of g sa); clusters_v (seg_of g sb); nat_v na; nat_v nb].

(** * Part 2: proofs *)
Lemma nlist_eqb_refl l : nlist_eqb l l = true.
Proof. induction l as [|x l IH]; [reflexivity|]. cbn [nlist_eqb]. rewrite N.eqb_refl. exact IH. Qed.
Lemma cls_eqb_refl l : cls_eqb l l = true.
Proof. induction l as [|x l IH]; [reflexivity|]. cbn [cls_eqb]. rewrite nlist_eqb_refl. exact IH. Qed.
Lemma nlist_eqb_true a : forall b, nlist_eqb a b = true -> a = b.
Proof.
  induction a as [|x a IH]; intros [|y b] H; cbn [nlist_eqb] in H; try discriminate; [reflexivity|].
  apply andb_true_iff in H as [H1 H2]. apply N.eqb_eq in H1. subst y. rewrite (IH b H2). reflexivity.
Qed.
Lemma cls_eqb_true a : forall b, cls_eqb a b = true -> a = b.
Proof.
  induction a as [|x a IH]; intros [|y b] H; cbn [cls_eqb] in H; try discriminate; [reflexivity|].
  apply andb_true_iff in H as [H1 H2]. apply nlist_eqb_true in H1. subst y. rewrite (IH b H2). reflexivity.
Qed.

Lemma singletons_concat s : concat (singletons s) = s.
Proof. unfold singletons. induction s as [|x s IH]; [reflexivity|]. cbn [map concat app]. rewrite IH. reflexivity. Qed.
Lemma seg_of_concat g s : concat (seg_of g s) = s.
Proof. destruct g; [apply segment_concat_l|apply singletons_concat]. Qed.

(** the segmentation determines the text: different texts have different cluster lists *)
Lemma segment_inj sa sb : segment sa = segment sb -> sa = sb.
Proof. intros H. rewrite <- (segment_concat_l sa), <- (segment_concat_l sb), H. reflexivity. Qed.

Lemma seg_checked_sound g seg : seg_checked g seg = true -> seg = seg_of g (concat seg).
Proof. unfold seg_checked. intros H. symmetry. apply cls_eqb_true. exact H. Qed.

Lemma uax29_agree_sound_l v : uax29_agree v = true ->
  in_a v = seg_of (v_bool (v_nth 0 v)) (concat (in_a v))
  /\ in_b v = seg_of (v_bool (v_nth 0 v)) (concat (in_b v)).
Proof.
  unfold uax29_agree. intros H. apply andb_true_iff in H as [H1 H2].
  split; apply seg_checked_sound; assumption.
Qed.

(** ** distance = the reference metric over the clusters of the two texts *)
Lemma dist_achieved_u_l fl sa sb : Align fl (segment sa) (segment sb) (dist_u fl sa sb).
Proof. apply dist_achieved_l. Qed.
Lemma dist_minimal_u_l fl sa sb n : Align fl (segment sa) (segment sb) n -> dist_u fl sa sb <= n.
Proof. apply dist_minimal_l. Qed.

(** distance 0 exactly for equal TEXTS *)
Lemma dist_zero_u_l fl sa sb : dist_u fl sa sb = 0 <-> sa = sb.
Proof.
  unfold dist_u. rewrite dist_zero_iff. split; [apply segment_inj|intros ->; reflexivity].
Qed.
Lemma norm_zero_u_l fl nm sa sb : (distance_u fl nm sa sb == 0)%Q <-> sa = sb.
Proof.
  unfold distance_u. rewrite norm_zero_iff_l. split; [apply segment_inj|intros ->; reflexivity].
Qed.

(** the number of clusters is at most the number of code points *)
Lemma length_concat_ge (seg : list cluster) :
  Forall (fun c => c <> []) seg -> length seg <= length (concat seg).
Proof.
  induction 1 as [|c seg Hc _ IH]; [reflexivity|]. cbn [concat length]. rewrite app_length.
  destruct c; [congruence|]. cbn [length]. lia.
Qed.
Lemma segment_length_le s : length (segment s) <= length s.
Proof.
  pose proof (length_concat_ge (segment s) (segment_nonempty_l s)) as H.
  rewrite segment_concat_l in H. exact H.
Qed.

(** bounds in code points of the texts *)
Lemma dist_le_u_l fl sa sb :
  dist_u fl sa sb <= length sa + length sb
  /\ (sid fl = false -> dist_u fl sa sb <= Nat.max (length sa) (length sb)).
Proof.
  pose proof (segment_length_le sa). pose proof (segment_length_le sb). unfold dist_u. split.
  - pose proof (dist_le_sum fl (segment sa) (segment sb)). unfold cluster, str, cp in *. lia.
  - intros Hs. pose proof (dist_le_max fl (segment sa) (segment sb) Hs). unfold cluster, str, cp in *. lia.
Qed.

Lemma norm_range_u_l fl sa sb :
  (0 <= distance_u fl true sa sb)%Q /\ (distance_u fl true sa sb <= 2)%Q
  /\ (sid fl = false -> (distance_u fl true sa sb <= 1)%Q)
  /\ (0 <= prefix_distance_u fl true sa sb <= 1)%Q.
Proof.
  unfold distance_u, prefix_distance_u.
  destruct (norm_le_2_ll fl (segment sa) (segment sb)) as [H0 H2].
  split; [exact H0|]. split; [exact H2|]. split.
  - intros Hs. apply (norm_le_1_ll fl _ _ Hs).
  - apply pnorm_range_l.
Qed.

Lemma prefix_dist_min_u_l fl sa sb :
  (exists k, k <= length (segment sb)
     /\ prefix_dist fl (segment sa) (segment sb) = dist fl (segment sa) (firstn k (segment sb)))
  /\ (forall k, prefix_dist fl (segment sa) (segment sb) <= dist fl (segment sa) (firstn k (segment sb))).
Proof. apply prefix_dist_min_l. Qed.

(** ** operations on two texts: total, sorted, applies, minimal *)
Lemma operations_u_l fl sa sb :
  exists ops, operations_u fl sa sb = Some ops
    /\ sortedb ops = true
    /\ script_ok fl ops (segment sa) (segment sb) = true
    /\ length ops = dist_u fl sa sb
    /\ Align fl (segment sa) (segment sb) (length ops)
    /\ (forall ops', script_ok fl ops' (segment sa) (segment sb) = true -> length ops <= length ops').
Proof.
  unfold operations_u, dist_u. destruct (ops_total_l fl (segment sa) (segment sb)) as (ops & E).
  exists ops. split; [exact E|]. split; [exact (ops_sorted_l _ _ _ _ E)|].
  split; [exact (ops_apply_l _ _ _ _ E)|]. split; [exact (ops_length_l _ _ _ _ E)|]. split.
  - apply script_is_alignment_l. exact (ops_apply_l _ _ _ _ E).
  - intros ops' H. rewrite (ops_length_l _ _ _ _ E). apply script_min. exact H.
Qed.

(** ** printable ASCII: grapheme mode and code-point mode coincide *)
Lemma ascii_modes_l fl nm sa sb :
  forallb printable_ascii sa = true -> forallb printable_ascii sb = true ->
  dist_u fl sa sb = dist fl (singletons sa) (singletons sb)
  /\ distance_u fl nm sa sb = distance fl nm (singletons sa) (singletons sb)
  /\ operations_u fl sa sb = operations fl (singletons sa) (singletons sb).
Proof.
  intros Ha Hb. unfold dist_u, distance_u, operations_u, singletons.
  rewrite (segment_ascii_l sa Ha), (segment_ascii_l sb Hb). repeat split.
Qed.

(** ** the input built entirely by the model passes the executable statement (outside KF2) and
    the segmenter correspondence *)
Lemma v_n_n_v x : v_n (n_v x) = x.
Proof. unfold v_n, n_v, v_z. apply N2Z.id. Qed.
Lemma v_n_list l : v_list v_n (list_v n_v l) = l.
Proof.
  unfold v_list, list_v. rewrite map_map. induction l as [|x l IH]; [reflexivity|].
  cbn [map]. rewrite IH, v_n_n_v. reflexivity.
Qed.
Lemma v_clusters_v seg : v_clusters (clusters_v seg) = seg.
Proof.
  unfold v_clusters, clusters_v, v_list at 1, list_v at 1. rewrite map_map.
  induction seg as [|c r IH]; [reflexivity|]. cbn [map]. rewrite IH, v_n_list. reflexivity.
Qed.
Lemma v_bool_v b : v_bool (bool_v b) = b.
Proof. destruct b; reflexivity. Qed.

Lemma input_of_fields g fl nm sa sb na nb :
  let v := input_of g fl nm sa sb na nb in
  in_flags v = fl /\ in_norm v = nm /\ in_a v = seg_of g sa /\ in_b v = seg_of g sb.
Proof.
  unfold input_of, in_flags, in_norm, in_a, in_b. cbn [v_nth nth].
  rewrite !v_bool_v, !v_clusters_v. destruct fl. repeat split.
Qed.

Lemma check_run_u_l g fl nm sa sb na nb :
  (nm = true -> sid fl = true ->
   dist fl (seg_of g sa) (seg_of g sb) <= Nat.max (length (seg_of g sa)) (length (seg_of g sb))) ->
  let v := input_of g fl nm sa sb na nb in
  check_C12 v (run_C12 v) = true /\ uax29_agree v = true.
Proof.
  intros H v. destruct (input_of_fields g fl nm sa sb na nb) as (E1 & E2 & E3 & E4). fold v in E1, E2, E3, E4.
  split.
  - apply check_run_l. unfold no_kf2. rewrite E1, E2, E3, E4. exact H.
  - unfold uax29_agree, seg_checked. rewrite E3, E4.
    assert (Eg : v_bool (v_nth 0 v) = g) by (unfold v, input_of; cbn [v_nth nth]; apply v_bool_v).
    rewrite Eg, !seg_of_concat, !cls_eqb_refl. reflexivity.
Qed.

(** C14 — pinned statements. *)
From TU Require Import Base C10_Model C10_Proofs C14_Model C14_Proofs.

Theorem target_untouched : forall (A : Type) (f : A -> A) item, snd (apply_input f item) = snd item.
Proof. exact @apply_input_target. Qed.
Print Assumptions target_untouched.

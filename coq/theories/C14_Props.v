(** C14 — pinned statements. Nothing but statements, [exact], and assumption audits.
    [corrupt_cl iw dw t ks] : the clusters whitespace corruption writes for the text
    [t] (a cluster list) from the draws [ks] (numerators over 2^53), probabilities
    [iw/2^53], [dw/2^53] clamped to [0,1]. [Clean], [strip], [operations], [repair]
    are C10's. *)
From TU Require Import C11_Model C11_Proofs C11_Link.
From TU Require Import Base C10_Model C10_Proofs C14_Model C14_Proofs.

(** [apply(Part::Input, f)] leaves the target alone *)
Theorem target_untouched : forall (A : Type) (f : A -> A) item, snd (apply_input f item) = snd item.
Proof. exact @apply_input_target. Qed.
Print Assumptions target_untouched.

(** one draw per character is enough: the stream never runs dry *)
Theorem corrupt_total : forall iw dw t ks,
  (length t <= length ks)%nat -> exists out, corrupt_cl iw dw t ks = Some out.
Proof. exact corrupt_total_l. Qed.
Print Assumptions corrupt_total.

(** only whitespace changes — every text, every stream, both levels *)
Theorem corrupt_nonws : forall iw dw t ks out,
  corrupt_cl iw dw t ks = Some out ->
  strip out = strip t /\ strip_cp (concat out) = strip_cp (concat t).
Proof. exact corrupt_nonws_l. Qed.
Print Assumptions corrupt_nonws.

(** a clean text stays clean (cluster level; and at code-point level when no
    cluster mixes whitespace and non-whitespace) *)
Theorem corrupt_clean : forall iw dw t ks out,
  Clean t -> corrupt_cl iw dw t ks = Some out -> Clean out.
Proof. exact corrupt_Clean. Qed.
Print Assumptions corrupt_clean.

Theorem corrupt_clean_cp : forall iw dw t ks out,
  Clean t -> C11_Model.wf_seg t = true -> corrupt_cl iw dw t ks = Some out ->
  C11_Model.cleansb (concat out) = true.
Proof. exact corrupt_clean_cp_l. Qed.
Print Assumptions corrupt_clean_cp.

(** label consistency, through C10's [ops_roundtrip]: the task finds one
    operation per input character and [repair] gives the text back *)
Theorem corrupt_labels : forall iw dw t ks out,
  Clean t -> corrupt_cl iw dw t ks = Some out ->
  exists ops, operations out t = Some ops /\ length ops = length out
              /\ repair out ops = Some (concat t).
Proof. exact corrupt_labels_l. Qed.
Print Assumptions corrupt_labels.

Theorem labels_shape : forall np ns ops,
  length (labels np ns ops) = (np + length ops + ns)%nat
  /\ firstn np (labels np ns ops) = repeat (-1)%Z np
  /\ firstn (length ops) (skipn np (labels np ns ops)) = map op_code ops
  /\ skipn (np + length ops) (labels np ns ops) = repeat (-1)%Z ns.
Proof.
  exact (fun np ns ops => conj (labels_length np ns ops) (conj (labels_prefix np ns ops)
         (conj (labels_ops np ns ops _ eq_refl) (labels_suffix np ns ops _ eq_refl)))).
Qed.
Print Assumptions labels_shape.

(** delete probability 0 (after clamping): no whitespace disappears — the text is
    the corrupted input minus U+0020 characters *)
Theorem corrupt_dw0 : forall iw dw t ks out,
  clamp dw = 0%Z -> in_range ks -> corrupt_cl iw dw t ks = Some out ->
  DelR (eq [32%N]) out t /\ DelR (fun x => is32 x = true) (concat out) (concat t).
Proof. exact corrupt_dw0_l. Qed.
Print Assumptions corrupt_dw0.

(** insert probability 0: none appears — the corrupted input is the text minus
    whitespace characters (U+0020 when the text is clean) *)
Theorem corrupt_iw0 : forall iw dw t ks out,
  clamp iw = 0%Z -> in_range ks -> corrupt_cl iw dw t ks = Some out ->
  DelR (fun c => cl_ws c = true) t out /\
  (Clean t -> DelR (eq [32%N]) t out /\ DelR (fun x => is32 x = true) (concat t) (concat out)).
Proof. exact corrupt_iw0_l. Qed.
Print Assumptions corrupt_iw0.

(** probabilities (0, 1): exactly the whitespace goes *)
Theorem corrupt_extreme : forall t ks out,
  in_range ks -> corrupt_cl 0 D53 t ks = Some out -> out = strip t.
Proof. exact corrupt_extreme_l. Qed.
Print Assumptions corrupt_extreme.

(** code-point mode: SeamStable is a theorem ... *)
Theorem corrupt_cp_seamstable : forall iw dw s ks out,
  corrupt_cl iw dw (singletons s) ks = Some out -> singletons (concat out) = out.
Proof. exact corrupt_cp_stable. Qed.
Print Assumptions corrupt_cp_seamstable.

(** ... so for every whitespace-clean string (C11's normal form), every
    probabilities and every stream with one draw per character, at string level:
    the input has the same non-whitespace characters, is clean again, and
    operations/repair label it and recover the text *)
Theorem corrupt_cp : forall iw dw s ks,
  C11_Model.cleansb s = true -> (length s <= length ks)%nat ->
  exists c, option_map (@concat N) (corrupt_cl iw dw (singletons s) ks) = Some c
    /\ strip_cp c = strip_cp s
    /\ C11_Model.cleansb c = true
    /\ exists ops, operations (singletons c) (singletons s) = Some ops
                   /\ length ops = length c
                   /\ repair (singletons c) ops = Some s.
Proof. exact corrupt_cp_all. Qed.
Print Assumptions corrupt_cp.

(** the greedy checker used in the executable statement decides [DelR] *)
Theorem delb_decides : forall p a b, delb p a b = true <-> DelR (fun x => p x = true) a b.
Proof. exact delb_iff. Qed.
Print Assumptions delb_decides.

(** the executable statement holds of the model's own output for every
    well-formed oracle (enough draws, in range, SeamStable in grapheme mode) *)
Theorem check_run : forall v, wf_input v -> check_C14 v (run_C14 v) = true.
Proof. exact check_run_l. Qed.
Print Assumptions check_run.

(** ** non-vacuity *)
(** "a b" with draws (0.9, 0.1, 0.1), iw = dw = 1/2: the space is deleted,
    and a space is inserted before nothing (b follows whitespace) *)
Example corrupt_example :
  corrupt_cl 4503599627370496 4503599627370496 [[97];[32];[98]]%N
             [8106479329266893; 900719925474099; 900719925474099]%Z = Some [[97];[98]]%N.
Proof. vm_compute. reflexivity. Qed.
Example clean_witness : Clean [[97];[32];[98];[99]]%N.
Proof. apply cleanb_spec. vm_compute. reflexivity. Qed.
Example range_witness : in_range [8106479329266893; 900719925474099; 0]%Z.
Proof. repeat constructor; vm_compute; congruence. Qed.
Example wf_input_witness :
  wf_input (L [I 0; L [L [I 97]; L [I 32]; L [I 98]]; L []; I 0;
               L [I 8106479329266893; I 900719925474099; I 900719925474099];
               I 4503599627370496; I 4503599627370496; I 1; I 1])%Z.
Proof.
  split; [vm_compute; constructor|]. split; [repeat constructor; vm_compute; congruence|].
  intros H. vm_compute in H. discriminate.
Qed.

(** ** grapheme mode with the segmenter inside the model ([segment], UAX29_Model.v): the text's
    cluster list is [segment s]; "no mixed cluster" is the decidable [no_mixedb s]; SeamStable is
    a theorem under the decidable [corrupt_safe s] — and exactly there. *)
From TU Require Import UAX29_Model C10_Seam C14_Seam C14_UAX29.

Theorem corrupt_nonws_u : forall iw dw s ks out,
  corrupt_cl iw dw (segment s) ks = Some out -> strip_cp (concat out) = strip_cp s.
Proof. exact corrupt_nonws_u_l. Qed.
Print Assumptions corrupt_nonws_u.

Theorem corrupt_clean_u : forall iw dw s ks out,
  C11_Model.cleansb s = true -> no_mixedb s = true -> corrupt_cl iw dw (segment s) ks = Some out ->
  C11_Model.cleansb (concat out) = true.
Proof. exact corrupt_clean_u_l. Qed.
Print Assumptions corrupt_clean_u.

(** labels exist for the clusters that were written (no SeamStable needed at this level) *)
Theorem corrupt_labels_cl_u : forall iw dw s ks out,
  C11_Model.cleansb s = true -> no_mixedb s = true -> corrupt_cl iw dw (segment s) ks = Some out ->
  exists ops, operations out (segment s) = Some ops /\ length ops = length out /\ repair out ops = Some s.
Proof. exact corrupt_labels_cl_u_l. Qed.
Print Assumptions corrupt_labels_cl_u.

(** SeamStable: every string the corruption writes for a clean, corrupt-safe text re-segments to
    the clusters it was built from — every probabilities, every stream *)
Theorem corrupt_stable_u : forall iw dw s ks out,
  C11_Model.cleansb s = true -> corrupt_safe s = true ->
  corrupt_cl iw dw (segment s) ks = Some out -> segment (concat out) = out.
Proof. exact corrupt_stable_l. Qed.
Print Assumptions corrupt_stable_u.

(** ... and the condition is exact: for a clean text without mixed clusters, SeamStable for all
    probabilities and streams holds iff the text is corrupt-safe (the streams (0,1) and (1,0)
    with all draws 0 already decide it) *)
Theorem corrupt_stable_iff : forall s,
  C11_Model.cleansb s = true -> no_mixedb s = true ->
  (corrupt_safe s = true <->
   forall iw dw ks out, in_range ks -> corrupt_cl iw dw (segment s) ks = Some out ->
                        segment (concat out) = out).
Proof. exact corrupt_stable_iff_l. Qed.
Print Assumptions corrupt_stable_iff.

(** word boundaries judged by the categories of the two code points only: sufficient *)
Theorem corrupt_safe_cf_safe : forall s,
  C11_Model.cleansb s = true -> corrupt_safe_cf s = true -> corrupt_safe s = true.
Proof. exact corrupt_safe_cf_safe_l. Qed.
Print Assumptions corrupt_safe_cf_safe.

(** string level, premises on the text alone: for every probabilities and every stream with one
    draw per character the corrupted input of a clean corrupt-safe text has the same
    non-whitespace code points, is clean again, and operations / repair on the RE-SEGMENTED
    input label it and give the text back *)
Theorem corrupt_labels_u : forall iw dw s ks,
  C11_Model.cleansb s = true -> corrupt_safe s = true -> (length (segment s) <= length ks)%nat ->
  exists c, option_map (@concat N) (corrupt_cl iw dw (segment s) ks) = Some c
    /\ strip_cp c = strip_cp s
    /\ C11_Model.cleansb c = true
    /\ exists ops, operations (segment c) (segment s) = Some ops
                   /\ length ops = length (segment c)
                   /\ repair (segment c) ops = Some s.
Proof. exact corrupt_labels_u_l. Qed.
Print Assumptions corrupt_labels_u.

(** the domain of that theorem and the KF1 class are disjoint *)
Theorem corrupt_kf1_outside : forall iw dw s ks out,
  C11_Model.cleansb s = true -> corrupt_safe s = true ->
  corrupt_cl iw dw (segment s) ks = Some out -> C14_Seam.kf1b s out = false.
Proof. exact C14_UAX29.kf1_outside_l. Qed.
Print Assumptions corrupt_kf1_outside.

(** the input built by the model alone (text clusters, clusters of the corrupted text, class
    flag, safety flag) passes the executable statement, the segmentation clause and the
    cross-check of [agree] *)
Theorem check_run_u : forall s seed ks iw dw np ns,
  corrupt_safe s = true -> (length (segment s) <= length ks)%nat -> in_range ks ->
  let v := input_of s seed ks iw dw np ns in
  check_C14 v (run_C14 v) = true /\ C14_Seam.uax29_agree v = true /\ C14_Seam.xcheck v = true.
Proof. exact check_run_u_l. Qed.
Print Assumptions check_run_u.

(** non-vacuity: "ab e\u{301}c 🇦🇧 🇨" is clean and corrupt-safe; the KF1 witnesses are not:
    flag halves (delete), L | V (delete), a ZWSP U+0301 (insert before the mark) *)
Example corrupt_safe_witness :
  C11_Model.cleansb [97;98;32;101;769;99;32;127462;127463;32;127464]%N = true
  /\ corrupt_safe [97;98;32;101;769;99;32;127462;127463;32;127464]%N = true.
Proof. vm_compute. split; reflexivity. Qed.
Example kf1_not_corrupt_safe :
  corrupt_safe [127465;32;127466]%N = false /\ corrupt_safe [4352;32;4449]%N = false
  /\ no_mixedb [97;8203;769]%N = true /\ corrupt_safe [97;8203;769]%N = false
  /\ corrupt_cl D53 0 (segment [97;8203;769]%N) [0;0;0]%Z = Some [[97];[32];[8203];[32];[769]]%N
  /\ segment [97;32;8203;32;769]%N = [[97];[32];[8203];[32;769]]%N.
Proof. vm_compute. repeat split; reflexivity. Qed.

(** ** the generator inside the model ("seed in, behaviour out"; C14_Seeded.v, RNG_Model.v)

    [corrupt_seeded iw dw seed t]: what the text function built by [corrupt_whitespace] returns for
    the text [t] (a cluster list) and [info.seed = seed]: the generator is
    [ChaCha8Rng::seed_from_u64 seed] and [random::<f64>()] is drawn once per character inside the
    loop, where the code draws.  [stream seed n]: the first n draws as numerators over 2^53.
    [thr p]: the integer threshold of the f64 comparison [r < p] for an arbitrary binary64 [p]. *)
From TU Require Import RNG_Model RNG_Proofs.
From TU Require Import C14_Seeded C14_Seeded_Proofs.

(** seeded run = oracle run, under an oracle that satisfies the guard of every theorem above:
    one draw per character, every draw in [0, 2^53).  The guard is discharged, not assumed. *)
Theorem seeded_oracle : forall iw dw seed t,
  let ks := stream seed (length t) in
  length ks = length t /\ in_range ks /\ corrupt_cl iw dw t ks = Some (corrupt_seeded iw dw seed t).
Proof. exact seeded_oracle_l. Qed.
Print Assumptions seeded_oracle.

(** the stream of a seed is prefix-stable: a longer text sees the same first draws *)
Theorem seeded_stream_prefix : forall seed n m, (n <= m)%nat -> firstn n (stream seed m) = stream seed n.
Proof. exact stream_prefix. Qed.
Print Assumptions seeded_stream_prefix.

(** hence every theorem about [corrupt_cl] holds of the seeded function, for every seed, with no
    premise about the random stream left *)
Theorem corrupt_nonws_seeded : forall iw dw seed t,
  strip (corrupt_seeded iw dw seed t) = strip t
  /\ strip_cp (concat (corrupt_seeded iw dw seed t)) = strip_cp (concat t).
Proof. exact nonws_seeded_l. Qed.
Print Assumptions corrupt_nonws_seeded.

Theorem corrupt_clean_seeded : forall iw dw seed t, Clean t -> Clean (corrupt_seeded iw dw seed t).
Proof. exact clean_seeded_l. Qed.
Print Assumptions corrupt_clean_seeded.

Theorem corrupt_clean_cp_seeded : forall iw dw seed t,
  Clean t -> C11_Model.wf_seg t = true -> C11_Model.cleansb (concat (corrupt_seeded iw dw seed t)) = true.
Proof. exact clean_cp_seeded_l. Qed.
Print Assumptions corrupt_clean_cp_seeded.

Theorem corrupt_labels_seeded : forall iw dw seed t, Clean t ->
  let out := corrupt_seeded iw dw seed t in
  exists ops, operations out t = Some ops /\ length ops = length out /\ repair out ops = Some (concat t).
Proof. exact labels_seeded_l. Qed.
Print Assumptions corrupt_labels_seeded.

Theorem corrupt_dw0_seeded : forall iw dw seed t, clamp dw = 0%Z ->
  let out := corrupt_seeded iw dw seed t in
  DelR (eq [32%N]) out t /\ DelR (fun x => is32 x = true) (concat out) (concat t).
Proof. exact dw0_seeded_l. Qed.
Print Assumptions corrupt_dw0_seeded.

Theorem corrupt_iw0_seeded : forall iw dw seed t, clamp iw = 0%Z ->
  let out := corrupt_seeded iw dw seed t in
  DelR (fun c => cl_ws c = true) t out /\
  (Clean t -> DelR (eq [32%N]) t out /\ DelR (fun x => is32 x = true) (concat t) (concat out)).
Proof. exact iw0_seeded_l. Qed.
Print Assumptions corrupt_iw0_seeded.

Theorem corrupt_extreme_seeded : forall seed t, corrupt_seeded 0 D53 seed t = strip t.
Proof. exact extreme_seeded_l. Qed.
Print Assumptions corrupt_extreme_seeded.

(** code-point mode, string level: for EVERY whitespace-clean string, probabilities and seed *)
Theorem corrupt_cp_seeded : forall iw dw seed s, C11_Model.cleansb s = true ->
  let out := corrupt_seeded iw dw seed (singletons s) in
  let c := concat out in
  singletons c = out
  /\ strip_cp c = strip_cp s
  /\ C11_Model.cleansb c = true
  /\ exists ops, operations (singletons c) (singletons s) = Some ops
                 /\ length ops = length c
                 /\ repair (singletons c) ops = Some s.
Proof. exact cp_seeded_l. Qed.
Print Assumptions corrupt_cp_seeded.

(** grapheme mode, segmenter and generator inside the model: statements about (string, seed) alone *)
Theorem corrupt_nonws_u_seeded : forall iw dw seed s,
  strip_cp (concat (corrupt_seeded iw dw seed (segment s))) = strip_cp s.
Proof. exact nonws_u_seeded_l. Qed.
Print Assumptions corrupt_nonws_u_seeded.

Theorem corrupt_clean_u_seeded : forall iw dw seed s,
  C11_Model.cleansb s = true -> no_mixedb s = true ->
  C11_Model.cleansb (concat (corrupt_seeded iw dw seed (segment s))) = true.
Proof. exact clean_u_seeded_l. Qed.
Print Assumptions corrupt_clean_u_seeded.

Theorem corrupt_stable_u_seeded : forall iw dw seed s,
  C11_Model.cleansb s = true -> corrupt_safe s = true ->
  segment (concat (corrupt_seeded iw dw seed (segment s))) = corrupt_seeded iw dw seed (segment s).
Proof. exact stable_u_seeded_l. Qed.
Print Assumptions corrupt_stable_u_seeded.

Theorem corrupt_labels_u_seeded : forall iw dw seed s,
  C11_Model.cleansb s = true -> corrupt_safe s = true ->
  let c := concat (corrupt_seeded iw dw seed (segment s)) in
  strip_cp c = strip_cp s
  /\ C11_Model.cleansb c = true
  /\ exists ops, operations (segment c) (segment s) = Some ops
                 /\ length ops = length (segment c)
                 /\ repair (segment c) ops = Some s.
Proof. exact labels_u_seeded_l. Qed.
Print Assumptions corrupt_labels_u_seeded.

Theorem corrupt_kf1_outside_seeded : forall iw dw seed s,
  C11_Model.cleansb s = true -> corrupt_safe s = true ->
  C14_Seam.kf1b s (corrupt_seeded iw dw seed (segment s)) = false.
Proof. exact kf1_outside_seeded_l. Qed.
Print Assumptions corrupt_kf1_outside_seeded.

(** the f64 comparison.  For a finite non-negative binary64 p = m * 2^e and a draw r = k / 2^53:
    [k < thr p] iff r < p as real numbers (cross-multiplied); comparing with the clamped
    threshold is the same for a draw in range; the constructor's [p.clamp(0., 1.) > 0.] is [m > 0]
    (true for +inf, false for NaN and negative values). *)
Theorem thr_spec : forall k m e, (k < thr (Fin m e))%Z <-> lt_real k m e.
Proof. exact thr_spec_l. Qed.
Print Assumptions thr_spec.

Theorem thr_clamp : forall k T, (0 <= k < D53)%Z -> ((k < clamp T)%Z <-> (k < T)%Z).
Proof. exact clamp_lt. Qed.
Print Assumptions thr_clamp.

Theorem thr_accept : forall p, (0 <? clamp (thr p))%Z = true <->
  match p with Fin m _ => (0 < m)%N | FInf => True | _ => False end.
Proof. exact thr_pos_l. Qed.
Print Assumptions thr_accept.

(** val level.  On an input whose oracle fields are right — the replicated stream is the stream of
    the seed and the integer thresholds are those of the probabilities ([seeded_xcheck], evaluated
    on every case by [agree]), the cluster lists are [CharString::new] of their text
    ([seg_consistent]) — the seeded run IS the oracle run ... *)
Theorem run_seeded_eq : forall v,
  seeded_xcheck v = true -> length (in_ks v) = length (in_text v) -> seg_consistent v ->
  run_C14s v = run_C14 v.
Proof. exact run_seeded_eq_l. Qed.
Print Assumptions run_seeded_eq.

(** ... and it reads nothing but (mode, text, seed, prefix/suffix counts, probabilities):
    "a deterministic function of (text, seed)", for the actual generator *)
Theorem run_seeded_reads : forall v v',
  v_bool (v_nth 0 v) = v_bool (v_nth 0 v') -> in_str v = in_str v' -> in_seed v = in_seed v' ->
  in_iwf v = in_iwf v' -> in_dwf v = in_dwf v' -> in_np v = in_np v' -> in_ns v = in_ns v' ->
  run_C14s v = run_C14s v'.
Proof. exact run_seeded_reads_l. Qed.
Print Assumptions run_seeded_reads.

Theorem check_run_seeded : forall v,
  seeded_xcheck v = true -> length (in_ks v) = length (in_text v) -> seg_consistent v ->
  (v_bool (v_nth 0 v) = true -> premise (in_text v) = true ->
   C11_Model.cleansb (in_str v) = true /\ corrupt_safe (in_str v) = true) ->
  check_C14 v (run_C14s v) = true.
Proof. exact check_run_seeded_l. Qed.
Print Assumptions check_run_seeded.

(** the input built by the model from (text, seed, probabilities) alone passes all of [agree]'s
    side conditions and the executable statement, for every corrupt-safe text *)
Theorem check_run_u_seeded : forall s seed pi pd np ns,
  corrupt_safe s = true ->
  let v := input_of_s s seed pi pd np ns in
  check_C14 v (run_C14s v) = true /\ C14_Seam.uax29_agree v = true /\ C14_Seam.xcheck v = true
  /\ seeded_xcheck v = true.
Proof. exact check_run_u_seeded_l. Qed.
Print Assumptions check_run_u_seeded.

(** the two facts about the modelled generator this rests on (RNG_Props.v), re-pinned so that every
    run of this check audits them *)
Theorem rng_seed_wf : forall seed, RNG_Proofs.wf (seed_from_u64 seed).
Proof. exact RNG_Proofs.wf_seed. Qed.
Print Assumptions rng_seed_wf.

Theorem rng_random_f64_range : forall st k st', RNG_Proofs.wf st -> random_f64 st = (k, st') ->
  (k < 9007199254740992)%N /\ RNG_Proofs.wf st'.
Proof. exact RNG_Proofs.random_f64_spec. Qed.
Print Assumptions rng_random_f64_range.

(** non-vacuity / known answers.  The r-stream of seed 606828435927674809 and the corrupted text
    are what the REAL crate produced (harness run, grapheme mode, "b . ca.c", iw = dw = 0.5);
    0.1 is not a multiple of 2^-53: its threshold is the ceiling; a probability equal to the first
    draw does not fire, its successor in binary64 does *)
Example seeded_stream_known : stream 606828435927674809 8 =
  [8749249387951582; 5265228298964896; 2835095240244102; 2689799241078383;
   2950008404175043; 2686608778910248; 1405144833155129; 3346493577821043]%Z.
Proof. vm_compute. reflexivity. Qed.
Example seeded_run_known :
  corrupt_seeded (thr (Fin 4503599627370496 (-53))) (thr (Fin 4503599627370496 (-53))) 606828435927674809
                 (segment [98;32;46;32;99;97;46;99]%N)
  = [[98];[32];[46];[99];[32];[97];[32];[46];[32];[99]]%N.
Proof. vm_compute. reflexivity. Qed.
Example thr_tenth : thr (Fin 7205759403792794 (-56)) = 900719925474100%Z
  /\ (900719925474099 * 8 < 7205759403792794 < 900719925474100 * 8)%Z.
Proof. vm_compute. repeat split; reflexivity. Qed.
Example thr_boundary :
  let r0 := 8749249387951582%N in   (* first draw of the seed above, r0 / 2^53 > 1/2 *)
  corrupt_seeded 0 (thr (Fin r0 (-53))) 606828435927674809 [[32]]%N = [[32]]%N
  /\ corrupt_seeded 0 (thr (Fin (r0 + 1) (-53))) 606828435927674809 [[32]]%N = [].
Proof. vm_compute. split; reflexivity. Qed.
Example check_run_u_seeded_witness :
  let v := input_of_s [97;98;32;101;769;99;32;127462;127463;32;127464]%N 22
                      (Fin 7205759403792794 (-56)) (Fin 6004799503160661 (-54)) 1 1 in
  corrupt_safe [97;98;32;101;769;99;32;127462;127463;32;127464]%N = true
  /\ agree_C14s v (run_C14s v) (run_C14s v) = true.
Proof. vm_compute. split; reflexivity. Qed.

(** the same over the rational numbers: the value of the draw, k / 2^53, is below the value of the
    probability, m * 2^e, exactly when the model's integer test fires (C14_Seeded_Real.v) *)
From Coq Require Import QArith.
From TU Require Import C14_Seeded_Real.
Theorem thr_real : forall k m e,
  (k < thr (Fin m e))%Z <-> (C14_Seeded_Real.q_draw k < C14_Seeded_Real.q_f64 m e)%Q.
Proof. exact C14_Seeded_Real.thr_real_l. Qed.
Print Assumptions thr_real.
Example thr_real_tenth :   (* 0.1 = 7205759403792794 * 2^-56 lies strictly between 900719925474099 / 2^53 and 900719925474100 / 2^53 *)
  (C14_Seeded_Real.q_draw 900719925474099 < C14_Seeded_Real.q_f64 7205759403792794 (-56))%Q
  /\ ~ (C14_Seeded_Real.q_draw 900719925474100 < C14_Seeded_Real.q_f64 7205759403792794 (-56))%Q.
Proof. split; [apply thr_real; vm_compute; reflexivity|]. intros H. apply thr_real in H. vm_compute in H. discriminate. Qed.

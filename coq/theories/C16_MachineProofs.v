(** C16 — the machine-integer model never faults and equals the unbounded model. *)
From TU Require Import Base C16_Model C16_Proofs C16_Top C16_Machine.
From Coq Require Import Lia ZifyBool ZifyNat ZifyN.
Open Scope N_scope.
Arguments N.add : simpl never.
Arguments N.sub : simpl never.
Arguments N.mul : simpl never.
Arguments N.eqb : simpl never.
Arguments N.ltb : simpl never.
Arguments N.leb : simpl never.
Arguments N.min : simpl never.
Arguments N.modulo : simpl never.
Arguments N.of_nat : simpl never.
Arguments N.to_nat : simpl never.

(** [W] and [ISIZE_MAX] stay atoms for [lia]; this is all that is used about them *)
Lemma W_ISIZE : W = 2 * ISIZE_MAX + 2.
Proof. reflexivity. Qed.
Lemma W_pos : 0 < W.
Proof. reflexivity. Qed.
Lemma W_gt2 : 2 < W.
Proof. reflexivity. Qed.
Global Opaque W ISIZE_MAX.

(** * the operations where the result fits *)
Lemma madd_ok p s a b : a + b < W -> madd p s a b = Ok (a + b).
Proof. intros H. unfold madd, add_o. cbv zeta. destruct (a + b <? W) eqn:E; [reflexivity|lia]. Qed.
Lemma msub_ok p s a b : b <= a -> msub p s a b = Ok (a - b).
Proof. intros H. unfold msub, sub_o. destruct (b <=? a) eqn:E; [reflexivity|lia]. Qed.
Lemma mmul_ok p s a b : a * b < W -> mmul p s a b = Ok (a * b).
Proof. intros H. unfold mmul, mul_o. cbv zeta. destruct (a * b <? W) eqn:E; [reflexivity|lia]. Qed.

(** ... and where it does not *)
Lemma madd_ovf p s a b : W <= a + b -> madd p s a b = ovf p s ((a + b) mod W).
Proof. intros H. unfold madd, add_o. cbv zeta. destruct (a + b <? W) eqn:E; [lia|reflexivity]. Qed.
Lemma msub_ovf p s a b : a < b -> msub p s a b = ovf p s ((a + (W - b mod W)) mod W).
Proof. intros H. unfold msub, sub_o. destruct (b <=? a) eqn:E; [lia|reflexivity]. Qed.
Lemma mmul_ovf p s a b : W <= a * b -> mmul p s a b = ovf p s ((a * b) mod W).
Proof. intros H. unfold mmul, mul_o. cbv zeta. destruct (a * b <? W) eqn:E; [lia|reflexivity]. Qed.

(** * small list facts *)
Lemma sumN_app' a b : sumN (a ++ b) = sumN a + sumN b.
Proof. induction a as [|x a IH]; [reflexivity|]. cbn [app]. rewrite !sumN_cons, IH. lia. Qed.

Lemma sumN_rev l : sumN (rev l) = sumN l.
Proof.
  induction l as [|x l IH]; [reflexivity|]. cbn [rev]. rewrite sumN_app', IH, !sumN_cons.
  change (sumN []) with 0. lia.
Qed.

Lemma sumN_repeat' v k : sumN (repeat v k) = v * N.of_nat k.
Proof. induction k as [|k IH]; [cbn; lia|]. cbn [repeat]. rewrite sumN_cons, IH. lia. Qed.

Definition rbytes (r : list (N * N)) : N := sumN (map (fun q => fst q * snd q) r).
Definition rcount (r : list (N * N)) : N := sumN (map snd r).

Lemma rbytes_unrle r : sumN (unrle r) = rbytes r.
Proof.
  unfold unrle, rbytes. induction r as [|[v c] r IH]; [reflexivity|].
  cbn [flat_map map fst snd]. rewrite sumN_app', sumN_cons, IH, sumN_repeat'. lia.
Qed.

Lemma rcount_unrle r : lenN (unrle r) = rcount r.
Proof.
  unfold unrle, rcount. induction r as [|[v c] r IH]; [reflexivity|].
  cbn [flat_map map fst snd]. rewrite lenN_app, sumN_cons, IH, lenN_repeat. lia.
Qed.

Lemma rbytes_rle lens : rbytes (rle lens) = sumN lens.
Proof. rewrite <- rbytes_unrle, rle_roundtrip_l. reflexivity. Qed.
Lemma rcount_rle lens : rcount (rle lens) = lenN lens.
Proof. rewrite <- rcount_unrle, rle_roundtrip_l. reflexivity. Qed.

(** * run_length_encode *)
Lemma mrle_go_ok p l : forall v c, c + lenN l < W -> mrle_go p v c l = Ok (rle_go v c l).
Proof.
  induction l as [|x l IH]; intros v c H; cbn [mrle_go rle_go]; [reflexivity|].
  rewrite lenN_cons in H. destruct (x =? v).
  - rewrite madd_ok by lia. cbn [bind]. apply IH. lia.
  - rewrite IH by lia. reflexivity.
Qed.

Lemma mrle_ok p l : lenN l < W -> mrle p l = Ok (rle l).
Proof.
  intros H. destruct l as [|v l]; [reflexivity|]. cbn [mrle rle]. rewrite lenN_cons in H.
  apply mrle_go_ok. lia.
Qed.

Lemma mcs_new_ok p lens : lenN lens < W -> mcs_new p lens = Ok (cs_new lens).
Proof. intros H. unfold mcs_new. rewrite mrle_ok by exact H. reflexivity. Qed.

(** * byte_start_end *)
Lemma mbse_go_ok p r : forall start total n, total <= n ->
  start + rbytes r < W -> total + rcount r < W ->
  mbse_go p r start total n = bse_go r start total n.
Proof.
  unfold rbytes, rcount.
  induction r as [|[nb cnt] r IH]; intros start total n Hn Hb Hc; [reflexivity|].
  cbn [mbse_go bse_go]. cbn [map fst snd] in Hb, Hc. rewrite sumN_cons in Hb, Hc.
  rewrite madd_ok by lia. cbn [bind]. destruct (n <? total + cnt) eqn:E.
  - rewrite msub_ok by exact Hn. cbn [bind]. unfold csub.
    destruct (total <=? n) eqn:E2; [|lia]. cbn [bind].
    assert (M1 : nb * (n - total + 1) <= nb * cnt) by (apply N.mul_le_mono_l; lia).
    rewrite mmul_ok by lia. cbn [bind]. rewrite madd_ok by lia. cbn [bind].
    rewrite madd_ok by lia. reflexivity.
  - rewrite mmul_ok by lia. cbn [bind]. rewrite madd_ok by lia. cbn [bind].
    rewrite madd_ok by lia. cbn [bind]. apply IH; lia.
Qed.

Lemma len_le_sum : forall l, Pos l -> lenN l <= sumN l.
Proof.
  induction l as [|x l IH]; intros H; [rewrite lenN_nil; change (sumN []) with 0; lia|].
  rewrite lenN_cons, sumN_cons. inversion H as [|? ? Hx Hl]; subst. specialize (IH Hl). lia.
Qed.

(** * the window length *)
Lemma mwinlen_ok p site max ctx ws : 2 * ctx < max -> max < W ->
  mwinlen p site max ctx ws = Ok (max - (1 + b2n (0 <? ws)) * ctx)
  /\ (1 + b2n (0 <? ws)) * ctx <= max.
Proof.
  intros Hv Hm. unfold mwinlen. pose proof W_gt2.
  assert (Hk : 1 + b2n (0 <? ws) <= 2) by (destruct (0 <? ws); cbn [b2n]; lia).
  assert (Hkc : (1 + b2n (0 <? ws)) * ctx <= 2 * ctx) by (apply N.mul_le_mono_r; exact Hk).
  rewrite madd_ok by lia. cbn [bind]. rewrite mmul_ok by lia. cbn [bind].
  rewrite msub_ok by lia. split; [reflexivity|lia].
Qed.

Lemma count_until_le cs idxs maxl : forall count acc c,
  count_until cs idxs maxl count acc = Ok c -> c <= count + lenN idxs.
Proof.
  induction idxs as [|i r IH]; intros count acc c H; cbn [count_until] in H.
  - injection H as <-. rewrite lenN_nil. lia.
  - rewrite lenN_cons. destruct (cbl cs i) as [b| | |]; cbn [bind] in H; try discriminate.
    destruct (maxl <? acc + b).
    + injection H as <-. lia.
    + apply IH in H. lia.
Qed.

Lemma mapM_ext {A B} (f g : A -> res B) l : (forall x, In x l -> f x = g x) -> mapM f l = mapM g l.
Proof.
  induction l as [|x l IH]; intros H; [reflexivity|]. cbn [mapM].
  rewrite (H x (or_introl eq_refl)), IH; [reflexivity|]. intros y Hy. apply H. right. exact Hy.
Qed.

Lemma In_nrange_k k : forall a x, In x (nrange_k a k) -> a <= x /\ x < a + N.of_nat k.
Proof.
  induction k as [|k IH]; intros a x H; cbn [nrange_k] in H; [contradiction|].
  destruct H as [<-|H]; [lia|]. apply IH in H. lia.
Qed.

Lemma sum_cblen_range lens k : forall a,
  sumN (map (cblen lens) (nrange_k a k)) = pre lens (a + N.of_nat k) - pre lens a.
Proof.
  induction k as [|k IH]; intros a.
  - cbn [nrange_k map]. change (sumN []) with 0. replace (a + N.of_nat 0) with a by lia. lia.
  - cbn [nrange_k map]. rewrite sumN_cons, IH.
    replace (a + 1 + N.of_nat k) with (a + N.of_nat (S k)) by lia.
    pose proof (pre_succ lens a). pose proof (pre_mono lens (a + 1) (a + N.of_nat (S k)) ltac:(lia)). lia.
Qed.

Lemma lenN_nrange_k k : forall a, lenN (nrange_k a k) = N.of_nat k.
Proof. induction k as [|k IH]; intros a; [reflexivity|]. cbn [nrange_k]. rewrite lenN_cons, IH. lia. Qed.

Lemma sum_cblen_nrange lens a b : sumN (map (cblen lens) (nrange a b)) <= sumN lens.
Proof. unfold nrange. rewrite sum_cblen_range. pose proof (pre_le_sum lens (a + N.of_nat (N.to_nat (b - a)))). lia. Qed.

Lemma lenN_nrange a b : lenN (nrange a b) = b - a.
Proof. unfold nrange. rewrite lenN_nrange_k. lia. Qed.

Section Text.
(** a text: positive cluster byte lengths, at most [isize::MAX] bytes; [isb] is true on every
    cluster boundary *)
Variable p : profile.
Variable lens : list N.
Hypothesis HP : Pos lens.
Hypothesis HB : sumN lens <= ISIZE_MAX.


Lemma len_le_isize : lenN lens <= ISIZE_MAX.
Proof. pose proof (len_le_sum lens HP). lia. Qed.
Let HL := len_le_isize.

Lemma mcs_new_ok' : mcs_new p lens = Ok (cs_new lens).
Proof. apply mcs_new_ok. pose proof W_ISIZE. lia. Qed.

Lemma mbse_ok n : mbse p (cs_new lens) n = bse (cs_new lens) n.
Proof.
  unfold mbse, bse. cbn [cs_new c_rle]. pose proof W_ISIZE.
  apply mbse_go_ok; [lia | rewrite rbytes_rle; lia | rewrite rcount_rle; lia].
Qed.

Lemma cbl_cases n :
  cbl (cs_new lens) n = if n <? lenN lens then Ok (cblen lens n) else Panic 1.
Proof.
  destruct (n <? lenN lens) eqn:E.
  - apply cbl_new. lia.
  - unfold cbl. rewrite bse_new, E. reflexivity.
Qed.

Lemma mcbl_ok n : mcbl p (cs_new lens) n = cbl (cs_new lens) n.
Proof.
  unfold mcbl, cbl. rewrite mbse_ok, bse_new. destruct (n <? lenN lens) eqn:E; [|reflexivity].
  cbn [bind fst snd]. pose proof (pre_mono lens n (n + 1) ltac:(lia)).
  rewrite msub_ok by lia. unfold csub. destruct (pre lens n <=? pre lens (n + 1)) eqn:E2; [reflexivity|lia].
Qed.

Lemma mcr2br_ok s e : mcr2br p (cs_new lens) s e = cr2br (cs_new lens) s e.
Proof.
  unfold mcr2br, cr2br. destruct ((s <? e) && (e <=? c_len (cs_new lens))) eqn:E; [|reflexivity].
  apply andb_true_iff in E as [E1 E2]. rewrite mbse_ok.
  destruct (bse (cs_new lens) s) as [pr| | |]; cbn [bind]; try reflexivity.
  rewrite msub_ok by lia. cbn [bind]. destruct (s <? e - 1); [|reflexivity].
  rewrite msub_ok by lia. cbn [bind]. rewrite mbse_ok. reflexivity.
Qed.


(** * count_until *)

Lemma mcount_ok maxl : forall idxs count acc,
  acc + sumN (map (cblen lens) idxs) < W -> count + lenN idxs < W ->
  mcount_until p (cs_new lens) idxs maxl count acc = count_until (cs_new lens) idxs maxl count acc.
Proof.
  induction idxs as [|i r IH]; intros count acc Ha Hc; [reflexivity|].
  cbn [mcount_until count_until]. cbn [map] in Ha. rewrite sumN_cons in Ha. rewrite lenN_cons in Hc.
  rewrite mcbl_ok, cbl_cases. destruct (i <? lenN lens); [|reflexivity]. cbn [bind].
  rewrite madd_ok by lia. cbn [bind]. destruct (maxl <? acc + cblen lens i); [reflexivity|].
  rewrite madd_ok by lia. cbn [bind]. apply IH; lia.
Qed.






Lemma mcount_fwd maxl a b : b <= lenN lens ->
  mcount_until p (cs_new lens) (nrange a b) maxl 0 0 = count_until (cs_new lens) (nrange a b) maxl 0 0.
Proof.
  intros H. pose proof W_ISIZE. apply mcount_ok.
  - pose proof (sum_cblen_nrange lens a b). lia.
  - rewrite lenN_nrange. lia.
Qed.

Lemma mcount_bwd maxl a b : b <= lenN lens ->
  mcount_until p (cs_new lens) (rev (nrange a b)) maxl 0 0 = count_until (cs_new lens) (rev (nrange a b)) maxl 0 0.
Proof.
  intros H. pose proof W_ISIZE. apply mcount_ok.
  - rewrite map_rev, sumN_rev. pose proof (sum_cblen_nrange lens a b). lia.
  - unfold lenN. rewrite rev_length. fold (lenN (nrange a b)). rewrite lenN_nrange. lia.
Qed.

(** * possible_character_substrings *)


Lemma mpcs_ok maxc : mpcs p lens maxc = pcs lens maxc.
Proof.
  unfold mpcs, pcs. destruct (sumN lens =? 0); [reflexivity|]. pose proof W_ISIZE as HW.
  rewrite mcs_new_ok'. cbn [bind]. rewrite c_len_new. cbv zeta.
  rewrite msub_ok by lia. cbn [bind]. rewrite madd_ok by lia. cbn [bind].
  apply mapM_ext. intros st Hin. unfold nrange in Hin. apply In_nrange_k in Hin.
  rewrite madd_ok by lia. cbn [bind]. rewrite mcr2br_ok.
  destruct (cr2br (cs_new lens) st (N.min (lenN lens) (st + N.min maxc (lenN lens)))); cbn [bind]; try reflexivity.
  rewrite msub_ok by lia. reflexivity.
Qed.

Section Isb.
Variable isb : N -> bool.
Hypothesis Hisb : forall k, isb (pre lens k) = true.

Lemma mslice_ok a b : mslice isb (cs_new lens) (pre lens a) (pre lens b) = slice (cs_new lens) (pre lens a) (pre lens b).
Proof. unfold mslice, slice. rewrite !Hisb, !andb_true_r. reflexivity. Qed.

Lemma mget_ok n : mget p isb (cs_new lens) n = cs_get (cs_new lens) n.
Proof.
  unfold mget, cs_get. destruct (c_len (cs_new lens) <=? n) eqn:E; [reflexivity|].
  rewrite mbse_ok, bse_new. rewrite c_len_new in E. destruct (n <? lenN lens) eqn:E2; [|lia].
  cbn [bind fst snd]. rewrite mslice_ok. reflexivity.
Qed.

Lemma msubstr_ok s e : msubstr p isb (cs_new lens) s e = sub (cs_new lens) s e.
Proof.
  unfold msubstr, sub. destruct (e <? s) eqn:E0; [reflexivity|]. rewrite !c_len_new.
  destruct ((lenN lens =? 0) || (N.min s (lenN lens) =? N.min e (lenN lens))) eqn:E1; [reflexivity|].
  apply orb_false_iff in E1 as [E1 E2].
  rewrite mcr2br_ok, cr2br_new by lia. cbn [bind fst snd]. apply mslice_ok.
Qed.

Lemma mmkwin_ok c ws we e : mmkwin p isb (cs_new lens) c ws we e = mkwin (cs_new lens) c ws we e.
Proof. unfold mmkwin, mkwin. rewrite !mcr2br_ok, msubstr_ok. reflexivity. Qed.

(** * the loops *)
Lemma mbyte_loop_ok max ctx : 2 * ctx < max -> max < W -> forall fuel ws,
  mbyte_loop p isb fuel (cs_new lens) max ctx ws = byte_loop fuel (cs_new lens) max ctx ws.
Proof.
  intros Hv Hm. pose proof W_ISIZE as HW.
  induction fuel as [|f IH]; intros ws; cbn [mbyte_loop byte_loop]; [reflexivity|].
  rewrite !c_len_new. destruct (ws <? lenN lens) eqn:E; [|reflexivity].
  destruct (mwinlen_ok p 21 max ctx ws Hv Hm) as [-> Hk]. unfold csub.
  destruct ((1 + b2n (0 <? ws)) * ctx <=? max) eqn:E1; [|lia]. cbn [bind].
  rewrite mcount_fwd by lia.
  destruct (count_until (cs_new lens) (nrange ws (lenN lens)) (max - (1 + b2n (0 <? ws)) * ctx) 0 0)
    as [cnt| | |] eqn:EC; cbn [bind]; try reflexivity.
  apply count_until_le in EC. rewrite lenN_nrange in EC.
  rewrite madd_ok by lia. cbn [bind].
  destruct (ws + cnt <=? ws); [rewrite mcbl_ok; reflexivity|].
  rewrite mcount_bwd by lia.
  destruct (count_until (cs_new lens) (rev (nrange 0 ws)) ctx 0 0) as [cb| | |]; cbn [bind]; try reflexivity.
  rewrite mcount_fwd by lia.
  destruct (count_until (cs_new lens) (nrange (ws + cnt) (lenN lens)) ctx 0 0) as [cf| | |] eqn:EF;
    cbn [bind]; try reflexivity.
  apply count_until_le in EF. rewrite lenN_nrange in EF.
  rewrite madd_ok by lia. cbn [bind]. rewrite mmkwin_ok. unfold sat_sub.
  destruct (mkwin (cs_new lens) (ws - cb) ws (ws + cnt) (ws + cnt + cf)); cbn [bind]; try reflexivity.
  rewrite IH. reflexivity.
Qed.

(** [char()]: the additions [window_start + window_length (+ context_length)] fit because a
    second window exists only when [max - ctx < len] *)
Lemma mchar_loop_ok max ctx : 2 * ctx < max -> max < W -> forall fuel ws,
  (0 < ws -> ws < lenN lens -> max - ctx < lenN lens) ->
  mchar_loop p isb fuel (cs_new lens) max ctx ws = char_loop fuel (cs_new lens) max ctx ws.
Proof.
  intros Hv Hm. pose proof W_ISIZE as HW.
  induction fuel as [|f IH]; intros ws Hinv; cbn [mchar_loop char_loop]; [reflexivity|].
  rewrite !c_len_new. destruct (ws <? lenN lens) eqn:E; [|reflexivity].
  destruct (mwinlen_ok p 12 max ctx ws Hv Hm) as [-> Hk]. unfold csub.
  destruct ((1 + b2n (0 <? ws)) * ctx <=? max) eqn:E1; [|lia]. cbn [bind].
  assert (Hfit : ws + (max - (1 + b2n (0 <? ws)) * ctx) + ctx < W).
  { destruct (0 <? ws) eqn:E0; cbn [b2n] in *.
    - specialize (Hinv ltac:(lia) ltac:(lia)). lia.
    - assert (ws = 0) as -> by lia. lia. }
  rewrite madd_ok by lia. cbn [bind]. rewrite madd_ok by lia. cbn [bind].
  rewrite madd_ok by lia. cbn [bind]. rewrite mmkwin_ok. unfold sat_sub.
  match goal with |- context [mkwin ?a ?b ?c ?d ?e] => destruct (mkwin a b c d e) end;
    cbn [bind]; try reflexivity.
  rewrite IH; [reflexivity|].
  intros H1 H2. destruct (0 <? ws) eqn:E0; cbn [b2n] in *.
  - apply Hinv; lia.
  - assert (ws = 0) by lia. subst ws. lia.
Qed.

(** * the configuration check after the repair *)
Lemma mconfig_fixed site max ctx : max < W ->
  mconfig_bad p true site max ctx = Ok (max <=? 2 * ctx).
Proof.
  intros Hm. unfold mconfig_bad, sat_mul. f_equal.
  destruct (max <=? 2 * ctx) eqn:E; lia.
Qed.

Lemma mchar_windows_ok max ctx : max < W ->
  mchar_windows p true isb lens max ctx = char_windows lens max ctx.
Proof.
  intros Hm. unfold mchar_windows, char_windows. rewrite mconfig_fixed by exact Hm. cbn [bind].
  destruct (max <=? 2 * ctx) eqn:E; [reflexivity|]. rewrite mcs_new_ok'. cbn [bind].
  apply mchar_loop_ok; lia.
Qed.

Lemma mbyte_windows_ok max ctx : max < W ->
  mbyte_windows p true isb lens max ctx = byte_windows lens max ctx.
Proof.
  intros Hm. unfold mbyte_windows, byte_windows. rewrite mconfig_fixed by exact Hm. cbn [bind].
  destruct (max <=? 2 * ctx) eqn:E; [reflexivity|]. rewrite mcs_new_ok'. cbn [bind].
  apply mbyte_loop_ok; lia.
Qed.

Lemma mwindows_ok kind max ctx : max < W ->
  mwindows p true isb kind max ctx lens = windows kind max ctx lens.
Proof.
  intros Hm. unfold mwindows, windows.
  rewrite mchar_windows_ok, mbyte_windows_ok, mcs_new_ok' by exact Hm. reflexivity.
Qed.

End Isb.
End Text.

(** C12 proofs, part 6: the binary64 model of the normalised distances (C12_Float.v). *)
From Coq Require Import ZArith List Bool QArith Qreals Reals Lia Lra.
From Flocq Require Import Core IEEE754.BinarySingleNaN Relative.
From TU Require Import Base C12_Model C12_Spec C12_Matrix C12_Norm C12_Proofs C12_Float C12_FloatBase.
Import ListNotations.
Close Scope Q_scope.
Open Scope R_scope.

Notation rnd64 := (rnd prec64 emax64).
Notation fmt64 := (fmt prec64 emax64).
Notation Fin64 := (Fin prec64 emax64).
Definition u53 : R := bpow radix2 (-53).
Definition P53 : Z := (2 ^ 53)%Z.

Lemma u53_uu : uu prec64 = u53. Proof. reflexivity. Qed.
Lemma u53_pos : 0 < u53. Proof. apply bpow_gt_0. Qed.
Lemma fmt_u53 : fmt64 u53.
Proof. apply (fmt_bpow prec64 emax64 Hprec64). unfold SpecFloat.emin, prec64, emax64. lia. Qed.
Lemma IZR_P53 : IZR P53 = bpow radix2 53.
Proof. unfold P53. apply IZR_2p. lia. Qed.
Lemma P53_u53 : IZR P53 * u53 = 1.
Proof. rewrite IZR_P53. unfold u53. rewrite <- bpow_plus. reflexivity. Qed.
Lemma fmt_one : fmt64 1. Proof. apply (fmt_1 prec64 emax64 Hprec64 Hmax64). Qed.
Lemma fmt_two : fmt64 2.
Proof. apply (fmt_IZR prec64 emax64 Hprec64 Hmax64 2). unfold prec64. lia. Qed.
Lemma NRM_le_u53 : NRM prec64 emax64 <= u53.
Proof. unfold NRM, u53. apply bpow_le. unfold SpecFloat.emin, prec64, emax64. lia. Qed.

(** * the quotient [d as f64 / m as f64] of two integers up to 2^53 *)
Lemma quot_spec : forall d m, (0 <= d <= P53)%Z -> (1 <= m <= P53)%Z ->
  Fin64 (quot_fl d m) /\ B2R (quot_fl d m) = rnd64 (IZR d / IZR m) /\ Bsign (quot_fl d m) = false.
Proof.
  intros d m Hd Hm. unfold P53 in *.
  destruct (gofZ_spec prec64 emax64 Hprec64 Hmax64 d ltac:(unfold prec64; lia)) as [Rd Fd].
  destruct (gofZ_spec prec64 emax64 Hprec64 Hmax64 m ltac:(unfold prec64; lia)) as [Rm Fm].
  pose proof (gofZ_sign prec64 emax64 Hprec64 Hmax64 d ltac:(unfold prec64; lia)) as Sd.
  pose proof (gofZ_sign prec64 emax64 Hprec64 Hmax64 m ltac:(unfold prec64; lia)) as Sm.
  change (gofZ prec64 emax64 Hprec64 Hmax64 d) with (of_Z64 d) in *.
  change (gofZ prec64 emax64 Hprec64 Hmax64 m) with (of_Z64 m) in *.
  assert (M1 : 1 <= IZR m) by (apply (IZR_le 1); lia).
  assert (D0 : 0 <= IZR d) by (apply (IZR_le 0); lia).
  assert (D53 : IZR d <= bpow radix2 53) by (rewrite <- (IZR_2p 53) by lia; apply IZR_le; lia).
  assert (Q0 : 0 <= IZR d / IZR m) by (apply Rmult_le_pos; [lra|apply Rlt_le, Rinv_0_lt_compat; lra]).
  assert (Q1 : IZR d / IZR m <= bpow radix2 53).
  { apply Rle_trans with (IZR d); [|exact D53]. unfold Rdiv. rewrite <- (Rmult_1_r (IZR d)) at 2.
    apply Rmult_le_compat_l; [lra|]. rewrite <- Rinv_1. apply Rinv_le_contravar; lra. }
  assert (OV : Rabs (rnd64 (B2R (of_Z64 d) / B2R (of_Z64 m))) < TOP emax64).
  { rewrite Rd, Rm. apply (rnd_lt_TOP prec64 emax64 Hprec64) with (bpow radix2 53).
    - apply (fmt_bpow prec64 emax64 Hprec64). unfold SpecFloat.emin, prec64, emax64. lia.
    - unfold TOP. apply bpow_lt. unfold emax64. lia.
    - rewrite Rabs_pos_eq; assumption. }
  assert (NZ : B2R (of_Z64 m) <> 0) by (rewrite Rm; lra).
  destruct (gdiv_spec prec64 emax64 Hprec64 Hmax64 (of_Z64 d) (of_Z64 m) Fd NZ OV) as [E F].
  pose proof (gdiv_sign prec64 emax64 Hprec64 Hmax64 (of_Z64 d) (of_Z64 m) Fd NZ OV) as S.
  rewrite Rd, Rm in E. rewrite Sd, Sm in S.
  unfold quot_fl. change fdiv64 with (gdiv prec64 emax64 Hprec64 Hmax64).
  repeat split; assumption.
Qed.

Lemma quot_nonneg : forall d m, (0 <= d <= P53)%Z -> (1 <= m <= P53)%Z -> 0 <= B2R (quot_fl d m).
Proof.
  intros d m Hd Hm. destruct (quot_spec d m Hd Hm) as (_ & E & _). rewrite E.
  apply (rnd_nonneg prec64 emax64 Hprec64).
  assert (1 <= IZR m) by (apply (IZR_le 1); lia). assert (0 <= IZR d) by (apply (IZR_le 0); lia).
  apply Rmult_le_pos; [lra|apply Rlt_le, Rinv_0_lt_compat; lra].
Qed.

(** [d <= k m] with [k] representable: the float is at most [k] *)
Lemma quot_le_k : forall k d m, fmt64 (IZR k) -> (0 <= d <= P53)%Z -> (1 <= m <= P53)%Z -> (d <= k * m)%Z ->
  B2R (quot_fl d m) <= IZR k.
Proof.
  intros k d m Fk Hd Hm H. destruct (quot_spec d m Hd Hm) as (_ & E & _). rewrite E.
  apply (rnd_le_fmt prec64 emax64 Hprec64); [exact Fk|].
  assert (M1 : 1 <= IZR m) by (apply (IZR_le 1); lia).
  apply Rmult_le_reg_r with (IZR m); [lra|]. unfold Rdiv. rewrite Rmult_assoc, Rinv_l, Rmult_1_r by lra.
  rewrite <- mult_IZR. apply IZR_le. exact H.
Qed.

Lemma quot_pos : forall d m, (1 <= d <= P53)%Z -> (1 <= m <= P53)%Z -> u53 <= B2R (quot_fl d m).
Proof.
  intros d m Hd Hm. destruct (quot_spec d m ltac:(lia) Hm) as (_ & E & _). rewrite E.
  apply (rnd_ge_fmt prec64 emax64 Hprec64); [apply fmt_u53|].
  assert (M1 : 1 <= IZR m) by (apply (IZR_le 1); lia).
  assert (M53 : IZR m <= IZR P53) by (apply IZR_le; lia).
  assert (D1 : 1 <= IZR d) by (apply (IZR_le 1); lia).
  pose proof P53_u53 as PU. pose proof u53_pos as U.
  apply Rmult_le_reg_r with (IZR m); [lra|]. unfold Rdiv. rewrite Rmult_assoc, Rinv_l, Rmult_1_r by lra.
  apply Rle_trans with (u53 * IZR P53); [apply Rmult_le_compat_l; lra|lra].
Qed.

(** exactly +0.0 iff the numerator is 0 *)
Lemma quot_zero_iff : forall d m, (0 <= d <= P53)%Z -> (1 <= m <= P53)%Z ->
  quot_fl d m = f64_zero <-> d = 0%Z.
Proof.
  intros d m Hd Hm. destruct (quot_spec d m Hd Hm) as (F & E & S). split.
  - intros Z. destruct (Z.eq_dec d 0) as [D|D]; [exact D|exfalso].
    pose proof (quot_pos d m ltac:(lia) Hm) as P. rewrite Z in P. cbn in P. pose proof u53_pos. lra.
  - intros ->. apply (fl_eq prec64 emax64); [exact F|reflexivity| |rewrite S; reflexivity].
    rewrite E. unfold Rdiv. rewrite Rmult_0_l. rewrite (rnd_0 prec64 emax64). reflexivity.
Qed.

(** exactly 1.0 iff numerator = denominator *)
Lemma quot_one : forall m, (1 <= m <= P53)%Z -> quot_fl m m = f64_one.
Proof.
  intros m Hm. destruct (quot_spec m m ltac:(lia) Hm) as (F & E & S).
  apply (fl_eq prec64 emax64); [exact F|reflexivity| |rewrite S; reflexivity].
  rewrite E. assert (1 <= IZR m) by (apply (IZR_le 1); lia).
  unfold Rdiv. rewrite Rinv_r by lra. rewrite (rnd_fmt prec64 emax64 _ fmt_one).
  unfold f64_one, of_Z64. cbn -[bpow]. unfold B2R. cbn -[bpow]. unfold F2R. cbn. lra.
Qed.

(** rounding is monotone: a larger numerator over the same denominator never gives a smaller float *)
Lemma quot_mono : forall d1 d2 m, (0 <= d1 <= d2)%Z -> (d2 <= P53)%Z -> (1 <= m <= P53)%Z ->
  B2R (quot_fl d1 m) <= B2R (quot_fl d2 m) /\ fle64 (quot_fl d1 m) (quot_fl d2 m) = true.
Proof.
  intros d1 d2 m H12 H2 Hm.
  destruct (quot_spec d1 m ltac:(lia) Hm) as (F1 & E1 & _).
  destruct (quot_spec d2 m ltac:(lia) Hm) as (F2 & E2 & _).
  assert (L : B2R (quot_fl d1 m) <= B2R (quot_fl d2 m)).
  { rewrite E1, E2. apply (rnd_le prec64 emax64 Hprec64).
    assert (M1 : 1 <= IZR m) by (apply (IZR_le 1); lia).
    apply Rmult_le_compat_r; [apply Rlt_le, Rinv_0_lt_compat; lra|apply IZR_le; lia]. }
  split; [exact L|]. unfold fle64. rewrite (Bleb_correct _ _ _ _ F1 F2). apply Rle_bool_true. exact L.
Qed.

(** the float is the correctly rounded quotient, within relative 2^-53 *)
Lemma quot_close : forall d m, (0 <= d <= P53)%Z -> (1 <= m <= P53)%Z ->
  Rabs (B2R (quot_fl d m) - IZR d / IZR m) <= u53 * (IZR d / IZR m).
Proof.
  intros d m Hd Hm. destruct (quot_spec d m Hd Hm) as (_ & E & _). rewrite E.
  destruct (Z.eq_dec d 0) as [->|D].
  - unfold Rdiv. rewrite Rmult_0_l, (rnd_0 prec64 emax64), Rminus_0_r, Rabs_R0. lra.
  - assert (M1 : 1 <= IZR m) by (apply (IZR_le 1); lia).
    assert (M53 : IZR m <= IZR P53) by (apply IZR_le; lia).
    assert (D1 : 1 <= IZR d) by (apply (IZR_le 1); lia).
    pose proof P53_u53 as PU. pose proof u53_pos as U.
    assert (Q : u53 <= IZR d / IZR m).
    { apply Rmult_le_reg_r with (IZR m); [lra|]. unfold Rdiv. rewrite Rmult_assoc, Rinv_l, Rmult_1_r by lra.
      apply Rle_trans with (u53 * IZR P53); [apply Rmult_le_compat_l; lra|lra]. }
    pose proof (rnd_rel prec64 emax64 Hprec64 (IZR d / IZR m)) as RR. rewrite u53_uu in RR.
    rewrite (Rabs_pos_eq (IZR d / IZR m)) in RR by lra. apply RR.
    pose proof NRM_le_u53. lra.
Qed.

(** * order: distinct fractions whose cross sums stay below 2^53 cannot round to the same double *)
Lemma rnd_sep : forall q1 q2, (q1 = 0 \/ u53 <= q1) -> u53 <= q2 -> u53 * (q1 + q2) < q2 - q1 ->
  rnd64 q1 < rnd64 q2.
Proof.
  intros q1 q2 H1 H2 H. pose proof u53_pos as U. pose proof NRM_le_u53 as N.
  assert (A : rnd64 q1 <= q1 * (1 + u53)).
  { destruct H1 as [->|H1]; [rewrite (rnd_0 prec64 emax64); lra|].
    rewrite <- u53_uu. apply (rnd_up prec64 emax64 Hprec64). lra. }
  assert (B : q2 * (1 - u53) <= rnd64 q2).
  { rewrite <- u53_uu. apply (rnd_dn prec64 emax64 Hprec64). lra. }
  lra.
Qed.

Lemma quot_lt : forall d1 m1 d2 m2,
  (0 <= d1)%Z -> (0 <= d2)%Z -> (1 <= m1 <= P53)%Z -> (1 <= m2 <= P53)%Z ->
  (d1 * m2 + d2 * m1 < P53)%Z -> (d1 * m2 < d2 * m1)%Z ->
  B2R (quot_fl d1 m1) < B2R (quot_fl d2 m2).
Proof.
  intros d1 m1 d2 m2 H1 H2 Hm1 Hm2 Hs Hlt.
  assert (B1 : (d1 <= P53)%Z) by nia. assert (B2 : (1 <= d2 <= P53)%Z) by nia.
  destruct (quot_spec d1 m1 ltac:(lia) Hm1) as (_ & E1 & _).
  destruct (quot_spec d2 m2 ltac:(lia) Hm2) as (_ & E2 & _).
  rewrite E1, E2.
  assert (M1 : 1 <= IZR m1) by (apply (IZR_le 1); lia).
  assert (M2 : 1 <= IZR m2) by (apply (IZR_le 1); lia).
  assert (M1' : IZR m1 <= IZR P53) by (apply IZR_le; lia).
  assert (M2' : IZR m2 <= IZR P53) by (apply IZR_le; lia).
  pose proof P53_u53 as PU. pose proof u53_pos as U.
  set (M := IZR m1 * IZR m2). assert (MP : 0 < M) by (unfold M; nra).
  set (q1 := IZR d1 / IZR m1). set (q2 := IZR d2 / IZR m2).
  assert (Q1M : q1 * M = IZR (d1 * m2)) by (unfold q1, M; rewrite mult_IZR; field; lra).
  assert (Q2M : q2 * M = IZR (d2 * m1)) by (unfold q2, M; rewrite mult_IZR; field; lra).
  assert (Dif : 1 <= (q2 - q1) * M).
  { rewrite Rmult_minus_distr_r, Q1M, Q2M, <- minus_IZR. apply (IZR_le 1). lia. }
  assert (Sum : (q1 + q2) * M <= IZR P53 - 1).
  { rewrite Rmult_plus_distr_r, Q1M, Q2M, <- plus_IZR, <- (minus_IZR P53 1). apply IZR_le. lia. }
  apply rnd_sep.
  - destruct (Z.eq_dec d1 0) as [->|D]; [left; unfold q1, Rdiv; ring|right].
    assert (D1 : 1 <= IZR d1) by (apply (IZR_le 1); lia).
    apply Rmult_le_reg_r with (IZR m1); [lra|]. unfold q1, Rdiv. rewrite Rmult_assoc, Rinv_l, Rmult_1_r by lra.
    apply Rle_trans with (u53 * IZR P53); [apply Rmult_le_compat_l; lra|lra].
  - assert (D2 : 1 <= IZR d2) by (apply (IZR_le 1); lia).
    apply Rmult_le_reg_r with (IZR m2); [lra|]. unfold q2, Rdiv. rewrite Rmult_assoc, Rinv_l, Rmult_1_r by lra.
    apply Rle_trans with (u53 * IZR P53); [apply Rmult_le_compat_l; lra|lra].
  - apply Rmult_lt_reg_r with M; [exact MP|].
    assert (u53 * ((q1 + q2) * M) <= u53 * (IZR P53 - 1)) by (apply Rmult_le_compat_l; lra).
    lra.
Qed.

Lemma quot_eq : forall d1 m1 d2 m2,
  (0 <= d1 <= P53)%Z -> (0 <= d2 <= P53)%Z -> (1 <= m1 <= P53)%Z -> (1 <= m2 <= P53)%Z ->
  (d1 * m2 = d2 * m1)%Z -> quot_fl d1 m1 = quot_fl d2 m2.
Proof.
  intros d1 m1 d2 m2 H1 H2 Hm1 Hm2 He.
  destruct (quot_spec d1 m1 H1 Hm1) as (F1 & E1 & S1).
  destruct (quot_spec d2 m2 H2 Hm2) as (F2 & E2 & S2).
  apply (fl_eq prec64 emax64); [exact F1|exact F2| |rewrite S1, S2; reflexivity].
  rewrite E1, E2. f_equal.
  assert (M1 : 1 <= IZR m1) by (apply (IZR_le 1); lia).
  assert (M2 : 1 <= IZR m2) by (apply (IZR_le 1); lia).
  apply Rmult_eq_reg_r with (IZR m1 * IZR m2); [|nra].
  replace (IZR d1 / IZR m1 * (IZR m1 * IZR m2)) with (IZR d1 * IZR m2) by (field; lra).
  replace (IZR d2 / IZR m2 * (IZR m1 * IZR m2)) with (IZR d2 * IZR m1) by (field; lra).
  rewrite <- !mult_IZR. f_equal. exact He.
Qed.

(** the comparison of the two floats IS the comparison of the two fractions *)
Lemma quot_order_exact : forall d1 m1 d2 m2,
  (0 <= d1)%Z -> (0 <= d2)%Z -> (1 <= m1 <= P53)%Z -> (1 <= m2 <= P53)%Z ->
  (d1 * m2 + d2 * m1 < P53)%Z ->
  (flt64 (quot_fl d1 m1) (quot_fl d2 m2) = true <-> (d1 * m2 < d2 * m1)%Z) /\
  (feq64 (quot_fl d1 m1) (quot_fl d2 m2) = true <-> (d1 * m2 = d2 * m1)%Z) /\
  ((d1 * m2 = d2 * m1)%Z -> quot_fl d1 m1 = quot_fl d2 m2).
Proof.
  intros d1 m1 d2 m2 H1 H2 Hm1 Hm2 Hs.
  assert (B1 : (d1 <= P53)%Z) by nia. assert (B2 : (d2 <= P53)%Z) by nia.
  destruct (quot_spec d1 m1 ltac:(lia) Hm1) as (F1 & _ & _).
  destruct (quot_spec d2 m2 ltac:(lia) Hm2) as (F2 & _ & _).
  unfold flt64, feq64. rewrite (Bltb_correct _ _ _ _ F1 F2), (Beqb_correct _ _ _ _ F1 F2).
  assert (EQ : (d1 * m2 = d2 * m1)%Z -> quot_fl d1 m1 = quot_fl d2 m2)
    by (apply quot_eq; lia).
  assert (LTR : (d1 * m2 < d2 * m1)%Z -> B2R (quot_fl d1 m1) < B2R (quot_fl d2 m2))
    by (apply quot_lt; assumption).
  assert (GTR : (d2 * m1 < d1 * m2)%Z -> B2R (quot_fl d2 m2) < B2R (quot_fl d1 m1))
    by (apply quot_lt; try assumption; lia).
  split; [|split; [|exact EQ]].
  - split.
    + intros H. destruct (Rlt_bool_spec (B2R (quot_fl d1 m1)) (B2R (quot_fl d2 m2))) as [Q|Q]; [|discriminate].
      destruct (Z.lt_trichotomy (d1 * m2) (d2 * m1)) as [L|[E|G]]; [exact L|exfalso|exfalso].
      * rewrite (EQ E) in Q. lra.
      * specialize (GTR G). lra.
    + intros L. apply Rlt_bool_true. apply LTR. exact L.
  - split.
    + intros H. destruct (Req_bool_spec (B2R (quot_fl d1 m1)) (B2R (quot_fl d2 m2))) as [Q|Q]; [|discriminate].
      destruct (Z.lt_trichotomy (d1 * m2) (d2 * m1)) as [L|[E|G]]; [exfalso|exact E|exfalso].
      * specialize (LTR L). lra.
      * specialize (GTR G). lra.
    + intros E. rewrite (EQ E). apply Req_bool_true. reflexivity.
Qed.

(** ** the same for values up to 2 (spaces_insert_delete_only): absolute error at most half an ulp = 2^-53 below 2 *)
Local Instance vexp64 : Valid_exp (SpecFloat.fexp prec64 emax64) := fexp_correct prec64 emax64 Hprec64.

Lemma rnd_abs : forall q, (q = 0 \/ u53 <= q) -> q <= 2 -> Rabs (rnd64 q - q) <= u53.
Proof.
  intros q H0 H2. pose proof u53_pos as U. pose proof NRM_le_u53 as N.
  destruct H0 as [->|H0]; [rewrite (rnd_0 prec64 emax64), Rminus_0_r, Rabs_R0; lra|].
  destruct (Rlt_dec q 1) as [L1|G1].
  - pose proof (rnd_rel prec64 emax64 Hprec64 q) as RR. rewrite u53_uu in RR.
    rewrite (Rabs_pos_eq q) in RR by lra. specialize (RR ltac:(lra)).
    eapply Rle_trans; [exact RR|]. rewrite <- (Rmult_1_r u53) at 2. apply Rmult_le_compat_l; lra.
  - destruct (Req_dec q 2) as [->|N2].
    + rewrite (rnd_fmt prec64 emax64 _ fmt_two). replace (2 - 2) with 0 by ring. rewrite Rabs_R0. lra.
    + pose proof (error_le_half_ulp radix2 (SpecFloat.fexp prec64 emax64) (fun z => negb (Z.even z)) q) as E.
      rewrite ulp_neq_0 in E by lra. unfold cexp in E.
      rewrite (mag_unique radix2 q 1) in E.
      * replace (/ 2 * bpow radix2 (SpecFloat.fexp prec64 emax64 1)) with u53 in E; [exact E|].
        change (SpecFloat.fexp prec64 emax64 1) with (-52)%Z. unfold u53.
        change (-52)%Z with (1 + -53)%Z. rewrite bpow_plus. change (bpow radix2 1) with 2. field.
      * rewrite Rabs_pos_eq by lra. change (bpow radix2 (1 - 1)) with 1. change (bpow radix2 1) with 2. lra.
Qed.

Lemma rnd_sep2 : forall q1 q2, (q1 = 0 \/ u53 <= q1) -> (q2 = 0 \/ u53 <= q2) -> q1 <= 2 -> q2 <= 2 ->
  2 * u53 < q2 - q1 -> rnd64 q1 < rnd64 q2.
Proof.
  intros q1 q2 A1 A2 B1 B2 H.
  pose proof (Rabs_le_inv _ _ (rnd_abs q1 A1 B1)). pose proof (Rabs_le_inv _ _ (rnd_abs q2 A2 B2)). lra.
Qed.

Lemma quot_ge_u53 : forall d m, (0 <= d)%Z -> (1 <= m <= P53)%Z -> IZR d / IZR m = 0 \/ u53 <= IZR d / IZR m.
Proof.
  intros d m Hd Hm. destruct (Z.eq_dec d 0) as [->|D]; [left; unfold Rdiv; ring|right].
  assert (M1 : 1 <= IZR m) by (apply (IZR_le 1); lia).
  assert (M53 : IZR m <= IZR P53) by (apply IZR_le; lia).
  assert (D1 : 1 <= IZR d) by (apply (IZR_le 1); lia).
  pose proof P53_u53 as PU. pose proof u53_pos as U.
  apply Rmult_le_reg_r with (IZR m); [lra|]. unfold Rdiv. rewrite Rmult_assoc, Rinv_l, Rmult_1_r by lra.
  apply Rle_trans with (u53 * IZR P53); [apply Rmult_le_compat_l; lra|lra].
Qed.

Lemma quot_lt2 : forall d1 m1 d2 m2,
  (0 <= d1 <= 2 * m1)%Z -> (0 <= d2 <= 2 * m2)%Z -> (1 <= m1)%Z -> (1 <= m2)%Z ->
  (m1 * m2 < 2 ^ 52)%Z -> (d1 * m2 < d2 * m1)%Z ->
  B2R (quot_fl d1 m1) < B2R (quot_fl d2 m2).
Proof.
  intros d1 m1 d2 m2 H1 H2 Hm1 Hm2 Hs Hlt.
  assert (B1 : (m1 <= P53 /\ d1 <= P53)%Z) by (unfold P53; nia).
  assert (B2 : (m2 <= P53 /\ d2 <= P53)%Z) by (unfold P53; nia).
  destruct (quot_spec d1 m1 ltac:(lia) ltac:(lia)) as (_ & E1 & _).
  destruct (quot_spec d2 m2 ltac:(lia) ltac:(lia)) as (_ & E2 & _).
  rewrite E1, E2.
  assert (M1 : 1 <= IZR m1) by (apply (IZR_le 1); lia).
  assert (M2 : 1 <= IZR m2) by (apply (IZR_le 1); lia).
  pose proof u53_pos as U.
  set (M := IZR m1 * IZR m2). assert (MP : 0 < M) by (unfold M; nra).
  set (q1 := IZR d1 / IZR m1). set (q2 := IZR d2 / IZR m2).
  assert (Q1M : q1 * M = IZR (d1 * m2)) by (unfold q1, M; rewrite mult_IZR; field; lra).
  assert (Q2M : q2 * M = IZR (d2 * m1)) by (unfold q2, M; rewrite mult_IZR; field; lra).
  assert (Dif : 1 <= (q2 - q1) * M).
  { rewrite Rmult_minus_distr_r, Q1M, Q2M, <- minus_IZR. apply (IZR_le 1). lia. }
  assert (MB : M * (2 * u53) < 1).
  { unfold M. rewrite <- mult_IZR.
    assert (IZR (m1 * m2) <= IZR (2 ^ 52 - 1)) by (apply IZR_le; lia).
    rewrite minus_IZR, (IZR_2p 52) in H by lia.
    assert (E : bpow radix2 52 * (2 * u53) = 1).
    { unfold u53. change 2 with (bpow radix2 1) at 1. rewrite <- !bpow_plus. reflexivity. }
    assert (IZR (m1 * m2) * (2 * u53) <= (bpow radix2 52 - 1) * (2 * u53)) by (apply Rmult_le_compat_r; lra).
    lra. }
  assert (Le2 : forall d m, (0 <= d <= 2 * m)%Z -> (1 <= m)%Z -> IZR d / IZR m <= 2).
  { intros d m Hd Hm. assert (1 <= IZR m) by (apply (IZR_le 1); lia).
    apply Rmult_le_reg_r with (IZR m); [lra|]. unfold Rdiv. rewrite Rmult_assoc, Rinv_l, Rmult_1_r by lra.
    rewrite <- (mult_IZR 2). apply IZR_le. lia. }
  apply rnd_sep2.
  - apply quot_ge_u53; lia.
  - apply quot_ge_u53; lia.
  - apply Le2; lia.
  - apply Le2; lia.
  - apply Rmult_lt_reg_r with M; [exact MP|]. fold q1 q2. lra.
Qed.

Lemma order_core : forall (x y : f64) (lt eq : Prop),
  Fin64 x -> Fin64 y -> (lt \/ eq \/ ~ lt /\ ~ eq) ->
  (lt -> B2R x < B2R y) -> (eq -> x = y) -> (~ lt -> ~ eq -> B2R y < B2R x) ->
  (flt64 x y = true <-> lt) /\ (feq64 x y = true <-> eq) /\ (eq -> x = y).
Proof.
  intros x y lt eq F1 F2 T LTR EQ GTR.
  unfold flt64, feq64. rewrite (Bltb_correct _ _ _ _ F1 F2), (Beqb_correct _ _ _ _ F1 F2).
  split; [|split; [|exact EQ]].
  - split.
    + intros H. destruct (Rlt_bool_spec (B2R x) (B2R y)) as [Q|Q]; [|discriminate].
      destruct T as [L|[E|[NL NE]]]; [exact L|exfalso|exfalso].
      * rewrite (EQ E) in Q. lra.
      * specialize (GTR NL NE). lra.
    + intros L. apply Rlt_bool_true. apply LTR. exact L.
  - split.
    + intros H. destruct (Req_bool_spec (B2R x) (B2R y)) as [Q|Q]; [|discriminate].
      destruct T as [L|[E|[NL NE]]]; [exfalso|exact E|exfalso].
      * specialize (LTR L). lra.
      * specialize (GTR NL NE). lra.
    + intros E. rewrite (EQ E). apply Req_bool_true. reflexivity.
Qed.

Lemma quot_order_exact2 : forall d1 m1 d2 m2,
  (0 <= d1 <= 2 * m1)%Z -> (0 <= d2 <= 2 * m2)%Z -> (1 <= m1)%Z -> (1 <= m2)%Z -> (m1 * m2 < 2 ^ 52)%Z ->
  (flt64 (quot_fl d1 m1) (quot_fl d2 m2) = true <-> (d1 * m2 < d2 * m1)%Z) /\
  (feq64 (quot_fl d1 m1) (quot_fl d2 m2) = true <-> (d1 * m2 = d2 * m1)%Z) /\
  ((d1 * m2 = d2 * m1)%Z -> quot_fl d1 m1 = quot_fl d2 m2).
Proof.
  intros d1 m1 d2 m2 H1 H2 Hm1 Hm2 Hs.
  assert (B1 : (m1 <= P53 /\ d1 <= P53)%Z) by (unfold P53; nia).
  assert (B2 : (m2 <= P53 /\ d2 <= P53)%Z) by (unfold P53; nia).
  destruct (quot_spec d1 m1 ltac:(lia) ltac:(lia)) as (F1 & _ & _).
  destruct (quot_spec d2 m2 ltac:(lia) ltac:(lia)) as (F2 & _ & _).
  apply order_core; try assumption.
  - lia.
  - apply quot_lt2; assumption.
  - apply quot_eq; lia.
  - intros NL NE. apply quot_lt2; try assumption; lia.
Qed.

(** * the model functions *)
(** the premise of the float theorems: [usize as f64] is exact (no text has 2^53 characters) *)
Definition len_ok (a b : list cluster) : Prop := (Z.of_nat (length a) + Z.of_nat (length b) <= P53)%Z.

Lemma q_fl_quot : forall q, q_fl q = quot_fl (Qnum q) (Zpos (Qden q)).
Proof. reflexivity. Qed.

Lemma Q2R_div : forall q, Q2R q = IZR (Qnum q) / IZR (Zpos (Qden q)).
Proof. reflexivity. Qed.

Lemma norm_den_bounds : forall nm a b, len_ok a b -> (1 <= Zpos (norm_den nm a b) <= P53)%Z.
Proof.
  intros nm a b H. unfold len_ok, P53 in *. destruct nm; [rewrite norm_den_Z|cbn [norm_den]]; lia.
Qed.
Lemma pnorm_den_bounds : forall nm a b, len_ok a b -> (1 <= Zpos (pnorm_den nm a) <= P53)%Z.
Proof.
  intros nm a b H. unfold len_ok, P53 in *. unfold pnorm_den. destruct nm; [rewrite Zpos_of_nat by lia|]; lia.
Qed.
Lemma dist_bounds : forall fl a b, len_ok a b -> (0 <= Z.of_nat (dist fl a b) <= P53)%Z.
Proof. intros fl a b H. unfold len_ok in H. pose proof (dist_le_sum fl a b). lia. Qed.
Lemma pdist_bounds : forall fl a b, len_ok a b -> (0 <= Z.of_nat (prefix_dist fl a b) <= P53)%Z.
Proof. intros fl a b H. unfold len_ok in H. pose proof (prefix_dist_le fl a b). lia. Qed.

(** range: finite, in [0,2]; in [0,1] when whitespace may be substituted; prefix variant in [0,1] *)
Lemma norm_fl_range_l : forall fl a b, len_ok a b ->
  is_finite (distance_fl fl true a b) = true /\
  0 <= B2R (distance_fl fl true a b) <= 2 /\
  (sid fl = false -> B2R (distance_fl fl true a b) <= 1 /\ fle64 (distance_fl fl true a b) f64_one = true) /\
  is_finite (prefix_distance_fl fl true a b) = true /\
  0 <= B2R (prefix_distance_fl fl true a b) <= 1.
Proof.
  intros fl a b H. unfold distance_fl, prefix_distance_fl. rewrite !q_fl_quot.
  unfold distance, prefix_distance. cbn [Qnum Qden].
  pose proof (norm_den_bounds true a b H) as M. pose proof (dist_bounds fl a b H) as D.
  pose proof (pnorm_den_bounds true a b H) as PM. pose proof (pdist_bounds fl a b H) as PD.
  destruct (quot_spec _ _ D M) as (F & _ & _). destruct (quot_spec _ _ PD PM) as (PF & _ & _).
  split; [exact F|]. split; [split; [apply quot_nonneg; assumption|]|].
  - apply (quot_le_k 2); [apply fmt_two|assumption|assumption|].
    rewrite norm_den_Z. pose proof (dist_le_sum fl a b). lia.
  - split; [|split; [exact PF|split; [apply quot_nonneg; assumption|]]].
    + intros Hs.
      assert (L : B2R (quot_fl (Z.of_nat (dist fl a b)) (Zpos (norm_den true a b))) <= 1).
      { apply (quot_le_k 1); [apply fmt_one|assumption|assumption|].
        rewrite norm_den_Z. pose proof (dist_le_max fl a b Hs). lia. }
      split; [exact L|]. unfold fle64. rewrite (Bleb_correct _ _ _ f64_one F (eq_refl true)). apply Rle_bool_true.
      replace (B2R f64_one) with 1; [exact L|].
      unfold f64_one, of_Z64. cbn -[bpow]. unfold B2R. cbn -[bpow]. unfold F2R. cbn. lra.
    + apply (quot_le_k 1); [apply fmt_one|assumption|assumption|].
      unfold pnorm_den. rewrite Zpos_of_nat by lia. pose proof (prefix_dist_le fl a b). lia.
Qed.

(** exactly +0.0 iff the texts are equal (normalised or not; two empty texts included) *)
Lemma norm_fl_zero_l : forall fl nm a b, len_ok a b -> (distance_fl fl nm a b = f64_zero <-> a = b).
Proof.
  intros fl nm a b H. unfold distance_fl. rewrite q_fl_quot. unfold distance. cbn [Qnum Qden].
  rewrite (quot_zero_iff _ _ (dist_bounds fl a b H) (norm_den_bounds nm a b H)).
  rewrite <- (dist_zero_iff fl a b). lia.
Qed.

(** exactly 1.0 when the distance equals the longer length *)
Lemma norm_fl_one_l : forall fl a b, len_ok a b -> (0 < Nat.max (length a) (length b))%nat ->
  dist fl a b = Nat.max (length a) (length b) -> distance_fl fl true a b = f64_one.
Proof.
  intros fl a b H Hp Hd. unfold distance_fl. rewrite q_fl_quot. unfold distance. cbn [Qnum Qden].
  pose proof (norm_den_bounds true a b H) as M. rewrite norm_den_Z in *.
  replace (Z.of_nat (dist fl a b)) with (Z.of_nat (Nat.max (Nat.max (length a) (length b)) 1)) by lia.
  apply quot_one. exact M.
Qed.

(** monotone: over the same divisor a larger distance never gives a smaller float *)
Lemma norm_fl_mono_l : forall fl fl' nm a b a' b', len_ok a b -> len_ok a' b' ->
  norm_den nm a b = norm_den nm a' b' -> (dist fl a b <= dist fl' a' b')%nat ->
  B2R (distance_fl fl nm a b) <= B2R (distance_fl fl' nm a' b') /\
  fle64 (distance_fl fl nm a b) (distance_fl fl' nm a' b') = true.
Proof.
  intros fl fl' nm a b a' b' H H' E L. unfold distance_fl. rewrite !q_fl_quot. unfold distance. cbn [Qnum Qden].
  rewrite E. apply quot_mono; [lia|apply (dist_bounds fl' a' b' H')|apply (norm_den_bounds nm a' b' H')].
Qed.

(** the float is the correctly rounded value of the model's rational, within relative 2^-53 *)
Lemma q_fl_correct : forall q, (0 <= Qnum q <= P53)%Z -> (Zpos (Qden q) <= P53)%Z ->
  B2R (q_fl q) = rnd64 (Q2R q) /\ Rabs (B2R (q_fl q) - Q2R q) <= u53 * Q2R q.
Proof.
  intros q Hn Hd. rewrite q_fl_quot, Q2R_div. split.
  - apply quot_spec; lia.
  - apply quot_close; lia.
Qed.
Lemma norm_fl_correct_l : forall fl nm a b, len_ok a b ->
  (B2R (distance_fl fl nm a b) = rnd64 (Q2R (distance fl nm a b)) /\
   Rabs (B2R (distance_fl fl nm a b) - Q2R (distance fl nm a b)) <= u53 * Q2R (distance fl nm a b)) /\
  (B2R (prefix_distance_fl fl nm a b) = rnd64 (Q2R (prefix_distance fl nm a b)) /\
   Rabs (B2R (prefix_distance_fl fl nm a b) - Q2R (prefix_distance fl nm a b)) <= u53 * Q2R (prefix_distance fl nm a b)).
Proof.
  intros fl nm a b H. split; apply q_fl_correct; unfold distance, prefix_distance; cbn [Qnum Qden].
  - apply dist_bounds; exact H.
  - apply (norm_den_bounds nm a b H).
  - apply pdist_bounds; exact H.
  - apply (pnorm_den_bounds nm a b H).
Qed.

(** order on fractions = order on their floats *)
Lemma q_fl_order_exact : forall q1 q2 : Q,
  (0 <= Qnum q1)%Z -> (0 <= Qnum q2)%Z -> (Zpos (Qden q1) <= P53)%Z -> (Zpos (Qden q2) <= P53)%Z ->
  (Qnum q1 * Zpos (Qden q2) + Qnum q2 * Zpos (Qden q1) < P53)%Z ->
  (flt64 (q_fl q1) (q_fl q2) = true <-> (q1 < q2)%Q) /\
  (feq64 (q_fl q1) (q_fl q2) = true <-> (q1 == q2)%Q) /\
  ((q1 == q2)%Q -> q_fl q1 = q_fl q2).
Proof.
  intros q1 q2 N1 N2 D1 D2 S. rewrite !q_fl_quot. unfold Qlt, Qeq.
  apply quot_order_exact; try assumption; lia.
Qed.

Definition short (a : list cluster) : Prop := (Z.of_nat (length a) < 2 ^ 26)%Z.
Definition short25 (a : list cluster) : Prop := (Z.of_nat (length a) <= 2 ^ 25)%Z.

Lemma cross_bound : forall d1 m1 d2 m2 k B,
  (0 <= d1 <= k * m1)%Z -> (0 <= d2 <= k * m2)%Z -> (1 <= m1 <= B)%Z -> (1 <= m2 <= B)%Z -> (0 < k)%Z ->
  (2 * k * B * B < P53)%Z -> (d1 * m2 + d2 * m1 < P53)%Z.
Proof.
  intros d1 m1 d2 m2 k B H1 H2 M1 M2 K HB.
  assert (A1 : (d1 * m2 <= (k * m1) * m2)%Z) by (apply Z.mul_le_mono_nonneg_r; lia).
  assert (A2 : (d2 * m1 <= (k * m2) * m1)%Z) by (apply Z.mul_le_mono_nonneg_r; lia).
  assert (A3 : (m1 * m2 <= B * B)%Z) by (apply Z.mul_le_mono_nonneg; lia).
  assert (A4 : (k * (m1 * m2) <= k * (B * B))%Z) by (apply Z.mul_le_mono_nonneg_l; lia).
  lia.
Qed.

Lemma norm_fl_order_exact_l : forall fl fl' nm a b a' b',
  sid fl = false -> sid fl' = false -> short a -> short b -> short a' -> short b' ->
  let x := distance fl nm a b in let y := distance fl' nm a' b' in
  (flt64 (distance_fl fl nm a b) (distance_fl fl' nm a' b') = true <-> (x < y)%Q) /\
  (feq64 (distance_fl fl nm a b) (distance_fl fl' nm a' b') = true <-> (x == y)%Q) /\
  ((x == y)%Q -> distance_fl fl nm a b = distance_fl fl' nm a' b').
Proof.
  intros fl fl' nm a b a' b' Hs Hs' Sa Sb Sa' Sb' x y. unfold short in *.
  pose proof (dist_le_max fl a b Hs) as L. pose proof (dist_le_max fl' a' b' Hs') as L'.
  unfold distance_fl. fold x y. apply q_fl_order_exact; unfold x, y, distance; cbn [Qnum Qden]; try lia.
  - destruct nm; [rewrite norm_den_Z|cbn [norm_den]]; unfold P53; lia.
  - destruct nm; [rewrite norm_den_Z|cbn [norm_den]]; unfold P53; lia.
  - destruct nm.
    + rewrite !norm_den_Z.
      apply (cross_bound _ _ _ _ 1 (2 ^ 26 - 1)); unfold P53; try lia.
    + cbn [norm_den]. unfold P53. lia.
Qed.

Lemma norm_fl_order_exact_sid_l : forall fl fl' nm a b a' b',
  short25 a -> short25 b -> short25 a' -> short25 b' ->
  let x := distance fl nm a b in let y := distance fl' nm a' b' in
  (flt64 (distance_fl fl nm a b) (distance_fl fl' nm a' b') = true <-> (x < y)%Q) /\
  (feq64 (distance_fl fl nm a b) (distance_fl fl' nm a' b') = true <-> (x == y)%Q) /\
  ((x == y)%Q -> distance_fl fl nm a b = distance_fl fl' nm a' b').
Proof.
  intros fl fl' nm a b a' b' Sa Sb Sa' Sb' x y. unfold short25 in *.
  pose proof (dist_le_sum fl a b) as L. pose proof (dist_le_sum fl' a' b') as L'.
  unfold distance_fl. fold x y. apply q_fl_order_exact; unfold x, y, distance; cbn [Qnum Qden]; try lia.
  - destruct nm; [rewrite norm_den_Z|cbn [norm_den]]; unfold P53; lia.
  - destruct nm; [rewrite norm_den_Z|cbn [norm_den]]; unfold P53; lia.
  - destruct nm.
    + rewrite !norm_den_Z.
      apply (cross_bound _ _ _ _ 2 (2 ^ 25)); unfold P53; try lia.
    + cbn [norm_den]. unfold P53. lia.
Qed.

(** every flag combination, texts shorter than 2^26 characters *)
Lemma norm_fl_order_exact_all_l : forall fl fl' nm a b a' b',
  short a -> short b -> short a' -> short b' ->
  let x := distance fl nm a b in let y := distance fl' nm a' b' in
  (flt64 (distance_fl fl nm a b) (distance_fl fl' nm a' b') = true <-> (x < y)%Q) /\
  (feq64 (distance_fl fl nm a b) (distance_fl fl' nm a' b') = true <-> (x == y)%Q) /\
  ((x == y)%Q -> distance_fl fl nm a b = distance_fl fl' nm a' b').
Proof.
  intros fl fl' nm a b a' b' Sa Sb Sa' Sb' x y. unfold short in *.
  pose proof (dist_le_sum fl a b) as L. pose proof (dist_le_sum fl' a' b') as L'.
  unfold distance_fl. rewrite !q_fl_quot. unfold x, y, Qlt, Qeq, distance. cbn [Qnum Qden].
  destruct nm.
  - rewrite !norm_den_Z. apply quot_order_exact2; try lia.
    apply Z.le_lt_trans with ((2 ^ 26 - 1) * (2 ^ 26 - 1))%Z; [apply Z.mul_le_mono_nonneg; lia|lia].
  - cbn [norm_den]. apply quot_order_exact; unfold P53; lia.
Qed.

(** [distances]: Err exactly on a length mismatch, else the float distance element-wise *)
Lemma distances_fl_l : forall fl nm la lb,
  (length la <> length lb -> distances_fl fl nm la lb = None) /\
  (length la = length lb ->
   distances_fl fl nm la lb = Some (map (fun p => distance_fl fl nm (fst p) (snd p)) (zip la lb))).
Proof.
  intros fl nm la lb. unfold distances_fl, distances. split; intros H.
  - apply Nat.eqb_neq in H. rewrite H. reflexivity.
  - apply Nat.eqb_eq in H. rewrite H. cbn [option_map]. rewrite map_map. reflexivity.
Qed.

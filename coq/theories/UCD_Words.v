(** Proofs about the word scanner of [text::split_words] ([UCD_Model.scan] / [word_parts]) and about
    [split_by].  Main results: [word_parts_eq] (the regex matches are exactly the maximal [\w]-runs that
    consist of class characters), [word_runs_iff] (what a maximal [\w]-run is), [word_runs_sorted]. *)
From TU Require Import Base UCD_Model UCD_Ranges.
From Coq Require Import Lia Sorting.Sorted.
Open Scope N_scope.

(** * Table facts: [\w] = class + Nd, disjoint *)
Definition five : list rset := [re_alphabetic; re_mark; re_decimal_number; re_connector_punctuation; re_join_control].

Lemma perl_word_sub : subset_any re_perl_word five 3000 = true.
Proof. vm_compute. reflexivity. Qed.
Lemma five_sub_word : forallb (fun t => subset_any t [re_perl_word] 3000) five = true.
Proof. vm_compute. reflexivity. Qed.
Lemma nd_disjoint : forallb (fun t => disjoint re_decimal_number t)
                      [re_alphabetic; re_mark; re_connector_punctuation; re_join_control] = true.
Proof. vm_compute. reflexivity. Qed.

Definition re_nd (c : N) : bool := rmem re_nd_t c.

Lemma re_word_union c : re_word c = wclass c || re_nd c.
Proof.
  unfold re_word, wclass, re_nd.
  rewrite re_word_t_spec, re_alphabetic_t_spec, re_mark_t_spec, re_pc_t_spec, re_jc_t_spec, re_nd_t_spec.
  destruct (in_ranges re_perl_word c) eqn:E.
  - pose proof (subset_any_sound _ _ _ c perl_word_sub E) as H. unfold in_any, five in H. cbn [existsb] in H.
    rewrite orb_false_r in H. symmetry.
    destruct (in_ranges re_alphabetic c), (in_ranges re_mark c), (in_ranges re_decimal_number c),
      (in_ranges re_connector_punctuation c), (in_ranges re_join_control c); try reflexivity; discriminate.
  - pose proof five_sub_word as F. unfold five in F. cbn [forallb] in F.
    repeat (apply andb_true_iff in F as [?F F]).
    assert (G : forall t, subset_any t [re_perl_word] 3000 = true -> in_ranges t c = false).
    { intros t Ht. destruct (in_ranges t c) eqn:Et; [|reflexivity].
      pose proof (subset_any_sound _ _ _ c Ht Et) as H. unfold in_any in H. cbn [existsb] in H.
      rewrite orb_false_r in H. congruence. }
    rewrite (G _ F0), (G _ F1), (G _ F2), (G _ F3), (G _ F4). reflexivity.
Qed.

Lemma wclass_word c : wclass c = true -> re_word c = true.
Proof. intros H. rewrite re_word_union, H. reflexivity. Qed.

Lemma nd_not_class c : re_nd c = true -> wclass c = false.
Proof.
  unfold re_nd, wclass. rewrite re_nd_t_spec, re_alphabetic_t_spec, re_mark_t_spec, re_pc_t_spec, re_jc_t_spec.
  intros H. pose proof nd_disjoint as D. cbn [forallb] in D. repeat (apply andb_true_iff in D as [?D D]).
  rewrite (disjoint_sound _ _ c D0 H), (disjoint_sound _ _ c D1 H), (disjoint_sound _ _ c D2 H),
    (disjoint_sound _ _ c D3 H). reflexivity.
Qed.

(** * [span] *)
Lemma span_spec {A} (p : A -> bool) l : forall a b, span p l = (a, b) ->
  l = a ++ b /\ forallb p a = true /\ match b with [] => True | x :: _ => p x = false end.
Proof.
  induction l as [|x r IH]; intros a b H.
  - cbn [span] in H. injection H as <- <-. repeat split.
  - cbn [span] in H. destruct (p x) eqn:E.
    + destruct (span p r) as [a' b'] eqn:S. injection H as <- <-. destruct (IH a' b' eq_refl) as (H1 & H2 & H3).
      split; [cbn [app]; f_equal; exact H1|]. split; [cbn [forallb]; rewrite E, H2; reflexivity|exact H3].
    + injection H as <- <-. repeat split. exact E.
Qed.

Lemma span_app {A} (p : A -> bool) u : forall r, forallb p u = true ->
  match r with [] => True | x :: _ => p x = false end -> span p (u ++ r) = (u, r).
Proof.
  induction u as [|x u IH]; intros r Hu Hr.
  - cbn [app]. destruct r as [|y r]; [reflexivity|]. cbn [span]. rewrite Hr. reflexivity.
  - cbn [forallb] in Hu. apply andb_true_iff in Hu as [Hx Hu]. cbn [app span]. rewrite Hx, (IH r Hu Hr). reflexivity.
Qed.

(** two maximal prefixes of the same list coincide *)
Lemma span_unique {A} (p : A -> bool) a : forall b pa pb,
  forallb p a = true -> forallb p b = true ->
  match pa with [] => True | x :: _ => p x = false end ->
  match pb with [] => True | x :: _ => p x = false end ->
  a ++ pa = b ++ pb -> a = b /\ pa = pb.
Proof.
  intros b pa pb Ha Hb Hpa Hpb E.
  pose proof (span_app p a pa Ha Hpa) as S1. pose proof (span_app p b pb Hb Hpb) as S2.
  rewrite E in S1. rewrite S1 in S2. injection S2 as -> ->. split; reflexivity.
Qed.

(** * [longest_end] *)
Lemma is_w_some c : is_w (Some c) = re_word c.
Proof. reflexivity. Qed.

Lemma longest_end_full run : forall prev after,
  re_word prev = true -> forallb re_word run = true -> is_w after = false ->
  longest_end prev run after = Some (length run).
Proof.
  induction run as [|c run IH]; intros prev after Hp Hr Ha.
  - cbn [longest_end length]. unfold wb. rewrite is_w_some, Hp, Ha. reflexivity.
  - cbn [forallb] in Hr. apply andb_true_iff in Hr as [Hc Hr]. cbn [longest_end length].
    rewrite (IH c after Hc Hr Ha). reflexivity.
Qed.

Lemma longest_end_none run : forall prev after,
  re_word prev = true -> forallb re_word run = true -> is_w after = true ->
  longest_end prev run after = None.
Proof.
  induction run as [|c run IH]; intros prev after Hp Hr Ha.
  - cbn [longest_end]. unfold wb. rewrite is_w_some, Hp, Ha. reflexivity.
  - cbn [forallb] in Hr. apply andb_true_iff in Hr as [Hc Hr]. cbn [longest_end].
    rewrite (IH c after Hc Hr Ha). unfold wb. rewrite !is_w_some, Hp, Hc. reflexivity.
Qed.

(** * [scan] over segments *)
(** the last character read *)
Definition lastp (prev : option N) (u : list N) : option N := fold_left (fun _ x => Some x) u prev.
Lemma lastp_app prev u v : lastp prev (u ++ v) = lastp (lastp prev u) v.
Proof. unfold lastp. apply fold_left_app. Qed.

Lemma scan_skip u : forall pos prev r,
  scan pos prev (u ++ r) (length u) = scan (pos + length u)%nat (lastp prev u) r O.
Proof.
  induction u as [|c u IH]; intros pos prev r.
  - cbn [app length lastp fold_left]. rewrite Nat.add_0_r. reflexivity.
  - cbn [app length scan]. rewrite IH. cbn [lastp fold_left]. f_equal. lia.
Qed.

Lemma scan_inside u : forall pos prev r,
  is_w prev = true -> forallb re_word u = true ->
  scan pos prev (u ++ r) O = scan (pos + length u)%nat (lastp prev u) r O.
Proof.
  induction u as [|c u IH]; intros pos prev r Hp Hu.
  - cbn [app length lastp fold_left]. rewrite Nat.add_0_r. reflexivity.
  - cbn [forallb] in Hu. apply andb_true_iff in Hu as [Hc Hu]. cbn [app length scan].
    unfold wb at 1. rewrite Hp, is_w_some, Hc. cbn [xorb andb].
    rewrite (IH (S pos) (Some c) r Hc Hu). cbn [lastp fold_left]. f_equal. lia.
Qed.

Lemma scan_nonword pos prev c r : re_word c = false -> scan pos prev (c :: r) O = scan (S pos) (Some c) r O.
Proof.
  intros H. cbn [scan]. destruct (wclass c) eqn:E; [rewrite (wclass_word c E) in H; discriminate|].
  rewrite andb_false_r. reflexivity.
Qed.

(** first character of [u] that fails [p] *)
Lemma forallb_false_split {A} (p : A -> bool) u : forallb p u = false ->
  exists a x b, u = a ++ x :: b /\ forallb p a = true /\ p x = false.
Proof.
  induction u as [|y u IH]; [discriminate|]. cbn [forallb]. destruct (p y) eqn:E.
  - cbn [andb]. intros H. destruct (IH H) as (a & x & b & -> & Ha & Hx). exists (y :: a), x, b.
    repeat split; [cbn [forallb]; rewrite E, Ha; reflexivity|exact Hx].
  - intros _. exists [], y, u. repeat split. exact E.
Qed.

Lemma forallb_app_iff {A} (p : A -> bool) a b : forallb p (a ++ b) = forallb p a && forallb p b.
Proof. apply forallb_app. Qed.

Lemma scan_run c u r pos prev :
  is_w prev = false -> forallb re_word (c :: u) = true -> is_w (hd_error r) = false ->
  scan pos prev ((c :: u) ++ r) O
  = (if forallb wclass (c :: u) then [(pos, c :: u)] else [])
    ++ scan (pos + length (c :: u))%nat (lastp prev (c :: u)) r O.
Proof.
  intros Hp Hu Hr. cbn [forallb] in Hu. apply andb_true_iff in Hu as [Hc Hu].
  assert (Hr' : match r with [] => True | x :: _ => wclass x = false end).
  { destruct r as [|x r]; [exact Logic.I|]. cbn [hd_error is_w] in Hr. destruct (wclass x) eqn:E; [|reflexivity].
    rewrite (wclass_word x E) in Hr. discriminate. }
  assert (Hins : scan (S pos) (Some c) (u ++ r) O = scan (pos + length (c :: u))%nat (lastp prev (c :: u)) r O).
  { rewrite (scan_inside u (S pos) (Some c) r Hc Hu). cbn [length lastp fold_left]. f_equal. lia. }
  cbn [app scan]. unfold wb at 1. rewrite Hp, is_w_some, Hc. cbn [xorb andb].
  destruct (wclass c) eqn:Ec.
  - destruct (forallb wclass u) eqn:Eu.
    + cbn [forallb]. rewrite Ec, Eu. cbn [andb].
      rewrite (span_app wclass u r Eu Hr'). rewrite (longest_end_full u c (hd_error r) Hc Hu Hr).
      rewrite firstn_all. cbn [app]. f_equal. rewrite scan_skip. cbn [length lastp fold_left]. f_equal. lia.
    + cbn [forallb]. rewrite Ec, Eu. cbn [andb app].
      destruct (forallb_false_split wclass u Eu) as (a & x & b & -> & Ha & Hx).
      rewrite <- app_assoc. cbn [app].
      rewrite (span_app wclass a (x :: b ++ r) Ha Hx). cbn [hd_error].
      rewrite forallb_app_iff in Hu. apply andb_true_iff in Hu as [Hua Hub]. cbn [forallb] in Hub.
      apply andb_true_iff in Hub as [Hwx Hub].
      rewrite (longest_end_none a c (Some x) Hc Hua Hwx).
      change (x :: b ++ r) with ((x :: b) ++ r). rewrite app_assoc. exact Hins.
  - cbn [forallb]. rewrite Ec. cbn [andb app]. exact Hins.
Qed.

(** * [wruns] over segments *)
Lemma wruns_run u : forall pos cur r, forallb re_word u = true ->
  wruns pos cur (u ++ r) = wruns (pos + length u)%nat (rev u ++ cur) r.
Proof.
  induction u as [|c u IH]; intros pos cur r Hu.
  - cbn [app length rev]. rewrite Nat.add_0_r. reflexivity.
  - cbn [forallb] in Hu. apply andb_true_iff in Hu as [Hc Hu]. cbn [app wruns]. rewrite Hc.
    rewrite (IH (S pos) (c :: cur) r Hu). cbn [length rev]. rewrite <- app_assoc. cbn [app]. f_equal. lia.
Qed.

Lemma wruns_nonword pos c r : re_word c = false -> wruns pos [] (c :: r) = wruns (S pos) [] r.
Proof. intros H. cbn [wruns]. rewrite H. reflexivity. Qed.

Lemma wruns_seg c u r pos :
  forallb re_word (c :: u) = true -> is_w (hd_error r) = false ->
  wruns pos [] ((c :: u) ++ r) = (pos, c :: u) :: wruns (pos + length (c :: u))%nat [] r.
Proof.
  intros Hu Hr. rewrite (wruns_run (c :: u) pos [] r Hu). rewrite app_nil_r.
  assert (E : emit_run (pos + length (c :: u)) (rev (c :: u)) = [(pos, c :: u)]).
  { unfold emit_run. destruct (rev (c :: u)) as [|y l] eqn:R.
    - apply (f_equal (@length N)) in R. rewrite rev_length in R. discriminate.
    - rewrite <- R, rev_length, rev_involutive. f_equal. f_equal. lia. }
  destruct r as [|x r].
  - cbn [wruns]. exact E.
  - cbn [hd_error is_w] in Hr. cbn [wruns]. rewrite Hr, E. reflexivity.
Qed.

(** * [word_parts] = the class-only maximal [\w]-runs *)
Definition cls (p : nat * str) : bool := forallb wclass (snd p).

Lemma scan_wruns n : forall w pos prev, (length w <= n)%nat ->
  is_w prev = false \/ is_w (hd_error w) = false ->
  scan pos prev w O = filter cls (wruns pos [] w).
Proof.
  induction n as [|n IH]; intros w pos prev Hn Hctx.
  - destruct w; [reflexivity|cbn [length] in Hn; lia].
  - destruct w as [|c w]; [reflexivity|]. destruct (re_word c) eqn:Ec.
    + assert (Hp : is_w prev = false).
      { destruct Hctx as [H|H]; [exact H|]. cbn [hd_error is_w] in H. congruence. }
      destruct (span re_word w) as [u r] eqn:Sp. destruct (span_spec re_word w u r Sp) as (-> & Hu & Hr).
      assert (Hr' : is_w (hd_error r) = false). { destruct r as [|x r]; [reflexivity|exact Hr]. }
      assert (Hcu : forallb re_word (c :: u) = true). { cbn [forallb]. rewrite Ec, Hu. reflexivity. }
      change (c :: u ++ r) with ((c :: u) ++ r).
      rewrite (scan_run c u r pos prev Hp Hcu Hr'), (wruns_seg c u r pos Hcu Hr').
      cbn [filter]. unfold cls at 1. cbn [snd].
      assert (Hlen : (length r <= n)%nat).
      { cbn [length] in Hn. rewrite app_length in Hn. lia. }
      rewrite (IH r (pos + length (c :: u))%nat (lastp prev (c :: u)) Hlen (or_intror Hr')).
      destruct (forallb wclass (c :: u)); reflexivity.
    + rewrite (scan_nonword pos prev c w Ec), (wruns_nonword pos c w Ec).
      apply IH; [cbn [length] in Hn; lia|left; exact Ec].
Qed.

Lemma word_parts_eq_l w : word_parts w = class_runs w.
Proof.
  unfold word_parts, class_runs, word_runs.
  exact (scan_wruns (length w) w O None (Nat.le_refl _) (or_introl eq_refl)).
Qed.

(** * What the maximal [\w]-runs are *)
Lemma last_error_nil {A} : @last_error A [] = None.
Proof. reflexivity. Qed.
Lemma last_error_app {A} (a b : list A) : b <> [] -> last_error (a ++ b) = last_error b.
Proof.
  intros Hb. unfold last_error. rewrite rev_app_distr. destruct (rev b) as [|x l] eqn:R; [|reflexivity].
  apply (f_equal (@length A)) in R. rewrite rev_length in R. destruct b; [congruence|discriminate].
Qed.
Lemma last_error_in {A} (l : list A) : l <> [] -> exists x, last_error l = Some x /\ In x l.
Proof.
  intros Hl. unfold last_error. destruct (rev l) as [|x r] eqn:R.
  - apply (f_equal (@length A)) in R. rewrite rev_length in R. destruct l; [congruence|discriminate].
  - exists x. split; [reflexivity|]. apply in_rev. rewrite R. left. reflexivity.
Qed.
Lemma is_w_last_run (u : list N) : u <> [] -> forallb re_word u = true -> is_w (last_error u) = true.
Proof.
  intros Hu Hw. destruct (last_error_in u Hu) as (x & -> & Hin). rewrite forallb_forall in Hw. exact (Hw x Hin).
Qed.

(** [max_wrun] with positions counted from [base] *)
Definition max_wrun_at (w : list N) (base p : nat) (run : list N) : Prop :=
  exists pre post, w = pre ++ run ++ post /\ (base + length pre)%nat = p /\ run <> []
    /\ forallb re_word run = true /\ is_w (last_error pre) = false /\ is_w (hd_error post) = false.

Lemma max_wrun_at_pos w base p run : max_wrun_at w base p run -> is_w (hd_error w) = false -> (base < p)%nat.
Proof.
  intros (pre & post & -> & <- & Hne & Hw & _ & _) Hh. destruct pre as [|x pre]; [|cbn [length]; lia].
  exfalso. destruct run as [|y run]; [congruence|]. cbn [app hd_error is_w] in Hh. cbn [forallb] in Hw.
  apply andb_true_iff in Hw as [Hy _]. congruence.
Qed.

Lemma wruns_iff n : forall w base, (length w <= n)%nat ->
  forall p run, In (p, run) (wruns base [] w) <-> max_wrun_at w base p run.
Proof.
  induction n as [|n IH]; intros w base Hn p run.
  - destruct w; [|cbn [length] in Hn; lia]. cbn [wruns emit_run]. split; [intros []|].
    intros (pre & post & E & _ & Hne & _). destruct run; [exfalso; apply Hne; reflexivity|]. destruct pre; cbn [app] in E; discriminate.
  - destruct w as [|c w].
    { cbn [wruns emit_run]. split; [intros []|].
      intros (pre & post & E & _ & Hne & _). destruct run; [exfalso; apply Hne; reflexivity|]. destruct pre; cbn [app] in E; discriminate. }
    cbn [length] in Hn. destruct (re_word c) eqn:Ec.
    + (* a run starts here *)
      destruct (span re_word w) as [u r] eqn:Sp. destruct (span_spec re_word w u r Sp) as (-> & Hu & Hr).
      assert (Hr' : is_w (hd_error r) = false). { destruct r as [|x r]; [reflexivity|exact Hr]. }
      assert (Hcu : forallb re_word (c :: u) = true). { cbn [forallb]. rewrite Ec, Hu. reflexivity. }
      assert (Hlen : (length r <= n)%nat). { rewrite app_length in Hn. lia. }
      change (c :: u ++ r) with ((c :: u) ++ r). rewrite (wruns_seg c u r base Hcu Hr').
      set (U := c :: u) in *. assert (HU : U <> []) by discriminate. clearbody U. split.
      * intros [Heq|Hin].
        -- injection Heq as <- <-. exists [], r. cbn [app length]. repeat split; auto.
        -- apply (IH r _ Hlen) in Hin. pose proof (max_wrun_at_pos _ _ _ _ Hin Hr') as Hpos.
           destruct Hin as (pre & post & -> & <- & Hne & Hw & Hl & Hp).
           assert (Hpre : pre <> []). { destruct pre; [cbn [length] in Hpos; lia|discriminate]. }
           exists (U ++ pre), post. rewrite <- app_assoc. repeat split; auto.
           ++ rewrite app_length. unfold cp in *. lia.
           ++ rewrite (last_error_app U pre Hpre). exact Hl.
      * intros (pre & post & E & <- & Hne & Hw & Hl & Hp).
        symmetry in E. apply app_eq_app in E as [l [[E1 E2]|[E1 E2]]].
        -- (* pre = U ++ l *)
           subst pre. assert (Hlne : l <> []).
           { intros ->. rewrite app_nil_r in Hl. rewrite (is_w_last_run U HU Hcu) in Hl. discriminate. }
           rewrite (last_error_app U l Hlne) in Hl. right. apply (IH r _ Hlen).
           exists l, post. repeat split; auto. rewrite app_length. lia.
        -- (* U = pre ++ l *)
           assert (Hpre : pre = []).
           { destruct pre as [|x pre]; [reflexivity|]. exfalso.
             destruct (last_error_in (x :: pre)) as (y & Ey & Hy); [discriminate|]. rewrite Ey in Hl.
             cbn [is_w] in Hl. rewrite forallb_forall in Hcu. rewrite (Hcu y) in Hl; [discriminate|].
             rewrite E1. apply in_or_app. left. exact Hy. }
           subst pre. cbn [app] in E1. subst l. left.
           assert (Hp' : match post with [] => True | x :: _ => re_word x = false end).
           { destruct post; [exact Logic.I|exact Hp]. }
           destruct (span_unique re_word run U post r Hw Hcu Hp' Hr E2) as [-> ->].
           cbn [length]. rewrite Nat.add_0_r. reflexivity.
    + (* not a word character *)
      rewrite (wruns_nonword base c w Ec). assert (Hlen : (length w <= n)%nat) by lia. split.
      * intros Hin. apply (IH w _ Hlen) in Hin. destruct Hin as (pre & post & -> & <- & Hne & Hw & Hl & Hp).
        exists (c :: pre), post. cbn [app length]. repeat split; auto; [lia|].
        destruct pre as [|x pre]; [cbn; exact Ec|].
        change (c :: x :: pre) with ([c] ++ x :: pre). rewrite last_error_app by discriminate. exact Hl.
      * intros (pre & post & E & <- & Hne & Hw & Hl & Hp). destruct pre as [|x pre].
        -- exfalso. destruct run as [|y run]; [congruence|]. cbn [app] in E. injection E as <- _.
           cbn [forallb] in Hw. apply andb_true_iff in Hw as [Hy _]. congruence.
        -- cbn [app] in E. injection E as <- ->. apply (IH _ _ Hlen). exists pre, post.
           cbn [length]. repeat split; auto; [lia|]. destruct pre as [|y pre]; [reflexivity|].
           change (c :: y :: pre) with ([c] ++ y :: pre) in Hl. rewrite last_error_app in Hl by discriminate. exact Hl.
Qed.

Lemma word_runs_iff_l w p run : In (p, run) (word_runs w) <-> max_wrun w p run.
Proof.
  unfold word_runs. rewrite (wruns_iff (length w) w O (Nat.le_refl _)). unfold max_wrun_at, max_wrun.
  split; intros (pre & post & H); exists pre, post; exact H.
Qed.

(** in order, and separated by at least one character *)
Definition run_before (p q : nat * str) : Prop := (fst p + length (snd p) < fst q)%nat.

Lemma wruns_sorted n : forall w base, (length w <= n)%nat -> StronglySorted run_before (wruns base [] w).
Proof.
  induction n as [|n IH]; intros w base Hn.
  - destruct w; [constructor|cbn [length] in Hn; lia].
  - destruct w as [|c w]; [constructor|]. cbn [length] in Hn. destruct (re_word c) eqn:Ec.
    + destruct (span re_word w) as [u r] eqn:Sp. destruct (span_spec re_word w u r Sp) as (-> & Hu & Hr).
      assert (Hr' : is_w (hd_error r) = false). { destruct r as [|x r]; [reflexivity|exact Hr]. }
      assert (Hcu : forallb re_word (c :: u) = true). { cbn [forallb]. rewrite Ec, Hu. reflexivity. }
      assert (Hlen : (length r <= n)%nat). { rewrite app_length in Hn. lia. }
      change (c :: u ++ r) with ((c :: u) ++ r). rewrite (wruns_seg c u r base Hcu Hr').
      constructor; [apply IH; exact Hlen|]. apply Forall_forall. intros [q run] Hin.
      apply (wruns_iff (length r) r _ (Nat.le_refl _)) in Hin.
      pose proof (max_wrun_at_pos _ _ _ _ Hin Hr') as Hq. unfold run_before. cbn [fst snd]. exact Hq.
    + rewrite (wruns_nonword base c w Ec). apply IH. lia.
Qed.

Lemma filter_sorted {A} (R : A -> A -> Prop) (f : A -> bool) l : StronglySorted R l -> StronglySorted R (filter f l).
Proof.
  induction 1 as [|x l Hs IH Hf]; [constructor|]. cbn [filter]. destruct (f x); [|exact IH].
  constructor; [exact IH|]. rewrite Forall_forall in *. intros y Hy. apply filter_In in Hy as [Hy _]. exact (Hf y Hy).
Qed.

(** the regex matches of a word: exactly the maximal [\w]-runs made of class characters, in order *)
Lemma word_parts_iff_l w p part :
  In (p, part) (word_parts w) <-> max_wrun w p part /\ forallb wclass part = true.
Proof.
  rewrite word_parts_eq_l. unfold class_runs. rewrite filter_In. cbn [snd]. rewrite word_runs_iff_l. tauto.
Qed.
Lemma word_parts_sorted_l w : StronglySorted run_before (word_parts w).
Proof.
  rewrite word_parts_eq_l. unfold class_runs, word_runs. apply filter_sorted.
  apply (wruns_sorted (length w)). apply Nat.le_refl.
Qed.

(** * [split_by]: the pieces are the maximal separator-free runs *)
Section Split.
Variable sep : N -> bool.
Definition piece_ok (w : str) : Prop := w <> [] /\ forallb (fun c => negb (sep c)) w = true.

Lemma push_piece_app w l r : push_piece w (l ++ r) = push_piece w l ++ r.
Proof. destruct w; reflexivity. Qed.

Lemma split_scan_by_app (u : str) : forall (s : str) W,
  split_scan_by sep s = ([], W) ->
  split_scan_by sep (u ++ s) = (fst (split_scan_by sep u), snd (split_scan_by sep u) ++ W).
Proof.
  induction u as [|a u IH]; intros s W Hs.
  - cbn [app split_scan_by fst snd]. exact Hs.
  - cbn [app split_scan_by]. rewrite (IH s W Hs). cbn [fst snd].
    destruct (sep a); [cbn [fst snd]; rewrite push_piece_app|]; reflexivity.
Qed.

Lemma split_by_nil_l : split_by sep [] = [].
Proof. reflexivity. Qed.

Lemma split_by_sep_l (u : str) (c : cp) (v : str) : sep c = true -> split_by sep (u ++ c :: v) = split_by sep u ++ split_by sep v.
Proof.
  intros Hc. unfold split_by.
  assert (Hs : split_scan_by sep (c :: v)
               = ([], push_piece (fst (split_scan_by sep v)) (snd (split_scan_by sep v)))).
  { cbn [split_scan_by]. rewrite Hc. reflexivity. }
  rewrite (split_scan_by_app u _ _ Hs). cbn [fst snd]. rewrite push_piece_app. reflexivity.
Qed.

Lemma split_scan_by_word w : forallb (fun c => negb (sep c)) w = true -> split_scan_by sep w = (w, []).
Proof.
  induction w as [|c w IH]; intros H; [reflexivity|].
  cbn [forallb] in H. apply andb_true_iff in H as [Hc Hw]. cbn [split_scan_by]. rewrite (IH Hw).
  destruct (sep c); [discriminate|reflexivity].
Qed.

Lemma split_by_word_l w : piece_ok w -> split_by sep w = [w].
Proof.
  intros [Hne Hw]. unfold split_by. rewrite (split_scan_by_word w Hw). destruct w; [congruence|reflexivity].
Qed.

Lemma split_scan_by_wf s :
  forallb (fun c => negb (sep c)) (fst (split_scan_by sep s)) = true /\ Forall piece_ok (snd (split_scan_by sep s)).
Proof.
  induction s as [|c s [IH1 IH2]]; [split; [reflexivity|constructor]|].
  cbn [split_scan_by]. destruct (sep c) eqn:E; cbn [fst snd].
  - split; [reflexivity|]. destruct (fst (split_scan_by sep s)) eqn:F; cbn [push_piece]; [exact IH2|].
    constructor; [split; [discriminate|exact IH1]|exact IH2].
  - split; [|exact IH2]. cbn [forallb]. rewrite E, IH1. reflexivity.
Qed.

Lemma split_by_ok_l s : Forall piece_ok (split_by sep s).
Proof.
  unfold split_by. destruct (split_scan_by_wf s) as [H1 H2].
  destruct (fst (split_scan_by sep s)) eqn:F; cbn [push_piece]; [exact H2|].
  constructor; [split; [discriminate|exact H1]|exact H2].
Qed.
End Split.

(** Pipe_Proofs3: the Buffered LTS (look-ahead, stop after drop, finiteness,
    deadlock freedom, terminal states), the pinned producer that drains its
    upstream after a drop (D4), and the necessity of the process exit in the
    panic hook (a killed turn holder wedges the pipe). *)
From Coq Require Import Lia Permutation.
From TU Require Import Base Pipe_Model Pipe_Proofs Pipe_Proofs2.

Definition holding (st : bstate) : list nat := match st with BHolding i => [i] | _ => [] end.

Record BInv (sof : bool) (s : bst) : Prop := {
  b_pulled : bpulled s <= bn s;
  b_cap : length (bchan s) <= bcap s;
  b_seq : bdropped s = false -> bout s ++ bchan s ++ holding (bthr s) = seq 0 (bpulled s);
  b_dchan : bdropped s = true -> bchan s = [];
  b_out : bout s = seq 0 (length (bout s));
  b_pad0 : bdropped s = false -> bpad s = 0;
  b_pad1 : sof = true -> bdropped s = true -> bpad s <= 1 /\ (bpad s = 1 -> bthr s <> BIdle);
  b_exit : bthr s = BExited -> bdropped s = true \/ bpulled s = bn s
}.

Lemma binv_init sof n cap : BInv sof (binit n cap).
Proof. constructor; cbn; try lia; try reflexivity; try discriminate. Qed.

Lemma seq_app_prefix (l1 l2 : list nat) n : l1 ++ l2 = seq 0 n -> l1 = seq 0 (length l1).
Proof.
  intros H. assert (Hl : length l1 <= n).
  { apply (f_equal (@length nat)) in H. rewrite app_length, seq_length in H. lia. }
  transitivity (firstn (length l1) (l1 ++ l2)).
  - rewrite firstn_app, Nat.sub_diag, firstn_all. cbn. symmetry. apply app_nil_r.
  - rewrite H. clear H. replace n with (length l1 + (n - length l1)) by lia.
    rewrite seq_app, firstn_app, seq_length, Nat.sub_diag. cbn [firstn].
    rewrite app_nil_r. rewrite <- (seq_length (length l1) 0) at 1. apply firstn_all.
Qed.

Ltac bfields := cbn [bn bcap bpulled bthr bchan bout bdropped bpad holding].

Lemma binv_step sof s l s' : BInv sof s -> bstep sof s l = Some s' -> BInv sof s'.
Proof.
  intros I H. destruct l; cbn [bstep] in H.
  - (* BPull *)
    destruct (bthr s) eqn:Et; try discriminate.
    destruct (bpulled s <? bn s) eqn:En.
    + apply Nat.ltb_lt in En. injection H as <-. constructor; bfields; try apply I; try lia; try discriminate.
      * intros Hd. pose proof (b_seq _ _ I Hd) as S. rewrite Et in S. cbn [holding] in S. rewrite app_nil_r in S.
        rewrite seq_S. cbn [plus]. rewrite app_assoc, S. reflexivity.
      * intros Hd. rewrite Hd. apply I, Hd.
      * intros Hs Hd. rewrite Hd. destruct (b_pad1 _ _ I Hs Hd) as [Hle H1]. rewrite Et in H1.
        assert (bpad s = 0). { destruct (Nat.eq_dec (bpad s) 1) as [E|E]; [destruct (H1 E); reflexivity|lia]. }
        split; [lia|discriminate].
    + apply Nat.ltb_ge in En. injection H as <-. constructor; bfields; try apply I; try discriminate.
      * intros Hd. pose proof (b_seq _ _ I Hd) as S. rewrite Et in S. exact S.
      * intros Hs Hd. destruct (b_pad1 _ _ I Hs Hd) as [Hle H1]. split; [exact Hle|discriminate].
      * intros _. right. pose proof (b_pulled _ _ I). lia.
  - (* BSendOk *)
    destruct (bthr s) eqn:Et; try discriminate.
    destruct (negb (bdropped s) && (length (bchan s) <? bcap s)) eqn:E; [|discriminate].
    apply andb_true_iff in E as [Ed Ec]. apply negb_true_iff in Ed. apply Nat.ltb_lt in Ec.
    injection H as <-. constructor; bfields; try apply I; try discriminate.
    + rewrite app_length. cbn. lia.
    + intros _. pose proof (b_seq _ _ I Ed) as S. rewrite Et in S. cbn [holding] in S.
      rewrite app_nil_r. exact S.
    + intros _. apply I, Ed.
  - (* BSendFail *)
    destruct (bthr s) eqn:Et; try discriminate.
    destruct (bdropped s) eqn:Ed; [|discriminate]. injection H as <-.
    constructor; bfields; try apply I; try discriminate.
    + intros _. apply I, Ed.
    + intros Hs _. destruct (b_pad1 _ _ I Hs Ed) as [Hle H1]. split; [exact Hle|]. rewrite Hs. discriminate.
    + intros _. left. reflexivity.
  - (* BRecv *)
    destruct (bdropped s) eqn:Ed; [discriminate|]. destruct (bchan s) as [|y c] eqn:Ec; [discriminate|].
    injection H as <-. constructor; bfields; try apply I; try discriminate.
    + pose proof (b_cap _ _ I). rewrite Ec in H. cbn in H. lia.
    + intros _. pose proof (b_seq _ _ I Ed) as S. rewrite Ec in S. rewrite <- app_assoc. exact S.
    + pose proof (b_seq _ _ I Ed) as S. rewrite Ec in S.
      change ((y :: c) ++ holding (bthr s)) with ([y] ++ (c ++ holding (bthr s))) in S.
      rewrite app_assoc in S. eapply seq_app_prefix; eauto.
    + intros _. apply I, Ed.
    + intros E. destruct (b_exit _ _ I E) as [C|C]; [congruence|right; exact C].
  - (* BHandoff *)
    destruct (bthr s) eqn:Et; try discriminate.
    destruct (negb (bdropped s) && (bcap s =? 0)) eqn:E; [|discriminate].
    apply andb_true_iff in E as [Ed Ec]. apply negb_true_iff in Ed. apply Nat.eqb_eq in Ec.
    injection H as <-.
    assert (Hch : bchan s = []).
    { pose proof (b_cap _ _ I). destruct (bchan s); [reflexivity|cbn in H; lia]. }
    constructor; bfields; try apply I; try discriminate.
    + intros _. pose proof (b_seq _ _ I Ed) as S. rewrite Et, Hch in S. cbn [holding app] in S.
      rewrite Hch. cbn [app]. rewrite app_nil_r. exact S.
    + pose proof (b_seq _ _ I Ed) as S. rewrite Et, Hch in S. cbn [holding app] in S.
      rewrite S, seq_length. reflexivity.
    + intros _. apply I, Ed.
  - (* BDrop *)
    destruct (bdropped s) eqn:Ed; [discriminate|]. injection H as <-.
    constructor; bfields; try apply I; try discriminate.
    + cbn. lia.
    + reflexivity.
    + intros _ _. rewrite (b_pad0 _ _ I Ed). split; [lia|discriminate].
    + intros _. left. reflexivity.
Qed.

Lemma binv_run sof tr : forall s s', BInv sof s -> brun sof s tr = Some s' -> BInv sof s'.
Proof.
  induction tr as [|l tr IH]; cbn [brun]; intros s s' I H; [injection H as <-; exact I|].
  destruct (bstep sof s l) eqn:E; [|discriminate]. eapply IH; [eapply binv_step; eauto|exact H].
Qed.

Lemma bconst_step sof s l s' : bstep sof s l = Some s' -> bn s' = bn s /\ bcap s' = bcap s.
Proof.
  intros H. destruct l; cbn [bstep] in H;
  repeat match type of H with
         | context [match ?x with _ => _ end] => destruct x
         | context [if ?x then _ else _] => destruct x
         end; try discriminate; injection H as <-; split; reflexivity.
Qed.
Lemma bconst_run sof tr : forall s s', brun sof s tr = Some s' -> bn s' = bn s /\ bcap s' = bcap s.
Proof.
  induction tr as [|l tr IH]; cbn [brun]; intros s s' H; [injection H as <-; auto|].
  destruct (bstep sof s l) eqn:E; [|discriminate]. apply IH in H. apply bconst_step in E. destruct H, E. split; congruence.
Qed.

(** look-ahead of the buffered iterator while the consumer is attached *)
Lemma buf_lookahead_l sof n cap tr s : brun sof (binit n cap) tr = Some s -> bdropped s = false ->
  bpulled s <= length (bout s) + cap + 1.
Proof.
  intros H Hd. pose proof (binv_run sof tr _ _ (binv_init sof n cap) H) as I.
  destruct (bconst_run _ _ _ _ H) as [_ Hc]. cbn in Hc.
  pose proof (f_equal (@length nat) (b_seq _ _ I Hd)) as S. rewrite !app_length, seq_length in S.
  pose proof (b_cap _ _ I). destruct (bthr s); cbn in S; lia.
Qed.

(** after the drop the repaired producer pulls at most one more item *)
Lemma buf_after_drop_l n cap tr s : brun true (binit n cap) tr = Some s -> bdropped s = true -> bpad s <= 1.
Proof.
  intros H Hd. pose proof (binv_run true tr _ _ (binv_init true n cap) H) as I.
  apply (b_pad1 _ _ I eq_refl Hd).
Qed.

Lemma bmeasure_step sof s l s' : bstep sof s l = Some s' -> bmeasure s' < bmeasure s.
Proof.
  intros H. unfold bmeasure. destruct l; cbn [bstep] in H.
  - destruct (bthr s) eqn:Et; try discriminate. destruct (bpulled s <? bn s) eqn:En.
    + apply Nat.ltb_lt in En. injection H as <-. bfields. destruct (bdropped s); lia.
    + injection H as <-. bfields. destruct (bdropped s); lia.
  - destruct (bthr s) eqn:Et; try discriminate.
    destruct (negb (bdropped s) && (length (bchan s) <? bcap s)) eqn:E; [|discriminate].
    apply andb_true_iff in E as [Ed _]. apply negb_true_iff in Ed.
    injection H as <-. bfields. rewrite app_length, Ed. cbn [length]. lia.
  - destruct (bthr s) eqn:Et; try discriminate. destruct (bdropped s) eqn:Ed; [|discriminate].
    injection H as <-. bfields. destruct sof; lia.
  - destruct (bdropped s) eqn:Ed; [discriminate|]. destruct (bchan s) eqn:Ec; [discriminate|].
    injection H as <-. bfields. cbn [length]. lia.
  - destruct (bthr s) eqn:Et; try discriminate.
    destruct (negb (bdropped s) && (bcap s =? 0)) eqn:E; [|discriminate].
    apply andb_true_iff in E as [Ed _]. apply negb_true_iff in Ed.
    injection H as <-. bfields. rewrite Ed. lia.
  - destruct (bdropped s) eqn:Ed; [discriminate|]. injection H as <-. bfields. cbn [length]. lia.
Qed.

Lemma buf_finite_l sof n cap tr s : brun sof (binit n cap) tr = Some s -> length tr <= 3 * n + 2.
Proof.
  assert (G : forall tr s s', brun sof s tr = Some s' -> bmeasure s' + length tr <= bmeasure s).
  { induction tr0 as [|l tr0 IH]; cbn [brun length]; intros s0 s' H; [injection H as <-; lia|].
    destruct (bstep sof s0 l) eqn:E; [|discriminate]. apply IH in H. apply bmeasure_step in E. lia. }
  intros H. apply G in H. unfold bmeasure in H at 2. cbn in H. lia.
Qed.

Definition bfinal (s : bst) : bool :=
  match bthr s with BExited => true | _ => false end && match bchan s with [] => true | _ => false end.

Lemma buf_progress_l sof s : BInv sof s -> bfinal s = false ->
  exists l s', l <> BDrop /\ bstep sof s l = Some s'.
Proof.
  intros I Hf. unfold bfinal in Hf. destruct (bthr s) eqn:Et.
  - exists BPull. cbn [bstep]. rewrite Et. destruct (bpulled s <? bn s); eexists; split; try discriminate; reflexivity.
  - destruct (bdropped s) eqn:Ed.
    + exists BSendFail. cbn [bstep]. rewrite Et, Ed. eexists; split; [discriminate|reflexivity].
    + destruct (bcap s =? 0) eqn:Ec.
      * exists BHandoff. cbn [bstep]. rewrite Et, Ed, Ec. eexists; split; [discriminate|reflexivity].
      * apply Nat.eqb_neq in Ec. destruct (length (bchan s) <? bcap s) eqn:El.
        -- exists BSendOk. cbn [bstep]. rewrite Et, Ed, El. eexists; split; [discriminate|reflexivity].
        -- apply Nat.ltb_ge in El. destruct (bchan s) as [|y c] eqn:Ech; [cbn in El; lia|].
           exists BRecv. cbn [bstep]. rewrite Ed, Ech. eexists; split; [discriminate|reflexivity].
  - cbn [andb] in Hf. destruct (bchan s) as [|y c] eqn:Ech; [discriminate|].
    destruct (bdropped s) eqn:Ed.
    + rewrite (b_dchan _ _ I Ed) in Ech. discriminate.
    + exists BRecv. cbn [bstep]. rewrite Ed, Ech. eexists; split; [discriminate|reflexivity].
Qed.

Lemma buf_terminal_l sof s : BInv sof s -> bdropped s = false -> bfinal s = true -> bout s = seq 0 (bn s).
Proof.
  intros I Hd Hf. unfold bfinal in Hf. destruct (bthr s) eqn:Et; try discriminate. cbn [andb] in Hf.
  destruct (bchan s) eqn:Ec; [|discriminate].
  pose proof (b_seq _ _ I Hd) as S. rewrite Et, Ec in S. cbn [holding app] in S. rewrite app_nil_r in S.
  destruct (b_exit _ _ I Et) as [C|C]; [congruence|]. rewrite S, C. reflexivity.
Qed.

(** D4 as a theorem about the pinned producer: after an immediate drop it still pulls the whole upstream *)
Lemma pinned_drains_from n cap p k out0 pad0 :
  p + k = n ->
  exists tr s, brun false (bmk n cap p BIdle [] out0 true pad0) tr = Some s /\ bpulled s = n /\ bpad s = pad0 + k.
Proof.
  revert p pad0. induction k as [|k IH]; intros p pad0 Hp.
  - exists [], (bmk n cap p BIdle [] out0 true pad0). cbn. repeat split; lia.
  - destruct (IH (S p) (S pad0) ltac:(lia)) as (tr & s & Hr & H1 & H2).
    exists (BPull :: BSendFail :: tr), s. cbn [brun bstep bthr bpulled bn bdropped].
    assert (E : (p <? n) = true) by (apply Nat.ltb_lt; lia). rewrite E. cbn [bthr bdropped].
    cbn [bn bcap bpulled bchan bout bpad]. rewrite Hr. repeat split; lia.
Qed.

Lemma buffered_pinned_drains_l n cap :
  exists tr s, brun false (binit n cap) (BDrop :: tr) = Some s /\ bpulled s = n /\ bpad s = n.
Proof.
  destruct (pinned_drains_from n cap 0 n [] 0 eq_refl) as (tr & s & Hr & H1 & H2).
  exists tr, s. split; [|auto]. cbn. exact Hr.
Qed.

(** ** A worker that dies while holding the turn wedges the pipe unless the process exits.
    Two items, two workers: both pull, worker 0 is killed before computing (its
    thread is gone: modelled as [Exited] without ever advancing the turn). From
    then on no schedule delivers an item or reaches end of stream. *)
Section Wedge.
Variables (A B : Type) (f : A -> B) (d : A) (a b : A).

Definition wedge0 : state A B := mk [a; b] 2 0 [Exited; Got 1] [] [] false [] [0; 0] 0.
Definition wedge1 : state A B := mk [a; b] 2 0 [Exited; Computed 1] [] [] false [1] [0; 0] 0.

Lemma wedge_reachable :
  exists s, run A B f d (init A B [a; b] 2) [Pull 0; Pull 1] = Some s /\ set_thr A B s 0 Exited = wedge0.
Proof. eexists. split; reflexivity. Qed.

Lemma wedge_step s l s' : (s = wedge0 \/ s = wedge1) -> l <> Drop -> step A B f d s l = Some s' ->
  s' = wedge0 \/ s' = wedge1.
Proof.
  intros [->| ->] Hl H; destruct l as [t|t|t|t|t|t| |]; try congruence;
    try (destruct t as [|[|t]]; cbn in H; try discriminate; try (destruct t; discriminate));
    try (cbn in H; discriminate).
  - injection H as <-. right. reflexivity.
Qed.

Lemma wedge_forever tr : forall s s', (s = wedge0 \/ s = wedge1) -> ~ In Drop tr ->
  run A B f d s tr = Some s' -> out s' = [] /\ final A B s' = false.
Proof.
  induction tr as [|l tr IH]; cbn [Pipe_Model.run]; intros s s' Hs Hnd H.
  - injection H as <-. destruct Hs as [->| ->]; split; reflexivity.
  - destruct (step A B f d s l) as [s1|] eqn:E; [|discriminate].
    eapply IH; [eapply wedge_step; eauto; intros ->; apply Hnd; left; reflexivity| |exact H].
    intros Hin. apply Hnd. right. exact Hin.
Qed.
End Wedge.

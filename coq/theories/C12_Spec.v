(** C12 proofs, part 1: the recurrence [Dc] against the alignment relation [Align]. *)
From TU Require Import Base C12_Model.
From Coq Require Import Lia.
Open Scope nat_scope.

Lemma nlist_eqb_eq a b : nlist_eqb a b = true <-> a = b.
Proof.
  revert b; induction a as [|x a IH]; intros [|y b]; cbn; split; intros H; try congruence; try reflexivity.
  - apply andb_true_iff in H as [H1 H2]. apply N.eqb_eq in H1. apply IH in H2. congruence.
  - inversion H; subst. rewrite N.eqb_refl. cbn. apply IH. reflexivity.
Qed.
Lemma cl_eqb_eq a b : cl_eqb a b = true <-> a = b.
Proof. apply nlist_eqb_eq. Qed.
Lemma cl_eqb_refl a : cl_eqb a a = true.
Proof. apply cl_eqb_eq. reflexivity. Qed.

(** * [pick]: a member of the list with minimal cost *)
Lemma pick_from_in c l : In (pick_from c l) (c :: l).
Proof.
  revert c; induction l as [|c' l IH]; intros c; cbn [pick_from].
  - left; reflexivity.
  - destruct (IH (if fst c' <? fst c then c' else c)) as [H|H].
    + destruct (fst c' <? fst c); rewrite <- H; [right; left|left]; reflexivity.
    + right; right; exact H.
Qed.
Lemma pick_from_le_c l : forall c, fst (pick_from c l) <= fst c.
Proof.
  induction l as [|c' l IH]; intros c; cbn [pick_from]; [lia|].
  specialize (IH (if fst c' <? fst c then c' else c)).
  destruct (fst c' <? fst c) eqn:E; [apply Nat.ltb_lt in E|]; lia.
Qed.
Lemma pick_from_le_l l e : forall c, In e l -> fst (pick_from c l) <= fst e.
Proof.
  induction l as [|c' l IH]; intros c; cbn [pick_from]; [intros []|].
  intros [<-|H]; [|apply IH; exact H].
  pose proof (pick_from_le_c l (if fst c' <? fst c then c' else c)) as H.
  destruct (fst c' <? fst c) eqn:E; [|apply Nat.ltb_ge in E]; lia.
Qed.
Lemma pick_from_le c l e : In e (c :: l) -> fst (pick_from c l) <= fst e.
Proof. intros [<-|H]; [apply pick_from_le_c|apply pick_from_le_l; exact H]. Qed.

Lemma candidates_cons fl x y up left diag sw :
  exists l, candidates fl x y up left diag sw = (S up, MDelete) :: l.
Proof. unfold candidates. cbn [app]. eexists. reflexivity. Qed.

Lemma pick_in fl x y up left diag sw :
  In (pick (candidates fl x y up left diag sw)) (candidates fl x y up left diag sw).
Proof. destruct (candidates_cons fl x y up left diag sw) as [l ->]. cbn [pick]. apply pick_from_in. Qed.
Lemma pick_le fl x y up left diag sw e :
  In e (candidates fl x y up left diag sw) -> fst (pick (candidates fl x y up left diag sw)) <= fst e.
Proof. destruct (candidates_cons fl x y up left diag sw) as [l ->]. cbn [pick]. apply pick_from_le. Qed.

(** membership in the candidate list, spelled out *)
Lemma in_candidates fl x y up left diag sw c :
  In c (candidates fl x y up left diag sw) <->
  c = (S up, MDelete) \/ c = (S left, MInsert)
  \/ (cl_eqb x y = true /\ c = (diag, MKeep))
  \/ (cl_eqb x y = false /\ sub_ok fl x y = true /\ c = (S diag, MReplace))
  \/ (exists d2, sw = Some d2 /\ c = (S d2, MSwap)).
Proof.
  unfold candidates. rewrite !in_app_iff. cbn [In].
  destruct (cl_eqb x y); [|destruct (sub_ok fl x y)]; destruct sw as [d2|]; cbn [In]; split; intros H;
    repeat match goal with
           | H : _ \/ _ |- _ => destruct H
           | H : _ /\ _ |- _ => destruct H
           | H : exists _, _ |- _ => destruct H
           | H : False |- _ => destruct H
           | H : Some _ = Some _ |- _ => injection H as <-
           end; try discriminate; subst; eauto 10.
Qed.

(** * Unfolding [Dc] *)
Lemma Dc_nil_l fl rb : fst (Dc fl [] rb) = length rb.
Proof. destruct rb; reflexivity. Qed.
Lemma Dc_nil_r fl ra : fst (Dc fl ra []) = length ra.
Proof. destruct ra; reflexivity. Qed.
Definition sw_of (fl : flags) (x y : cluster) (ra' rb' : list cluster) : option nat :=
  match ra', rb' with
  | x2 :: ra'', y2 :: rb'' => if swap_ok fl x x2 y y2 then Some (fst (Dc fl ra'' rb'')) else None
  | _, _ => None
  end.
Lemma Dc_cons fl x ra' y rb' :
  Dc fl (x :: ra') (y :: rb') =
  pick (candidates fl x y (fst (Dc fl ra' (y :: rb'))) (fst (Dc fl (x :: ra') rb')) (fst (Dc fl ra' rb'))
                   (sw_of fl x y ra' rb')).
Proof. reflexivity. Qed.
Lemma Dc_cons_nil fl x ra' : Dc fl (x :: ra') [] = (S (length ra'), MDelete).
Proof. reflexivity. Qed.
Lemma Dc_nil_cons fl y rb' : Dc fl [] (y :: rb') = (S (length rb'), MInsert).
Proof. reflexivity. Qed.
Lemma Dc_nil_nil fl : Dc fl [] [] = (0, MKeep).
Proof. reflexivity. Qed.
Global Opaque Dc.

(** * Minimality: every alignment costs at least [Dc] *)
Lemma Dc_minimal fl ra rb n : Align fl ra rb n -> fst (Dc fl ra rb) <= n.
Proof.
  induction 1 as [|x a b n H IH|y a b n H IH|x a b n H IH|x y a b n Hs H IH|x y a b n Hw Hs H IH].
  - rewrite Dc_nil_nil. cbn. lia.
  - rewrite Dc_cons.
    etransitivity; [apply pick_le with (e := (fst (Dc fl a b), MKeep))|cbn [fst]; exact IH].
    apply in_candidates. right; right; left. split; [apply cl_eqb_refl|reflexivity].
  - destruct a as [|x a'].
    + rewrite Dc_nil_l in *. cbn [length]. lia.
    + rewrite Dc_cons.
      etransitivity; [apply pick_le with (e := (S (fst (Dc fl (x :: a') b)), MInsert))|cbn [fst]; lia].
      apply in_candidates. right; left. reflexivity.
  - destruct b as [|y b'].
    + rewrite Dc_nil_r in *. cbn [length]. lia.
    + rewrite Dc_cons.
      etransitivity; [apply pick_le with (e := (S (fst (Dc fl a (y :: b'))), MDelete))|cbn [fst]; lia].
      apply in_candidates. left. reflexivity.
  - rewrite Dc_cons. destruct (cl_eqb x y) eqn:E.
    + etransitivity; [apply pick_le with (e := (fst (Dc fl a b), MKeep))|cbn [fst]; lia].
      apply in_candidates. right; right; left. split; [exact E|reflexivity].
    + etransitivity; [apply pick_le with (e := (S (fst (Dc fl a b)), MReplace))|cbn [fst]; lia].
      apply in_candidates. right; right; right; left. repeat split; assumption.
  - rewrite Dc_cons.
    etransitivity; [apply pick_le with (e := (S (fst (Dc fl a b)), MSwap))|cbn [fst]; lia].
    apply in_candidates. right; right; right; right. exists (fst (Dc fl a b)). split; [|reflexivity].
    cbn [sw_of]. unfold swap_ok. rewrite Hw, !cl_eqb_refl. unfold swap_ws_ok in Hs. rewrite Hs. reflexivity.
Qed.

(** * Achievability: [Dc] is the cost of an alignment *)
Lemma swap_ok_inv fl x x2 y y2 : swap_ok fl x x2 y y2 = true ->
  with_swap fl = true /\ x = y2 /\ x2 = y /\ swap_ws_ok fl x x2 = true.
Proof.
  unfold swap_ok, swap_ws_ok. rewrite !andb_true_iff, !cl_eqb_eq. tauto.
Qed.

Lemma Dc_achieved fl ra rb : Align fl ra rb (fst (Dc fl ra rb)).
Proof.
  remember (length ra + length rb) as m eqn:Hm.
  revert ra rb Hm. induction m as [m IH] using lt_wf_ind. intros ra rb Hm.
  destruct ra as [|x ra'].
  - rewrite Dc_nil_l. clear IH Hm. induction rb as [|y rb IHb]; cbn [length]; constructor; exact IHb.
  - destruct rb as [|y rb'].
    + rewrite Dc_nil_r. clear IH Hm. generalize (x :: ra') as ra. intros ra.
      induction ra as [|z ra IHa]; cbn [length]; constructor; exact IHa.
    + rewrite Dc_cons. cbn [length] in Hm.
      pose proof (pick_in fl x y (fst (Dc fl ra' (y :: rb'))) (fst (Dc fl (x :: ra') rb'))
                          (fst (Dc fl ra' rb')) (sw_of fl x y ra' rb')) as Hin.
      apply in_candidates in Hin.
      destruct Hin as [E|[E|[[Exy E]|[(Exy & Hs & E)|(d2 & Hsw & E)]]]]; rewrite E; cbn [fst].
      * apply A_del. eapply IH; [|reflexivity]. cbn [length]. lia.
      * apply A_ins. eapply IH; [|reflexivity]. cbn [length]. lia.
      * apply cl_eqb_eq in Exy. subst y. apply A_keep. eapply IH; [|reflexivity]. lia.
      * apply A_rep; [exact Hs|]. eapply IH; [|reflexivity]. lia.
      * destruct ra' as [|x2 ra'']; [discriminate|]. destruct rb' as [|y2 rb'']; [discriminate|].
        cbn [sw_of] in Hsw. destruct (swap_ok fl x x2 y y2) eqn:Eok; [|discriminate].
        injection Hsw as <-. apply swap_ok_inv in Eok as (Hw & -> & -> & Hws).
        apply A_swap; [exact Hw|exact Hws|]. eapply IH; [|reflexivity]. cbn [length] in *. lia.
Qed.

(** * Reversal: alignments of the reversed texts are alignments of the texts *)
Lemma Align_app fl a b n a' b' m :
  Align fl a b n -> Align fl a' b' m -> Align fl (a ++ a') (b ++ b') (n + m).
Proof.
  intros H H'. induction H; cbn [app plus]; try (constructor; assumption). exact H'.
Qed.

Lemma swap_ws_ok_sym fl x y : swap_ws_ok fl x y = swap_ws_ok fl y x.
Proof. unfold swap_ws_ok. rewrite (andb_comm (negb (cl_ws x))). reflexivity. Qed.

Lemma Align_rev fl a b n : Align fl a b n -> Align fl (rev a) (rev b) n.
Proof.
  induction 1 as [|x a b n H IH|y a b n H IH|x a b n H IH|x y a b n Hs H IH|x y a b n Hw Hs H IH]; cbn [rev].
  - constructor.
  - replace n with (n + 0) by lia. apply Align_app; [exact IH|]. repeat constructor.
  - replace (S n) with (n + 1) by lia. rewrite <- (app_nil_r (rev a)). apply Align_app; [exact IH|]. repeat constructor.
  - replace (S n) with (n + 1) by lia. rewrite <- (app_nil_r (rev b)). apply Align_app; [exact IH|]. repeat constructor.
  - replace (S n) with (n + 1) by lia. apply Align_app; [exact IH|]. apply A_rep; [exact Hs|constructor].
  - replace (S n) with (n + 1) by lia. rewrite <- !app_assoc. cbn [app].
    apply Align_app; [exact IH|]. apply A_swap; [exact Hw|rewrite swap_ws_ok_sym; exact Hs|constructor].
Qed.

Lemma Align_rev_iff fl a b n : Align fl (rev a) (rev b) n <-> Align fl a b n.
Proof.
  split; intros H; [|apply Align_rev; exact H].
  apply Align_rev in H. rewrite !rev_involutive in H. exact H.
Qed.

(** * The reference distance [Dref] is the minimum alignment cost *)
Lemma Dref_achieved fl a b : Align fl a b (Dref fl a b).
Proof. apply Align_rev_iff. apply Dc_achieved. Qed.
Lemma Dref_minimal fl a b n : Align fl a b n -> Dref fl a b <= n.
Proof. intros H. apply Dc_minimal. apply Align_rev_iff. exact H. Qed.

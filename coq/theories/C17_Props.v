(** C17 — pinned statements. Groups: [tg]; [tg_len] = TokenGroup::len; [weights true] = get_weights(Mean) over Q;
    [sparse] = token_groups_to_sparse_coo_matrix ([None] = its assertions fail); an [item] is (groups, mean?). *)
From TU Require Import Base C01_Model C01_Proofs C17_Model C17_Proofs C17_Check.
From Coq Require Import QArith.
From TU Require Import UAX29_Model C01_UAX29 C17_UAX29.
Open Scope nat_scope.

(** The token groups of the byte tokenizer partition the id sequence: the (nested) group lengths sum to the number
    of ids, and there is one group per prefix token, character (cluster), special token and suffix token.
    [clusters_ok]: the segmentation of every regular segment concatenates to it (automatic in code-point mode). *)
Theorem groups_partition : forall tokens padto pad prefix suffix b cpg g s ign os,
  byte_base tokens padto pad prefix suffix = Some b ->
  clusters_ok g (split_input (b_sv b) s ign) os ->
  exists ids, byte_tokenize b s ign = Some ids
    /\ list_sum (map tg_len (byte_groups b cpg g s ign os)) = length ids
    /\ length (byte_groups b cpg g s ign os)
       = length prefix + n_chars g (split_input (b_sv b) s ign) os + length suffix.
Proof. exact groups_partition_l. Qed.
Print Assumptions groups_partition.

Theorem weights_len : forall mean g, length (weights mean g) = tg_len g.
Proof. exact weights_length. Qed.
Print Assumptions weights_len.

(** If the group lengths of every item sum to its declared length, the builder does not fail; there is exactly one
    entry per token (row 0 = item index, row 2 = position in the item, row 1 = index of the group containing it),
    [sum lengths] entries in every row and in the values, every index inside the declared size. *)
Theorem sparse_ok : forall items lengths, Equations items lengths ->
  exists s, sparse items lengths = Some s
    /\ s_r0 s = spec_r0 0 lengths /\ s_r1 s = spec_r1 items /\ s_r2 s = spec_r2 lengths
    /\ length (s_r0 s) = list_sum lengths /\ length (s_r1 s) = list_sum lengths
    /\ length (s_r2 s) = list_sum lengths /\ length (s_vals s) = list_sum lengths
    /\ s_size s = [length items; list_max0 (s_gl s); list_max0 lengths]
    /\ s_gl s = map (fun it : item => length (fst it)) items
    /\ Forall (fun x => x < nth 0 (s_size s) 0) (s_r0 s)
    /\ Forall (fun x => x < nth 1 (s_size s) 0) (s_r1 s)
    /\ Forall (fun x => x < nth 2 (s_size s) 0) (s_r2 s).
Proof. exact sparse_ok_l. Qed.
Print Assumptions sparse_ok.

(** ... and the values are, group by group, the mean weights / ones. *)
Theorem sparse_values : forall items lengths, Equations items lengths ->
  exists s, sparse items lengths = Some s
    /\ s_vals s = flat_map (fun it : item => flat_map (fun g => if snd it then weights true g else repeat 1%Q (tg_len g)) (fst it)) items.
Proof. intros items lengths H. exists (spec_out items lengths). split; [apply sparse_spec; exact H|reflexivity]. Qed.
Print Assumptions sparse_values.

(** The builder fails (assertion) exactly when some item's group lengths do not sum to its length. *)
Theorem sparse_fails_iff : forall items lengths, sparse items lengths = None <-> ~ Equations items lengths.
Proof.
  intros items lengths. split.
  - intros H E. rewrite (sparse_spec _ _ E) in H. discriminate.
  - apply sparse_none.
Qed.
Print Assumptions sparse_fails_iff.

(** Mean aggregation: the weights of a group whose nested parts all contain a token sum to one (over Q). *)
Theorem weights_sum : forall g, positiveb g = true -> (sumQ (weights true g) == 1)%Q.
Proof. exact weights_sum_l. Qed.
Print Assumptions weights_sum.

(** Sum aggregation: the builder leaves all values at one. *)
Theorem weights_sum_mode : forall groups, item_vals false groups = repeat 1%Q (list_sum (map tg_len groups)).
Proof. exact item_vals_sum. Qed.
Print Assumptions weights_sum_mode.

(** Every group the byte tokenizer produces is positive (clusters are non-empty, UTF-8 encodings are non-empty). *)
Theorem byte_groups_positive : forall b cpg g s ign os,
  clusters_ne g (split_input (b_sv b) s ign) os ->
  forallb positiveb (byte_groups b cpg g s ign os) = true.
Proof. exact byte_groups_positive_l. Qed.
Print Assumptions byte_groups_positive.

Theorem clusters_nonempty : forall segs os,
  clusters_ne false segs os /\ (oracle_okb segs os = true -> clusters_ne true segs os).
Proof. intros segs os. split; [apply clusters_ne_cp|apply clusters_ne_oracle]. Qed.
Print Assumptions clusters_nonempty.

(** Padding: row i = item i followed by padding only, all rows have the maximal length, reported lengths are exact. *)
Theorem pad_spec : forall (rows : list (list Z)) (pad : Z),
  let m := list_max0 (map (@length Z) rows) in
  snd (pad_rows rows pad) = map (@length Z) rows /\
  Forall2 (fun r r' => r' = r ++ repeat pad (m - length r) /\ length r' = m /\ length r <= m) rows (fst (pad_rows rows pad)).
Proof. intros rows pad. apply pad_rows_spec. Qed.
Print Assumptions pad_spec.

(** The padding mask is true exactly on the first [l] positions of the row of an item of length [l]. *)
Theorem mask_spec : forall lengths,
  let m := list_max0 lengths in
  Forall2 (fun l row => row = repeat true l ++ repeat false (m - l) /\ length row = m /\ l <= m) lengths (padding_mask lengths).
Proof. exact padding_mask_spec. Qed.
Print Assumptions mask_spec.

Theorem equations_sound : forall items lengths, equationsb items lengths = true <-> Equations items lengths.
Proof. exact equationsb_spec. Qed.
Print Assumptions equations_sound.

(** The executable statement evaluated on every implementation output holds of the model's own output. *)
Theorem check_run : forall v, check_C17 v (run_C17 v) = true.
Proof. exact check_run_l. Qed.
Print Assumptions check_run.

(** Non-vacuity: two items, nested groups, mean. *)
Example sparse_witness :
  let items := [([Full 1; Nested [Full 2; Full 1]; Full 3], true); ([Nested [Full 1]], true)] in
  equationsb items [7; 1] = true
  /\ forallb (fun it : item => forallb positiveb (fst it)) items = true
  /\ option_map s_r1 (sparse items [7; 1]) = Some [0;1;1;1;2;2;2;0]
  /\ option_map s_size (sparse items [7; 1]) = Some [2; 3; 7]
  /\ sparse items [7; 2] = None.
Proof. vm_compute. repeat split. Qed.

(** ** Grapheme mode with the segmenter inside the model (UAX29_Model.segment, tied to the crate
    unicode-segmentation by the correspondence [uax29_agree]).  [byte_groups_u b cpg s ign] = the groups of
    the byte tokenizer in grapheme mode computing its own segmentation ([segment] of every regular segment
    of the special-token split).  No premise on a segmentation is left. *)

(** the group lengths sum to the number of ids; one group per prefix token, per cluster of [segment] of
    each regular segment, per special token, per suffix token; every group is positive *)
Theorem groups_partition_u : forall tokens padto pad prefix suffix b cpg s ign,
  byte_base tokens padto pad prefix suffix = Some b ->
  exists ids, byte_tokenize b s ign = Some ids
    /\ list_sum (map tg_len (byte_groups_u b cpg s ign)) = length ids
    /\ length (byte_groups_u b cpg s ign)
       = length prefix + n_chars_u (split_input (b_sv b) s ign) + length suffix
    /\ forallb positiveb (byte_groups_u b cpg s ign) = true.
Proof. exact groups_partition_u_l. Qed.
Print Assumptions groups_partition_u.

(** the groups written without an oracle *)
Theorem byte_groups_u_spec : forall b cpg s ign,
  byte_groups_u b cpg s ign
  = repeat (Full 1) (length (b_pre b)) ++ segs_groups_u cpg (split_input (b_sv b) s ign)
    ++ repeat (Full 1) (length (b_suf b)).
Proof. exact byte_groups_u_eq. Qed.
Print Assumptions byte_groups_u_spec.

(** parsing off: exactly one group per cluster of [segment s], with as many tokens as the cluster has
    UTF-8 bytes ([Full #bytes], or one nested [Full] per code point for code-point groups) *)
Theorem groups_ign_u : forall b cpg s,
  byte_groups_u b cpg s true
  = repeat (Full 1) (length (b_pre b)) ++ map (cluster_group cpg) (segment s)
    ++ repeat (Full 1) (length (b_suf b))
  /\ Forall2 (fun c g => tg_len g = length (utf8s c)
                         /\ g = (if cpg then Nested (map (fun x => Full (length (utf8 x))) c)
                                 else Full (length (utf8s c))))
             (segment s) (map (cluster_group cpg) (segment s)).
Proof. exact groups_ign_u_l. Qed.
Print Assumptions groups_ign_u.

(** mode-0 inputs whose oracles are computed by the model pass the segmenter correspondence; an accepted
    input carries, for every text and regular segment, the model's own segmentation *)
Theorem uax29_agree_model : forall cfgv mean ign texts g segss,
  c_g (v_cfg cfgv) = g ->
  uax29_agree (L [I 0%Z; cfgv; mean; ign; texts;
                  list_v (list_v (list_v str_v)) (map (oracle_u g) segss)]) = true.
Proof. exact uax29_agree_mode0. Qed.
Print Assumptions uax29_agree_model.

Theorem uax29_agree_sound : forall v, uax29_agree v = true -> v_z (v_nth 0 v) = 0%Z ->
  Forall (Forall (fun o => o = seg_of (c_g (v_cfg (v_nth 1 v))) (concat o)))
         (v_list (v_list (v_list v_str)) (v_nth 5 v)).
Proof. exact uax29_agree_sound_l. Qed.
Print Assumptions uax29_agree_sound.

(** Non-vacuity: "e U+0301 <pad> flag" parsed with default tokens: groups 3 bytes | special | 8 bytes; with
    code-point groups the first is Nested [Full 1; Full 2] *)
Example groups_u_witness :
  let toks := [[60;117;110;107;62];[60;98;111;115;62];[60;101;111;115;62];[60;112;97;100;62]]%N in
  exists b, byte_base toks None [60;112;97;100;62]%N [] [] = Some b
    /\ byte_groups_u b false [101;769;60;112;97;100;62;127465;127466]%N false = [Full 3; Full 1; Full 8]
    /\ byte_groups_u b true [101;769;60;112;97;100;62;127465;127466]%N false
       = [Nested [Full 1; Full 2]; Full 1; Nested [Full 4; Full 4]].
Proof. cbv zeta. eexists. split; [vm_compute; reflexivity|]. vm_compute. split; reflexivity. Qed.

(** C17 — pinned statements. *)
From TU Require Import Base C01_Model C17_Model C17_Proofs.

Theorem weights_len : forall mean g, length (weights mean g) = tg_len g.
Proof. exact weights_length. Qed.
Print Assumptions weights_len.

(** C09, third clause ("a panicking worker terminates the process"): the PROCESS-WIDE panic hook as a state machine.

    The crate has two places that overwrite the process-wide panic hook:
      - [Pipe::new] (src/data/loading.rs): whenever a pipe with >= 1 worker threads is created it installs
        "warn! + process::exit(1)" ([HExit]); nothing is done when the pipe is dropped;
      - [train_bpe] (src/tokenization.rs): installs a hook that prints "thread panicked: .." with println!.
        At the pinned commit that hook REPLACED whatever was installed ([HPrintOnly]); the repaired code
        (repo commit "fix: train_bpe keeps the panic hook that was installed ...") first runs the hook that was
        installed before and then prints ([HThenPrint prev]).
    Which hook runs when a worker panics is therefore a function of the HISTORY of API calls. This file is
    the executable model of that bookkeeping (definitions only; proofs in C09_HookProofs.v).

    What a hook does when it runs ([fire]): [HExit] ends the process; [HDefault] (std's message to stderr) and
    [HForeign] (a hook installed by code outside the crate) return; a println! layer returns after printing one
    line, or never returns when another thread holds the process-wide stdout lock ([blocked_print]: the usual
    `let mut out = stdout().lock(); for x in pipe { writeln!(out, ..) }` consumer loop).
    When the hook returns, the panicking thread unwinds and dies; for a worker of a threaded pipe that is the
    situation of theorem [pipe_panic_wedges] (the turn is never handed on: the consumer blocks forever; with a
    single worker the channel closes instead and the stream silently ends).

    Alternative bookkeepings are selectable by a [policy] so that they can be refuted as theorems:
    [PipeRestore] = seeded change C09-2 (Pipe::new remembers the previous hook, Drop puts it back),
    [PipeOnce] = seeded change C09-4 (hook installed through a process-wide Once), [TrainPinned] = the pinned
    train_bpe, [TrainPrintFirst] = a repair that prints before it chains. *)
From TU Require Import Base C09_Model.

Inductive hook :=
| HDefault
| HExit
| HForeign
| HPrintOnly
| HThenPrint (prev : hook)   (* prev(info); println!(..)   -- the repaired train_bpe *)
| HPrintThen (prev : hook).  (* println!(..); prev(info)   -- alternative repair, refuted *)

Inductive fired := FExit (prints : nat) | FReturn (prints : nat) | FBlock (prints : nat).

(** [blocked_print]: stdout is locked by a thread other than the panicking one *)
Fixpoint fire (blocked_print : bool) (h : hook) : fired :=
  match h with
  | HDefault | HForeign => FReturn 0
  | HExit => FExit 0
  | HPrintOnly => if blocked_print then FBlock 0 else FReturn 1
  | HThenPrint p =>
      match fire blocked_print p with
      | FReturn n => if blocked_print then FBlock n else FReturn (S n)
      | r => r
      end
  | HPrintThen p =>
      if blocked_print then FBlock 0
      else match fire blocked_print p with
           | FExit n => FExit (S n)
           | FReturn n => FReturn (S n)
           | FBlock n => FBlock (S n)
           end
  end.

Inductive pipe_pol := PipeAlways | PipeOnce | PipeRestore.
Inductive train_pol := TrainPinned | TrainChain | TrainPrintFirst.
Record policy := { ppol : pipe_pol; tpol : train_pol }.

(** the code as repaired, and as it was at the pinned commit *)
Definition repaired : policy := {| ppol := PipeAlways; tpol := TrainChain |}.
Definition pinned : policy := {| ppol := PipeAlways; tpol := TrainPinned |}.

(** one pipe that was created: worker threads (0 = unthreaded: the function runs on the consumer's thread),
    not yet dropped, ghost: a foreign hook was installed since it was created, C09-2 only: the hook it saved *)
Record pipe := { p_threads : nat; p_live : bool; p_clob : bool; p_saved : option hook }.

Record hstate := { h_hook : hook; h_pipes : list pipe; h_once : bool; h_locked : bool }.

Definition hinit : hstate := {| h_hook := HDefault; h_pipes := []; h_once := false; h_locked := false |}.

Inductive op :=
| NewPipe (w : nat)      (* iter.pipe(f, w) *)
| DropPipe (i : nat)     (* the i-th pipe created is dropped *)
| TrainBpe
| PanicIn (i : nat)      (* the processing function of pipe i panics on the next item *)
| PanicElsewhere         (* a panic on a thread that belongs to no pipe *)
| ForeignHook            (* code outside the crate calls panic::set_hook with a hook that returns *)
| LockStdout
| UnlockStdout
| Nop.

Fixpoint upd {A} (i : nat) (f : A -> A) (l : list A) : list A :=
  match l, i with
  | [], _ => []
  | x :: r, O => f x :: r
  | x :: r, S j => x :: upd j f r
  end.

Definition set_dead (p : pipe) : pipe :=
  {| p_threads := p_threads p; p_live := false; p_clob := p_clob p; p_saved := p_saved p |}.
Definition set_clob (p : pipe) : pipe :=
  {| p_threads := p_threads p; p_live := p_live p; p_clob := true; p_saved := p_saved p |}.
Definition new_pipe (w : nat) (saved : option hook) : pipe :=
  {| p_threads := w; p_live := true; p_clob := false; p_saved := saved |}.

Definition train_hook (t : train_pol) (h : hook) : hook :=
  match t with
  | TrainPinned => HPrintOnly
  | TrainChain => HThenPrint h
  | TrainPrintFirst => HPrintThen h
  end.

(** the alternative bookkeepings that are refuted in C09_Props.v *)
Definition restore_on_drop : policy := {| ppol := PipeRestore; tpol := TrainChain |}.   (* seeded C09-2 on the repaired tree *)
Definition once_pinned : policy := {| ppol := PipeOnce; tpol := TrainPinned |}.        (* seeded C09-4 as it was seeded *)
Definition once_chain : policy := {| ppol := PipeOnce; tpol := TrainChain |}.          (* seeded C09-4 on the repaired tree *)
Definition print_first : policy := {| ppol := PipeAlways; tpol := TrainPrintFirst |}.  (* println!, then the previous hook *)

(** bookkeeping of one API call (a panic does not change it) *)
Definition hstep (pol : policy) (s : hstate) (o : op) : hstate :=
  match o with
  | NewPipe O =>
      {| h_hook := h_hook s; h_pipes := h_pipes s ++ [new_pipe 0 None]; h_once := h_once s; h_locked := h_locked s |}
  | NewPipe w =>
      match ppol pol with
      | PipeAlways =>
          {| h_hook := HExit; h_pipes := h_pipes s ++ [new_pipe w None]; h_once := h_once s; h_locked := h_locked s |}
      | PipeOnce =>
          {| h_hook := if h_once s then h_hook s else HExit; h_pipes := h_pipes s ++ [new_pipe w None];
             h_once := true; h_locked := h_locked s |}
      | PipeRestore =>
          {| h_hook := HExit; h_pipes := h_pipes s ++ [new_pipe w (Some (h_hook s))];
             h_once := h_once s; h_locked := h_locked s |}
      end
  | DropPipe i =>
      match nth_error (h_pipes s) i with
      | Some p =>
          if p_live p then
            {| h_hook := match ppol pol, p_saved p with PipeRestore, Some h => h | _, _ => h_hook s end;
               h_pipes := upd i set_dead (h_pipes s); h_once := h_once s; h_locked := h_locked s |}
          else s
      | None => s
      end
  | TrainBpe =>
      {| h_hook := train_hook (tpol pol) (h_hook s); h_pipes := h_pipes s; h_once := h_once s; h_locked := h_locked s |}
  | ForeignHook =>
      {| h_hook := HForeign; h_pipes := map set_clob (h_pipes s); h_once := h_once s; h_locked := h_locked s |}
  | LockStdout => {| h_hook := h_hook s; h_pipes := h_pipes s; h_once := h_once s; h_locked := true |}
  | UnlockStdout => {| h_hook := h_hook s; h_pipes := h_pipes s; h_once := h_once s; h_locked := false |}
  | PanicIn _ | PanicElsewhere | Nop => s
  end.

Definition hexec (pol : policy) (s : hstate) (ops : list op) : hstate := fold_left (hstep pol) ops s.

(** [DropPipe i] is nested: no pipe created after pipe i is still alive with worker threads; a history is well
    nested when every drop is (pipes are dropped in reverse order of creation) *)
Definition live_threaded (p : pipe) : bool := p_live p && negb (Nat.eqb (p_threads p) 0).

Definition nested_drop (s : hstate) (o : op) : bool :=
  match o with
  | DropPipe i => forallb (fun p => negb (live_threaded p)) (skipn (S i) (h_pipes s))
  | _ => true
  end.

Fixpoint well_nested (pol : policy) (s : hstate) (ops : list op) : bool :=
  match ops with
  | [] => true
  | o :: r => nested_drop s o && well_nested pol (hstep pol s o) r
  end.

(** which thread panics *)
Inductive target := TWorker (w : nat) | TConsumer | TOther.

Definition hpanic (s : hstate) (o : op) : option target :=
  match o with
  | PanicIn i =>
      match nth_error (h_pipes s) i with
      | Some p => if p_live p then Some (match p_threads p with O => TConsumer | w => TWorker w end) else None
      | None => None
      end
  | PanicElsewhere => Some TOther
  | _ => None
  end.

(** how a run of the process ends; the numbers are the exit statuses of the harness child *)
Inductive status :=
| Finished           (* 0: every operation done *)
| Exited             (* 1: the exit hook ended the process *)
| Blocked            (* 42: the consumer of the pipe (or whoever waits for the panicking thread) blocks forever *)
| Truncated          (* 43: single worker died: the stream silently ends *)
| ConsumerPanicked.  (* 101: unthreaded pipe: the consumer's own thread unwinds *)

(** lines printed by the hook, and the terminal status if the run ends here *)
Definition verdict (s : hstate) (t : target) : nat * option status :=
  let bp := match t with TConsumer => false | _ => h_locked s end in
  match fire bp (h_hook s), t with
  | FExit n, _ => (n, Some Exited)
  | FBlock n, _ => (n, Some Blocked)
  | FReturn n, TWorker 1 => (n, Some Truncated)
  | FReturn n, TWorker _ => (n, Some Blocked)
  | FReturn n, TConsumer => (n, Some ConsumerPanicked)
  | FReturn n, TOther => (n, None)
  end.

Definition panic_result (s : hstate) (o : op) : option (nat * option status) :=
  option_map (verdict s) (hpanic s o).

(** a whole process: status and the number of lines printed during each operation that was started *)
Fixpoint hrun (pol : policy) (s : hstate) (ops : list op) : status * list nat :=
  match ops with
  | [] => (Finished, [])
  | o :: rest =>
      match hpanic s o with
      | Some t =>
          match verdict s t with
          | (n, Some st) => (st, [n])
          | (n, None) => let (st, l) := hrun pol s rest in (st, n :: l)
          end
      | None => let (st, l) := hrun pol (hstep pol s o) rest in (st, 0 :: l)
      end
  end.

(** * What the property demands of a run (independent of the hook bookkeeping) *)

(** operation [o] is a panic in a worker of a live threaded pipe created after the last foreign hook *)
Definition protected_panic (s : hstate) (o : op) : bool :=
  match o with
  | PanicIn i =>
      match nth_error (h_pipes s) i with
      | Some p => p_live p && negb (Nat.eqb (p_threads p) 0) && negb (p_clob p)
      | None => false
      end
  | _ => false
  end.

(** index of the first protected panic; the pipe fields it reads evolve identically under every policy *)
Fixpoint first_protected (s : hstate) (ops : list op) : option nat :=
  match ops with
  | [] => None
  | o :: rest => if protected_panic s o then Some 0 else option_map S (first_protected (hstep repaired s o) rest)
  end.

Definition status_code (st : status) : Z :=
  match st with Finished => 0 | Exited => 1 | Blocked => 42 | Truncated => 43 | ConsumerPanicked => 101 end%Z.

Definition known_status (z : Z) : bool :=
  (Z.eqb z 0 || Z.eqb z 1 || Z.eqb z 42 || Z.eqb z 43 || Z.eqb z 101)%bool.

(** the executable statement for an observed run (status code, per-operation line counts):
    the run is well-formed, and if it reaches the first protected panic the process exits there with status 1 *)
Definition hook_ok (ops : list op) (code : Z) (counts : list nat) : bool :=
  known_status code
  && (length counts <=? length ops)%nat
  && (if Z.eqb code 0 then Nat.eqb (length counts) (length ops) else negb (Nat.eqb (length counts) 0))
  && match first_protected hinit ops with
     | None => true
     | Some k => (length counts <=? k)%nat || (Nat.eqb (length counts) (S k) && Z.eqb code 1)
     end.

(** * val glue: input (5 codes 0 () 0 0), one operation = kind * 8 + arg *)
Definition op_of_code (c : nat) : op :=
  let arg := Nat.modulo c 8 in
  match Nat.div c 8 with
  | 0 => NewPipe (Nat.modulo arg 4)
  | 1 => DropPipe arg
  | 2 => TrainBpe
  | 3 => PanicIn arg
  | 4 => PanicElsewhere
  | 5 => ForeignHook
  | 6 => LockStdout
  | 7 => UnlockStdout
  | _ => Nop
  end%nat.

Definition hook_ops (v : val) : list op := map op_of_code (v_list v_nat (v_nth 1 v)).

Definition run_hook (v : val) : val :=
  let (st, counts) := hrun repaired hinit (hook_ops v) in
  L [I (status_code st); list_v nat_v counts].

Definition check_hook (v o : val) : bool :=
  match o with
  | L [I code; L counts] => hook_ok (hook_ops v) code (map v_nat counts)
  | _ => false
  end.

Definition is_hook_mode (v : val) : bool := Nat.eqb (v_nat (v_nth 0 v)) 5.

Definition run_C09h (v : val) : val := if is_hook_mode v then run_hook v else run_C09 v.
Definition check_C09h (v o : val) : bool := if is_hook_mode v then check_hook v o else check_C09 v o.
Definition agree_C09h (v m o : val) : bool := if is_hook_mode v then val_eqb m o else agree_C09 v m o.

(** MessagePack of the merge file ([MergeOps = HashMap<Vec<u8>, u32>], rmp-serde 1.3.1) — pinned statements.
    Nothing but statements, [exact], assumption audits and examples.
    [mp_encode m]   = [rmp_serde::to_vec] of a map whose iteration order is the list [m] of (key, id);
    [mp_parse bs]   = what [rmp_serde::from_read] accepts for this type: the entries in file order and the
                      bytes it did not read ([mp_decode] drops them: the real loader ignores trailing bytes);
    [fm_get es]     = the [HashMap] after inserting the entries in order (the later entry wins);
    [load_table bs] = [MergeOps::load] followed by [sorted_by_key(id)] of [BPETokenizer::new], as the table in
                      id order the tokenizer models take, when the ids are exactly 0..n-1.
    [table_in_limits m]: at most 2^32-1 entries, keys of at most 2^32-1 bytes (< 256 each), ids <= 2^32-1 — the
    three lengths are written [as u32]; beyond that the writer truncates the header. *)
From TU Require Import Base MsgPack_Model MsgPack_Codec MsgPack_Stream MsgPack_Map MsgPack_Tie.
From Coq Require Import Permutation.
Open Scope N_scope.

(** ** writer / reader *)

(** The reader inverts the writer, for every table within the limits and EVERY entry order; whatever follows
    the map is left unread. *)
Theorem mp_roundtrip : forall m rest, table_in_limits m -> mp_parse (mp_encode m ++ rest) = Some (m, rest).
Proof. exact (mp_parse_encode_l true). Qed.
Print Assumptions mp_roundtrip.

Theorem mp_decode_encode : forall m, table_in_limits m -> mp_decode (mp_encode m) = Some m.
Proof. exact mp_decode_encode_l. Qed.
Print Assumptions mp_decode_encode.

(** What is true of trailing garbage: it is IGNORED ([rmp_serde::from_read] never looks behind the value). *)
Theorem mp_decode_trailing : forall m junk, table_in_limits m -> mp_decode (mp_encode m ++ junk) = Some m.
Proof. exact mp_decode_trailing_l. Qed.
Print Assumptions mp_decode_trailing.

(** The writer emits bytes. *)
Theorem mp_encode_bytes : forall m, table_in_limits m -> Forall (fun b => b < 256) (mp_encode m).
Proof. exact mp_encode_isbyte_l. Qed.
Print Assumptions mp_encode_bytes.

(** Canonical per order: two tables, or two orders of one table, never share a file. *)
Theorem mp_encode_inj : forall m m', table_in_limits m -> table_in_limits m' -> mp_encode m = mp_encode m' -> m = m'.
Proof. exact mp_encode_inj_l. Qed.
Print Assumptions mp_encode_inj.

(** The reader is a stream function: what it returns does not depend on what follows the part it read ... *)
Theorem mp_parse_extend : forall bs m rest x, mp_parse bs = Some (m, rest) -> mp_parse (bs ++ x) = Some (m, rest ++ x).
Proof. exact (mp_parse_ext_l true). Qed.
Print Assumptions mp_parse_extend.

(** ... the unread rest is a suffix of the input, something was read, and what was read from a byte string is a
    table within the writer's limits. *)
Theorem mp_parse_consumed : forall bs m rest, mp_parse bs = Some (m, rest) ->
  exists used, bs = used ++ rest /\ used <> [] /\ (Forall (fun b => b < 256) bs -> table_in_limits m).
Proof. exact mp_parse_consumed_l. Qed.
Print Assumptions mp_parse_consumed.

(** Truncation: no strict prefix of a written file is accepted ... *)
Theorem mp_truncated_rejected : forall m p q, table_in_limits m -> mp_encode m = p ++ q -> q <> [] -> mp_decode p = None.
Proof. exact mp_truncated_l. Qed.
Print Assumptions mp_truncated_rejected.

(** ... nor a strict prefix of any stream the reader reads to its end. *)
Theorem mp_prefix_rejected : forall bs m p q, mp_parse bs = Some (m, []) -> bs = p ++ q -> q <> [] -> mp_decode p = None.
Proof. exact mp_prefix_rejected_l. Qed.
Print Assumptions mp_prefix_rejected.

(** Whatever the reader accepts can be written and read again. *)
Theorem mp_reencode : forall bs m rest, Forall (fun b => b < 256) bs -> mp_parse bs = Some (m, rest) ->
  mp_decode (mp_encode m) = Some m.
Proof. exact mp_reencode_l. Qed.
Print Assumptions mp_reencode.

(** Minimal-width integers and headers: within the sub-format with array keys (what the writer emits; it is
    accepted by the full reader) no accepted stream for a table is shorter than the writer's. *)
Theorem mp_encode_shortest : forall bs m rest, Forall (fun b => b < 256) bs ->
  mp_parse_with false bs = Some (m, rest) -> (length (mp_encode m) + length rest <= length bs)%nat.
Proof. exact mp_encode_shortest_l. Qed.
Print Assumptions mp_encode_shortest.

Theorem mp_array_subformat : forall bs x, mp_parse_with false bs = Some x -> mp_parse bs = Some x.
Proof. exact mp_parse_sub_l. Qed.
Print Assumptions mp_array_subformat.

(** With bin keys (accepted by the reader: [deserialize_seq] hands a bin payload to [visit_seq]) a shorter file
    exists, so minimality is a fact about the array sub-format only ... *)
Theorem mp_shortest_bin_refuted : exists bs m,
  mp_decode bs = Some m /\ (length bs < length (mp_encode m))%nat.
Proof. exact mp_shortest_bin_refuted_l. Qed.
Print Assumptions mp_shortest_bin_refuted.

(** ... and the shortest stream is not unique: int16 256 is as long as uint16 256. *)
Theorem mp_shortest_not_unique_refuted : exists bs m,
  mp_parse_with false bs = Some (m, []) /\ length bs = length (mp_encode m) /\ bs <> mp_encode m.
Proof. exact mp_shortest_not_unique_l. Qed.
Print Assumptions mp_shortest_not_unique_refuted.

(** The fuel of the two loops ([length] of the remaining input) is never what decides. *)
Theorem mp_fuel_elems : forall f1 f2 n bs, (length bs <= f1)%nat -> (length bs <= f2)%nat ->
  dec_elems f1 n bs = dec_elems f2 n bs.
Proof. exact dec_elems_fuel_l. Qed.
Print Assumptions mp_fuel_elems.
Theorem mp_fuel_entries : forall bin f1 f2 n bs, (length bs <= f1)%nat -> (length bs <= f2)%nat ->
  dec_entries bin f1 n bs = dec_entries bin f2 n bs.
Proof. exact dec_entries_fuel_l. Qed.
Print Assumptions mp_fuel_entries.

(** ** the loaded map *)

(** A file written from a map (distinct keys) gives the same map whatever the iteration order was. *)
Theorem fm_get_perm : forall es es' k, NoDup (map fst es) -> Permutation es es' -> fm_get es k = fm_get es' k.
Proof. exact fm_get_perm_l. Qed.
Print Assumptions fm_get_perm.

(** [fm_items]: one entry per key, carrying the value that won; it is the same map; for distinct keys it is the
    entry list itself. *)
Theorem fm_items_spec : forall es, NoDup (map fst (fm_items es)) /\
  (forall k v, In (k, v) (fm_items es) <-> fm_get es k = Some v) /\
  (forall k, fm_get (fm_items es) k = fm_get es k) /\
  (NoDup (map fst es) -> fm_items es = es).
Proof. exact fm_items_spec_l. Qed.
Print Assumptions fm_items_spec.

(** ** the table *)

(** The keys in id order are found exactly when the items are the entries of a table (id = position), in any order. *)
Theorem table_of_items_iff : forall items tbl,
  table_of_items items = Some tbl <-> Permutation items (entries_of_table tbl).
Proof. exact table_of_items_iff_l. Qed.
Print Assumptions table_of_items_iff.

(** THE FILE OF A TABLE LOADS AS THAT TABLE: for every table of distinct keys within the limits, every order [es] in
    which the map may iterate while it is written, and any bytes behind the map. *)
Theorem load_saved : forall tbl es junk, NoDup tbl -> N.of_nat (length tbl) <= u32_max ->
  Forall (fun k => N.of_nat (length k) <= u32_max /\ Forall (fun b => b < 256) k) tbl ->
  Permutation es (entries_of_table tbl) ->
  mp_parse (mp_encode es ++ junk) = Some (es, junk) /\ load_table (mp_encode es ++ junk) = Loaded tbl.
Proof. exact load_saved_l. Qed.
Print Assumptions load_saved.

(** What [Loaded tbl] means for ANY byte string: the map's items are the entries of [tbl], the keys are distinct,
    and [HashMap::get] is "position in [tbl]". *)
Theorem load_table_sound : forall bs tbl, load_table bs = Loaded tbl ->
  exists es rest, mp_parse bs = Some (es, rest) /\
    Permutation (fm_items es) (entries_of_table tbl) /\ NoDup tbl /\
    (forall k i, fm_get es k = Some i <-> exists j, i = N.of_nat j /\ nth_error tbl j = Some k).
Proof. exact load_table_sound_l. Qed.
Print Assumptions load_table_sound.

Theorem load_error_iff : forall bs, load_table bs = LoadError <-> mp_decode bs = None.
Proof. exact load_error_iff_l. Qed.
Print Assumptions load_error_iff.

(** ** the correspondence relations *)

(** [load_agree] accepted: the model read the bytes and the real loader's map is the model's. *)
Theorem load_agree_sound : forall fb lv, load_agree fb lv = true ->
  Forall (fun b => b < 256) (v_list v_n fb) /\
  exists es, mp_decode (v_list v_n fb) = Some es /\ v_entries lv = sort_items (fm_items es) /\
             Permutation (v_entries lv) (fm_items es) /\
             (forall k, fm_get (v_entries lv) k = fm_get es k).
Proof. exact load_agree_sound_l. Qed.
Print Assumptions load_agree_sound.

(** [saved_agree] accepted: the file on disk is [mp_encode] of the table's entries in some order with nothing behind,
    it loads as the table, and the real loader read exactly these entries. *)
Theorem saved_agree_sound : forall tbl fb lv, saved_agree tbl fb lv = true ->
  exists es, v_list v_n fb = mp_encode es /\ mp_parse (v_list v_n fb) = Some (es, []) /\
             Permutation es (entries_of_table tbl) /\ NoDup tbl /\ table_in_limits es /\
             load_table (v_list v_n fb) = Loaded tbl /\
             v_entries lv = sort_items es.
Proof. exact saved_agree_sound_l. Qed.
Print Assumptions saved_agree_sound.

(** No false alarm from the file check: the model writer's file for a table, in any order, is accepted. *)
Theorem saved_agree_complete : forall tbl es, NoDup tbl -> N.of_nat (length tbl) <= u32_max ->
  Forall (fun k => N.of_nat (length k) <= u32_max /\ Forall (fun b => b < 256) k) tbl ->
  Permutation es (entries_of_table tbl) ->
  saved_agree tbl (list_v n_v (mp_encode es)) (items_val (sort_items es)) = true.
Proof. exact saved_agree_complete_l. Qed.
Print Assumptions saved_agree_complete.

(** ** examples: the premises are met, and the reader's verdict on streams the writer never produces *)
Definition ex_tbl : list (list N) := [[97; 98]; [32; 97; 98]; [195; 164]].
Definition ex_es : list (list N * N) := [([195; 164], 2); ([97; 98], 0); ([32; 97; 98], 1)].
Example ex_limits : table_in_limits ex_es.
Proof. split; [vm_compute; discriminate|]. repeat constructor; vm_compute; congruence. Qed.
Example ex_perm : Permutation ex_es (entries_of_table ex_tbl).
Proof. vm_compute. apply Permutation_cons_app with (l1 := [([97; 98], 0); ([32; 97; 98], 1)]) (l2 := []). reflexivity. Qed.
Example ex_encode : mp_encode ex_es = [131; 146; 204; 195; 204; 164; 2; 146; 97; 98; 0; 147; 32; 97; 98; 1].
Proof. vm_compute. reflexivity. Qed.
Example ex_load : load_table (mp_encode ex_es ++ [255; 0]) = Loaded ex_tbl.
Proof. vm_compute. reflexivity. Qed.
(** accepted although never written: map16 header, array16 key, uint16 / int8 / int64 integers, a bin8 key *)
Example ex_wide : mp_parse [222; 0; 2;  220; 0; 2; 205; 0; 97; 208; 98; 211; 0; 0; 0; 0; 0; 0; 0; 0;  196; 1; 200; 206; 0; 0; 0; 1]
  = Some ([([97; 98], 0); ([200], 1)], []).
Proof. vm_compute. reflexivity. Qed.
(** duplicate key: the later entry wins; here that leaves ids {1}: not a table *)
Example ex_dup : fm_get [([97; 98], 0); ([97; 98], 1)] [97; 98] = Some 1 /\
  load_table [130; 146; 97; 98; 0; 146; 97; 98; 1] = LoadedIllFormed [([97; 98], 1)].
Proof. vm_compute. split; reflexivity. Qed.
(** rejected: id 2^32 in a uint64; id -1 (int8, negative fixint); nil, float, string as id; a string as key;
    a key element of 256; an array at top level; one entry missing; the empty file *)
Example ex_rejected : map mp_decode
  [ [129; 145; 97; 207; 0; 0; 0; 1; 0; 0; 0; 0]; [129; 145; 97; 208; 255]; [129; 145; 97; 255]; [129; 145; 97; 192];
    [129; 145; 97; 202; 63; 128; 0; 0]; [129; 145; 97; 161; 48]; [129; 161; 97; 0]; [129; 145; 205; 1; 0; 0];
    [146; 145; 97; 0]; [130; 145; 97; 0]; [] ] = repeat None 11.
Proof. vm_compute. reflexivity. Qed.
(** the largest id is accepted (and is not a table) *)
Example ex_maxid : mp_decode [129; 145; 97; 206; 255; 255; 255; 255] = Some [([97], 4294967295)].
Proof. vm_compute. reflexivity. Qed.

(** C20 — counting: per-line maps, the reducer, exactness and schedule independence. *)
From TU Require Import Base C12_Model C20_Model C20_Topk.
From Coq Require Import Lia ZifyBool ZifyNat ZifyN Permutation.
Open Scope N_scope.
Arguments N.add : simpl never. Arguments N.sub : simpl never. Arguments N.mul : simpl never.
Arguments N.eqb : simpl never. Arguments N.ltb : simpl never. Arguments N.leb : simpl never.

(** value of a key, 0 when absent *)
Definition cnt (w : word) (m : cmap) : N := match lookup w m with Some v => v | None => 0 end.
(** total of all entries with key [w] (= [cnt] on maps without duplicate keys) *)
Fixpoint tot (w : word) (m : cmap) : N :=
  match m with
  | [] => 0
  | (k, v) :: m' => (if bytes_eqb k w then v else 0) + tot w m'
  end.
Definition keys (m : cmap) : list word := map fst m.
Definition pos_vals (m : cmap) : Prop := Forall (fun kv : word * N => 0 < snd kv) m.

Lemma sumN_nil : sumN [] = 0.
Proof. reflexivity. Qed.
Lemma sumN_cons : forall x l, sumN (x :: l) = x + sumN l.
Proof. reflexivity. Qed.

Lemma count_tok_cons : forall w x t,
  count_tok w (x :: t) = (if bytes_eqb w x then 1 else 0) + count_tok w t.
Proof. intros. unfold count_tok. cbn [filter]. destruct (bytes_eqb w x); cbn [length]; lia. Qed.
Lemma count_tok_app : forall w a b, count_tok w (a ++ b) = count_tok w a + count_tok w b.
Proof. intros. unfold count_tok. rewrite filter_app, app_length, Nat2N.inj_add. reflexivity. Qed.
Lemma count_tok_perm : forall w a b, Permutation a b -> count_tok w a = count_tok w b.
Proof.
  intros w a b P. induction P.
  - reflexivity.
  - rewrite !count_tok_cons. lia.
  - rewrite !count_tok_cons. lia.
  - lia.
Qed.
Lemma count_tok_pos_in : forall w l, 0 < count_tok w l <-> In w l.
Proof.
  intros w l. induction l as [|x t IH].
  - unfold count_tok. cbn. split; [lia|tauto].
  - rewrite count_tok_cons. cbn [In]. destruct (bytes_eqb w x) eqn:E.
    + apply bytes_eqb_eq in E. subst. split; [auto|lia].
    + apply bytes_eqb_neq in E. rewrite N.add_0_l, IH. split; [auto|]. intros [H|H]; [congruence|exact H].
Qed.

(** ** add_count *)
Lemma cnt_add_count : forall w c m w',
  cnt w' (add_count w c m) = (if bytes_eqb w w' then c else 0) + cnt w' m.
Proof.
  intros w c m w'. unfold cnt. induction m as [|[k v] m IH]; cbn [add_count lookup].
  - destruct (bytes_eqb w w'); lia.
  - destruct (bytes_eqb k w) eqn:E; cbn [lookup].
    + apply bytes_eqb_eq in E. subst k. destruct (bytes_eqb w w'); lia.
    + destruct (bytes_eqb k w') eqn:E2.
      * apply bytes_eqb_eq in E2. subst k. rewrite bytes_eqb_sym, E. lia.
      * exact IH.
Qed.
Lemma keys_add_count : forall w c m k, In k (keys (add_count w c m)) <-> k = w \/ In k (keys m).
Proof.
  intros w c m k. unfold keys. induction m as [|[k' v] m IH]; cbn [add_count map In fst].
  - intuition.
  - destruct (bytes_eqb k' w) eqn:E; cbn [map In fst].
    + apply bytes_eqb_eq in E. subst. intuition.
    + rewrite IH. intuition.
Qed.
Lemma nodup_add_count : forall w c m, NoDup (keys m) -> NoDup (keys (add_count w c m)).
Proof.
  intros w c m. unfold keys. induction m as [|[k v] m IH]; intro H; cbn [add_count map fst].
  - constructor; [tauto|constructor].
  - inversion H as [|? ? Hn Hd]; subst. destruct (bytes_eqb k w) eqn:E; cbn [map fst].
    + constructor; assumption.
    + constructor; [|apply IH; exact Hd]. intro Hin. apply keys_add_count in Hin.
      destruct Hin as [->|Hin]; [rewrite bytes_eqb_refl in E; discriminate | contradiction].
Qed.
Lemma pos_add_count : forall w c m, 0 < c -> pos_vals m -> pos_vals (add_count w c m).
Proof.
  intros w c m Hc. unfold pos_vals. induction m as [|[k v] m IH]; intro H; cbn [add_count].
  - constructor; [exact Hc|constructor].
  - inversion H as [|? ? Hv Hm]; subst. cbn [snd] in Hv. destruct (bytes_eqb k w).
    + constructor; [cbn [snd]; lia|exact Hm].
    + constructor; [exact Hv|apply IH, Hm].
Qed.
Lemma sum_add_count : forall w c m, sumN (map snd (add_count w c m)) = c + sumN (map snd m).
Proof.
  intros w c m. induction m as [|[k v] m IH]; cbn [add_count map snd].
  - rewrite sumN_cons, !sumN_nil. lia.
  - destruct (bytes_eqb k w); cbn [map snd]; rewrite !sumN_cons; [|rewrite IH]; lia.
Qed.

(** on maps without duplicate keys [tot] is [cnt] *)
Lemma tot_notin : forall w m, ~ In w (keys m) -> tot w m = 0.
Proof.
  intros w m. unfold keys. induction m as [|[k v] m IH]; intro H; cbn [tot]; [reflexivity|].
  cbn [map fst In] in H. destruct (bytes_eqb k w) eqn:E.
  - apply bytes_eqb_eq in E. tauto.
  - rewrite IH; [lia|tauto].
Qed.
Lemma tot_cnt : forall w m, NoDup (keys m) -> tot w m = cnt w m.
Proof.
  intros w m. unfold keys, cnt. induction m as [|[k v] m IH]; intro H; cbn [tot lookup]; [reflexivity|].
  inversion H as [|? ? Hn Hd]; subst. destruct (bytes_eqb k w) eqn:E.
  - apply bytes_eqb_eq in E. subst. rewrite tot_notin; [lia|exact Hn].
  - rewrite IH; [lia|exact Hd].
Qed.
Lemma cnt_notin : forall w m, ~ In w (keys m) -> lookup w m = None.
Proof.
  intros w m. unfold keys. induction m as [|[k v] m IH]; intro H; cbn [lookup]; [reflexivity|].
  cbn [map fst In] in H. destruct (bytes_eqb k w) eqn:E.
  - apply bytes_eqb_eq in E. tauto.
  - apply IH. tauto.
Qed.
Lemma lookup_in : forall w v m, lookup w m = Some v -> In (w, v) m.
Proof.
  intros w v m. induction m as [|[k v'] m IH]; cbn [lookup]; [discriminate|].
  destruct (bytes_eqb k w) eqn:E.
  - apply bytes_eqb_eq in E. intro H. injection H as <-. subst. left. reflexivity.
  - intro H. right. apply IH, H.
Qed.
Lemma in_lookup : forall w v m, NoDup (keys m) -> In (w, v) m -> lookup w m = Some v.
Proof.
  intros w v m. unfold keys. induction m as [|[k v'] m IH]; intros Hd Hin; [destruct Hin|].
  inversion Hd as [|? ? Hn Hd']; subst. cbn [lookup]. destruct Hin as [E|Hin].
  - injection E as -> ->. rewrite bytes_eqb_refl. reflexivity.
  - destruct (bytes_eqb k w) eqn:E.
    + apply bytes_eqb_eq in E. subst. exfalso. apply Hn. apply (in_map fst) in Hin. exact Hin.
    + apply IH; assumption.
Qed.
Lemma lookup_some_key : forall w v m, lookup w m = Some v -> In w (keys m).
Proof. intros w v m H. apply lookup_in in H. apply (in_map fst) in H. exact H. Qed.

(** ** the per-line fold *)
Lemma count_fold_cnt : forall toks acc w,
  cnt w (fold_left (fun m t => add_count t 1 m) toks acc) = count_tok w toks + cnt w acc.
Proof.
  induction toks as [|t toks IH]; intros acc w; cbn [fold_left].
  - unfold count_tok. cbn. lia.
  - rewrite IH, cnt_add_count, count_tok_cons. rewrite (bytes_eqb_sym w t). lia.
Qed.
Lemma count_fold_keys : forall toks acc k,
  In k (keys (fold_left (fun m t => add_count t 1 m) toks acc)) <-> In k toks \/ In k (keys acc).
Proof.
  induction toks as [|t toks IH]; intros acc k; cbn [fold_left In].
  - tauto.
  - rewrite IH, keys_add_count. intuition.
Qed.
Lemma count_fold_nodup : forall toks acc, NoDup (keys acc) ->
  NoDup (keys (fold_left (fun m t => add_count t 1 m) toks acc)).
Proof. induction toks as [|t toks IH]; intros acc H; cbn [fold_left]; [exact H|]. apply IH, nodup_add_count, H. Qed.
Lemma count_fold_pos : forall toks acc, pos_vals acc ->
  pos_vals (fold_left (fun m t => add_count t 1 m) toks acc).
Proof. induction toks as [|t toks IH]; intros acc H; cbn [fold_left]; [exact H|]. apply IH, pos_add_count; [lia|exact H]. Qed.
Lemma count_fold_sum : forall toks acc,
  sumN (map snd (fold_left (fun m t => add_count t 1 m) toks acc)) = N.of_nat (length toks) + sumN (map snd acc).
Proof.
  induction toks as [|t toks IH]; intros acc; cbn [fold_left length]; [lia|].
  rewrite IH, sum_add_count. lia.
Qed.

Lemma count_line_cnt : forall toks w, cnt w (count_line toks) = count_tok w toks.
Proof. intros. unfold count_line. rewrite count_fold_cnt. unfold cnt. cbn. lia. Qed.
Lemma count_line_keys : forall toks k, In k (keys (count_line toks)) <-> In k toks.
Proof. intros. unfold count_line. rewrite count_fold_keys. cbn. tauto. Qed.
Lemma count_line_nodup : forall toks, NoDup (keys (count_line toks)).
Proof. intros. apply count_fold_nodup. constructor. Qed.
Lemma count_line_pos : forall toks, pos_vals (count_line toks).
Proof. intros. apply count_fold_pos. constructor. Qed.
Lemma count_line_sum : forall toks, sumN (map snd (count_line toks)) = N.of_nat (length toks).
Proof. intros. unfold count_line. rewrite count_fold_sum. cbn. lia. Qed.

(** ** one reducer step *)
Lemma merge_cnt : forall counts acc w, cnt w (merge acc counts) = cnt w acc + tot w counts.
Proof.
  unfold merge. induction counts as [|[k v] counts IH]; intros acc w; cbn [fold_left tot fst snd].
  - lia.
  - rewrite IH, cnt_add_count. lia.
Qed.
Lemma merge_keys : forall counts acc k, In k (keys (merge acc counts)) <-> In k (keys acc) \/ In k (keys counts).
Proof.
  unfold merge. induction counts as [|[k' v] counts IH]; intros acc k; cbn [fold_left fst snd].
  - cbn. tauto.
  - rewrite IH, keys_add_count. unfold keys. cbn [map fst In]. intuition.
Qed.
Lemma merge_nodup : forall counts acc, NoDup (keys acc) -> NoDup (keys (merge acc counts)).
Proof.
  unfold merge. induction counts as [|[k v] counts IH]; intros acc H; cbn [fold_left]; [exact H|].
  apply IH, nodup_add_count, H.
Qed.
Lemma merge_pos : forall counts acc, pos_vals counts -> pos_vals acc -> pos_vals (merge acc counts).
Proof.
  unfold merge. induction counts as [|[k v] counts IH]; intros acc Hc Ha; cbn [fold_left]; [exact Ha|].
  inversion Hc; subst. apply IH; [assumption|]. apply pos_add_count; assumption.
Qed.
Lemma merge_sum : forall counts acc,
  sumN (map snd (merge acc counts)) = sumN (map snd acc) + sumN (map snd counts).
Proof.
  unfold merge. induction counts as [|[k v] counts IH]; intros acc; cbn [fold_left fst snd map].
  - rewrite sumN_nil. lia.
  - rewrite IH, sum_add_count, sumN_cons. lia.
Qed.

(** ** the reducer over all arrivals *)
Lemma reduce_fold_cnt : forall arrivals acc w,
  cnt w (fold_left merge arrivals acc) = cnt w acc + sumN (map (tot w) arrivals).
Proof.
  induction arrivals as [|a arrivals IH]; intros acc w; cbn [fold_left map].
  - rewrite sumN_nil. lia.
  - rewrite IH, merge_cnt, sumN_cons. lia.
Qed.
Lemma reduce_fold_keys : forall arrivals acc k,
  In k (keys (fold_left merge arrivals acc)) <-> In k (keys acc) \/ exists a, In a arrivals /\ In k (keys a).
Proof.
  induction arrivals as [|a arrivals IH]; intros acc k; cbn [fold_left In].
  - split; [auto|]. intros [H|[a [[] _]]]. exact H.
  - rewrite IH, merge_keys. split.
    + intros [[H|H]|[a' [H1 H2]]]; [auto|right; exists a; auto|right; exists a'; auto].
    + intros [H|[a' [[->|H1] H2]]]; [auto|auto|right; exists a'; auto].
Qed.
Lemma reduce_fold_nodup : forall arrivals acc, NoDup (keys acc) -> NoDup (keys (fold_left merge arrivals acc)).
Proof. induction arrivals as [|a arrivals IH]; intros acc H; cbn [fold_left]; [exact H|]. apply IH, merge_nodup, H. Qed.
Lemma reduce_fold_pos : forall arrivals acc, Forall pos_vals arrivals -> pos_vals acc ->
  pos_vals (fold_left merge arrivals acc).
Proof.
  induction arrivals as [|a arrivals IH]; intros acc Ha Hacc; cbn [fold_left]; [exact Hacc|].
  inversion Ha; subst. apply IH; [assumption|]. apply merge_pos; assumption.
Qed.
Lemma reduce_fold_sum : forall arrivals acc,
  sumN (map snd (fold_left merge arrivals acc))
  = sumN (map snd acc) + sumN (map (fun a => sumN (map snd a)) arrivals).
Proof.
  induction arrivals as [|a arrivals IH]; intros acc; cbn [fold_left map].
  - rewrite sumN_nil. lia.
  - rewrite IH, merge_sum, sumN_cons. lia.
Qed.

Lemma sumN_perm : forall a b, Permutation a b -> sumN a = sumN b.
Proof. intros a b P. induction P; rewrite ?sumN_cons; lia. Qed.
Lemma sumN_app : forall a b, sumN (a ++ b) = sumN a + sumN b.
Proof. induction a as [|x a IH]; intro b; cbn [app]; rewrite ?sumN_cons, ?sumN_nil; [lia|]. rewrite IH. lia. Qed.

Lemma count_tok_concat : forall w (ls : list (list word)),
  count_tok w (concat ls) = sumN (map (count_tok w) ls).
Proof.
  intros w ls. induction ls as [|l ls IH]; cbn [concat map].
  - reflexivity.
  - rewrite count_tok_app, IH, sumN_cons. reflexivity.
Qed.

(** the reducer's table for the token lists [ls], arriving in any order [arr] *)
Section Reduce.
  Variable ls : list (list word).
  Variable arr : list cmap.
  Hypothesis Harr : Permutation arr (map count_line ls).

  Lemma arr_all_lines : forall a, In a arr -> exists l, In l ls /\ a = count_line l.
  Proof.
    intros a Ha. eapply Permutation_in in Ha; [|exact Harr]. apply in_map_iff in Ha as [l [E Hl]]. eauto.
  Qed.

  Lemma reduce_cnt : forall w, cnt w (reduce arr) = count_tok w (concat ls).
  Proof.
    intro w. unfold reduce. rewrite reduce_fold_cnt. unfold cnt at 1. cbn [lookup]. rewrite N.add_0_l.
    rewrite (sumN_perm _ _ (Permutation_map (tot w) Harr)). rewrite map_map, count_tok_concat.
    f_equal. apply map_ext. intro l. rewrite tot_cnt; [apply count_line_cnt | apply count_line_nodup].
  Qed.
  Lemma reduce_nodup : NoDup (keys (reduce arr)).
  Proof. unfold reduce. apply reduce_fold_nodup. constructor. Qed.
  Lemma reduce_keys : forall k, In k (keys (reduce arr)) <-> In k (concat ls).
  Proof.
    intro k. unfold reduce. rewrite reduce_fold_keys. cbn [keys map In]. split.
    - intros [[]|[a [Ha Hk]]]. apply arr_all_lines in Ha as [l [Hl ->]]. apply (proj1 (count_line_keys _ _)) in Hk.
      apply in_concat. eauto.
    - intro H. right. apply in_concat in H as [l [Hl Hk]]. exists (count_line l). split.
      + eapply Permutation_in; [apply Permutation_sym, Harr|]. apply in_map. exact Hl.
      + apply count_line_keys. exact Hk.
  Qed.
  Lemma reduce_pos : pos_vals (reduce arr).
  Proof.
    unfold reduce. apply reduce_fold_pos; [|constructor]. apply Forall_forall. intros a Ha.
    apply arr_all_lines in Ha as [l [_ ->]]. apply count_line_pos.
  Qed.
  Lemma reduce_sum : sumN (map snd (reduce arr)) = N.of_nat (length (concat ls)).
  Proof.
    unfold reduce. rewrite reduce_fold_sum. cbn [map]. rewrite sumN_nil, N.add_0_l.
    rewrite (sumN_perm _ _ (Permutation_map (fun a => sumN (map snd a)) Harr)). rewrite map_map.
    clear. induction ls as [|l ls' IH]; cbn [map concat]; [reflexivity|].
    rewrite sumN_cons, app_length, count_line_sum, IH, Nat2N.inj_add. reflexivity.
  Qed.
  (** an entry of the table is an exact, positive count *)
  Lemma reduce_entry : forall w v, In (w, v) (reduce arr) -> v = count_tok w (concat ls) /\ 0 < v.
  Proof.
    intros w v H. split.
    - rewrite <- reduce_cnt. unfold cnt. rewrite (in_lookup w v _ reduce_nodup H). reflexivity.
    - pose proof reduce_pos as P. unfold pos_vals in P. rewrite Forall_forall in P. apply (P _ H).
  Qed.
  Lemma reduce_lookup : forall w,
    lookup w (reduce arr) = if memb w (concat ls) then Some (count_tok w (concat ls)) else None.
  Proof.
    intro w. destruct (memb w (concat ls)) eqn:E.
    - assert (Hin : In w (concat ls)).
      { clear -E. induction (concat ls) as [|x t IH]; cbn [memb] in E; [discriminate|].
        apply orb_true_iff in E as [E|E]; [left; symmetry; apply bytes_eqb_eq, E | right; apply IH, E]. }
      apply reduce_keys in Hin. unfold keys in Hin. apply in_map_iff in Hin as [[k v] [Ek Hin]].
      cbn [fst] in Ek. subst k. rewrite (in_lookup w v _ reduce_nodup Hin).
      apply reduce_entry in Hin as [-> _]. reflexivity.
    - apply cnt_notin. intro H. apply reduce_keys in H.
      clear -E H. induction (concat ls) as [|x t IH]; [destruct H|]. cbn [memb] in E.
      apply orb_false_iff in E as [E1 E2]. destruct H as [->|H]; [rewrite bytes_eqb_refl in E1; discriminate|].
      apply IH; assumption.
  Qed.
End Reduce.

(** two tables with the same finite map are permutations of each other *)
Lemma same_map_perm : forall m1 m2 : cmap,
  NoDup (keys m1) -> NoDup (keys m2) -> (forall w, lookup w m1 = lookup w m2) -> Permutation m1 m2.
Proof.
  intros m1 m2 H1 H2 E. apply NoDup_Permutation.
  - eapply NoDup_map_inv. exact H1.
  - eapply NoDup_map_inv. exact H2.
  - intros [w v]. split; intro H.
    + apply lookup_in. rewrite <- E. apply in_lookup; assumption.
    + apply lookup_in. rewrite E. apply in_lookup; assumption.
Qed.

(** schedule independence of the reducer: any two arrival orders, and any two
    groupings of the same tokens into lines, give the same table up to order *)
Lemma reduce_perm : forall ls1 ls2 arr1 arr2,
  Permutation arr1 (map count_line ls1) -> Permutation arr2 (map count_line ls2) ->
  Permutation (concat ls1) (concat ls2) ->
  Permutation (reduce arr1) (reduce arr2).
Proof.
  intros ls1 ls2 arr1 arr2 P1 P2 Pc. apply same_map_perm.
  - eapply reduce_nodup.
  - eapply reduce_nodup.
  - intro w. rewrite (reduce_lookup ls1 arr1 P1), (reduce_lookup ls2 arr2 P2).
    rewrite (count_tok_perm w _ _ Pc).
    replace (memb w (concat ls2)) with (memb w (concat ls1)); [reflexivity|].
    clear -Pc. assert (H : forall l, memb w l = true <-> In w l).
    { induction l as [|x t IH]; cbn [memb In]; [split; [discriminate|tauto]|].
      rewrite orb_true_iff, IH, bytes_eqb_eq. intuition. }
    destruct (memb w (concat ls1)) eqn:E1; destruct (memb w (concat ls2)) eqn:E2; try reflexivity.
    + apply H in E1. eapply Permutation_in in E1; [|exact Pc]. apply H in E1. congruence.
    + apply H in E2. eapply Permutation_in in E2; [|apply Permutation_sym, Pc]. apply H in E2. congruence.
Qed.

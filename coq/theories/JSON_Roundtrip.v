(** JSON: proofs, part 2 — parse (print v) = v for every well-formed value within the depth limit. *)
From TU Require Import Base JSON_Model JSON_Proofs.
Require Import Lia ZifyBool ZifyN ZifyNat.
Open Scope N_scope.

Ltac nn := unfold cp, str, byte in *.

Lemma skip_nows : forall (c : N) (r : list N), is_ws_json c = false -> skip_ws (c :: r) = c :: r.
Proof. intros c r H. cbn [skip_ws]. rewrite H. reflexivity. Qed.

(** * Strings *)
Lemma hex_val_digit : forall n, n < 16 -> hex_val (hex_digit n) = Some n.
Proof.
  intros n H. unfold hex_val, hex_digit. destruct (n <? 10) eqn:E.
  - assert (E1 : (48 <=? 48 + n) && (48 + n <=? 57) = true) by lia. rewrite E1. f_equal. lia.
  - assert (E1 : (48 <=? 87 + n) && (87 + n <=? 57) = false) by lia. rewrite E1.
    assert (E2 : (65 <=? 87 + n) && (87 + n <=? 70) = false) by lia. rewrite E2.
    assert (E3 : (97 <=? 87 + n) && (87 + n <=? 102) = true) by lia. rewrite E3. f_equal. lia.
Qed.

Lemma pstr_plain : forall c tl, (c =? 34) = false -> (c =? 92) = false -> (c <? 32) = false ->
  pstr (c :: tl) = ocons c (pstr tl).
Proof. intros c tl H1 H2 H3. cbn [pstr]. rewrite H1, H2, H3. reflexivity. Qed.

Lemma pstr_simple : forall e x tl, (e =? 117) = false -> simple_escape e = Some x ->
  pstr (92 :: e :: tl) = ocons x (pstr tl).
Proof.
  intros e x tl H1 H2. cbn [pstr]. change (92 =? 34) with false. change (92 =? 92) with true.
  cbn match. rewrite H1, H2. reflexivity.
Qed.

Lemma pstr_u00 : forall c tl, c < 32 ->
  pstr (92 :: 117 :: 48 :: 48 :: hex_digit (c / 16) :: hex_digit (c mod 16) :: tl) = ocons c (pstr tl).
Proof.
  intros c tl H. cbn [pstr]. change (92 =? 34) with false. change (92 =? 92) with true.
  change (117 =? 117) with true. cbn match.
  unfold hex4. change (hex_val 48) with (Some 0).
  rewrite !hex_val_digit by (try apply N.mod_lt; try (apply N.div_lt_upper_bound); lia).
  replace (0 * 4096 + 0 * 256 + c / 16 * 16 + c mod 16) with c
    by (rewrite (N.div_mod c 16) at 1 by lia; lia).
  assert (E1 : (56320 <=? c) && (c <=? 57343) = false) by lia. rewrite E1.
  assert (E2 : (55296 <=? c) && (c <=? 56319) = false) by lia. rewrite E2. reflexivity.
Qed.

Lemma pstr_esc_char : forall c tl, pstr (esc_char c ++ tl) = ocons c (pstr tl).
Proof.
  intros c tl. unfold esc_char.
  destruct (c =? 34) eqn:E1. { apply N.eqb_eq in E1. subst. apply pstr_simple; reflexivity. }
  destruct (c =? 92) eqn:E2. { apply N.eqb_eq in E2. subst. apply pstr_simple; reflexivity. }
  destruct (c =? 8) eqn:E3. { apply N.eqb_eq in E3. subst. apply pstr_simple; reflexivity. }
  destruct (c =? 9) eqn:E4. { apply N.eqb_eq in E4. subst. apply pstr_simple; reflexivity. }
  destruct (c =? 10) eqn:E5. { apply N.eqb_eq in E5. subst. apply pstr_simple; reflexivity. }
  destruct (c =? 12) eqn:E6. { apply N.eqb_eq in E6. subst. apply pstr_simple; reflexivity. }
  destruct (c =? 13) eqn:E7. { apply N.eqb_eq in E7. subst. apply pstr_simple; reflexivity. }
  destruct (c <? 32) eqn:E8. { cbn [app]. apply pstr_u00. lia. }
  cbn [app]. apply pstr_plain; assumption.
Qed.

Lemma pstr_esc : forall s rest, pstr (flat_map esc_char s ++ 34 :: rest) = Some (s, rest).
Proof.
  induction s as [|c s IH]; intros rest; [reflexivity|].
  cbn [flat_map]. rewrite <- app_assoc, pstr_esc_char, IH. reflexivity.
Qed.

Lemma str_branch_print : forall s rest, str_branch (flat_map esc_char s ++ 34 :: rest) = POk (JStr s, rest).
Proof. intros. unfold str_branch. rewrite pstr_esc. reflexivity. Qed.

(** * Numbers *)
Definition stop (c : cp) : bool := negb (is_digit c || (c =? 46) || (c =? 101) || (c =? 69)).
Definition rest_ok (rest : str) : bool := match rest with [] => true | c :: _ => stop c end.

Lemma span_digits : forall a b, digits a = true ->
  match b with [] => true | c :: _ => negb (is_digit c) end = true -> span is_digit (a ++ b) = (a, b).
Proof.
  induction a as [|x a IH]; intros b Ha Hb.
  - cbn [app]. destruct b as [|c b']; [reflexivity|]. cbn [span]. apply negb_true_iff in Hb. rewrite Hb. reflexivity.
  - cbn [digits forallb] in Ha. apply andb_true_iff in Ha as [Hx Ha]. cbn [app span]. rewrite Hx.
    rewrite (IH b Ha Hb). reflexivity.
Qed.

Lemma is_nil_s_false : forall l : list cp, negb (is_nil_s l) = true -> is_nil_s l = false.
Proof. intros l H. apply negb_true_iff in H. exact H. Qed.

Definition print_frac (fr : option (list cp)) : str := match fr with Some fs => 46 :: fs | None => [] end.
Definition print_exp (ex : option (bool * list cp)) : str :=
  match ex with Some (eneg, es) => 101 :: (if eneg then [45] else []) ++ es | None => [] end.

Lemma lex_exp_print : forall ex rest,
  match ex with Some (_, es) => digits es && negb (is_nil_s es) | None => true end = true ->
  rest_ok rest = true -> lex_exp (print_exp ex ++ rest) = Some (ex, rest).
Proof.
  intros [[eneg es]|] rest Hw Hr.
  - apply andb_true_iff in Hw as [Hd Hn]. apply is_nil_s_false in Hn.
    assert (Hrd : match rest with [] => true | c :: _ => negb (is_digit c) end = true).
    { destruct rest as [|c r]; [reflexivity|]. cbn [rest_ok] in Hr. unfold stop in Hr.
      rewrite !negb_orb in Hr. rewrite !andb_true_iff in Hr. tauto. }
    unfold print_exp, lex_exp. cbn [app]. change ((101 =? 101) || (101 =? 69)) with true. cbn match.
    destruct eneg.
    + cbn [app]. change (45 =? 43) with false. change (45 =? 45) with true. cbn match.
      rewrite span_digits by assumption. rewrite Hn. reflexivity.
    + cbn [app]. destruct es as [|e0 es']; [discriminate|]. cbn [app].
      cbn [digits forallb] in Hd. apply andb_true_iff in Hd as [He0 Hd'].
      assert (E1 : (e0 =? 43) = false) by (unfold is_digit in He0; lia).
      assert (E2 : (e0 =? 45) = false) by (unfold is_digit in He0; lia).
      rewrite E1, E2. change (e0 :: es' ++ rest) with ((e0 :: es') ++ rest).
      rewrite span_digits; [reflexivity| |exact Hrd]. cbn [digits forallb]. rewrite He0. exact Hd'.
  - unfold print_exp, lex_exp. cbn [app]. destruct rest as [|c r]; [reflexivity|].
    cbn [rest_ok] in Hr. unfold stop in Hr. rewrite !negb_orb in Hr. rewrite !andb_true_iff in Hr.
    destruct Hr as [[[_ _] H1] H2]. apply negb_true_iff in H1, H2. rewrite H1, H2. reflexivity.
Qed.

Lemma rest_ok_exp : forall ex rest, rest_ok rest = true ->
  match print_exp ex ++ rest with [] => true | c :: _ => negb (is_digit c) && negb (c =? 46) end = true.
Proof.
  intros [[eneg es]|] rest Hr.
  - reflexivity.
  - cbn [print_exp app]. destruct rest as [|c r]; [reflexivity|]. cbn [rest_ok] in Hr. unfold stop in Hr.
    rewrite !negb_orb in Hr. rewrite !andb_true_iff in Hr. rewrite andb_true_iff. tauto.
Qed.

Lemma lex_frac_print : forall fr tl,
  match fr with Some fs => digits fs && negb (is_nil_s fs) | None => true end = true ->
  match tl with [] => true | c :: _ => negb (is_digit c) && negb (c =? 46) end = true ->
  lex_frac (print_frac fr ++ tl) = Some (fr, tl).
Proof.
  intros [fs|] tl Hw Ht.
  - apply andb_true_iff in Hw as [Hd Hn]. apply is_nil_s_false in Hn.
    unfold print_frac, lex_frac. cbn [app]. change (46 =? 46) with true. cbn match.
    rewrite span_digits; [rewrite Hn; reflexivity|exact Hd|].
    destruct tl as [|c r]; [reflexivity|]. apply andb_true_iff in Ht. tauto.
  - unfold print_frac, lex_frac. cbn [app]. destruct tl as [|c r]; [reflexivity|].
    apply andb_true_iff in Ht as [_ Ht]. apply negb_true_iff in Ht. rewrite Ht. reflexivity.
Qed.

Lemma print_num_eq : forall n,
  print_num n = (if n_neg n then [45] else []) ++ n_int n ++ print_frac (n_frac n) ++ print_exp (n_exp n).
Proof. intros [neg ds fr [[eneg es]|]]; reflexivity. Qed.

Lemma lex_number_print : forall n rest, num_wf n = true -> rest_ok rest = true ->
  lex_number (print_num n ++ rest) = Some (n, rest).
Proof.
  intros n rest Hw Hr. unfold num_wf in Hw. rewrite !andb_true_iff in Hw.
  destruct Hw as [[[[[Hd Hne] Hz] Hf] He] _].
  rewrite print_num_eq. destruct n as [neg ds fr ex]. cbn [n_neg n_int n_frac n_exp] in *.
  apply is_nil_s_false in Hne. destruct ds as [|d0 dr]; [discriminate|].
  assert (Hd0 : is_digit d0 = true) by (cbn [digits forallb] in Hd; apply andb_true_iff in Hd; tauto).
  assert (Htl : match print_frac fr ++ print_exp ex ++ rest with [] => true | c :: _ => negb (is_digit c) end = true).
  { destruct fr as [fs|]; [reflexivity|]. cbn [print_frac app].
    pose proof (rest_ok_exp ex rest Hr) as H. destruct (print_exp ex ++ rest) as [|c r]; [reflexivity|].
    apply andb_true_iff in H. tauto. }
  assert (Hspan : span is_digit ((d0 :: dr) ++ print_frac fr ++ print_exp ex ++ rest)
                  = (d0 :: dr, print_frac fr ++ print_exp ex ++ rest)).
  { apply span_digits; assumption. }
  assert (Hlz : (d0 =? 48) && negb (is_nil_s dr) = false).
  { destruct dr as [|d1 dr']; [apply andb_false_r|]. apply negb_true_iff in Hz. rewrite Hz. reflexivity. }
  assert (Main : forall neg' s1, s1 = (d0 :: dr) ++ print_frac fr ++ print_exp ex ++ rest ->
     (let (ds, s2) := span is_digit s1 in
      match ds with
      | [] => None
      | d0 :: dr =>
          if (d0 =? 48) && negb (is_nil_s dr) then None
          else match lex_frac s2 with
               | None => None
               | Some (fr, s3) =>
                   match lex_exp s3 with
                   | None => None
                   | Some (ex, s4) => Some (mk_jnum neg' ds fr ex, s4)
                   end
               end
      end) = Some (mk_jnum neg' (d0 :: dr) fr ex, rest)).
  { intros neg' s1 ->. rewrite Hspan. rewrite Hlz.
    rewrite lex_frac_print; [|exact Hf|apply rest_ok_exp; exact Hr].
    rewrite lex_exp_print by assumption. reflexivity. }
  unfold lex_number. destruct neg.
  - cbn [app]. change (45 =? 45) with true. cbn match. rewrite <- !app_assoc. apply Main. reflexivity.
  - cbn [app]. assert (E : (d0 =? 45) = false) by (unfold is_digit in Hd0; lia). rewrite E.
    rewrite <- !app_assoc. apply (Main false). reflexivity.
Qed.

(** * Heads *)
Lemma pv_num_head : forall d (c : N) (r : list N), (c =? 45) || is_digit c = true -> pv d (c :: r) = num_branch (c :: r).
Proof.
  intros d c r H. rewrite pv_unfold.
  assert (W : is_ws_json c = false) by (unfold is_ws_json, is_digit in *; lia).
  nn. rewrite (skip_nows c r W).
  assert (E1 : (c =? 110) = false) by (unfold is_digit in *; lia). rewrite E1.
  assert (E2 : (c =? 116) = false) by (unfold is_digit in *; lia). rewrite E2.
  assert (E3 : (c =? 102) = false) by (unfold is_digit in *; lia). rewrite E3.
  assert (E4 : (c =? 34) = false) by (unfold is_digit in *; lia). rewrite E4.
  assert (E5 : (c =? 91) = false) by (unfold is_digit in *; lia). rewrite E5.
  assert (E6 : (c =? 123) = false) by (unfold is_digit in *; lia). rewrite E6.
  rewrite H. reflexivity.
Qed.

Definition head_ok (c : cp) : bool :=
  negb (is_ws_json c) && negb (c =? 93) && negb (c =? 125) && negb (c =? 44).

Lemma print_head : forall v, wf v = true -> exists c tl, print v = c :: tl /\ head_ok c = true.
Proof.
  intros v H. destruct v as [|[|]|n|s|l|m]; try (eexists; eexists; split; [reflexivity|reflexivity]).
  cbn [wf] in H. unfold num_wf in H. rewrite !andb_true_iff in H. destruct H as [[[[[Hd Hne] _] _] _] _].
  cbn [print]. rewrite print_num_eq. destruct (n_neg n).
  - eexists; eexists; split; [reflexivity|reflexivity].
  - apply is_nil_s_false in Hne. destruct (n_int n) as [|d0 dr]; [discriminate|].
    cbn [digits forallb] in Hd. apply andb_true_iff in Hd as [Hd0 _].
    exists d0. eexists. split; [reflexivity|]. unfold head_ok, is_ws_json, is_digit in *. lia.
Qed.

(** * Arrays *)
Fixpoint pl (l : list jvalue) : str :=
  match l with
  | [] => []
  | [x] => print x
  | x :: l' => print x ++ 44 :: pl l'
  end.
Definition tail_text (l : list jvalue) : str := match l with [] => [] | _ => 44 :: pl l end.

Lemma print_arr : forall l, print (JArr l) = 91 :: pl l ++ [93].
Proof. reflexivity. Qed.

Lemma pl_cons : forall x l, pl (x :: l) = print x ++ tail_text l.
Proof. intros x [|y l]; [cbn [pl tail_text]; rewrite app_nil_r; reflexivity|reflexivity]. Qed.

Lemma rest_ok_tail : forall l rest, rest_ok (tail_text l ++ 93 :: rest) = true.
Proof. intros [|y l] rest; reflexivity. Qed.

Lemma parr_end : forall pvf f first rest, parr pvf (S f) first (93 :: rest) = POk ([], rest).
Proof. reflexivity. Qed.

Definition arr_k (pvf : str -> pres (jvalue * str)) (f : nat) (s : str) : pres (list jvalue * str) :=
  pbind (pvf s) (fun vs => pbind (parr pvf f false (snd vs)) (fun ls => POk (fst vs :: fst ls, snd ls))).

Lemma parr_first : forall pvf f (c : N) (r : list N), head_ok c = true -> parr pvf (S f) true (c :: r) = arr_k pvf f (c :: r).
Proof.
  intros pvf f c r H. unfold head_ok in H. rewrite !andb_true_iff in H. destruct H as [[[H1 H2] _] _].
  apply negb_true_iff in H1, H2. cbn [parr]. nn. rewrite (skip_nows c r H1), H2. reflexivity.
Qed.

Lemma parr_next : forall pvf f (c : N) (r : list N), head_ok c = true -> parr pvf (S f) false (44 :: c :: r) = arr_k pvf f (c :: r).
Proof.
  intros pvf f c r H. unfold head_ok in H. rewrite !andb_true_iff in H. destruct H as [[[H1 H2] _] _].
  apply negb_true_iff in H1, H2. cbn [parr]. nn. rewrite (skip_nows 44 (c :: r) eq_refl).
  change (44 =? 93) with false. change (44 =? 44) with true. cbn match.
  rewrite (skip_nows c r H1), H2. reflexivity.
Qed.

Definition reads (pvf : str -> pres (jvalue * str)) (x : jvalue) : Prop :=
  forall rest, rest_ok rest = true -> pvf (print x ++ rest) = POk (x, rest).

Lemma parr_tail : forall pvf l, Forall (reads pvf) l -> Forall (fun x => wf x = true) l ->
  forall f rest, (length l < f)%nat -> parr pvf f false (tail_text l ++ 93 :: rest) = POk (l, rest).
Proof.
  intros pvf. induction l as [|x l IH]; intros HR HW f rest Hf.
  - destruct f as [|f]; [lia|]. apply parr_end.
  - inversion HR as [|? ? Hx HR']. inversion HW as [|? ? Wx HW']. subst.
    destruct f as [|f]; [lia|]. cbn [length] in Hf.
    destruct (print_head x Wx) as (c & tl & Ep & Hc).
    cbn [tail_text]. rewrite pl_cons. cbn [app]. rewrite <- app_assoc.
    unfold reads in Hx. specialize (Hx _ (rest_ok_tail l rest)).
    rewrite Ep in *. cbn [app] in *. nn. rewrite parr_next by exact Hc. unfold arr_k. rewrite Hx.
    cbn [pbind fst snd].
    rewrite (IH HR' HW' f rest ltac:(lia)). reflexivity.
Qed.

Lemma parr_print : forall pvf l, Forall (reads pvf) l -> Forall (fun x => wf x = true) l ->
  forall f rest, (length l < f)%nat -> parr pvf f true (pl l ++ 93 :: rest) = POk (l, rest).
Proof.
  intros pvf l HR HW f rest Hf. destruct f as [|f]; [lia|]. destruct l as [|x l].
  - apply parr_end.
  - inversion HR as [|? ? Hx HR']. inversion HW as [|? ? Wx HW']. subst. cbn [length] in Hf.
    destruct (print_head x Wx) as (c & tl & Ep & Hc).
    pose proof (parr_tail pvf l HR' HW' f rest ltac:(lia)) as T.
    rewrite pl_cons. rewrite <- app_assoc.
    unfold reads in Hx. specialize (Hx _ (rest_ok_tail l rest)).
    rewrite Ep in *. cbn [app] in *. nn. rewrite parr_first by exact Hc. unfold arr_k. rewrite Hx.
    cbn [pbind fst snd].
    rewrite T. reflexivity.
Qed.

Lemma print_nonempty : forall v, wf v = true -> (1 <= length (print v))%nat.
Proof. intros v H. destruct (print_head v H) as (c & tl & -> & _). cbn [length]. lia. Qed.

Lemma pl_length : forall l, Forall (fun x => wf x = true) l -> (length l <= length (pl l))%nat.
Proof.
  induction l as [|x l IH]; intros H; [cbn; lia|]. inversion H as [|? ? Wx H']. subst.
  rewrite pl_cons, app_length. pose proof (print_nonempty x Wx). specialize (IH H').
  destruct l as [|y l']; [cbn [length tail_text]; lia|]. cbn [tail_text length] in *. lia.
Qed.

(** * Objects *)
Fixpoint pm (m : list (str * jvalue)) : str :=
  match m with
  | [] => []
  | [(k, x)] => json_string k ++ 58 :: print x
  | (k, x) :: m' => json_string k ++ 58 :: print x ++ 44 :: pm m'
  end.
Definition tail_m (m : list (str * jvalue)) : str := match m with [] => [] | _ => 44 :: pm m end.

Lemma print_obj : forall m, print (JObj m) = 123 :: pm m ++ [125].
Proof. reflexivity. Qed.

Lemma pm_cons : forall k x m, pm ((k, x) :: m) = 34 :: flat_map esc_char k ++ 34 :: 58 :: print x ++ tail_m m.
Proof.
  intros k x [|[k' y] m]; cbn [pm tail_m]; unfold json_string; cbn [app]; rewrite <- !app_assoc; cbn [app].
  - rewrite app_nil_r. reflexivity.
  - reflexivity.
Qed.

Lemma rest_ok_tail_m : forall m rest, rest_ok (tail_m m ++ 125 :: rest) = true.
Proof. intros [|y m] rest; reflexivity. Qed.

Lemma pobj_end : forall pvf f first rest, pobj pvf (S f) first (125 :: rest) = POk ([], rest).
Proof. reflexivity. Qed.

Definition obj_k (pvf : str -> pres (jvalue * str)) (f : nat) (s : str) : pres (list (str * jvalue) * str) :=
  pbind (pmember pvf s) (fun ms => pbind (pobj pvf f false (snd ms)) (fun ls => POk (fst ms :: fst ls, snd ls))).

Lemma pobj_first : forall pvf f r, pobj pvf (S f) true (34 :: r) = obj_k pvf f r.
Proof. reflexivity. Qed.
Lemma pobj_next : forall pvf f r, pobj pvf (S f) false (44 :: 34 :: r) = obj_k pvf f r.
Proof. reflexivity. Qed.

Lemma pmember_print : forall pvf k x rest, reads pvf x -> rest_ok rest = true ->
  pmember pvf (flat_map esc_char k ++ 34 :: 58 :: print x ++ rest) = POk ((k, x), rest).
Proof.
  intros pvf k x rest Hx Hr. unfold pmember. rewrite pstr_esc.
  rewrite (skip_nows 58 (print x ++ rest) eq_refl). change (58 =? 58) with true. cbn match.
  rewrite (Hx rest Hr). reflexivity.
Qed.

Lemma pobj_tail : forall pvf m, Forall (fun kx => reads pvf (snd kx)) m ->
  forall f rest, (length m < f)%nat -> pobj pvf f false (tail_m m ++ 125 :: rest) = POk (m, rest).
Proof.
  intros pvf. induction m as [|[k x] m IH]; intros HR f rest Hf.
  - destruct f as [|f]; [lia|]. apply pobj_end.
  - inversion HR as [|? ? Hx HR']. subst. cbn [snd] in Hx.
    destruct f as [|f]; [lia|]. cbn [length] in Hf.
    cbn [tail_m]. rewrite pm_cons. cbn [app]. rewrite pobj_next. unfold obj_k.
    rewrite <- !app_assoc. cbn [app]. rewrite <- app_assoc.
    pose proof (pmember_print pvf k x _ Hx (rest_ok_tail_m m rest)) as M.
    pose proof (IH HR' f rest ltac:(lia)) as T. nn. rewrite M. cbn [pbind fst snd].
    rewrite T. reflexivity.
Qed.

Lemma pobj_print : forall pvf m, Forall (fun kx => reads pvf (snd kx)) m ->
  forall f rest, (length m < f)%nat -> pobj pvf f true (pm m ++ 125 :: rest) = POk (m, rest).
Proof.
  intros pvf m HR f rest Hf. destruct f as [|f]; [lia|]. destruct m as [|[k x] m].
  - apply pobj_end.
  - inversion HR as [|? ? Hx HR']. subst. cbn [snd] in Hx. cbn [length] in Hf.
    rewrite pm_cons. cbn [app]. rewrite pobj_first. unfold obj_k.
    rewrite <- !app_assoc. cbn [app]. rewrite <- app_assoc.
    pose proof (pmember_print pvf k x _ Hx (rest_ok_tail_m m rest)) as M.
    pose proof (pobj_tail pvf m HR' f rest ltac:(lia)) as T. nn. rewrite M. cbn [pbind fst snd].
    rewrite T. reflexivity.
Qed.

Lemma pm_length : forall m, (length m <= length (pm m))%nat.
Proof.
  induction m as [|[k x] m IH]; [cbn; lia|]. rewrite pm_cons. cbn [length]. rewrite !app_length. cbn [length].
  rewrite app_length. destruct m as [|y m']; [cbn [length tail_m]; lia|]. cbn [tail_m length] in *. lia.
Qed.

(** * Induction over values *)
Section JInd.
Variable P : jvalue -> Prop.
Hypothesis Hnull : P JNull.
Hypothesis Hbool : forall b, P (JBool b).
Hypothesis Hnum : forall n, P (JNum n).
Hypothesis Hstr : forall s, P (JStr s).
Hypothesis Harr : forall l, Forall P l -> P (JArr l).
Hypothesis Hobj : forall m, Forall (fun kx => P (snd kx)) m -> P (JObj m).
Fixpoint jvalue_ind' (v : jvalue) : P v :=
  match v with
  | JNull => Hnull
  | JBool b => Hbool b
  | JNum n => Hnum n
  | JStr s => Hstr s
  | JArr l => Harr l ((fix go (l : list jvalue) : Forall P l :=
                         match l with [] => Forall_nil P | x :: l' => Forall_cons x (jvalue_ind' x) (go l') end) l)
  | JObj m => Hobj m ((fix go (m : list (str * jvalue)) : Forall (fun kx => P (snd kx)) m :=
                         match m with
                         | [] => Forall_nil _
                         | kx :: m' => Forall_cons kx (jvalue_ind' (snd kx)) (go m')
                         end) m)
  end.
End JInd.

Lemma fold_max_le : forall (A : Type) (f : A -> nat) (l : list A) d,
  (fold_right (fun x a => Nat.max (f x) a) O l <= d)%nat -> Forall (fun x => (f x <= d)%nat) l.
Proof.
  intros A f. induction l as [|x l IH]; intros d H; [constructor|]. cbn [fold_right] in H.
  constructor; [lia|]. apply IH. lia.
Qed.

(** * The round trip *)
Lemma pv_print : forall v, wf v = true -> forall d rest, (depth v <= d)%nat -> rest_ok rest = true ->
  pv d (print v ++ rest) = POk (v, rest).
Proof.
  induction v as [| b | n | s | l IH | m IH] using jvalue_ind'; intros Hw d rest Hd Hr.
  - rewrite pv_unfold. reflexivity.
  - rewrite pv_unfold. destruct b; reflexivity.
  - cbn [wf] in Hw. cbn [print].
    destruct (print_head (JNum n) Hw) as (c & tl & Ep & Hc). cbn [print] in Ep.
    assert (Hh : (c =? 45) || is_digit c = true).
    { unfold num_wf in Hw. rewrite !andb_true_iff in Hw. destruct Hw as [[[[[Hdg Hne] _] _] _] _].
      rewrite print_num_eq in Ep. destruct (n_neg n).
      - cbn [app] in Ep. injection Ep as <- _. reflexivity.
      - apply is_nil_s_false in Hne. destruct (n_int n) as [|d0 dr]; [discriminate|].
        cbn [app] in Ep. injection Ep as <- _. cbn [digits forallb] in Hdg. apply andb_true_iff in Hdg as [-> _].
        apply orb_true_r. }
    rewrite Ep. cbn [app]. rewrite pv_num_head by exact Hh.
    change (c :: tl ++ rest) with ((c :: tl) ++ rest). rewrite <- Ep.
    unfold num_branch. rewrite lex_number_print by assumption.
    unfold num_wf in Hw. apply andb_true_iff in Hw as [_ Hok]. rewrite Hok. reflexivity.
  - rewrite pv_unfold. cbn [print]. unfold json_string. cbn [app].
    rewrite (skip_nows 34 _ eq_refl). change (34 =? 110) with false. change (34 =? 116) with false.
    change (34 =? 102) with false. change (34 =? 34) with true. cbn match.
    rewrite <- app_assoc. cbn [app]. apply str_branch_print.
  - rewrite pv_unfold, print_arr. cbn [app]. rewrite (skip_nows 91 _ eq_refl).
    change (91 =? 110) with false. change (91 =? 116) with false. change (91 =? 102) with false.
    change (91 =? 34) with false. change (91 =? 91) with true. cbn match.
    cbn [depth] in Hd. destruct d as [|d']; [lia|]. cbn [arr_branch].
    cbn [wf] in Hw. rewrite forallb_forall in Hw. assert (HW : Forall (fun x => wf x = true) l).
    { apply Forall_forall. exact Hw. }
    assert (HD : Forall (fun x => (depth x <= d')%nat) l) by (apply fold_max_le; lia).
    assert (HR : Forall (reads (pv d')) l).
    { apply Forall_forall. intros x Hx rest' Hr'. rewrite Forall_forall in IH, HW, HD.
      apply IH; auto. }
    rewrite <- app_assoc. cbn [app]. rewrite (parr_print (pv d') l HR HW).
    + reflexivity.
    + rewrite app_length. pose proof (pl_length l HW). lia.
  - rewrite pv_unfold, print_obj. cbn [app]. rewrite (skip_nows 123 _ eq_refl).
    change (123 =? 110) with false. change (123 =? 116) with false. change (123 =? 102) with false.
    change (123 =? 34) with false. change (123 =? 91) with false. change (123 =? 123) with true. cbn match.
    cbn [depth] in Hd. destruct d as [|d']; [lia|]. cbn [obj_branch].
    cbn [wf] in Hw. rewrite forallb_forall in Hw.
    assert (HD : Forall (fun kx : str * jvalue => (depth (snd kx) <= d')%nat) m).
    { apply (fold_max_le _ (fun kx : str * jvalue => depth (snd kx))). lia. }
    assert (HR : Forall (fun kx => reads (pv d') (snd kx)) m).
    { apply Forall_forall. intros kx Hx rest' Hr'. rewrite Forall_forall in IH, HD.
      apply IH; auto. }
    rewrite <- app_assoc. cbn [app]. rewrite (pobj_print (pv d') m HR).
    + reflexivity.
    + rewrite app_length. pose proof (pm_length m). lia.
Qed.

Lemma json_roundtrip_l : forall v, wf v = true -> (depth v <= DEPTH)%nat -> json_parse (print v) = Some v.
Proof.
  intros v Hw Hd. unfold json_parse, json_parse_r.
  rewrite <- (app_nil_r (print v)). rewrite (pv_print v Hw DEPTH [] Hd eq_refl). reflexivity.
Qed.

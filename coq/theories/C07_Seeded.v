(** C07 proofs, part 5: the weighted strategy with the draws computed from the seed
    (RNG_Model) is the oracle model under an oracle that is in range: the premise
    [oracle_guard] of [gen_total] / [gen_items] is discharged by RNG_Proofs. *)
From TU Require Import RNG_Model RNG_Proofs RNG_Check.
From TU Require Import Base C07_Model C07_Proofs C07_Specs C07_Top C07_Weighted.
Require Import Lia ZifyN.

(** what [next_idx] needs of [self.lengths]: every source has a positive length (the
    constructor's check) and the sum fits a usize *)
Definition lens_ok (lens : list nat) : Prop :=
  Forall (fun n => 0 < n) lens /\ (N.of_nat (sum_nat lens) < RNG_Model.p64)%N.

Lemma sumN_filter_le : forall (h : nat -> N) g l, (sumN (map h (filter g l)) <= sumN (map h l))%N.
Proof.
  intros h g. induction l as [|a l IH]; cbn [filter map sumN fold_right]; [lia|].
  fold (sumN (map h l)). destruct (g a); cbn [map sumN fold_right]; fold (sumN (map h (filter g l))); lia.
Qed.

Lemma map_nth_seq : forall (l : list nat) s, map (fun j => nth (j - s) l 0) (seq s (length l)) = l.
Proof.
  induction l as [|a l IH]; intros s; cbn [length seq map]; [reflexivity|].
  rewrite Nat.sub_diag. cbn [nth]. f_equal. rewrite <- (IH (S s)) at 2.
  apply map_ext_in. intros j Hj. apply in_seq in Hj. replace (j - s) with (S (j - S s)) by lia. reflexivity.
Qed.

Lemma sumN_of_nat : forall l, sumN (map N.of_nat l) = N.of_nat (sum_nat l).
Proof. induction l as [|a l IH]; cbn [map sumN sum_nat fold_right]; [reflexivity|]. fold (sumN (map N.of_nat l)) (sum_nat l). lia. Qed.

Lemma unf_weights_le : forall lens fin, length fin = length lens ->
  (sumN (unf_weights lens (unfinished fin)) <= N.of_nat (sum_nat lens))%N.
Proof.
  intros lens fin Hl. unfold unf_weights, unfinished. rewrite Hl.
  eapply N.le_trans; [apply sumN_filter_le|].
  rewrite <- sumN_of_nat. apply N.eq_le_incl. f_equal.
  transitivity (map N.of_nat (map (fun j => nth (j - 0) lens 0) (seq 0 (length lens)))).
  - rewrite map_map. apply map_ext. intros j. rewrite Nat.sub_0_r. reflexivity.
  - rewrite map_nth_seq. reflexivity.
Qed.

Lemma unf_weights_pos : forall lens fin, length fin = length lens -> Forall (fun n => 0 < n) lens ->
  Forall (fun w => (0 < w)%N) (unf_weights lens (unfinished fin)).
Proof.
  intros lens fin Hl Hpos. unfold unf_weights. apply Forall_forall. intros w Hw.
  apply in_map_iff in Hw. destruct Hw as (j & <- & Hj). apply in_unfinished in Hj. apply unf_lt in Hj.
  rewrite Hl in Hj. pose proof (proj1 (Forall_forall _ lens) Hpos (nth j lens 0) (nth_In _ _ Hj)) as P. cbv beta in P. lia.
Qed.

Lemma sumN_pos : forall l, l <> [] -> Forall (fun w => (0 < w)%N) l -> (0 < sumN l)%N.
Proof.
  intros [|a l] Hne H; [contradiction|]. inversion H; subst. cbn [sumN fold_right]. fold (sumN l). lia.
Qed.

Lemma sumN_bounds : forall l w, In w l -> (w <= sumN l)%N.
Proof.
  induction l as [|a l IH]; intros w []; cbn [sumN fold_right]; fold (sumN l); [subst; lia|].
  specialize (IH w H). lia.
Qed.

(** a weighted step from the seed is a weighted step of the oracle model, at a position in range *)
Lemma seeded_step : forall lens st fin idx j st', RNG_Proofs.wf st ->
  next_idx_seeded lens st fin idx = Some (inr (j, st')) ->
  RNG_Proofs.wf st' /\
  exists c, forall pre cs, next_idx Weighted (orc (pre ++ c :: cs)) (length pre) fin idx = inr (j, S (length pre)).
Proof.
  intros lens st fin idx j st' Hw H. unfold next_idx_seeded in H.
  destruct (all_fin fin) eqn:Eall; [discriminate|].
  destruct (idx <? length fin) eqn:Eidx; cbn [negb] in H; [|discriminate]. apply Nat.ltb_lt in Eidx.
  destruct (RNG_Model.weighted_sample_n _ _ st) as [e|[[p st1]|]] eqn:Es; try discriminate.
  destruct (nth_error (unfinished fin) p) as [j'|] eqn:Ep; [|discriminate]. injection H as <- <-.
  split.
  - unfold RNG_Model.weighted_sample_n in Es. destruct (RNG_Model.windex_new_n _) as [e|[cum T]] eqn:En; [discriminate|].
    destruct (RNG_Model.uniform_usize _ T st) as [[x st2]|] eqn:Eu; [|discriminate]. injection Es as _ <-.
    (* the state after a sample is well formed whatever the total is *)
    unfold RNG_Model.uniform_usize in Eu.
    assert (L : forall fuel draw bits range thresh s y s',
              (forall a b c, RNG_Proofs.wf a -> draw a = (b, c) -> RNG_Proofs.wf c) ->
              RNG_Proofs.wf s -> RNG_Model.lemire fuel draw bits range thresh s = Some (y, s') -> RNG_Proofs.wf s').
    { induction fuel as [|f IH]; intros draw bits range thresh s y s' Hd Hs Hl; [discriminate|].
      cbn [RNG_Model.lemire] in Hl. destruct (draw s) as [a s1] eqn:Ed. pose proof (Hd _ _ _ Hs Ed) as Hs1.
      destruct (N.leb thresh _); [injection Hl as _ <-; exact Hs1|eapply IH; eassumption]. }
    destruct (N.ltb RNG_Model.mask32 (T - 1)).
    + eapply L; [|exact Hw|exact Eu]. intros a b c Ha Hd. eapply RNG_Proofs.next_u64_spec; eassumption.
    + destruct (N.eqb (RNG_Model.w32 T) 0).
      * destruct (RNG_Model.next_u32 st) as [y s1] eqn:Ed. injection Eu as _ <-. eapply RNG_Proofs.next_u32_spec; eassumption.
      * eapply L; [|exact Hw|exact Eu]. intros a b c Ha Hd. eapply RNG_Proofs.next_u32_spec; eassumption.
  - exists p. intros pre cs. apply next_weighted_at; assumption.
Qed.

(** an error of a weighted step from the seed is an error the oracle model makes for every oracle *)
Lemma seeded_err : forall lens st fin idx e, RNG_Proofs.wf st -> lens_ok lens -> length fin = length lens ->
  next_idx_seeded lens st fin idx = Some (inl e) ->
  forall o clk, next_idx Weighted o clk fin idx = inl e.
Proof.
  intros lens st fin idx e Hw [Hpos Hsum] Hl H o clk. unfold next_idx_seeded in H. unfold next_idx.
  destruct (all_fin fin) eqn:Eall; [injection H as <-; reflexivity|].
  destruct (idx <? length fin) eqn:Eidx; cbn [negb] in *; [|injection H as <-; reflexivity]. exfalso.
  set (ws := unf_weights lens (unfinished fin)) in *.
  assert (Hne : ws <> []).
  { unfold ws, unf_weights. pose proof (unfinished_pos _ Eall). destruct (unfinished fin); cbn in *; [lia|discriminate]. }
  pose proof (unf_weights_pos lens fin Hl Hpos) as Hwp. fold ws in Hwp.
  pose proof (unf_weights_le lens fin Hl) as Hle. fold ws in Hle.
  destruct (RNG_Proofs.windex_new_n_ok ws Hne ltac:(lia) (sumN_pos _ Hne Hwp)) as [cum Hnew].
  destruct (RNG_Model.weighted_sample_n RNG_Model.lemire_fuel ws st) as [e'|[[p st1]|]] eqn:Es.
  - unfold RNG_Model.weighted_sample_n in Es. rewrite Hnew in Es. discriminate.
  - assert (Hb : Forall (fun w => (w < RNG_Model.p64)%N) ws).
    { apply Forall_forall. intros w Hin. pose proof (sumN_bounds _ _ Hin). lia. }
    destruct (RNG_Proofs.weighted_sample_n_spec _ _ _ _ _ Hw Hb Es) as (Hp & _ & _).
    unfold ws, unf_weights in Hp. rewrite map_length in Hp.
    destruct (nth_error (unfinished fin) p) eqn:Ep; [discriminate|]. apply nth_error_None in Ep. lia.
  - discriminate.
Qed.

Section Sim.
Context {A : Type}.
Implicit Types (srcs : list (list A)).

Lemma seeded_sim : forall fuel lens srcs idx fin st r,
  RNG_Proofs.wf st -> lens_ok lens -> length fin = length lens ->
  run_loop_s lens fuel srcs idx fin st = Some r ->
  exists cs, forall pre, run_loop (next_idx Weighted (orc (pre ++ cs))) fuel srcs idx fin (length pre) = r.
Proof.
  induction fuel as [|f IH]; intros lens srcs idx fin st r Hw Hlens Hl H.
  - injection H as <-. exists []. reflexivity.
  - cbn [run_loop_s] in H. destruct (nth_error srcs idx) as [[|x xs]|] eqn:En.
    + (* the source is exhausted *)
      destruct (all_fin (set_nth idx true fin)) eqn:Eall.
      * injection H as <-. exists []. intros pre. cbn [run_loop]. rewrite En, Eall. reflexivity.
      * assert (Hl' : length (set_nth idx true fin) = length lens) by (rewrite set_nth_length; exact Hl).
        destruct (next_idx_seeded lens st (set_nth idx true fin) idx) as [[e|[idx' st']]|] eqn:Es; [| |discriminate].
        -- injection H as <-. exists []. intros pre. cbn [run_loop]. rewrite En, Eall.
           rewrite (seeded_err _ _ _ _ _ Hw Hlens Hl' Es). reflexivity.
        -- destruct (seeded_step _ _ _ _ _ _ Hw Es) as (Hw' & c & Hc).
           destruct (IH _ _ _ _ _ _ Hw' Hlens Hl' H) as [cs Hcs].
           exists (c :: cs). intros pre. cbn [run_loop]. rewrite En, Eall, Hc.
           specialize (Hcs (pre ++ [c])). rewrite <- app_assoc, app_length in Hcs. cbn [app length] in Hcs.
           rewrite Nat.add_1_r in Hcs. exact Hcs.
    + destruct (next_idx_seeded lens st fin idx) as [[e|[idx' st']]|] eqn:Es; [| |discriminate].
      * injection H as <-. exists []. intros pre. cbn [run_loop]. rewrite En.
        rewrite (seeded_err _ _ _ _ _ Hw Hlens Hl Es). reflexivity.
      * destruct (seeded_step _ _ _ _ _ _ Hw Es) as (Hw' & c & Hc).
        destruct (run_loop_s lens f (set_nth idx xs srcs) idx' fin st') as [r'|] eqn:Er; [|discriminate].
        injection H as <-. destruct (IH _ _ _ _ _ _ Hw' Hlens Hl Er) as [cs Hcs].
        exists (c :: cs). intros pre. cbn [run_loop]. rewrite En, Hc.
        specialize (Hcs (pre ++ [c])). rewrite <- app_assoc, app_length in Hcs. cbn [app length] in Hcs.
        rewrite Nat.add_1_r in Hcs. rewrite Hcs. reflexivity.
    + injection H as <-. exists []. intros pre. cbn [run_loop]. rewrite En. reflexivity.
Qed.

Lemma lens_ok_init : forall srcs, existsb is_nil srcs = false ->
  (N.of_nat (total_len srcs) < RNG_Model.p64)%N -> lens_ok (map (@length A) srcs).
Proof.
  intros srcs Hnil Hsum. split; [|exact Hsum].
  apply Forall_forall. intros n Hn. apply in_map_iff in Hn. destruct Hn as (s & <- & Hs).
  destruct s; [|cbn; lia]. exfalso.
  assert (existsb is_nil srcs = true) by (apply existsb_exists; exists []; auto). congruence.
Qed.

(** the run from the seed is a run of the oracle model under an oracle in range *)
Lemma seeded_oracle_l : forall seed srcs r, (N.of_nat (total_len srcs) < RNG_Model.p64)%N ->
  run_gen_seeded seed srcs = Some r ->
  exists o, oracle_guard o /\ run_gen Weighted o srcs = r.
Proof.
  intros seed srcs r Hsum H. unfold run_gen_seeded in H. destruct (existsb is_nil srcs) eqn:Hnil.
  - injection H as <-. exists (orc []). split; [apply orc_guard|]. apply gen_ctor_l. exact Hnil.
  - destruct (seeded_sim _ _ _ _ _ _ _ (RNG_Proofs.wf_seed seed) (lens_ok_init srcs Hnil Hsum)
                         ltac:(rewrite repeat_length, map_length; reflexivity) H) as [cs Hcs].
    exists (orc cs). split; [apply orc_guard|]. rewrite run_gen_unfold by exact Hnil. apply (Hcs []).
Qed.

Lemma gen_total_seeded_l : forall seed srcs r, srcs <> [] -> existsb is_nil srcs = false ->
  (N.of_nat (total_len srcs) < RNG_Model.p64)%N ->
  run_gen_seeded seed srcs = Some r -> exists out, r = Ok out.
Proof.
  intros seed srcs r Hne Hnil Hsum H. destruct (seeded_oracle_l _ _ _ Hsum H) as (o & Hg & <-).
  apply gen_total_l; auto.
Qed.

Lemma gen_items_seeded_l : forall seed srcs out, srcs <> [] ->
  (N.of_nat (total_len srcs) < RNG_Model.p64)%N ->
  run_gen_seeded seed srcs = Some (Ok out) ->
  (forall j, proj j out = nth j srcs []) /\ length out = total_len srcs /\
  Forall (fun p => fst p < length srcs) out /\ first_tag0 out = true.
Proof.
  intros seed srcs out Hne Hsum H. destruct (seeded_oracle_l _ _ _ Hsum H) as (o & Hg & Ho).
  destruct (gen_items_l _ _ _ _ Hne Ho) as (I1 & I2 & I3). repeat split; auto.
  unfold run_gen_seeded in H. destruct (existsb is_nil srcs) eqn:Hnil; [discriminate|].
  eapply first_tag_l; eauto.
Qed.

Lemma gen_ctor_seeded_l : forall seed srcs, existsb is_nil srcs = true ->
  run_gen_seeded seed srcs = Some (Err CtorErr).
Proof. intros seed srcs H. unfold run_gen_seeded. rewrite H. reflexivity. Qed.
End Sim.

(** the executable statement holds of the seeded model's own output *)
Lemma check_run_seeded_l : forall v, v_srcs v <> [] -> is_rng_case v = false ->
  (v_strategy (v_nth 0 v) = Weighted ->
   (N.of_nat (total_len (v_srcs v)) < RNG_Model.p64)%N /\ run_gen_seeded (v_n (v_nth 1 v)) (v_srcs v) <> None) ->
  check_C07s v (run_C07s v) = true.
Proof.
  intros v Hne Hrng Hw. unfold check_C07s, run_C07s. rewrite Hrng.
  destruct (v_strategy (v_nth 0 v)) eqn:Es; try (apply check_run_l; exact Hne).
  destruct (Hw eq_refl) as [Hsum Hsome].
  destruct (run_gen_seeded (v_n (v_nth 1 v)) (v_srcs v)) as [r|] eqn:Er; [|congruence].
  unfold check_C07. rewrite Es. set (srcs := v_srcs v) in *.
  destruct (existsb is_nil srcs) eqn:Hnil.
  - rewrite gen_ctor_seeded_l in Er by exact Hnil. injection Er as <-. cbn [res_v shape_ctor_err is_weighted andb]. reflexivity.
  - destruct (gen_total_seeded_l _ _ _ Hne Hnil Hsum Er) as [out ->].
    destruct (gen_items_seeded_l _ _ _ Hne Hsum Er) as (I1 & I2 & I3 & I4).
    cbn [res_v shape_ctor_err shape_ok v_nth nth]. rewrite v_list_list_v.
    assert (Hti : is_ti item_eqb srcs out = true) by (apply is_ti_iff_l; auto).
    rewrite Hti. unfold v_bool, v_nat, nat_v. cbn [v_z]. rewrite Nat2Z.id, Nat.eqb_refl. reflexivity.
Qed.

(** ... and of the rng scripts *)
Lemma check_run_rng_l : forall v, is_rng_case v = true -> Forall RNG_Check.call_ok (v_script v) ->
  ~ In RNG_Model.v_fuel (fst (RNG_Model.run_calls (v_script v) (RNG_Model.seed_from_u64 (RNG_Model.v_hl (v_nth 1 v))))) ->
  check_C07s v (run_C07s v) = true.
Proof.
  intros v Hr Hok Hnf. unfold check_C07s, run_C07s. rewrite Hr. unfold run_rng, RNG_Model.run_script, check_rng.
  destruct (RNG_Model.run_calls (v_script v) _) as [vs st] eqn:E. cbn [fst] in Hnf.
  destruct (RNG_Model.get_word_pos st) as [b off]. unfold n_v, nat_v.
  apply (RNG_Check.check_calls_run_l _ _ _ _ (RNG_Proofs.wf_seed _) Hok E Hnf).
Qed.

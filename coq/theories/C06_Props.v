(** C06 — pinned statements. Nothing but statements, [exact], and assumption audits.
    [batches size sort shuffle prefetch limit ty o input]: the model of
    Batched::new (limit 0 |-> 1, prefetch 0 |-> 1) + draining the iterator, for an
    arbitrary item type with size function [size]; [o] is the oracle for the rng
    ([oracle_guard]: shuffle permutes, random_range(0..m) < m). *)
From TU Require Import Base C06_Model C06_Subseq C06_Proofs C06_Loop C06_Top.
Require Import Permutation.

(** Termination: for every oracle in range the fuel (one call of next() per item, plus
    one) is never exhausted, no assertion / splice / index panic is reached, and
    [BadOracle] is not returned: all four modes, both limit types, every prefetch and limit
    incl. 0, zero sizes, oversized items. *)
Theorem batches_total : forall (A : Type) (size : A -> nat) sort shuffle prefetch lim ty o (input : list A),
  oracle_guard o -> exists bs, batches size sort shuffle prefetch lim ty o input = Ok bs.
Proof. exact @batches_total_l. Qed.
Print Assumptions batches_total.

(** For an arbitrary oracle: never out of fuel, never an assertion failure; [BadOracle]
    only if the oracle is out of range. *)
Theorem batches_never_stuck : forall (A : Type) (size : A -> nat) sort shuffle prefetch lim ty o (input : list A),
  batches size sort shuffle prefetch lim ty o input <> Err OutOfFuel /\
  batches size sort shuffle prefetch lim ty o input <> Err AssertFail /\
  (batches size sort shuffle prefetch lim ty o input = Err BadOracle -> ~ oracle_guard o).
Proof. exact @batches_safe_l. Qed.
Print Assumptions batches_never_stuck.

(** The two modes without shuffle never consult the oracle. *)
Theorem batches_total_deterministic : forall (A : Type) (size : A -> nat) sort prefetch lim ty o (input : list A),
  exists bs, batches size sort false prefetch lim ty o input = Ok bs.
Proof. exact @batches_total_det_l. Qed.
Print Assumptions batches_total_deterministic.

(** Partition, no empty batch, limit (item count, or count x largest size, for every
    batch with more than one item) — for every oracle value that yields a result. *)
Theorem batches_partition : forall (A : Type) (size : A -> nat) sort shuffle prefetch lim ty o (input : list A) bs,
  batches size sort shuffle prefetch lim ty o input = Ok bs -> Permutation (concat bs) input.
Proof. exact batches_partition_l. Qed.
Print Assumptions batches_partition.

Theorem batches_nonempty : forall (A : Type) (size : A -> nat) sort shuffle prefetch lim ty o (input : list A) bs,
  batches size sort shuffle prefetch lim ty o input = Ok bs -> Forall (fun b => b <> []) bs.
Proof. exact batches_nonempty_l. Qed.
Print Assumptions batches_nonempty.

Theorem batches_limit : forall (A : Type) (size : A -> nat) sort shuffle prefetch lim ty o (input : list A) bs,
  batches size sort shuffle prefetch lim ty o input = Ok bs ->
  Forall (fun b => 1 < length b -> limit size ty b <= Nat.max lim 1) bs.
Proof. exact batches_limit_l. Qed.
Print Assumptions batches_limit.

(** Without sort and shuffle the concatenation of the batches is the input ... *)
Theorem plain_order : forall (A : Type) (size : A -> nat) prefetch lim ty o (input : list A) bs,
  batches size false false prefetch lim ty o input = Ok bs -> concat bs = input.
Proof. exact plain_order_l. Qed.
Print Assumptions plain_order.

(** ... and each batch is greedy-maximal: it could not have taken the first item of its successor. *)
Theorem plain_greedy : forall (A : Type) (size : A -> nat) prefetch lim ty o (input : list A) bs,
  batches size false false prefetch lim ty o input = Ok bs ->
  forall i b b' x, nth_error bs i = Some b -> nth_error bs (S i) = Some (x :: b') ->
    Nat.max lim 1 < limit size ty (b ++ [x]).
Proof. exact plain_greedy_l. Qed.
Print Assumptions plain_greedy.

(** find_subsequences_of_max_size_k: for every size function [sz] (sz s e = size of
    values[s..e]), bound k and length n the loop terminates within its fuel and every
    returned range is non-empty, in bounds and of size <= k. *)
Theorem find_subseq_ok : forall (sz : nat -> nat -> nat) (k n : nat),
  exists subs, find_subseq sz k n = Some subs /\
    Forall (fun p => fst p < snd p /\ snd p <= n /\ sz (fst p) (snd p) <= k) subs.
Proof. exact find_subseq_ok_l. Qed.
Print Assumptions find_subseq_ok.

(** The executable statement evaluated on implementation outputs holds of the model's own output. *)
Theorem check_run : forall v, check_C06 v (run_C06 v) = true.
Proof. exact check_run_l. Qed.
Print Assumptions check_run.

(** ... and a passing check means: the batches (positions resolved to items) are a
    partition of the input, none empty, limit respected; plain mode: input order, greedy-maximal. *)
Theorem check_sound : forall v out, check_C06 v out = true ->
  let items := v_items v in
  let ty := v_ty (v_nth 4 v) in
  let L := Nat.max (v_nat (v_nth 3 v)) 1 in
  let bs := map (map (lookup items)) (v_batches (v_nth 0 out)) in
  Permutation (concat bs) items /\
  Forall (fun b => b <> []) bs /\
  Forall (fun b => 1 < length b -> limit isize ty b <= L) bs /\
  (v_bool (v_nth 0 v) = false -> v_bool (v_nth 1 v) = false ->
   concat bs = items /\
   forall i b b' x, nth_error bs i = Some b -> nth_error bs (S i) = Some (x :: b') ->
     L < limit isize ty (b ++ [x])).
Proof. exact check_sound_l. Qed.
Print Assumptions check_sound.

(** Non-vacuity: an oracle in range; concrete runs (items = (position, size)). *)
Example oracle_guard_witness : oracle_guard o_default.
Proof. exact o_default_guard. Qed.
Example plain_run : batches isize false false 1 4 Padded o_default (mk_items [3;1;2;5;1;1;4;2])
  = Ok [[(0, 3)]; [(1, 1); (2, 2)]; [(3, 5)]; [(4, 1); (5, 1)]; [(6, 4)]; [(7, 2)]].
Proof. vm_compute. reflexivity. Qed.
Example sort_shuffle_run : batches isize true true 2 3 BatchSize o_default (mk_items [3;1;2;5;1;1;4;2])
  = Ok [[(1, 1); (4, 1); (5, 1)]; [(2, 2); (7, 2); (0, 3)]; [(6, 4); (3, 5)]].
Proof. vm_compute. reflexivity. Qed.

(** C06 — pinned statements. Nothing but statements, [exact], and assumption audits.
    [batches size sort shuffle prefetch limit ty o input]: the model of
    Batched::new (limit 0 |-> 1, prefetch 0 |-> 1) + draining the iterator, for an
    arbitrary item type with size function [size]; [o] is the oracle for the rng
    ([oracle_guard]: shuffle permutes, random_range(0..m) < m). *)
From TU Require Import Base C06_Model C06_Subseq C06_Proofs C06_Loop C06_Top C06_Agree.
Require Import Permutation.

(** Termination: for every oracle in range the fuel (one call of next() per item, plus
    one) is never exhausted, no assertion / splice / index panic is reached, and
    [BadOracle] is not returned: all four modes, both limit types, every prefetch and limit
    incl. 0, zero sizes, oversized items. *)
Theorem batches_total : forall (A : Type) (size : A -> nat) sort shuffle prefetch lim ty o (input : list A),
  oracle_guard o -> exists bs, batches size sort shuffle prefetch lim ty o input = Ok bs.
Proof. exact @batches_total_l. Qed.
Print Assumptions batches_total.

(** For an arbitrary oracle: never out of fuel, never an assertion failure; [BadOracle]
    only if the oracle is out of range. *)
Theorem batches_never_stuck : forall (A : Type) (size : A -> nat) sort shuffle prefetch lim ty o (input : list A),
  batches size sort shuffle prefetch lim ty o input <> Err OutOfFuel /\
  batches size sort shuffle prefetch lim ty o input <> Err AssertFail /\
  (batches size sort shuffle prefetch lim ty o input = Err BadOracle -> ~ oracle_guard o).
Proof. exact @batches_safe_l. Qed.
Print Assumptions batches_never_stuck.

(** The two modes without shuffle never consult the oracle. *)
Theorem batches_total_deterministic : forall (A : Type) (size : A -> nat) sort prefetch lim ty o (input : list A),
  exists bs, batches size sort false prefetch lim ty o input = Ok bs.
Proof. exact @batches_total_det_l. Qed.
Print Assumptions batches_total_deterministic.

(** Partition, no empty batch, limit (item count, or count x largest size, for every
    batch with more than one item) — for every oracle value that yields a result. *)
Theorem batches_partition : forall (A : Type) (size : A -> nat) sort shuffle prefetch lim ty o (input : list A) bs,
  batches size sort shuffle prefetch lim ty o input = Ok bs -> Permutation (concat bs) input.
Proof. exact batches_partition_l. Qed.
Print Assumptions batches_partition.

Theorem batches_nonempty : forall (A : Type) (size : A -> nat) sort shuffle prefetch lim ty o (input : list A) bs,
  batches size sort shuffle prefetch lim ty o input = Ok bs -> Forall (fun b => b <> []) bs.
Proof. exact batches_nonempty_l. Qed.
Print Assumptions batches_nonempty.

Theorem batches_limit : forall (A : Type) (size : A -> nat) sort shuffle prefetch lim ty o (input : list A) bs,
  batches size sort shuffle prefetch lim ty o input = Ok bs ->
  Forall (fun b => 1 < length b -> limit size ty b <= Nat.max lim 1) bs.
Proof. exact batches_limit_l. Qed.
Print Assumptions batches_limit.

(** Without sort and shuffle the concatenation of the batches is the input ... *)
Theorem plain_order : forall (A : Type) (size : A -> nat) prefetch lim ty o (input : list A) bs,
  batches size false false prefetch lim ty o input = Ok bs -> concat bs = input.
Proof. exact plain_order_l. Qed.
Print Assumptions plain_order.

(** ... and each batch is greedy-maximal: it could not have taken the first item of its successor. *)
Theorem plain_greedy : forall (A : Type) (size : A -> nat) prefetch lim ty o (input : list A) bs,
  batches size false false prefetch lim ty o input = Ok bs ->
  forall i b b' x, nth_error bs i = Some b -> nth_error bs (S i) = Some (x :: b') ->
    Nat.max lim 1 < limit size ty (b ++ [x]).
Proof. exact plain_greedy_l. Qed.
Print Assumptions plain_greedy.

(** find_subsequences_of_max_size_k: for every size function [sz] (sz s e = size of
    values[s..e]), bound k and length n the loop terminates within its fuel and every
    returned range is non-empty, in bounds and of size <= k. *)
Theorem find_subseq_ok : forall (sz : nat -> nat -> nat) (k n : nat),
  exists subs, find_subseq sz k n = Some subs /\
    Forall (fun p => fst p < snd p /\ snd p <= n /\ sz (fst p) (snd p) <= k) subs.
Proof. exact find_subseq_ok_l. Qed.
Print Assumptions find_subseq_ok.

(** The executable statement evaluated on implementation outputs holds of the model's own output. *)
Theorem check_run : forall v, check_C06 v (run_C06 v) = true.
Proof. exact check_run_l. Qed.
Print Assumptions check_run.

(** ... and a passing check means: the batches (positions resolved to items) are a
    partition of the input, none empty, limit respected; plain mode: input order, greedy-maximal. *)
Theorem check_sound : forall v out, check_C06 v out = true ->
  let items := v_items v in
  let ty := v_ty (v_nth 4 v) in
  let L := Nat.max (v_nat (v_nth 3 v)) 1 in
  let bs := map (map (lookup items)) (v_batches (v_nth 0 out)) in
  Permutation (concat bs) items /\
  Forall (fun b => b <> []) bs /\
  Forall (fun b => 1 < length b -> limit isize ty b <= L) bs /\
  (v_bool (v_nth 0 v) = false -> v_bool (v_nth 1 v) = false ->
   concat bs = items /\
   forall i b b' x, nth_error bs i = Some b -> nth_error bs (S i) = Some (x :: b') ->
     L < limit isize ty (b ++ [x])).
Proof. exact check_sound_l. Qed.
Print Assumptions check_sound.

(** ** What acceptance by the correspondence relation [agree_C06] means.

    One call of build_batch reads the oracle at ONE argument: in shuffle mode
    [shuf o t n] with n = [shuf_arg] = the buffer length after the fill (only if n > 0), in
    sort+shuffle mode [pick o t m] with m = [pick_arg] = the number of sub-sequences (only if
    m > 0); two oracles that agree there give the same result. *)
Theorem build_batch_reads : forall (A : Type) (size : A -> nat) sort shuffle L P ty o o' t (rest buf : list A),
  (sort = false -> shuffle = true -> 0 < shuf_arg size L P ty rest buf ->
     shuf o t (shuf_arg size L P ty rest buf) = shuf o' t (shuf_arg size L P ty rest buf)) ->
  (sort = true -> shuffle = true -> 0 < pick_arg size L P ty rest buf ->
     pick o t (pick_arg size L P ty rest buf) = pick o' t (pick_arg size L P ty rest buf)) ->
  build_batch size sort shuffle L P ty o t rest buf = build_batch size sort shuffle L P ty o' t rest buf.
Proof. exact @build_batch_reads_l. Qed.
Print Assumptions build_batch_reads.

(** Any oracle made total by [sanitize] (in-range answers kept, identity selection sequence /
    index 0 elsewhere) is in range, and a run that succeeded is unchanged by it. *)
Theorem sanitize_ok : forall (A : Type) (size : A -> nat) o,
  oracle_guard (sanitize o) /\
  forall sort shuffle L P ty fuel t (rest buf : list A) bs,
    batches_loop size sort shuffle L P ty o fuel t rest buf = Ok bs ->
    batches_loop size sort shuffle L P ty (sanitize o) fuel t rest buf = Ok bs.
Proof. exact @sanitize_ok_l. Qed.
Print Assumptions sanitize_ok.

(** The glued oracle: call t is answered by the oracle the replay reconstructed for call t
    (at the buffer length / sub-sequence count actually used), everything else by the
    default.  If the replay accepts the implementation's batch sequence, this ONE oracle
    is in range and [batches] under it returns exactly that batch sequence (positions
    resolved to items). *)
Theorem agree_sound_glued : forall v m i, agree_C06 v m i = true ->
  oracle_guard (glued_oracle v i) /\
  run_with (glued_oracle v i) v = Ok (map (map (lookup (v_items v))) (v_batches (v_nth 0 i))).
Proof. exact agree_sound_glued_l. Qed.
Print Assumptions agree_sound_glued.

Theorem agree_sound : forall v m i, agree_C06 v m i = true ->
  exists o, oracle_guard o /\
    batches isize (v_bool (v_nth 0 v)) (v_bool (v_nth 1 v)) (v_nat (v_nth 2 v)) (v_nat (v_nth 3 v))
            (v_ty (v_nth 4 v)) o (v_items v)
    = Ok (map (map (lookup (v_items v))) (v_batches (v_nth 0 i))).
Proof. exact agree_sound_l. Qed.
Print Assumptions agree_sound.

(** Exact line: if the model run with the decisions drawn from the seed ([o_obs], which
    answers ONLY at the recorded buffer length / sub-sequence count of each call) emits the
    implementation's batch sequence, then so does the total in-range oracle [sanitize (o_obs orc)]. *)
Theorem exact_sound : forall v i, exact_ok v i = true ->
  exists orc, v_obs (v_nth 2 i) = Some orc /\
    run_with (o_obs orc) v = Ok (map (map (lookup (v_items v))) (v_batches (v_nth 0 i))) /\
    oracle_guard (sanitize (o_obs orc)) /\
    run_with (sanitize (o_obs orc)) v = Ok (map (map (lookup (v_items v))) (v_batches (v_nth 0 i))).
Proof. exact exact_sound_l. Qed.
Print Assumptions exact_sound.

(** Transfer: every pinned statement about [batches] holds of an implementation output the
    correspondence accepted (derived through [agree_sound] and batches_partition /
    batches_nonempty / batches_limit / plain_order / plain_greedy, not through [check_C06]). *)
Theorem agree_transfers : forall v m i, agree_C06 v m i = true ->
  let items := v_items v in
  let ty := v_ty (v_nth 4 v) in
  let lm := v_nat (v_nth 3 v) in
  let bs := map (map (lookup items)) (v_batches (v_nth 0 i)) in
  Permutation (concat bs) items /\
  Forall (fun b => b <> []) bs /\
  Forall (fun b => 1 < length b -> limit isize ty b <= Nat.max lm 1) bs /\
  (v_bool (v_nth 0 v) = false -> v_bool (v_nth 1 v) = false ->
   concat bs = items /\
   forall k b b' x, nth_error bs k = Some b -> nth_error bs (S k) = Some (x :: b') ->
     Nat.max lm 1 < limit isize ty (b ++ [x])).
Proof. exact agree_transfers_l. Qed.
Print Assumptions agree_transfers.

(** Non-vacuity: an oracle in range; concrete runs (items = (position, size)). *)
Example oracle_guard_witness : oracle_guard o_default.
Proof. exact o_default_guard. Qed.
Example plain_run : batches isize false false 1 4 Padded o_default (mk_items [3;1;2;5;1;1;4;2])
  = Ok [[(0, 3)]; [(1, 1); (2, 2)]; [(3, 5)]; [(4, 1); (5, 1)]; [(6, 4)]; [(7, 2)]].
Proof. vm_compute. reflexivity. Qed.
Example sort_shuffle_run : batches isize true true 2 3 BatchSize o_default (mk_items [3;1;2;5;1;1;4;2])
  = Ok [[(1, 1); (4, 1); (5, 1)]; [(2, 2); (7, 2); (0, 3)]; [(6, 4); (3, 5)]].
Proof. vm_compute. reflexivity. Qed.

(** Concrete shuffled runs of the real crate (seed 3 / seed 9) with the decisions the harness
    drew from ChaCha8Rng::seed_from_u64: accepted on both lines; the same batches in an order
    that another oracle would explain are accepted by the replay but not by the exact line; a
    batch that takes an item before it was in the buffer is rejected by both. *)
Local Open Scope Z_scope.
Definition ex_in_shuffle : val := L [I 0; I 1; I 2; I 6; I 1; I 3; L [I 1; I 2; I 3; I 1; I 2; I 0; I 1; I 2]].
Definition ex_obs_shuffle : val :=
  L [L [L [I 5; L [I 2; I 1; I 0; I 1; I 0]]; L [I 5; L [I 1; I 1; I 0; I 1; I 0]]; L [I 3; L [I 2; I 1; I 0]]; L [I 1; L [I 0]]]].
Definition ex_out_shuffle : val :=
  L [L [L [I 3; I 4; I 0]; L [I 6; I 7]; L [I 1; I 5]; L [I 2]]; I 1; ex_obs_shuffle].
Example agree_shuffled_run : agree_C06 ex_in_shuffle (run_C06 ex_in_shuffle) ex_out_shuffle = true.
Proof. vm_compute. reflexivity. Qed.
Example glued_oracle_shuffled_run :
  run_with (glued_oracle ex_in_shuffle ex_out_shuffle) ex_in_shuffle
  = Ok [[(3, 1); (4, 2); (0, 1)]; [(6, 1); (7, 2)]; [(1, 2); (5, 0)]; [(2, 3)]]%nat.
Proof. vm_compute. reflexivity. Qed.
Example exact_rejects_other_valid_run :
  let out := L [L [L [I 4; I 3; I 0]; L [I 6; I 7]; L [I 1; I 5]; L [I 2]]; I 1; ex_obs_shuffle] in
  exact_ok ex_in_shuffle out = false /\
  replay false true 6 2 Padded 10 0 (v_items ex_in_shuffle) [] (v_batches (v_nth 0 out)) = true.
Proof. vm_compute. split; reflexivity. Qed.
Example both_lines_reject_early_item :
  let out := L [L [L [I 3; I 4; I 7]; L [I 6; I 0]; L [I 1; I 5]; L [I 2]]; I 1; ex_obs_shuffle] in
  exact_ok ex_in_shuffle out = false /\
  replay false true 6 2 Padded 10 0 (v_items ex_in_shuffle) [] (v_batches (v_nth 0 out)) = false.
Proof. vm_compute. split; reflexivity. Qed.

Definition ex_in_sortshuffle : val := L [I 1; I 1; I 3; I 4; I 1; I 9; L [I 1; I 2; I 3; I 1; I 2; I 0; I 1; I 2; I 1]].
Definition ex_out_sortshuffle : val :=
  L [L [L [I 1; I 4]; L [I 5; I 0; I 3; I 6]; L [I 2]; L [I 8; I 7]]; I 1;
     L [L [L [I 4; L [I 2]]; L [I 2; L [I 0]]; L [I 2; L [I 1]]; L [I 1; L [I 0]]]]].
Example agree_sort_shuffled_run : agree_C06 ex_in_sortshuffle (run_C06 ex_in_sortshuffle) ex_out_sortshuffle = true.
Proof. vm_compute. reflexivity. Qed.

(** ** the generator inside the model ("seed in, behaviour out"; C06_Seeded.v, RNG_Model.v)

    [batches_seeded size sort shuffle prefetch limit ty seed input]: [Batched::new(.., Some(seed))]
    drained — the generator is [ChaCha8Rng::seed_from_u64 seed], threaded through the calls of
    [build_batch]; a shuffle is [SliceRandom::shuffle] on the buffer, an index is
    [random_range(0..number of sub-sequences)], drawn where and when the code draws them.
    [fits n]: n is a length a [Vec] can have (below isize::MAX). *)
From TU Require Import RNG_Model RNG_Proofs.
From TU Require Import C06_Seeded C06_Seeded_Proofs.
Local Open Scope nat_scope.

(** seeded run = oracle run under ONE oracle that satisfies [oracle_guard]: the premise of
    [batches_total] is discharged by the facts proved about the modelled generator
    ([rng_shuffle_perm], [rng_random_range_lt] below), not assumed *)
Theorem seeded_oracle : forall (A : Type) (size : A -> nat) sort shuffle prefetch lim ty seed (input : list A),
  fits (length input) ->
  exists o, oracle_guard o /\
    batches size sort shuffle prefetch lim ty o input = batches_seeded size sort shuffle prefetch lim ty seed input.
Proof. exact @seeded_oracle_l. Qed.
Print Assumptions seeded_oracle.

(** hence, for every seed: the iteration ends, without assertion / splice / index / empty-range panic ... *)
Theorem batches_total_seeded : forall (A : Type) (size : A -> nat) sort shuffle prefetch lim ty seed (input : list A),
  fits (length input) -> exists bs, batches_seeded size sort shuffle prefetch lim ty seed input = Ok bs.
Proof. exact @seeded_total_l. Qed.
Print Assumptions batches_total_seeded.

(** ... the batches partition the input, none is empty, the limit holds ... *)
Theorem batches_partition_seeded : forall (A : Type) (size : A -> nat) sort shuffle prefetch lim ty seed (input : list A) bs,
  fits (length input) -> batches_seeded size sort shuffle prefetch lim ty seed input = Ok bs ->
  Permutation (concat bs) input.
Proof. exact (fun A size sort shuffle prefetch lim ty seed input bs Hf H =>
               proj1 (seeded_props_l size sort shuffle prefetch lim ty seed input bs Hf H)). Qed.
Print Assumptions batches_partition_seeded.

Theorem batches_nonempty_seeded : forall (A : Type) (size : A -> nat) sort shuffle prefetch lim ty seed (input : list A) bs,
  fits (length input) -> batches_seeded size sort shuffle prefetch lim ty seed input = Ok bs ->
  Forall (fun b => b <> []) bs.
Proof. exact (fun A size sort shuffle prefetch lim ty seed input bs Hf H =>
               proj1 (proj2 (seeded_props_l size sort shuffle prefetch lim ty seed input bs Hf H))). Qed.
Print Assumptions batches_nonempty_seeded.

Theorem batches_limit_seeded : forall (A : Type) (size : A -> nat) sort shuffle prefetch lim ty seed (input : list A) bs,
  fits (length input) -> batches_seeded size sort shuffle prefetch lim ty seed input = Ok bs ->
  Forall (fun b => 1 < length b -> limit size ty b <= Nat.max lim 1) bs.
Proof. exact (fun A size sort shuffle prefetch lim ty seed input bs Hf H =>
               proj2 (proj2 (seeded_props_l size sort shuffle prefetch lim ty seed input bs Hf H))). Qed.
Print Assumptions batches_limit_seeded.

(** ... and without sort and shuffle: input order, greedy-maximal batches *)
Theorem plain_seeded : forall (A : Type) (size : A -> nat) prefetch lim ty seed (input : list A) bs,
  fits (length input) -> batches_seeded size false false prefetch lim ty seed input = Ok bs ->
  concat bs = input /\
  forall i b b' x, nth_error bs i = Some b -> nth_error bs (S i) = Some (x :: b') ->
    Nat.max lim 1 < limit size ty (b ++ [x]).
Proof. exact @seeded_plain_l. Qed.
Print Assumptions plain_seeded.

(** determinism: [batches_seeded] is a function of (configuration, seed, input) with the generator
    inside; without shuffle the seed does not matter at all — the run is the oracle model's for
    every oracle *)
Theorem seeded_noshuffle : forall (A : Type) (size : A -> nat) sort prefetch lim ty seed o (input : list A),
  fits (length input) ->
  batches_seeded size sort false prefetch lim ty seed input = batches size sort false prefetch lim ty o input.
Proof. exact @seeded_noshuffle_l. Qed.
Print Assumptions seeded_noshuffle.

Theorem run_seeded_noshuffle : forall v, fits (length (v_items v)) -> v_bool (v_nth 1 v) = false ->
  run_C06s v = run_C06 v.
Proof. exact run_seeded_noshuffle_l. Qed.
Print Assumptions run_seeded_noshuffle.

(** the executable statement holds of the seeded model's own output *)
Theorem check_run_seeded : forall v, fits (length (v_items v)) -> check_C06 v (run_C06s v) = true.
Proof. exact check_run_seeded_l. Qed.
Print Assumptions check_run_seeded.

(** What acceptance by the FIRST line of the correspondence ([seeded_ok]: the implementation's batch
    sequence equals the seeded run's) means: that sequence, resolved to items, is [batches_seeded]
    of (items, configuration, seed), and it is a run of the oracle model under an oracle in range *)
Theorem seeded_sound : forall v i, fits (length (v_items v)) -> seeded_ok (run_C06s v) i = true ->
  run_seeded v = Ok (map (map (lookup (v_items v))) (v_batches (v_nth 0 i))) /\
  exists o, oracle_guard o /\
    run_with o v = Ok (map (map (lookup (v_items v))) (v_batches (v_nth 0 i))).
Proof. exact seeded_sound_l. Qed.
Print Assumptions seeded_sound.

Theorem seeded_transfers : forall v i, fits (length (v_items v)) -> seeded_ok (run_C06s v) i = true ->
  let items := v_items v in
  let ty := v_ty (v_nth 4 v) in
  let lm := v_nat (v_nth 3 v) in
  let bs := map (map (lookup items)) (v_batches (v_nth 0 i)) in
  Permutation (concat bs) items /\
  Forall (fun b => b <> []) bs /\
  Forall (fun b => 1 < length b -> limit isize ty b <= Nat.max lm 1) bs /\
  (v_bool (v_nth 0 v) = false -> v_bool (v_nth 1 v) = false ->
   concat bs = items /\
   forall k b b' x, nth_error bs k = Some b -> nth_error bs (S k) = Some (x :: b') ->
     Nat.max lm 1 < limit isize ty (b ++ [x])).
Proof. exact seeded_transfers_l. Qed.
Print Assumptions seeded_transfers.

(** the facts about the modelled generator this rests on (RNG_Props.v), re-pinned so that every run
    of this check audits them *)
Theorem rng_seed_wf : forall seed, RNG_Proofs.wf (seed_from_u64 seed).
Proof. exact RNG_Proofs.wf_seed. Qed.
Print Assumptions rng_seed_wf.

Theorem rng_shuffle_perm : forall (A : Type) (l : list A) st, Permutation (fst (RNG_Model.shuffle l st)) l.
Proof. exact @RNG_Proofs.shuffle_perm_l. Qed.
Print Assumptions rng_shuffle_perm.

Theorem rng_shuffle_keeps_wf : forall (A : Type) (l : list A) st, RNG_Proofs.wf st ->
  (N.of_nat (length l) < 2 ^ 64)%N -> RNG_Proofs.wf (snd (RNG_Model.shuffle l st)).
Proof. exact RNG_Proofs.shuffle_wf. Qed.
Print Assumptions rng_shuffle_keeps_wf.

Theorem rng_random_range_lt : forall n st i st', RNG_Proofs.wf st ->
  random_range n st = Some (i, st') -> (i < n)%N /\ RNG_Proofs.wf st'.
Proof. exact RNG_Proofs.random_range_spec. Qed.
Print Assumptions rng_random_range_lt.

Theorem rng_random_range_defined : forall n st, random_range n st <> None <-> (0 < n < 2 ^ 64)%N.
Proof. exact RNG_Proofs.random_range_some. Qed.
Print Assumptions rng_random_range_defined.

(** known answers: the two runs of the REAL crate above (seed 3, shuffle; seed 9, sort + shuffle) are
    reproduced by the seeded model from (items, configuration, seed) alone, and accepted on all lines *)
Local Open Scope Z_scope.
Example fits_witness : fits 8%nat /\ fits 1025%nat.
Proof. unfold fits. repeat split; reflexivity. Qed.
Example seeded_shuffled_run : run_C06s ex_in_shuffle = L [v_nth 0 ex_out_shuffle; I 1; L []]
  /\ agree_C06s ex_in_shuffle (run_C06s ex_in_shuffle) ex_out_shuffle = true.
Proof. vm_compute. split; reflexivity. Qed.
Example seeded_sort_shuffled_run : run_C06s ex_in_sortshuffle = L [v_nth 0 ex_out_sortshuffle; I 1; L []]
  /\ agree_C06s ex_in_sortshuffle (run_C06s ex_in_sortshuffle) ex_out_sortshuffle = true.
Proof. vm_compute. split; reflexivity. Qed.
(** another seed gives another sequence; another valid order of the same batches is rejected *)
Example seeded_other_seed :
  run_C06s (L [I 0; I 1; I 2; I 6; I 1; I 4; L [I 1; I 2; I 3; I 1; I 2; I 0; I 1; I 2]]) <> run_C06s ex_in_shuffle.
Proof. vm_compute. discriminate. Qed.
Example seeded_rejects_other_valid_run :
  seeded_ok (run_C06s ex_in_shuffle) (L [L [L [I 4; I 3; I 0]; L [I 6; I 7]; L [I 1; I 5]; L [I 2]]; I 1; ex_obs_shuffle]) = false.
Proof. vm_compute. reflexivity. Qed.

(** C06 — pinned statements. Nothing but statements, [exact], and assumption audits. *)
From TU Require Import Base C06_Model C06_Subseq.

(** find_subsequences_of_max_size_k: for every size function [sz] (sz s e = size of
    values[s..e]), bound k and length n the loop terminates within its fuel and every
    returned range is non-empty, in bounds and of size <= k. *)
Theorem find_subseq_ok : forall (sz : nat -> nat -> nat) (k n : nat),
  exists subs, find_subseq sz k n = Some subs /\
    Forall (fun p => fst p < snd p /\ snd p <= n /\ sz (fst p) (snd p) <= k) subs.
Proof. exact find_subseq_ok_l. Qed.
Print Assumptions find_subseq_ok.

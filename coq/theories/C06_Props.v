(** C06 — pinned statements. Nothing but statements, [exact], and assumption audits.
    [batches size sort shuffle prefetch limit ty o input]: the model of
    Batched::new (limit 0 |-> 1, prefetch 0 |-> 1) + draining the iterator, for an
    arbitrary item type with size function [size]; [o] is the oracle for the rng
    ([oracle_guard]: shuffle permutes, random_range(0..m) < m). *)
From TU Require Import Base C06_Model C06_Subseq C06_Proofs C06_Loop C06_Top C06_Agree.
Require Import Permutation.

(** Termination: for every oracle in range the fuel (one call of next() per item, plus
    one) is never exhausted, no assertion / splice / index panic is reached, and
    [BadOracle] is not returned: all four modes, both limit types, every prefetch and limit
    incl. 0, zero sizes, oversized items. *)
Theorem batches_total : forall (A : Type) (size : A -> nat) sort shuffle prefetch lim ty o (input : list A),
  oracle_guard o -> exists bs, batches size sort shuffle prefetch lim ty o input = Ok bs.
Proof. exact @batches_total_l. Qed.
Print Assumptions batches_total.

(** For an arbitrary oracle: never out of fuel, never an assertion failure; [BadOracle]
    only if the oracle is out of range. *)
Theorem batches_never_stuck : forall (A : Type) (size : A -> nat) sort shuffle prefetch lim ty o (input : list A),
  batches size sort shuffle prefetch lim ty o input <> Err OutOfFuel /\
  batches size sort shuffle prefetch lim ty o input <> Err AssertFail /\
  (batches size sort shuffle prefetch lim ty o input = Err BadOracle -> ~ oracle_guard o).
Proof. exact @batches_safe_l. Qed.
Print Assumptions batches_never_stuck.

(** The two modes without shuffle never consult the oracle. *)
Theorem batches_total_deterministic : forall (A : Type) (size : A -> nat) sort prefetch lim ty o (input : list A),
  exists bs, batches size sort false prefetch lim ty o input = Ok bs.
Proof. exact @batches_total_det_l. Qed.
Print Assumptions batches_total_deterministic.

(** Partition, no empty batch, limit (item count, or count x largest size, for every
    batch with more than one item) — for every oracle value that yields a result. *)
Theorem batches_partition : forall (A : Type) (size : A -> nat) sort shuffle prefetch lim ty o (input : list A) bs,
  batches size sort shuffle prefetch lim ty o input = Ok bs -> Permutation (concat bs) input.
Proof. exact batches_partition_l. Qed.
Print Assumptions batches_partition.

Theorem batches_nonempty : forall (A : Type) (size : A -> nat) sort shuffle prefetch lim ty o (input : list A) bs,
  batches size sort shuffle prefetch lim ty o input = Ok bs -> Forall (fun b => b <> []) bs.
Proof. exact batches_nonempty_l. Qed.
Print Assumptions batches_nonempty.

Theorem batches_limit : forall (A : Type) (size : A -> nat) sort shuffle prefetch lim ty o (input : list A) bs,
  batches size sort shuffle prefetch lim ty o input = Ok bs ->
  Forall (fun b => 1 < length b -> limit size ty b <= Nat.max lim 1) bs.
Proof. exact batches_limit_l. Qed.
Print Assumptions batches_limit.

(** Without sort and shuffle the concatenation of the batches is the input ... *)
Theorem plain_order : forall (A : Type) (size : A -> nat) prefetch lim ty o (input : list A) bs,
  batches size false false prefetch lim ty o input = Ok bs -> concat bs = input.
Proof. exact plain_order_l. Qed.
Print Assumptions plain_order.

(** ... and each batch is greedy-maximal: it could not have taken the first item of its successor. *)
Theorem plain_greedy : forall (A : Type) (size : A -> nat) prefetch lim ty o (input : list A) bs,
  batches size false false prefetch lim ty o input = Ok bs ->
  forall i b b' x, nth_error bs i = Some b -> nth_error bs (S i) = Some (x :: b') ->
    Nat.max lim 1 < limit size ty (b ++ [x]).
Proof. exact plain_greedy_l. Qed.
Print Assumptions plain_greedy.

(** find_subsequences_of_max_size_k: for every size function [sz] (sz s e = size of
    values[s..e]), bound k and length n the loop terminates within its fuel and every
    returned range is non-empty, in bounds and of size <= k. *)
Theorem find_subseq_ok : forall (sz : nat -> nat -> nat) (k n : nat),
  exists subs, find_subseq sz k n = Some subs /\
    Forall (fun p => fst p < snd p /\ snd p <= n /\ sz (fst p) (snd p) <= k) subs.
Proof. exact find_subseq_ok_l. Qed.
Print Assumptions find_subseq_ok.

(** The executable statement evaluated on implementation outputs holds of the model's own output. *)
Theorem check_run : forall v, check_C06 v (run_C06 v) = true.
Proof. exact check_run_l. Qed.
Print Assumptions check_run.

(** ... and a passing check means: the batches (positions resolved to items) are a
    partition of the input, none empty, limit respected; plain mode: input order, greedy-maximal. *)
Theorem check_sound : forall v out, check_C06 v out = true ->
  let items := v_items v in
  let ty := v_ty (v_nth 4 v) in
  let L := Nat.max (v_nat (v_nth 3 v)) 1 in
  let bs := map (map (lookup items)) (v_batches (v_nth 0 out)) in
  Permutation (concat bs) items /\
  Forall (fun b => b <> []) bs /\
  Forall (fun b => 1 < length b -> limit isize ty b <= L) bs /\
  (v_bool (v_nth 0 v) = false -> v_bool (v_nth 1 v) = false ->
   concat bs = items /\
   forall i b b' x, nth_error bs i = Some b -> nth_error bs (S i) = Some (x :: b') ->
     L < limit isize ty (b ++ [x])).
Proof. exact check_sound_l. Qed.
Print Assumptions check_sound.

(** ** What acceptance by the correspondence relation [agree_C06] means.

    One call of build_batch reads the oracle at ONE argument: in shuffle mode
    [shuf o t n] with n = [shuf_arg] = the buffer length after the fill (only if n > 0), in
    sort+shuffle mode [pick o t m] with m = [pick_arg] = the number of sub-sequences (only if
    m > 0); two oracles that agree there give the same result. *)
Theorem build_batch_reads : forall (A : Type) (size : A -> nat) sort shuffle L P ty o o' t (rest buf : list A),
  (sort = false -> shuffle = true -> 0 < shuf_arg size L P ty rest buf ->
     shuf o t (shuf_arg size L P ty rest buf) = shuf o' t (shuf_arg size L P ty rest buf)) ->
  (sort = true -> shuffle = true -> 0 < pick_arg size L P ty rest buf ->
     pick o t (pick_arg size L P ty rest buf) = pick o' t (pick_arg size L P ty rest buf)) ->
  build_batch size sort shuffle L P ty o t rest buf = build_batch size sort shuffle L P ty o' t rest buf.
Proof. exact @build_batch_reads_l. Qed.
Print Assumptions build_batch_reads.

(** Any oracle made total by [sanitize] (in-range answers kept, identity selection sequence /
    index 0 elsewhere) is in range, and a run that succeeded is unchanged by it. *)
Theorem sanitize_ok : forall (A : Type) (size : A -> nat) o,
  oracle_guard (sanitize o) /\
  forall sort shuffle L P ty fuel t (rest buf : list A) bs,
    batches_loop size sort shuffle L P ty o fuel t rest buf = Ok bs ->
    batches_loop size sort shuffle L P ty (sanitize o) fuel t rest buf = Ok bs.
Proof. exact @sanitize_ok_l. Qed.
Print Assumptions sanitize_ok.

(** The glued oracle: call t is answered by the oracle the replay reconstructed for call t
    (at the buffer length / sub-sequence count actually used), everything else by the
    default.  If the replay accepts the implementation's batch sequence, this ONE oracle
    is in range and [batches] under it returns exactly that batch sequence (positions
    resolved to items). *)
Theorem agree_sound_glued : forall v m i, agree_C06 v m i = true ->
  oracle_guard (glued_oracle v i) /\
  run_with (glued_oracle v i) v = Ok (map (map (lookup (v_items v))) (v_batches (v_nth 0 i))).
Proof. exact agree_sound_glued_l. Qed.
Print Assumptions agree_sound_glued.

Theorem agree_sound : forall v m i, agree_C06 v m i = true ->
  exists o, oracle_guard o /\
    batches isize (v_bool (v_nth 0 v)) (v_bool (v_nth 1 v)) (v_nat (v_nth 2 v)) (v_nat (v_nth 3 v))
            (v_ty (v_nth 4 v)) o (v_items v)
    = Ok (map (map (lookup (v_items v))) (v_batches (v_nth 0 i))).
Proof. exact agree_sound_l. Qed.
Print Assumptions agree_sound.

(** Exact line: if the model run with the decisions drawn from the seed ([o_obs], which
    answers ONLY at the recorded buffer length / sub-sequence count of each call) emits the
    implementation's batch sequence, then so does the total in-range oracle [sanitize (o_obs orc)]. *)
Theorem exact_sound : forall v i, exact_ok v i = true ->
  exists orc, v_obs (v_nth 2 i) = Some orc /\
    run_with (o_obs orc) v = Ok (map (map (lookup (v_items v))) (v_batches (v_nth 0 i))) /\
    oracle_guard (sanitize (o_obs orc)) /\
    run_with (sanitize (o_obs orc)) v = Ok (map (map (lookup (v_items v))) (v_batches (v_nth 0 i))).
Proof. exact exact_sound_l. Qed.
Print Assumptions exact_sound.

(** Transfer: every pinned statement about [batches] holds of an implementation output the
    correspondence accepted (derived through [agree_sound] and batches_partition /
    batches_nonempty / batches_limit / plain_order / plain_greedy, not through [check_C06]). *)
Theorem agree_transfers : forall v m i, agree_C06 v m i = true ->
  let items := v_items v in
  let ty := v_ty (v_nth 4 v) in
  let lm := v_nat (v_nth 3 v) in
  let bs := map (map (lookup items)) (v_batches (v_nth 0 i)) in
  Permutation (concat bs) items /\
  Forall (fun b => b <> []) bs /\
  Forall (fun b => 1 < length b -> limit isize ty b <= Nat.max lm 1) bs /\
  (v_bool (v_nth 0 v) = false -> v_bool (v_nth 1 v) = false ->
   concat bs = items /\
   forall k b b' x, nth_error bs k = Some b -> nth_error bs (S k) = Some (x :: b') ->
     Nat.max lm 1 < limit isize ty (b ++ [x])).
Proof. exact agree_transfers_l. Qed.
Print Assumptions agree_transfers.

(** Non-vacuity: an oracle in range; concrete runs (items = (position, size)). *)
Example oracle_guard_witness : oracle_guard o_default.
Proof. exact o_default_guard. Qed.
Example plain_run : batches isize false false 1 4 Padded o_default (mk_items [3;1;2;5;1;1;4;2])
  = Ok [[(0, 3)]; [(1, 1); (2, 2)]; [(3, 5)]; [(4, 1); (5, 1)]; [(6, 4)]; [(7, 2)]].
Proof. vm_compute. reflexivity. Qed.
Example sort_shuffle_run : batches isize true true 2 3 BatchSize o_default (mk_items [3;1;2;5;1;1;4;2])
  = Ok [[(1, 1); (4, 1); (5, 1)]; [(2, 2); (7, 2); (0, 3)]; [(6, 4); (3, 5)]].
Proof. vm_compute. reflexivity. Qed.

(** Concrete shuffled runs of the real crate (seed 3 / seed 9) with the decisions the harness
    drew from ChaCha8Rng::seed_from_u64: accepted on both lines; the same batches in an order
    that another oracle would explain are accepted by the replay but not by the exact line; a
    batch that takes an item before it was in the buffer is rejected by both. *)
Local Open Scope Z_scope.
Definition ex_in_shuffle : val := L [I 0; I 1; I 2; I 6; I 1; I 3; L [I 1; I 2; I 3; I 1; I 2; I 0; I 1; I 2]].
Definition ex_obs_shuffle : val :=
  L [L [L [I 5; L [I 2; I 1; I 0; I 1; I 0]]; L [I 5; L [I 1; I 1; I 0; I 1; I 0]]; L [I 3; L [I 2; I 1; I 0]]; L [I 1; L [I 0]]]].
Definition ex_out_shuffle : val :=
  L [L [L [I 3; I 4; I 0]; L [I 6; I 7]; L [I 1; I 5]; L [I 2]]; I 1; ex_obs_shuffle].
Example agree_shuffled_run : agree_C06 ex_in_shuffle (run_C06 ex_in_shuffle) ex_out_shuffle = true.
Proof. vm_compute. reflexivity. Qed.
Example glued_oracle_shuffled_run :
  run_with (glued_oracle ex_in_shuffle ex_out_shuffle) ex_in_shuffle
  = Ok [[(3, 1); (4, 2); (0, 1)]; [(6, 1); (7, 2)]; [(1, 2); (5, 0)]; [(2, 3)]]%nat.
Proof. vm_compute. reflexivity. Qed.
Example exact_rejects_other_valid_run :
  let out := L [L [L [I 4; I 3; I 0]; L [I 6; I 7]; L [I 1; I 5]; L [I 2]]; I 1; ex_obs_shuffle] in
  exact_ok ex_in_shuffle out = false /\
  replay false true 6 2 Padded 10 0 (v_items ex_in_shuffle) [] (v_batches (v_nth 0 out)) = true.
Proof. vm_compute. split; reflexivity. Qed.
Example both_lines_reject_early_item :
  let out := L [L [L [I 3; I 4; I 7]; L [I 6; I 0]; L [I 1; I 5]; L [I 2]]; I 1; ex_obs_shuffle] in
  exact_ok ex_in_shuffle out = false /\
  replay false true 6 2 Padded 10 0 (v_items ex_in_shuffle) [] (v_batches (v_nth 0 out)) = false.
Proof. vm_compute. split; reflexivity. Qed.

Definition ex_in_sortshuffle : val := L [I 1; I 1; I 3; I 4; I 1; I 9; L [I 1; I 2; I 3; I 1; I 2; I 0; I 1; I 2; I 1]].
Definition ex_out_sortshuffle : val :=
  L [L [L [I 1; I 4]; L [I 5; I 0; I 3; I 6]; L [I 2]; L [I 8; I 7]]; I 1;
     L [L [L [I 4; L [I 2]]; L [I 2; L [I 0]]; L [I 2; L [I 1]]; L [I 1; L [I 0]]]]].
Example agree_sort_shuffled_run : agree_C06 ex_in_sortshuffle (run_C06 ex_in_sortshuffle) ex_out_sortshuffle = true.
Proof. vm_compute. reflexivity. Qed.

(** ** the generator inside the model ("seed in, behaviour out"; C06_Seeded.v, RNG_Model.v)

    [batches_seeded size sort shuffle prefetch limit ty seed input]: [Batched::new(.., Some(seed))]
    drained — the generator is [ChaCha8Rng::seed_from_u64 seed], threaded through the calls of
    [build_batch]; a shuffle is [SliceRandom::shuffle] on the buffer, an index is
    [random_range(0..number of sub-sequences)], drawn where and when the code draws them.
    [fits n]: n is a length a [Vec] can have (below isize::MAX). *)
From TU Require Import RNG_Model RNG_Proofs.
From TU Require Import C06_Seeded C06_Seeded_Proofs.
Local Open Scope nat_scope.

(** seeded run = oracle run under ONE oracle that satisfies [oracle_guard]: the premise of
    [batches_total] is discharged by the facts proved about the modelled generator
    ([rng_shuffle_perm], [rng_random_range_lt] below), not assumed *)
Theorem seeded_oracle : forall (A : Type) (size : A -> nat) sort shuffle prefetch lim ty seed (input : list A),
  fits (length input) ->
  exists o, oracle_guard o /\
    batches size sort shuffle prefetch lim ty o input = batches_seeded size sort shuffle prefetch lim ty seed input.
Proof. exact @seeded_oracle_l. Qed.
Print Assumptions seeded_oracle.

(** hence, for every seed: the iteration ends, without assertion / splice / index / empty-range panic ... *)
Theorem batches_total_seeded : forall (A : Type) (size : A -> nat) sort shuffle prefetch lim ty seed (input : list A),
  fits (length input) -> exists bs, batches_seeded size sort shuffle prefetch lim ty seed input = Ok bs.
Proof. exact @seeded_total_l. Qed.
Print Assumptions batches_total_seeded.

(** ... the batches partition the input, none is empty, the limit holds ... *)
Theorem batches_partition_seeded : forall (A : Type) (size : A -> nat) sort shuffle prefetch lim ty seed (input : list A) bs,
  fits (length input) -> batches_seeded size sort shuffle prefetch lim ty seed input = Ok bs ->
  Permutation (concat bs) input.
Proof. exact (fun A size sort shuffle prefetch lim ty seed input bs Hf H =>
               proj1 (seeded_props_l size sort shuffle prefetch lim ty seed input bs Hf H)). Qed.
Print Assumptions batches_partition_seeded.

Theorem batches_nonempty_seeded : forall (A : Type) (size : A -> nat) sort shuffle prefetch lim ty seed (input : list A) bs,
  fits (length input) -> batches_seeded size sort shuffle prefetch lim ty seed input = Ok bs ->
  Forall (fun b => b <> []) bs.
Proof. exact (fun A size sort shuffle prefetch lim ty seed input bs Hf H =>
               proj1 (proj2 (seeded_props_l size sort shuffle prefetch lim ty seed input bs Hf H))). Qed.
Print Assumptions batches_nonempty_seeded.

Theorem batches_limit_seeded : forall (A : Type) (size : A -> nat) sort shuffle prefetch lim ty seed (input : list A) bs,
  fits (length input) -> batches_seeded size sort shuffle prefetch lim ty seed input = Ok bs ->
  Forall (fun b => 1 < length b -> limit size ty b <= Nat.max lim 1) bs.
Proof. exact (fun A size sort shuffle prefetch lim ty seed input bs Hf H =>
               proj2 (proj2 (seeded_props_l size sort shuffle prefetch lim ty seed input bs Hf H))). Qed.
Print Assumptions batches_limit_seeded.

(** ... and without sort and shuffle: input order, greedy-maximal batches *)
Theorem plain_seeded : forall (A : Type) (size : A -> nat) prefetch lim ty seed (input : list A) bs,
  fits (length input) -> batches_seeded size false false prefetch lim ty seed input = Ok bs ->
  concat bs = input /\
  forall i b b' x, nth_error bs i = Some b -> nth_error bs (S i) = Some (x :: b') ->
    Nat.max lim 1 < limit size ty (b ++ [x]).
Proof. exact @seeded_plain_l. Qed.
Print Assumptions plain_seeded.

(** determinism: [batches_seeded] is a function of (configuration, seed, input) with the generator
    inside; without shuffle the seed does not matter at all — the run is the oracle model's for
    every oracle *)
Theorem seeded_noshuffle : forall (A : Type) (size : A -> nat) sort prefetch lim ty seed o (input : list A),
  fits (length input) ->
  batches_seeded size sort false prefetch lim ty seed input = batches size sort false prefetch lim ty o input.
Proof. exact @seeded_noshuffle_l. Qed.
Print Assumptions seeded_noshuffle.

Theorem run_seeded_noshuffle : forall v, fits (length (v_items v)) -> v_bool (v_nth 1 v) = false ->
  run_C06s v = run_C06 v.
Proof. exact run_seeded_noshuffle_l. Qed.
Print Assumptions run_seeded_noshuffle.

(** the executable statement holds of the seeded model's own output *)
Theorem check_run_seeded : forall v, fits (length (v_items v)) -> check_C06 v (run_C06s v) = true.
Proof. exact check_run_seeded_l. Qed.
Print Assumptions check_run_seeded.

(** What acceptance by the FIRST line of the correspondence ([seeded_ok]: the implementation's batch
    sequence equals the seeded run's) means: that sequence, resolved to items, is [batches_seeded]
    of (items, configuration, seed), and it is a run of the oracle model under an oracle in range *)
Theorem seeded_sound : forall v i, fits (length (v_items v)) -> seeded_ok (run_C06s v) i = true ->
  run_seeded v = Ok (map (map (lookup (v_items v))) (v_batches (v_nth 0 i))) /\
  exists o, oracle_guard o /\
    run_with o v = Ok (map (map (lookup (v_items v))) (v_batches (v_nth 0 i))).
Proof. exact seeded_sound_l. Qed.
Print Assumptions seeded_sound.

Theorem seeded_transfers : forall v i, fits (length (v_items v)) -> seeded_ok (run_C06s v) i = true ->
  let items := v_items v in
  let ty := v_ty (v_nth 4 v) in
  let lm := v_nat (v_nth 3 v) in
  let bs := map (map (lookup items)) (v_batches (v_nth 0 i)) in
  Permutation (concat bs) items /\
  Forall (fun b => b <> []) bs /\
  Forall (fun b => 1 < length b -> limit isize ty b <= Nat.max lm 1) bs /\
  (v_bool (v_nth 0 v) = false -> v_bool (v_nth 1 v) = false ->
   concat bs = items /\
   forall k b b' x, nth_error bs k = Some b -> nth_error bs (S k) = Some (x :: b') ->
     Nat.max lm 1 < limit isize ty (b ++ [x])).
Proof. exact seeded_transfers_l. Qed.
Print Assumptions seeded_transfers.

(** the facts about the modelled generator this rests on (RNG_Props.v), re-pinned so that every run
    of this check audits them *)
Theorem rng_seed_wf : forall seed, RNG_Proofs.wf (seed_from_u64 seed).
Proof. exact RNG_Proofs.wf_seed. Qed.
Print Assumptions rng_seed_wf.

Theorem rng_shuffle_perm : forall (A : Type) (l : list A) st, Permutation (fst (RNG_Model.shuffle l st)) l.
Proof. exact @RNG_Proofs.shuffle_perm_l. Qed.
Print Assumptions rng_shuffle_perm.

Theorem rng_shuffle_keeps_wf : forall (A : Type) (l : list A) st, RNG_Proofs.wf st ->
  (N.of_nat (length l) < 2 ^ 64)%N -> RNG_Proofs.wf (snd (RNG_Model.shuffle l st)).
Proof. exact RNG_Proofs.shuffle_wf. Qed.
Print Assumptions rng_shuffle_keeps_wf.

Theorem rng_random_range_lt : forall n st i st', RNG_Proofs.wf st ->
  random_range n st = Some (i, st') -> (i < n)%N /\ RNG_Proofs.wf st'.
Proof. exact RNG_Proofs.random_range_spec. Qed.
Print Assumptions rng_random_range_lt.

Theorem rng_random_range_defined : forall n st, random_range n st <> None <-> (0 < n < 2 ^ 64)%N.
Proof. exact RNG_Proofs.random_range_some. Qed.
Print Assumptions rng_random_range_defined.

(** known answers: the two runs of the REAL crate above (seed 3, shuffle; seed 9, sort + shuffle) are
    reproduced by the seeded model from (items, configuration, seed) alone, and accepted on all lines *)
Local Open Scope Z_scope.
Example fits_witness : fits 8%nat /\ fits 1025%nat.
Proof. unfold fits. repeat split; reflexivity. Qed.
Example seeded_shuffled_run : run_C06s ex_in_shuffle = L [v_nth 0 ex_out_shuffle; I 1; L []]
  /\ agree_C06s ex_in_shuffle (run_C06s ex_in_shuffle) ex_out_shuffle = true.
Proof. vm_compute. split; reflexivity. Qed.
Example seeded_sort_shuffled_run : run_C06s ex_in_sortshuffle = L [v_nth 0 ex_out_sortshuffle; I 1; L []]
  /\ agree_C06s ex_in_sortshuffle (run_C06s ex_in_sortshuffle) ex_out_sortshuffle = true.
Proof. vm_compute. split; reflexivity. Qed.
(** another seed gives another sequence; another valid order of the same batches is rejected *)
Example seeded_other_seed :
  run_C06s (L [I 0; I 1; I 2; I 6; I 1; I 4; L [I 1; I 2; I 3; I 1; I 2; I 0; I 1; I 2]]) <> run_C06s ex_in_shuffle.
Proof. vm_compute. discriminate. Qed.
Example seeded_rejects_other_valid_run :
  seeded_ok (run_C06s ex_in_shuffle) (L [L [L [I 4; I 3; I 0]; L [I 6; I 7]; L [I 1; I 5]; L [I 2]]; I 1; ex_obs_shuffle]) = false.
Proof. vm_compute. reflexivity. Qed.

(** ** machine integers inside the model (third session, topic K; C06_Machine.v)

    [mbatches_o sizeN p fixed sort shuffle prefetch limit ty o input] /
    [mbatches_seeded sizeN p fixed .. seed input]: the machine-integer model of
    [Batched::new(..)] drained, at the oracle level and with the generator inside.  [usize] is a
    64-bit integer; every [+], [-], [*] of src/data/loading.rs ([BatchLimit], [build_batch],
    [batch_from]) and of src/utils.rs [find_subsequences_of_max_size_k] is a numbered operation
    that panics ([MFault site]) in profile [Checked] (overflow checks on: debug builds) and wraps
    modulo 2^64 in profile [Wrapping] (release builds) when its result is no [usize];
    [fixed = true] is the repaired code ([saturating_mul] in [BatchLimit::limit] and for the
    buffer bound [batch_limit * prefetch_factor]), [fixed = false] the pinned code.  Sizes are
    [sizeN : A -> N]; the unbounded model is taken at the size function
    [fun a => N.to_nat (sizeN a)].  [W] = 2^64, [UMAX] = 2^64 - 1. *)
From TU Require Import C06_Machine C06_MachineProofs C06_MachineTop.
Local Open Scope nat_scope.

(** the three operations on [usize] operands, in both profiles *)
Theorem machine_ops_spec : forall s a b, (a < W)%N -> (b < W)%N ->
  madd Checked s a b = (if (a + b <? W)%N then MOk (a + b)%N else MFault s) /\
  madd Wrapping s a b = MOk ((a + b) mod W)%N /\
  msub Checked s a b = (if (b <=? a)%N then MOk (a - b)%N else MFault s) /\
  msub Wrapping s a b = MOk ((a + W - b) mod W)%N /\
  mmul Checked s a b = (if (a * b <? W)%N then MOk (a * b)%N else MFault s) /\
  mmul Wrapping s a b = MOk ((a * b) mod W)%N.
Proof. exact machine_ops_spec_l. Qed.
Print Assumptions machine_ops_spec.

(** THE simulation: for every item type, size function (no bound on the sizes), input of a length
    a [Vec] can have, every limit below 2^64, every prefetch factor, both profiles: the repaired
    machine-level function IS the unbounded model under the effective limit / prefetch factor
    ([eff_lim], [eff_pre]: the given ones unless saturation reaches a threshold; then a threshold
    no value of [limit()] on the input exceeds) — for every oracle, errors included *)
Theorem machine_eff : forall (A : Type) (sizeN : A -> N) p sort shuffle prefetch lim ty o (input : list A),
  (lim < W)%N -> fits (length input) ->
  mbatches_o sizeN p true sort shuffle prefetch lim ty o input
  = lift (batches (fun a => N.to_nat (sizeN a)) sort shuffle (N.to_nat (eff_pre sizeN ty prefetch lim input))
                  (N.to_nat (eff_lim sizeN ty lim input)) ty o input).
Proof. exact @machine_eff_o_l. Qed.
Print Assumptions machine_eff.

Theorem machine_eff_seeded : forall (A : Type) (sizeN : A -> N) p sort shuffle prefetch lim ty seed (input : list A),
  (lim < W)%N -> fits (length input) ->
  mbatches_seeded sizeN p true sort shuffle prefetch lim ty seed input
  = lift (batches_seeded (fun a => N.to_nat (sizeN a)) sort shuffle (N.to_nat (eff_pre sizeN ty prefetch lim input))
                         (N.to_nat (eff_lim sizeN ty lim input)) ty seed input).
Proof. exact @machine_eff_s_l. Qed.
Print Assumptions machine_eff_seeded.

(** hence, for ALL configuration values and item sizes: no arithmetic fault, no slice / splice /
    index / pop / assertion panic, fuel never exhausted — in either profile; a bad result only
    for an oracle out of range; with the generator inside: always a batch sequence *)
Theorem machine_never_faults : forall (A : Type) (sizeN : A -> N) p sort shuffle prefetch lim ty o (input : list A),
  (lim < W)%N -> fits (length input) ->
  (exists bs, mbatches_o sizeN p true sort shuffle prefetch lim ty o input = MOk bs) \/
  (mbatches_o sizeN p true sort shuffle prefetch lim ty o input = MErr BadOracle /\ ~ oracle_guard o).
Proof. exact @machine_safe_o_l. Qed.
Print Assumptions machine_never_faults.

Theorem machine_total : forall (A : Type) (sizeN : A -> N) p sort shuffle prefetch lim ty o (input : list A),
  (lim < W)%N -> fits (length input) -> oracle_guard o ->
  exists bs, mbatches_o sizeN p true sort shuffle prefetch lim ty o input = MOk bs.
Proof. exact @machine_total_o_l. Qed.
Print Assumptions machine_total.

Theorem machine_total_seeded : forall (A : Type) (sizeN : A -> N) p sort shuffle prefetch lim ty seed (input : list A),
  (lim < W)%N -> fits (length input) ->
  exists bs, mbatches_seeded sizeN p true sort shuffle prefetch lim ty seed input = MOk bs.
Proof. exact @machine_total_s_l. Qed.
Print Assumptions machine_total_seeded.

(** the clauses of the property, of the machine-level function: partition and no empty batch for
    every input; the limit clause with the product computed exactly ([limitN]: item count, or
    count x largest size, in N) whenever the limit is exact ([lim_exact]: lim < usize::MAX, or no
    value of [limit()] on the input exceeds usize::MAX) *)
Theorem machine_props : forall (A : Type) (sizeN : A -> N) p sort shuffle prefetch lim ty o (input : list A) bs,
  (lim < W)%N -> fits (length input) ->
  mbatches_o sizeN p true sort shuffle prefetch lim ty o input = MOk bs ->
  Permutation (concat bs) input /\ Forall (fun b => b <> []) bs /\
  (lim_exact sizeN ty lim input -> Forall (fun b => 1 < length b -> (limitN sizeN ty b <= N.max lim 1)%N) bs).
Proof. exact @machine_props_o_l. Qed.
Print Assumptions machine_props.

Theorem machine_props_seeded : forall (A : Type) (sizeN : A -> N) p sort shuffle prefetch lim ty seed (input : list A) bs,
  (lim < W)%N -> fits (length input) ->
  mbatches_seeded sizeN p true sort shuffle prefetch lim ty seed input = MOk bs ->
  Permutation (concat bs) input /\ Forall (fun b => b <> []) bs /\
  (lim_exact sizeN ty lim input -> Forall (fun b => 1 < length b -> (limitN sizeN ty b <= N.max lim 1)%N) bs).
Proof. exact @machine_props_s_l. Qed.
Print Assumptions machine_props_seeded.

(** without sort and shuffle: input order, and greedy-maximal batches when the limit is exact *)
Theorem machine_plain : forall (A : Type) (sizeN : A -> N) p prefetch lim ty o (input : list A) bs,
  (lim < W)%N -> fits (length input) ->
  mbatches_o sizeN p true false false prefetch lim ty o input = MOk bs ->
  concat bs = input /\
  (lim_exact sizeN ty lim input -> forall i b b' x, nth_error bs i = Some b -> nth_error bs (S i) = Some (x :: b') ->
     (N.max lim 1 < limitN sizeN ty (b ++ [x]))%N).
Proof. exact @machine_plain_o_l. Qed.
Print Assumptions machine_plain.

Theorem machine_plain_seeded : forall (A : Type) (sizeN : A -> N) p prefetch lim ty seed (input : list A) bs,
  (lim < W)%N -> fits (length input) ->
  mbatches_seeded sizeN p true false false prefetch lim ty seed input = MOk bs ->
  concat bs = input /\
  (lim_exact sizeN ty lim input -> forall i b b' x, nth_error bs i = Some b -> nth_error bs (S i) = Some (x :: b') ->
     (N.max lim 1 < limitN sizeN ty (b ++ [x]))%N).
Proof. exact @machine_plain_s_l. Qed.
Print Assumptions machine_plain_seeded.

(** equality with the unbounded model under the GIVEN configuration — so that every pinned
    statement about [batches] / [batches_seeded] above is a statement about the machine-level
    function — whenever no threshold is reached by saturation ([no_sat]: the clamped product
    limit x prefetch is below usize::MAX, or no value of [limit()] on the input exceeds usize::MAX;
    no other premise on the item sizes); for BatchSize that always holds *)
Theorem machine_eq_model : forall (A : Type) (sizeN : A -> N) p sort shuffle prefetch lim ty o (input : list A),
  (lim < W)%N -> fits (length input) -> no_sat sizeN ty prefetch lim input ->
  mbatches_o sizeN p true sort shuffle prefetch lim ty o input
  = lift (batches (fun a => N.to_nat (sizeN a)) sort shuffle (N.to_nat prefetch) (N.to_nat lim) ty o input).
Proof. exact @machine_eq_model_o_l. Qed.
Print Assumptions machine_eq_model.

Theorem machine_eq_model_seeded : forall (A : Type) (sizeN : A -> N) p sort shuffle prefetch lim ty seed (input : list A),
  (lim < W)%N -> fits (length input) -> no_sat sizeN ty prefetch lim input ->
  mbatches_seeded sizeN p true sort shuffle prefetch lim ty seed input
  = lift (batches_seeded (fun a => N.to_nat (sizeN a)) sort shuffle (N.to_nat prefetch) (N.to_nat lim) ty seed input).
Proof. exact @machine_eq_model_s_l. Qed.
Print Assumptions machine_eq_model_seeded.

Theorem batch_size_never_saturates : forall (A : Type) (sizeN : A -> N) prefetch lim (input : list A),
  fits (length input) -> no_sat sizeN BatchSize prefetch lim input.
Proof. exact @no_sat_batch_size. Qed.
Print Assumptions batch_size_never_saturates.

(** the premise is needed, and what fails without it is the limit clause (known finding
    LIMIT-MAX): padded limit usize::MAX, two items of 2^63 — one batch, 2 * 2^63 > usize::MAX *)
Theorem machine_limit_max_refuted : forall p,
  mbatches_o misize p true false false 1 UMAX Padded o_default (mk_mitems [p63; p63])
  = MOk [[(0, p63); (1, p63)]] /\
  (UMAX < limitN misize Padded [(0%nat, p63); (1%nat, p63)])%N /\
  ~ no_sat misize Padded 1 UMAX (mk_mitems [p63; p63]).
Proof. exact machine_limit_max_refuted_l. Qed.
Print Assumptions machine_limit_max_refuted.

Theorem machine_eq_model_refuted : forall p,
  mbatches_o misize p true false false 1 UMAX Padded o_default (mk_mitems [p63; p63])
  <> lift (batches (fun a => N.to_nat (misize a)) false false (N.to_nat 1) (N.to_nat UMAX) Padded o_default (mk_mitems [p63; p63])).
Proof. exact machine_eq_model_refuted_l. Qed.
Print Assumptions machine_eq_model_refuted.

(** debug and release builds of the repaired code compute the same *)
Theorem machine_profiles_agree : forall (A : Type) (sizeN : A -> N) sort shuffle prefetch lim ty (input : list A),
  (lim < W)%N -> fits (length input) ->
  (forall o, mbatches_o sizeN Checked true sort shuffle prefetch lim ty o input
             = mbatches_o sizeN Wrapping true sort shuffle prefetch lim ty o input) /\
  (forall seed, mbatches_seeded sizeN Checked true sort shuffle prefetch lim ty seed input
                = mbatches_seeded sizeN Wrapping true sort shuffle prefetch lim ty seed input).
Proof. exact @machine_profiles_agree_l. Qed.
Print Assumptions machine_profiles_agree.

(** the PINNED arithmetic (D15).  With overflow checks: every sorting or shuffling configuration
    whose buffer bound limit x prefetch is no usize faults at site 4 in the first call of next(),
    whatever the input — an empty one included *)
Theorem pinned_bound_faults : forall (A : Type) (sizeN : A -> N) (St : Type) (D : draws A St) sort shuffle prefetch lim ty st0 (input : list A),
  sort || shuffle = true -> (W <= N.max lim 1 * N.max prefetch 1)%N ->
  mbatches sizeN Checked false D sort shuffle prefetch lim ty st0 input = MFault 4.
Proof. exact @pinned_bound_faults_l. Qed.
Print Assumptions pinned_bound_faults.

(** padded limit 5, sizes 2^63, 1, 1, plain mode: [2 * 2^63] in [limit()] faults (site 3) where
    the repaired code answers ... *)
Theorem pinned_no_fault_refuted :
  mbatches_o misize Checked false false false 1 5 Padded o_default (mk_mitems [p63; 1; 1]%N) = MFault 3 /\
  mbatches_o misize Checked true false false 1 5 Padded o_default (mk_mitems [p63; 1; 1]%N)
  = MOk [[(0, p63)]; [(1, 1%N); (2, 1%N)]].
Proof. exact pinned_no_fault_refuted_l. Qed.
Print Assumptions pinned_no_fault_refuted.

(** ... and without overflow checks the product wraps to 0 <= 5: a batch of two items of padded
    size 2^64 > 5 (what the release build of the pinned code returned) *)
Theorem pinned_wrapping_limit_refuted :
  mbatches_o misize Wrapping false false false 1 5 Padded o_default (mk_mitems [p63; 1; 1]%N)
  = MOk [[(0, p63); (1, 1%N)]; [(2, 1%N)]] /\
  (5 < limitN misize Padded [(0%nat, p63); (1%nat, 1)])%N.
Proof. exact pinned_wrapping_limit_refuted_l. Qed.
Print Assumptions pinned_wrapping_limit_refuted.

(** limit 2^63, prefetch factor 2, sort: the wrapped bound 0 lets one item into the buffer per call *)
Theorem pinned_wrapping_bound_refuted :
  mbatches_o misize Wrapping false true false 2 p63 BatchSize o_default (mk_mitems [1; 2; 3]%N)
  = MOk [[(0, 1%N)]; [(1, 2%N)]; [(2, 3%N)]] /\
  mbatches_o misize Wrapping true true false 2 p63 BatchSize o_default (mk_mitems [1; 2; 3]%N)
  = MOk [[(2, 3%N); (1, 2%N); (0, 1%N)]].
Proof. exact pinned_wrapping_bound_refuted_l. Qed.
Print Assumptions pinned_wrapping_bound_refuted.

(** where neither product overflows ([no_ovf]: limit x prefetch and every value of [limit()] on the
    input are usize) the pinned code is the repaired code: the repair changes nothing else *)
Theorem pinned_agrees_elsewhere : forall (A : Type) (sizeN : A -> N) p sort shuffle prefetch lim ty (input : list A),
  (lim < W)%N -> fits (length input) -> no_ovf sizeN ty prefetch lim input ->
  (forall o, mbatches_o sizeN p false sort shuffle prefetch lim ty o input
             = mbatches_o sizeN p true sort shuffle prefetch lim ty o input) /\
  (forall seed, mbatches_seeded sizeN p false sort shuffle prefetch lim ty seed input
                = mbatches_seeded sizeN p true sort shuffle prefetch lim ty seed input).
Proof. exact @pinned_agrees_elsewhere_l. Qed.
Print Assumptions pinned_agrees_elsewhere.

(** val level: the run the correspondence compares with the implementation in both cargo profiles
    is the unbounded seeded model under the effective parameters, the same in both profiles, and
    always a batch sequence *)
Theorem machine_run : forall p v, (v_big (v_nth 3 v) < W)%N -> fits (length (v_mitems v)) ->
  run_machine p true v
  = lift (batches_seeded (fun a => N.to_nat (misize a)) (v_bool (v_nth 0 v)) (v_bool (v_nth 1 v))
            (N.to_nat (eff_pre misize (v_ty (v_nth 4 v)) (v_big (v_nth 2 v)) (v_big (v_nth 3 v)) (v_mitems v)))
            (N.to_nat (eff_lim misize (v_ty (v_nth 4 v)) (v_big (v_nth 3 v)) (v_mitems v)))
            (v_ty (v_nth 4 v)) (in_seed v) (v_mitems v)) /\
  run_M06s Checked true v = run_M06s Wrapping true v /\
  exists bs, run_machine p true v = MOk bs.
Proof. exact machine_run_eq_l. Qed.
Print Assumptions machine_run.

(** the clause [machine_agree] of the correspondence holds of the machine model's own output *)
Theorem machine_agree_run : forall p v, (v_big (v_nth 3 v) < W)%N -> fits (length (v_mitems v)) ->
  machine_agree v (run_M06s p true v) = true.
Proof. exact machine_agree_run_l. Qed.
Print Assumptions machine_agree_run.

(** the executable statement with all products in N: it holds of the machine model's own output
    whenever the limit is exact, and a passing check means the clauses over machine integers *)
Theorem check_machine_run : forall p v, (v_big (v_nth 3 v) < W)%N -> fits (length (v_mitems v)) ->
  lim_exact misize (v_ty (v_nth 4 v)) (v_big (v_nth 3 v)) (v_mitems v) ->
  check_M06 v (run_M06s p true v) = true.
Proof. exact check_M06_run_l. Qed.
Print Assumptions check_machine_run.

Theorem check_machine_sound : forall v out, check_M06 v out = true ->
  let items := v_mitems v in
  let ty := v_ty (v_nth 4 v) in
  let L := N.max (v_big (v_nth 3 v)) 1 in
  let bs := map (map (mlookup items)) (v_batches (v_nth 0 out)) in
  Permutation (concat bs) items /\
  Forall (fun b => b <> []) bs /\
  Forall (fun b => 1 < length b -> (limitN misize ty b <= L)%N) bs /\
  (v_bool (v_nth 0 v) = false -> v_bool (v_nth 1 v) = false ->
   concat bs = items /\
   forall i b b' x, nth_error bs i = Some b -> nth_error bs (S i) = Some (x :: b') ->
     (L < limitN misize ty (b ++ [x]))%N).
Proof. exact check_M06_sound_l. Qed.
Print Assumptions check_machine_sound.

(** non-vacuity of the premises: the input of [pinned_no_fault_refuted] (an item of 2^63) with limit 5
    and prefetch 1 satisfies [fits], [lim_exact] and [no_sat] but not [no_ovf]; a small input
    satisfies [no_ovf]; a limit of 2^63 with prefetch factor 2 is a configuration of
    [pinned_bound_faults]; [eff_lim] / [eff_pre] move only in the saturated corner *)
Example machine_premises_example :
  (5 < W)%N /\ fits (length (mk_mitems [p63; 1; 1]%N)) /\
  lim_exact misize Padded 5 (mk_mitems [p63; 1; 1]%N) /\ no_sat misize Padded 1 5 (mk_mitems [p63; 1; 1]%N) /\
  ~ no_ovf misize Padded 1 5 (mk_mitems [p63; 1; 1]%N) /\
  no_ovf misize Padded 2 4 (mk_mitems [3; 1; 2]%N) /\
  (true || false = true /\ (W <= N.max p63 1 * N.max 2 1)%N).
Proof.
  unfold fits, lim_exact, no_sat, no_ovf. vm_compute.
  repeat split; try reflexivity; try (left; reflexivity); try discriminate.
  intros [H _]. apply H. reflexivity.
Qed.
Example eff_parameters_example :
  eff_lim misize Padded 5 (mk_mitems [p63; 1; 1]%N) = 5%N /\
  eff_pre misize Padded 1 5 (mk_mitems [p63; 1; 1]%N) = 1%N /\
  eff_lim misize Padded UMAX (mk_mitems [p63; p63]) = W /\
  eff_pre misize BatchSize 2 p63 (mk_mitems [1; 2; 3]%N) = 2%N.
Proof. vm_compute. repeat split; reflexivity. Qed.
(** the shrunk replay of the check on the pinned tree (sort + shuffle, prefetch 2, padded limit 1, sizes
    2 and 2^63 + 1, seed 0): fault at site 3 with overflow checks; the repaired code, from the seed *)
Example replay_d15 :
  mbatches_seeded misize Checked false true true 2 1 Padded 0 (mk_mitems [2; 9223372036854775809]%N) = MFault 3 /\
  mbatches_seeded misize Checked true true true 2 1 Padded 0 (mk_mitems [2; 9223372036854775809]%N)
  = MOk [[(1, 9223372036854775809%N)]; [(0, 2%N)]].
Proof. split; vm_compute; reflexivity. Qed.

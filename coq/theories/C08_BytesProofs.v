(** C08 from the raw bytes, every task: proofs.
    1. [loader_run] is an instance of the generic loader [loader_g]; the theorems of C08_PipelineProofs.v (spec of a
       run, the world theorems, totality) for every pipeline function.
    2. files as bytes: what [lines_of_file] is, [len()] = [count_lines], written jsonl files are read back, so
       [loader_run_bytes] on their bytes IS [loader_run] on their lines; min_items from [count_lines]; a broken line
       occupies a position (line number = position for a single file). *)
From Coq Require Import Sorting.Sorted Sorting.Permutation.
From TU Require Import RNG_Model RNG_Proofs.
From TU Require Import Base C01_Model C06_Model C06_Top C06_Seeded C06_Seeded_Proofs C07_Model C07_Top C07_Seeded.
From TU Require Import C08_Model C08_Proofs C08_EndToEnd C08_Sources Pipeline_Model C08_Pipeline C08_PipelineProofs.
From TU Require Import Lines_Model JSON_Model C07_Files C07_FilesProofs Pipeline_Tasks Pipeline_TasksProofs C08_Bytes.
Require Import Lia ZifyBool ZifyNat ZifyN.
Local Open Scope nat_scope.

(** * 1. the generic loader *)
Lemma loader_run_is_g : forall opq p g b seed epoch s files lim skip ff rank W sort shuffle prefetch blim ty,
  loader_run opq p g b seed epoch s files lim skip ff rank W sort shuffle prefetch blim ty =
  lres_of (loader_g (pipe_res opq p g b seed epoch) tsize (pcfg_ok p) s (seed + epoch)%N files
                    lim skip ff rank W sort shuffle prefetch blim ty).
Proof.
  intros. unfold loader_run, loader_g. destruct (negb (pcfg_ok p)); [reflexivity|].
  destruct (gen_lines s (seed + epoch)%N files) as [[out|e]|]; [|destruct e; reflexivity|reflexivity].
  change (g_panics (pipe_res opq p g b seed epoch) (data_of_out out) lim skip ff rank W)
    with (loader_panics opq p g b seed epoch (data_of_out out) lim skip ff rank W).
  destruct (loader_panics _ _ _ _ _ _ _ _ _ _ _ _); [reflexivity|].
  change (g_fn (pipe_res opq p g b seed epoch)) with (pipe_fn opq p g b seed epoch).
  destruct (batches_seeded _ _ _ _ _ _ _ _); reflexivity.
Qed.

Section G.
Context {B : Type}.
Variable pres : nat -> nat * item -> res B.
Variable size : nat * B -> nat.
Notation gf := (g_fn pres).

Lemma g_item_by_index : forall data lim skip ff rank W i t,
  In (i, t) (loader_items data gf lim skip ff rank W) ->
  exists d, nth i data None = Some d /\ pres i d = ROk t.
Proof.
  intros data lim skip ff rank W i t H. destruct (loader_item_value_l data gf lim skip ff rank W i t H) as (d & Hd & Hg).
  exists d. split; [exact Hd|]. unfold g_fn in Hg. destruct (pres i d) as [t'| |]; [|discriminate|discriminate].
  injection Hg as <-. reflexivity.
Qed.

Section Run.
Variables (ok : bool) (s : strategy) (seede : N) (files : list (list line)).
Variables (sort shuffle : bool) (prefetch blim : nat) (ty : limit_type).
Notation run := (loader_g pres size ok s seede files).

Lemma loader_g_ok : forall lim skip ff rank W m bs,
  run lim skip ff rank W sort shuffle prefetch blim ty = GOk m bs ->
  ok = true /\
  exists out, gen_lines s seede files = Some (C07_Model.Ok out) /\
    m = min_items lim skip (length out) /\
    g_panics pres (data_of_out out) lim skip ff rank W = false /\
    batches_seeded size sort shuffle prefetch blim ty seede
                   (loader_items (data_of_out out) gf lim skip ff rank W) = C06_Model.Ok bs.
Proof.
  intros lim skip ff rank W m bs H. unfold loader_g in H.
  destruct ok; [|discriminate]. split; [reflexivity|]. cbn [negb] in H.
  destruct (gen_lines s seede files) as [[out|e]|]; [|destruct e; discriminate|discriminate].
  destruct (g_panics _ _ _ _ _ _ _) eqn:Ep; [discriminate|].
  destruct (batches_seeded _ _ _ _ _ _ _ _) as [bs'|e] eqn:Eb; [|discriminate].
  injection H as <- <-. exists out. rewrite data_of_out_length. auto.
Qed.

Lemma g_fits : forall out lim skip ff rank W, files <> [] ->
  (N.of_nat (total_len files) < 9223372036854775807)%N ->
  gen_lines s seede files = Some (C07_Model.Ok out) ->
  fits (length (loader_items (data_of_out out) gf lim skip ff rank W)).
Proof.
  intros out lim skip ff rank W Hne Hfit Hgen. unfold fits.
  pose proof (loader_items_length (data_of_out out) gf lim skip ff rank W) as Hl.
  rewrite data_of_out_length in Hl.
  destruct (gen_lines_items s _ files out Hne ltac:(unfold RNG_Model.p64; lia) Hgen) as (_ & Ho & _).
  assert (Hl' : length (loader_items (data_of_out out) gf lim skip ff rank W) <= total_len files) by (rewrite <- Ho; exact Hl).
  lia.
Qed.

(** all batches of all ranks hold exactly the items of the single-process run, each once; no batch is empty *)
Lemma world_partition_g : forall lim skip ff W ms bss, 1 <= W -> files <> [] ->
  (N.of_nat (total_len files) < 9223372036854775807)%N ->
  length bss = W ->
  (forall r, r < W -> run lim skip ff r W sort shuffle prefetch blim ty = GOk (nth r ms 0) (nth r bss [])) ->
  exists out, gen_lines s seede files = Some (C07_Model.Ok out) /\
    Permutation (concat (concat bss)) (loader_items (data_of_out out) gf lim skip ff 0 1) /\
    Forall (fun bs => Forall (fun bt => bt <> []) bs) bss.
Proof.
  intros lim skip ff W ms bss HW Hne Hfit Hlen Hall.
  destruct (loader_g_ok _ _ _ _ _ _ _ (Hall 0 ltac:(lia))) as (_ & out & Hgen & _).
  exists out. split; [exact Hgen|].
  assert (Hr : forall r, r < W ->
            Permutation (concat (nth r bss [])) (loader_items (data_of_out out) gf lim skip ff r W) /\
            Forall (fun bt => bt <> []) (nth r bss [])).
  { intros r Hr. destruct (loader_g_ok _ _ _ _ _ _ _ (Hall r Hr)) as (_ & out' & Hgen' & _ & _ & Hb).
    rewrite Hgen in Hgen'. injection Hgen' as <-.
    pose proof (g_fits out lim skip ff r W Hne Hfit Hgen) as Hf.
    destruct (seeded_props_l size sort shuffle prefetch blim ty _ _ _ Hf Hb) as (Hp & Hn & _). auto. }
  split.
  - eapply Permutation_trans; [|apply world_items_perm_l; exact HW].
    assert (Hbss : bss = map (fun r => nth r bss []) (seq 0 W)).
    { rewrite <- Hlen. clear. induction bss as [|x l IH] using rev_ind; [reflexivity|].
      rewrite app_length. cbn [length]. rewrite Nat.add_1_r, seq_S, map_app. cbn [map plus].
      rewrite app_nth2 by lia. rewrite Nat.sub_diag. cbn [nth]. f_equal.
      rewrite IH at 1. apply map_ext_in. intros r Hr. apply in_seq in Hr.
      rewrite app_nth1 by lia. reflexivity. }
    rewrite Hbss at 1. rewrite concat_concat_map.
    apply concat_map_perm. intros r Hin. apply in_seq in Hin. apply (Hr r). lia.
  - apply Forall_forall. intros bs Hbs. apply In_nth with (d := []) in Hbs. destruct Hbs as (r & Hr' & <-).
    apply (Hr r). lia.
Qed.

Lemma world_covers_g : forall lim W ms bss, 1 <= W -> files <> [] ->
  (N.of_nat (total_len files) < 9223372036854775807)%N ->
  total_len files <= lim -> length bss = W ->
  (forall r, r < W -> run lim 0 0 r W sort shuffle prefetch blim ty = GOk (nth r ms 0) (nth r bss [])) ->
  exists out, gen_lines s seede files = Some (C07_Model.Ok out) /\
    Permutation (concat (concat bss))
                (keep_some (map (item_at (data_of_out out) gf) (seq 0 (length out)))) /\
    (forall j, proj j out = nth j files []) /\ length out = total_len files /\
    Forall (fun q => fst q < length files) out.
Proof.
  intros lim W ms bss HW Hne Hfit Hlim Hlen Hall.
  destruct (world_partition_g lim 0 0 W ms bss HW Hne Hfit Hlen Hall) as (out & Hgen & Hperm & _).
  exists out. split; [exact Hgen|].
  destruct (gen_lines_items s _ files out Hne ltac:(unfold RNG_Model.p64; lia) Hgen) as (H1 & H2 & H3).
  split; [|auto]. unfold loader_items in Hperm. rewrite data_of_out_length in Hperm.
  rewrite (sel_full lim (length out)) in Hperm by lia. exact Hperm.
Qed.

(** the run is defined (sequential / interleaved) *)
Lemma loader_g_total_nw : forall lim skip ff rank W, s <> Weighted -> ok = true -> files <> [] ->
  (N.of_nat (total_len files) < 9223372036854775807)%N ->
  exists out, gen_lines s seede files = Some (C07_Model.Ok out) /\
    (g_panics pres (data_of_out out) lim skip ff rank W = false ->
     exists bs, run lim skip ff rank W sort shuffle prefetch blim ty = GOk (min_items lim skip (length out)) bs).
Proof.
  intros lim skip ff rank W Hs Hok Hne Hfit.
  destruct (gen_total_nw_l s (fun _ _ => 0) files Hne Hs) as [out Hout].
  assert (Hgen : gen_lines s seede files = Some (C07_Model.Ok out)).
  { unfold gen_lines. destruct s; [rewrite Hout; reflexivity|rewrite Hout; reflexivity|congruence]. }
  exists out. split; [exact Hgen|]. intros Hp.
  pose proof (g_fits out lim skip ff rank W Hne Hfit Hgen) as Hf.
  destruct (seeded_total_l size sort shuffle prefetch blim ty seede _ Hf) as [bs Hbs].
  exists bs. unfold loader_g. rewrite Hok. cbn [negb]. rewrite Hgen, Hp, Hbs, data_of_out_length. reflexivity.
Qed.
End Run.
End G.

(** * 2. files as bytes *)
Lemma lines_of_file_length : forall b, length (lines_of_file b) = count_lines b.
Proof. intros b. unfold lines_of_file. rewrite map_length. apply file_items_len. Qed.

Lemma lines_total_len : forall fs, total_len (map lines_of_file fs) = sum_nat (map count_lines fs).
Proof.
  intros fs. unfold total_len. rewrite map_map. apply f_equal. apply map_ext. apply lines_of_file_length.
Qed.

Lemma map_lines_nonempty : forall fs : list (list byte), fs <> [] -> map lines_of_file fs <> [].
Proof. intros [|b fs] H; [congruence|discriminate]. Qed.

(** the line a written item becomes *)
Definition line_written (it : (str * option str) * bool) : line :=
  Some (mk_item (fst (fst it)) (match snd (fst it) with Some t => t | None => fst (fst it) end)).

Lemma lines_of_jsonl : forall items, Forall item_ok items ->
  lines_of_file (jsonl_file items) = map line_written items.
Proof.
  intros items H. unfold lines_of_file. destruct (jsonl_roundtrip_l items H) as [E _]. rewrite E, map_map.
  apply map_ext. intros [[i t] c]. unfold item_written, line_written, fitem_of, train_data. cbn [fst snd line_of_fitem].
  reflexivity.
Qed.

(** a file written line by line (serde_json writer, every line terminated by \n or \r\n), plus one further item
    without a terminator *)
Lemma lines_of_jsonl_open : forall items i t, Forall item_ok items -> item_ok ((i, t), false) ->
  lines_of_file (jsonl_file items ++ utf8s (line_of i t)) = map line_written items ++ [line_written ((i, t), false)].
Proof.
  intros items i t H Hi. unfold lines_of_file. rewrite (jsonl_roundtrip_open_l items i t H Hi), map_app, map_map.
  apply f_equal2; [|reflexivity]. apply map_ext. intros [[i' t'] c]. reflexivity.
Qed.

(** [loader_run_bytes] on the bytes of well-formed jsonl files = [loader_run] on the lines: every C08 theorem about
    [loader_run] speaks about the loader over such files *)
Lemma loader_run_bytes_wf : forall opq p g b seed epoch s fs lim skip ff rank W sort shuffle prefetch blim ty,
  Forall (Forall item_ok) fs ->
  loader_run_bytes opq p g b seed epoch s (map jsonl_file fs) lim skip ff rank W sort shuffle prefetch blim ty =
  loader_run opq p g b seed epoch s (map (map line_written) fs) lim skip ff rank W sort shuffle prefetch blim ty.
Proof.
  intros. unfold loader_run_bytes. f_equal. rewrite map_map. apply map_ext_in. intros its Hin.
  apply lines_of_jsonl. rewrite Forall_forall in H. exact (H its Hin).
Qed.

Lemma loader_run_tb_wf : forall opq qopq p t q maxlen seed epoch s fs lim skip ff rank W sort shuffle prefetch blim ty,
  Forall (Forall item_ok) fs ->
  loader_run_tb opq qopq p t q maxlen seed epoch s (map jsonl_file fs) lim skip ff rank W sort shuffle prefetch blim ty =
  loader_run_t opq qopq p t q maxlen seed epoch s (map (map line_written) fs) lim skip ff rank W sort shuffle prefetch blim ty.
Proof.
  intros. unfold loader_run_tb. f_equal. rewrite map_map. apply map_ext_in. intros its Hin.
  apply lines_of_jsonl. rewrite Forall_forall in H. exact (H its Hin).
Qed.

(** min_items is computed from [count_lines] (which counts broken lines) *)
Lemma loader_bytes_min_items : forall opq p g b seed epoch s files lim skip ff rank W sort shuffle prefetch blim ty m bs,
  files <> [] -> (N.of_nat (sum_nat (map count_lines files)) < 9223372036854775807)%N ->
  loader_run_bytes opq p g b seed epoch s files lim skip ff rank W sort shuffle prefetch blim ty = LOk m bs ->
  m = min_items lim skip (sum_nat (map count_lines files)).
Proof.
  intros opq p g b seed epoch s files lim skip ff rank W sort shuffle prefetch blim ty m bs Hne Hfit H.
  unfold loader_run_bytes in H. apply loader_run_ok in H. destruct H as (out & Hgen & -> & _).
  rewrite <- lines_total_len in Hfit |- *.
  destruct (gen_lines_items s _ _ out (map_lines_nonempty _ Hne) ltac:(unfold RNG_Model.p64; lia) Hgen) as (_ & -> & _).
  reflexivity.
Qed.

Lemma loader_tb_min_items : forall opq qopq p t q maxlen seed epoch s files lim skip ff rank W sort shuffle prefetch blim ty m bs,
  files <> [] -> (N.of_nat (sum_nat (map count_lines files)) < 9223372036854775807)%N ->
  loader_run_tb opq qopq p t q maxlen seed epoch s files lim skip ff rank W sort shuffle prefetch blim ty = GOk m bs ->
  m = min_items lim skip (sum_nat (map count_lines files)).
Proof.
  intros opq qopq p t q maxlen seed epoch s files lim skip ff rank W sort shuffle prefetch blim ty m bs Hne Hfit H.
  unfold loader_run_tb, loader_run_t in H. apply loader_g_ok in H. destruct H as (_ & out & Hgen & -> & _).
  rewrite <- lines_total_len in Hfit |- *.
  destruct (gen_lines_items s _ _ out (map_lines_nonempty _ Hne) ltac:(unfold RNG_Model.p64; lia) Hgen) as (_ & -> & _).
  reflexivity.
Qed.

(** ** a broken line occupies a position.  One file, sequential: the global position of an item IS its line number in
    the file (every line counted, whatever it holds), and that number is what enters the item's seed *)
Lemma nth_data_single : forall (ls : list line) i,
  nth i (data_of_out (map (pair 0) ls)) None = option_map (pair 0) (nth i ls None).
Proof.
  intros ls i. unfold data_of_out. rewrite map_map. cbn [fst snd].
  change (@None (nat * item)) with ((fun l : line => option_map (pair 0) l) None) at 1.
  apply map_nth.
Qed.

Lemma gen_lines_single : forall seed (ls : list line),
  gen_lines Sequential seed [ls] = Some (C07_Model.Ok (map (pair 0) ls)).
Proof.
  intros seed ls. unfold gen_lines. rewrite (sequential_spec_l _ [ls]) by discriminate.
  unfold seq_spec. cbn [tagged_from]. rewrite app_nil_r. reflexivity.
Qed.

Lemma nth_lines_of_file : forall b i inp tg, nth i (lines_of_file b) None = Some (mk_item inp tg) ->
  exists l t, nth_error (lossy_lines b) i = Some l /\ item_of_line l = IItem inp t /\
              tg = match t with Some x => x | None => inp end.
Proof.
  intros b i inp tg H. unfold lines_of_file, items_of_file in H. rewrite map_map in H.
  destruct (nth_error (lossy_lines b) i) as [l|] eqn:E.
  - rewrite (nth_indep _ None (line_of_fitem (fitem_of (item_of_line l)))) in H
      by (rewrite map_length; apply nth_error_Some; congruence).
    rewrite (map_nth (fun l => line_of_fitem (fitem_of (item_of_line l)))) in H.
    rewrite (nth_error_nth _ _ _ E) in H. exists l.
    destruct (item_of_line l) as [e|a t]; cbn [fitem_of line_of_fitem] in H; [discriminate|].
    unfold train_data in H. cbn [line_of_fitem] in H. injection H as <- <-. exists t. auto.
  - apply nth_error_None in E. rewrite nth_overflow in H by (rewrite map_length; exact E). discriminate.
Qed.

Lemma tb_single_file_line_number :
  forall opq qopq p t q maxlen seed epoch b lim skip ff rank W sort shuffle prefetch blim ty m bs i y,
  (N.of_nat (count_lines b) < 9223372036854775807)%N ->
  loader_run_tb opq qopq p t q maxlen seed epoch Sequential [b] lim skip ff rank W sort shuffle prefetch blim ty = GOk m bs ->
  In (i, y) (concat bs) ->
  exists l inp tg, nth_error (lossy_lines b) i = Some l /\ item_of_line l = IItem inp tg /\
    pipeline_t opq qopq p t q maxlen (mk_item inp (match tg with Some x => x | None => inp end))
               (item_info seed epoch i 0) = ROk y.
Proof.
  intros opq qopq p t q maxlen seed epoch b lim skip ff rank W sort shuffle prefetch blim ty m bs i y Hfit H Hin.
  unfold loader_run_tb, loader_run_t in H. cbn [map] in H.
  apply loader_g_ok in H. destruct H as (_ & out & Hgen & _ & _ & Hb).
  assert (Hfit' : (N.of_nat (total_len [lines_of_file b]) < 9223372036854775807)%N).
  { unfold total_len. cbn [map sum_nat fold_right]. rewrite lines_of_file_length. lia. }
  pose proof (g_fits (pipe_res_t opq qopq p t q maxlen seed epoch) Sequential (seed + epoch)%N [lines_of_file b]
                     out lim skip ff rank W ltac:(discriminate) Hfit' Hgen) as Hf.
  destruct (seeded_props_l _ sort shuffle prefetch blim ty _ _ _ Hf Hb) as (Hp & _).
  apply (Permutation_in _ Hp) in Hin.
  rewrite gen_lines_single in Hgen. injection Hgen as <-.
  destruct (g_item_by_index _ _ _ _ _ _ _ _ _ Hin) as (d & Hd & Hres).
  rewrite nth_data_single in Hd. destruct (nth i (lines_of_file b) None) as [[inp tg]|] eqn:El; [|discriminate].
  cbn [option_map] in Hd. injection Hd as <-.
  destruct (nth_lines_of_file b i inp tg El) as (l & t0 & Hl & Hitem & ->).
  exists l, inp, t0. split; [exact Hl|]. split; [exact Hitem|]. exact Hres.
Qed.

(** the world theorem over bytes: with a limit that does not cut, the batches of all ranks hold, each once, the
    processed item of every line of every file that IS an item (per [items_of_file]) and that the pipeline accepts;
    the generator's output is the files' lines — broken ones included, as positions — each once, in per-file order *)
Lemma world_covers_files_tb :
  forall opq qopq p t q maxlen seed epoch s files sort shuffle prefetch blim ty lim W ms bss,
  1 <= W -> files <> [] -> (N.of_nat (sum_nat (map count_lines files)) < 9223372036854775807)%N ->
  sum_nat (map count_lines files) <= lim -> length bss = W ->
  (forall r, r < W -> loader_run_tb opq qopq p t q maxlen seed epoch s files lim 0 0 r W sort shuffle prefetch blim ty
                      = GOk (nth r ms 0) (nth r bss [])) ->
  exists out, gen_lines s (seed + epoch)%N (map lines_of_file files) = Some (C07_Model.Ok out) /\
    Permutation (concat (concat bss))
                (keep_some (map (item_at (data_of_out out) (g_fn (pipe_res_t opq qopq p t q maxlen seed epoch)))
                                (seq 0 (length out)))) /\
    (forall j, proj j out = lines_of_file (nth j files [])) /\
    length out = sum_nat (map count_lines files) /\
    Forall (fun x => fst x < length files) out.
Proof.
  intros opq qopq p t q maxlen seed epoch s files sort shuffle prefetch blim ty lim W ms bss HW Hne Hfit Hlim Hlen Hall.
  rewrite <- lines_total_len in Hfit, Hlim.
  destruct (world_covers_g _ _ _ _ _ _ _ _ _ _ _ lim W ms bss HW (map_lines_nonempty _ Hne) Hfit Hlim Hlen Hall)
    as (out & Hgen & Hperm & Hproj & Hlen' & Hfst).
  exists out. split; [exact Hgen|]. split; [exact Hperm|]. split.
  - intros j. rewrite Hproj. change (@nil line) with (lines_of_file []). apply map_nth.
  - split; [rewrite Hlen'; apply lines_total_len|]. rewrite map_length in Hfst. exact Hfst.
Qed.

(** * 3. the executable statement of the byte loader line holds of the model's own output *)
Lemma check_bloader_run_with : forall opq unm v,
  check_loader v (run_bloader_with opq unm v) = true \/ run_bloader_with opq unm v = v_outside
  \/ run_bloader_with opq unm v = v_panic \/ run_bloader_with opq unm v = L [I (-4)%Z].
Proof.
  intros opq unm v. unfold run_bloader_with.
  destruct (negb (pcfg_dom _) || negb (qpcfg_dom _) || unm _ || qp_has_opaque _); [right; left; reflexivity|].
  destruct (v_task (v_nth 6 v)) as [t|]; [|left; reflexivity].
  destruct (loader_run_tb _ _ _ _ _ _ _ _ _ _ _ _ _ _ _ _ _ _ _ _) as [m bs| | |]; auto.
Qed.

Lemma check_bloader_run : forall v, check_loader v (run_bloader v) = true \/ run_bloader v = v_outside
  \/ run_bloader v = v_panic \/ run_bloader v = L [I (-4)%Z].
Proof. intros v. apply check_bloader_run_with. Qed.

(** C01 model: special-token vocabulary, special-token scanner ([split_input]),
    byte tokenizer and character tokenizer with their decoders
    (src/tokenization.rs: SpecialConfig, Vocab::build, BaseTokenizer::new_base_tokenizer,
    split_input, add_prefix_and_suffix, ByteTokenizer, CharTokenizer / VocabTokenizer).
    Strings are lists of code points; UTF-8 encoding is [Base.utf8]; [String::from_utf8]
    is modelled by [utf8_decode]. Definitions only. Shared with C04 and C17. *)
From TU Require Import Base.
Open Scope N_scope.

(** * small helpers *)
Definition str_eqb : str -> str -> bool := nlist_eqb.

Fixpoint mem_str (t : str) (l : list str) : bool :=
  match l with [] => false | x :: r => str_eqb t x || mem_str t r end.

(** [Itertools::unique]: keep first occurrences, in order. *)
Fixpoint uniq (l : list str) : list str :=
  match l with
  | [] => []
  | x :: r => x :: filter (fun y => negb (str_eqb x y)) (uniq r)
  end.

Fixpoint index_of (t : str) (l : list str) : option nat :=
  match l with
  | [] => None
  | x :: r => if str_eqb t x then Some O else option_map S (index_of t r)
  end.

Fixpoint index_ofN (c : N) (l : list N) : option nat :=
  match l with
  | [] => None
  | x :: r => if N.eqb c x then Some O else option_map S (index_ofN c r)
  end.

Fixpoint map_opt {A B} (f : A -> option B) (l : list A) : option (list B) :=
  match l with
  | [] => Some []
  | x :: r => match f x, map_opt f r with Some y, Some ys => Some (y :: ys) | _, _ => None end
  end.

Definition obind {A B} (o : option A) (f : A -> option B) : option B :=
  match o with Some x => f x | None => None end.

(** * [String::from_utf8]: strict UTF-8 decoding (Unicode table 3-7): no overlong
    forms, no surrogates, nothing above U+10FFFF; [None] is the error. *)
Definition cont (b : N) : bool := (128 <=? b) && (b <? 192).
Definition scalar (c : N) : bool := (c <? 55296) || ((57344 <=? c) && (c <? 1114112)).

Fixpoint utf8_decode (l : list byte) : option str :=
  match l with
  | [] => Some []
  | b0 :: r0 =>
    if b0 <? 128 then option_map (cons b0) (utf8_decode r0)
    else if b0 <? 194 then None
    else if b0 <? 224 then
      match r0 with
      | b1 :: r1 =>
        if cont b1 then option_map (cons ((b0 - 192) * 64 + (b1 - 128))) (utf8_decode r1) else None
      | _ => None
      end
    else if b0 <? 240 then
      match r0 with
      | b1 :: b2 :: r2 =>
        let c := (b0 - 224) * 4096 + (b1 - 128) * 64 + (b2 - 128) in
        if cont b1 && cont b2 && (2048 <=? c) && scalar c
        then option_map (cons c) (utf8_decode r2) else None
      | _ => None
      end
    else if b0 <? 245 then
      match r0 with
      | b1 :: b2 :: b3 :: r3 =>
        let c := (b0 - 240) * 262144 + (b1 - 128) * 4096 + (b2 - 128) * 64 + (b3 - 128) in
        if cont b1 && cont b2 && cont b3 && (65536 <=? c) && (c <? 1114112)
        then option_map (cons c) (utf8_decode r3) else None
      | _ => None
      end
    else None
  end.

(** * Special vocabulary ([Vocab::build] on the special tokens, ids from [off]) *)
Definition sp_id (off : N) (sv : list str) (t : str) : option N :=
  option_map (fun k => off + N.of_nat k) (index_of t sv).
Definition sp_tok (off : N) (sv : list str) (id : N) : option str :=
  if id <? off then None else nth_error sv (N.to_nat (id - off)).

(** a built [BaseTokenizer]: offset, special vocabulary in id order, prefix / suffix / pad ids *)
Record base := { b_off : N; b_sv : list str; b_pre : list N; b_suf : list N; b_pad : N }.

(** [new_base_tokenizer]; [None] = constructor error (prefix/suffix/pad not a special token). *)
Definition mk_base (off : N) (tokens : list str) (pad : str) (prefix suffix : list str) : option base :=
  let sv := uniq tokens in
  match map_opt (sp_id off sv) prefix, map_opt (sp_id off sv) suffix, sp_id off sv pad with
  | Some p, Some q, Some pd => Some {| b_off := off; b_sv := sv; b_pre := p; b_suf := q; b_pad := pd |}
  | _, _, _ => None
  end.

(** * The special-token scanner: regex leftmost-first over an alternation of literals.
    [toks] is the alternation order (hash order in the code: arbitrary). *)
Fixpoint is_prefix (t s : str) : bool :=
  match t, s with
  | [], _ => true
  | a :: t', b :: s' => N.eqb a b && is_prefix t' s'
  | _ :: _, [] => false
  end.

Fixpoint first_match (toks : list str) (s : str) : option str :=
  match toks with
  | [] => None
  | t :: r => if is_prefix t s then Some t else first_match r s
  end.

Inductive seg := Reg (r : str) | Spec (t : str).
Definition seg_str (g : seg) : str := match g with Reg r => r | Spec t => t end.

Definition cons_reg (c : cp) (segs : list seg) : list seg :=
  match segs with
  | Reg r :: rest => Reg (c :: r) :: rest
  | _ => Reg [c] :: segs
  end.

(** [skip] = code points of an already matched token still to be passed over. *)
Fixpoint scan (toks : list str) (s : str) (skip : nat) : list seg :=
  match s with
  | [] => []
  | c :: r =>
    match skip with
    | S k => scan toks r k
    | O =>
      match first_match toks s with
      | Some t => Spec t :: scan toks r (length t - 1)
      | None => cons_reg c (scan toks r 0)
      end
    end
  end.

(** [split_input] *)
Definition split_input (sv : list str) (s : str) (ign : bool) : list seg :=
  if ign then [Reg s] else scan sv s 0.

Definition add_pre_suf (b : base) (ids : list N) : list N := b_pre b ++ ids ++ b_suf b.

(** * Byte tokenizer *)
(** decimal digits of [n] (for ["<extra_token_{n}>"]) *)
Fixpoint dec_aux (fuel : nat) (n : N) (acc : list cp) : list cp :=
  match fuel with
  | O => acc
  | S f => let acc' := (48 + n mod 10) :: acc in
           if n <? 10 then acc' else dec_aux f (n / 10) acc'
  end.
Definition dec (n : N) : list cp := dec_aux (S (N.size_nat n)) n [].

(** "<extra_token_" ... ">" *)
Definition extra_token (i : nat) : str :=
  [60;101;120;116;114;97;95;116;111;107;101;110;95] ++ dec (N.of_nat i) ++ [62].

(** [ByteTokenizer::new_with]: pad the special tokens so that the vocabulary size becomes a
    multiple of [p] (count of distinct tokens, as the [HashSet] in the code). *)
Definition byte_tokens (tokens : list str) (padto : option N) : list str :=
  match padto with
  | None => tokens
  | Some p =>
    let n := 256 + N.of_nat (length (uniq tokens)) in
    let k := ((n + p - 1) / p) * p - n in
    tokens ++ map extra_token (seq 0 (N.to_nat k))
  end.

Definition byte_base (tokens : list str) (padto : option N) (pad : str) (prefix suffix : list str) : option base :=
  mk_base 256 (byte_tokens tokens padto) pad prefix suffix.

(** ids of one input segment; [None] = "unknown special token" error *)
Definition byte_seg_ids (b : base) (g : seg) : option (list N) :=
  match g with
  | Reg r => Some (utf8s r)
  | Spec t => option_map (fun i => [i]) (sp_id (b_off b) (b_sv b) t)
  end.

Definition byte_body (b : base) (s : str) (ign : bool) : option (list N) :=
  option_map (@concat N) (map_opt (byte_seg_ids b) (split_input (b_sv b) s ign)).

Definition byte_tokenize (b : base) (s : str) (ign : bool) : option (list N) :=
  option_map (add_pre_suf b) (byte_body b s ign).

(** the bytes [de_tokenize] collects before [String::from_utf8] *)
Fixpoint byte_decode_bytes (b : base) (ids : list N) (ign : bool) : option (list byte) :=
  match ids with
  | [] => Some []
  | i :: r =>
    if i <? 256 then option_map (cons i) (byte_decode_bytes b r ign)
    else if ign then byte_decode_bytes b r ign
    else match sp_tok (b_off b) (b_sv b) i with
         | Some t => option_map (app (utf8s t)) (byte_decode_bytes b r ign)
         | None => None
         end
  end.

Definition byte_decode (b : base) (ids : list N) (ign : bool) : option str :=
  obind (byte_decode_bytes b ids ign) utf8_decode.

(** * Character tokenizer (alphabet [A]: regular ids [0 .. |A|-1]) *)
Definition char_base (A : list cp) (tokens : list str) (unk pad : str) (prefix suffix : list str) : option base :=
  mk_base (N.of_nat (length A)) (tokens ++ [unk]) pad prefix suffix.

Definition char_id (A : list cp) (unk_id : N) (c : cluster) : N :=
  match c with
  | [x] => match index_ofN x A with Some i => N.of_nat i | None => unk_id end
  | _ => unk_id
  end.

(** clusters of a regular segment: singletons in code-point mode, the oracle's
    segmentation [o] in grapheme mode *)
Definition clusters_of (g : bool) (r : str) (o : list cluster) : list cluster :=
  if g then o else singletons r.

(** ids of the segments; the oracle supplies one cluster list per regular segment *)
Fixpoint char_segs_ids (b : base) (A : list cp) (unk_id : N) (g : bool)
         (segs : list seg) (os : list (list cluster)) : list N :=
  match segs with
  | [] => []
  | Reg r :: rest =>
    map (char_id A unk_id) (clusters_of g r (hd [] os)) ++ char_segs_ids b A unk_id g rest (tl os)
  | Spec t :: rest =>
    (match sp_id (b_off b) (b_sv b) t with Some i => i | None => unk_id end)
      :: char_segs_ids b A unk_id g rest os
  end.

(** [None] = the [expect] on the unknown token id fails (never, see [char_unk_some]) *)
Definition char_body (b : base) (A : list cp) (unk : str) (g : bool) (s : str) (ign : bool)
           (os : list (list cluster)) : option (list N) :=
  match sp_id (b_off b) (b_sv b) unk with
  | Some u => Some (char_segs_ids b A u g (split_input (b_sv b) s ign) os)
  | None => None
  end.

Definition char_tokenize b A unk g s ign os : option (list N) :=
  option_map (add_pre_suf b) (char_body b A unk g s ign os).

Fixpoint char_decode (b : base) (A : list cp) (ids : list N) (ign : bool) : option str :=
  match ids with
  | [] => Some []
  | i :: r =>
    match nth_error A (N.to_nat i) with
    | Some c => option_map (cons c) (char_decode b A r ign)
    | None =>
      if ign then char_decode b A r ign
      else match sp_tok (b_off b) (b_sv b) i with
           | Some t => option_map (app t) (char_decode b A r ign)
           | None => None
           end
    end
  end.

(** * Executable premises *)
(** oracle consistent with the regular segments: one entry per regular segment,
    non-empty clusters whose concatenation is the segment *)
Fixpoint oracle_okb (segs : list seg) (os : list (list cluster)) : bool :=
  match segs with
  | [] => match os with [] => true | _ => false end
  | Reg r :: rest =>
    match os with
    | o :: os' => nlist_eqb (concat o) r && forallb (fun c => negb (match c with [] => true | _ => false end)) o
                  && oracle_okb rest os'
    | [] => false
    end
  | Spec _ :: rest => oracle_okb rest os
  end.

Definition nonemptyb (t : str) : bool := match t with [] => false | _ => true end.

(** no token is a proper prefix of another one (on a duplicate-free list) *)
Definition prefix_freeb (sv : list str) : bool :=
  forallb (fun t => forallb (fun u => str_eqb t u || negb (is_prefix t u)) sv) sv.

Definition scalars (s : str) : bool := forallb scalar s.

(** * val glue
    input  = (kind g groups padto tokens pad prefix suffix unk alphabet s ign oracle decs)
             kind 0 = byte, 1 = char; padto option; oracle: per regular segment of
             [split_input] the cluster list of the real [CharString]; decs: list of (ids ign)
    output = (0)                                   constructor error
           | (1 ids? dec_keep? dec_ign? dec_body? (extra? ...))
             ids?      tokenize(s, ign).token_ids
             dec_keep? de_tokenize(ids, false), dec_ign? de_tokenize(ids, true),
             dec_body? de_tokenize(ids without prefix/suffix, false)
           | (-1)                                   oracle inconsistent (model only) *)
Definition v_str (v : val) : str := v_list v_n v.
Definition v_strs (v : val) : list str := v_list v_str v.
Definition str_v (s : str) : val := list_v n_v s.

Record cfg := { c_char : bool; c_g : bool; c_groups : bool; c_padto : option N;
                c_tokens : list str; c_pad : str; c_prefix : list str; c_suffix : list str;
                c_unk : str; c_alpha : list cp }.

Definition v_cfg (v : val) : cfg :=
  {| c_char := v_bool (v_nth 0 v); c_g := v_bool (v_nth 1 v); c_groups := v_bool (v_nth 2 v);
     c_padto := v_opt v_n (v_nth 3 v); c_tokens := v_strs (v_nth 4 v); c_pad := v_str (v_nth 5 v);
     c_prefix := v_strs (v_nth 6 v); c_suffix := v_strs (v_nth 7 v); c_unk := v_str (v_nth 8 v);
     c_alpha := v_str (v_nth 9 v) |}.

Definition cfg_base (c : cfg) : option base :=
  if c_char c then char_base (c_alpha c) (c_tokens c) (c_unk c) (c_pad c) (c_prefix c) (c_suffix c)
  else byte_base (c_tokens c) (c_padto c) (c_pad c) (c_prefix c) (c_suffix c).

Definition tokenize (c : cfg) (b : base) (s : str) (ign : bool) (os : list (list cluster)) : option (list N) :=
  if c_char c then char_tokenize b (c_alpha c) (c_unk c) (c_g c) s ign os
  else byte_tokenize b s ign.

Definition decode (c : cfg) (b : base) (ids : list N) (ign : bool) : option str :=
  if c_char c then char_decode b (c_alpha c) ids ign else byte_decode b ids ign.

Definition middle (b : base) (ids : list N) : list N :=
  firstn (length ids - length (b_pre b) - length (b_suf b)) (skipn (length (b_pre b)) ids).

Definition v_dec (v : val) : list N * bool := (v_list v_n (v_nth 0 v), v_bool (v_nth 1 v)).

(** the oracle matters only for the character tokenizer in grapheme mode *)
Definition oracle_needed (c : cfg) : bool := c_char c && c_g c.

Definition run_C01 (v : val) : val :=
  let c := v_cfg v in
  let s := v_str (v_nth 10 v) in
  let ign := v_bool (v_nth 11 v) in
  let os := v_list (v_list v_str) (v_nth 12 v) in
  let decs := v_list v_dec (v_nth 13 v) in
  match cfg_base c with
  | None => L [I 0]
  | Some b =>
    if oracle_needed c && negb (oracle_okb (split_input (b_sv b) s ign) os) then L [I (-1)%Z]
    else
      let tok := tokenize c b s ign os in
      L [ I 1;
          opt_v (list_v n_v) tok;
          opt_v str_v (obind tok (fun ids => decode c b ids false));
          opt_v str_v (obind tok (fun ids => decode c b ids true));
          opt_v str_v (obind tok (fun ids => decode c b (middle b ids) false));
          L (map (fun d => opt_v str_v (decode c b (fst d) (snd d))) decs) ]
  end.

(** ** The executable statement of the property, evaluated on an implementation output. *)
Definition nl_eqb := nlist_eqb.

Definition opt_str_is (v : val) (s : str) : bool :=
  match v with L [x] => nlist_eqb (v_str x) s | _ => false end.

(** every cluster of every regular segment is a single code point of the alphabet *)
Fixpoint over_alphabet (A : list cp) (g : bool) (segs : list seg) (os : list (list cluster)) : bool :=
  match segs with
  | [] => true
  | Reg r :: rest =>
    forallb (fun c => match c with [x] => match index_ofN x A with Some _ => true | None => false end | _ => false end)
            (clusters_of g r (hd [] os))
    && over_alphabet A g rest (tl os)
  | Spec _ :: rest => over_alphabet A g rest os
  end.

(** domain of the property: tokens non-empty, all strings are Unicode scalar strings *)
Definition domainb (c : cfg) (b : base) (s : str) : bool :=
  forallb nonemptyb (b_sv b) && forallb scalars (b_sv b) && scalars s.

Definition check_C01 (v out : val) : bool :=
  let c := v_cfg v in
  let s := v_str (v_nth 10 v) in
  let ign := v_bool (v_nth 11 v) in
  let os := v_list (v_list v_str) (v_nth 12 v) in
  match cfg_base c with
  | None => true
  | Some b =>
    if negb (domainb c b s) then true
    else if oracle_needed c && negb (oracle_okb (split_input (b_sv b) s ign) os) then true
    else
    match out with
    | L [I 1%Z; L [idsv]; dk; di; db; L _] =>
        let ids := v_list v_n idsv in
        let body := middle b ids in
        let exact := ign || prefix_freeb (b_sv b) in
        let pre_str := concat (c_prefix c) in
        let suf_str := concat (c_suffix c) in
        (* prefix ids, body, suffix ids *)
        nl_eqb ids (b_pre b ++ body ++ b_suf b)
        &&
        (if c_char c then
           (* one id per character, unknown id outside the alphabet *)
           (if exact then
              match char_body b (c_alpha c) (c_unk c) (c_g c) s ign os with
              | Some m => nl_eqb body m
              | None => false
              end
            else true)
           &&
           (* round trip over the alphabet *)
           (if exact && over_alphabet (c_alpha c) (c_g c) (split_input (b_sv b) s ign) os then
              opt_str_is db s && opt_str_is dk (pre_str ++ s ++ suf_str)
            else true)
         else
           (* exactly the UTF-8 bytes, each special-token occurrence one special id *)
           (if ign then nl_eqb body (utf8s s) && forallb (fun i => i <? 256) body
            else
              match byte_decode_bytes b body false with
              | Some bs => nl_eqb bs (utf8s s)
              | None => false
              end
              && (if exact then match byte_body b s ign with Some m => nl_eqb body m | None => false end
                  else true))
           &&
           (* decoding with special tokens kept gives the text back *)
           opt_str_is db s && opt_str_is dk (pre_str ++ s ++ suf_str))
    | _ => false
    end
  end.

(** correspondence relation: exact, except that for special-token sets in which one token is
    a prefix of another the tokenisation depends on the hash order of the alternation, so only
    the fields that do not depend on the scan are compared there *)
Definition agree_C01 (v m i : val) : bool :=
  val_eqb m i ||
  (let c := v_cfg v in
   let ign := v_bool (v_nth 11 v) in
   match cfg_base c with
   | Some b =>
     negb ign && negb (prefix_freeb (b_sv b)) &&
     match m, i with
     | L [I 1%Z; _; _; _; _; ex], L [I 1%Z; L [_]; L [_]; L [_]; L [_]; ex'] => val_eqb ex ex'
     | _, _ => false
     end
   | None => false
   end).

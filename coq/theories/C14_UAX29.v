(** C14 with the segmenter inside the model: SeamStable for whitespace corruption is a
    theorem under [corrupt_safe] — and only there: for a whitespace-clean text without mixed
    clusters, every string the corruption can write re-segments to the clusters it was built
    from exactly when the text is [corrupt_safe]. Hence the corrupted input of a corrupt-safe
    text is labelable for every random stream, with premises on the text alone. *)
From TU Require Import Base UAX29_Model UAX29_Proofs C10_Model C10_Proofs C10_Seam C10_Stable C10_UAX29.
From TU Require Import C14_Model C14_Proofs C14_Seam.
From TU Require C11_Model C11_Proofs C11_Link C11_UAX29.
From Coq Require Import Lia.
Open Scope Z_scope.

Module M11 := C11_Model.
Module P11 := C11_Proofs.
Module U11 := C11_UAX29.

(** * A. what the pieces are made of *)
Lemma corrupt_forallb (P : cluster -> bool) ti td :
  P [32%N] = true -> forall t prev first ks out,
  forallb P t = true -> corrupt_aux ti td prev first t ks = Some out -> forallb P out = true.
Proof.
  intros H32. induction t as [|c r IH]; intros prev first ks out Ht H.
  - cbn in H. injection H as <-. reflexivity.
  - apply corrupt_aux_inv in H as (k & ks' & rest & -> & Hrest & ->).
    cbn [forallb] in Ht. apply andb_true_iff in Ht as [Hc Hr].
    rewrite forallb_app, (IH _ _ _ _ Hr Hrest), andb_true_r. unfold piece.
    destruct (cl_ws c); [destruct (k <? td); [reflexivity|cbn [forallb]; rewrite Hc; reflexivity]|].
    destruct ((k <? ti) && negb first && negb prev)%bool; cbn [forallb]; rewrite ?H32, Hc; reflexivity.
Qed.

Definition nonnil (c : cluster) : bool := match c with [] => false | _ => true end.
Lemma nonnil_Forall l : forallb nonnil l = true <-> Forall (fun c : cluster => c <> []) l.
Proof.
  rewrite forallb_forall, Forall_forall. split; intros H c Hc; specialize (H c Hc).
  - destruct c; [discriminate|discriminate].
  - destruct c; [congruence|reflexivity].
Qed.

Lemma ins_safe_cons c d R :
  ins_safe (c :: d :: R) =
  ((if cl_ws c || cl_ws d then true
    else negb (is_prepend (last c 32%N)) && negb (ws_joinable (hd 32%N d)))
   && ins_safe (d :: R))%bool.
Proof. reflexivity. Qed.

Lemma ins_safe_tail c R : ins_safe (c :: R) = true -> ins_safe R = true.
Proof.
  destruct R as [|d R']; [reflexivity|]. rewrite ins_safe_cons. intros H.
  apply andb_true_iff in H as [_ H]. exact H.
Qed.

Lemma Forall_tail {A} (P : A -> Prop) x l : Forall P (x :: l) -> Forall P l.
Proof. intros H. inversion H; assumption. Qed.

(** * B. the written clusters form a chain *)
(** [p]: the cluster of the text before [r]; [e]: the last cluster written so far *)
Lemma corrupt_chain_aux ti td : forall r p e prev ks out,
  Forall (fun c : cluster => c <> []) (p :: r) -> SC (p :: r) ->
  chain (p :: r) = true -> del_safe (p :: r) = true -> ins_safe (p :: r) = true ->
  prev = cl_ws p -> (prev = false -> e = p) ->
  match r with c :: _ => glued e c = true | [] => True end ->
  corrupt_aux ti td prev false r ks = Some out -> chain (e :: out) = true.
Proof.
  induction r as [|c r' IH]; intros p e prev ks out Hne Hsc Hch Hd Hi Hprev He Hg H.
  - cbn in H. injection H as <-. reflexivity.
  - apply corrupt_aux_inv in H as (k & ks' & rest & -> & Hrest & ->).
    pose proof (Forall_tail _ _ _ Hne) as Hne'.
    pose proof Hsc as [Hp Hsc'].
    pose proof (chain_tail _ _ Hch) as Hch'.
    pose proof (del_safe_tail _ _ Hd) as Hd'.
    pose proof (ins_safe_tail _ _ Hi) as Hi'.
    assert (Hcne : c <> []) by (inversion Hne'; assumption).
    assert (Hpne : p <> []) by (inversion Hne; assumption).
    (* the boundary between [c] and the next cluster of the text *)
    assert (Hcn : match r' with d :: _ => glued c d = true | [] => True end).
    { destruct r' as [|d r'']; [exact Logic.I|]. rewrite chain_cons2 in Hch'.
      apply andb_true_iff in Hch' as [Hx _]. exact Hx. }
    unfold piece. destruct (cl_ws c) eqn:Ec.
    + (* whitespace: the previous cluster is not, so [e = p] *)
      assert (Hpw : cl_ws p = false).
      { destruct (cl_ws p) eqn:Ep; [|reflexivity]. destruct (Hp eq_refl) as (_ & _ & Hh).
        cbn [head_nonws] in Hh. congruence. }
      assert (Hep : e = p) by (apply He; congruence). subst e.
      destruct (k <? td).
      * (* deleted *)
        cbn [app]. apply (IH c p true ks' rest Hne' Hsc' Hch' Hd' Hi'); [symmetry; exact Ec|discriminate| |exact Hrest].
        destruct r' as [|d r'']; [exact Logic.I|].
        rewrite del_safe_cons, Hpw, Ec in Hd. cbn [negb andb] in Hd.
        apply andb_true_iff in Hd as [Hx _]. exact Hx.
      * (* kept *)
        cbn [app]. rewrite chain_cons2. apply andb_true_iff. split; [exact Hg|].
        apply (IH c c true ks' rest Hne' Hsc' Hch' Hd' Hi'); [symmetry; exact Ec|discriminate|exact Hcn|exact Hrest].
    + assert (Hrec : chain (c :: rest) = true).
      { apply (IH c c false ks' rest Hne' Hsc' Hch' Hd' Hi'); [symmetry; exact Ec|reflexivity|exact Hcn|exact Hrest]. }
      cbn [negb andb]. rewrite andb_true_r. destruct ((k <? ti) && negb prev)%bool eqn:Eins.
      * (* U+0020 written between [p] and [c] *)
        apply andb_true_iff in Eins as [_ Epv]. apply negb_true_iff in Epv.
        assert (Hep : e = p) by (apply He; exact Epv). subst e.
        assert (Hpw : cl_ws p = false) by congruence.
        rewrite ins_safe_cons, Hpw, Ec in Hi. cbn [orb] in Hi.
        apply andb_true_iff in Hi as [Hx _]. apply andb_true_iff in Hx as [H1 H2].
        cbn [app]. rewrite !chain_cons2, Hrec, andb_true_r. apply andb_true_iff. split.
        -- rewrite (glued_space_r p Hpne). exact H1.
        -- rewrite glued_space_l. rewrite H2. reflexivity.
      * cbn [app]. rewrite chain_cons2, Hg, Hrec. reflexivity.
Qed.

Lemma is_cluster_32 : is_cluster [32%N] = true.
Proof. reflexivity. Qed.

(** SeamStable for one clean, corrupt-safe text: every stream *)
Lemma corrupt_stable_l iw dw s ks out :
  M11.cleansb s = true -> corrupt_safe s = true ->
  corrupt_cl iw dw (segment s) ks = Some out -> segment (concat out) = out.
Proof.
  intros Hc Hs H. unfold corrupt_safe in Hs. apply andb_true_iff in Hs as [Hss Hi].
  pose proof (seam_safe_no_mixed_l s Hss) as Hm.
  unfold seam_safe in Hss. apply andb_true_iff in Hss as [_ Hd].
  destruct (Clean_segment s Hc Hm) as [Hh Hsc].
  unfold corrupt_cl in H.
  apply chain_stable.
  - apply nonnil_Forall. apply (corrupt_forallb nonnil _ _ eq_refl _ _ _ _ _ (proj2 (nonnil_Forall _) (segment_nonempty_l s)) H).
  - apply (corrupt_forallb is_cluster _ _ is_cluster_32 _ _ _ _ _ (segment_clusters s) H).
  - pose proof (segment_nonempty_l s) as Hne. pose proof (segment_chain s) as Hch.
    destruct (segment s) as [|c r] eqn:Es.
    + cbn in H. injection H as <-. reflexivity.
    + cbn [head_nonws] in Hh.
      apply corrupt_aux_inv in H as (k & ks' & rest & -> & Hrest & ->).
      unfold piece. rewrite Hh. cbn [negb andb]. rewrite andb_false_r. cbn [app]. rewrite Hh in Hrest.
      apply (corrupt_chain_aux (clamp iw) (clamp dw) r c c false ks' rest Hne Hsc Hch Hd Hi); [symmetry; exact Hh|reflexivity| |exact Hrest].
      destruct r as [|d r']; [exact Logic.I|]. rewrite chain_cons2 in Hch.
      apply andb_true_iff in Hch as [Hx _]. exact Hx.
Qed.

(** * C. ... and only there: two streams show the condition is necessary *)
Definition zeros (n : nat) : list Z := repeat 0 n.
Lemma zeros_range n : in_range (zeros n).
Proof. unfold in_range, zeros. apply Forall_forall. intros x Hx. apply repeat_spec in Hx. subst x. unfold D53. lia. Qed.

(** probabilities (1, 0), all draws 0: a space is written wherever one can be *)
Lemma all_inserted_chain : forall r p n out,
  Forall (fun c : cluster => c <> []) (p :: r) ->
  corrupt_aux D53 0 (cl_ws p) false r (zeros n) = Some out ->
  chain (p :: out) = true -> ins_safe (p :: r) = true.
Proof.
  induction r as [|c r' IH]; intros p n out Hne H Hch; [reflexivity|].
  apply corrupt_aux_inv in H as (k & ks' & rest & Hks & Hrest & ->).
  destruct n as [|n']; [discriminate|]. cbn [zeros repeat] in Hks. injection Hks as <- <-.
  pose proof (Forall_tail _ _ _ Hne) as Hne'.
  assert (Hcne : c <> []) by (inversion Hne'; assumption).
  assert (Hpne : p <> []) by (inversion Hne; assumption).
  rewrite ins_safe_cons. unfold piece in Hch.
  change (0 <? 0) with false in Hch. change (0 <? D53) with true in Hch. cbn [negb andb] in Hch.
  destruct (cl_ws c) eqn:Ec.
  - rewrite orb_true_r. cbn [andb]. cbn [app] in Hch.
    apply (IH c n' rest Hne'); [rewrite Ec; exact Hrest|exact (chain_tail _ _ Hch)].
  - destruct (cl_ws p) eqn:Ep; cbn [negb orb app] in *.
    + apply (IH c n' rest Hne'); [rewrite Ec; exact Hrest|exact (chain_tail _ _ Hch)].
    + rewrite !chain_cons2 in Hch. apply andb_true_iff in Hch as [H1 Hch]. apply andb_true_iff in Hch as [H2 Hch].
      rewrite (glued_space_r p Hpne) in H1. rewrite glued_space_l in H2.
      destruct c as [|b c']; [congruence|]. rewrite orb_false_r in H2. rewrite H1, H2. cbn [andb].
      apply (IH (b :: c') n' rest Hne'); [rewrite Ec; exact Hrest|exact Hch].
Qed.

Lemma corrupt_safe_necessary s :
  M11.cleansb s = true -> no_mixedb s = true ->
  (forall iw dw ks out, in_range ks -> corrupt_cl iw dw (segment s) ks = Some out ->
                        segment (concat out) = out) ->
  corrupt_safe s = true.
Proof.
  intros Hc Hm Hall. destruct (Clean_segment s Hc Hm) as [Hh Hsc].
  unfold corrupt_safe, seam_safe. rewrite Hm. cbn [andb]. apply andb_true_iff. split.
  - (* (0, 1): all whitespace goes *)
    destruct (corrupt_total_l 0 D53 (segment s) (zeros (length (segment s)))) as [out Ho].
    { unfold zeros. rewrite repeat_length. apply Nat.le_refl. }
    pose proof (Hall _ _ _ _ (zeros_range _) Ho) as Est.
    pose proof (corrupt_extreme_l _ _ _ (zeros_range _) Ho) as ->.
    apply del_safe_of_chain; [exact Hsc|]. rewrite <- Est. apply segment_chain.
  - (* (1, 0): every possible space is written *)
    destruct (corrupt_total_l D53 0 (segment s) (zeros (length (segment s)))) as [out Ho].
    { unfold zeros. rewrite repeat_length. apply Nat.le_refl. }
    pose proof (Hall _ _ _ _ (zeros_range _) Ho) as Est.
    assert (Hch : chain out = true) by (rewrite <- Est; apply segment_chain).
    pose proof (segment_nonempty_l s) as Hne.
    unfold corrupt_cl in Ho. change (clamp D53) with D53 in Ho. change (clamp 0) with 0 in Ho.
    destruct (segment s) as [|c r] eqn:Es; [reflexivity|].
    cbn [length zeros repeat] in Ho.
    apply corrupt_aux_inv in Ho as (k & ks' & rest & Hks & Hrest & ->).
    injection Hks as <- <-. unfold piece in Hch. cbn [head_nonws] in Hh. rewrite Hh in Hch.
    cbn [negb andb] in Hch. rewrite andb_false_r in Hch. cbn [app] in Hch.
    apply (all_inserted_chain r c (length r) rest Hne); [exact Hrest|exact Hch].
Qed.

(** the characterisation *)
Lemma corrupt_stable_iff_l s :
  M11.cleansb s = true -> no_mixedb s = true ->
  (corrupt_safe s = true <->
   forall iw dw ks out, in_range ks -> corrupt_cl iw dw (segment s) ks = Some out ->
                        segment (concat out) = out).
Proof.
  intros Hc Hm. split.
  - intros Hs iw dw ks out _ H. exact (corrupt_stable_l iw dw s ks out Hc Hs H).
  - apply corrupt_safe_necessary; assumption.
Qed.

Lemma corrupt_safe_cf_safe_l s :
  M11.cleansb s = true -> corrupt_safe_cf s = true -> corrupt_safe s = true.
Proof.
  unfold corrupt_safe_cf, corrupt_safe. intros Hc H. apply andb_true_iff in H as [H1 H2].
  rewrite (seam_safe_cf_safe_l s Hc H1), H2. reflexivity.
Qed.

(** * D. string level: the corrupted input of a corrupt-safe clean text is labelable *)
Lemma corrupt_labels_u_l iw dw s ks :
  M11.cleansb s = true -> corrupt_safe s = true -> (length (segment s) <= length ks)%nat ->
  exists c, option_map (@concat N) (corrupt_cl iw dw (segment s) ks) = Some c
    /\ strip_cp c = strip_cp s
    /\ M11.cleansb c = true
    /\ exists ops, operations (segment c) (segment s) = Some ops
                   /\ length ops = length (segment c)
                   /\ repair (segment c) ops = Some s.
Proof.
  intros Hc Hs Hl.
  assert (Hm : no_mixedb s = true).
  { unfold corrupt_safe in Hs. apply andb_true_iff in Hs as [Hss _]. exact (seam_safe_no_mixed_l s Hss). }
  pose proof (Clean_segment s Hc Hm) as Ht.
  assert (Hw : M11.wf_seg (segment s) = true) by (rewrite U11.wf_seg_segment; exact Hm).
  destruct (corrupt_total_l iw dw (segment s) ks Hl) as [out Ho].
  exists (concat out). rewrite Ho. split; [reflexivity|].
  destruct (corrupt_nonws_l _ _ _ _ _ Ho) as [_ Hn]. rewrite segment_concat_l in Hn.
  split; [exact Hn|]. split; [exact (corrupt_clean_cp_l _ _ _ _ _ Ht Hw Ho)|].
  destruct (corrupt_labels_l _ _ _ _ _ Ht Ho) as (ops & H1 & H2 & H3).
  rewrite (corrupt_stable_l iw dw s ks out Hc Hs Ho). rewrite segment_concat_l in H3.
  exists ops. auto.
Qed.

(** inside the domain, the KF1 class is empty *)
Lemma kf1_outside_l iw dw s ks out :
  M11.cleansb s = true -> corrupt_safe s = true ->
  corrupt_cl iw dw (segment s) ks = Some out -> kf1b s out = false.
Proof.
  intros Hc Hs Ho. unfold kf1b.
  assert (Hm : no_mixedb s = true).
  { unfold corrupt_safe in Hs. apply andb_true_iff in Hs as [Hss _]. exact (seam_safe_no_mixed_l s Hss). }
  rewrite (corrupt_stable_l iw dw s ks out Hc Hs Ho).
  destruct (corrupt_nonws_l _ _ _ _ _ Ho) as [Hst _]. rewrite Hst, C10_Stable.cll_eqb_refl. cbn [negb orb].
  apply negb_false_iff.
  assert (Hw : M11.wf_seg (segment s) = true) by (rewrite U11.wf_seg_segment; exact Hm).
  pose proof (corrupt_wf _ _ _ _ _ _ _ Hw Ho) as Hwo.
  rewrite <- U11.wf_seg_segment, (corrupt_stable_l iw dw s ks out Hc Hs Ho). exact Hwo.
Qed.

(** * E. the input built by the model alone passes the executable statement, the
    segmentation clause and the cross-check of [agree] *)
Definition clusters_v (seg : list cluster) : val := list_v (list_v n_v) seg.
Definition out_of (iw dw : Z) (s : str) (ks : list Z) : list cluster :=
  match corrupt_cl iw dw (segment s) ks with Some o => o | None => [] end.
Definition input_of (s : str) (seed : Z) (ks : list Z) (iw dw : Z) (np ns : nat) : val :=
  L [ I 1; clusters_v (segment s); clusters_v (segment (concat (out_of iw dw s ks))); I seed;
      list_v z_v ks; I iw; I dw; nat_v np; nat_v ns;
      bool_v (kf1b s (out_of iw dw s ks)); bool_v (corrupt_safe s) ].

Lemma v_clusters_v seg : v_clusters (clusters_v seg) = seg.
Proof.
  unfold v_clusters, clusters_v, v_list at 1, list_v at 1. rewrite map_map.
  induction seg as [|c r IH]; [reflexivity|]. cbn [map]. rewrite IH, P11.v_n_list. reflexivity.
Qed.

Lemma v_bool_v b : v_bool (bool_v b) = b.
Proof. destruct b; reflexivity. Qed.

Lemma check_run_u_l s seed ks iw dw np ns :
  corrupt_safe s = true -> (length (segment s) <= length ks)%nat -> in_range ks ->
  let v := input_of s seed ks iw dw np ns in
  check_C14 v (run_C14 v) = true /\ C14_Seam.uax29_agree v = true /\ C14_Seam.xcheck v = true.
Proof.
  intros Hs Hl Hr v.
  assert (Ht : in_text v = segment s).
  { unfold in_text, v, input_of. cbn [v_nth nth]. change (v_bool (I 1)) with true. cbv iota. apply v_clusters_v. }
  assert (Hk : in_ks v = ks) by (unfold in_ks, v, input_of; cbn [v_nth nth]; apply v_z_list).
  assert (Hiw : in_iw v = iw) by reflexivity.
  assert (Hdw : in_dw v = dw) by reflexivity.
  assert (Hstable : M11.cleansb s = true -> forall ccl, corrupt_cl iw dw (segment s) ks = Some ccl ->
                    segment (concat ccl) = ccl).
  { intros Hc ccl Ho. exact (corrupt_stable_l iw dw s ks ccl Hc Hs Ho). }
  split; [|split].
  - apply check_run_l. unfold wf_input. rewrite Ht, Hk, Hiw, Hdw. split; [exact Hl|]. split; [exact Hr|].
    intros _ Hp ccl Ho. unfold premise in Hp. apply andb_true_iff in Hp as [Hcl Hwf].
    apply cleanb_spec in Hcl. pose proof (cleansb_of_Clean _ Hcl Hwf) as Hc. rewrite segment_concat_l in Hc.
    unfold v, input_of. cbn [v_nth nth]. rewrite v_clusters_v. unfold out_of. rewrite Ho.
    exact (Hstable Hc ccl Ho).
  - unfold C14_Seam.uax29_agree, in_gb, in_tcl, in_ccl, v, input_of. cbn [v_nth nth].
    change (v_bool (I 1)) with true. cbv iota. rewrite !v_clusters_v, !segment_concat_l.
    rewrite !C10_Stable.cll_eqb_refl. reflexivity.
  - unfold C14_Seam.xcheck, dom_C14, in_gb, in_tcl, v, input_of. cbn [v_nth nth].
    change (v_bool (I 1)) with true. cbv iota. rewrite !v_bool_v, !v_clusters_v, !segment_concat_l.
    rewrite Hs, Bool.eqb_reflx. cbn [andb]. rewrite andb_true_r.
    destruct (M11.cleansb s) eqn:Hc; [|reflexivity]. cbn [andb].
    destruct (corrupt_total_l iw dw (segment s) ks Hl) as [out Ho].
    unfold out_of. rewrite Ho. rewrite (kf1_outside_l iw dw s ks out Hc Hs Ho). reflexivity.
Qed.

(** * F. the cluster-level theorems with [segment] for the oracle *)
Lemma corrupt_nonws_u_l iw dw s ks out :
  corrupt_cl iw dw (segment s) ks = Some out -> strip_cp (concat out) = strip_cp s.
Proof. intros H. destruct (corrupt_nonws_l _ _ _ _ _ H) as [_ Hn]. rewrite segment_concat_l in Hn. exact Hn. Qed.

Lemma corrupt_clean_u_l iw dw s ks out :
  M11.cleansb s = true -> no_mixedb s = true -> corrupt_cl iw dw (segment s) ks = Some out ->
  M11.cleansb (concat out) = true.
Proof.
  intros Hc Hm H. apply (corrupt_clean_cp_l iw dw (segment s) ks out (Clean_segment s Hc Hm)); [|exact H].
  rewrite U11.wf_seg_segment. exact Hm.
Qed.

Lemma corrupt_labels_cl_u_l iw dw s ks out :
  M11.cleansb s = true -> no_mixedb s = true -> corrupt_cl iw dw (segment s) ks = Some out ->
  exists ops, operations out (segment s) = Some ops /\ length ops = length out /\ repair out ops = Some s.
Proof.
  intros Hc Hm H. destruct (corrupt_labels_l _ _ _ _ _ (Clean_segment s Hc Hm) H) as (ops & H1 & H2 & H3).
  exists ops. rewrite segment_concat_l in H3. auto.
Qed.

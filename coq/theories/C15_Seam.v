(** C15 with the segmenter inside the model — definitions only.
    [edit_word] builds the new word from clusters of the old word and of an edit string; the
    exclusion set it returns is counted in those pieces. It is right w.r.t. the segmentation of
    the NEW word exactly when the new cluster list re-segments to itself, and that is decided by
    the one to three seams the edit creates ([edit_seams]: [glued] at the junctions). [edit_safe]
    is the condition on the word and the enabled tables alone that makes every edit of every
    chained call safe (all clusters of the pool are [glued] in every order).
    [uax29_agree] / [xcheck]: segmentation clause and class cross-check of the correspondence. *)
From TU Require Import Base UAX29_Model C10_Model C10_Seam C15_Model.
Open Scope nat_scope.

(** the boundary between the last cluster of [a] and the first cluster of [b] *)
Definition junction (a b : list cluster) : bool :=
  match a, b with
  | _ :: _, d :: _ => glued (last a []) d
  | _, _ => true
  end.

(** the edit string of an edit *)
Definition ed_str (k : ed) : list cluster :=
  match k with EIns _ e | ERep _ e => e | _ => [] end.

(** the seams an edit creates in the word *)
Definition edit_seams (k : ed) (w : word) : bool :=
  match k with
  | ESame => true
  | EIns i e => junction (firstn i w) (e ++ skipn i w) && junction e (skipn i w)
  | EDel i => junction (firstn i w) (skipn (S i) w)
  | ERep i e => junction (firstn i w) (e ++ skipn (S i) w) && junction e (skipn (S i) w)
  | ESwap i =>
      match skipn i w with
      | x :: y :: r => junction (firstn i w) [y] && glued y x && junction [x] r
      | _ => true
      end
  end.

(** ** the pool of a configuration: clusters of the word and of every edit string an enabled
    kind can draw (positive weight) *)
Definition ins_strings (c : cfg) : list (list cluster) :=
  if k_ins c then flat_map (fun en : ins_entry => pos_edits (snd en)) (itab c) else [].
Definition rep_strings (c : cfg) : list (list cluster) :=
  if k_rep c then flat_map (fun en : rep_entry => pos_edits (snd en)) (rtab c) else [].
Definition pool (c : cfg) (w : word) : list cluster :=
  w ++ concat (ins_strings c) ++ concat (rep_strings c).

Definition cl_nonnil (c : cluster) : bool := match c with [] => false | _ => true end.
Definition pool_safe (P : list cluster) : bool :=
  forallb cl_nonnil P && forallb is_cluster P && forallb (fun a => forallb (glued a) P) P.
Definition edit_safe (c : cfg) (w : word) : bool := pool_safe (pool c w).

(** ** correspondence: the oracles are [segment] of their concatenation *)
Definition seg_ok (l : list cluster) : bool := cll_eqb (segment (concat l)) l.
Definition tabs_ok (c : cfg) : bool :=
  forallb seg_ok (itab_strings (itab c)) && forallb seg_ok (rtab_strings (rtab c)).
Definition out_words_ok (out : val) : bool :=
  match out with
  | L [_; L ch] => forallb (fun o => match o with L [wv; _] => seg_ok (v_cls wv) | _ => true end) ch
  | _ => true
  end.
Definition in_g15 (v : val) : bool := negb (is_e2e v) && v_bool (v_nth 0 v).

Definition uax29_agree (v out : val) : bool :=
  if in_g15 v then
    tabs_ok (v_cfg v) && forallb (fun s => seg_ok (s_w s)) (v_steps v) && out_words_ok out
  else true.

(** ** the KF1-seam class through the model.
    The candidates the harness tries as text-level explanations of a returned pair (all
    positions, all table strings of enabled kinds): *)
Definition all_cands (c : cfg) (w : word) : list ed :=
  ESame ::
  (if k_ins c then flat_map (fun i => map (EIns i) (itab_strings (itab c))) (seq 0 (S (length w))) else []) ++
  (if k_del c then map EDel (seq 0 (length w)) else []) ++
  (if k_rep c then flat_map (fun i => map (ERep i) (rtab_strings (rtab c))) (seq 0 (length w)) else []) ++
  (if k_swap c && (1 <? length w) then map ESwap (seq 0 (length w - 1)) else []).

Definition expl_text (w : word) (ex : list nat) (w' : word) (ex' : list nat) (k : ed) : bool :=
  nlist_eqb (concat (apply_word k w)) (concat w') && set_eqb (apply_excl k ex) ex'.

(** some text-level explanation exists / one whose cluster list is a chain exists *)
Definition has_expl (c : cfg) (s : step) (w' : word) (ex' : list nat) : bool :=
  existsb (expl_text (s_w s) (s_ex s) w' ex') (all_cands c (s_w s)).
Definition step_ss (c : cfg) (s : step) (w' : word) (ex' : list nat) : bool :=
  existsb (fun k => expl_text (s_w s) (s_ex s) w' ex' k && C10_Seam.chain (apply_word k (s_w s)))
          (all_cands c (s_w s)).

(** input = (g kinds fd pm itab rtab seed steps xs ps)
      xs = ((seam ss) ...) per call: seam = the harness' class flag (a text-level explanation
           exists, none whose cluster list is the real segmentation of the returned word);
           ss = the harness' evaluation of [step_ss] (harness/src/seam.rs);
      ps = the harness' evaluation of [edit_safe cfg (first word)] *)
Definition step_x (c : cfg) (s : step) (o x : val) : bool :=
  match o with
  | L [wv; exv] =>
      let w' := v_cls wv in
      let ex' := v_list v_nat exv in
      let ss := step_ss c s w' ex' in
      Bool.eqb (v_bool (v_nth 1 x)) ss
      && Bool.eqb (v_bool (v_nth 0 x)) (has_expl c s w' ex' && negb ss)
  | _ => true
  end.

Fixpoint all3 {A B C} (f : A -> B -> C -> bool) (a : list A) (b : list B) (c : list C) : bool :=
  match a, b, c with
  | [], [], [] => true
  | x :: a', y :: b', z :: c' => f x y z && all3 f a' b' c'
  | _, _, _ => false
  end.

Definition xcheck (v out : val) : bool :=
  if in_g15 v then
    match out with
    | L [_; L ch] =>
        all3 (step_x (v_cfg v)) (v_steps v) ch (v_list (fun x => x) (v_nth 8 v))
        && Bool.eqb (v_bool (v_nth 9 v)) (edit_safe (v_cfg v) (first_word (v_steps v)))
        (* [chain_stable_partial]: no call of a chain from an edit-safe word is in the class *)
        && negb (edit_safe (v_cfg v) (first_word (v_steps v))
                 && existsb (fun x => v_bool (v_nth 0 x)) (v_list (fun x => x) (v_nth 8 v)))
    | _ => true
    end
  else true.

Definition agree_C15u (inp m i : val) : bool :=
  agree_C15 false inp i && uax29_agree inp i && xcheck inp i.

(** the seams of every edit one call can make: the exact condition for one call *)
Definition call_safe (c : cfg) (cd cs : list bool) (w : word) (ex : list nat) : bool :=
  match choices c cd cs w ex with
  | Some ks => forallb (fun k => edit_seams k w) ks
  | None => true
  end.

(** C18 — proofs about the matching with [to_lowercase] inside the model (C18_Lower.v). *)
From Coq Require Import Lia Sorting.Sorted.
From TU Require Import Base C18_Model C18_Proofs UCD_Model UCD_Lower C18_Lower.

(** * Matching under [fun x y => eqb (f x) (f y)] = matching the mapped keys under [eqb] *)
Section MapKeys.
Context {K K' : Type} (f : K -> K') (eqb : K' -> K' -> bool).
Definition pull (x y : K) : bool := eqb (f x) (f y).

Lemma row_aux_cons {A} (e : A -> A -> bool) x left pd pu prev' y ys :
  row_aux e x left (pd :: pu :: prev') (y :: ys)
  = pick (fst pu) left (fst pd) (e x y)
    :: row_aux e x (fst (pick (fst pu) left (fst pd) (e x y))) (pu :: prev') ys.
Proof. reflexivity. Qed.

Lemma row_aux_map x : forall ys left prev,
  row_aux pull x left prev ys = row_aux eqb (f x) left prev (map f ys).
Proof.
  induction ys as [|y ys IH]; intros left prev.
  - destruct prev as [|pd [|pu prev']]; reflexivity.
  - destruct prev as [|pd [|pu prev']]; try reflexivity.
    cbn [map]. rewrite !row_aux_cons, IH. reflexivity.
Qed.

Lemma row0_map (ys : list K) : row0 ys = row0 (map f ys).
Proof. unfold row0. rewrite map_map. reflexivity. Qed.

Lemma build_rows_map xs : forall prev ys,
  build_rows pull prev xs ys = build_rows eqb prev (map f xs) (map f ys).
Proof.
  induction xs as [|x xs IH]; intros prev ys; [reflexivity|].
  cbn [map build_rows]. unfold next_row. rewrite row_aux_map, IH. reflexivity.
Qed.

Lemma matrix_map xs ys : matrix pull xs ys = matrix eqb (map f xs) (map f ys).
Proof. unfold matrix. rewrite <- row0_map, build_rows_map. reflexivity. Qed.

Lemma match_keys_map xs ys : match_keys pull xs ys = match_keys eqb (map f xs) (map f ys).
Proof. unfold match_keys. rewrite matrix_map, !map_length. reflexivity. Qed.
End MapKeys.

(** the keys the model matches on give the matching of the code's pairwise relation *)
Lemma keys_match ic wa wb :
  match_keys str_eqb (keys_of ic wa) (keys_of ic wb) = match_keys (word_rel ic) wa wb.
Proof.
  destruct ic; [|reflexivity]. cbn [keys_of word_rel]. symmetry.
  exact (match_keys_map to_lowercase str_eqb wa wb).
Qed.

Lemma match_words_ic_spec_l a b ic :
  exists M, match_words_ic a b ic = Some (M, length (split_ascii_ws a), length (split_ascii_ws b))
    /\ match_keys (word_rel ic) (split_ascii_ws a) (split_ascii_ws b) = Some M
    /\ match_keys str_eqb (keys_of ic (split_ascii_ws a)) (keys_of ic (split_ascii_ws b)) = Some M.
Proof.
  unfold match_words_ic.
  destruct (match_total_l _ (word_rel ic) (split_ascii_ws a) (split_ascii_ws b)) as [M HM].
  exists M. rewrite keys_match, HM. repeat split.
Qed.

Lemma word_rel_iff ic x y :
  word_rel ic x y = true <-> (if ic then to_lowercase x = to_lowercase y else x = y).
Proof. destruct ic; cbn [word_rel]; [apply ci_eqb_iff|apply str_eqb_eq]. Qed.

(** exact mode is the old [match_words] *)
Lemma match_words_ic_exact a b : match_words_ic a b false = match_words a b.
Proof. reflexivity. Qed.

(** * [check_C18u] holds of the model's own output, for every input *)
Lemma check_run_u_l : forall v, check_C18u v (run_C18u v) = true.
Proof.
  intros v. unfold check_C18u, run_C18u.
  set (wa := split_ascii_ws (v_str (v_nth 0 v))).
  set (wb := split_ascii_ws (v_str (v_nth 1 v))).
  set (ic := v_bool (v_nth 2 v)).
  destruct (match_total_l _ str_eqb (keys_of ic wa) (keys_of ic wb)) as [m Hm]. rewrite Hm.
  destruct (match_total_l _ str_eqb wa wb) as [mx Hmx]. rewrite Hmx.
  cbn [shape6 list_v nat_v edited_of fst snd v_nth nth v_z].
  change (L (map pairv m)) with (list_v pairv m). change (L (map pairv mx)) with (list_v pairv mx).
  rewrite !(v_list_list_v v_pair pairv) by apply v_pair_pairv.
  change (L (map nat_v ?l)) with (list_v nat_v l).
  rewrite !(v_list_list_v v_nat nat_v) by apply v_nat_nat_v.
  rewrite (lcs_matchingb_complete_l _ _ _ _ _ Hm), (lcs_matchingb_complete_l _ _ _ _ _ Hmx).
  rewrite !Z.eqb_refl, !natlist_eqb_refl. reflexivity.
Qed.

(** the model's own lower-cased words pass the cross-check *)
Lemma strs_eqb_refl l : strs_eqb l l = true.
Proof.
  induction l as [|x l IH]; [reflexivity|]. cbn [strs_eqb]. rewrite IH.
  unfold str_eqb. rewrite nl_eqb_refl. reflexivity.
Qed.

(** what the first component of [run_C18u] is *)
Lemma run_C18u_matching v :
  exists M mx, match_words_ic (v_str (v_nth 0 v)) (v_str (v_nth 1 v)) (v_bool (v_nth 2 v))
               = Some (M, length (split_ascii_ws (v_str (v_nth 0 v))), length (split_ascii_ws (v_str (v_nth 1 v))))
    /\ match_words (v_str (v_nth 0 v)) (v_str (v_nth 1 v))
       = Some (mx, length (split_ascii_ws (v_str (v_nth 0 v))), length (split_ascii_ws (v_str (v_nth 1 v))))
    /\ v_nth 0 (run_C18u v) = list_v pairv M /\ v_nth 3 (run_C18u v) = list_v pairv mx.
Proof.
  destruct (match_words_ic_spec_l (v_str (v_nth 0 v)) (v_str (v_nth 1 v)) (v_bool (v_nth 2 v))) as (M & H1 & H2 & H3).
  destruct (match_words_spec_l (v_str (v_nth 0 v)) (v_str (v_nth 1 v))) as (mx & H4 & H5).
  exists M, mx. split; [exact H1|]. split; [exact H4|]. unfold run_C18u. rewrite H3, H5. split; reflexivity.
Qed.

(** [UCD_Model.split_by] with the ASCII separators is this property's [split_ascii_ws] *)
Lemma split_by_ascii s : split_by is_ascii_ws s = split_ascii_ws s.
Proof.
  unfold split_by, split_ascii_ws.
  assert (H : split_scan_by is_ascii_ws s = split_scan s).
  { induction s as [|c s IH]; [reflexivity|]. cbn [split_scan_by split_scan]. rewrite IH. reflexivity. }
  rewrite H. destruct (fst (split_scan s)); reflexivity.
Qed.

(** * the matching on the texts themselves *)
Close Scope N_scope.   (* opened by UCD_Model; the matchings count in nat *)
Lemma match_words_ic_optimal_l : forall a b ic M na nb,
  match_words_ic a b ic = Some (M, na, nb) ->
  let wa := split_ascii_ws a in let wb := split_ascii_ws b in
  let rel := fun x y : str => if ic then to_lowercase x = to_lowercase y else x = y in
  na = length wa /\ nb = length wb
  /\ StronglySorted (fun p q : nat * nat => fst p < fst q /\ snd p < snd q) M
  /\ Forall (fun p => exists x y, nth_error wa (fst p) = Some x /\ nth_error wb (snd p) = Some y /\ rel x y) M
  /\ forall M',
       StronglySorted (fun p q : nat * nat => fst p < fst q /\ snd p < snd q) M' ->
       Forall (fun p => exists x y, nth_error wa (fst p) = Some x /\ nth_error wb (snd p) = Some y /\ rel x y) M' ->
       length M' <= length M.
Proof.
  intros a b ic M na nb H wa wb rel.
  destruct (match_words_ic_spec_l a b ic) as (M0 & H0 & HM & _). rewrite H0 in H. injection H as <- <- <-.
  fold wa wb in HM. split; [reflexivity|]. split; [reflexivity|].
  split; [exact (match_increasing_l _ _ _ _ _ HM)|]. split.
  - pose proof (match_related_l _ _ _ _ _ HM) as R. eapply Forall_impl; [|exact R].
    intros p (x & y & Hx & Hy & Hr). exists x, y. split; [exact Hx|]. split; [exact Hy|].
    apply (word_rel_iff ic). exact Hr.
  - intros M' Hs Hr. apply (match_optimal_l _ (word_rel ic) wa wb M0 M' HM). split; [exact Hs|].
    eapply Forall_impl; [|exact Hr]. intros p (x & y & Hx & Hy & Hxy). exists x, y.
    split; [exact Hx|]. split; [exact Hy|]. apply (word_rel_iff ic). exact Hxy.
Qed.

Lemma match_words_ic_self_l : forall a ic M na nb,
  match_words_ic a a ic = Some (M, na, nb) -> M = map (fun i => (i, i)) (seq 0 (length (split_ascii_ws a))).
Proof.
  intros a ic M na nb H. destruct (match_words_ic_spec_l a a ic) as (M0 & H0 & HM & _).
  rewrite H0 in H. injection H as <- <- <-. apply (match_self_l _ (word_rel ic)); [|exact HM].
  intros x. apply word_rel_iff. destruct ic; reflexivity.
Qed.

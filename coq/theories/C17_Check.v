(** C17: the executable property statement holds of the model's own output. *)
From TU Require Import Base C01_Model C01_Proofs C01_Check C17_Model C17_Proofs.
From Coq Require Import Lia QArith Qabs.
Open Scope nat_scope.

(** * val round trips *)
Lemma v_nat_rt n : v_nat (nat_v n) = n.
Proof. unfold v_nat, nat_v, v_z. apply Nat2Z.id. Qed.

Lemma v_list_nat_rt l : v_list v_nat (list_v nat_v l) = l.
Proof. unfold v_list, list_v. rewrite map_map. induction l as [|x l IH]; cbn [map]; [reflexivity|]. rewrite v_nat_rt, IH. reflexivity. Qed.

Lemma v_list_z_rt l : map v_z (map z_v l) = l.
Proof. rewrite map_map. induction l as [|x l IH]; cbn [map]; [reflexivity|]. rewrite IH. reflexivity. Qed.

Lemma v_tg_rt : forall g, v_tg (tg_v g) = g.
Proof.
  fix IH 1. intros [n|n|l]; cbn [tg_v v_tg nat_v].
  - rewrite Nat2Z.id. reflexivity.
  - rewrite Nat2Z.id. reflexivity.
  - f_equal. induction l as [|x l IHl]; cbn [map]; [reflexivity|]. rewrite IH, IHl. reflexivity.
Qed.

Lemma v_list_tg_rt l : v_list v_tg (list_v tg_v l) = l.
Proof. unfold v_list, list_v. rewrite map_map. induction l as [|x l IH]; cbn [map]; [reflexivity|]. rewrite v_tg_rt, IH. reflexivity. Qed.

Lemma v_q_rt q : v_q (q_v q) = q.
Proof. destruct q as [n d]. reflexivity. Qed.

Lemma map_v_q_rt l : map v_q (map q_v l) = l.
Proof. rewrite map_map. induction l as [|x l IH]; cbn [map]; [reflexivity|]. rewrite v_q_rt, IH. reflexivity. Qed.

Lemma v_mask_rt m : v_mask (mask_v m) = m.
Proof.
  unfold v_mask, mask_v, v_list, list_v. rewrite map_map. induction m as [|r m IH]; cbn [map]; [reflexivity|].
  rewrite IH. f_equal. rewrite map_map. clear. induction r as [|b r IH]; cbn [map]; [reflexivity|].
  rewrite IH. f_equal. destruct b; reflexivity.
Qed.

Lemma nat_list_eqb_refl l : nat_list_eqb l l = true.
Proof. induction l as [|x l IH]; cbn; [reflexivity|]. rewrite Nat.eqb_refl, IH. reflexivity. Qed.

Lemma zlist_eqb_refl l : zlist_eqb l l = true.
Proof. induction l as [|x l IH]; cbn; [reflexivity|]. rewrite Z.eqb_refl, IH. reflexivity. Qed.

Lemma mask_eqb_refl m : mask_eqb m m = true.
Proof.
  induction m as [|r m IH]; cbn; [reflexivity|]. rewrite IH, andb_true_r.
  induction r as [|b r IHr]; cbn; [reflexivity|]. rewrite IHr. destruct b; reflexivity.
Qed.

(** * tolerance *)
Lemma close_eq_1 x : (x == 1)%Q -> close x 1 = true.
Proof.
  intros H. unfold close. apply Qle_bool_iff. rewrite H.
  assert (E : (1 - 1 == 0)%Q) by ring. rewrite E. cbn. unfold tol, Qle. cbn. lia.
Qed.

Lemma forallb_close_ones n : forallb (fun x => close x 1) (repeat 1%Q n) = true.
Proof. induction n as [|n IH]; cbn [repeat forallb]; [reflexivity|]. rewrite IH, close_eq_1; reflexivity. Qed.

(** * the values of the specification pass the weight test *)
Lemma firstn_app_exact {A} (a b : list A) n : length a = n -> firstn n (a ++ b) = a.
Proof. intros <-. rewrite firstn_app, Nat.sub_diag, firstn_all. cbn. apply app_nil_r. Qed.

Lemma skipn_app_exact {A} (a b : list A) n : length a = n -> skipn n (a ++ b) = b.
Proof. intros <-. rewrite skipn_app, Nat.sub_diag, skipn_all. reflexivity. Qed.

Lemma groups_vals_ok_spec mean groups rest :
  groups_vals_ok mean groups (item_vals mean groups ++ rest) = Some rest.
Proof.
  induction groups as [|g r IH]; [reflexivity|]. unfold item_vals in *. cbn [groups_vals_ok flat_map].
  set (vg := if mean then weights true g else repeat 1%Q (tg_len g)).
  assert (Hl : length vg = tg_len g) by (subst vg; destruct mean; [apply weights_length|apply repeat_length]).
  rewrite <- app_assoc, (firstn_app_exact _ _ _ Hl), (skipn_app_exact _ _ _ Hl), Hl, Nat.eqb_refl. cbn [andb].
  replace (if mean then if positiveb g then close (sumQ vg) 1 else true else forallb (fun x => close x 1) vg) with true; [exact IH|].
  subst vg. destruct mean.
  - destruct (positiveb g) eqn:E; [|reflexivity]. symmetry. apply close_eq_1. apply weights_sum_l. exact E.
  - symmetry. apply forallb_close_ones.
Qed.

Lemma items_vals_ok_spec items : items_vals_ok items (spec_vals items) = true.
Proof.
  unfold spec_vals. induction items as [|it r IH]; [reflexivity|]. cbn [items_vals_ok flat_map].
  rewrite groups_vals_ok_spec. exact IH.
Qed.

(** * equations *)
Lemma equationsb_spec items lengths : equationsb items lengths = true <-> Equations items lengths.
Proof.
  unfold equationsb, Equations. revert lengths. induction items as [|it r IH]; intros [|len rl]; cbn [forall2n]; split; intros H;
    try discriminate; try constructor; try (inversion H; fail).
  - apply andb_true_iff in H as [H _]. apply Nat.eqb_eq. exact H.
  - apply andb_true_iff in H as [_ H]. apply IH. exact H.
  - inversion H as [|? ? ? ? H1 H2]. apply andb_true_iff. split; [apply Nat.eqb_eq; exact H1|apply IH; exact H2].
Qed.

Lemma forallb_ltb l n : Forall (fun x => x < n) l -> forallb (fun x => Nat.ltb x n) l = true.
Proof. intros H. apply forallb_forall. rewrite Forall_forall in H. intros x Hx. apply Nat.ltb_lt. auto. Qed.

Lemma check_sparse_run items lengths : check_sparse items lengths (sparse_v (sparse items lengths)) = true.
Proof.
  unfold check_sparse. destruct (equationsb items lengths) eqn:E; [|reflexivity]. apply equationsb_spec in E.
  rewrite (sparse_spec _ _ E). unfold sparse_v, spec_out. cbn [s_r0 s_r1 s_r2 s_vals s_size s_gl].
  rewrite !v_list_nat_rt, !nat_list_eqb_refl. unfold list_v at 1. rewrite map_length, map_v_q_rt.
  rewrite (spec_vals_length _ _ E), Nat.eqb_refl, items_vals_ok_spec. cbn [length Nat.eqb nth andb].
  rewrite (forallb_ltb _ _ (spec_r1_bound items)), (forallb_ltb _ _ (spec_r2_bound lengths)).
  rewrite (Equations_length _ _ E).
  assert (H0 : Forall (fun x => x < length lengths) (spec_r0 0 lengths)) by exact (spec_r0_bound lengths 0).
  rewrite (forallb_ltb _ _ H0). reflexivity.
Qed.

(** * mode 1: hand-built groupings *)
Lemma check_mode1_run v : check_mode1 v (run_mode1 v) = true.
Proof.
  unfold check_mode1, run_mode1. set (items := v_list v_item (v_nth 1 v)). set (lengths := v_list v_nat (v_nth 2 v)).
  destruct (equationsb items lengths) eqn:E; [|reflexivity]. pose proof E as E'. apply equationsb_spec in E'.
  pose proof (check_sparse_run items lengths) as Hc. rewrite (sparse_spec _ _ E') in *.
  rewrite Hc, v_mask_rt. unfold spec_out. cbn [s_gl]. apply mask_eqb_refl.
Qed.

(** * mode 2: tensorised batches *)
Lemma rows_ok_spec rows pad m : Forall (fun r : list Z => length r <= m) rows ->
  rows_ok rows pad m (concat (map (fun r => r ++ repeat pad (m - length r)) rows)) = true.
Proof.
  induction 1 as [|r rows Hr Hrows IH]; [reflexivity|]. cbn [map concat rows_ok].
  assert (Hl : length (r ++ repeat pad (m - length r)) = m) by (rewrite app_length, repeat_length; lia).
  rewrite (firstn_app_exact _ _ _ Hl), (skipn_app_exact _ _ _ Hl), Hl, Nat.eqb_refl.
  rewrite (firstn_app_exact _ _ _ eq_refl), (skipn_app_exact _ _ _ eq_refl), zlist_eqb_refl, IH.
  replace (Nat.leb (length r) m) with true by (symmetry; apply Nat.leb_le; exact Hr).
  replace (forallb (Z.eqb pad) (repeat pad (m - length r))) with true; [reflexivity|].
  symmetry. apply forallb_forall. intros x Hx. apply repeat_spec in Hx. subst. apply Z.eqb_refl.
Qed.

Lemma padded_ok_run rows pad : padded_ok rows pad (tensor_v (tensor2 (pad_rows rows pad))) = true.
Proof.
  unfold padded_ok, tensor_v, tensor2, pad_rows. cbn [fst snd list_v map nat_v]. rewrite map_length, Z.eqb_refl, Nat2Z.id.
  unfold z_v at 1. rewrite v_list_z_rt. cbn [andb]. apply rows_ok_spec.
  apply Forall_forall. intros r Hr. apply list_max0_ge. apply in_map. exact Hr.
Qed.

Lemma lens_ok_run rows pad : lens_ok rows (tensor_v (lens_tensor (pad_rows rows pad))) = true.
Proof.
  unfold lens_ok, tensor_v, lens_tensor, tensor1, pad_rows. cbn [fst snd list_v map nat_v].
  rewrite !map_length, Z.eqb_refl, v_list_z_rt, map_map. apply zlist_eqb_refl.
Qed.

Lemma check_mode2_run v : check_mode2 v (run_mode2 v) = true.
Proof.
  unfold check_mode2, run_mode2. destruct (v_list v_titem (v_nth 1 v)) as [|first rest]; [reflexivity|].
  unfold tensorize. set (same := filter _ _).
  destruct (i_kind first) as [|[|[|k]]]; cbn [map].
  - rewrite padded_ok_run, lens_ok_run. unfold tensor_v, tensor1. cbn [fst snd list_v map nat_v].
    rewrite !map_length, Z.eqb_refl, v_list_z_rt, zlist_eqb_refl. reflexivity.
  - rewrite !padded_ok_run, lens_ok_run. reflexivity.
  - rewrite !padded_ok_run, lens_ok_run. reflexivity.
  - rewrite !padded_ok_run, !lens_ok_run. reflexivity.
Qed.

(** * mode 0: the byte tokenizer's groups *)
Lemma toks_rt (toks : list (list N * list tg)) :
  map (fun t => (v_list v_n (v_nth 0 t), v_list v_tg (v_nth 1 t)))
      (map (fun t : list N * list tg => L [list_v n_v (fst t); list_v tg_v (snd t)]) toks) = toks.
Proof.
  rewrite map_map. induction toks as [|[ids gs] r IH]; cbn [map]; [reflexivity|]. rewrite IH. f_equal.
  cbn [v_nth nth fst snd]. rewrite v_list_n_rt, v_list_tg_rt. reflexivity.
Qed.

Lemma forall3_combine {A B C} (P : A -> B -> C -> bool) (F : A * B -> C) : forall (a : list A) (b : list B),
  length a = length b ->
  (forall x y, In (x, y) (combine a b) -> P x y (F (x, y)) = true) ->
  forall3 P a b (map F (combine a b)) = true.
Proof.
  induction a as [|x a IH]; intros [|y b] Hl H; try discriminate; [reflexivity|].
  cbn [combine map forall3]. rewrite (H x y (or_introl eq_refl)). cbn [andb]. apply IH; [cbn in Hl; lia|].
  intros x' y' Hin. apply H. right. exact Hin.
Qed.

Lemma Equations_map (toks : list (list N * list tg)) mean :
  Forall (fun t => list_sum (map tg_len (snd t)) = length (fst t)) toks ->
  Equations (map (fun t => (snd t, mean)) toks) (map (fun t => length (fst t)) toks).
Proof. unfold Equations. induction 1 as [|t r Ht Hr IH]; cbn [map]; constructor; [exact Ht|exact IH]. Qed.

Lemma check_mode0_run v : check_mode0 v (run_mode0 v) = true.
Proof.
  unfold check_mode0, run_mode0.
  set (c := v_cfg (v_nth 1 v)). set (mean := v_bool (v_nth 2 v)). set (ign := v_bool (v_nth 3 v)).
  set (texts := v_list v_str (v_nth 4 v)). set (oss := v_list (v_list (v_list v_str)) (v_nth 5 v)).
  destruct (cfg_base c) as [b|] eqn:Hb; [|reflexivity].
  destruct (negb (forallb (fun p => oracle_okb (split_input (b_sv b) (fst p) ign) (snd p)) (combine texts oss))
            || negb (Nat.eqb (length texts) (length oss))) eqn:G1; [reflexivity|].
  cbn [orb]. destruct (c_char c) eqn:Hk; [reflexivity|]. cbn [orb].
  destruct (forallb nonemptyb (b_sv b)) eqn:Hne; [|reflexivity]. cbn [negb].
  apply orb_false_iff in G1 as [Gor Glen]. apply negb_false_iff in Gor, Glen. apply Nat.eqb_eq in Glen.
  rewrite forallb_forall in Gor.
  unfold cfg_base in Hb. rewrite Hk in Hb.
  destruct (byte_tokenize_shape_l _ _ _ _ _ _ [] true Hb) as (Hp & Hq & _).
  set (F := fun p : str * list (list cluster) =>
              (match byte_tokenize b (fst p) ign with Some ids => ids | None => [] end,
               byte_groups b (c_groups c) (c_g c) (fst p) ign (snd p))).
  (* per text: the partition facts *)
  assert (Hpart : forall s os, In (s, os) (combine texts oss) ->
            list_sum (map tg_len (snd (F (s, os)))) = length (fst (F (s, os)))
            /\ length (snd (F (s, os)))
               = length (b_pre b) + n_units (c_g c) (split_input (b_sv b) s ign) os + length (b_suf b)).
  { intros s os Hin. specialize (Gor _ Hin). cbn [fst snd] in Gor.
    assert (Hok : clusters_ok (c_g c) (split_input (b_sv b) s ign) os).
    { destruct (c_g c); [apply clusters_ok_oracle; exact Gor|apply clusters_ok_cp]. }
    destruct (groups_partition_l _ _ _ _ _ _ (c_groups c) (c_g c) s ign os Hb Hok) as (ids & Htok & H1 & H2).
    subst F. cbn [fst snd]. rewrite Htok. split; [exact H1|].
    rewrite H2. pose proof (n_units_chars (c_g c) (split_input (b_sv b) s ign) os) as Hn.
    pose proof (ids_of_length _ _ _ Hp). pose proof (ids_of_length _ _ _ Hq). lia. }
  unfold list_v at 1. rewrite toks_rt. fold F.
  set (toks := map F (combine texts oss)).
  assert (Heq : Equations (map (fun t => (snd t, mean)) toks) (map (fun t => length (fst t)) toks)).
  { apply Equations_map. subst toks. apply Forall_forall. intros t Ht. apply in_map_iff in Ht as ([s os] & <- & Hin).
    apply Hpart. exact Hin. }
  rewrite check_sparse_run. rewrite (sparse_spec _ _ Heq). unfold spec_out at 1. cbn [s_gl].
  rewrite v_mask_rt, map_map. cbn [fst]. rewrite mask_eqb_refl, !andb_true_r.
  subst toks. apply forall3_combine; [exact Glen|]. intros s os Hin. destruct (Hpart s os Hin) as [H1 H2].
  cbv beta. apply andb_true_iff. split; [apply Nat.eqb_eq; exact H1|].
  destruct (ign || prefix_freeb (b_sv b)); [apply Nat.eqb_eq; exact H2|reflexivity].
Qed.

Theorem check_run_l : forall v, check_C17 v (run_C17 v) = true.
Proof.
  intros v. unfold check_C17, run_C17. destruct (v_z (v_nth 0 v)) as [|[p|p|]|p];
    first [apply check_mode0_run|apply check_mode1_run|apply check_mode2_run].
Qed.

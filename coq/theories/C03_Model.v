(** C03: BPE applies the merges canonically (lowest id, leftmost).
    input  = (tbl text)    tbl: byte strings in merge-id order; text: code points
    output = ((id ...))    token ids of [tokenize(text, true)] without prefix/suffix,
                           [()] would be an error of the implementation *)
From TU Require Import Base BPE_Model.
Open Scope N_scope.

(** the model: the (repaired) heap loop, word by word *)
Definition run_C03 (v : val) : val :=
  opt_v (list_v n_v) (bpe_body (v_table (v_nth 0 v)) (v_str (v_nth 1 v))).

(** the property: the ids are those of the naive canonical BPE of every word *)
Definition canon_text (tbl : table) (s : str) : list N :=
  flat_map (fun w => canon_ids tbl (utf8s w)) (bpe_words s).

Definition check_C03 (v out : val) : bool :=
  val_eqb out (L [list_v n_v (canon_text (v_table (v_nth 0 v)) (v_str (v_nth 1 v)))]).

From TU Require Import Base C01_Model C01_Proofs C17_Model.
From Coq Require Import Lia QArith Qabs.
Open Scope nat_scope.

(** * group lengths and weights *)
Lemma weights_length mean g : length (weights mean g) = tg_len g.
Proof.
  revert g. fix IH 1. intros [n|n|l]; cbn [weights tg_len].
  - apply repeat_length.
  - apply repeat_length.
  - rewrite map_length. induction l as [|x l IHl]; cbn [flat_map map]; rewrite ?list_sum_cons, ?list_sum_nil; [reflexivity|].
    rewrite app_length, IH, IHl. reflexivity.
Qed.

Lemma list_sum_cons x l : list_sum (x :: l) = x + list_sum l.
Proof. reflexivity. Qed.
Lemma list_sum_nil : list_sum [] = 0.
Proof. reflexivity. Qed.

Lemma sum_repeat_full n : list_sum (map tg_len (repeat (Full 1) n)) = n.
Proof. induction n as [|n IH]; cbn [repeat map]; [reflexivity|]. rewrite list_sum_cons, IH. reflexivity. Qed.

Lemma cluster_group_len cpg c : tg_len (cluster_group cpg c) = length (utf8s c).
Proof.
  unfold cluster_group. destruct cpg; [|reflexivity]. cbn [tg_len]. unfold utf8s.
  induction c as [|x c IH]; cbn [map flat_map]; rewrite ?list_sum_cons, ?list_sum_nil; [reflexivity|]. rewrite app_length, IH. reflexivity.
Qed.

Lemma clusters_len cpg cls : list_sum (map tg_len (map (cluster_group cpg) cls)) = length (utf8s (concat cls)).
Proof.
  induction cls as [|c cls IH]; cbn [map concat]; rewrite ?list_sum_cons, ?list_sum_nil; [reflexivity|].
  rewrite cluster_group_len, IH, utf8s_app, app_length. reflexivity.
Qed.

(** the groups of the segments cover exactly the ids of the segments *)
Lemma segs_groups_len b cpg g segs : forall os ls,
  clusters_ok g segs os -> Forall2 (seg_ids_rel b) segs ls ->
  list_sum (map tg_len (segs_groups cpg g segs os)) = length (concat ls).
Proof.
  induction segs as [|sg segs IH]; intros os ls Hok H; inversion H as [|? l ? ls' Hg Hr]; subst; [reflexivity|].
  destruct sg as [r|t]; cbn [segs_groups clusters_ok concat] in *.
  - destruct Hok as [Hc Hok]. cbn in Hg. subst l. rewrite map_app, list_sum_app, clusters_len, Hc, app_length.
    rewrite (IH _ _ Hok Hr). reflexivity.
  - destruct Hg as (i & _ & ->). cbn [map tg_len app length]; rewrite ?list_sum_cons, ?list_sum_nil. rewrite (IH _ _ Hok Hr). reflexivity.
Qed.

Lemma segs_groups_count cpg g segs : forall os, length (segs_groups cpg g segs os) = n_chars g segs os.
Proof.
  induction segs as [|[r|t] rest IH]; intros os; cbn [segs_groups n_chars]; [reflexivity| |].
  - rewrite app_length, map_length, IH. reflexivity.
  - cbn [length]. rewrite IH. reflexivity.
Qed.

Lemma n_units_chars g segs : forall os, n_units g segs os = n_chars g segs os.
Proof. induction segs as [|[r|t] rest IH]; intros os; cbn [n_units n_chars]; rewrite ?IH; reflexivity. Qed.

Lemma groups_partition_l tokens padto pad prefix suffix b cpg g s ign os :
  byte_base tokens padto pad prefix suffix = Some b ->
  clusters_ok g (split_input (b_sv b) s ign) os ->
  exists ids, byte_tokenize b s ign = Some ids
    /\ list_sum (map tg_len (byte_groups b cpg g s ign os)) = length ids
    /\ length (byte_groups b cpg g s ign os)
       = length prefix + n_chars g (split_input (b_sv b) s ign) os + length suffix.
Proof.
  intros Hb Hok.
  destruct (byte_tokenize_shape_l _ _ _ _ _ _ s ign Hb) as (Hp & Hq & Hoff & body & Htok & Hi & Hpa).
  exists (b_pre b ++ body ++ b_suf b). split; [exact Htok|]. unfold byte_groups. split.
  - rewrite !map_app, !list_sum_app, !sum_repeat_full, !app_length. f_equal. f_equal.
    destruct ign.
    + rewrite (Hi eq_refl). unfold split_input in *. cbn [segs_groups clusters_ok] in *. destruct Hok as [Hc _].
      rewrite app_nil_r, clusters_len, Hc. reflexivity.
    + destruct (Hpa eq_refl) as (ls & Hls & ->). unfold split_input in *. eapply segs_groups_len; eauto.
  - rewrite !app_length, !repeat_length, segs_groups_count, (ids_of_length _ _ _ Hp), (ids_of_length _ _ _ Hq). lia.
Qed.

(** * the sparse matrix builder *)
Definition item_vals (mean : bool) (groups : list tg) : list Q :=
  flat_map (fun g => if mean then weights true g else repeat 1%Q (tg_len g)) groups.
Definition spec_vals (items : list item) : list Q := flat_map (fun it : item => item_vals (snd it) (fst it)) items.

Lemma inner_spec mean groups : forall gidx goff,
  inner mean groups gidx goff
  = (spec_groups gidx groups, seq goff (list_sum (map tg_len groups)), item_vals mean groups).
Proof.
  induction groups as [|g r IH]; intros gidx goff; cbn [inner spec_groups map item_vals flat_map]; rewrite ?list_sum_cons, ?list_sum_nil; [reflexivity|].
  rewrite IH. rewrite seq_app. reflexivity.
Qed.

Definition Equations (items : list item) (lengths : list nat) : Prop :=
  Forall2 (fun (it : item) len => list_sum (map tg_len (fst it)) = len) items lengths.

Lemma sparse_loop_spec items : forall lengths bidx offset,
  Equations items lengths ->
  sparse_loop items lengths bidx offset offset
  = Some (spec_r0 bidx lengths, spec_r1 items, spec_r2 lengths, spec_vals items).
Proof.
  induction items as [|[groups mean] ri IH]; intros lengths bidx offset H; inversion H as [|? len ? rl Hl Hr]; subst.
  - reflexivity.
  - cbn [sparse_loop fst] in *. rewrite inner_spec, Nat.eqb_refl, (IH _ _ _ Hr). reflexivity.
Qed.

Lemma sparse_loop_none items : forall lengths bidx offset,
  length items = length lengths -> ~ Equations items lengths ->
  sparse_loop items lengths bidx offset offset = None.
Proof.
  induction items as [|[groups mean] ri IH]; intros lengths bidx offset Hlen Hne.
  - destruct lengths; [|discriminate]. exfalso. apply Hne. constructor.
  - destruct lengths as [|len rl]; [discriminate|]. cbn [sparse_loop]. rewrite inner_spec.
    destruct (Nat.eqb_spec (offset + list_sum (map tg_len groups)) (offset + len)) as [E|E]; [|reflexivity].
    assert (Hl : list_sum (map tg_len groups) = len) by lia. rewrite Hl.
    rewrite IH; [reflexivity|cbn in Hlen; lia|]. intros Hr. apply Hne. constructor; [exact Hl|exact Hr].
Qed.

Lemma Equations_length items lengths : Equations items lengths -> length items = length lengths.
Proof. induction 1; cbn; congruence. Qed.

Definition spec_out (items : list item) (lengths : list nat) : sparse_out :=
  let gl := map (fun it : item => length (fst it)) items in
  {| s_r0 := spec_r0 0 lengths; s_r1 := spec_r1 items; s_r2 := spec_r2 lengths; s_vals := spec_vals items;
     s_size := [length items; list_max0 gl; list_max0 lengths]; s_gl := gl |}.

Lemma sparse_spec items lengths : Equations items lengths -> sparse items lengths = Some (spec_out items lengths).
Proof.
  intros H. unfold sparse. pose proof (Equations_length _ _ H) as E. apply Nat.eqb_eq in E.
  rewrite E, (sparse_loop_spec _ _ 0 0 H). reflexivity.
Qed.

Lemma sparse_none items lengths : ~ Equations items lengths -> sparse items lengths = None.
Proof.
  intros H. unfold sparse. destruct (Nat.eqb_spec (length items) (length lengths)) as [E|E]; [|reflexivity].
  rewrite (sparse_loop_none _ _ 0 0 E H). reflexivity.
Qed.

(** lengths and index bounds of the specification rows *)
Lemma spec_r0_length i lengths : length (spec_r0 i lengths) = list_sum lengths.
Proof. revert i; induction lengths as [|l r IH]; intros i; cbn; [reflexivity|]. rewrite app_length, repeat_length, IH. reflexivity. Qed.

Lemma spec_r2_length lengths : length (spec_r2 lengths) = list_sum lengths.
Proof. unfold spec_r2. induction lengths as [|l r IH]; cbn; [reflexivity|]. rewrite app_length, seq_length, IH. reflexivity. Qed.

Lemma spec_groups_length j groups : length (spec_groups j groups) = list_sum (map tg_len groups).
Proof. revert j; induction groups as [|g r IH]; intros j; cbn; [reflexivity|]. rewrite app_length, repeat_length, IH. reflexivity. Qed.

Lemma item_vals_length mean groups : length (item_vals mean groups) = list_sum (map tg_len groups).
Proof.
  unfold item_vals. induction groups as [|g r IH]; cbn [flat_map map]; rewrite ?list_sum_cons, ?list_sum_nil; [reflexivity|].
  rewrite app_length, IH. destruct mean; [rewrite weights_length|rewrite repeat_length]; reflexivity.
Qed.

Lemma spec_r1_length items lengths : Equations items lengths -> length (spec_r1 items) = list_sum lengths.
Proof.
  unfold spec_r1. induction 1 as [|it len items lengths Hl Hr IH]; cbn [flat_map]; rewrite ?list_sum_cons, ?list_sum_nil; [reflexivity|].
  rewrite app_length, spec_groups_length, Hl, IH. reflexivity.
Qed.

Lemma spec_vals_length items lengths : Equations items lengths -> length (spec_vals items) = list_sum lengths.
Proof.
  unfold spec_vals. induction 1 as [|it len items lengths Hl Hr IH]; cbn [flat_map]; rewrite ?list_sum_cons, ?list_sum_nil; [reflexivity|].
  rewrite app_length, item_vals_length, Hl, IH. reflexivity.
Qed.

Lemma spec_r0_bound lengths : forall i, Forall (fun x => x < i + length lengths) (spec_r0 i lengths).
Proof.
  induction lengths as [|l r IH]; intros i; cbn [spec_r0 length]; [constructor|]. apply Forall_app. split.
  - apply Forall_forall. intros x Hx. apply repeat_spec in Hx. lia.
  - eapply Forall_impl; [|apply (IH (S i))]. cbn. intros; lia.
Qed.

Lemma spec_groups_bound groups : forall j, Forall (fun x => x < j + length groups) (spec_groups j groups).
Proof.
  induction groups as [|g r IH]; intros j; cbn [spec_groups length]; [constructor|]. apply Forall_app. split.
  - apply Forall_forall. intros x Hx. apply repeat_spec in Hx. lia.
  - eapply Forall_impl; [|apply (IH (S j))]. cbn. intros; lia.
Qed.

Lemma list_max0_ge l x : In x l -> x <= list_max0 l.
Proof.
  induction l as [|y l IH]; [intros []|]. unfold list_max0. cbn [fold_right In]. fold (list_max0 l).
  intros [->|H]; [lia|]. specialize (IH H). lia.
Qed.

Lemma spec_r1_bound items : Forall (fun x => x < list_max0 (map (fun it : item => length (fst it)) items)) (spec_r1 items).
Proof.
  unfold spec_r1. apply Forall_forall. intros x Hx. apply in_flat_map in Hx as (it & Hit & Hx).
  pose proof (spec_groups_bound (fst it) 0) as Hb. rewrite Forall_forall in Hb. specialize (Hb x Hx). cbn in Hb.
  assert (length (fst it) <= list_max0 (map (fun it : item => length (fst it)) items)).
  { apply list_max0_ge. apply in_map_iff. exists it. auto. }
  lia.
Qed.

Lemma spec_r2_bound lengths : Forall (fun x => x < list_max0 lengths) (spec_r2 lengths).
Proof.
  unfold spec_r2. apply Forall_forall. intros x Hx. apply in_flat_map in Hx as (l & Hl & Hx).
  apply in_seq in Hx. pose proof (list_max0_ge _ _ Hl). lia.
Qed.

Lemma sparse_ok_l items lengths : Equations items lengths ->
  exists s, sparse items lengths = Some s
    /\ s_r0 s = spec_r0 0 lengths /\ s_r1 s = spec_r1 items /\ s_r2 s = spec_r2 lengths
    /\ length (s_r0 s) = list_sum lengths /\ length (s_r1 s) = list_sum lengths
    /\ length (s_r2 s) = list_sum lengths /\ length (s_vals s) = list_sum lengths
    /\ s_size s = [length items; list_max0 (s_gl s); list_max0 lengths]
    /\ s_gl s = map (fun it : item => length (fst it)) items
    /\ Forall (fun x => x < nth 0 (s_size s) 0) (s_r0 s)
    /\ Forall (fun x => x < nth 1 (s_size s) 0) (s_r1 s)
    /\ Forall (fun x => x < nth 2 (s_size s) 0) (s_r2 s).
Proof.
  intros H. exists (spec_out items lengths). split; [apply sparse_spec; exact H|]. unfold spec_out. cbn [s_r0 s_r1 s_r2 s_vals s_size s_gl nth].
  repeat split.
  - apply spec_r0_length.
  - apply spec_r1_length. exact H.
  - apply spec_r2_length.
  - apply spec_vals_length. exact H.
  - rewrite (Equations_length _ _ H). apply (spec_r0_bound lengths 0).
  - apply spec_r1_bound.
  - apply spec_r2_bound.
Qed.

(** * weights over Q *)
Local Open Scope Q_scope.
Lemma sumQ_app a b : sumQ (a ++ b) == sumQ a + sumQ b.
Proof.
  unfold sumQ. induction a as [|x a IH]; cbn [app fold_right]; [symmetry; apply Qplus_0_l|].
  rewrite IH. apply Qplus_assoc.
Qed.

Lemma qnat_S n : qnat (S n) == qnat n + 1.
Proof. unfold qnat. rewrite Nat2Z.inj_succ. unfold Z.succ. rewrite inject_Z_plus. reflexivity. Qed.

Lemma sumQ_repeat q n : sumQ (repeat q n) == qnat n * q.
Proof.
  unfold sumQ. induction n as [|n IH]; cbn [repeat fold_right].
  - unfold qnat. cbn. ring.
  - rewrite IH, qnat_S. ring.
Qed.

Lemma sumQ_map_mul w l : sumQ (map (fun x => x * w) l) == sumQ l * w.
Proof.
  unfold sumQ. induction l as [|x l IH]; cbn [map fold_right]; [ring|]. rewrite IH. ring.
Qed.

Lemma qnat_nz n : (0 < n)%nat -> ~ qnat n == 0.
Proof. intros H. unfold qnat, inject_Z, Qeq. cbn. lia. Qed.

Lemma qnat_inv n : (0 < n)%nat -> qnat n * (1 / qnat n) == 1.
Proof. intros H. field. apply qnat_nz. exact H. Qed.

(** mean aggregation: the weights of a group whose (nested) parts are all non-empty sum to one *)
Lemma weights_sum_l : forall g, positiveb g = true -> sumQ (weights true g) == 1.
Proof.
  fix IH 1. intros [n|n|l]; cbn [positiveb weights]; [discriminate| |].
  - intros H. apply Nat.ltb_lt in H. rewrite sumQ_repeat. apply qnat_inv. exact H.
  - intros H. apply andb_true_iff in H as [Hn Hl]. apply negb_true_iff in Hn. apply Nat.eqb_neq in Hn.
    rewrite sumQ_map_mul.
    assert (Hs : sumQ (flat_map (weights true) l) == qnat (length l)).
    { clear Hn. induction l as [|x l IHl]; cbn [flat_map length]; [unfold qnat; cbn; reflexivity|].
      cbn [forallb] in Hl. apply andb_true_iff in Hl as [Hx Hl].
      rewrite sumQ_app, (IH x Hx), (IHl Hl), qnat_S. ring. }
    rewrite Hs. apply qnat_inv. lia.
Qed.

Local Close Scope Q_scope.

(** sum aggregation: the builder leaves every value at one *)
Lemma item_vals_sum groups : item_vals false groups = repeat 1%Q (list_sum (map tg_len groups)).
Proof.
  unfold item_vals. induction groups as [|g r IH]; cbn [flat_map map]; rewrite ?list_sum_cons, ?list_sum_nil; [reflexivity|].
  rewrite IH, repeat_app. reflexivity.
Qed.

(** * the byte tokenizer's groups are positive *)
Fixpoint clusters_ne (g : bool) (segs : list seg) (os : list (list cluster)) : Prop :=
  match segs with
  | [] => True
  | Reg r :: rest => Forall (fun c : cluster => c <> []) (clusters_of g r (hd [] os)) /\ clusters_ne g rest (tl os)
  | Spec _ :: rest => clusters_ne g rest os
  end.

Lemma clusters_ne_cp segs : forall os, clusters_ne false segs os.
Proof.
  induction segs as [|[r|t] rest IH]; intros os; cbn [clusters_ne]; auto. split; [|apply IH].
  cbn [clusters_of]. unfold singletons. apply Forall_forall. intros c Hc. apply in_map_iff in Hc as (x & <- & _). discriminate.
Qed.

Lemma clusters_ne_oracle segs : forall os, oracle_okb segs os = true -> clusters_ne true segs os.
Proof.
  induction segs as [|[r|t] rest IH]; intros os; cbn [clusters_ne oracle_okb]; auto.
  destruct os as [|o os]; [discriminate|]. intros H.
  apply andb_true_iff in H as [H H3]. apply andb_true_iff in H as [_ H2].
  cbn [hd tl clusters_of]. split; [|apply IH; exact H3].
  rewrite forallb_forall in H2. apply Forall_forall. intros c Hc. specialize (H2 c Hc). destruct c; [discriminate|discriminate].
Qed.

Lemma utf8_nonempty c : 0 < length (utf8 c).
Proof. unfold utf8. destruct (c <? 128)%N; [cbn; lia|]. destruct (c <? 2048)%N; [cbn; lia|]. destruct (c <? 65536)%N; cbn; lia. Qed.

Lemma cluster_group_positive cpg c : c <> [] -> positiveb (cluster_group cpg c) = true.
Proof.
  intros Hc. unfold cluster_group. destruct cpg; cbn [positiveb].
  - rewrite map_length. destruct c as [|x c]; [congruence|]. cbn [length Nat.eqb negb andb].
    rewrite forallb_forall. intros g Hg. apply in_map_iff in Hg as (y & <- & _). cbn [positiveb].
    apply Nat.ltb_lt. apply utf8_nonempty.
  - destruct c as [|x c]; [congruence|]. cbn [utf8s flat_map]. rewrite app_length. apply Nat.ltb_lt.
    pose proof (utf8_nonempty x). lia.
Qed.

Lemma repeat_full_positive n : forallb positiveb (repeat (Full 1) n) = true.
Proof. induction n as [|n IH]; cbn [repeat forallb positiveb]; [reflexivity|]. rewrite IH. reflexivity. Qed.

Lemma segs_groups_positive cpg g segs : forall os, clusters_ne g segs os ->
  forallb positiveb (segs_groups cpg g segs os) = true.
Proof.
  induction segs as [|[r|t] rest IH]; intros os H; cbn [segs_groups clusters_ne forallb] in *; [reflexivity| |].
  - destruct H as [H1 H2]. rewrite forallb_app, (IH _ H2), andb_true_r.
    rewrite forallb_forall. intros x Hx. apply in_map_iff in Hx as (c & <- & Hc).
    apply cluster_group_positive. rewrite Forall_forall in H1. auto.
  - cbn [positiveb]. apply IH. exact H.
Qed.

Lemma byte_groups_positive_l b cpg g s ign os : clusters_ne g (split_input (b_sv b) s ign) os ->
  forallb positiveb (byte_groups b cpg g s ign os) = true.
Proof.
  intros H. unfold byte_groups. rewrite !forallb_app, !repeat_full_positive, (segs_groups_positive _ _ _ _ H). reflexivity.
Qed.

(** * padding *)
Lemma Forall2_map_r {A B} (P : A -> B -> Prop) (f : A -> B) l : (forall x, In x l -> P x (f x)) -> Forall2 P l (map f l).
Proof. induction l as [|x l IH]; intros H; cbn [map]; constructor; [apply H; left; reflexivity|apply IH; intros; apply H; right; assumption]. Qed.

Lemma pad_rows_spec {A} (rows : list (list A)) (pad : A) :
  let m := list_max0 (map (@length A) rows) in
  snd (pad_rows rows pad) = map (@length A) rows /\
  Forall2 (fun r r' => r' = r ++ repeat pad (m - length r) /\ length r' = m /\ length r <= m) rows (fst (pad_rows rows pad)).
Proof.
  cbv zeta. unfold pad_rows. cbn [fst snd]. split; [reflexivity|]. apply Forall2_map_r. intros r Hr.
  assert (length r <= list_max0 (map (@length A) rows)) by (apply list_max0_ge; apply in_map; exact Hr).
  split; [reflexivity|]. split; [rewrite app_length, repeat_length; lia|assumption].
Qed.

Lemma padding_mask_spec lengths :
  let m := list_max0 lengths in
  Forall2 (fun l row => row = repeat true l ++ repeat false (m - l) /\ length row = m /\ l <= m) lengths (padding_mask lengths).
Proof.
  cbv zeta. unfold padding_mask. apply Forall2_map_r. intros l Hl. pose proof (list_max0_ge _ _ Hl).
  split; [reflexivity|]. split; [rewrite app_length, !repeat_length; lia|assumption].
Qed.

From TU Require Import Base C01_Model C17_Model.
From Coq Require Import Lia QArith.
Open Scope nat_scope.

Lemma weights_length mean g : length (weights mean g) = tg_len g.
Proof.
  revert g. fix IH 1. intros [n|n|l]; cbn [weights tg_len].
  - apply repeat_length.
  - apply repeat_length.
  - rewrite map_length. induction l as [|x l IHl]; cbn [flat_map map list_sum]; [reflexivity|].
    rewrite app_length, IH, IHl. reflexivity.
Qed.

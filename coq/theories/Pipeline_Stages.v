(** Pipeline model, part 4 (topic N): the stages that were still opaque in C08 — definitions only.

    - [SpellingCorruption] in ALL modes (artificial with or without a character dictionary, realistic, mixed), with the
      parameters of the code: [C15_Spell.spell_text] (builder L) on the parsed content of the two files;
    - [JsonDecode] as a stage with a constructor of its own (J's [json_decode]);
    - [ChatDecode]: serde_json's typed deserialisation of [Vec<ChatMessage>] (the derived visitor in map and sequence
      form, [ignore_value] for unknown members) over the lexical pieces of [JSON_Model], and [ChatTemplate::format]
      (src/data/utils.rs:108-192);
    - [TokenMasking] (src/data/postprocessing.rs:120-171): the constructor's binary64 arithmetic, the masking loop, and
      [rand_distr::Geometric] from [RNG_Geometric].

    HOW THE CONSTRUCTORS ARE ADDED.  [Pipeline_Model.cfg] / [Pipeline_Tasks.qcfg] have ONE constructor for a stage the
    interpreter does not know ([COpaque id] / [QOpaque id]) and take the meaning of such a stage as a parameter
    ([opq] / [qopq]); every theorem of D and J is proved for every such parameter.  The real constructors live in the
    types [stage] / [qstage] below; a configuration is a pair (tree, table of stages) and [COpaque id] is a REFERENCE to
    entry [id] of the table: [opq_tab st id = run_stage (nth id st)].  Nothing of Pipeline_Model.v, Pipeline_Tasks.v
    or of the files that do case analysis over [cfg] / [qcfg] changes, every pinned theorem stays what it was, and all of
    them apply to [preproc (opq_tab st)] / [postproc (qopq_tab qs)] as they are (they quantify over [opq]).  Extending the
    inductive itself would have changed [cfg_ind'] and some thirty proofs by cases in D's and J's files. *)
From TU Require Import RNG_Model RNG_Geometric.
From TU Require Import Base C01_Model C06_Model C07_Model C08_Model JSON_Model C15_Seeded C15_Tables C15_Spell.
From TU Require Import Lines_Model C07_Files Pipeline_Model C08_Pipeline Pipeline_Tasks C08_Bytes.
Local Open Scope nat_scope.

(** * SpellingCorruption(part, prob, allow_full_delete, mode) *)
(** [chars]: the CONTENT of the character dictionary, (key, frequency, w) per entry with w = the result of
    [freq.powf(1.0 / temperature)] (libm: data, as in C15_Tables); [missp]: the content of the misspellings file *)
Inductive smode :=
| MArtificial (pc temp : f64w) (chars : option (list C15_Tables.item))
| MRealistic (missp : miss)
| MMixed (art pc temp : f64w) (chars : option (list C15_Tables.item)) (missp : miss).

(** the mode number of [C15_Spell.spell_text] *)
Definition smode_no (m : smode) : nat :=
  match m with
  | MArtificial _ _ (Some _) => 0
  | MRealistic _ => 1
  | MMixed _ _ _ (Some _) _ => 2
  | MArtificial _ _ None => 3
  | MMixed _ _ _ None _ => 4
  end.
Definition smode_pc (m : smode) : f64w :=
  match m with MArtificial pc _ _ | MMixed _ pc _ _ _ => pc | MRealistic _ => f_zero end.
Definition smode_art (m : smode) : f64w :=
  match m with MMixed art _ _ _ _ => art | _ => f_zero end.
Definition smode_items (m : smode) : list C15_Tables.item :=
  match m with MArtificial _ _ (Some l) | MMixed _ _ _ (Some l) _ => l | _ => [] end.
Definition smode_miss (m : smode) : miss :=
  match m with MRealistic ms | MMixed _ _ _ _ ms => ms | _ => [] end.

(** [corrupt_spelling(prob, fd, mode)]: the constructor's two panics ([assert!(prob > 0.0)], a dictionary key that
    passes the frequency filter and is no 3-gram) *)
Definition spell_ctor_ok (prob : f64w) (m : smode) : bool :=
  positive (fclamp01 prob)
  && (if has_tables (smode_no m)
      then match build_tables (smode_items m) with TOk _ _ => true | TPanic => false end
      else true).

(** the closure applied to (text, info): never an Err; a panic only inside the closure (an empty list of misspellings,
    invalid weights) *)
Definition spell_x (prob : f64w) (fd : bool) (m : smode) (seed : N) (s : str) : res str :=
  match spell_text (smode_no m) fd prob (smode_pc m) (smode_art m) (smode_items m) (smode_miss m) seed s with
  | SpText t => ROk t
  | _ => RPanic 10
  end.

(** * ChatDecode(part, template) *)
Record chat_template := mk_ct { ct_start : option str; ct_roles : list (str * str); ct_end : option str }.
Record chat_msg := mk_cm { cm_text : str; cm_role : str; cm_partial : bool }.

Definition K_TEXT : str := [116; 101; 120; 116]%N.
Definition K_ROLE : str := [114; 111; 108; 101]%N.
Definition K_PARTIAL : str := [112; 97; 114; 116; 105; 97; 108]%N.
(** "{text}" *)
Definition PAT_TEXT : str := [123; 116; 101; 120; 116; 125]%N.

Local Open Scope N_scope.
(** ** [ignore_str] (serde_json read.rs): like [parse_str] without building the text and WITHOUT the surrogate check of
    \u escapes: any four hex digits pass *)
Fixpoint istr (s : str) : option str :=
  match s with
  | [] => None
  | c :: r =>
    if c =? 34 then Some r
    else if c =? 92 then
      match r with
      | [] => None
      | e :: r1 =>
        if e =? 117 then
          match r1 with
          | h1 :: h2 :: h3 :: h4 :: r5 => match hex4 h1 h2 h3 h4 with Some _ => istr r5 | None => None end
          | _ => None
          end
        else match simple_escape e with Some _ => istr r1 | None => None end
      end
    else if c <? 32 then None
    else istr r
  end.

(** ** [ignore_value] (de.rs:1102): the json grammar without the f64 range check of numbers and without a recursion
    limit.  [Some rest] = the text after the value.  The code keeps an explicit stack; this is the same language by
    recursive descent (fuel: the length of the text). *)
Fixpoint ign (fuel : nat) (s : str) : option str :=
  match fuel with
  | O => None
  | S f =>
    (** elements of an array after '[' / after a value *)
    let fix arr (g : nat) (first : bool) (s : str) : option str :=
      match g with
      | O => None
      | S g' =>
        match skip_ws s with
        | [] => None
        | c :: r =>
          if c =? 93 then Some r
          else if first then match ign f (c :: r) with Some s' => arr g' false s' | None => None end
          else if c =? 44 then match ign f r with Some s' => arr g' false s' | None => None end
          else None
        end
      end in
    let fix obj (g : nat) (first : bool) (s : str) : option str :=
      match g with
      | O => None
      | S g' =>
        match skip_ws s with
        | [] => None
        | c :: r =>
          if c =? 125 then Some r
          else
            let member (r : str) :=
              match skip_ws r with
              | q :: r1 =>
                if q =? 34 then
                  match istr r1 with
                  | Some r2 => match skip_ws r2 with
                               | k :: r3 => if k =? 58 then match ign f r3 with Some s' => obj g' false s' | None => None end
                                            else None
                               | [] => None
                               end
                  | None => None
                  end
                else None
              | [] => None
              end in
            if first then member (c :: r)
            else if c =? 44 then member r
            else None
        end
      end in
    match skip_ws s with
    | [] => None
    | c :: r =>
      if c =? 110 then match plit [117; 108; 108] JNull r with POk (_, r') => Some r' | _ => None end
      else if c =? 116 then match plit [114; 117; 101] JNull r with POk (_, r') => Some r' | _ => None end
      else if c =? 102 then match plit [97; 108; 115; 101] JNull r with POk (_, r') => Some r' | _ => None end
      else if c =? 34 then istr r
      else if c =? 91 then arr (S (length r)) true r
      else if c =? 123 then obj (S (length r)) true r
      else if (c =? 45) || is_digit c then
        match lex_number (c :: r) with Some (_, r') => Some r' | None => None end
      else None
    end
  end.
Definition ignore_value (s : str) : option str := ign (S (length s)) s.


Local Close Scope N_scope.
Local Open Scope N_scope.
(** [String::deserialize]: whitespace, a double quote, [parse_str] *)
Definition typed_string (s : str) : option (str * str) :=
  match skip_ws s with
  | c :: r => if c =? 34 then pstr r else None
  | [] => None
  end.
(** [bool::deserialize]: whitespace, true | false *)
Definition typed_bool (s : str) : option (bool * str) :=
  match skip_ws s with
  | c :: r =>
      if c =? 116 then match plit [114; 117; 101] JNull r with POk (_, r') => Some (true, r') | _ => None end
      else if c =? 102 then match plit [97; 108; 115; 101] JNull r with POk (_, r') => Some (false, r') | _ => None end
      else None
  | [] => None
  end.

(** the visitor serde derives for [struct ChatMessage { text: String, role: String, #[serde(default)] partial: bool }],
    map form, on the text after '{': keys in text order; a known key twice is "duplicate field", a value of the wrong type
    "invalid type", the value of an unknown key goes through [ignore_value]; [text] and [role] must have been seen at '}' *)
Fixpoint msg_map (fuel : nat) (first : bool) (s : str) (t r : option str) (p : option bool) : option (chat_msg * str) :=
  match fuel with
  | O => None
  | S f =>
    match skip_ws s with
    | [] => None
    | c :: rest =>
      if c =? 125 then
        match t, r with
        | Some t', Some r' => Some (mk_cm t' r' (match p with Some b => b | None => false end), rest)
        | _, _ => None
        end
      else
        let member (s1 : str) :=
          match skip_ws s1 with
          | q :: s2 =>
            if q =? 34 then
              match pstr s2 with
              | None => None
              | Some (k, s3) =>
                match skip_ws s3 with
                | col :: s4 =>
                  if col =? 58 then
                    if nlist_eqb k K_TEXT then
                      match t, typed_string s4 with
                      | None, Some (x, s5) => msg_map f false s5 (Some x) r p
                      | _, _ => None
                      end
                    else if nlist_eqb k K_ROLE then
                      match r, typed_string s4 with
                      | None, Some (x, s5) => msg_map f false s5 t (Some x) p
                      | _, _ => None
                      end
                    else if nlist_eqb k K_PARTIAL then
                      match p, typed_bool s4 with
                      | None, Some (b, s5) => msg_map f false s5 t r (Some b)
                      | _, _ => None
                      end
                    else match ignore_value s4 with
                         | Some s5 => msg_map f false s5 t r p
                         | None => None
                         end
                  else None
                | [] => None
                end
              end
            else None
          | [] => None
          end in
        if first then member (c :: rest)
        else if c =? 44 then member rest
        else None
    end
  end.

(** sequence form, on the text after '[': text, role[, partial] and then ']' *)
Definition msg_seq (s : str) : option (chat_msg * str) :=
  match typed_string s with
  | None => None
  | Some (t, s1) =>
    match skip_ws s1 with
    | c1 :: s2 =>
      if c1 =? 44 then
        match typed_string s2 with
        | None => None
        | Some (r, s3) =>
          match skip_ws s3 with
          | c2 :: s4 =>
            if c2 =? 93 then Some (mk_cm t r false, s4)
            else if c2 =? 44 then
              match typed_bool s4 with
              | Some (b, s5) => match skip_ws s5 with
                                | c3 :: s6 => if c3 =? 93 then Some (mk_cm t r b, s6) else None
                                | [] => None
                                end
              | None => None
              end
            else None
          | [] => None
          end
        end
      else None
    | [] => None
    end
  end.

(** [ChatMessage::deserialize] = [deserialize_struct]: a map or a sequence *)
Definition typed_msg (s : str) : option (chat_msg * str) :=
  match skip_ws s with
  | c :: r => if c =? 123 then msg_map (S (length r)) true r None None None
              else if c =? 91 then msg_seq r
              else None
  | [] => None
  end.

(** the elements of [Vec<ChatMessage>] after '[' *)
Fixpoint msgs_seq (fuel : nat) (first : bool) (s : str) : option (list chat_msg * str) :=
  match fuel with
  | O => None
  | S f =>
    match skip_ws s with
    | [] => None
    | c :: r =>
      if c =? 93 then Some ([], r)
      else
        let elem (s1 : str) :=
          match skip_ws s1 with
          | c1 :: _ => if c1 =? 93 then None     (* trailing comma *)
                       else match typed_msg s1 with
                            | Some (m, s2) => match msgs_seq f false s2 with
                                              | Some (l, s3) => Some (m :: l, s3)
                                              | None => None
                                              end
                            | None => None
                            end
          | [] => None
          end in
        if first then elem (c :: r)
        else if c =? 44 then elem r
        else None
    end
  end.

(** [serde_json::from_str::<Vec<ChatMessage>>(s)]: whitespace, '[', the messages, ']', then only whitespace *)
Definition chat_of_text (s : str) : option (list chat_msg) :=
  match skip_ws s with
  | c :: r =>
      if c =? 91 then
        match msgs_seq (S (length r)) true r with
        | Some (l, rest) => match skip_ws rest with [] => Some l | _ => None end
        | None => None
        end
      else None
  | [] => None
  end.

Local Close Scope N_scope.

Fixpoint role_get (k : str) (m : list (str * str)) : option str :=
  match m with
  | [] => None
  | (k', v) :: r => if nlist_eqb k k' then Some v else role_get k r
  end.

(** [str::find(pat)]: position (in code points) of the first occurrence *)
Fixpoint find_pat (pat s : str) : option nat :=
  if is_prefix pat s then Some 0
  else match s with
       | [] => None
       | _ :: r => option_map S (find_pat pat r)
       end.

(** [str::replace(pat, by)] for a non-empty pattern: non-overlapping occurrences from the left; [skip] = characters of
    a match still to be dropped *)
Fixpoint replace_pat (pat by_ : str) (skip : nat) (s : str) : str :=
  match s with
  | [] => []
  | c :: r =>
      match skip with
      | S k => replace_pat pat by_ k r
      | O => if is_prefix pat s then by_ ++ replace_pat pat by_ (length pat - 1) r
             else c :: replace_pat pat by_ 0 r
      end
  end.

(** the loop of [ChatTemplate::format]: text so far, "the last message was partial".  Err codes: 20 unknown role,
    21 a partial message that is not the last, 22 a partial message whose template has no {text} *)
Fixpoint chat_msgs (roles : list (str * str)) (msgs : list chat_msg) (acc : str) : res (str * bool) :=
  match msgs with
  | [] => ROk (acc, false)
  | m :: r =>
      match role_get (cm_role m) roles with
      | None => RErr 20
      | Some tpl =>
          if cm_partial m then
            match r with
            | _ :: _ => RErr 21
            | [] => match find_pat PAT_TEXT tpl with
                    | None => RErr 22
                    | Some pos => ROk (acc ++ firstn pos tpl ++ cm_text m, true)
                    end
            end
          else chat_msgs roles r (acc ++ replace_pat PAT_TEXT (cm_text m) 0 tpl)
      end
  end.

Definition ostr (o : option str) : str := match o with Some s => s | None => [] end.

Definition chat_format (t : chat_template) (msgs : list chat_msg) : res str :=
  match chat_msgs (ct_roles t) msgs (ostr (ct_start t)) with
  | ROk (text, last_partial) => ROk (if last_partial then text else text ++ ostr (ct_end t))
  | RErr e => RErr e
  | RPanic s => RPanic s
  end.

Definition chat_decode (t : chat_template) (s : str) : res str :=
  match chat_of_text s with
  | Some msgs => chat_format t msgs
  | None => RErr 23
  end.

(** ** what serde_json WRITES for chat messages (the inverse direction, for [chat_roundtrip]) *)
(** [serde_json::to_string] of a string followed by [k] *)
Definition jstr_k (s k : str) : str := 34%N :: flat_map esc_char s ++ 34%N :: k.
Definition jbool (b : bool) : str := if b then [116;114;117;101]%N else [102;97;108;115;101]%N.

(** [serde_json::to_string(&ChatMessage)] followed by [rest]: {"text":..,"role":..,"partial":..} *)
Definition print_msg_k (m : chat_msg) (rest : str) : str :=
  123%N :: 34%N :: K_TEXT ++ 34%N :: 58%N ::
    jstr_k (cm_text m) (44%N :: 34%N :: K_ROLE ++ 34%N :: 58%N ::
      jstr_k (cm_role m) (44%N :: 34%N :: K_PARTIAL ++ 34%N :: 58%N :: jbool (cm_partial m) ++ 125%N :: rest)).


(** [serde_json::to_string(&Vec<ChatMessage>)] *)
Fixpoint print_tail (l : list chat_msg) (rest : str) : str :=
  match l with
  | [] => 93%N :: rest
  | m :: r => 44%N :: print_msg_k m (print_tail r rest)
  end.
Definition print_chat (l : list chat_msg) : str :=
  91%N :: match l with [] => [93%N] | m :: r => print_msg_k m (print_tail r []) end.


(** * the misspellings file from its BYTES: [serde_json::from_reader::<HashMap<String, Vec<String>>>] — strict UTF-8, a json
    object whose values are arrays of strings (typed: anything else is an error, nothing is ignored), then only
    whitespace; a key given twice keeps its LAST list ([HashMap::insert]).  [None] = the [expect] of the constructor panics. *)
Local Open Scope N_scope.
Fixpoint strs_seq (fuel : nat) (first : bool) (s : str) : option (list str * str) :=
  match fuel with
  | O => None
  | S f =>
    match skip_ws s with
    | [] => None
    | c :: r =>
      if c =? 93 then Some ([], r)
      else
        let elem (s1 : str) :=
          match skip_ws s1 with
          | c1 :: _ => if c1 =? 93 then None
                       else match typed_string s1 with
                            | Some (x, s2) => match strs_seq f false s2 with
                                              | Some (l, s3) => Some (x :: l, s3)
                                              | None => None
                                              end
                            | None => None
                            end
          | [] => None
          end in
        if first then elem (c :: r)
        else if c =? 44 then elem r
        else None
    end
  end.
Definition typed_strs (s : str) : option (list str * str) :=
  match skip_ws s with
  | c :: r => if c =? 91 then strs_seq (S (length r)) true r else None
  | [] => None
  end.

Fixpoint miss_put (k : str) (v : list str) (m : miss) : miss :=
  match m with
  | [] => [(k, v)]
  | (k', v') :: r => if nlist_eqb k k' then (k, v) :: r else (k', v') :: miss_put k v r
  end.

Fixpoint missp_map (fuel : nat) (first : bool) (s : str) (acc : miss) : option (miss * str) :=
  match fuel with
  | O => None
  | S f =>
    match skip_ws s with
    | [] => None
    | c :: rest =>
      if c =? 125 then Some (acc, rest)
      else
        let member (s1 : str) :=
          match skip_ws s1 with
          | q :: s2 =>
            if q =? 34 then
              match pstr s2 with
              | None => None
              | Some (k, s3) =>
                match skip_ws s3 with
                | col :: s4 => if col =? 58 then
                                 match typed_strs s4 with
                                 | Some (v, s5) => missp_map f false s5 (miss_put k v acc)
                                 | None => None
                                 end
                               else None
                | [] => None
                end
              end
            else None
          | [] => None
          end in
        if first then member (c :: rest)
        else if c =? 44 then member rest
        else None
    end
  end.

Definition missp_of_text (s : str) : option miss :=
  match skip_ws s with
  | c :: r =>
      if c =? 123 then
        match missp_map (S (length r)) true r [] with
        | Some (m, rest) => match skip_ws rest with [] => Some m | _ => None end
        | None => None
        end
      else None
  | [] => None
  end.
Local Close Scope N_scope.

Definition missp_of_bytes (b : list byte) : option miss :=
  match utf8_decode b with Some s => missp_of_text s | None => None end.

(** * the table of preprocessing stages *)
Inductive stage :=
| SJson (p : part)
| SSpell (p : part) (prob : f64w) (fd : bool) (m : smode)
| SChat (p : part) (t : chat_template)
| SBroken.       (* a spelling stage whose misspellings file does not parse: the constructor panics *)

Definition run_stage (s : stage) (x : item) (i : info) : res (item * info) :=
  match s with
  | SJson p => apply_part p (fun s _ => json_decode s) x i
  | SSpell p prob fd m => apply_part p (fun s i => spell_x prob fd m (i_seed i) s) x i
  | SChat p t => apply_part p (fun s _ => chat_decode t s) x i
  | SBroken => RPanic 13
  end.

(** the meaning of [COpaque id]: entry [id] of the table (no entry: the stage stays unmodelled) *)
Definition opq_tab (st : list stage) (id : nat) (x : item) (i : info) : res (item * info) :=
  match nth_error st id with
  | Some s => run_stage s x i
  | None => RErr 9
  end.

Definition stage_ok (s : stage) : bool :=
  match s with
  | SSpell _ prob _ m => spell_ctor_ok prob m
  | SBroken => false
  | _ => true
  end.

(** every [COpaque] of the tree refers to an entry of the table *)
Fixpoint refs_ok (n : nat) (c : cfg) : bool :=
  match c with
  | COpaque id => Nat.ltb id n
  | CChain l => forallb (refs_ok n) l
  | CSwitch l _ => forallb (refs_ok n) l
  | _ => true
  end.
Definition p_refs_ok (n : nat) (p : pcfg) : bool :=
  match p with PGlobal c => refs_ok n c | PPerSource l => forallb (refs_ok n) l end.

(** * TokenMasking(tokenizer, p, min_tokens, num_tokens_prob, mask_token) over a byte tokenizer *)
Record qstage := mk_qs { qs_b : base; qs_p : f64w; qs_min : N; qs_nump : f64w; qs_tok : str }.

(** [ByteTokenizer::token_to_id]: a token of one byte is that byte, otherwise the special vocabulary *)
Definition byte_token_to_id (b : base) (t : str) : option N :=
  match utf8s t with
  | [x] => Some x
  | _ => sp_id (b_off b) (b_sv b) t
  end.

Inductive mk_ctor :=
| MCOk (g : geo) (p' : f64w) (mid : N)
| MCPanic       (* mask token unknown / Geometric::new refuses p / min_tokens = 0 *)
| MCHang        (* Geometric::new(p) does not return: 0 < p <= 2^-54 *)
| MCFuel
| MCOutside.    (* a negative num_tokens_prob: no magnitude in [f64w] *)

(** [mask_tokens(p, min, num_p, ..)] up to the closure:
      num_p = 1.0 / (1.0 / num_p + 1.0);  expected_per_mask = min as f64 + 1.0 / num_p;
      geo = Geometric::new(p).expect(..);  assert!(min > 0);  p = p / expected_per_mask
    (the sampler is built from the MASK probability p; the adjusted num_p only enters expected_per_mask) *)
Definition mask_ctor (q : qstage) : mk_ctor :=
  match byte_token_to_id (qs_b q) (qs_tok q) with
  | None => MCPanic
  | Some mid =>
      match qs_nump q with
      | FNeg => MCOutside
      | nump =>
          let np := gdiv g_one (fadd (gdiv g_one nump) g_one) in
          let expd := fadd (g_of_N (qs_min q)) (gdiv g_one np) in
          match geo_new (qs_p q) with
          | GNErr => MCPanic
          | GNHang => MCHang
          | GNFuel => MCFuel
          | GNOk g => if (qs_min q =? 0)%N then MCPanic else MCOk g (gdiv (qs_p q) expd) mid
          end
      end
  end.

(** [ids[from .. from + n] = v] *)
Fixpoint set_range (ids : list N) (from n : nat) (v : N) : list N :=
  match ids with
  | [] => []
  | x :: r =>
      match from with
      | S f => x :: set_range r f n v
      | O => match n with
             | O => ids
             | S n' => v :: set_range r 0 n' v
             end
      end
  end.

Inductive mk_res := MkOk (ids : list N) | MkFuel | MkPowf | MkPanic.

(** the loop of the closure; [nm] = num_maskable_tokens:
      while i < nm { if rng.random::<f64>() > p { i += 1; continue }
                     n = (geo.sample(rng) as usize + min).min(nm / 2).min(nm - i);
                     ids[i + npfx .. i + npfx + n] = mask;  i += n }
    An iteration makes progress unless nm / 2 = 0 (nm = 1): then it repeats until a draw exceeds p. *)
Fixpoint mask_loop (fuel : nat) (g : geo) (p' : f64w) (mn : N) (nm npfx : nat) (mid : N)
                   (i : nat) (ids : list N) (st : rng) : mk_res :=
  match fuel with
  | O => MkFuel
  | S f =>
    if Nat.leb nm i then MkOk ids else
    let (u, st1) := random_f64 st in
    if fgt (Fin u (-53)) p' then mask_loop f g p' mn nm npfx mid (S i) ids st1
    else match geo_sample geo_fuel g st1 with
         | GSOk x st2 =>
             if (p64 <=? x + mn)%N then MkPanic     (* [as usize + min] overflows *)
             else let n := N.to_nat (N.min (N.min (x + mn) (N.of_nat (nm / 2))) (N.of_nat (nm - i))) in
                  mask_loop f g p' mn nm npfx mid (i + n) (set_range ids (i + npfx) n mid) st2
         | GSFuel => MkFuel
         | GSPowf => MkPowf
         | GSOverflow => MkPanic
         end
  end.

(** extra rounds allowed without progress (only for nm = 1) *)
Definition mask_slack : nat := 64.

Definition mask_ids (g : geo) (p' : f64w) (mn : N) (npfx nsfx : nat) (mid : N) (seed : N) (ids : list N) : mk_res :=
  if Nat.leb (length ids) 1 then MkOk ids
  else if Nat.ltb (length ids) (npfx + nsfx) then MkPanic       (* len - npfx - nsfx underflows (overflow checks) *)
  else let nm := length ids - npfx - nsfx in
       mask_loop (nm + S mask_slack) g p' mn nm npfx mid 0 ids (seed_from_u64 seed).

Definition tin_set_ids (t : tinput) (ids : list N) : tinput :=
  match t with
  | TIClass _ pad l => TIClass ids pad l
  | TISeq _ pad ls => TISeq ids pad ls
  | TIGen _ pad ls => TIGen ids pad ls
  | TICond _ pad tids tpad ls => TICond ids pad tids tpad ls
  end.

(** panic sites: 6 fuel, 11 a panic of the closure, 12 powf (outside the model), 13 the constructor does not return a
    closure (excluded by [qstage_ok]) *)
Definition mask_stage (q : qstage) (x : xitem) (i : info) : res (xitem * info) :=
  match mask_ctor q with
  | MCOk g p' mid =>
      match mask_ids g p' (qs_min q) (length (b_pre (qs_b q))) (length (b_suf (qs_b q))) mid (i_seed i)
                     (tin_ids (x_in x)) with
      | MkOk ids' => ROk (mk_xitem (x_data x) (tin_set_ids (x_in x) ids'), i)
      | MkFuel => RPanic 6
      | MkPowf => RPanic 12
      | MkPanic => RPanic 11
      end
  | _ => RPanic 13
  end.

Definition qopq_tab (qs : list qstage) (id : nat) (x : xitem) (i : info) : res (xitem * info) :=
  match nth_error qs id with
  | Some q => mask_stage q x i
  | None => RErr 9
  end.

Definition qstage_ok (q : qstage) : bool :=
  match mask_ctor q with MCOk _ _ _ => true | _ => false end.

(** the domain of the model: no negative / NaN num_tokens_prob (NaN: the adjusted p is NaN, every draw masks, and a
    sequence with one maskable token never ends), a constructor that returns or panics (p = 0 or p > 2^-54), and
    k <= 31, so that [powf] is never called ([m_loop_no_powf]) *)
Definition qstage_dom (q : qstage) : bool :=
  match qs_nump q with
  | FNeg | FNaN => false
  | _ => match mask_ctor q with
         | MCOk g _ _ => (g_k g <=? 31)%N
         | MCPanic => true
         | _ => false
         end
  end.

Fixpoint qrefs_ok (n : nat) (c : qcfg) : bool :=
  match c with
  | QOpaque id => Nat.ltb id n
  | QChain l | QSwitch l _ | QOnMark _ _ l | QSwitchOnMark _ _ l => forallb (qrefs_ok n) l
  | _ => true
  end.
Definition qp_refs_ok (n : nat) (q : qpcfg) : bool :=
  match q with QGlobal c => qrefs_ok n c | QPerSource l => forallb (qrefs_ok n) l end.

(** * val glue *)
Definition v_items (v : val) : list C15_Tables.item := v_list C15_Spell.v_item v.

(** smode = (0 pc temp chars?) | (1 missp) | (2 art pc temp chars? missp) | (3 bytes) | (4 art pc temp chars? bytes);
    chars? = () | (((key freq weight) ..)); in 3 / 4 the misspellings file is given as its BYTES; [None]: it does not parse *)
Definition v_smode (v : val) : option smode :=
  match v_z (v_nth 0 v) with
  | 0%Z => Some (MArtificial (v_f64w (v_nth 1 v)) (v_f64w (v_nth 2 v)) (v_opt v_items (v_nth 3 v)))
  | 1%Z => Some (MRealistic (v_miss (v_nth 1 v)))
  | 2%Z => Some (MMixed (v_f64w (v_nth 1 v)) (v_f64w (v_nth 2 v)) (v_f64w (v_nth 3 v)) (v_opt v_items (v_nth 4 v))
                        (v_miss (v_nth 5 v)))
  | 3%Z => option_map MRealistic (missp_of_bytes (v_list v_n (v_nth 1 v)))
  | _ => option_map (MMixed (v_f64w (v_nth 1 v)) (v_f64w (v_nth 2 v)) (v_f64w (v_nth 3 v)) (v_opt v_items (v_nth 4 v)))
                    (missp_of_bytes (v_list v_n (v_nth 5 v)))
  end.

Definition v_template (v : val) : chat_template :=
  mk_ct (v_opt v_str (v_nth 0 v))
        (v_list (fun kv => (v_str (v_nth 0 kv), v_str (v_nth 1 kv))) (v_nth 1 v))
        (v_opt v_str (v_nth 2 v)).

(** stage = (0 part) | (1 part prob fd smode) | (2 part (start? ((role template) ..) end?)) *)
Definition v_stage (v : val) : stage :=
  match v_z (v_nth 0 v) with
  | 0%Z => SJson (v_part (v_nth 1 v))
  | 1%Z => match v_smode (v_nth 4 v) with
           | Some m => SSpell (v_part (v_nth 1 v)) (v_f64w (v_nth 2 v)) (v_bool (v_nth 3 v)) m
           | None => SBroken
           end
  | _ => SChat (v_part (v_nth 1 v)) (v_template (v_nth 2 v))
  end.

(** qstage = (tokenizer p min num_p mask_token); [None]: the tokenizer's constructor fails *)
Definition v_qstage (v : val) : option qstage :=
  option_map (fun b => mk_qs b (v_f64w (v_nth 1 v)) (v_n (v_nth 2 v)) (v_f64w (v_nth 3 v)) (v_str (v_nth 4 v)))
             (v_tok (v_nth 0 v)).

Definition v_fuel_out : val := L [I (-4)%Z].

Definition res_x_v (r : res xitem) : val :=
  match r with
  | ROk x => L [I 1%Z; str_v (it_in (x_data x)); str_v (it_tg (x_data x)); tinput_v (x_in x); I 1%Z]
  | RErr _ => L [I 2%Z; I 1%Z]
  | RPanic 6 => v_fuel_out
  | RPanic 12 => v_outside
  | RPanic _ => v_panic
  end.

(** item line with stage tables.
    input  = (-5 pcfg task qpcfg maxlen input target (seed-hi seed-lo) file marks stages qstages)
             in pcfg a stage (14 id) is entry id of [stages]; in qpcfg (6 id) is entry id of [qstages]
    output = as the item line (-4) *)
Definition run_item_x (v : val) : val :=
  let p := v_pcfg (v_nth 1 v) in
  let q := v_qpcfg (v_nth 3 v) in
  let st := v_list v_stage (v_nth 10 v) in
  match map_opt v_qstage (v_list (fun x => x) (v_nth 11 v)) with
  | None => L [I 0%Z]
  | Some qs =>
    if negb (pcfg_dom p) || negb (qpcfg_dom q) || negb (p_refs_ok (length st) p) || negb (qp_refs_ok (length qs) q)
       || negb (forallb qstage_dom qs) then v_outside
    else match v_task (v_nth 2 v) with
         | None => L [I 0%Z]
         | Some t =>
             if negb (pcfg_ok p) || negb (qpcfg_ok q) || negb (forallb stage_ok st) || negb (forallb qstage_ok qs)
             then L [I 0%Z]
             else res_x_v (pipeline_t (opq_tab st) (qopq_tab qs) p t q (v_nat (v_nth 4 v))
                                      (mk_item (v_str (v_nth 5 v)) (v_str (v_nth 6 v)))
                                      (mk_info (v_hl (v_nth 7 v)) (v_nat (v_nth 8 v)) (v_marks (v_nth 9 v))))
         end
  end.

(** byte loader line with stage tables.
    input  = (-6 files strategy (seed-hi seed-lo) epoch pcfg task qpcfg maxlen lim skip ff rank W sort shuffle prefetch
                 blim ty threads buffer threads2 buffer2 stages qstages)
    output = as the byte loader line (-3) *)
Definition run_bloader_x (v : val) : val :=
  let files := v_bfiles (v_nth 1 v) in
  let s := v_strategy (v_nth 2 v) in
  let seed := v_hl (v_nth 3 v) in
  let epoch := v_n (v_nth 4 v) in
  let p := v_pcfg (v_nth 5 v) in
  let q := v_qpcfg (v_nth 7 v) in
  let st := v_list v_stage (v_nth 23 v) in
  let total := sum_nat (map count_lines files) in
  match map_opt v_qstage (v_list (fun x => x) (v_nth 24 v)) with
  | None => L [I 0%Z]
  | Some qs =>
    if negb (pcfg_dom p) || negb (qpcfg_dom q) || negb (p_refs_ok (length st) p) || negb (qp_refs_ok (length qs) q)
       || negb (forallb qstage_dom qs) then v_outside
    else match v_task (v_nth 6 v) with
         | None => L [I 0%Z]
         | Some t =>
           if negb (forallb stage_ok st) || negb (forallb qstage_ok qs) then L [I 0%Z] else
           match loader_run_tb (opq_tab st) (qopq_tab qs) p t q (v_nat (v_nth 8 v)) seed epoch s files
                               (v_lim total (v_nth 9 v)) (v_nat (v_nth 10 v)) (v_nat (v_nth 11 v)) (v_nat (v_nth 12 v))
                               (v_nat (v_nth 13 v)) (v_bool (v_nth 14 v)) (v_bool (v_nth 15 v)) (v_nat (v_nth 16 v))
                               (v_nat (v_nth 17 v)) (v_ty (v_nth 18 v)) with
           | GOk m bs => L [I 1%Z; nat_v m; list_v (list_v xi_v) bs; I 1%Z; I 1%Z]
           | GCtor => L [I 0%Z]
           | GPanic => v_panic
           | GFuel => v_fuel_out
           end
         end
  end.

(** mask script line: the TokenMasking function alone on a synthetic item — the known answers that tie
    [RNG_Geometric] (new, sample, powi) and the masking loop to rand_distr and /repo.
    input  = (-7 qstage kind ids (seed-hi seed-lo));  kind 0..3 = the variant of TrainTaskInput that carries the ids
    output = (0) the constructor panics | (1 ids rep) | (-777) the call panics | (-4) fuel | (-5) outside *)
Definition run_mask (v : val) : val :=
  match v_qstage (v_nth 1 v) with
  | None => L [I 0%Z]
  | Some q =>
      if negb (qstage_dom q) then v_outside
      else if negb (qstage_ok q) then L [I 0%Z]
      else let ids := v_list v_n (v_nth 3 v) in
           let t := match v_z (v_nth 2 v) with
                    | 0%Z => TIClass ids 0%N 0%Z
                    | 1%Z => TISeq ids 0%N []
                    | 2%Z => TIGen ids 0%N []
                    | _ => TICond ids 0%N [] 0%N []
                    end in
           match mask_stage q (mk_xitem (mk_item [] []) t) (mk_info (v_hl (v_nth 4 v)) 0 []) with
           | ROk (x, _) => L [I 1%Z; list_v n_v (tin_ids (x_in x)); I 1%Z]
           | RErr _ => L [I 2%Z; I 1%Z]
           | RPanic 6 => v_fuel_out
           | RPanic 12 => v_outside
           | RPanic _ => v_panic
           end
  end.

Definition check_mask (v o : val) : bool :=
  match o with
  | L [I 0%Z] => true
  | L [I 1%Z; L ids; I 1%Z] => Nat.eqb (length ids) (length (v_list v_n (v_nth 3 v)))
  | L [I (-777)%Z] => true
  | _ => false
  end.

(** * the extracted model of the C08 check *)
Definition is_x (v : val) : bool :=
  Z.eqb (C08_Pipeline.kind v) (-5) || Z.eqb (C08_Pipeline.kind v) (-6) || Z.eqb (C08_Pipeline.kind v) (-7).

(** [seed = None] (the default of [TrainLoader::from_files]) travels as [()] in the seed slot of the loader lines; the code
    uses 0 ([self.seed.unwrap_or_default() + epoch], mod.rs:971) and so do the models ([v_hl ()] = 0).  One thing differs:
    [from_files] refuses [shuffle] without a seed (mod.rs:934) *)
Definition no_seed_shuffle (v : val) : bool :=
  match v_nth 3 v with
  | L [] => if Z.eqb (C08_Pipeline.kind v) (-2) then v_bool (v_nth 13 v)
            else if Z.eqb (C08_Pipeline.kind v) (-3) || Z.eqb (C08_Pipeline.kind v) (-6) then v_bool (v_nth 15 v)
            else false
  | _ => false
  end.

Definition run_C08n (base_run : val -> val) (v : val) : val :=
  if no_seed_shuffle v then L [I 0%Z]
  else if Z.eqb (C08_Pipeline.kind v) (-5) then run_item_x v
  else if Z.eqb (C08_Pipeline.kind v) (-6) then run_bloader_x v
  else if Z.eqb (C08_Pipeline.kind v) (-7) then run_mask v
  else base_run v.

Definition check_C08n (v o : val) : bool :=
  if Z.eqb (C08_Pipeline.kind v) (-5) then check_item v o
  else if Z.eqb (C08_Pipeline.kind v) (-6) then check_loader v o
  else if Z.eqb (C08_Pipeline.kind v) (-7) then check_mask v o
  else check_C08y v o.

Definition agree_C08n (v m o : val) : bool :=
  if is_x v then val_eqb m o else agree_C08y v m o.

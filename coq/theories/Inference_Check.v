(** Inference loader: the executable statement [check_inference] holds of the model's own output
    ([check_run_inference_l]) and what an accepting verdict means ([same_itemsb_sound]). *)
From Coq Require Import Lia Permutation.
From TU Require Import Base C16_Model C16_Proofs C16_Top C16_UAX29 C01_Model Inference_Model Inference_Proofs.
From TU Require C06_Model C06_Top.
Local Open Scope nat_scope.

Lemma val_eqb_refl : forall v, val_eqb v v = true.
Proof.
  fix IH 1. intros [z|l].
  - apply Z.eqb_refl.
  - cbn [val_eqb]. induction l as [|x l IHl]; [reflexivity|]. rewrite (IH x), IHl. reflexivity.
Qed.

Lemma nlist_eqb_refl l : nlist_eqb l l = true.
Proof. induction l as [|x l IH]; [reflexivity|]. cbn [nlist_eqb]. rewrite N.eqb_refl. exact IH. Qed.

Lemma win_eqb_refl w : win_eqb w w = true.
Proof. unfold win_eqb. rewrite !N.eqb_refl. reflexivity. Qed.
Lemma item_eqb_refl x : item_eqb x x = true.
Proof. unfold item_eqb. rewrite nlist_eqb_refl, !Nat.eqb_refl, win_eqb_refl. reflexivity. Qed.
Lemma items_eqb_refl l : items_eqb l l = true.
Proof. induction l as [|x l IH]; [reflexivity|]. cbn [items_eqb]. rewrite item_eqb_refl. exact IH. Qed.

(** * decoding what was encoded *)
(** the string range of a window is its context's byte range (C16's ctx_str; the zero window of the
    empty text included): the eight boundaries determine the window *)
Definition str_normal (w : window) : Prop := w_soff w = w_bcs w /\ w_slen w = (w_bce w - w_bcs w)%N.

Lemma windows_str_normal g kind max ctx s ws :
  windows kind max ctx (lens_g g s) = Ok ws -> Forall str_normal ws.
Proof.
  intros H. destruct s as [|c s].
  - (* the empty text *)
    assert (E : lens_g g [] = []) by (destruct g; reflexivity). rewrite E in H.
    unfold windows in H. cbn [sumN fold_right] in H.
    destruct (kind =? 3)%N.
    + unfold char_windows in H. destruct (max <=? 2 * ctx)%N; [discriminate|]. vm_compute in H. injection H as <-. constructor.
    + destruct (4 <=? kind)%N.
      * unfold byte_windows in H. destruct (max <=? 2 * ctx)%N; [discriminate|]. vm_compute in H. injection H as <-. constructor.
      * cbn [N.eqb] in H. injection H as <-. constructor; [|constructor]. split; reflexivity.
  - pose proof (ctx_str_l kind max ctx (lens_g g (c :: s)) ws (lens_g_Pos g (c :: s)) (lens_g_nonnil g (c :: s) ltac:(discriminate)) H) as Hc.
    eapply Forall_impl; [|exact Hc]. cbn beta. intros w [H1 H2]. split; [exact H1|]. rewrite <- H2, H1. lia.
Qed.

Lemma N_of_Z_of_N n : Z.to_N (Z.of_N n) = n.
Proof. apply N2Z.id. Qed.

Lemma v_list_list_v {A} (f : A -> val) (h : val -> A) (l : list A) :
  (forall x, h (f x) = x) -> v_list h (list_v f l) = l.
Proof. intros H. unfold v_list, list_v. rewrite map_map. rewrite <- (map_id l) at 2. apply map_ext. exact H. Qed.

Lemma v_n_n_v n : v_n (n_v n) = n.
Proof. unfold v_n, n_v, v_z. apply N2Z.id. Qed.

Lemma v_item_item_v x : str_normal (i_win x) -> v_item (item_v x) = Some x.
Proof.
  intros [H1 H2]. destruct x as [ids idx widx w]. destruct w as [a b c d e f g' h so sl]. cbn in H1, H2. subst so sl.
  unfold item_v, v_item, quad_v, v_quad, n_v, nat_v. cbn [i_ids i_idx i_widx i_win w_cs w_ws w_we w_ce w_bcs w_bws w_bwe w_bce].
  rewrite !N2Z.id, !Nat2Z.id.
  rewrite (v_list_list_v (fun n => I (Z.of_N n)) v_n ids v_n_n_v). reflexivity.
Qed.

Lemma all_some_map_some {A} (l : list A) : all_some (map Some l) = Some l.
Proof. induction l as [|x l IH]; [reflexivity|]. cbn [map all_some]. rewrite IH. reflexivity. Qed.

Lemma v_batch_batch_v b : Forall (fun x => str_normal (i_win x)) b -> v_batch (batch_v b) = Some b.
Proof.
  intros H. unfold batch_v, v_batch, list_v. rewrite map_map.
  rewrite (map_ext_in _ Some); [apply all_some_map_some|].
  intros x Hx. rewrite Forall_forall in H. exact (v_item_item_v x (H x Hx)).
Qed.

Lemma v_batches_batches_v bs : Forall (fun x => str_normal (i_win x)) (concat bs) ->
  v_batches (L (map batch_v bs)) = Some bs.
Proof.
  intros H. unfold v_batches. rewrite map_map.
  rewrite (map_ext_in _ Some); [apply all_some_map_some|].
  intros b Hb. apply v_batch_batch_v. rewrite Forall_forall in *. intros x Hx. apply H.
  apply in_concat. exists b. split; assumption.
Qed.

Section Inf.
Variables (kind max ctx : N) (g : bool) (tok : str -> option (list N)).
Notation stream := (stream kind max ctx g tok).

Lemma stream_str_normal texts : forall idx, Forall (fun x => str_normal (i_win x)) (fst (stream idx texts)).
Proof.
  induction texts as [|[s|] r IH]; intros idx; cbn [Inference_Model.stream]; try constructor.
  destruct (inference_items kind max ctx g tok idx s) as [its|e] eqn:E; [|constructor].
  specialize (IH (S idx)). destruct (stream (S idx) r) as [rest e']. cbn [fst] in *.
  apply Forall_app. split; [|exact IH].
  destruct (items_spec _ _ _ _ _ _ _ _ E) as (ws & Ew & Hw & _).
  pose proof (windows_str_normal g kind max ctx s ws Ew) as Hn. rewrite <- Hw in Hn.
  apply Forall_forall. intros x Hx. rewrite Forall_forall in Hn. apply Hn. apply in_map. exact Hx.
Qed.
End Inf.

(** * the clauses hold of the model's batches *)
Lemma nodup_tagsb_complete l : NoDup (map tag l) -> nodup_tagsb l = true.
Proof.
  induction l as [|x l IH]; cbn [map nodup_tagsb]; intros H; [reflexivity|].
  inversion H as [|? ? Hx Hn]; subst. rewrite (IH Hn), andb_true_r.
  destruct (existsb (tag_eqb x) l) eqn:E; [|reflexivity].
  exfalso. apply existsb_exists in E. destruct E as (y & Hy & Ht). apply Hx.
  unfold tag_eqb in Ht. apply andb_true_iff in Ht. destruct Ht as [H1 H2]. apply Nat.eqb_eq in H1, H2.
  apply in_map_iff. exists y. split; [|exact Hy]. unfold tag. congruence.
Qed.

Lemma same_itemsb_complete l m : Permutation l m -> NoDup (map tag m) -> same_itemsb l m = true.
Proof.
  intros Hp Hn. unfold same_itemsb.
  rewrite (Permutation_length Hp), Nat.eqb_refl.
  rewrite nodup_tagsb_complete by (eapply Permutation_NoDup; [apply Permutation_map, Permutation_sym; exact Hp|exact Hn]).
  cbn [andb]. apply forallb_forall. intros x Hx. apply existsb_exists. exists x. split; [|apply item_eqb_refl].
  eapply Permutation_in; eassumption.
Qed.

Lemma accessors_all_refl bs : accessors_allb (map batch_v bs) bs = true.
Proof.
  induction bs as [|b bs IH]; [reflexivity|]. cbn [map accessors_allb]. rewrite IH, andb_true_r.
  unfold accessors_okb, batch_v. rewrite !val_eqb_refl. unfold list_v at 1. cbn [andb]. apply val_eqb_refl.
Qed.

Lemma end_allowed_refl c e : end_allowed c e (end_v e) = true.
Proof. unfold end_allowed. rewrite val_eqb_refl. reflexivity. Qed.

Lemma limit_okb_of (ty : C06_Model.limit_type) L bs :
  Forall (fun b : list iitem => 1 < length b -> C06_Model.limit isize ty b <= L) bs ->
  forallb (C06_Model.limit_okb isize ty L) bs = true.
Proof.
  intros H. apply forallb_forall. intros b Hb. rewrite Forall_forall in H. specialize (H b Hb).
  unfold C06_Model.limit_okb. destruct (length b <=? 1) eqn:E; [reflexivity|]. cbn [orb].
  apply Nat.leb_le. apply H. apply Nat.leb_gt in E. exact E.
Qed.

Lemma nonnil_of (bs : list (list iitem)) : Forall (fun b => b <> []) bs -> forallb (fun b => negb (is_nil b)) bs = true.
Proof.
  intros H. apply forallb_forall. intros b Hb. rewrite Forall_forall in H. specialize (H b Hb).
  destruct b; [contradiction|reflexivity].
Qed.

(** the executable statement evaluated on every implementation output holds of the model's own
    output, for every input *)
Lemma check_run_inference_l v : check_inference v (run_inference v) = true.
Proof.
  unfold check_inference, run_inference. destruct (ic_tok (v_case v)) as [t|]; [|reflexivity].
  unfold case_run, case_stream.
  set (c := v_case v).
  rewrite (run_unfold (ic_kind c) (ic_max c) (ic_ctx c) (ic_g c) (tok_fn t (ic_ign c)) (ic_sort c) (ic_prefetch c) (ic_limit c) (ic_ty c) (ic_texts c)).
  set (st := stream (ic_kind c) (ic_max c) (ic_ctx c) (ic_g c) (tok_fn t (ic_ign c)) 0 (ic_texts c)).
  destruct (C06_Top.batches_total_det_l isize (ic_sort c) (Nat.max (ic_prefetch c) 1) (ic_limit c) (ic_ty c)
              C06_Model.o_default (fst st)) as [bs Hbs].
  rewrite Hbs. destruct st as [items e] eqn:Est. cbn [fst snd] in *.
  unfold list_v at 1.
  pose proof (C06_Top.batches_partition_l _ isize _ _ _ _ _ _ _ _ Hbs) as Hp.
  assert (Hitems : items = fst (stream (ic_kind c) (ic_max c) (ic_ctx c) (ic_g c) (tok_fn t (ic_ign c)) 0 (ic_texts c)))
    by (fold st; rewrite Est; reflexivity).
  assert (Hnorm : Forall (fun x => str_normal (i_win x)) (concat bs)).
  { apply Forall_forall. intros x Hx.
    pose proof (stream_str_normal (ic_kind c) (ic_max c) (ic_ctx c) (ic_g c) (tok_fn t (ic_ign c)) (ic_texts c) 0) as Hs.
    rewrite <- Hitems in Hs. rewrite Forall_forall in Hs. apply Hs. eapply Permutation_in; eassumption. }
  rewrite (v_batches_batches_v bs Hnorm).
  rewrite same_itemsb_complete; [|exact Hp|rewrite Hitems; apply stream_tags_nodup].
  rewrite (nonnil_of bs (C06_Top.batches_nonempty_l _ isize _ _ _ _ _ _ _ _ Hbs)).
  rewrite (limit_okb_of _ _ bs (C06_Top.batches_limit_l _ isize _ _ _ _ _ _ _ _ Hbs)).
  rewrite accessors_all_refl, !end_allowed_refl. cbn [andb].
  destruct (ic_sort c) eqn:Es; [reflexivity|].
  destruct (C06_Top.plain_l isize _ _ _ _ _ _ Hbs) as [Hc Hg]. rewrite Hc, items_eqb_refl, Hg. reflexivity.
Qed.

(** and the model agrees with itself under the correspondence relation *)
Lemma agree_run_inference_l v : agree_inference v (run_inference v) (run_inference v) = true.
Proof.
  unfold agree_inference, run_inference. destruct (ic_tok (v_case v)) as [t|] eqn:Et; [|reflexivity].
  destruct (case_run (v_case v) t) as [[bs|er] e] eqn:Er; [|reflexivity].
  rewrite val_eqb_refl. cbn [andb].
  assert (He : snd (case_stream (v_case v) t) = e).
  { unfold case_run, case_stream in *. rewrite run_unfold in Er. injection Er as _ He. exact He. }
  rewrite He, !end_allowed_refl. reflexivity.
Qed.

(** * what an accepting verdict means: the decoded items are the model's stream, up to the string
    range (which an InferenceItem does not carry) *)
Definition key (x : iitem) :=
  (i_ids x, i_idx x, i_widx x,
   (w_cs (i_win x), w_ws (i_win x), w_we (i_win x), w_ce (i_win x)),
   (w_bcs (i_win x), w_bws (i_win x), w_bwe (i_win x), w_bce (i_win x))).

Lemma nlist_eqb_eq a : forall b, nlist_eqb a b = true -> a = b.
Proof.
  induction a as [|x a IH]; intros [|y b] H; try discriminate; [reflexivity|].
  cbn [nlist_eqb] in H. apply andb_true_iff in H. destruct H as [H1 H2]. apply N.eqb_eq in H1. rewrite H1, (IH b H2). reflexivity.
Qed.

Lemma item_eqb_key x y : item_eqb x y = true -> key x = key y.
Proof.
  unfold item_eqb, win_eqb, key. intros H.
  repeat match goal with
         | E : (_ && _) = true |- _ => apply andb_true_iff in E; destruct E
         end.
  repeat match goal with
         | E : (_ =? _)%N = true |- _ => apply N.eqb_eq in E
         | E : Nat.eqb _ _ = true |- _ => apply Nat.eqb_eq in E
         end.
  match goal with E : nlist_eqb _ _ = true |- _ => apply nlist_eqb_eq in E end. congruence.
Qed.

Lemma nodup_tagsb_sound l : nodup_tagsb l = true -> NoDup (map tag l).
Proof.
  induction l as [|x l IH]; cbn [map nodup_tagsb]; intros H; [constructor|].
  apply andb_true_iff in H. destruct H as [H1 H2]. constructor; [|exact (IH H2)].
  intros Hin. apply in_map_iff in Hin. destruct Hin as (y & Hy & Hin).
  apply negb_true_iff in H1. assert (existsb (tag_eqb x) l = true) as E; [|congruence].
  apply existsb_exists. exists y. split; [exact Hin|].
  unfold tag in Hy. injection Hy as Ha Hb. unfold tag_eqb. rewrite Ha, Hb, !Nat.eqb_refl. reflexivity.
Qed.

Lemma nodup_tag_key l : NoDup (map tag l) -> NoDup (map key l).
Proof.
  induction l as [|x l IH]; cbn [map]; intros H; [constructor|].
  inversion H as [|? ? Hx Hn]; subst. constructor; [|exact (IH Hn)].
  intros Hin. apply Hx. apply in_map_iff in Hin. destruct Hin as (y & Hy & Hin).
  apply in_map_iff. exists y. split; [|exact Hin]. unfold key in Hy. unfold tag. congruence.
Qed.

(** [same_itemsb l m]: the items of [l] are exactly the items of [m] (with ids, tags and all eight
    boundaries), each once *)
Lemma same_itemsb_sound l m : same_itemsb l m = true -> Permutation (map key l) (map key m).
Proof.
  unfold same_itemsb. intros H. apply andb_true_iff in H. destruct H as [H H3]. apply andb_true_iff in H. destruct H as [H1 H2].
  apply Nat.eqb_eq in H1. apply nodup_tagsb_sound in H2.
  apply NoDup_Permutation_bis.
  - apply nodup_tag_key. exact H2.
  - rewrite !map_length. lia.
  - intros k Hk. apply in_map_iff in Hk. destruct Hk as (x & <- & Hx).
    rewrite forallb_forall in H3. specialize (H3 x Hx). apply existsb_exists in H3. destruct H3 as (y & Hy & He).
    rewrite (item_eqb_key x y He). apply in_map. exact Hy.
Qed.

(** C19 composed with the MessagePack model: the bytes [train_bpe] writes with [merge_ops.save(out_file)] load —
    by the model of the real loader — as exactly the table of the run, whatever order the map iterated in. *)
From TU Require Import Base C19_Model C19_Proofs C19_Count C19_Check C19_Delta C19_NoDup C19_Lit C19_LitMaps
  C19_LitScan C19_LitProofs C19_LitRun MsgPack_Model MsgPack_Codec MsgPack_Stream MsgPack_Map MsgPack_Tie C19_File.
From Coq Require Import Lia ZifyBool ZifyNat ZifyN Permutation.
Open Scope N_scope.

(** the words of the corpus are byte strings the file format can hold as keys *)
Definition CorpusBytes (c : corpus) : Prop :=
  forall w n, In (w, n) c -> Forall isbyte (concat w) /\ N.of_nat (length (concat w)) <= u32_max.

Lemma word_pairs_span : forall (w : word) a b, In (a, b) (word_pairs w) -> exists pre suf, w = pre ++ a :: b :: suf.
Proof.
  induction w as [|x w IH]; intros a b H; [destruct H|]. cbn [word_pairs] in H.
  destruct w as [|y w']; [destruct H|]. destruct H as [H|H].
  - injection H as <- <-. exists [], w'. reflexivity.
  - destruct (IH _ _ H) as (pre & suf & E). exists (x :: pre), suf. rewrite E. reflexivity.
Qed.

(** a merged token is a stretch of some word of the corpus *)
Lemma run_token_span c k ps i p : Run c k ps -> nth_error ps i = Some p ->
  exists w n u v, In (w, n) c /\ concat w = u ++ merge p ++ v.
Proof.
  intros HR Hi. pose proof (run_entry_max_l _ _ _ HR _ _ Hi) as (Hin & _).
  unfold all_pairs in Hin. apply in_flat_map in Hin. destruct Hin as ([w' n] & Hw' & Hp). cbn [fst] in Hp.
  destruct p as [a b]. destruct (word_pairs_span _ _ _ Hp) as (pre & suf & ->).
  pose proof (state_after_bytes (firstn i ps) c) as Hb.
  set (F := fun wk : word * N => (concat (fst wk), snd wk)).
  assert (Hin2 : In (concat (pre ++ a :: b :: suf), n) (map F c)).
  { replace (map F c) with (map F (state_after c (firstn i ps))) by exact Hb.
    apply in_map_iff. exists (pre ++ a :: b :: suf, n). split; [reflexivity|exact Hw']. }
  apply in_map_iff in Hin2. destruct Hin2 as ([w n'] & E & Hw). unfold F in E. cbn [fst snd] in E. injection E as E ->.
  exists w, n, (concat pre), (concat suf). split; [exact Hw|]. rewrite E, concat_app. cbn [concat]. unfold merge. cbn [fst snd].
  rewrite <- !app_assoc. reflexivity.
Qed.

Lemma run_token_limits c k ps : CorpusBytes c -> Run c k ps ->
  Forall (fun t => N.of_nat (length t) <= u32_max /\ Forall isbyte t) (map merge ps).
Proof.
  intros Hc HR. apply Forall_forall. intros t Ht. apply in_map_iff in Ht. destruct Ht as (p & <- & Hp).
  apply In_nth_error in Hp. destruct Hp as [i Hi].
  destruct (run_token_span _ _ _ _ _ HR Hi) as (w & n & u & v & Hw & E).
  destruct (Hc _ _ Hw) as [Hb Hl]. rewrite E in Hb, Hl. split.
  - rewrite !app_length in Hl. lia.
  - apply Forall_app in Hb. destruct Hb as [_ Hb]. apply Forall_app in Hb. exact (proj1 Hb).
Qed.

(** THE FILE OF A TRAINING: every run of the literal loop of [train_bpe] (every iteration order of the statistics,
    hence every tie-break) ends with a table [map merge ps]; the map written is {merge p_i : i}; for EVERY order
    [es] in which that map may be iterated by [save], and any bytes behind, the model of the real loader reads the
    entries back and [load_table] yields the table itself, keys in id order. *)
Theorem trained_file_l c k o : CorpusOK [] c -> CorpusBytes c -> N.of_nat k <= u32_max ->
  LRun c (byte_pair_stats_lit c) k o ->
  exists ps, o = Done ps /\ Run c k ps /\ NoDup (map merge ps) /\
    forall es junk, Permutation es (entries_of_table (map merge ps)) ->
      mp_parse (mp_encode es ++ junk) = Some (es, junk) /\
      load_table (mp_encode es ++ junk) = Loaded (map merge ps).
Proof.
  intros Hok Hb Hk HL. destruct (train_lit_table_l _ _ _ Hok HL) as (ps & -> & Hlen & Hnd & _).
  destruct (train_lit_refines_l _ _ _ Hok HL) as (ps' & E & HR). injection E as <-.
  exists ps. split; [reflexivity|]. split; [exact HR|]. split; [exact Hnd|].
  intros es junk Hp. apply load_saved_l; [exact Hnd|rewrite map_length; unfold u32_max in *; lia| |exact Hp].
  apply (run_token_limits _ _ _ Hb HR).
Qed.

(** the corpus [train_bpe] counts from text satisfies the byte premise when no word is 4 GiB long *)
Lemma utf8_isbyte ch : ch < 1114112 -> Forall isbyte (utf8 ch).
Proof.
  intros H. unfold utf8, isbyte.
  destruct (ch <? 128) eqn:E1; [repeat constructor; lia|].
  destruct (ch <? 2048) eqn:E2; [repeat constructor; try (apply N.ltb_ge in E1); lia|].
  destruct (ch <? 65536) eqn:E3; repeat constructor; lia.
Qed.

(** what an accepted correspondence says about the file the real [train_bpe] wrote (field 7 of the output) *)
Theorem file_agree_sound_l i tv a1 a2 a3 a4 a5 a6 fb : i = L [tv; a1; a2; a3; a4; a5; a6; fb] ->
  file_agree_C19 i = true ->
  exists es, v_list v_n fb = mp_encode es /\ mp_parse (v_list v_n fb) = Some (es, []) /\
             Permutation es (entries_of_table (out_entries i)) /\ NoDup (out_entries i) /\
             load_table (v_list v_n fb) = Loaded (out_entries i) /\ v_entries tv = sort_items es.
Proof.
  intros -> H. unfold file_agree_C19 in H. destruct (saved_agree_sound_l _ _ _ H) as (es & H1 & H2 & H3 & H4 & _ & H6 & H7).
  exists es. repeat split; assumption.
Qed.

Lemma concat_singletons (l : list N) : concat (map (fun b => [b]) l) = l.
Proof. induction l as [|x l IH]; cbn [map concat app]; [reflexivity|]. rewrite IH. reflexivity. Qed.

Lemma utf8s_isbyte s : Forall (fun ch => ch < 1114112) s -> Forall isbyte (utf8s s).
Proof.
  induction 1 as [|ch s Hc Hs IH]; cbn [utf8s flat_map]; [constructor|]. apply Forall_app. split; [apply utf8_isbyte; exact Hc|exact IH].
Qed.

(** the vocabulary [train_bpe] builds from counted text ([corpus_of]: every word as single-byte tokens of its
    UTF-8) meets the byte premise when every word is text of scalar values shorter than 4 GiB *)
Lemma corpus_of_bytes_l (m : cmap) :
  (forall w n, In (w, n) m -> Forall (fun ch => ch < 1114112) w /\ N.of_nat (length (utf8s w)) <= u32_max) ->
  CorpusBytes (corpus_of m).
Proof.
  intros H w n Hin. unfold corpus_of in Hin. apply in_map_iff in Hin. destruct Hin as ([s k] & E & Hs).
  cbn [fst snd] in E. injection E as <- <-. unfold init_word. rewrite concat_singletons.
  destruct (H _ _ Hs) as [H1 H2]. split; [apply utf8s_isbyte; exact H1|exact H2].
Qed.

(** BPE model shared by C02 / C03: src/tokenization.rs [BPETokenizer]
    ([new], [merge_bytes], [tokenize], [de_tokenize]) and the word regex
    [\s+\S+|^\S+] of src/text.rs. Definitions only.

    * a merge table is the list of its byte strings in merge-id order
      ([MergeOps] sorted by id = [reverse_merge_ops] minus the 256 single bytes);
      the merge id of a byte string is its position;
    * [merge_word] is the heap loop of [merge_bytes] for one word, in the REPAIRED
      form (the merge is applied before the neighbour entries are pushed, no
      [done] exit); [merge_word_pinned] is the loop as it stood at the pinned
      commit (defect D1) and is kept as documentation only;
    * [canon] is the naive reference BPE the property C03 speaks about. *)
From TU Require Import Base.
Open Scope N_scope.

(** notations, not definitions: no constant to unfold in proofs *)
Notation bytes := (list N) (only parsing).
Notation table := (list (list N)) (only parsing).

(** ** Merge table lookup: [self.state.0.get(&merged)] *)
Fixpoint lookup_from (tbl : table) (k : N) (b : bytes) : option N :=
  match tbl with
  | [] => None
  | t :: r => if nlist_eqb t b then Some k else lookup_from r (N.succ k) b
  end.
Definition lookup (tbl : table) (b : bytes) : option N := lookup_from tbl 0 b.

(** ** The heap entry: the 6-tuple
    [(Reverse(merge_id), Reverse(first_idx), second_idx, first_id, second_id, merged)] *)
Record entry := E {
  e_mid : N; e_fi : nat; e_si : nat; e_fid : option N; e_sid : option N; e_mg : bytes }.

Definition lex (c d : comparison) : comparison := match c with Eq => d | _ => c end.
(** [Option<u32>]: [None < Some _] *)
Definition cmp_opt (a b : option N) : comparison :=
  match a, b with
  | None, None => Eq | None, Some _ => Lt | Some _, None => Gt
  | Some x, Some y => N.compare x y
  end.
(** [Vec<u8>]: lexicographic *)
Fixpoint cmp_bytes (a b : bytes) : comparison :=
  match a, b with
  | [], [] => Eq | [], _ :: _ => Lt | _ :: _, [] => Gt
  | x :: a', y :: b' => lex (N.compare x y) (cmp_bytes a' b')
  end.
(** derived [Ord] of the tuple; the two [Reverse] wrappers swap the arguments *)
Definition entry_cmp (a b : entry) : comparison :=
  lex (N.compare (e_mid b) (e_mid a))
 (lex (Nat.compare (e_fi b) (e_fi a))
 (lex (Nat.compare (e_si a) (e_si b))
 (lex (cmp_opt (e_fid a) (e_fid b))
 (lex (cmp_opt (e_sid a) (e_sid b))
      (cmp_bytes (e_mg a) (e_mg b)))))).

(** [BinaryHeap::pop]: a greatest element and the remaining multiset (as a list;
    equal elements are identical tuples, so which one is taken cannot be observed). *)
Fixpoint pop_max (h : list entry) : option (entry * list entry) :=
  match h with
  | [] => None
  | e :: r =>
    match pop_max r with
    | None => Some (e, [])
    | Some (m, r') => match entry_cmp e m with Lt => Some (m, e :: r') | _ => Some (e, r) end
    end
  end.

(** ** Slots *)
Fixpoint upd {A} (k : nat) (v : A) (l : list A) : list A :=
  match l, k with
  | [], _ => []
  | _ :: r, O => v :: r
  | x :: r, S k' => x :: upd k' v r
  end.

Definition is_nil {A} (l : list A) : bool := match l with [] => true | _ => false end.

(** [bytes.iter().enumerate().take(i).rev().find(|(_, b)| !b.is_empty())] *)
Fixpoint find_prev (bs : list bytes) (i : nat) : option (nat * bytes) :=
  match i with
  | O => None
  | S k => match nth k bs [] with [] => find_prev bs k | b => Some (k, b) end
  end.

(** [bytes.iter().enumerate().skip(j).find(|(_, b)| !b.is_empty())] *)
Fixpoint find_from (bs : list bytes) (k : nat) : option (nat * bytes) :=
  match bs with
  | [] => None
  | b :: r => match b with [] => find_from r (S k) | _ => Some (k, b) end
  end.
Definition find_next (bs : list bytes) (j : nat) : option (nat * bytes) := find_from (skipn j bs) j.

Definition opt_eqb (a b : option N) : bool :=
  match a, b with
  | None, None => true | Some x, Some y => N.eqb x y | _, _ => false
  end.

(** the initial heap: adjacent single bytes whose pair is a table entry *)
Fixpoint init_heap (tbl : table) (k : nat) (w : bytes) : list entry :=
  match w with
  | [] => []
  | x :: r =>
    match r with
    | [] => []
    | y :: _ =>
      match lookup tbl [x; y] with
      | Some m => E m k (S k) (Some x) (Some y) [x; y] :: init_heap tbl (S k) r
      | None => init_heap tbl (S k) r
      end
    end
  end.

(** is the popped entry still about the tokens it was pushed for? *)
Definition fresh (ids : list (option N)) (e : entry) : bool :=
  opt_eqb (nth (e_fi e) ids None) (e_fid e) && opt_eqb (nth (e_si e) ids None) (e_sid e).

(** entries pushed after a merge of slots [fi], [si] into [mg] (repaired code:
    [bs], [ids] are the vectors AFTER the merge has been applied) *)
Definition push_prev (tbl : table) (bs : list bytes) (ids : list (option N)) (fi : nat) (mg : bytes) : list entry :=
  match find_prev bs fi with
  | Some (p, pb) =>
    match lookup tbl (pb ++ mg) with
    | Some m => [E m p fi (nth p ids None) (nth fi ids None) (pb ++ mg)]
    | None => []
    end
  | None => []
  end.
Definition push_next (tbl : table) (bs : list bytes) (ids : list (option N)) (fi si : nat) (mg : bytes) : list entry :=
  match find_next bs (S si) with
  | Some (q, qb) =>
    match lookup tbl (mg ++ qb) with
    | Some m => [E m fi q (nth fi ids None) (nth q ids None) (mg ++ qb)]
    | None => []
    end
  | None => []
  end.

(** ** The (repaired) loop. [None] = out of fuel (never returned, see [merge_word_fuel]). *)
Fixpoint merge_loop (tbl : table) (fuel : nat) (bs : list bytes) (ids : list (option N)) (h : list entry)
  : option (list bytes * list (option N)) :=
  match fuel with
  | O => None
  | S f =>
    match pop_max h with
    | None => Some (bs, ids)
    | Some (e, h') =>
      if fresh ids e then
        let bs' := upd (e_si e) [] (upd (e_fi e) (e_mg e) bs) in
        let ids' := upd (e_si e) None (upd (e_fi e) (Some (256 + e_mid e)) ids) in
        merge_loop tbl f bs' ids'
          (push_next tbl bs' ids' (e_fi e) (e_si e) (e_mg e) ++ push_prev tbl bs' ids' (e_fi e) (e_mg e) ++ h')
      else merge_loop tbl f bs ids h'
    end
  end.

Definition flatten_ids (ids : list (option N)) : list N :=
  flat_map (fun o => match o with Some i => [i] | None => [] end) ids.

Definition word_fuel (w : bytes) : nat := 3 * length w + 1.

Definition merge_word_st (tbl : table) (w : bytes) : option (list bytes * list (option N)) :=
  merge_loop tbl (word_fuel w) (map (fun b => [b]) w) (map Some w) (init_heap tbl 0 w).

Definition merge_word (tbl : table) (w : bytes) : option (list N) :=
  option_map (fun r => flatten_ids (snd r)) (merge_word_st tbl w).

(** ** The loop as it stood at the pinned commit (defect D1): the neighbour entries
    are computed from the vectors BEFORE the merge is applied, so the id recorded
    for slot [fi] is the old one, and the loop is left after the first merge that
    pushes nothing. Kept only for [merge_word_pinned_refuted]. *)
Fixpoint merge_loop_pinned (tbl : table) (fuel : nat) (bs : list bytes) (ids : list (option N)) (h : list entry)
  : option (list (option N)) :=
  match fuel with
  | O => None
  | S f =>
    match pop_max h with
    | None => Some ids
    | Some (e, h') =>
      if fresh ids e then
        let p1 := push_prev tbl bs ids (e_fi e) (e_mg e) in
        let p2 := push_next tbl bs ids (e_fi e) (e_si e) (e_mg e) in
        let bs' := upd (e_si e) [] (upd (e_fi e) (e_mg e) bs) in
        let ids' := upd (e_si e) None (upd (e_fi e) (Some (256 + e_mid e)) ids) in
        if is_nil p1 && is_nil p2 then Some ids'
        else merge_loop_pinned tbl f bs' ids' (p2 ++ p1 ++ h')
      else merge_loop_pinned tbl f bs ids h'
    end
  end.
Definition merge_word_pinned (tbl : table) (w : bytes) : option (list N) :=
  option_map flatten_ids
    (merge_loop_pinned tbl (word_fuel w) (map (fun b => [b]) w) (map Some w) (init_heap tbl 0 w)).

(** ** The reference: naive canonical BPE on a list of tokens (byte strings).
    [best] = the mergeable adjacent pair with the least (merge id, position). *)
Fixpoint best (tbl : table) (pos : nat) (ts : list bytes) : option (N * nat) :=
  match ts with
  | [] => None
  | x :: r =>
    match r with
    | [] => None
    | y :: _ =>
      match lookup tbl (x ++ y), best tbl (S pos) r with
      | Some m, Some (m', p') => if m' <? m then Some (m', p') else Some (m, pos)
      | Some m, None => Some (m, pos)
      | None, o => o
      end
    end
  end.

Fixpoint merge_at (p : nat) (ts : list bytes) : list bytes :=
  match p, ts with
  | O, x :: y :: r => (x ++ y) :: r
  | S p', x :: r => x :: merge_at p' r
  | _, _ => ts
  end.

Fixpoint canon_fuel (tbl : table) (fuel : nat) (ts : list bytes) : list bytes :=
  match fuel with
  | O => ts
  | S f => match best tbl 0 ts with
           | None => ts
           | Some (_, p) => canon_fuel tbl f (merge_at p ts)
           end
  end.
(** every merge shortens the list by one, so [length ts] steps always suffice
    ([canon_maximal]: nothing is mergeable in the result) *)
Definition canon (tbl : table) (ts : list bytes) : list bytes := canon_fuel tbl (length ts) ts.

(** token id of a token's byte string *)
Definition id_of (tbl : table) (b : bytes) : N :=
  match b with
  | [x] => x
  | _ => match lookup tbl b with Some m => 256 + m | None => 0 end
  end.
Definition canon_ids (tbl : table) (w : bytes) : list N :=
  map (id_of tbl) (canon tbl (map (fun b => [b]) w)).

(** ** Word splitting: [find_iter] of [\s+\S+|^\S+] as a scanner.
    [cur] = the match being built, [seen] = it already contains a non-whitespace
    character. A trailing whitespace run is never completed into a match. *)
Fixpoint scan_words (cur : str) (seen : bool) (s : str) : list str :=
  match s with
  | [] => if seen then [cur] else []
  | c :: r =>
    if is_ws c then (if seen then cur :: scan_words [c] false r else scan_words (cur ++ [c]) false r)
    else scan_words (cur ++ [c]) true r
  end.
Definition bpe_words (s : str) : list str := scan_words [] false s.

Fixpoint strip_trailing_ws (s : str) : str :=
  match s with
  | [] => []
  | c :: r => match strip_trailing_ws r with
              | [] => if is_ws c then [] else [c]
              | r' => c :: r'
              end
  end.

(** ** Tokenizer configuration, [tokenize], [de_tokenize] (special tokens ignored) *)
Fixpoint uniq (seen : list str) (l : list str) : list str :=
  match l with
  | [] => []
  | x :: r => if existsb (nlist_eqb x) seen then uniq seen r else x :: uniq (x :: seen) r
  end.
Fixpoint index_of (x : str) (l : list str) (k : N) : option N :=
  match l with
  | [] => None
  | y :: r => if nlist_eqb y x then Some k else index_of x r (N.succ k)
  end.

Record config := Cfg {
  c_tbl : table;              (* the merge file, id order *)
  c_max : option N;           (* max_vocab_size *)
  c_toks : list str;          (* special_config.tokens; pad = first *)
  c_prefix : list str;
  c_suffix : list str }.

(** [merge_ops.retain(|_, id| id < limit)], [limit = max - tokens.len() - 256] saturating *)
Definition eff_table (c : config) : table :=
  match c_max c with
  | None => c_tbl c
  | Some m => firstn (N.to_nat (m - N.of_nat (length (c_toks c)) - 256)) (c_tbl c)
  end.
Definition n_regular (c : config) : N := 256 + N.of_nat (length (eff_table c)).
Definition special_id (c : config) (t : str) : option N :=
  option_map (N.add (n_regular c)) (index_of t (uniq [] (c_toks c)) 0).
Fixpoint all_some {A} (l : list (option A)) : option (list A) :=
  match l with
  | [] => Some []
  | None :: _ => None
  | Some x :: r => option_map (cons x) (all_some r)
  end.
Definition vocab_size (c : config) : N := n_regular c + N.of_nat (length (uniq [] (c_toks c))).

(** ids of the words of [s], concatenated; [None] only if a word ran out of fuel *)
Definition bpe_body (tbl : table) (s : str) : option (list N) :=
  option_map (@concat N) (all_some (map (fun w => merge_word tbl (utf8s w)) (bpe_words s))).

(** [BPETokenizer::new] + [tokenize(s, true)]: [None] = constructor error
    (pad / prefix / suffix token not among the special tokens) *)
Definition bpe_tokenize (c : config) (s : str) : option (list N) :=
  match c_toks c, all_some (map (special_id c) (c_prefix c)), all_some (map (special_id c) (c_suffix c)),
        bpe_body (eff_table c) s with
  | _ :: _, Some pre, Some suf, Some body => Some (pre ++ body ++ suf)
  | _, _, _, _ => None
  end.

(** [de_tokenize(ids, true)]: regular ids index [reverse_merge_ops], others are skipped *)
Definition tok_bytes (tbl : table) (id : N) : bytes :=
  if id <? 256 then [id] else nth (N.to_nat (id - 256)) tbl [].
Definition bpe_decode (tbl : table) (ids : list N) : bytes :=
  flat_map (fun id => if id <? 256 + N.of_nat (length tbl) then tok_bytes tbl id else []) ids.

(** premise of the theorems: the text consists of Unicode scalar values (so that every
    UTF-8 byte is below 256); a Rust [&str] always does *)
Definition valid_cp (c : N) : Prop := c < 1114112.

(** ** val glue shared by C02 / C03 *)
Definition v_bytes (v : val) : bytes := v_list v_n v.
Definition v_table (v : val) : table := v_list v_bytes v.
Definition v_str (v : val) : str := v_list v_n v.

(** C18 with [str::to_lowercase] inside the model (UCD_Model): [match_words(a, b, ignore_case)] computed
    from the raw texts.  Definitions only.

    The code compares [a_word.to_lowercase() == b_word.to_lowercase()] for every pair of words
    ([str_match_fn], src/text.rs:63-69): the word relation is [UCD_Model.ci_eqb].  [match_words_ic] is that,
    literally; [run_C18u] lower-cases every word once and matches the keys with [str_eqb]
    ([C18_LowerProofs.match_keys_map]: the same result).  The lower-cased words the harness still sends
    (fields 3, 4 of the input, [str::to_lowercase] of the real std) are no longer used by [run] / [check]:
    they are a cross-check in [agree_C18u]. *)
From TU Require Import Base C18_Model UCD_Model.

(** [match_words(a, b, ignore_case)], the relation applied pair by pair as in the code *)
Definition word_rel (ic : bool) : str -> str -> bool := if ic then ci_eqb else str_eqb.
Definition match_words_ic (a b : str) (ic : bool) : option (list (nat * nat) * nat * nat) :=
  let wa := split_ascii_ws a in
  let wb := split_ascii_ws b in
  match match_keys (word_rel ic) wa wb with
  | Some m => Some (m, length wa, length wb)
  | None => None
  end.

(** the keys the matching runs on *)
Definition keys_of (ic : bool) (ws : list str) : list str := if ic then map to_lowercase ws else ws.

(** input  = (a b ic la lb)  as before; la, lb (the oracle) are ignored here
    output = (m na nb mx ea eb) as before *)
Definition run_C18u (v : val) : val :=
  let wa := split_ascii_ws (v_str (v_nth 0 v)) in
  let wb := split_ascii_ws (v_str (v_nth 1 v)) in
  let ic := v_bool (v_nth 2 v) in
  match match_keys str_eqb (keys_of ic wa) (keys_of ic wb), match_keys str_eqb wa wb with
  | Some m, Some mx =>
    let e := edited_of mx (length wa) (length wb) in
    L [list_v pairv m; nat_v (length wa); nat_v (length wb); list_v pairv mx;
       list_v nat_v (fst e); list_v nat_v (snd e)]
  | _, _ => v_err
  end.

Definition check_C18u (v out : val) : bool :=
  let wa := split_ascii_ws (v_str (v_nth 0 v)) in
  let wb := split_ascii_ws (v_str (v_nth 1 v)) in
  let ic := v_bool (v_nth 2 v) in
  let m := v_list v_pair (v_nth 0 out) in
  let mx := v_list v_pair (v_nth 3 out) in
  shape6 out
  (* the matching: increasing, related under the model's own word relation, optimal *)
  && lcs_matchingb str_eqb (keys_of ic wa) (keys_of ic wb) m
  && Z.eqb (v_z (v_nth 1 out)) (Z.of_nat (length wa))
  && Z.eqb (v_z (v_nth 2 out)) (Z.of_nat (length wb))
  && lcs_matchingb str_eqb wa wb mx
  && natlist_eqb (v_list v_nat (v_nth 4 out)) (complement (length wa) (map fst mx))
  && natlist_eqb (v_list v_nat (v_nth 5 out)) (complement (length wb) (map snd mx)).

(** the oracle words of the harness = the model's lower-casing of its own words *)
Fixpoint strs_eqb (a b : list str) : bool :=
  match a, b with
  | [], [] => true
  | x :: a', y :: b' => str_eqb x y && strs_eqb a' b'
  | _, _ => false
  end.
Definition lower_oracle_ok (v : val) : bool :=
  if v_bool (v_nth 2 v) then
    strs_eqb (v_list v_str (v_nth 3 v)) (map to_lowercase (split_ascii_ws (v_str (v_nth 0 v))))
    && strs_eqb (v_list v_str (v_nth 4 v)) (map to_lowercase (split_ascii_ws (v_str (v_nth 1 v))))
  else true.
Definition agree_C18u (inp m i : val) : bool := val_eqb m i && lower_oracle_ok inp.

(** C20 with the file readers, the query normalisation and the key segmentation inside the model
    (third session, topic M items 1 and 3).  Definitions only.

    [Dictionary::create] (src/dictionary.rs:78-85) reads every file with
        LossyUtf8Reader::new(BufReader::new(file)).lines().map_while(Result::ok)        (repaired, D16)
    — [read_until(b'\n')], strip "\n" and one "\r" before it, [String::from_utf8_lossy]: [Lines_Model.lossy_lines]
    (the reader of the data loader, modelled and pinned for C07/C08 in Lines_Props.v).  The pinned tree read with
        BufReader::new(file).lines().map_while(Result::ok)
    — [BufRead::lines] yields [Err(InvalidData)] for a line that is not UTF-8 and [map_while] ENDS THE FILE there,
    silently: [C19_Lines.dict_read] ([file_lines_pinned], kept for [reader_pinned_truncates]).

    A file now enters the model as its BYTES.  Input format (everything else as in C20_Model.v / C20_Words.v):
      files   = list of (fbytes lines)     fbytes: the bytes written to disk; lines: list of (raw words) — the ORACLE:
                what a lossy std reading of the bytes gives (raw = code points of the line) and the words of the real
                crate on it.  [prep] replaces the oracle lines by the model's own reading of [fbytes]; the oracle
                is compared in [reader_agree] (lines) and [ucd_agree] (words).
      dfile   = bytes of the dictionary file, ARBITRARY bytes: [Dictionary::load] reads with [BufRead::lines] and
                [line?], so a line that is not UTF-8 is an error ([load_b]).
      segs    = oracle (the real [CharString::split] on candidate keys); [prep] replaces it by [segs_of_dict]
                = the model's own segmentation of every key of the loaded dictionary, which covers by construction.
      queries = list of (raw norm nq qclusters): nq / qclusters are oracles (the real [normalize] and [CharString]);
                [prep] replaces them by [norm_query raw] and its [seg_bytes]; compared in [query_agree]. *)
From TU Require Import Base C20_Model UCD_Model.
From TU Require Import UAX29_Model NFKC_Model NFKC_Tie.
From TU Require C01_Model C12_Model Lines_Model C19_Lines.
From Coq Require Import QArith.
From TU Require Import Base C20_Model UCD_Model C20_Words.
Open Scope N_scope.

(** * the readers *)
Definition file_lines (bs : bytes) : list str := Lines_Model.lossy_lines bs.
Definition file_lines_pinned (bs : bytes) : list str := C19_Lines.dict_read bs.

(** [Dictionary::create] on the bytes of the files *)
Definition create_bytes (chars : bool) (cg : N) (max_size max_seq : option N) (files : list bytes)
           (arr hp : list nat) : res dict :=
  create_raw chars cg max_size max_seq (flat_map file_lines files) arr hp.
Definition create_bytes_pinned (chars : bool) (cg : N) (max_size max_seq : option N) (files : list bytes)
           (arr hp : list nat) : res dict :=
  create_raw chars cg max_size max_seq (flat_map file_lines_pinned files) arr hp.

(** * [Dictionary::load] on arbitrary bytes: [for line in lines() { let line = line?; .. }] — an error as soon as a
    line is not UTF-8; a malformed line before it is an error as well, so the result is [None] iff some line is
    not UTF-8 or [load] fails *)
Definition line_decodes (l : bytes) : bool :=
  match C01_Model.utf8_decode l with Some _ => true | None => false end.
Definition load_b (file : bytes) : option dict :=
  if forallb line_decodes (lines_of file) then load file else None.
(** a dictionary file [load] rejects ("x": one field) *)
Definition bad_dfile : bytes := [120].

(** * the segmentation of the keys, by the model *)
Definition seg_key (k : word) : list bytes :=
  match C01_Model.utf8_decode k with
  | Some t => seg_bytes t
  | None => map (fun b => [b]) k      (* not reached for a Rust String; keeps [concat (seg_key k) = k] unconditional *)
  end.
Definition segs_of_dict (d : dict) : list (list bytes) := map (fun e : word * N => seg_key (fst e)) d.

(** [get_closest] over Q with the model's own key segmentation — no oracle ([closest] with the oracle [segs_of_dict] is
    this function: C20_BytesProofs.closest_segs_of_dict; the binary64 version [C20_Float.closest_fl] is proved equal to it) *)
Definition kdist_m (norm : bool) (q : list bytes) (e : word * N) : Q := C12_Model.distance nofl norm q (seg_key (fst e)).
Definition closest_m (norm : bool) (q : list bytes) (d : dict) : cres :=
  match d with
  | [] => CNone
  | _ => match pass1 (map (fun e => (kdist_m norm q e, e)) d) None [] with
         | [] => CNone
         | t :: ts => CSome (pass2 t ts)
         end
  end.

(** * the query as [get] / [get_closest] see it: [normalize(s, NFKC, true)] *)
Definition norm_query (raw : str) : str := NFKC_Model.normalize_model NFKC_Model.NFKC true raw.

(** * val glue *)
Definition str_v (s : str) : val := list_v n_v s.
Definition file_bytes_of (f : val) : bytes := v_bytes (v_nth 0 f).
Definition in_fbytes (v : val) : list bytes := map file_bytes_of (v_list (fun x => x) (v_nth 1 v)).

Definition prep_file (f : val) : val :=
  L [v_nth 0 f; list_v (fun raw : str => L [str_v raw; L []]) (file_lines (file_bytes_of f))].
Definition prep_query (q : val) : val :=
  let nq := norm_query (v_cps (v_nth 0 q)) in
  L [v_nth 0 q; v_nth 1 q; bytes_v (utf8s nq); list_v bytes_v (seg_bytes nq)].
Definition prep_dfile (b : bytes) : bytes := if forallb line_decodes (lines_of b) then b else bad_dfile.
Definition prep_segs (b : bytes) : list (list bytes) :=
  match load (prep_dfile b) with Some d => segs_of_dict d | None => [] end.

(** the input as C20_Words.v knows it (oracle words empty: [modelize] fills them in), everything computed by the
    model from the bytes of the files, the bytes of the dictionary file and the raw queries *)
Definition prep (v : val) : val :=
  L [ v_nth 0 v;
      list_v prep_file (v_list (fun x => x) (v_nth 1 v));
      v_nth 2 v;
      bytes_v (prep_dfile (in_dfile v));
      list_v (list_v bytes_v) (prep_segs (in_dfile v));
      list_v prep_query (v_list (fun x => x) (v_nth 5 v)) ].

(** the same without the queries: what the extracted pipeline hands to [run_C20] / [check_C20] / [agree_C20] for the
    [create], save / load and [load] parts; the queries are answered and judged at the float level (C20_Float.v) with
    [closest_m] / [check_closest_m], which need no oracle look-up *)
Definition prep0 (v : val) : val :=
  L [ v_nth 0 v;
      list_v prep_file (v_list (fun x => x) (v_nth 1 v));
      v_nth 2 v;
      bytes_v (prep_dfile (in_dfile v));
      list_v (list_v bytes_v) (prep_segs (in_dfile v));
      L [] ].
Definition prep_queries (v : val) : list query := map v_query (map prep_query (v_list (fun x => x) (v_nth 5 v))).

(** [check_closest] with the model's own key segmentation instead of the oracle look-up: is the answer [a] to the
    query [q] right for the dictionary [d]? (an entry of [d] at minimal [kdist_m], none at that distance more frequent;
    the empty answer exactly on the empty dictionary) *)
Definition check_closest_m (d : dict) (q : query) (a : val) : bool :=
  match d with
  | [] => match a with L [_; L []] => true | _ => false end
  | _ =>
    let l := map (fun e => (kdist_m (fst q) (snd (snd q)) e, e)) d in
    match a with
    | L [_; L [L [w; I f]]] =>
      let w := v_bytes w in
      let f := Z.to_N f in
      match find (fun p : Q * (word * N) => bytes_eqb (fst (snd p)) w && (snd (snd p) =? f)) l with
      | None => false
      | Some (dw, _) =>
        forallb (fun p : Q * (word * N) =>
                   Qle_bool dw (fst p) && (if Qeq_bool (fst p) dw then snd (snd p) <=? f else true)) l
      end
    | _ => false
    end
  end.

Definition run_C20b (v : val) : val := run_C20u (prep v).
Definition check_C20b (v out : val) : bool := check_C20u (prep v) out.

(** * the oracles against the model *)
Fixpoint strs_eqb (a b : list str) : bool :=
  match a, b with
  | [], [] => true
  | x :: a', y :: b' => nlist_eqb x y && strs_eqb a' b'
  | _, _ => false
  end.
(** the lines a lossy reading with the std gives are the model's lines of the bytes *)
Definition reader_agree (v : val) : bool :=
  forallb (fun f => strs_eqb (file_lines (file_bytes_of f)) (v_list line_raw (v_nth 1 f)))
          (v_list (fun x => x) (v_nth 1 v)).
(** the real [normalize] of a query and the real clusters of the result are the model's *)
Definition query_agree (v : val) : bool :=
  forallb (fun q => let nq := norm_query (v_cps (v_nth 0 q)) in
                    bytes_eqb (utf8s nq) (v_bytes (v_nth 2 q))
                    && bl_eqb (seg_bytes nq) (v_list v_bytes (v_nth 3 q)))
          (v_list (fun x => x) (v_nth 5 v)).

Definition agree_C20b (v m i : val) : bool :=
  agree_C20 (modelize (prep v)) m i && uax29_agree v && ucd_agree v && reader_agree v && query_agree v.

(** C15 model: corrupt::edit_word and the context-table providers
    InsertEdits / ReplaceEdits (src/corrupt.rs), as chained by corrupt_spelling
    (src/data/preprocessing.rs).

    A word is a list of clusters (code-point mode: singletons; grapheme mode:
    the real segmentation, an input). The random generator is not modelled:
    [choices] is the finite set of edits one call of [edit_word] can make over
    all rng values, [outcomes] the resulting (word, exclusion set) pairs.
    Per-position predicates ([can_delete], [can_swap]: Unicode class tests in
    the code) are inputs. Definitions only. *)
From TU Require Import Base.

Definition word := list cluster.

(** "<bow>" and "<eow>" *)
Definition bow : str := [60;98;111;119;62]%N.
Definition eow : str := [60;101;111;119;62]%N.

(** one edit string of a table entry: its clusters (segmentation of the string on
    its own, as [CS::new(insertion, use_graphemes)] sees it) and "weight > 0" *)
Definition edit := (list cluster * bool)%type.
Definition ins_entry := (str * str * list edit)%type.          (* (prev, cur) -> edits *)
Definition rep_entry := (str * str * str * list edit)%type.    (* (prev, cur, next) -> edits *)

Fixpoint ins_lookup (t : list ins_entry) (p s : str) : option (list edit) :=
  match t with
  | [] => None
  | (p', s', es) :: t' =>
      if nlist_eqb p p' && nlist_eqb s s' then Some es else ins_lookup t' p s
  end.

Fixpoint rep_lookup (t : list rep_entry) (p s n : str) : option (list edit) :=
  match t with
  | [] => None
  | (p', s', n', es) :: t' =>
      if nlist_eqb p p' && nlist_eqb s s' && nlist_eqb n n' then Some es else rep_lookup t' p s n
  end.

(** result of a provider call: [Overflow] = the [idx - 1] of the pinned code at
    index 0 (panic with overflow checks); [EmptyWord] = the deliberate
    [expect("cannot replace empty string")] *)
Inductive ctx_res := Overflow | EmptyWord | Found (o : option (list edit)).

(** [cs.get(i).unwrap_or(d)] *)
Definition get_or (w : word) (i : nat) (d : str) : str :=
  match nth_error w i with Some c => c | None => d end.

(** [idx.checked_sub(1).and_then(|i| cs.get(i)).unwrap_or("<bow>")] *)
Definition prev_ctx (w : word) (i : nat) : str :=
  match i with 0 => bow | S j => get_or w j bow end.

(** InsertEdits::get_edits, repaired arithmetic *)
Definition ins_ctx (t : list ins_entry) (w : word) (idx : nat) : ctx_res :=
  let i := Nat.min idx (length w) in
  Found (ins_lookup t (prev_ctx w i) (get_or w i eow)).

(** ReplaceEdits::get_edits, repaired arithmetic *)
Definition rep_ctx (t : list rep_entry) (w : word) (idx : nat) : ctx_res :=
  let i := Nat.min idx (Nat.pred (length w)) in
  match nth_error w i with
  | None => EmptyWord
  | Some s => Found (rep_lookup t (prev_ctx w i) s (get_or w (S i) eow))
  end.

(** the arithmetic of the pinned commit: [cs.get(idx - 1)] on usize *)
Definition ins_ctx_pinned (t : list ins_entry) (w : word) (idx : nat) : ctx_res :=
  let i := Nat.min idx (length w) in
  match i with
  | 0 => Overflow
  | S j => Found (ins_lookup t (get_or w j bow) (get_or w i eow))
  end.

Definition rep_ctx_pinned (t : list rep_entry) (w : word) (idx : nat) : ctx_res :=
  let i := Nat.min idx (Nat.pred (length w)) in
  match i with
  | 0 => Overflow
  | S j =>
    match nth_error w i with
    | None => EmptyWord
    | Some s => Found (rep_lookup t (get_or w j bow) s (get_or w (S i) eow))
    end
  end.

(** * One edit *)
Inductive ed :=
| ESame
| EIns (idx : nat) (e : list cluster)
| EDel (idx : nat)
| ERep (idx : nat) (e : list cluster)
| ESwap (idx : nat).

(** re-indexing of an old position *)
Definition shift_of (k : ed) (p : nat) : nat :=
  match k with
  | ESame | ESwap _ => p
  | EIns i e => if i <=? p then p + length e else p
  | EDel i => if i <? p then p - 1 else p
  | ERep i e => if i <? p then p + length e - 1 else p
  end.

(** positions of the new word that the edit wrote *)
Definition new_pos (k : ed) : list nat :=
  match k with
  | ESame | EDel _ => []
  | EIns i e | ERep i e => seq i (length e)
  | ESwap i => [i; S i]
  end.

(** positions of the old word that the edit consumed *)
Definition old_pos (k : ed) : list nat :=
  match k with
  | ESame | EIns _ _ => []
  | EDel i | ERep i _ => [i]
  | ESwap i => [i; S i]
  end.

Definition apply_word (k : ed) (w : word) : word :=
  match k with
  | ESame => w
  | EIns i e => firstn i w ++ e ++ skipn i w
  | EDel i => firstn i w ++ skipn (S i) w
  | ERep i e => firstn i w ++ e ++ skipn (S i) w
  | ESwap i => match skipn i w with a :: b :: r => firstn i w ++ b :: a :: r | _ => w end
  end.

(** the exclusion set is a set: lists are compared modulo order and repetition *)
Definition apply_excl (k : ed) (ex : list nat) : list nat :=
  match k with
  | ESame => ex
  | _ => map (shift_of k) ex ++ new_pos k
  end.

Definition apply_ed (w : word) (ex : list nat) (k : ed) : word * list nat :=
  (apply_word k w, apply_excl k ex).

(** * The choices of one [edit_word] call *)
Definition mem (i : nat) (ex : list nat) : bool := existsb (Nat.eqb i) ex.

Record cfg := {
  k_ins : bool; k_del : bool; k_rep : bool; k_swap : bool;
  full_del : bool;
  itab : list ins_entry;
  rtab : list rep_entry }.

(** candidate contexts in index order; [None] if a provider call faults *)
Fixpoint collect (prov : nat -> ctx_res) (idxs : list nat) : option (list (nat * list edit)) :=
  match idxs with
  | [] => Some []
  | i :: r =>
    match prov i with
    | Found (Some es) => option_map (cons (i, es)) (collect prov r)
    | Found None => collect prov r
    | _ => None
    end
  end.

(** edits that [WeightedIndex] can return *)
Definition pos_edits (es : list edit) : list (list cluster) := map fst (filter snd es).

Definition ins_idxs (w : word) (ex : list nat) : list nat :=
  filter (fun i => negb (mem i ex || (0 <? i) && mem (i - 1) ex)) (seq 0 (S (length w))).

Definition ins_choices (prov : nat -> ctx_res) (w : word) (ex : list nat) : option (list ed) :=
  match collect prov (ins_idxs w ex) with
  | None => None
  | Some [] => Some [ESame]
  | Some cands => Some (flat_map (fun c => map (EIns (fst c)) (pos_edits (snd c))) cands)
  end.

(** DeleteEdits::can_edit *)
Definition del_ok (fd : bool) (cd : list bool) (w : word) (i : nat) : bool :=
  if negb fd && (length w <=? 1) then false else nth i cd false.

Definition del_idxs (fd : bool) (cd : list bool) (w : word) (ex : list nat) : list nat :=
  filter (fun i => negb (mem i ex) && del_ok fd cd w i) (seq 0 (length w)).

Definition del_choices (fd : bool) (cd : list bool) (w : word) (ex : list nat) : list ed :=
  match del_idxs fd cd w ex with [] => [ESame] | l => map EDel l end.

Definition rep_idxs (w : word) (ex : list nat) : list nat :=
  filter (fun i => negb (mem i ex)) (seq 0 (length w)).

Definition rep_choices (prov : nat -> ctx_res) (w : word) (ex : list nat) : option (list ed) :=
  match collect prov (rep_idxs w ex) with
  | None => None
  | Some [] => Some [ESame]
  | Some cands => Some (flat_map (fun c => map (ERep (fst c)) (pos_edits (snd c))) cands)
  end.

Definition swap_idxs (cs : list bool) (w : word) (ex : list nat) : list nat :=
  filter (fun i => negb (mem i ex || mem (S i) ex) && nth i cs false) (seq 0 (length w - 1)).

Definition swap_choices (cs : list bool) (w : word) (ex : list nat) : list ed :=
  if 1 <? length w then
    match swap_idxs cs w ex with [] => [ESame] | l => map ESwap l end
  else [ESame].

Definition opt_app {A} (a b : option (list A)) : option (list A) :=
  match a, b with Some x, Some y => Some (x ++ y) | _, _ => None end.

(** all edits over all rng values; [None] = some enabled branch can fault.
    [cd]: can_delete per position, [cs]: can_swap per adjacent pair. *)
Definition choices_gen (ip : list ins_entry -> word -> nat -> ctx_res)
                       (rp : list rep_entry -> word -> nat -> ctx_res)
                       (c : cfg) (cd cs : list bool) (w : word) (ex : list nat) : option (list ed) :=
  if negb (k_ins c || k_del c || k_rep c || k_swap c) then Some [ESame]
  else
    opt_app (if k_ins c then ins_choices (ip (itab c) w) w ex else Some [])
   (opt_app (Some (if k_del c then del_choices (full_del c) cd w ex else []))
   (opt_app (if k_rep c then rep_choices (rp (rtab c) w) w ex else Some [])
            (Some (if k_swap c then swap_choices cs w ex else [])))).

Definition choices := choices_gen ins_ctx rep_ctx.
Definition choices_pinned := choices_gen ins_ctx_pinned rep_ctx_pinned.

Definition outcomes (c : cfg) (cd cs : list bool) (w : word) (ex : list nat) : option (list (word * list nat)) :=
  option_map (map (apply_ed w ex)) (choices c cd cs w ex).
Definition outcomes_pinned (c : cfg) (cd cs : list bool) (w : word) (ex : list nat) :=
  option_map (map (apply_ed w ex)) (choices_pinned c cd cs w ex).

(** [k] chained calls, each fed the word and exclusion set the previous one
    returned (the per-position predicates of the intermediate words are arbitrary) *)
Inductive chain (c : cfg) : nat -> word * list nat -> word * list nat -> Prop :=
| chain_0 : forall s, chain c 0 s s
| chain_S : forall n w ex cd cs l o s',
    outcomes c cd cs w ex = Some l -> In o l -> chain c n o s' -> chain c (S n) (w, ex) s'.

(** * Prop-level description of an allowed edit *)
Definition in_range (w : word) (ex : list nat) : Prop := Forall (fun p => p < length w) ex.

Definition valid_ed (c : cfg) (w : word) (ex : list nat) (k : ed) : Prop :=
  match k with
  | ESame => True
  | EIns i e =>
      k_ins c = true /\ i <= length w /\ ~ In i ex /\ (0 < i -> ~ In (i - 1) ex) /\
      exists es, ins_lookup (itab c) (prev_ctx w i) (get_or w i eow) = Some es /\ In (e, true) es
  | EDel i => k_del c = true /\ i < length w /\ ~ In i ex
  | ERep i e =>
      k_rep c = true /\ i < length w /\ ~ In i ex /\
      exists s es, nth_error w i = Some s /\
                   rep_lookup (rtab c) (prev_ctx w i) s (get_or w (S i) eow) = Some es /\ In (e, true) es
  | ESwap i => k_swap c = true /\ S i < length w /\ ~ In i ex /\ ~ In (S i) ex
  end.

(** the characters at unprotected positions, in order *)
Fixpoint unprot_from (i : nat) (w : word) (ex : list nat) : list cluster :=
  match w with
  | [] => []
  | c :: r => if mem i ex then unprot_from (S i) r ex else c :: unprot_from (S i) r ex
  end.
Definition unprot (w : word) (ex : list nat) : list cluster := unprot_from 0 w ex.

(** [subseq a b]: [a] is obtained from [b] by deleting elements *)
Inductive subseq : list cluster -> list cluster -> Prop :=
| sub_nil : subseq [] []
| sub_take : forall x a b, subseq a b -> subseq (x :: a) (x :: b)
| sub_skip : forall x a b, subseq a b -> subseq a (x :: b).

(** length of the new word [n'] from the length of the old one [n] *)
Definition len_spec (k : ed) (n n' : nat) : Prop :=
  match k with
  | ESame | ESwap _ => n' = n
  | EIns _ e => n' = n + length e
  | EDel _ => S n' = n
  | ERep _ e => S n' = n + length e
  end.

(** * Executable statement of the property, evaluated on implementation outputs.
    It does not use the context lookup, the can_delete/can_swap predicates, the
    weights or the adjacency rule for insertions: only what the property says. *)
Definition set_eqb (a b : list nat) : bool :=
  forallb (fun x => mem x b) a && forallb (fun x => mem x a) b.

Definition ocl_eqb (a b : option cluster) : bool :=
  match a, b with
  | Some x, Some y => nlist_eqb x y
  | None, None => true
  | _, _ => false
  end.

Fixpoint cls_eqb (a b : list cluster) : bool :=
  match a, b with
  | [], [] => true
  | x :: a', y :: b' => nlist_eqb x y && cls_eqb a' b'
  | _, _ => false
  end.

Definition itab_strings (t : list ins_entry) : list (list cluster) :=
  flat_map (fun en => map fst (snd en)) t.
Definition rtab_strings (t : list rep_entry) : list (list cluster) :=
  flat_map (fun en => map fst (snd en)) t.

(** code-point mode: every cluster is one code point *)
Definition singles (w : word) : Prop := Forall (fun c : cluster => length c = 1) w.
Definition cp_cfg (c : cfg) : Prop :=
  (forall e, In e (itab_strings (itab c)) -> singles e) /\
  (forall e, In e (rtab_strings (rtab c)) -> singles e).

Definition spec_cands (c : cfg) (w : word) (ex : list nat) : list ed :=
  ESame ::
  (if k_ins c then flat_map (fun i => map (EIns i) (itab_strings (itab c))) (seq 0 (S (length w))) else []) ++
  (if k_del c then map EDel (rep_idxs w ex) else []) ++
  (if k_rep c then flat_map (fun i => map (ERep i) (rtab_strings (rtab c))) (rep_idxs w ex) else []) ++
  (if k_swap c then map ESwap (filter (fun i => negb (mem i ex || mem (S i) ex)) (seq 0 (length w - 1))) else []).

(** [k] explains the returned pair: same text, same exclusion set, and every
    protected character reappears unchanged at its re-indexed position of the
    returned word's own segmentation [w'] *)
Definition explains (w : word) (ex : list nat) (w' : word) (ex' : list nat) (k : ed) : bool :=
  nlist_eqb (concat (apply_word k w)) (concat w')
  && set_eqb (apply_excl k ex) ex'
  && forallb (fun p => negb (p <? length w) || ocl_eqb (nth_error w' (shift_of k p)) (nth_error w p)) ex.

Definition in_rangeb (w : word) (ex : list nat) : bool := forallb (fun p => p <? length w) ex.

Definition step_check (c : cfg) (w : word) (ex : list nat) (w' : word) (ex' : list nat) : bool :=
  (negb (in_rangeb w ex) || in_rangeb w' ex')
  && existsb (explains w ex w' ex') (spec_cands c w ex).

(** * val glue
    input  = (g kinds fd pm itab rtab seed steps)
             kinds = (ins del rep swap); pm = predicate mode of the harness (unused here)
             itab  = ((prev cur ((clusters pos) ...)) ...), rtab = ((prev cur next (...)) ...)
             steps = ((w ex cd cs) ...): word clusters, exclusion set, can_delete per
                     position, can_swap per adjacent pair, for every call of the chain
    output = (probe chain)
             probe = for idx in 0..len+1 of the first word: (ins_result rep_result)
             chain = ((w' ex') ...) with w' the real segmentation of the returned word *)
Definition v_str (v : val) : str := v_list v_n v.
Definition v_cls (v : val) : list cluster := v_list v_str v.
Definition v_edit (v : val) : edit := (v_cls (v_nth 0 v), v_bool (v_nth 1 v)).
Definition v_ient (v : val) : ins_entry :=
  (v_str (v_nth 0 v), v_str (v_nth 1 v), v_list v_edit (v_nth 2 v)).
Definition v_rent (v : val) : rep_entry :=
  (v_str (v_nth 0 v), v_str (v_nth 1 v), v_str (v_nth 2 v), v_list v_edit (v_nth 3 v)).

Definition v_cfg (v : val) : cfg :=
  let ks := v_nth 1 v in
  {| k_ins := v_bool (v_nth 0 ks); k_del := v_bool (v_nth 1 ks);
     k_rep := v_bool (v_nth 2 ks); k_swap := v_bool (v_nth 3 ks);
     full_del := v_bool (v_nth 2 v);
     itab := v_list v_ient (v_nth 4 v);
     rtab := v_list v_rent (v_nth 5 v) |}.

Record step := { s_w : word; s_ex : list nat; s_cd : list bool; s_cs : list bool }.
Definition v_step (v : val) : step :=
  {| s_w := v_cls (v_nth 0 v); s_ex := v_list v_nat (v_nth 1 v);
     s_cd := v_list v_bool (v_nth 2 v); s_cs := v_list v_bool (v_nth 3 v) |}.
Definition v_steps (v : val) : list step := v_list v_step (v_nth 7 v).
Definition first_word (ss : list step) : word := match ss with [] => [] | s :: _ => s_w s end.

Definition edit_out (e : edit) : val := L [list_v n_v (concat (fst e)); bool_v (snd e)].
Definition res_v (r : ctx_res) : val :=
  match r with
  | Overflow => I (-1)%Z
  | EmptyWord => I (-2)%Z
  | Found None => L []
  | Found (Some es) => L [list_v edit_out es]
  end.
Definition probe (c : cfg) (w : word) : val :=
  list_v (fun i => L [res_v (ins_ctx (itab c) w i); res_v (rep_ctx (rtab c) w i)])
         (seq 0 (length w + 2)).

Definition outcome_v (o : word * list nat) : val :=
  L [list_v (list_v n_v) (fst o); list_v nat_v (snd o)].

Definition run_edit (v : val) : val :=
  let c := v_cfg v in
  let ss := v_steps v in
  L [ probe c (first_word ss);
      list_v (fun s => opt_v (list_v outcome_v) (outcomes c (s_cd s) (s_cs s) (s_w s) (s_ex s))) ss ].

(** membership of one implementation result in the outcome set; [strict]: words
    compared as cluster lists, otherwise as texts *)
Definition step_agree (strict : bool) (c : cfg) (s : step) (o : val) : bool :=
  match o with
  | L [wv; exv] =>
    let w' := v_cls wv in
    let ex' := v_list v_nat exv in
    match outcomes c (s_cd s) (s_cs s) (s_w s) (s_ex s) with
    | Some l =>
        existsb (fun m => (if strict then cls_eqb (fst m) w'
                           else nlist_eqb (concat (fst m)) (concat w'))
                          && set_eqb (snd m) ex') l
    | None => false
    end
  | _ => false
  end.

Fixpoint all2 {A B} (f : A -> B -> bool) (a : list A) (b : list B) : bool :=
  match a, b with
  | [], [] => true
  | x :: a', y :: b' => f x y && all2 f a' b'
  | _, _ => false
  end.

Definition agree_edit (strict : bool) (v out : val) : bool :=
  match out with
  | L [pv; L ch] =>
      val_eqb (probe (v_cfg v) (first_word (v_steps v))) pv
      && all2 (step_agree strict (v_cfg v)) (v_steps v) ch
  | _ => false
  end.

(** the providers answered every probe (no panic marker, right shape) *)
Definition res_shape (rep : bool) (v : val) : bool :=
  match v with
  | L [] => true
  | L [L _] => true
  | I z => rep && Z.eqb z (-2)
  | _ => false
  end.
Definition probe_ok (w : word) (pv : val) : bool :=
  match pv with
  | L l => Nat.eqb (length l) (length w + 2)
           && forallb (fun x => match x with
                                | L [a; b] => res_shape false a && res_shape (Nat.eqb (length w) 0) b
                                | _ => false end) l
  | _ => false
  end.

Definition step_check_v (c : cfg) (s : step) (o : val) : bool :=
  match o with
  | L [wv; exv] => step_check c (s_w s) (s_ex s) (v_cls wv) (v_list v_nat exv)
  | _ => false
  end.

Definition check_edit (v out : val) : bool :=
  match out with
  | L [pv; L ch] =>
      probe_ok (first_word (v_steps v)) pv
      && all2 (step_check_v (v_cfg v)) (v_steps v) ch
  | _ => false
  end.

(** * Second stream: the chain inside corrupt_spelling, through the public
    [preprocessing(SpellingCorruption ...)] (artificial mode, probability 1).
    input  = (2 kinds fd pm itab rtab seed () trigrams words info charmode)
             itab/rtab: the tables corrupt_spelling builds from the character 3-grams
             (derived by the harness); words: the whitespace-separated words of the text
             (ASCII, so that clusters are single code points); info = ((cluster alphabetic
             punctuation) ...) class oracle for every cluster that can occur;
             charmode 0: char_edit_prob 0 (exactly one edit per word), 1: char_edit_prob 1
             (as many chained edits as the word has characters)
    output = the words of the corrupted text, or (-777)
    Every output word must be reachable from the input word and the empty exclusion set by
    exactly that many chained calls with all four kinds enabled, the predicates being
    can_delete = alphabetic or punctuation, can_swap = both alphabetic. *)
Definition cls_info := list (str * bool * bool).

Fixpoint info_of (ci : cls_info) (c : cluster) : bool * bool :=
  match ci with
  | [] => (false, false)
  | (c', a, p) :: r => if nlist_eqb c c' then (a, p) else info_of r c
  end.
Definition cd_of (ci : cls_info) (w : word) : list bool :=
  map (fun c => fst (info_of ci c) || snd (info_of ci c)) w.
Fixpoint cs_of (ci : cls_info) (w : word) : list bool :=
  match w with
  | a :: ((b :: _) as r) => (fst (info_of ci a) && fst (info_of ci b)) :: cs_of ci r
  | _ => []
  end.

Fixpoint outcomes_all (c : cfg) (ci : cls_info) (ss : list (word * list nat)) : option (list (word * list nat)) :=
  match ss with
  | [] => Some []
  | (w, ex) :: r => opt_app (outcomes c (cd_of ci w) (cs_of ci w) w ex) (outcomes_all c ci r)
  end.

(** all states after exactly [k] chained calls *)
Fixpoint reach (c : cfg) (ci : cls_info) (k : nat) (ss : list (word * list nat)) : option (list (word * list nat)) :=
  match k with
  | 0 => Some ss
  | S k' => match outcomes_all c ci ss with
            | Some ss' => reach c ci k' ss'
            | None => None
            end
  end.

Definition v_info (v : val) : cls_info :=
  v_list (fun x => (v_str (v_nth 0 x), v_bool (v_nth 1 x), v_bool (v_nth 2 x))) v.
Definition e2e_words (v : val) : list word := v_list (fun x => singletons (v_str x)) (v_nth 9 v).
Definition e2e_k (v : val) (w : word) : nat := if v_bool (v_nth 11 v) then Nat.max 1 (length w) else 1.
Definition e2e_reach (v : val) (w : word) : option (list (word * list nat)) :=
  reach (v_cfg v) (v_info (v_nth 10 v)) (e2e_k v w) [(w, [])].

Definition run_e2e (v : val) : val :=
  list_v (fun w => opt_v (list_v (fun s => list_v n_v (concat (fst s)))) (e2e_reach v w)) (e2e_words v).

Definition word_agree (v : val) (w : word) (o : val) : bool :=
  match o, e2e_reach v w with
  | L _, Some l => existsb (fun s => nlist_eqb (concat (fst s)) (v_str o)) l
  | _, _ => false
  end.

Definition agree_e2e (v out : val) : bool :=
  match out with
  | L ws => all2 (word_agree v) (e2e_words v) ws
  | _ => false
  end.

(** no panic and no word lost (full_delete is off in this stream) *)
Definition check_e2e (v out : val) : bool :=
  match out with
  | L ws => Nat.eqb (length ws) (length (e2e_words v))
            && forallb (fun o => match o with L _ => true | _ => false end) ws
  | _ => false
  end.

(** * Dispatch *)
Definition is_e2e (v : val) : bool := Z.eqb (v_z (v_nth 0 v)) 2.
Definition run_C15 (v : val) : val := if is_e2e v then run_e2e v else run_edit v.
Definition check_C15 (v out : val) : bool := if is_e2e v then check_e2e v out else check_edit v out.
Definition agree_C15 (strict : bool) (v out : val) : bool :=
  if is_e2e v then agree_e2e v out else agree_edit strict v out.

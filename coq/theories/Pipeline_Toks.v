(** Pipeline model, part 5 (topic Q): the item path and the loader with EVERY tokenizer kind.

    Until now the tasks of [train_task] (Pipeline_Tasks.v) were defined over built byte tokenizers ([C01_Model.base] +
    [byte_tokenize]).  The two other kinds [tokenizer(cfg)] can build (tokenization.rs:2136-2160) are modelled elsewhere:
    the character tokenizer in C01_Model / C01_UAX29 (alphabet = data read from the real tokenizer; grapheme mode with the
    model's own segmenter), the BPE tokenizer in BPE_Model (merge table, the repaired heap loop [merge_word], the word
    scanner [bpe_words]) with the vocabulary limit of [BPETokenizer::new] and the merge file in MsgPack_Model.  This file
    puts them behind one interface and repeats the four tasks, the pipeline closure and the loader over it.  Nothing of
    C01 / C02 / C03 / BPE / Pipeline_Tasks is changed: the byte instance of everything below IS the old definition
    ([Pipeline_ToksProofs.task_k_byte], [pipeline_k_byte]).

    What the tasks use of a tokenizer (task.rs:141-264): [tokenize(text, ignore_special_tokens).token_ids],
    [num_prefix_tokens()], [num_suffix_tokens()], [pad_token_id()] — all four are methods of [BaseTokenizer]
    (prefix / suffix / pad ids are looked up in the special vocabulary by [new_base_tokenizer] for every kind).

    [tokenize] of the three kinds (tokenization.rs: VocabTokenizer 959-975 + CharTokenizer::process_token_input 1285-1313;
    BPETokenizer 1518-1540; ByteTokenizer 2109-2133) all start with [split_input(s, ignore_special_tokens)] (the
    special-token scanner, [C01_Model.split_input]) and end with [add_prefix_and_suffix]; in between
      byte : a regular segment gives its UTF-8 bytes, a special segment its id (Err when unknown)
      char : a regular segment gives one id per cluster of [CharString::new(seg, use_graphemes)] — the alphabet index of
             a single-code-point cluster, else the unk id; a special segment its id
      BPE  : a regular segment gives [merge_bytes(seg)] = the merged ids of every word of [\s+\S+|^\S+] (a trailing
             whitespace run is dropped); a special segment its id (Err when unknown).
    Definitions only. *)
From TU Require Import RNG_Model.
From TU Require BPE_Model MsgPack_Model C01_UAX29.
From TU Require Import Base C01_Model C06_Model C06_Seeded C07_Model C08_Model C08_EndToEnd.
From TU Require Import C10_Model C14_Model C14_Seeded JSON_Model Lines_Model C07_Files Pipeline_Model C08_Pipeline Pipeline_Tasks C08_Bytes Pipeline_Stages.
Open Scope N_scope.

(** * a built tokenizer of one of the three kinds *)
Inductive tokz :=
| KByte (b : base)
| KChar (b : base) (A : list cp) (unk : str) (g : bool)
| KBpe (b : base) (tbl : BPE_Model.table).     (* [tbl]: the EFFECTIVE table (after the vocabulary limit) *)

Definition k_base (k : tokz) : base := match k with KByte b | KChar b _ _ _ | KBpe b _ => b end.
Definition k_pad (k : tokz) : N := b_pad (k_base k).
Definition k_npre (k : tokz) : nat := length (b_pre (k_base k)).
Definition k_nsuf (k : tokz) : nat := length (b_suf (k_base k)).

(** [Tokenize::vocab_size]: regular ids [0, b_off), then the special vocabulary *)
Definition k_vocab (k : tokz) : N := b_off (k_base k) + N.of_nat (length (b_sv (k_base k))).

(** BPE: ids of one segment; [None] in a regular segment = the heap loop ran out of fuel (never: [merge_word_fuel]) *)
Inductive segres := SgOk (ids : list N) | SgErr | SgFuel.

Definition bpe_seg_ids (b : base) (tbl : BPE_Model.table) (g : seg) : segres :=
  match g with
  | Reg r => match BPE_Model.bpe_body tbl r with Some ids => SgOk ids | None => SgFuel end
  | Spec t => match sp_id (b_off b) (b_sv b) t with Some i => SgOk [i] | None => SgErr end
  end.

Fixpoint bpe_segs (b : base) (tbl : BPE_Model.table) (segs : list seg) : segres :=
  match segs with
  | [] => SgOk []
  | g :: r => match bpe_seg_ids b tbl g with
              | SgOk ids => match bpe_segs b tbl r with SgOk rest => SgOk (ids ++ rest) | e => e end
              | e => e
              end
  end.

(** [tokenize(s, ign).token_ids].  [RErr 2] = the [anyhow::Err] of the tokenizer (unknown special token),
    [RPanic 6] = fuel (never), [RPanic 7] = the unk id is missing (never: [char_base] lists it) *)
Definition k_tokenize (k : tokz) (s : str) (ign : bool) : res (list N) :=
  match k with
  | KByte b => match byte_tokenize b s ign with Some ids => ROk ids | None => RErr 2 end
  | KChar b A unk g =>
      match char_tokenize b A unk g s ign (C01_UAX29.oracle_u g (split_input (b_sv b) s ign)) with
      | Some ids => ROk ids
      | None => RPanic 7
      end
  | KBpe b tbl =>
      match bpe_segs b tbl (split_input (b_sv b) s ign) with
      | SgOk body => ROk (add_pre_suf b body)
      | SgErr => RErr 2
      | SgFuel => RPanic 6
      end
  end.

(** * the configuration a tokenizer is built from: [TokenizerConfig] = [SpecialConfig] + [TokenizeConfig] *)
Record spc := mk_spc { s_tokens : list str; s_pad : str; s_prefix : list str; s_suffix : list str }.

Inductive tdesc :=
| DByte (s : spc) (padto : option N)
| DChar (s : spc) (unk : str) (g : bool) (A : list cp)         (* [A]: the alphabet of the real tokenizer, as data *)
| DBpe (s : spc) (tbl : BPE_Model.table) (maxv : option N).    (* [tbl]: the merge file, id order; [max_vocab_size] *)

(** [BPETokenizer::new] (tokenization.rs:1340-1349): [limit = max.saturating_sub(tokens.len()).saturating_sub(256)],
    [merge_ops.retain(id < limit)] — [tokens.len()] counts a token listed twice twice *)
Definition bpe_eff (s : spc) (tbl : BPE_Model.table) (maxv : option N) : BPE_Model.table :=
  match maxv with
  | None => tbl
  | Some m => firstn (N.to_nat (m - N.of_nat (length (s_tokens s)) - 256)) tbl
  end.

(** [tokenizer(cfg)]; [None] = the constructor returns Err ([train_task] then panics in [expect]) *)
Definition build (d : tdesc) : option tokz :=
  match d with
  | DByte s padto => option_map KByte (byte_base (s_tokens s) padto (s_pad s) (s_prefix s) (s_suffix s))
  | DChar s unk g A =>
      option_map (fun b => KChar b A unk g) (char_base A (s_tokens s) unk (s_pad s) (s_prefix s) (s_suffix s))
  | DBpe s tbl maxv =>
      let e := bpe_eff s tbl maxv in
      option_map (fun b => KBpe b e)
                 (mk_base (256 + N.of_nat (length e)) (s_tokens s) (s_pad s) (s_prefix s) (s_suffix s))
  end.

(** * the tasks over any tokenizer kind (task.rs:141-264) *)
Inductive ktask :=
| KWsc (g : bool) (k : tokz)
| KGen (mask : bool) (k : tokz) (ign : bool) (sep : option str)
| KCond (ki : tokz) (ii : bool) (kt : tokz) (it : bool)
| KClass (k : tokz) (ign : bool) (classes : list str).

(** [whitespace_correction_input]: [tokenize(input, true)]; labels = -1 per prefix token, one operation per CHARACTER of
    the input ([CharString::new(input, use_graphemes)] of the TASK), -1 per suffix token.  Nothing in the task (or later)
    compares the number of labels with the number of token ids: with the character tokenizer in the task's own mode the
    two agree ([Pipeline_ToksProps.wsc_char_one_label_per_id]); with a byte tokenizer there is one id per byte, with BPE
    one per merged token, and the item is built all the same. *)
Definition ktask_wsc (g : bool) (k : tokz) (x : item) : res tinput :=
  rbind (k_tokenize k (it_in x) true) (fun ids =>
  match operations (seg_of g (it_in x)) (seg_of g (it_tg x)) with
  | None => RErr 3
  | Some ops => ROk (TISeq ids (k_pad k) (labels (k_npre k) (k_nsuf k) ops))
  end).

(** [generation_input]: the masked prefix is measured with the SAME tokenizer, minus ITS suffix tokens *)
Definition kgen_mask_len (mask : bool) (k : tokz) (ign : bool) (sep : option str) (x : item) : res nat :=
  if mask then rbind (k_tokenize k (it_in x ++ osep sep) ign) (fun ids => ROk (length ids - k_nsuf k)%nat)
  else ROk 0%nat.

Definition ktask_gen (mask : bool) (k : tokz) (ign : bool) (sep : option str) (x : item) : res tinput :=
  rbind (kgen_mask_len mask k ign sep x) (fun ml =>
  rbind (k_tokenize k (it_in x ++ osep sep ++ it_tg x) ign) (fun ids =>
  ROk (TIGen (removelast ids) (k_pad k) (gen_labels ml ids)))).

(** [conditional_generation_input]: the input with the input tokenizer and ITS flag and pad id, the target with the
    target tokenizer and its flag and pad id *)
Definition ktask_cond (ki : tokz) (ii : bool) (kt : tokz) (it : bool) (x : item) : res tinput :=
  rbind (k_tokenize ki (it_in x) ii) (fun ids =>
  rbind (k_tokenize kt (it_tg x) it) (fun tids =>
  ROk (TICond ids (k_pad ki) (removelast tids) (k_pad kt) (tl (zids tids))))).

Definition ktask_class (k : tokz) (ign : bool) (classes : list str) (x : item) : res tinput :=
  rbind (k_tokenize k (it_in x) ign) (fun ids =>
  match class_idx classes (it_tg x) 0 with
  | None => RErr 4
  | Some c => ROk (TIClass ids (k_pad k) (Z.of_nat c))
  end).

Definition task_k (t : ktask) (x : item) : res tinput :=
  match t with
  | KWsc g k => ktask_wsc g k x
  | KGen mask k ign sep => ktask_gen mask k ign sep x
  | KCond ki ii kt it => ktask_cond ki ii kt it x
  | KClass k ign cl => ktask_class k ign cl x
  end.

(** the old tasks are the byte instance *)
Definition embed_task (t : tcfg) : ktask :=
  match t with
  | TWsc g b => KWsc g (KByte b)
  | TGen mask b ign sep => KGen mask (KByte b) ign sep
  | TCond bi ii bt it => KCond (KByte bi) ii (KByte bt) it
  | TClass b ign cl => KClass (KByte b) ign cl
  end.

(** * the closure of [train_pipeline] and the loader *)
Definition pipeline_k (opq : nat -> item -> info -> res (item * info))
           (qopq : nat -> xitem -> info -> res (xitem * info))
           (p : pcfg) (t : ktask) (q : qpcfg) (maxlen : nat) (x : item) (i : info) : res xitem :=
  rbind (preprocess opq p x i) (fun xi =>
  rbind (task_k t (fst xi)) (fun inp =>
  rbind (postprocess qopq maxlen q (mk_xitem (fst xi) inp) (snd xi)) (fun yi => ROk (fst yi)))).

Section KLoader.
Variable opq : nat -> item -> info -> res (item * info).
Variable qopq : nat -> xitem -> info -> res (xitem * info).
Variables (p : pcfg) (t : ktask) (q : qpcfg) (maxlen : nat) (seed epoch : N).

Definition pipe_res_k (i : nat) (d : nat * item) : res xitem :=
  pipeline_k opq qopq p t q maxlen (snd d) (item_info seed epoch i (fst d)).

Definition loader_run_k (s : strategy) (files : list (list line)) (lim skip ff rank W : nat)
           (sort shuffle : bool) (prefetch blim : nat) (ty : limit_type) : gres xitem :=
  loader_g pipe_res_k xsize (pcfg_ok p && qpcfg_ok q) s (seed + epoch)%N files lim skip ff rank W
           sort shuffle prefetch blim ty.

Definition loader_run_kb (s : strategy) (files : list (list byte)) (lim skip ff rank W : nat)
           (sort shuffle : bool) (prefetch blim : nat) (ty : limit_type) : gres xitem :=
  loader_run_k s (map lines_of_file files) lim skip ff rank W sort shuffle prefetch blim ty.
End KLoader.

(** * val glue *)
(** tokenizer = (tokens pad prefix suffix padto?)                          byte (as [Pipeline_Tasks.v_tok])
              | (1 tokens pad prefix suffix unk g alphabet)                character
              | (2 tokens pad prefix suffix table maxv? file?)             BPE; file? = () | ((byte ..)): the bytes of a
                                                                           hand-made merge file, read by [MsgPack_Model.load_table] *)
Inductive tparse := TPOk (d : tdesc) | TPCtor | TPOutside.

Definition v_spc (v : val) : spc :=
  mk_spc (v_list v_str (v_nth 1 v)) (v_str (v_nth 2 v)) (v_list v_str (v_nth 3 v)) (v_list v_str (v_nth 4 v)).

Definition v_tdesc (v : val) : tparse :=
  match v_nth 0 v with
  | I 1%Z => TPOk (DChar (v_spc v) (v_str (v_nth 5 v)) (v_bool (v_nth 6 v)) (v_str (v_nth 7 v)))
  | I 2%Z =>
      match v_nth 7 v with
      | L [fb] => match MsgPack_Model.load_table (v_list v_n fb) with
                  | MsgPack_Model.Loaded tbl => TPOk (DBpe (v_spc v) tbl (v_opt v_n (v_nth 6 v)))
                  | MsgPack_Model.LoadError => TPCtor
                  | MsgPack_Model.LoadedIllFormed _ => TPOutside
                  end
      | _ => TPOk (DBpe (v_spc v) (BPE_Model.v_table (v_nth 5 v)) (v_opt v_n (v_nth 6 v)))
      end
  | I _ => TPOutside
  | L _ => TPOk (DByte (mk_spc (v_list v_str (v_nth 0 v)) (v_str (v_nth 1 v)) (v_list v_str (v_nth 2 v))
                               (v_list v_str (v_nth 3 v))) (v_opt v_n (v_nth 4 v)))
  end.

(** [KTOk] a built tokenizer | [KTCtor] the constructor fails | [KTOut] outside the model *)
Inductive kparse (A : Type) := KPOk (a : A) | KPCtor | KPOut.
Arguments KPOk {A} a.
Arguments KPCtor {A}.
Arguments KPOut {A}.

Definition v_tokz (v : val) : kparse tokz :=
  match v_tdesc v with
  | TPOk d => match build d with Some k => KPOk k | None => KPCtor end
  | TPCtor => KPCtor
  | TPOutside => KPOut
  end.

Definition kp_map {A B} (f : A -> B) (r : kparse A) : kparse B :=
  match r with KPOk a => KPOk (f a) | KPCtor => KPCtor | KPOut => KPOut end.

(** task = (0 g tok) | (1 mask tok ign sep?) | (2 tok_in ign_in tok_tg ign_tg) | (3 tok ign (class ..)) *)
Definition v_ktask (v : val) : kparse ktask :=
  match v_z (v_nth 0 v) with
  | 0%Z => kp_map (KWsc (v_bool (v_nth 1 v))) (v_tokz (v_nth 2 v))
  | 1%Z => kp_map (fun k => KGen (v_bool (v_nth 1 v)) k (v_bool (v_nth 3 v)) (v_opt v_str (v_nth 4 v)))
                  (v_tokz (v_nth 2 v))
  | 2%Z => match v_tokz (v_nth 1 v), v_tokz (v_nth 3 v) with
           | KPOut, _ | _, KPOut => KPOut
           | KPOk ki, KPOk kt => KPOk (KCond ki (v_bool (v_nth 2 v)) kt (v_bool (v_nth 4 v)))
           | _, _ => KPCtor
           end
  | _ => kp_map (fun k => KClass k (v_bool (v_nth 2 v)) (v_list v_str (v_nth 3 v))) (v_tokz (v_nth 1 v))
  end.

(** item line with every tokenizer kind.
    input  = (-8 pcfg task qpcfg maxlen input target (seed-hi seed-lo) file marks stages qstages)   (the format of -5)
    output = as the item lines -4 / -5 *)
Definition run_item_k (v : val) : val :=
  let p := v_pcfg (v_nth 1 v) in
  let q := v_qpcfg (v_nth 3 v) in
  let st := v_list v_stage (v_nth 10 v) in
  match map_opt v_qstage (v_list (fun x => x) (v_nth 11 v)) with
  | None => L [I 0%Z]
  | Some qs =>
    if negb (pcfg_dom p) || negb (qpcfg_dom q) || negb (p_refs_ok (length st) p) || negb (qp_refs_ok (length qs) q)
       || negb (forallb qstage_dom qs) then v_outside
    else match v_ktask (v_nth 2 v) with
         | KPOut => v_outside
         | KPCtor => L [I 0%Z]
         | KPOk t =>
             if negb (pcfg_ok p) || negb (qpcfg_ok q) || negb (forallb stage_ok st) || negb (forallb qstage_ok qs)
             then L [I 0%Z]
             else res_x_v (pipeline_k (opq_tab st) (qopq_tab qs) p t q (v_nat (v_nth 4 v))
                                      (mk_item (v_str (v_nth 5 v)) (v_str (v_nth 6 v)))
                                      (mk_info (v_hl (v_nth 7 v)) (v_nat (v_nth 8 v)) (v_marks (v_nth 9 v))))
         end
  end.

(** byte loader line with every tokenizer kind.
    input  = (-9 files strategy (seed-hi seed-lo) epoch pcfg task qpcfg maxlen lim skip ff rank W sort shuffle prefetch
                 blim ty threads buffer threads2 buffer2 stages qstages)                           (the format of -6)
    output = as the byte loader lines -3 / -6 *)
Definition run_bloader_k (v : val) : val :=
  let files := v_bfiles (v_nth 1 v) in
  let s := v_strategy (v_nth 2 v) in
  let seed := v_hl (v_nth 3 v) in
  let epoch := v_n (v_nth 4 v) in
  let p := v_pcfg (v_nth 5 v) in
  let q := v_qpcfg (v_nth 7 v) in
  let st := v_list v_stage (v_nth 23 v) in
  let total := sum_nat (map count_lines files) in
  match map_opt v_qstage (v_list (fun x => x) (v_nth 24 v)) with
  | None => L [I 0%Z]
  | Some qs =>
    if negb (pcfg_dom p) || negb (qpcfg_dom q) || negb (p_refs_ok (length st) p) || negb (qp_refs_ok (length qs) q)
       || negb (forallb qstage_dom qs) then v_outside
    else match v_ktask (v_nth 6 v) with
         | KPOut => v_outside
         | KPCtor => L [I 0%Z]
         | KPOk t =>
           if negb (forallb stage_ok st) || negb (forallb qstage_ok qs) then L [I 0%Z] else
           match loader_run_kb (opq_tab st) (qopq_tab qs) p t q (v_nat (v_nth 8 v)) seed epoch s files
                               (v_lim total (v_nth 9 v)) (v_nat (v_nth 10 v)) (v_nat (v_nth 11 v)) (v_nat (v_nth 12 v))
                               (v_nat (v_nth 13 v)) (v_bool (v_nth 14 v)) (v_bool (v_nth 15 v)) (v_nat (v_nth 16 v))
                               (v_nat (v_nth 17 v)) (v_ty (v_nth 18 v)) with
           | GOk m bs => L [I 1%Z; nat_v m; list_v (list_v xi_v) bs; I 1%Z; I 1%Z]
           | GCtor => L [I 0%Z]
           | GPanic => v_panic
           | GFuel => v_fuel_out
           end
         end
  end.

(** * the extracted model of the C08 check *)
Definition is_k (v : val) : bool := Z.eqb (C08_Pipeline.kind v) (-8) || Z.eqb (C08_Pipeline.kind v) (-9).

Definition no_seed_shuffle_k (v : val) : bool :=
  match v_nth 3 v with
  | L [] => Z.eqb (C08_Pipeline.kind v) (-9) && v_bool (v_nth 15 v)
  | _ => false
  end.

Definition run_C08q (base_run : val -> val) (v : val) : val :=
  if Z.eqb (C08_Pipeline.kind v) (-8) then run_item_k v
  else if Z.eqb (C08_Pipeline.kind v) (-9) then (if no_seed_shuffle_k v then L [I 0%Z] else run_bloader_k v)
  else base_run v.

Definition check_C08q (v o : val) : bool :=
  if Z.eqb (C08_Pipeline.kind v) (-8) then check_item v o
  else if Z.eqb (C08_Pipeline.kind v) (-9) then check_loader v o
  else check_C08n v o.

Definition agree_C08q (v m o : val) : bool :=
  if is_k v then val_eqb m o else agree_C08n v m o.

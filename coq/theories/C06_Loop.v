(** C06 proofs, part 3: the batch loop — totality, partition, limit, plain mode. *)
From TU Require Import Base C06_Model C06_Subseq C06_Proofs.
Require Import Lia Permutation.

Section Loop.
Context {A : Type} (size : A -> nat).
Implicit Types (buf rest b : list A).
Notation lim_from := (lim_from size).
Notation limit := (limit size).

(** * errors of one step *)
Lemma build_batch_err : forall sort shuffle L P ty o t rest buf e,
  (sort = false -> shuffle = false -> length buf <= 1) ->
  build_batch size sort shuffle L P ty o t rest buf = BErr e ->
  e = BadOracle /\ ~ oracle_guard o.
Proof.
  intros sort shuffle L P ty o t rest buf e Hplain H. unfold build_batch in H.
  destruct (negb sort && negb shuffle) eqn:Em.
  - apply andb_true_iff in Em. destruct Em as [E1 E2].
    apply negb_true_iff in E1. apply negb_true_iff in E2. specialize (Hplain E1 E2).
    destruct buf as [|x [|y buf]]; [| |cbn in Hplain; lia];
      destruct (batch_from size ty L [] (0, 0) _) as [[b rem] src']; discriminate.
  - destruct (fill size ty (L * P) (lim_from buf) buf rest) as [buf1 rest1] eqn:Ef.
    destruct (is_nil buf1) eqn:En; [discriminate|]. apply is_nil_false in En.
    assert (Hpop : forall sb, pop_batch size ty L sb rest1 <> BErr e).
    { intros sb. unfold pop_batch. destruct (batch_from size ty L [] (0, 0) (rev sb)) as [[b rem] src']. discriminate. }
    destruct sort.
    + pose proof (sort_by_perm size buf1) as Hs. set (sb := sort_by size buf1) in *.
      destruct shuffle; [|exfalso; exact (Hpop _ H)].
      destruct (find_subseq_ok_l (fun s e => limit ty (slice sb s e)) L (length sb)) as (subs & Hfs & Hok).
      rewrite Hfs in H. destruct subs as [|p0 subs].
      * destruct (rev sb) as [|x r] eqn:Er; [|discriminate]. exfalso.
        apply (perm_nonnil _ _ Hs En). rewrite <- (rev_involutive sb), Er. reflexivity.
      * destruct (nth_error (p0 :: subs) (pick o t (length (p0 :: subs)))) as [[s e']|] eqn:Enth.
        -- exfalso. apply nth_error_In in Enth. rewrite Forall_forall in Hok. specialize (Hok _ Enth).
           unfold range_ok in Hok. cbn [fst snd] in Hok.
           destruct ((s <=? e') && (e' <=? length sb)) eqn:Eg; [discriminate|].
           apply andb_false_iff in Eg. destruct Eg as [Eg|Eg]; apply Nat.leb_gt in Eg; lia.
        -- injection H as <-. split; [reflexivity|]. intros [_ Hg].
           apply nth_error_None in Enth. specialize (Hg t (length (p0 :: subs)) ltac:(cbn; lia)). lia.
    + destruct shuffle; [|discriminate].
      destruct (apply_shuf (shuf o t (length buf1)) buf1) as [sb|] eqn:Es; [exfalso; exact (Hpop _ H)|].
      injection H as <-. split; [reflexivity|]. intros [Hg _].
      destruct (apply_shuf_some _ _ (Hg t (length buf1))) as [sb Hsb]. congruence.
Qed.

(** * plain mode: order, remainder, greedy *)
Lemma plain_step : forall L P ty o t rest buf ob rest' buf', length buf <= 1 ->
  build_batch size false false L P ty o t rest buf = BOk ob rest' buf' ->
  olist ob ++ buf' ++ rest' = buf ++ rest /\ length buf' <= 1 /\
  (forall r b, buf' = [r] -> ob = Some b -> L < limit ty (b ++ [r])) /\
  (buf' = [] -> rest' = []) /\
  (forall x src, buf ++ rest = x :: src -> exists tail, ob = Some (x :: tail)).
Proof.
  intros L P ty o t rest buf ob rest' buf' Hl H. unfold build_batch in H. cbn [negb andb] in H.
  assert (Hsrc : (let '(b, rem, src') := batch_from size ty L [] (0, 0) (buf ++ rest) in
                  BOk (if is_nil b then None else Some b) src' (opt_list rem)) = BOk ob rest' buf').
  { destruct buf as [|x [|y buf]]; [exact H|exact H|cbn in Hl; lia]. }
  clear H. destruct (batch_from size ty L [] (0, 0) (buf ++ rest)) as [[b rem] src'] eqn:E.
  injection Hsrc as <- <- <-.
  pose proof E as E0. change (0, 0) with (lim_from []) in E. apply batch_from_spec in E.
  destruct E as (Heq & _ & _ & Hrem & Hnone & Hb). cbn [app] in Heq.
  refine (conj _ (conj _ (conj _ (conj _ _)))).
  - destruct b; cbn [is_nil olist]; rewrite Heq; reflexivity.
  - destruct rem; cbn; lia.
  - intros r b' Hr Hb'. destruct rem as [r'|]; [|discriminate]. injection Hr as <-.
    destruct b as [|x b]; [discriminate|]. cbn [is_nil] in Hb'. injection Hb' as <-.
    apply (Hrem r' eq_refl).
  - intros Hr. destruct rem; [discriminate|]. apply Hnone. reflexivity.
  - intros x src Hx. rewrite Hx in E0. apply batch_from_head in E0. destruct E0 as [tail ->].
    exists tail. reflexivity.
Qed.

Section Cfg.
Context (sort shuffle : bool) (L P : nat) (ty : limit_type) (o : oracle).
Notation loop := (batches_loop size sort shuffle L P ty o).

Lemma cons_res_ok : forall b r bs, cons_res b r = Ok bs -> exists bs', r = Ok bs' /\ bs = b :: bs'.
Proof. intros b [x|e] bs H; cbn in H; [injection H as <-; eauto|discriminate]. Qed.

(** * partition, non-empty, limit: every strategy, every oracle *)
Lemma loop_props : forall fuel t rest buf bs, loop fuel t rest buf = Ok bs ->
  Permutation (concat bs) (buf ++ rest) /\ Forall (fun b => b <> []) bs /\
  Forall (fun b => length b <= 1 \/ limit ty b <= L) bs.
Proof.
  induction fuel as [|f IH]; intros t rest buf bs H; [discriminate|]. cbn [batches_loop] in H.
  destruct (build_batch size sort shuffle L P ty o t rest buf) as [ob rest' buf'|e] eqn:E; [|discriminate].
  apply build_batch_step in E. destruct E as (Hperm & Hsome & Hnone).
  destruct ob as [b|].
  - apply cons_res_ok in H. destruct H as (bs' & H & ->).
    destruct (IH _ _ _ _ H) as (Hp & Hne & Hlim). destruct (Hsome b eq_refl) as [Hb1 Hb2].
    cbn [concat olist] in *. split; [|split; constructor; auto].
    rewrite Hp. exact Hperm.
  - injection H as <-. rewrite (Hnone eq_refl). cbn. auto.
Qed.

(** * totality *)
Definition good (r : res (list (list A))) : Prop :=
  match r with Ok _ => True | Err BadOracle => ~ oracle_guard o | Err _ => False end.

Lemma good_cons : forall b r, good r -> good (cons_res b r).
Proof. intros b [x|[]]; cbn; auto. Qed.

Lemma loop_total : forall fuel t rest buf,
  (sort = false -> shuffle = false -> length buf <= 1) ->
  length (buf ++ rest) < fuel -> good (loop fuel t rest buf).
Proof.
  induction fuel as [|f IH]; intros t rest buf Hplain Hm; [lia|]. cbn [batches_loop].
  destruct (build_batch size sort shuffle L P ty o t rest buf) as [ob rest' buf'|e] eqn:E.
  - destruct ob as [b|]; [|exact Logic.I].
    apply good_cons. apply IH.
    + intros -> ->. apply plain_step in E; [|auto]. apply E.
    + apply build_batch_step in E. destruct E as (Hperm & Hsome & _).
      destruct (Hsome b eq_refl) as [Hb _]. apply Permutation_length in Hperm.
      cbn [olist] in Hperm. rewrite !app_length in *. destruct b; [congruence|]. cbn [length] in Hperm. lia.
  - apply build_batch_err in E; [|exact Hplain]. destruct E as [-> Hg]. exact Hg.
Qed.

End Cfg.

(** * plain mode *)
Lemma greedyb_cons : forall ty L b x tail bs,
  greedyb size ty L (b :: (x :: tail) :: bs) =
  (L <? limit ty (b ++ [x])) && greedyb size ty L ((x :: tail) :: bs).
Proof. reflexivity. Qed.

(** consecutive batches: the earlier one could not have taken the first item of the later one *)
Lemma plain_loop : forall L P ty o fuel t rest buf bs, length buf <= 1 ->
  batches_loop size false false L P ty o fuel t rest buf = Ok bs ->
  concat bs = buf ++ rest /\ greedyb size ty L bs = true /\
  (forall x src, buf ++ rest = x :: src -> exists tail bs', bs = (x :: tail) :: bs').
Proof.
  intros L P ty o. induction fuel as [|f IH]; intros t rest buf bs Hl H; [discriminate|].
  cbn [batches_loop] in H.
  destruct (build_batch size false false L P ty o t rest buf) as [ob rest' buf'|e] eqn:E; [|discriminate].
  pose proof (build_batch_step size _ _ _ _ _ _ _ _ _ _ _ _ E) as (_ & _ & Hnone).
  apply plain_step in E; [|exact Hl]. destruct E as (Heq & Hl' & Hrem & Hnil & Hhead).
  destruct ob as [b|].
  - apply cons_res_ok in H. destruct H as (bs' & H & ->).
    destruct (IH _ _ _ _ Hl' H) as (Hc & Hg & Hh). cbn [olist] in Heq.
    split; [cbn [concat]; rewrite Hc; exact Heq|]. split.
    + destruct bs' as [|b' bs'']; [destruct b; reflexivity|].
      destruct (buf' ++ rest') as [|x src] eqn:Ebr.
      * cbn [concat] in Hc. destruct b'; [|discriminate].
        (* an empty batch cannot occur *)
        exfalso. pose proof (loop_props false false L P ty o _ _ _ _ _ H) as (_ & Hne & _).
        inversion Hne; congruence.
      * destruct (Hh x src eq_refl) as (tail & bs3 & Hb'). injection Hb' as -> ->.
        destruct buf' as [|r [|r2 buf']]; [|cbn in Ebr; injection Ebr as <- <-|cbn in Hl'; lia].
        -- rewrite (Hnil eq_refl) in Ebr. discriminate.
        -- rewrite greedyb_cons, Hg, (proj2 (Nat.ltb_lt _ _) (Hrem r b eq_refl eq_refl)). reflexivity.
    + intros x src Hx. destruct (Hhead x src Hx) as [tail Ht]. injection Ht as ->. eauto.
  - injection H as <-. rewrite (Hnone eq_refl). split; [reflexivity|]. split; [reflexivity|]. discriminate.
Qed.

End Loop.

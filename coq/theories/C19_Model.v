(** C19 model: BPE training (src/tokenization.rs: train_bpe, byte_pair_stats,
    max_byte_pair, replace_pair_in_word, the word-count fold).

    Spec-level trainer: pair frequencies are obtained by RECOUNT of the current
    corpus (what [byte_pair_stats] computes on the initial vocabulary); the
    implementation keeps them incrementally ([update_stats]).  The defect D8 is
    repaired here: training stops when no pair has positive frequency.
    Ties between equally frequent pairs are broken by hash order in the code,
    hence the statement is relational ([accepts]); [train] is one deterministic
    instance (first maximal pair in corpus order).
    clean / Unicode normalisation of the lines are oracles: the harness hands
    over the processed lines.  Definitions only. *)
From TU Require Import Base.
Open Scope N_scope.

Definition token := list N.            (* a byte string *)
Definition word := list token.
Definition pair := (token * token)%type.
Definition corpus := list (word * N).  (* segmented word, number of occurrences *)

Definition tok_eqb : token -> token -> bool := nlist_eqb.
Definition pair_eqb (p q : pair) : bool := tok_eqb (fst p) (fst q) && tok_eqb (snd p) (snd q).
(** [BytePair::merge] *)
Definition merge (p : pair) : token := fst p ++ snd p.

(** adjacent token pairs of a word, as enumerated by [byte_pair_stats]
    (all positions, overlapping ones included) *)
Fixpoint word_pairs (w : word) : list pair :=
  match w with
  | [] => []
  | a :: r => match r with [] => [] | b :: _ => (a, b) :: word_pairs r end
  end.

Fixpoint count_pair (p : pair) (l : list pair) : N :=
  match l with
  | [] => 0
  | q :: r => (if pair_eqb p q then 1 else 0) + count_pair p r
  end.

(** [stats[p].freq] by recount: sum over words of count * occurrences *)
Fixpoint pair_freq (c : corpus) (p : pair) : N :=
  match c with
  | [] => 0
  | (w, k) :: r => k * count_pair p (word_pairs w) + pair_freq r p
  end.

Definition all_pairs (c : corpus) : list pair := flat_map (fun wk => word_pairs (fst wk)) c.

Fixpoint dedup (l : list pair) : list pair :=
  match l with
  | [] => []
  | p :: r => if existsb (pair_eqb p) r then dedup r else p :: dedup r
  end.
Definition dpairs (c : corpus) : list pair := dedup (all_pairs c).

Definition max_freq (c : corpus) : N := fold_right N.max 0 (map (pair_freq c) (dpairs c)).

(** [replace_pair_in_word]: left to right; [last] is the last token of
    [new_word] (it may be the token just merged and is compared again). *)
Fixpoint replace_aux (p : pair) (last : token) (w : word) : word :=
  match w with
  | [] => [last]
  | s :: r => if tok_eqb last (fst p) && tok_eqb s (snd p) then replace_aux p (last ++ s) r
              else last :: replace_aux p s r
  end.
Definition replace_in_word (p : pair) (w : word) : word :=
  match w with [] => [] | a :: r => replace_aux p a r end.

(** [replace_pair] over the whole vocabulary (the code visits only the words its
    statistics list for the pair; on the others the replacement is the identity) *)
Definition apply_pair (c : corpus) (p : pair) : corpus :=
  map (fun wk => (replace_in_word p (fst wk), snd wk)) c.

(** one accepted step: [p] occurs, has positive and maximal frequency *)
Definition step_okb (c : corpus) (p : pair) : bool :=
  let m := max_freq c in (0 <? m) && (pair_freq c p =? m).

(** no pair with positive frequency is left *)
Definition exhaustedb (c : corpus) : bool := max_freq c =? 0.

(** ** The relational statement: the list of merged byte strings [es] (entry i
    = bytes of merge id i) is the table of an accepted greedy run with budget [k]:
    every entry is spelled by a pair accepted in the state reached by the
    previous entries; the run is shorter than the budget only if the corpus is
    exhausted.  Several pairs may spell the same bytes: all are tried. *)
Definition cands (c : corpus) (e : token) : list pair :=
  let m := max_freq c in
  if 0 <? m then filter (fun p => tok_eqb (merge p) e && (pair_freq c p =? m)) (dpairs c) else [].

Fixpoint accepts (c : corpus) (k : nat) (es : list token) : bool :=
  match es with
  | [] => match k with O => true | S _ => exhaustedb c end
  | e :: es' =>
    match k with
    | O => false
    | S k' => existsb (fun p => accepts (apply_pair c p) k' es') (cands c e)
    end
  end.

(** ** One deterministic trainer: first maximal pair in corpus order.
    [k] is the loop bound [num_merges] of the code, not artificial fuel. *)
Definition best (c : corpus) : option pair :=
  let m := max_freq c in
  if 0 <? m then find (fun p => pair_freq c p =? m) (dpairs c) else None.

Fixpoint train (k : nat) (c : corpus) : list pair :=
  match k with
  | O => []
  | S k' => match best c with None => [] | Some p => p :: train k' (apply_pair c p) end
  end.

(** more than one maximal pair at some step of the deterministic run *)
Definition tiedb (c : corpus) : bool :=
  let m := max_freq c in
  Nat.ltb 1 (length (filter (fun p => pair_freq c p =? m) (dpairs c))).
Fixpoint train_tied (k : nat) (c : corpus) : bool :=
  match k with
  | O => false
  | S k' => match best c with None => false | Some p => tiedb c || train_tied k' (apply_pair c p) end
  end.

(** ** Word counting: [count_words_whitespace(line, true)] per line and the fold
    over the channel.  Maps are association lists in insertion order. *)
Definition cmap := list (str * N).

(** words of the regex [\s+\S+|^\S+]: maximal non-whitespace runs together with
    the whitespace run in front of them; a trailing whitespace run is dropped *)
Fixpoint scan_words (acc : list cp) (inw : bool) (s : str) : list str :=
  match s with
  | [] => if inw then [rev acc] else []
  | c :: r =>
    if is_ws c then (if inw then rev acc :: scan_words [c] false r else scan_words (c :: acc) false r)
    else scan_words (c :: acc) true r
  end.
Definition words (s : str) : list str := scan_words [] false s.

Fixpoint add_count (m : cmap) (w : str) (n : N) : cmap :=
  match m with
  | [] => [(w, n)]
  | (w', k) :: r => if nlist_eqb w' w then (w', k + n) :: r else (w', k) :: add_count r w n
  end.
Definition count_line (ws : list str) : cmap := fold_left (fun m w => add_count m w 1) ws [].
(** [*acc.entry(word).or_insert(0) += count] for every entry of a received map *)
Definition merge_map (acc m : cmap) : cmap := fold_left (fun a wk => add_count a (fst wk) (snd wk)) m acc.
Definition count_all (lines : list (list str)) : cmap := fold_left merge_map (map count_line lines) [].
Fixpoint lookup (m : cmap) (w : str) : N :=
  match m with [] => 0 | (w', k) :: r => if nlist_eqb w' w then k else lookup r w end.

(** initial vocabulary: every word as single-byte tokens *)
Definition init_word (w : str) : word := map (fun b => [b]) (utf8s w).
Definition corpus_of (m : cmap) : corpus := map (fun wk => (init_word (fst wk), snd wk)) m.

(** ** Decoder of a tokenizer built from the table, and trailing-whitespace strip *)
Definition decode (tbl : list token) (ids : list N) : list N :=
  flat_map (fun id => if id <? 256 then [id] else nth (N.to_nat (id - 256)) tbl []) ids.
Fixpoint drop_ws (s : str) : str :=
  match s with [] => [] | c :: r => if is_ws c then drop_ws r else s end.
Definition strip_trailing_ws (s : str) : str := rev (drop_ws (rev s)).

(** ** val glue.
    input  = (vocab_size nspecial norm threads maxlines? files proc ntok tests)
             files: raw lines per file (harness only); proc: per file the lines as
             read, cleaned and normalised by the real crate (oracle); ntok: number
             of special tokens of the tokenizer built afterwards; tests: strings
    output = (table toks vsize vocab t2i [tied])
             table: ((id bytes) ...) sorted by id; toks: per test string
             ((ids) (decoded code points)); vsize = vocab_size(); vocab = get_vocab();
             t2i: per entry () or (token_to_id(entry)) *)
Definition in_vocab (v : val) : N := v_n (v_nth 0 v).
Definition in_nspecial (v : val) : N := v_n (v_nth 1 v).
Definition in_maxlines (v : val) : option nat := v_opt v_nat (v_nth 4 v).
Definition in_proc (v : val) : list (list str) := v_list (v_list (v_list v_n)) (v_nth 6 v).
Definition in_ntok (v : val) : N := v_n (v_nth 7 v).
Definition in_tests (v : val) : list str := v_list (v_list v_n) (v_nth 8 v).

(** [num_merges = vocab_size.saturating_sub(256).saturating_sub(num_special_tokens)] *)
Definition num_merges (v : val) : nat := N.to_nat (in_vocab v - 256 - in_nspecial v).
Definition take_lines (o : option nat) (l : list str) : list str :=
  match o with Some n => firstn n l | None => l end.
Definition in_lines (v : val) : list str := flat_map (take_lines (in_maxlines v)) (in_proc v).
Definition in_corpus (v : val) : corpus := corpus_of (count_all (map words (in_lines v))).

Definition bytes256 : list token := map (fun n => [N.of_nat n]) (seq 0 256).
Definition table_v (es : list token) : val :=
  L (map (fun ie => L [nat_v (fst ie); list_v n_v (snd ie)]) (combine (seq 0 (length es)) es)).

Definition run_C19 (v : val) : val :=
  let c := in_corpus v in
  let k := num_merges v in
  let es := map merge (train k c) in
  L [ table_v es;
      list_v (fun s => L [list_v n_v (utf8s (strip_trailing_ws s)); list_v n_v (strip_trailing_ws s)]) (in_tests v);
      n_v (256 + N.of_nat (length es) + in_ntok v);
      list_v (list_v n_v) (bytes256 ++ es ++ repeat [] (N.to_nat (in_ntok v)));
      L (map (fun i => L [n_v (256 + N.of_nat i)]) (seq 0 (length es)));
      bool_v (train_tied k c) ].

(** reading an implementation output *)
Definition out_ids (out : val) : list Z := v_list (fun e => v_z (v_nth 0 e)) (v_nth 0 out).
Definition out_entries (out : val) : list token := v_list (fun e => v_list v_n (v_nth 1 e)) (v_nth 0 out).
Fixpoint ids_from (n : Z) (l : list Z) : bool :=
  match l with [] => true | i :: r => Z.eqb i n && ids_from (n + 1) r end.

Definition shape_ok (out : val) : bool :=
  match out with
  | L (L tbl :: L _ :: I _ :: L _ :: L _ :: _) =>
      forallb (fun e => match e with L [I _; L _] => true | _ => false end) tbl
  | _ => false
  end.

Fixpoint toks_ok (tbl : list token) (tests : list str) (toks : list val) : bool :=
  match tests, toks with
  | [], [] => true
  | s :: tests', t :: toks' =>
      let ids := v_list v_n (v_nth 0 t) in
      let dec := v_list v_n (v_nth 1 t) in
      let want := strip_trailing_ws s in
      (match t with L [L _; L _] => true | _ => false end)
      && forallb (fun id => id <? 256 + N.of_nat (length tbl)) ids
      && nlist_eqb (decode tbl ids) (utf8s want)
      && nlist_eqb dec want
      && toks_ok tbl tests' toks'
  | _, _ => false
  end.

Fixpoint tokl_eqb (a b : list token) : bool :=
  match a, b with
  | [], [] => true
  | x :: a', y :: b' => tok_eqb x y && tokl_eqb a' b'
  | _, _ => false
  end.

Fixpoint t2i_ok (i : N) (l : list val) : bool :=
  match l with
  | [] => true
  | L [] :: r => t2i_ok (i + 1) r
  | L [I z] :: r => Z.eqb z (Z.of_N (256 + i)) && t2i_ok (i + 1) r
  | _ => false
  end.

Definition check_C19 (v out : val) : bool :=
  let es := out_entries out in
  let n := length es in
  let toks := match v_nth 1 out with L l => l | _ => [] end in
  let vocab := v_list (v_list v_n) (v_nth 3 out) in
  let t2i := match v_nth 4 out with L l => l | _ => [] end in
  shape_ok out
  (* merge ids are exactly 0..n-1, n <= num_merges *)
  && ids_from 0 (out_ids out)
  && Nat.leb n (num_merges v)
  (* entry i is a positive maximal pair of the corpus segmented by 0..i-1; short only if exhausted *)
  && accepts (in_corpus v) (num_merges v) es
  (* a tokenizer built from the table: lossless, ids valid, vocabulary consistent *)
  && toks_ok es (in_tests v) toks
  && N.eqb (v_n (v_nth 2 out)) (256 + N.of_nat n + in_ntok v)
  && Nat.eqb (length vocab) (256 + n + N.to_nat (in_ntok v))
  && tokl_eqb (firstn (256 + n) vocab) (bytes256 ++ es)
  && Nat.eqb (length t2i) n && t2i_ok 0 t2i.

(** correspondence: the property's statement holds of the implementation output;
    the decoded test strings (independent of tie-breaking) are equal; if the
    deterministic run never met a tie the tables are equal (a tie can change
    even the length of an exhausting run, so nothing else is compared). *)
Definition agree_C19 (v m i : val) : bool :=
  check_C19 v i
  && val_eqb (L (map (v_nth 1) (match v_nth 1 m with L l => l | _ => [] end)))
             (L (map (v_nth 1) (match v_nth 1 i with L l => l | _ => [] end)))
  && (if v_bool (v_nth 5 m) then true else val_eqb (v_nth 0 m) (v_nth 0 i)).

(** ** Prop-level statement of the property (about the model; proofs in C19_Proofs.v) *)

(** [p] may be merged in state [c]: it occurs, its frequency is positive and no
    pair whatsoever is more frequent *)
Definition StepOK (c : corpus) (p : pair) : Prop :=
  In p (all_pairs c) /\ 0 < pair_freq c p /\ forall q, pair_freq c q <= pair_freq c p.
Definition Exhausted (c : corpus) : Prop := forall q, pair_freq c q = 0.

(** accepted runs with merge budget [k]: each pair is accepted in the state
    reached by its predecessors; a run stops when the budget is used up or the
    corpus is exhausted (D8 repaired), never earlier *)
Inductive Run : corpus -> nat -> list pair -> Prop :=
| Run_budget : forall c, Run c 0 []
| Run_exhausted : forall c k, Exhausted c -> Run c k []
| Run_step : forall c k p ps, StepOK c p -> Run (apply_pair c p) k ps -> Run c (S k) (p :: ps).

(** corpus state after merging the pairs [ps] in turn *)
Definition state_after (c : corpus) (ps : list pair) : corpus := fold_left apply_pair ps c.

(** a token is a single byte or one of the listed entries *)
Definition TokOK (tbl : list token) (t : token) : Prop := (exists b, t = [b]) \/ In t tbl.
(** all tokens of the corpus are non-empty and single bytes or entries of [tbl] *)
Definition CorpusOK (tbl : list token) (c : corpus) : Prop :=
  forall w k, In (w, k) c -> Forall (fun t => t <> [] /\ TokOK tbl t) w.

(** number of occurrences of a word in a list of words *)
Fixpoint occ (w : str) (ws : list str) : N :=
  match ws with [] => 0 | x :: r => (if nlist_eqb x w then 1 else 0) + occ w r end.

(** ** The counting threads as a transition system.  [queue]: lines not yet
    pulled from the shared iterator; [held]: per worker the line it is working on;
    [chan]: bounded channel of per-line maps (represented by their lines);
    [recv]: lines whose maps the main thread has folded, in arrival order. *)
Record pool := { queue : list (list str); held : list (option (list str));
                 chan : list (list str); recv : list (list str) }.
Definition held_lines (h : list (option (list str))) : list (list str) :=
  flat_map (fun o => match o with Some l => [l] | None => [] end) h.
Fixpoint set_nth {A} (l : list A) (i : nat) (x : A) : list A :=
  match l, i with
  | [], _ => []
  | _ :: r, O => x :: r
  | y :: r, S i' => y :: set_nth r i' x
  end.
Inductive pool_step (cap : nat) : pool -> pool -> Prop :=
| Pull : forall i l q h ch rc, nth_error h i = Some None ->
    pool_step cap {| queue := l :: q; held := h; chan := ch; recv := rc |}
                  {| queue := q; held := set_nth h i (Some l); chan := ch; recv := rc |}
| Send : forall i l q h ch rc, nth_error h i = Some (Some l) -> (length ch < cap)%nat ->
    pool_step cap {| queue := q; held := h; chan := ch; recv := rc |}
                  {| queue := q; held := set_nth h i None; chan := ch ++ [l]; recv := rc |}
| Recv : forall l q h ch rc,
    pool_step cap {| queue := q; held := h; chan := l :: ch; recv := rc |}
                  {| queue := q; held := h; chan := ch; recv := rc ++ [l] |}.
Inductive pool_reach (cap : nat) : pool -> pool -> Prop :=
| reach_refl : forall s, pool_reach cap s s
| reach_step : forall s t u, pool_reach cap s t -> pool_step cap t u -> pool_reach cap s u.
Definition pool_init (lines : list (list str)) (threads : nat) : pool :=
  {| queue := lines; held := repeat None threads; chan := []; recv := [] |}.
(** the fold over the channel has ended: nothing queued, held or in flight *)
Definition pool_done (s : pool) : Prop := queue s = [] /\ held_lines (held s) = [] /\ chan s = [].

(** well-formed test strings: Unicode scalar range *)
Definition wf_input (v : val) : Prop := Forall (Forall (fun c => c < 1114112)) (in_tests v).

(** ** The incremental statistics of the implementation ([update_stats]),
    transcribed per changed word.  [old_scan]: the pairs whose statistics are
    decremented while walking the old word ([prev] = token in front of the
    current position); [new_scan]: the pairs incremented while walking the new
    word.  Frequencies are abstracted to total functions [pair -> N] (absent key
    = 0); [N.sub] is truncated like [saturating_sub]. *)
Definition starts_match (p : pair) (s : word) : bool :=
  match s with a :: b :: _ => tok_eqb a (fst p) && tok_eqb b (snd p) | _ => false end.
Definition bpair (prev : option token) (a : token) : list pair :=
  match prev with Some z => [(z, a)] | None => [] end.
(** the pair after a match at [.. b] [r]: decremented unless the next match starts there
    ([i < len-2 && (old[i+2] != first || i >= len-3 || old[i+3] != second)]) *)
Definition next_old (p : pair) (b : token) (r : word) : list pair :=
  match r with [] => [] | c :: _ => if starts_match p r then [] else [(b, c)] end.
Fixpoint old_scan (p : pair) (prev : option token) (w : word) : list pair :=
  match w with
  | [] => []
  | a :: t =>
    match t with
    | b :: r => if tok_eqb a (fst p) && tok_eqb b (snd p)
                then bpair prev a ++ next_old p b r ++ old_scan p (Some b) r
                else old_scan p (Some a) t
    | [] => []
    end
  end.
(** the pair after a merged token: incremented unless the next token is merged too
    ([i < len-1 && new[i+1] != merged]) *)
Definition next_new (m : token) (a : token) (t : word) : list pair :=
  match t with [] => [] | b :: _ => if tok_eqb b m then [] else [(a, b)] end.
Fixpoint new_scan (m : token) (prev : option token) (w : word) : list pair :=
  match w with
  | [] => []
  | a :: t => if tok_eqb a m then bpair prev a ++ next_new m a t ++ new_scan m (Some a) t
              else new_scan m (Some a) t
  end.

Definition fstats := pair -> N.
Definition fupd (F : fstats) (q : pair) (v : N) : fstats := fun x => if pair_eqb x q then v else F x.
Definition sub_all (l : list pair) (k : N) (F : fstats) : fstats := fold_left (fun F q => fupd F q (F q - k)) l F.
Definition add_all (l : list pair) (k : N) (F : fstats) : fstats := fold_left (fun F q => fupd F q (F q + k)) l F.
(** one entry of [changes]: old word, new word, word count [k] *)
Definition upd_word (p : pair) (w : word) (k : N) (F : fstats) : fstats :=
  add_all (new_scan (merge p) None (replace_in_word p w)) k (sub_all (old_scan p None w) k F).
(** [replace_pair] + [update_stats]: the merged pair is set to 0, then only the
    words whose occurrence count for the pair is >= 1 are visited *)
Definition upd_freq (c : corpus) (p : pair) (F : fstats) : fstats :=
  fold_left (fun F wk => if 0 <? count_pair p (word_pairs (fst wk)) then upd_word p (fst wk) (snd wk) F else F)
            c (fupd F p 0).
Definition upd_vocab (c : corpus) (p : pair) : corpus :=
  map (fun wk => if 0 <? count_pair p (word_pairs (fst wk)) then (replace_in_word p (fst wk), snd wk) else wk) c.

(** the merged token is new: no token of the corpus spells it (this is what
    distinct spellings of the table entries amount to), tokens are non-empty *)
Definition Fresh (c : corpus) (p : pair) : Prop :=
  fst p <> [] /\ snd p <> [] /\ forall w k, In (w, k) c -> ~ In (merge p) w.

(** runs of the incremental trainer: the loop of [train_bpe] on (vocabulary,
    statistics), choosing any pair whose recorded frequency is positive and maximal *)
Inductive IRun : corpus -> fstats -> nat -> list pair -> Prop :=
| IRun_budget : forall c F, IRun c F 0 []
| IRun_exhausted : forall c F k, (forall q, F q = 0) -> IRun c F k []
| IRun_step : forall c F k p ps, 0 < F p -> (forall q, F q <= F p) ->
    IRun (upd_vocab c p) (upd_freq c p F) k ps -> IRun c F (S k) (p :: ps).

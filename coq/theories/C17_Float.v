(** C17 float model: the binary32 weights of [TokenGroup::get_weights] and the values of
    [token_groups_to_sparse_coo_matrix] (src/tokenization.rs), bit for bit.

    What the code computes (read from the source):
      Empty(len)   -> [vec![0.0; len]]                                       (+0.0, both aggregations)
      Full(len)    -> [vec![weight; len]], weight = [1.0] (Sum) or [1.0 / *len as f32] (Mean)
                      ([as] binds tighter than [/]: 1.0f32 / (len as f32); len = 0 gives +inf, never stored)
      Nested(gs)   -> weight = [1.0] (Sum) or [1.0 / gs.len() as f32] (Mean);
                      [gs.iter().flat_map(|g| g.get_weights(agg)).map(|w| w * weight)]:
                      the inner weight is computed first (recursively), then multiplied ON THE RIGHT by the
                      outer factor: a leaf under Nested levels of sizes l1 (innermost) .. lk (outermost) and
                      Full n gets  fl(..fl(fl(fl(1/n) * fl(1/l1)) * fl(1/l2)).. * fl(1/lk)).
      matrix       -> [values = vec![1.0; stride]], overwritten group by group with [get_weights(Mean)] for
                      Mean items only (Sum items keep 1.0 on every token, [Empty] groups included).
    [usize as f32] is round-to-nearest-even (exact up to 2^24); [/] and [*] are IEEE binary32 operations.

    [f32] is Flocq's [binary_float 24 128] (IEEE754.BinarySingleNaN); the operations are computed on
    [Z]/[positive]; nothing executable depends on [R].  A float crosses the val protocol as its fields
    [(k s m e)]: k = 0 zero, 1 finite non-zero with the canonical 24-bit (or subnormal) mantissa (value
    m * 2^e), 2 infinity, 3 NaN; s = 1 for negative — [f32::to_bits] field by field.
    Definitions only. *)
From Coq Require Import ZArith List Bool QArith Qabs.
From Flocq Require Import Core IEEE754.BinarySingleNaN.
From TU Require Import Base C01_Model C17_Model.
Import ListNotations.
Open Scope Z_scope.

Definition prec32 : Z := 24.
Definition emax32 : Z := 128.
Definition Hprec32 : Prec_gt_0 prec32 := eq_refl.
Definition Hmax32 : Prec_lt_emax prec32 emax32 := eq_refl.
Definition f32 : Type := binary_float prec32 emax32.

Definition fdiv32 : f32 -> f32 -> f32 := @Bdiv prec32 emax32 Hprec32 Hmax32 mode_NE.
Definition fmul32 : f32 -> f32 -> f32 := @Bmult prec32 emax32 Hprec32 Hmax32 mode_NE.
(** [n as f32] for an unsigned integer: round to nearest even *)
Definition of_Z32 (z : Z) : f32 := binary_normalize prec32 emax32 Hprec32 Hmax32 mode_NE z 0 false.
Definition of_nat32 (n : nat) : f32 := of_Z32 (Z.of_nat n).
Definition f32_zero : f32 := B754_zero false.
Definition f32_one : f32 := of_Z32 1.

(** [1.0 / n as f32] *)
Definition inv32 (n : nat) : f32 := fdiv32 f32_one (of_nat32 n).

(** [get_weights]; [mean = false] is GroupAggregation::Sum *)
Fixpoint weights_fl (mean : bool) (g : tg) : list f32 :=
  match g with
  | Empty n => repeat f32_zero n
  | Full n => repeat (if mean then inv32 n else f32_one) n
  | Nested l =>
    let w := if mean then inv32 (length l) else f32_one in
    map (fun x => fmul32 x w) (flat_map (weights_fl mean) l)
  end.

(** the values of the matrix: [1.0] everywhere, overwritten by [get_weights(Mean)] for Mean items *)
Definition item_vals_fl (mean : bool) (groups : list tg) : list f32 :=
  flat_map (fun g => if mean then weights_fl true g else repeat f32_one (tg_len g)) groups.
Definition vals_fl (items : list item) : list f32 :=
  flat_map (fun it : item => item_vals_fl (snd it) (fst it)) items.

(** * val glue *)
Definition sgn_v (s : bool) : val := I (if s then 1 else 0).
Definition fl32_v (x : f32) : val :=
  match x with
  | B754_zero s => L [I 0; sgn_v s; I 0; I 0]
  | B754_finite s m e _ => L [I 1; sgn_v s; I (Zpos m); I e]
  | B754_infinity s => L [I 2; sgn_v s; I 0; I 0]
  | B754_nan => L [I 3; I 0; I 0; I 0]
  end.

(** replace the value list of a matrix (if one was built) *)
Definition subst_vals (spv : val) (f : list val -> list val) : val :=
  match spv with
  | L [L [rows; L vals; size; gl]] => L [L [rows; L (f vals); size; gl]]
  | _ => spv
  end.

(** input modes 0, 1, 2 as in C17_Model; new mode 3: (3 group mean) -> (1 (w ...)) = [get_weights] called directly *)
Definition run_C17F (v : val) : val :=
  match v_z (v_nth 0 v) with
  | 0 =>
    let mean := v_bool (v_nth 2 v) in
    match run_mode0 v with
    | L [I 1; L toksv; spv; maskv] =>
      let items := map (fun t => (v_list v_tg (v_nth 1 t), mean)) toksv in
      L [I 1; L toksv; subst_vals spv (fun _ => map fl32_v (vals_fl items)); maskv]
    | out => out
    end
  | 1 =>
    let items := v_list v_item (v_nth 1 v) in
    match run_mode1 v with
    | L [I 1; spv; maskv] => L [I 1; subst_vals spv (fun _ => map fl32_v (vals_fl items)); maskv]
    | out => out
    end
  | 3 => L [I 1; list_v fl32_v (weights_fl (v_bool (v_nth 2 v)) (v_tg (v_nth 1 v)))]
  | _ => run_mode2 v
  end.

(** from float fields to the exact rational [(num den)] read by [v_q]; a non-finite float becomes the
    number 2^200 (no weight is near it: every closeness test is false) *)
Definition num_of_fl32_v (x : val) : val :=
  match x with
  | L [I 0; I _; I _; I _] => L [I 0; I 1]
  | L [I 1; I s; I m; I e] =>
    let sm := if Z.eqb s 0 then m else - m in
    if (0 <=? e) then L [I (sm * 2 ^ e); I 1] else L [I sm; I (2 ^ (- e))]
  | _ => L [I (2 ^ 200); I 1]
  end.
Definition conv_out (v out : val) : val :=
  match v_z (v_nth 0 v), out with
  | 0, L [I 1; toks; spv; mask] => L [I 1; toks; subst_vals spv (map num_of_fl32_v); mask]
  | 1, L [I 1; spv; mask] => L [I 1; subst_vals spv (map num_of_fl32_v); mask]
  | _, _ => out
  end.

(** mode 3: one weight per token; Mean on a positive group: the weights sum to one within 2^-20 *)
Definition check_mode3 (v out : val) : bool :=
  let g := v_tg (v_nth 1 v) in
  let mean := v_bool (v_nth 2 v) in
  match out with
  | L [I 1; L ws] =>
    Nat.eqb (length ws) (tg_len g)
    && (if mean && positiveb g then close (sumQ (map (fun w => v_q (num_of_fl32_v w)) ws)) 1 else true)
  | _ => false
  end.
Definition agree_mode3 (v out : val) : bool :=
  let g := v_tg (v_nth 1 v) in
  let mean := v_bool (v_nth 2 v) in
  match out with
  | L [I 1; L ws] => vals_close (map q_v (weights mean g)) (map num_of_fl32_v ws)
  | _ => false
  end.

(** The executable statement on an output whose weights are float fields: the clauses of [check_C17]
    are decided on the EXACT values of the returned binary32 numbers. *)
Definition check_C17F (v out : val) : bool :=
  match v_z (v_nth 0 v) with
  | 3 => check_mode3 v out
  | _ => check_C17 v (conv_out v out)
  end.

(** tokenizer batches with overlapping special-token sets: the split depends on the hash order of the
    alternation; as in [agree_C17] (and C01) the implementation is then judged by [check_C17] alone *)
Definition overlap_escape (v : val) : bool :=
  Z.eqb (v_z (v_nth 0 v)) 0 && negb (v_bool (v_nth 3 v)) &&
  match cfg_base (v_cfg (v_nth 1 v)) with
  | Some b => negb (prefix_freeb (b_sv b))
  | None => false
  end.

(** Correspondence: bit for bit with the float model and, second line, [agree_C17] against the
    rational model (integers exactly, weights within 2^-20). *)
Definition agree_C17F (v m out : val) : bool :=
  match v_z (v_nth 0 v) with
  | 3 => val_eqb m out && agree_mode3 v out
  | _ => (val_eqb m out || overlap_escape v) && agree_C17 v (run_C17 v) (conv_out v out)
  end.

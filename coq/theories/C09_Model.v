(** C09: val glue around the Pipe and Buffered LTS with consumer drop.
    input  = (mode xs W choices dropk cap)
      mode 0  Pipe, controlled schedule, the consumer drops after [dropk] items (dropk < 0: never)
      mode 1  Buffered with capacity [cap] over the items 0..|xs|-1, controlled schedule, drop after dropk
      mode 2  panic: a child process runs a Pipe whose function panics at item [dropk]
      mode 3  Pipe free-running: consume dropk items, idle, drop; measured look-ahead
      mode 4  Buffered free-running, likewise
    output mode 0/1 = (events out pulled exited)   exact correspondence
           mode 2   = (terminated)
           mode 3/4 = (ahead_before_drop pulled_after_drop exited)  measured, judged by the bounds *)
From TU Require Import Base Pipe_Model C05_Model.
Local Open Scope Z_scope.

Definition buf_fuel (n nchoices : nat) : nat := (nchoices + (3 * n + 4) * 4)%nat.

Definition v_dropk (v : val) : option nat :=
  let z := v_z v in if z <? 0 then None else Some (Z.to_nat z).

Definition count_exited (l : list tstate) : nat :=
  length (filter (fun st => match st with Exited => true | _ => false end) l).

Definition run_C09 (v : val) : val :=
  let mode := v_nat (v_nth 0 v) in
  let xs := v_list v_z (v_nth 1 v) in
  let W := v_nat (v_nth 2 v) in
  let choices := v_list v_nat (v_nth 3 v) in
  let dropk := v_dropk (v_nth 4 v) in
  let cap := v_nat (v_nth 5 v) in
  let n := length xs in
  match mode with
  | 0%nat =>
      let '(evs, s) := run_sched Z Z fZ 0 (pipe_fuel n W (length choices)) 0 choices dropk (init Z Z xs W) in
      L [list_v ev_v evs; list_v z_v (out s); nat_v (next s); nat_v (count_exited (thr s))]
  | 1%nat =>
      let '(evs, s) := brun_sched true (buf_fuel n (length choices)) 0 choices dropk (binit n cap) in
      L [list_v ev_v evs; list_v nat_v (bout s); nat_v (bpulled s);
         bool_v match bthr s with BExited => true | _ => false end]
  | 2%nat => L [I 1]
  | 3%nat => L [nat_v (2 * W); nat_v W; I 1]
  | _ => L [nat_v (cap + 1); I 1; I 1]
  end.

(** walk an event list: (consumed, dropped?, pulled at drop, gots-after-drop per actor) *)
Definition ev_of (v : val) : (nat * nat * nat * nat) :=
  (v_nat (v_nth 0 v), v_nat (v_nth 1 v), v_nat (v_nth 2 v), v_nat (v_nth 3 v)).

Fixpoint walk (buffered : bool) (bound_before : nat) (extra_after : nat) (evs : list (nat * nat * nat * nat))
         (consumed : nat) (dropped : option nat) (gots : list nat) : bool :=
  match evs with
  | [] => true
  | (a, c, i, p) :: rest =>
      let consumed' := if (Nat.eqb c 10 || Nat.eqb c 14)%bool then S consumed else consumed in
      match dropped with
      | None =>
          (* 13 = out of fuel / protocol anomaly, 5 = producer kept going after a failed send *)
          negb (Nat.eqb c 13) && (p <=? consumed' + bound_before)%nat
          && walk buffered bound_before extra_after rest consumed' (if Nat.eqb c 11 then Some p else None) gots
      | Some p0 =>
          negb (Nat.eqb c 13) && negb (buffered && Nat.eqb c 5) && negb (Nat.eqb c 10) && negb (Nat.eqb c 14)
          && (p <=? p0 + extra_after)%nat
          && (if Nat.eqb c 1 then negb (existsb (Nat.eqb a) gots) else true)
          && walk buffered bound_before extra_after rest consumed' dropped (if Nat.eqb c 1 then a :: gots else gots)
      end
  end.

Definition has_code (c : nat) (evs : list (nat * nat * nat * nat)) : bool :=
  existsb (fun e => match e with (_, c', _, _) => Nat.eqb c c' end) evs.

Definition check_C09 (v o : val) : bool :=
  let mode := v_nat (v_nth 0 v) in
  let xs := v_list v_z (v_nth 1 v) in
  let W := v_nat (v_nth 2 v) in
  let cap := v_nat (v_nth 5 v) in
  let n := length xs in
  match mode, o with
  | 0%nat, L [L evs; L _; I _; I _] =>
      let es := map ev_of evs in
      let outl := v_list v_z (v_nth 1 o) in
      walk false (2 * W) W es 0 None []
      && zlist_eqb outl (map fZ (firstn (length outl) xs))
      && (if has_code 11 es then Nat.eqb (v_nat (v_nth 3 o)) W   (* after the drop every worker returns *)
          else has_code 12 es && Nat.eqb (length outl) n)
  | 1%nat, L [L evs; L _; I _; I _] =>
      let es := map ev_of evs in
      let outl := v_list v_nat (v_nth 1 o) in
      walk true (cap + 1) 1 es 0 None []
      && nlist_eqb (map N.of_nat outl) (map N.of_nat (seq 0 (length outl)))
      && (if has_code 11 es then v_bool (v_nth 3 o)
          else has_code 12 es && Nat.eqb (length outl) n)
  | 2%nat, L [I t] => Z.eqb t 1
  | 3%nat, L [I ahead; I after; I ex] =>
      (* W = 0 is a lazy map: nothing is pulled ahead *)
      (Z.to_nat ahead <=? 2 * W)%nat && (Z.to_nat after <=? W)%nat && Z.eqb ex 1 && (0 <=? ahead) && (0 <=? after)
  | 4%nat, L [I ahead; I after; I ex] =>
      (Z.to_nat ahead <=? cap + 1)%nat && (Z.to_nat after <=? 1)%nat && Z.eqb ex 1 && (0 <=? ahead) && (0 <=? after)
  | _, _ => false
  end.

(** modes 3 and 4 are measurements: agreement = the bounds hold *)
Definition agree_C09 (v m o : val) : bool :=
  match v_nat (v_nth 0 v) with
  | 3%nat | 4%nat => check_C09 v o
  | _ => val_eqb m o
  end.

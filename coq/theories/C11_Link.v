(** C11 -> C10: the code-point-level normal form that [clean] establishes gives
    C10's cluster-level [Clean] for every segmentation without mixed clusters,
    so [clean_clean] discharges the premise of C10's [ops_roundtrip]. *)
From TU Require Import Base C10_Model C10_Proofs.
From TU Require C11_Model C11_Proofs.
From Coq Require Import Lia.
Open Scope N_scope.

Module M := C11_Model.
Module P := C11_Proofs.

(** the two developments use the same notions of stripping *)
Lemma strip_cp_same s : C10_Model.strip_cp s = M.strip_cps s.
Proof. reflexivity. Qed.
Lemma strip_same seg : C10_Model.strip seg = M.strip_cl seg.
Proof. reflexivity. Qed.

Lemma scs_app_r a : forall b, M.scs (a ++ b) = true -> M.scs b = true.
Proof.
  induction a as [|x a IH]; intros b H; [exact H|]. cbn [app M.scs] in H.
  apply andb_true_iff in H as [_ H]. auto.
Qed.

Lemma concat_head_nonws (r : list cluster) :
  M.wf_seg r = true -> M.head_is M.nonws_cp (concat r) = true -> r <> [] /\ head_nonws r.
Proof.
  destruct r as [|d r']; [cbn; discriminate|]. intros H Hh. split; [discriminate|].
  rewrite <- (P.head_nonws_concat _ H) in Hh. cbn [M.head_is] in Hh. unfold M.nonws_cl in Hh.
  cbn [head_nonws]. apply negb_true_iff. exact Hh.
Qed.

Lemma SC_of_scs seg : M.wf_seg seg = true -> M.scs (concat seg) = true -> SC seg.
Proof.
  induction seg as [|c r IH]; intros H Hs; [exact Logic.I|].
  pose proof H as H0. apply P.wf_seg_cons in H as (Hne & Hm & Hr).
  cbn [concat] in Hs. cbn [SC]. split; [|apply IH; [exact Hr|exact (scs_app_r _ _ Hs)]].
  intros Hw. destruct c as [|x c']; [congruence|].
  unfold cl_ws in Hw. cbn [forallb] in Hw. apply andb_true_iff in Hw as [Hx Hc'].
  cbn [app M.scs] in Hs. rewrite Hx in Hs.
  apply andb_true_iff in Hs as [Hs _]. apply andb_true_iff in Hs as [H32 Hh].
  apply N.eqb_eq in H32. subst x.
  destruct c' as [|y c''].
  - cbn [app] in Hh. destruct (concat_head_nonws r Hr Hh) as [Hr1 Hr2]. auto.
  - exfalso. cbn [app M.head_is] in Hh. cbn [forallb] in Hc'. apply andb_true_iff in Hc' as [Hy _].
    unfold M.nonws_cp in Hh. rewrite Hy in Hh. discriminate.
Qed.

Lemma Clean_of_cleansb s seg :
  M.cleansb s = true -> concat seg = s -> M.wf_seg seg = true -> Clean seg.
Proof.
  intros Hc <- Hw. unfold M.cleansb in Hc. apply andb_true_iff in Hc as [Hh Hs]. split.
  - destruct seg as [|c r]; [exact Logic.I|]. cbn [head_nonws].
    apply P.wf_seg_cons in Hw as (Hne & Hm & _). destruct c as [|x c']; [congruence|].
    cbn [concat app M.head_is] in Hh. apply negb_true_iff in Hh.
    unfold cl_ws. cbn [forallb]. rewrite Hh. reflexivity.
  - apply SC_of_scs; assumption.
Qed.

(** [clean_clean], cluster form: whatever segmentation (without mixed clusters)
    the cleaned text gets, it is [Clean] in the sense of C10 *)
Lemma clean_Clean_seg seg seg' :
  M.wf_seg seg = true -> concat seg' = M.clean seg -> M.wf_seg seg' = true -> Clean seg'.
Proof.
  intros H Hc H'. apply (Clean_of_cleansb (M.clean seg)); [apply P.clean_clean_seg; exact H|exact Hc|exact H'].
Qed.

Lemma clean_Clean_cp s : Clean (singletons (M.clean (singletons s))).
Proof.
  apply (clean_Clean_seg (singletons s)); [apply P.wf_singletons|apply P.concat_singletons|apply P.wf_singletons].
Qed.

(** code-point mode: cleaning two texts that agree modulo whitespace yields a
    pair that satisfies the premise of C10's round trip *)
Lemma clean_pair_premise_cp a b :
  M.strip_cps a = M.strip_cps b ->
  let f := singletons (M.clean (singletons a)) in
  let t := singletons (M.clean (singletons b)) in
  Clean f /\ Clean t /\ strip f = strip t.
Proof.
  intros H. cbv zeta. split; [apply clean_Clean_cp|]. split; [apply clean_Clean_cp|].
  rewrite !strip_same, !P.strip_cl_singletons. f_equal.
  rewrite <- (P.concat_singletons a), <- (P.concat_singletons b) in H.
  rewrite <- !P.clean_nonws_seg in H. exact H.
Qed.

Lemma clean_pair_roundtrip_cp a b :
  M.strip_cps a = M.strip_cps b ->
  let f := singletons (M.clean (singletons a)) in
  exists ops, operations f (singletons (M.clean (singletons b))) = Some ops /\ length ops = length f
              /\ repair f ops = Some (M.clean (singletons b)).
Proof.
  intros H. cbv zeta. destruct (clean_pair_premise_cp a b H) as (Hf & Ht & Hs).
  destruct (ops_roundtrip_l _ _ Hf Ht Hs) as (ops & H1 & H2 & H3).
  exists ops. rewrite P.concat_singletons in H3. auto.
Qed.

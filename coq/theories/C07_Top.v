(** C07 proofs, part 3: the statements about [run_gen] and the executable check. *)
From TU Require Import Base C07_Model C07_Proofs C07_Specs.
Require Import Lia.

Section Top.
Context {A : Type}.
Implicit Types (srcs : list (list A)).

Lemma init_measure : forall srcs,
  total_len srcs + cf (repeat false (length srcs)) < gen_fuel srcs.
Proof. intros. unfold gen_fuel. rewrite cf_repeat. lia. Qed.

Lemma run_gen_unfold : forall s o srcs, is_weighted s && existsb is_nil srcs = false ->
  run_gen s o srcs = run_loop (next_idx s o) (gen_fuel srcs) srcs 0 (repeat false (length srcs)) 0.
Proof. intros s o srcs H. unfold run_gen. rewrite H. reflexivity. Qed.

Lemma gen_total_l : forall s o srcs, srcs <> [] -> oracle_guard o ->
  is_weighted s && existsb is_nil srcs = false ->
  exists out, run_gen s o srcs = Ok out.
Proof.
  intros s o srcs Hne Hg Hc. rewrite run_gen_unfold by exact Hc.
  apply (run_total s o _ _ _ _ 0 (inv_init s srcs Hne) (init_measure srcs)). left. exact Hg.
Qed.

Lemma gen_ctor_l : forall s o srcs, is_weighted s && existsb is_nil srcs = true ->
  run_gen s o srcs = Err CtorErr.
Proof. intros s o srcs H. unfold run_gen. rewrite H. reflexivity. Qed.

(** for an arbitrary oracle: the fuel suffices and no assertion / index panic is reached *)
Lemma gen_safe_l : forall s o srcs, srcs <> [] ->
  run_gen s o srcs <> Err OutOfFuel /\ run_gen s o srcs <> Err AssertFail.
Proof.
  intros s o srcs Hne. destruct (is_weighted s && existsb is_nil srcs) eqn:Hc.
  - rewrite gen_ctor_l by exact Hc. split; discriminate.
  - rewrite run_gen_unfold by exact Hc.
    destruct (run_total s o _ _ _ _ 0 (inv_init s srcs Hne) (init_measure srcs)) as [Hg _].
    destruct (run_loop _ _ _ _ _ _) as [out|[]]; cbn in Hg; try contradiction; split; discriminate.
Qed.

Lemma gen_ti_l : forall s o srcs out, srcs <> [] -> run_gen s o srcs = Ok out -> TI srcs out.
Proof.
  intros s o srcs out Hne H. unfold run_gen in H.
  destruct (is_weighted s && existsb is_nil srcs); [discriminate|].
  eapply run_ti; [apply inv_init; exact Hne|exact H].
Qed.

Lemma gen_items_l : forall s o srcs out, srcs <> [] -> run_gen s o srcs = Ok out ->
  (forall j, proj j out = nth j srcs []) /\ length out = total_len srcs /\
  Forall (fun p => fst p < length srcs) out.
Proof. intros s o srcs out Hne H. apply TI_spec. eapply gen_ti_l; eauto. Qed.

Lemma gen_total_nw_l : forall s o srcs, srcs <> [] -> s <> Weighted ->
  exists out, run_gen s o srcs = Ok out.
Proof.
  intros s o srcs Hne Hs. rewrite run_gen_unfold by (destruct s; [reflexivity|reflexivity|congruence]).
  apply (run_total s o _ _ _ _ 0 (inv_init s srcs Hne) (init_measure srcs)). right. exact Hs.
Qed.

Lemma sequential_spec_l : forall o srcs, srcs <> [] -> run_gen Sequential o srcs = Ok (seq_spec srcs).
Proof.
  intros o srcs Hne. destruct (gen_total_nw_l Sequential o srcs Hne ltac:(discriminate)) as [out H].
  rewrite H. f_equal. rewrite run_gen_unfold in H by reflexivity.
  apply (seq_core _ _ _ _ _ _ _ (inv_init Sequential srcs Hne) H).
Qed.

Lemma interleaved_spec_l : forall o srcs, srcs <> [] -> run_gen Interleaved o srcs = Ok (rr srcs).
Proof.
  intros o srcs Hne. destruct (gen_total_nw_l Interleaved o srcs Hne ltac:(discriminate)) as [out H].
  rewrite H. f_equal. rewrite run_gen_unfold in H by reflexivity.
  rewrite (inter_core _ _ _ _ _ _ _ (inv_init Interleaved srcs Hne) H). apply ts_0_hs_0.
Qed.

End Top.

(** * The executable statement *)
Lemma item_eqb_eq : forall a b : item, item_eqb a b = true <-> a = b.
Proof.
  intros [a1 a2] [b1 b2]. unfold item_eqb. cbn [fst snd].
  rewrite andb_true_iff, Bool.eqb_true_iff, Nat.eqb_eq. split; [intros [-> ->]; reflexivity|].
  intros H. injection H as -> ->. auto.
Qed.

Lemma out_eqb_eq : forall a b : list (nat * item), out_eqb item_eqb a b = true <-> a = b.
Proof.
  induction a as [|[i x] a IH]; destruct b as [|[j y] b]; cbn [out_eqb]; try (split; [discriminate|congruence]).
  - split; reflexivity.
  - rewrite !andb_true_iff, Nat.eqb_eq, item_eqb_eq, IH. split.
    + intros [[-> ->] ->]. reflexivity.
    + intros H. injection H as -> -> ->. auto.
Qed.

Lemma v_out_out_v : forall p, v_out (out_v p) = p.
Proof.
  intros [j [b n]]. unfold v_out, out_v. cbn [fst snd v_nth nth].
  unfold v_nat, nat_v, v_bool, bool_v. cbn [v_z]. rewrite !Nat2Z.id.
  destruct b; reflexivity.
Qed.

Lemma v_list_list_v : forall out, v_list v_out (list_v out_v out) = out.
Proof.
  intros. unfold v_list, list_v. rewrite map_map. rewrite <- (map_id out) at 2.
  apply map_ext. apply v_out_out_v.
Qed.

Lemma v_oracle_guard : forall v, oracle_guard (v_oracle v).
Proof. intros v t m Hm. unfold v_oracle. apply Nat.mod_upper_bound. lia. Qed.

Lemma check_run_l : forall v, v_srcs v <> [] -> check_C07 v (run_C07 v) = true.
Proof.
  intros v Hne. unfold run_C07, check_C07.
  set (s := v_strategy (v_nth 0 v)). set (srcs := v_srcs v) in *.
  destruct (is_weighted s && existsb is_nil srcs) eqn:Hc.
  - rewrite (gen_ctor_l s _ srcs Hc). cbn [shape_ctor_err]. reflexivity.
  - destruct (gen_total_l s (v_oracle v) srcs Hne (v_oracle_guard v) Hc) as [out H].
    rewrite H. cbn [shape_ctor_err shape_ok v_nth nth].
    rewrite v_list_list_v.
    assert (Hti : is_ti item_eqb srcs out = true).
    { apply (is_ti_TI item_eqb item_eqb_eq). eapply gen_ti_l; eauto. }
    rewrite Hti. unfold v_bool, v_nat, nat_v. cbn [v_z]. rewrite Nat2Z.id, Nat.eqb_refl.
    cbn [Z.eqb negb andb].
    destruct s eqn:Es.
    + rewrite sequential_spec_l in H by exact Hne. injection H as <-. apply out_eqb_eq. reflexivity.
    + rewrite interleaved_spec_l in H by exact Hne. injection H as <-. apply out_eqb_eq. reflexivity.
    + reflexivity.
Qed.

(** what a passing check says about an implementation output, at [Prop] level *)
Lemma check_sound_l : forall v out, check_C07 v out = true -> shape_ctor_err out = false ->
  let srcs := v_srcs v in
  let items := v_list v_out (v_nth 1 out) in
  (forall j, proj j items = nth j srcs []) /\ length items = total_len srcs /\
  Forall (fun p => fst p < length srcs) items /\
  (v_strategy (v_nth 0 v) = Sequential -> items = seq_spec srcs) /\
  (v_strategy (v_nth 0 v) = Interleaved -> items = rr srcs).
Proof.
  intros v out H Hs. unfold check_C07 in H. rewrite Hs in H. cbn zeta.
  rewrite !andb_true_iff in H. destruct H as [[[[_ Hti] _] _] Hspec].
  apply (is_ti_TI item_eqb item_eqb_eq) in Hti. apply TI_spec in Hti.
  destruct Hti as (Hp & Hl & Hf). repeat split; auto.
  - intros E. rewrite E in Hspec. apply out_eqb_eq. exact Hspec.
  - intros E. rewrite E in Hspec. apply out_eqb_eq. exact Hspec.
Qed.

Lemma is_ti_iff_l : forall (srcs : list (list item)) (out : list (nat * item)),
  is_ti item_eqb srcs out = true <->
  (forall j, proj j out = nth j srcs []) /\ Forall (fun p => fst p < length srcs) out.
Proof.
  intros srcs out. rewrite (is_ti_TI item_eqb item_eqb_eq). split.
  - intros H. apply TI_spec in H. tauto.
  - intros [H1 H2]. apply spec_TI; assumption.
Qed.

(** * The unrepaired interleaved selection diverges on lengths [1;3] *)
Lemma probe_pinned_stuck : forall g idx,
  idx < 2 -> probe_pinned [true; false] 1 g idx = None.
Proof.
  induction g as [|g IH]; intros idx H; [reflexivity|].
  destruct idx as [|[|idx]]; try lia; cbn [probe_pinned]; cbn; apply IH; lia.
Qed.

Lemma pinned_diverges_l : forall (A : Type) (a b c d : A) f g,
  run_pinned f g [[a]; [b; c; d]] = Err OutOfFuel.
Proof.
  intros A a b c d f g. unfold run_pinned.
  destruct f as [|f]; [reflexivity|].
  destruct g as [|g]; [reflexivity|]. destruct g as [|g]; [reflexivity|].
  destruct f as [|f]; [reflexivity|].
  destruct f as [|f]; [reflexivity|].
  destruct f as [|f]; [reflexivity|].
  cbn. rewrite (probe_pinned_stuck g 1) by lia. reflexivity.
Qed.
